(* C20 proofs *)
From Coq Require Import NArith ZArith List Bool Lia.
From Coq.Strings Require Import Byte.
From LV Require Import Lib.Bytes Lib.Decimal Model.C20.
Import ListNotations.
Local Open Scope N_scope.
Ltac Zify.zify_post_hook ::= Z.to_euclidean_division_equations.

Definition dval (ds : bytes) : N := value (map digit_val ds).

Lemma dec_acc_spec ds : forall acc, forallb is_digit ds = true ->
  dec_acc ds acc = Some (acc * 10 ^ N.of_nat (length ds) + dval ds).
Proof.
  unfold dval. induction ds as [|b r IH]; intros acc H.
  - simpl. unfold value. simpl. f_equal. lia.
  - cbn [forallb] in H. apply andb_true_iff in H as [Hb Hr].
    cbn [dec_acc]. rewrite Hb. rewrite IH by exact Hr.
    cbn [map length]. change (digit_val b :: map digit_val r) with ([digit_val b] ++ map digit_val r).
    rewrite value_app. rewrite map_length. unfold value at 2. cbn [fold_left].
    rewrite Nat2N.inj_succ, N.pow_succ_r'. f_equal. lia.
Qed.

Lemma dec_acc_none ds : forall acc, forallb is_digit ds = false -> dec_acc ds acc = None.
Proof.
  induction ds as [|b r IH]; intros acc H; [discriminate|].
  cbn [forallb] in H. cbn [dec_acc]. destruct (is_digit b); [|reflexivity].
  apply IH. exact H.
Qed.

Lemma N_of_dec_spec ds : ds <> [] -> forallb is_digit ds = true -> N_of_dec ds = Some (dval ds).
Proof.
  intros Hne H. unfold N_of_dec. destruct ds as [|b r]; [congruence|].
  rewrite dec_acc_spec by exact H. f_equal; lia.
Qed.

Lemma dval_app a b : dval (a ++ b) = dval a * 10 ^ N.of_nat (length b) + dval b.
Proof. unfold dval. rewrite map_app, value_app, map_length. reflexivity. Qed.

Lemma dval_zeros j : dval (repeat zero_byte j) = 0.
Proof.
  induction j as [|j IH]; [reflexivity|].
  cbn [repeat]. change (zero_byte :: repeat zero_byte j) with ([zero_byte] ++ repeat zero_byte j).
  rewrite dval_app, IH. unfold dval, zero_byte. cbn [map]. rewrite digit_val_digit_byte by lia.
  unfold value. simpl. lia.
Qed.

Lemma is_digit_zero : is_digit zero_byte = true.
Proof. apply is_digit_digit_byte. lia. Qed.

Lemma forallb_zeros j : forallb is_digit (repeat zero_byte j) = true.
Proof. induction j; simpl; [reflexivity | rewrite is_digit_zero; assumption]. Qed.

(* ---- fixed_digits ---- *)
Lemma fixed_digits_length w : forall n, length (fixed_digits w n) = w.
Proof. induction w as [|w IH]; intro n; simpl; [reflexivity|]. rewrite app_length, IH. simpl. lia. Qed.

Lemma fixed_digits_digits w : forall n, forallb is_digit (fixed_digits w n) = true.
Proof.
  induction w as [|w IH]; intro n; cbn [fixed_digits]; [reflexivity|].
  rewrite forallb_app, IH. cbn [forallb]. rewrite is_digit_digit_byte; [reflexivity|].
  apply N.mod_lt. lia.
Qed.

Lemma fixed_digits_dval w : forall n, n < 10 ^ N.of_nat w -> dval (fixed_digits w n) = n.
Proof.
  induction w as [|w IH]; intros n H.
  - simpl in H. cbn. unfold dval, value. simpl. lia.
  - cbn [fixed_digits]. rewrite dval_app. cbn [length].
    rewrite Nat2N.inj_succ, N.pow_succ_r' in H.
    assert (Hq : n / 10 < 10 ^ N.of_nat w) by (apply N.div_lt_upper_bound; lia).
    rewrite IH by exact Hq.
    unfold dval at 1. cbn [map]. rewrite digit_val_digit_byte by (apply N.mod_lt; lia).
    unfold value. cbn [fold_left]. change (10 ^ N.of_nat 1) with 10. lia.
Qed.

(* ---- rstrip0 ---- *)
Lemma rstrip0_spec ds : exists k, ds = rstrip0 ds ++ repeat zero_byte k.
Proof.
  induction ds as [|d r [k IH]].
  - exists O. reflexivity.
  - cbn [rstrip0]. destruct (rstrip0 r) as [|x t] eqn:E.
    + destruct (byte_eqb d zero_byte) eqn:Ed.
      * apply byte_eqb_eq in Ed. rewrite Ed. exists (S k). simpl in *. f_equal. exact IH.
      * exists k. simpl in *. f_equal. exact IH.
    + exists k. simpl in *. f_equal. exact IH.
Qed.

Lemma rstrip0_digits ds : forallb is_digit ds = true -> forallb is_digit (rstrip0 ds) = true.
Proof.
  induction ds as [|d r IH]; intro H; [reflexivity|].
  cbn [forallb] in H. apply andb_true_iff in H as [Hd Hr]. specialize (IH Hr).
  cbn [rstrip0]. destruct (rstrip0 r) as [|x t] eqn:E.
  - destruct (byte_eqb d zero_byte); [reflexivity|]. cbn [forallb]. rewrite Hd. reflexivity.
  - cbn [forallb] in *. rewrite Hd. exact IH.
Qed.

Lemma rstrip0_length ds : (length (rstrip0 ds) <= length ds)%nat.
Proof.
  destruct (rstrip0_spec ds) as [k H]. rewrite H at 2. rewrite app_length. lia.
Qed.

Lemma ljust8_strip F : length F = 8%nat -> forallb is_digit F = true ->
  let S := strip_frac F in
  ljust8 S = F /\ forallb is_digit S = true /\ (1 <= length S <= 8)%nat.
Proof.
  intros HL HD S. subst S. unfold strip_frac.
  destruct (rstrip0_spec F) as [k Hk]. pose proof (rstrip0_digits F HD) as Hdg.
  pose proof (rstrip0_length F) as Hlen.
  destruct (rstrip0 F) as [|x t] eqn:E.
  - simpl in Hk. assert (k = 8%nat) by (rewrite Hk, repeat_length in HL; exact HL). subst k.
    split; [rewrite Hk; reflexivity|]. split; [cbn; rewrite is_digit_zero; reflexivity | simpl; lia].
  - split.
    + assert (Hk8 : k = (8 - length (x :: t))%nat).
      { rewrite Hk, app_length, repeat_length in HL. lia. }
      unfold ljust8. rewrite Hk. rewrite Hk8. reflexivity.
    + split; [exact Hdg | simpl in *; lia].
Qed.

(* ---- split_dot ---- *)
Lemma digit_not_dot b : is_digit b = true -> byte_eqb b dot_byte = false.
Proof.
  intro H. apply byte_eqb_neq. intro E. subst. unfold is_digit, dot_byte in H.
  rewrite byte_of_N_small in H by lia. simpl in H. discriminate.
Qed.

Lemma split_dot_digits a b : forallb is_digit a = true -> split_dot (a ++ dot_byte :: b) = Some (a, b).
Proof.
  induction a as [|x a IH]; intro H.
  - simpl. rewrite byte_eqb_refl. reflexivity.
  - cbn [forallb] in H. apply andb_true_iff in H as [Hx Ha].
    cbn [app split_dot]. rewrite digit_not_dot by exact Hx. rewrite IH by exact Ha. reflexivity.
Qed.

Lemma split_dot_spec s a b : split_dot s = Some (a, b) -> s = a ++ dot_byte :: b.
Proof.
  revert a b. induction s as [|x s IH]; intros a b H; [discriminate|].
  cbn [split_dot] in H. destruct (byte_eqb x dot_byte) eqn:E.
  - apply byte_eqb_eq in E. inversion H; subst. reflexivity.
  - destruct (split_dot s) as [[a' c']|]; [|discriminate]. inversion H; subst.
    simpl. f_equal. apply IH. reflexivity.
Qed.

(* ---- length of dec_of_N ---- *)
Lemma value_lower d r : d <> 0 -> 10 ^ N.of_nat (length r) <= value (d :: r).
Proof.
  intro Hd. change (d :: r) with ([d] ++ r). rewrite value_app. unfold value at 1. cbn [fold_left].
  assert (1 <= d) by lia. nia.
Qed.

Lemma dec_of_N_length n k : n < 10 ^ N.of_nat k -> (1 <= k)%nat -> (1 <= length (dec_of_N n) <= k)%nat.
Proof.
  intros H Hk. destruct (digits_spec n) as (Hv & Hf & Hne & Hhd & Hz).
  unfold dec_of_N. rewrite map_length.
  destruct (N.eq_dec n 0) as [->|Hn0].
  - rewrite Hz by reflexivity. simpl. lia.
  - destruct (digits n) as [|d r] eqn:E; [congruence|]. simpl in Hhd.
    assert (Hd : d <> 0) by (apply Hhd; lia).
    pose proof (value_lower d r Hd) as Hlow. rewrite Hv in Hlow.
    split; [simpl; lia|]. cbn [length].
    destruct (Nat.le_gt_cases (S (length r)) k) as [Hle|Hgt]; [exact Hle|exfalso].
    assert (10 ^ N.of_nat k <= 10 ^ N.of_nat (length r)) by (apply N.pow_le_mono_r; lia).
    lia.
Qed.

Lemma dec_of_N_dval n : dval (dec_of_N n) = n.
Proof.
  pose proof (N_of_dec_of_N n) as H.
  rewrite N_of_dec_spec in H by (apply dec_of_N_nonempty || apply dec_of_N_all_digits).
  congruence.
Qed.

(* ---- the main facts ---- *)

Lemma format_nonneg n : format (Z.of_N n) =
  dec_of_N (n / COIN) ++ dot_byte :: strip_frac (fixed_digits 8 (n mod COIN)).
Proof.
  unfold format. rewrite Zabs2N.id. destruct (Z.of_N n <? 0)%Z eqn:E; [apply Z.ltb_lt in E; lia|].
  reflexivity.
Qed.

Lemma COIN_pow : COIN = 10 ^ N.of_nat 8.
Proof. reflexivity. Qed.

Lemma roundtrip n : n < 10 ^ 18 -> parse (format (Z.of_N n)) = Some n.
Proof.
  intro H. rewrite format_nonneg. set (w := n / COIN). set (f := n mod COIN).
  assert (Hf : f < 10 ^ N.of_nat 8) by (subst f; rewrite <- COIN_pow; apply N.mod_lt; discriminate).
  assert (Hw : w < 10 ^ N.of_nat 10).
  { subst w. unfold COIN. change (10 ^ N.of_nat 10) with 10000000000.
    change (10 ^ 18) with 1000000000000000000 in H. lia. }
  pose proof (ljust8_strip (fixed_digits 8 f) (fixed_digits_length 8 f) (fixed_digits_digits 8 f)) as (HJ & HSd & HSl).
  set (S := strip_frac (fixed_digits 8 f)) in *.
  unfold parse. rewrite split_dot_digits by apply dec_of_N_all_digits.
  rewrite dec_of_N_all_digits, HSd.
  pose proof (dec_of_N_length w 10 Hw ltac:(lia)) as Hwl.
  replace ((1 <=? length (dec_of_N w))%nat) with true by (symmetry; apply Nat.leb_le; lia).
  replace ((length (dec_of_N w) <=? 10)%nat) with true by (symmetry; apply Nat.leb_le; lia).
  replace ((1 <=? length S)%nat) with true by (symmetry; apply Nat.leb_le; lia).
  replace ((length S <=? 8)%nat) with true by (symmetry; apply Nat.leb_le; lia).
  cbn [andb]. rewrite HJ.
  rewrite N_of_dec_spec.
  - f_equal. rewrite dval_app, fixed_digits_length, dec_of_N_dval, fixed_digits_dval by exact Hf.
    subst w f. rewrite <- COIN_pow. pose proof (N.div_mod n COIN). lia.
  - pose proof (dec_of_N_nonempty w). destruct (dec_of_N w); [congruence | discriminate].
  - rewrite forallb_app, dec_of_N_all_digits, fixed_digits_digits. reflexivity.
Qed.

Lemma exact_nonneg n : exists m k, dec_exact (format (Z.of_N n)) = Some (Z.of_N m, k)
   /\ m * 10 ^ 8 = n * 10 ^ k /\ 1 <= k <= 8.
Proof.
  rewrite format_nonneg. set (w := n / COIN). set (f := n mod COIN).
  assert (Hf : f < 10 ^ N.of_nat 8) by (subst f; rewrite <- COIN_pow; apply N.mod_lt; discriminate).
  pose proof (ljust8_strip (fixed_digits 8 f) (fixed_digits_length 8 f) (fixed_digits_digits 8 f)) as (HJ & HSd & HSl).
  set (S := strip_frac (fixed_digits 8 f)) in *.
  exists (w * 10 ^ N.of_nat (length S) + dval S), (N.of_nat (length S)).
  split; [|split].
  - unfold dec_exact.
    pose proof (dec_of_N_all_digits w) as Hwd. pose proof (dec_of_N_nonempty w) as Hwne.
    destruct (dec_of_N w) as [|b r] eqn:E; [congruence|].
    cbn [forallb] in Hwd. apply andb_true_iff in Hwd as [Hb Hr].
    cbn [app]. rewrite digit_not_minus by exact Hb.
    change (b :: r ++ dot_byte :: S) with ((b :: r) ++ dot_byte :: S).
    rewrite split_dot_digits by (cbn [forallb]; rewrite Hb, Hr; reflexivity).
    destruct S as [|s0 S'] eqn:ES; [simpl in HSl; lia|].
    rewrite N_of_dec_spec.
    + rewrite dval_app. rewrite <- E, dec_of_N_dval. reflexivity.
    + discriminate.
    + rewrite forallb_app. cbn [forallb]. rewrite Hb, Hr. exact HSd.
  - assert (Hv : dval S * 10 ^ N.of_nat (8 - length S) = f).
    { rewrite <- (fixed_digits_dval 8 f Hf), <- HJ. unfold ljust8.
      rewrite dval_app, dval_zeros, repeat_length. lia. }
    assert (Hn : n = w * 10 ^ 8 + f) by (subst w f; change (10 ^ 8) with COIN; pose proof (N.div_mod n COIN); lia).
    assert (Hp : 10 ^ 8 = 10 ^ N.of_nat (length S) * 10 ^ N.of_nat (8 - length S)).
    { rewrite <- N.pow_add_r. f_equal. lia. }
    rewrite Hn. rewrite <- Hv. rewrite Hp at 1 2.
    generalize (10 ^ N.of_nat (length S)) (10 ^ N.of_nat (8 - length S)). intros. nia.
  - lia.
Qed.

Lemma format_neg p : format (Zneg p) = minus_byte :: format (Zpos p).
Proof. reflexivity. Qed.

Lemma dec_exact_minus s m k : dec_exact s = Some (Z.of_N m, k) ->
  (forall b r, s = b :: r -> byte_eqb b minus_byte = false) ->
  dec_exact (minus_byte :: s) = Some ((- Z.of_N m)%Z, k).
Proof.
  intros H Hs. unfold dec_exact in *. rewrite byte_eqb_refl.
  destruct s as [|b r]; [simpl in H; discriminate|].
  rewrite (Hs b r eq_refl) in H.
  destruct (split_dot (b :: r)) as [[whole frac]|]; [|discriminate].
  destruct whole; [discriminate|]. destruct frac; [discriminate|].
  destruct (N_of_dec _) as [m'|]; [|discriminate].
  inversion H; subst. apply N2Z.inj in H1. subst. reflexivity.
Qed.

Lemma exact z : exists m k, dec_exact (format z) = Some (m, k)
   /\ (m * 10 ^ 8 = z * 10 ^ Z.of_N k)%Z /\ 1 <= k <= 8.
Proof.
  assert (Hnn : forall n, exists m k, dec_exact (format (Z.of_N n)) = Some (Z.of_N m, k)
      /\ (Z.of_N m * 10 ^ 8 = Z.of_N n * 10 ^ Z.of_N k)%Z /\ 1 <= k <= 8).
  { intro n. destruct (exact_nonneg n) as (m & k & H1 & H2 & H3). exists m, k. split; [exact H1|]. split; [|exact H3].
    apply (f_equal Z.of_N) in H2. rewrite !N2Z.inj_mul, !N2Z.inj_pow in H2. exact H2. }
  destruct z as [|p|p].
  - destruct (Hnn 0) as (m & k & H1 & H2 & H3). exists (Z.of_N m), k. auto.
  - destruct (Hnn (Npos p)) as (m & k & H1 & H2 & H3). exists (Z.of_N m), k. auto.
  - destruct (Hnn (Npos p)) as (m & k & H1 & H2 & H3). exists (- Z.of_N m)%Z, k.
    split; [|split; [|exact H3]].
    + rewrite format_neg. apply dec_exact_minus; [exact H1|].
      intros b r Hbr. change (Z.of_N (Npos p)) with (Zpos p) in *.
      pose proof (format_nonneg (Npos p)) as Hfn. change (Z.of_N (N.pos p)) with (Z.pos p) in Hfn.
      rewrite Hfn in Hbr.
      pose proof (dec_of_N_all_digits (N.pos p / COIN)) as Hd. pose proof (dec_of_N_nonempty (N.pos p / COIN)) as Hne.
      destruct (dec_of_N (N.pos p / COIN)) as [|b' r']; [congruence|].
      cbn [forallb] in Hd. apply andb_true_iff in Hd as [Hb' _]. inversion Hbr; subst.
      apply digit_not_minus. exact Hb'.
    + change (Z.of_N (N.pos p)) with (Z.pos p) in H2. lia.
Qed.

(* ---- rejection: parse accepts exactly the grammar and computes the exact value ---- *)
Definition in_grammar (s : bytes) (whole frac : bytes) : Prop :=
  s = whole ++ dot_byte :: frac /\ forallb is_digit whole = true /\ forallb is_digit frac = true
  /\ (1 <= length whole <= 10)%nat /\ (1 <= length frac <= 8)%nat.

Lemma parse_sound s n : parse s = Some n ->
  exists whole frac, in_grammar s whole frac /\
     n = dval whole * 10 ^ 8 + dval frac * 10 ^ N.of_nat (8 - length frac).
Proof.
  unfold parse. intro H. destruct (split_dot s) as [[whole frac]|] eqn:E; [|discriminate].
  apply split_dot_spec in E.
  destruct (forallb is_digit whole) eqn:Hw; [|discriminate].
  destruct (forallb is_digit frac) eqn:Hf; [|discriminate].
  destruct (1 <=? length whole)%nat eqn:L1; [|discriminate].
  destruct (length whole <=? 10)%nat eqn:L2; [|discriminate].
  destruct (1 <=? length frac)%nat eqn:L3; [|discriminate].
  destruct (length frac <=? 8)%nat eqn:L4; [|discriminate].
  cbn [andb] in H. apply Nat.leb_le in L1, L2, L3, L4.
  exists whole, frac. split; [unfold in_grammar; repeat split; assumption || lia|].
  rewrite N_of_dec_spec in H.
  - inversion H. unfold ljust8. rewrite !dval_app, dval_zeros, !app_length, !repeat_length.
    replace (length frac + (8 - length frac))%nat with 8%nat by lia. change (N.of_nat 8) with 8. lia.
  - destruct whole; [simpl in L1; lia | discriminate].
  - unfold ljust8. rewrite !forallb_app, Hw, Hf, forallb_zeros. reflexivity.
Qed.

Lemma parse_complete s whole frac : in_grammar s whole frac -> exists n, parse s = Some n.
Proof.
  intros (Hs & Hw & Hf & Lw & Lf). subst s. unfold parse.
  rewrite split_dot_digits by exact Hw. rewrite Hw, Hf.
  replace ((1 <=? length whole)%nat) with true by (symmetry; apply Nat.leb_le; lia).
  replace ((length whole <=? 10)%nat) with true by (symmetry; apply Nat.leb_le; lia).
  replace ((1 <=? length frac)%nat) with true by (symmetry; apply Nat.leb_le; lia).
  replace ((length frac <=? 8)%nat) with true by (symmetry; apply Nat.leb_le; lia).
  cbn [andb]. eexists. apply N_of_dec_spec.
  - destruct whole; [simpl in Lw; lia | discriminate].
  - unfold ljust8. rewrite !forallb_app, Hw, Hf, forallb_zeros. reflexivity.
Qed.
