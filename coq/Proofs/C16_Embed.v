(* C16 proofs, part (e): an object embedded in an output script is read back byte for byte, and decodes to
   the same object; Stream.update's media bookkeeping. Reuses the C15 script-template round trip. *)
From Coq Require Import NArith List Bool Lia.
From Coq.Strings Require Import Byte.
From LV Require Import Lib.Bytes Wire.Push Wire.Script Proofs.C15
  Model.C16_Env Model.C16_Wire Model.C16_All Model.C16_Embed Proofs.C16_All.
Import ListNotations.
Local Open Scope N_scope.

Definition fits (b : bytes) : Prop := N.of_nat (length b) < LIMIT.

Lemma carrier_in_table c : In (carrier_template c) output_templates.
Proof. destruct c; cbn; tauto. Qed.

Lemma carrier_values_fit c name cid pkh payload : fits name -> fits cid -> fits pkh -> fits payload ->
  values_fit (snd (carrier_template c)) (carrier_values c name cid pkh payload).
Proof.
  intros Hn Hc Hp Hd op Hin.
  destruct c;
    cbv [carrier_template snd CLAIM_NAME_PUBKEY UPDATE_CLAIM_PUBKEY SUPPORT_CLAIM_DATA_PUBKEY RETURN_DATA
         CLAIM_NAME_OPCODES UPDATE_CLAIM_OPCODES SUPPORT_CLAIM_DATA_OPCODES PAY_PUBKEY_HASH_OPS app In] in Hin;
    repeat (destruct Hin as [<- | Hin]; [first [exact I | eexists; split; [reflexivity | assumption]] |]);
    contradiction.
Qed.

Lemma carrier_expected_lookup c name cid pkh payload :
  match payload_field (fst (carrier_template c)) with
  | Some f => lookup f (expected (snd (carrier_template c)) (carrier_values c name cid pkh payload)) = Some (VBytes payload)
  | None => False
  end.
Proof. destruct c; reflexivity. Qed.

(* every object of every size below 2^32 bytes, in each of the four carrier scripts, with any name / claim id /
   pubkey hash: the script is generated and, parsed again with no hint, yields exactly the object's bytes *)
Lemma embed_extract c name cid pkh payload : fits name -> fits cid -> fits pkh -> fits payload ->
  exists s, embed c name cid pkh payload = Some s /\ extract_payload s = Some payload.
Proof.
  intros Hn Hc Hp Hd.
  pose proof (carrier_in_table c) as Hin.
  destruct (carrier_template c) as [tn ops] eqn:Et.
  destruct (generate_parse_output_fit tn ops (carrier_values c name cid pkh payload) Hin) as [s [Hg Hs]].
  { pose proof (carrier_values_fit c name cid pkh payload Hn Hc Hp Hd) as F. rewrite Et in F. exact F. }
  exists s. unfold embed. rewrite Et. cbn [snd]. split; [exact Hg|].
  unfold extract_payload. rewrite Hs.
  pose proof (carrier_expected_lookup c name cid pkh payload) as L. rewrite Et in L. cbn [fst snd] in L.
  destruct (payload_field tn) as [f|]; [|contradiction]. rewrite L. reflexivity.
Qed.

(* the whole production path: fields -> to_bytes -> output script -> parse -> from_bytes -> fields *)
Lemma embedded_object_roundtrip sch d m c name cid pkh sig fs :
  fits name -> fits cid -> fits pkh -> fits (encode_all sig fs) ->
  sig_wf sig -> tfields_ok sch m fs = true -> (fdepth fs <= d)%nat ->
  exists s, embed c name cid pkh (encode_all sig fs) = Some s /\
            match extract_payload s with
            | Some p => decode_all sch d m p = (EnvOk (mk_env sig (ser_tree fs)), WOk fs)
            | None => False
            end.
Proof.
  intros Hn Hc Hp Hd Hs Hok Hdep.
  destruct (embed_extract c name cid pkh (encode_all sig fs) Hn Hc Hp Hd) as [s [He Hx]].
  exists s. split; [exact He|]. rewrite Hx. apply all_roundtrip; assumption.
Qed.

(* ---------- Stream.update media bookkeeping ---------- *)
Lemma media_step_non_media old w h d : media_step old None w h d = None.
Proof. reflexivity. Qed.

Lemma media_step_kind old k w h d st : media_step old (Some k) w h d = Some st -> fst st = k.
Proof.
  unfold media_step. destruct old as [[k' vals]|].
  - destruct (k =? k'); destruct (if has_dims k then w else None), (if has_dims k then h else None),
      (if has_duration k then d else None); try destruct vals as [[? ?] ?]; intro H; inversion H; reflexivity.
  - destruct (if has_dims k then w else None), (if has_dims k then h else None),
      (if has_duration k then d else None); intro H; inversion H; reflexivity.
Qed.

(* an explicitly given number is what is stored afterwards, 0 included, whatever was there before *)
Lemma media_step_sets_width old k w h d : has_dims k = true ->
  exists hh dd, media_step old (Some k) (Some w) h d = Some (k, (w, hh, dd)).
Proof.
  intro Hk. unfold media_step. rewrite Hk.
  destruct (match old with Some (k', vals) => if k =? k' then Some vals else None | None => None end) as [[[bw bh] bd]|];
    destruct h, (if has_duration k then d else None); cbn [pick]; eexists; eexists; reflexivity.
Qed.

Lemma media_step_sets_duration old k w h d : has_duration k = true ->
  exists ww hh, media_step old (Some k) w h (Some d) = Some (k, (ww, hh, d)).
Proof.
  intro Hk. unfold media_step. rewrite Hk.
  destruct (match old with Some (k', vals) => if k =? k' then Some vals else None | None => None end) as [[[bw bh] bd]|];
    destruct (if has_dims k then w else None), (if has_dims k then h else None); cbn [pick]; eexists; eexists; reflexivity.
Qed.

(* nothing given and the kind unchanged: nothing changes; a different kind with nothing given: no sub-message *)
Lemma media_step_keep k vals : media_step (Some (k, vals)) (Some k) None None None = Some (k, vals).
Proof.
  unfold media_step. rewrite N.eqb_refl. destruct (has_dims k), (has_duration k); reflexivity.
Qed.

Lemma media_step_switch k k' vals : k <> k' -> media_step (Some (k', vals)) (Some k) None None None = None.
Proof.
  intro H. unfold media_step. replace (k =? k') with false by (symmetry; apply N.eqb_neq; exact H).
  destruct (has_dims k), (has_duration k); reflexivity.
Qed.
