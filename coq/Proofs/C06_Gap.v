(* C06 lemmas, part 5: gap-limited address chains. *)
From Coq Require Import Arith NArith ZArith List Bool Lia Permutation.
From Coq.Strings Require Import Byte.
From LV Require Import Lib.Bytes Model.C06 Proofs.C06_Num.
Import ListNotations.
Local Open Scope N_scope.

Lemma count_leading_le {A} (p : A -> bool) l : (count_leading p l <= length l)%nat.
Proof. induction l as [|x r IH]; simpl; [lia|]. destruct (p x); simpl; lia. Qed.

Lemma count_leading_firstn {A} (p : A -> bool) l : Forall (fun x => p x = true) (firstn (count_leading p l) l).
Proof.
  induction l as [|x r IH]; simpl; [constructor|]. destruct (p x) eqn:E; simpl; [constructor; assumption | constructor].
Qed.

Lemma nth_firstn_lt {A} (l : list A) d : forall n i, (i < n)%nat -> nth i (firstn n l) d = nth i l d.
Proof.
  induction l as [|x r IH]; intros n i Hi; [destruct n, i; reflexivity|].
  destruct n; [lia|]. destruct i; [reflexivity|]. cbn [firstn nth]. apply IH. lia.
Qed.

Lemma firstn_firstn_le {A} (l : list A) a b : (a <= b)%nat -> firstn a (firstn b l) = firstn a l.
Proof. intro H. rewrite firstn_firstn. f_equal. lia. Qed.

Section Gap.
  Variable addr_of : N -> bytes.

  Definition ident (r : row) : N * bytes := (r_n r, r_addr r).
  Definition expected (i : nat) : N * bytes := (N.of_nat i, addr_of (N.of_nat i)).

  (* indices are contiguous from 0, in table order, and every row carries the address of its index *)
  Definition wf_table (t : list row) : Prop := map ident t = map expected (seq 0 (length t)).

  Definition all_unused (l : list row) : Prop := Forall (fun r => unused r = true) l.

  Lemma wf_nil : wf_table [].
  Proof. reflexivity. Qed.

  Lemma wf_last_n t r : wf_table t -> hd_error (rev t) = Some r -> r_n r + 1 = N.of_nat (length t).
  Proof.
    intros Hwf Hr. destruct (rev t) as [|r0 rt] eqn:E; [discriminate|]. injection Hr as ->.
    assert (Et : t = rev rt ++ [r]) by (rewrite <- (rev_involutive t), E; reflexivity).
    unfold wf_table in Hwf. rewrite Et in Hwf. rewrite app_length, Nat.add_comm in Hwf. cbn [length Nat.add] in Hwf.
    rewrite seq_S, !map_app in Hwf. cbn [map] in Hwf.
    apply app_inj_tail in Hwf. destruct Hwf as [_ Hl]. unfold ident, expected in Hl. injection Hl as Hn _.
    rewrite Et, app_length. cbn [length]. rewrite Hn. lia.
  Qed.

  Lemma fresh_rows L m : forall s,
    map (fun x => ident (mk_row (N.of_nat L + N.of_nat x) (addr_of (N.of_nat L + N.of_nat x)) 0)) (seq s m)
    = map expected (seq (L + s) m).
  Proof.
    induction m as [|m IH]; intro s; [reflexivity|].
    cbn [seq map]. f_equal.
    - unfold ident, expected. cbn [r_n r_addr]. rewrite Nat2N.inj_add. reflexivity.
    - rewrite IH. replace (L + S s)%nat with (S (L + s)) by lia. reflexivity.
  Qed.

  Lemma wf_app_fresh t m : wf_table t ->
    wf_table (t ++ map (fun n => mk_row n (addr_of n) 0)
                       (map (fun i => N.of_nat (length t) + N.of_nat i) (seq 0 m))).
  Proof.
    intro Hwf. unfold wf_table in *. rewrite app_length, !map_length, seq_length, seq_app, !map_app, Hwf.
    f_equal. cbn [Nat.add]. rewrite !map_map. rewrite fresh_rows, Nat.add_0_r. reflexivity.
  Qed.

  Theorem ensure_gap_spec gap t : wf_table t ->
    let (t', fresh) := ensure_gap addr_of gap t in
    (exists ext, t' = t ++ ext /\ all_unused ext /\ fresh = map r_addr ext) /\
    wf_table t' /\
    (gap <= length t')%nat /\ all_unused (skipn (length t' - gap) t').
  Proof.
    intro Hwf. unfold ensure_gap.
    set (top := firstn gap (rev t)).
    set (existing := count_leading unused top).
    assert (Hex_le : (existing <= length top)%nat) by apply count_leading_le.
    assert (Htop_le : (length top <= gap)%nat) by (unfold top; rewrite firstn_length; lia).
    assert (Htop_le2 : (length top <= length t)%nat) by (unfold top; rewrite firstn_length, rev_length; lia).
    assert (Hlead : all_unused (firstn existing top)) by apply count_leading_firstn.
    (* the last [existing] rows of t are unused *)
    assert (Htail : all_unused (skipn (length t - existing) t)).
    { unfold top in Hlead. rewrite firstn_firstn_le in Hlead by lia.
      rewrite firstn_rev in Hlead. unfold all_unused in *. apply Forall_rev in Hlead.
      rewrite rev_involutive in Hlead. exact Hlead. }
    destruct (Nat.eqb_spec existing gap) as [Heq|Hne].
    - (* nothing to do *)
      split; [exists []; rewrite app_nil_r; repeat split; constructor|].
      split; [exact Hwf|]. split; [lia|]. rewrite <- Heq. exact Htail.
    - assert (Hlt : (existing < gap)%nat) by lia.
      set (start := match top with r :: _ => r_n r + 1 | [] => 0 end).
      assert (Hstart : start = N.of_nat (length t)).
      { unfold start. destruct top as [|r0 rt] eqn:Et.
        - (* top empty with gap > 0: the table is empty *)
          unfold top in Et. destruct (rev t) as [|x rt'] eqn:Er.
          + apply (f_equal (@length row)) in Er. rewrite rev_length in Er. simpl in Er. rewrite Er. reflexivity.
          + destruct gap; [lia | discriminate].
        - apply (wf_last_n t r0 Hwf). unfold top in Et. destruct (rev t) as [|x rt']; [destruct gap; discriminate|].
          destruct gap; [discriminate|]. cbn [firstn] in Et. injection Et as -> _. reflexivity. }
      fold start. rewrite Hstart.
      set (ext := map (fun n => mk_row n (addr_of n) 0)
                      (map (fun i => N.of_nat (length t) + N.of_nat i) (seq 0 (gap - existing)))).
      assert (Hext_un : all_unused ext).
      { unfold ext, all_unused. rewrite map_map. apply Forall_forall. intros r Hr. apply in_map_iff in Hr.
        destruct Hr as [i [<- _]]. reflexivity. }
      assert (Hext_len : length ext = (gap - existing)%nat) by (unfold ext; rewrite !map_length, seq_length; reflexivity).
      split.
      { exists ext. split; [reflexivity|]. split; [exact Hext_un|]. unfold ext. rewrite !map_map. reflexivity. }
      split; [apply wf_app_fresh; exact Hwf|].
      rewrite app_length, Hext_len. split; [lia|].
      replace (length t + (gap - existing) - gap)%nat with (length t - existing)%nat by lia.
      rewrite skipn_app. replace (length t - existing - length t)%nat with 0%nat by lia. cbn [skipn].
      unfold all_unused. apply Forall_app. split; assumption.
  Qed.

  Lemma count_leading_all {A} (p : A -> bool) l : Forall (fun x => p x = true) l -> count_leading p l = length l.
  Proof. induction 1 as [|x r Hx _ IH]; [reflexivity|]. cbn [count_leading length]. rewrite Hx, IH. reflexivity. Qed.

  (* a second call right after the first generates nothing *)
  Theorem ensure_gap_idempotent gap t : wf_table t ->
    ensure_gap addr_of gap (fst (ensure_gap addr_of gap t)) = (fst (ensure_gap addr_of gap t), []).
  Proof.
    intro Hwf. pose proof (ensure_gap_spec gap t Hwf) as H.
    destruct (ensure_gap addr_of gap t) as [t' fresh]. cbn [fst]. destruct H as [_ [_ [Hl Hs]]].
    unfold ensure_gap.
    assert (E : count_leading unused (firstn gap (rev t')) = gap).
    { rewrite firstn_rev. rewrite count_leading_all.
      - rewrite rev_length, skipn_length. lia.
      - apply Forall_rev. exact Hs. }
    rewrite E, Nat.eqb_refl. reflexivity.
  Qed.

  Lemma count_leading_stop {A} (p : A -> bool) l d : (count_leading p l < length l)%nat ->
    p (nth (count_leading p l) l d) = false.
  Proof.
    induction l as [|x r IH]; cbn [count_leading length]; [lia|].
    destruct (p x) eqn:E; cbn [nth length]; [intro H; apply IH; lia | intros _; exact E].
  Qed.

  (* no more addresses than necessary: when something was generated, either the chain now has exactly
     [gap] rows or the row just below the final window of [gap] unused rows is a used one *)
  Theorem ensure_gap_tight gap t : wf_table t -> snd (ensure_gap addr_of gap t) <> [] ->
    let t' := fst (ensure_gap addr_of gap t) in
    length t' = gap \/
    ((gap < length t')%nat /\ unused (nth (length t' - gap - 1) t' (mk_row 0 [] 0)) = false).
  Proof.
    intros Hwf. unfold ensure_gap.
    set (top := firstn gap (rev t)).
    set (existing := count_leading unused top).
    assert (Hex_le : (existing <= length top)%nat) by apply count_leading_le.
    assert (Htop_len : length top = Nat.min gap (length t)) by (unfold top; rewrite firstn_length, rev_length; reflexivity).
    destruct (Nat.eqb_spec existing gap) as [Heq|Hne]; [cbn [snd]; congruence|].
    cbn [fst snd]. intros _. rewrite app_length, !map_length, seq_length.
    destruct (Nat.eq_dec existing (length top)) as [Hall|Hstop].
    - (* every existing row is unused and there are fewer than gap of them *)
      left. lia.
    - right. assert (Hlt : (existing < length top)%nat) by lia. split; [lia|].
      pose proof (count_leading_stop unused top (mk_row 0 [] 0) Hlt) as Hu. fold existing in Hu.
      replace (length t + (gap - existing) - gap - 1)%nat with (length t - existing - 1)%nat by lia.
      rewrite app_nth1 by lia.
      assert (En : nth existing top (mk_row 0 [] 0) = nth (length t - existing - 1) t (mk_row 0 [] 0)).
      { unfold top. rewrite nth_firstn_lt by lia. rewrite rev_nth by lia. f_equal. lia. }
      rewrite <- En. exact Hu.
  Qed.

  (* usage updates keep indices and addresses *)
  Lemma set_used_ident a k t : map ident (set_used a k t) = map ident t.
  Proof.
    unfold set_used. rewrite map_map. apply map_ext. intro r. destruct (bytes_eqb _ _); reflexivity.
  Qed.

  Lemma set_used_length a k t : length (set_used a k t) = length t.
  Proof. unfold set_used. apply map_length. Qed.

  Lemma gstep_wf t op : wf_table t -> wf_table (gstep addr_of t op).
  Proof.
    intro Hwf. destruct op as [g|n k]; cbn [gstep].
    - pose proof (ensure_gap_spec g t Hwf) as H. destruct (ensure_gap addr_of g t) as [t' fresh]. apply H.
    - unfold wf_table. rewrite set_used_ident, set_used_length. exact Hwf.
  Qed.

  (* every step only appends: existing rows keep index and address (and, for ensure, their counters) *)
  Lemma gstep_extends t op : wf_table t ->
    exists ext, map ident (gstep addr_of t op) = map ident t ++ map ident ext /\
                match op with GEnsure _ => gstep addr_of t op = t ++ ext | GUse _ _ => ext = [] end.
  Proof.
    intro Hwf. destruct op as [g|n k]; cbn [gstep].
    - pose proof (ensure_gap_spec g t Hwf) as H. destruct (ensure_gap addr_of g t) as [t' fresh].
      destruct H as [[ext [-> _]] _]. exists ext. cbn [fst]. rewrite map_app. split; reflexivity.
    - exists []. rewrite set_used_ident, app_nil_r. split; reflexivity.
  Qed.

  Theorem grun_wf ops : wf_table (grun addr_of ops).
  Proof.
    unfold grun. assert (H : forall t, wf_table t -> wf_table (fold_left (gstep addr_of) ops t)).
    { induction ops as [|op rest IH]; intros t Ht; [exact Ht|]. cbn [fold_left]. apply IH. apply gstep_wf. exact Ht. }
    apply H. exact wf_nil.
  Qed.

  (* row i of any reachable table has index i and the address derived for index i *)
  Theorem grun_row ops i : (i < length (grun addr_of ops))%nat ->
    ident (nth i (grun addr_of ops) (mk_row 0 [] 0)) = expected i.
  Proof.
    intro Hi. pose proof (grun_wf ops) as Hwf. unfold wf_table in Hwf.
    assert (E : nth i (map ident (grun addr_of ops)) (ident (mk_row 0 [] 0)) =
                nth i (map expected (seq 0 (length (grun addr_of ops)))) (expected 0)).
    { rewrite Hwf. apply nth_indep. rewrite map_length, seq_length. exact Hi. }
    rewrite !map_nth in E. rewrite seq_nth in E by exact Hi. exact E.
  Qed.

  (* the same account key gives the same addresses in the same order whatever the usage history *)
  Theorem addresses_deterministic ops1 ops2 i :
    (i < length (grun addr_of ops1))%nat -> (i < length (grun addr_of ops2))%nat ->
    ident (nth i (grun addr_of ops1) (mk_row 0 [] 0)) = ident (nth i (grun addr_of ops2) (mk_row 0 [] 0)).
  Proof. intros H1 H2. rewrite !grun_row by assumption. reflexivity. Qed.

  Theorem addresses_are_prefixes ops :
    map r_addr (grun addr_of ops) = map (fun i => addr_of (N.of_nat i)) (seq 0 (length (grun addr_of ops))).
  Proof.
    pose proof (grun_wf ops) as Hwf. unfold wf_table in Hwf.
    apply (f_equal (map snd)) in Hwf. rewrite !map_map in Hwf. exact Hwf.
  Qed.

  (* after any history, an ensure_address_gap leaves the last [gap] addresses unused, keeps every
     earlier row as it was and keeps the indices contiguous *)
  Lemma grun_snoc ops op : grun addr_of (ops ++ [op]) = gstep addr_of (grun addr_of ops) op.
  Proof. unfold grun. rewrite fold_left_app. reflexivity. Qed.

  Theorem gap_maintained ops gap :
    let before := grun addr_of ops in
    let after := grun addr_of (ops ++ [GEnsure gap]) in
    (exists ext, after = before ++ ext /\ all_unused ext) /\
    wf_table after /\ (gap <= length after)%nat /\ all_unused (skipn (length after - gap) after).
  Proof.
    cbn zeta. rewrite grun_snoc. cbn [gstep].
    pose proof (ensure_gap_spec gap (grun addr_of ops) (grun_wf ops)) as H.
    destruct (ensure_gap addr_of gap (grun addr_of ops)) as [t' fresh]. cbn [fst].
    destruct H as [[ext [He [Hu _]]] [Hw [Hl Hs]]].
    split; [exists ext; split; assumption|]. split; [assumption|]. split; assumption.
  Qed.

  (* ------------------------------------------------------------------ record order *)
  Definition row_leP (a b : row) : Prop := row_le a b = true.

  Lemma row_le_total a b : row_le a b = true \/ row_le b a = true.
  Proof.
    unfold row_le.
    destruct (N.ltb_spec (r_used a) (r_used b)); [left; reflexivity|].
    destruct (N.ltb_spec (r_used b) (r_used a)); [right; reflexivity|].
    assert (E : r_used a = r_used b) by lia. rewrite E, N.eqb_refl. cbn [orb andb].
    destruct (N.leb_spec (r_n a) (r_n b)); [left; reflexivity|].
    right. apply N.leb_le. lia.
  Qed.

  Lemma row_le_trans a b c : row_le a b = true -> row_le b c = true -> row_le a c = true.
  Proof.
    unfold row_le. intros H1 H2.
    apply orb_true_iff in H1. apply orb_true_iff in H2. apply orb_true_iff.
    destruct H1 as [H1|H1]; destruct H2 as [H2|H2].
    - left. apply N.ltb_lt in H1. apply N.ltb_lt in H2. apply N.ltb_lt. lia.
    - left. apply N.ltb_lt in H1. apply andb_true_iff in H2 as [H2 _]. apply N.eqb_eq in H2. apply N.ltb_lt. lia.
    - left. apply N.ltb_lt in H2. apply andb_true_iff in H1 as [H1 _]. apply N.eqb_eq in H1. apply N.ltb_lt. lia.
    - right. apply andb_true_iff in H1 as [H1 H1']. apply andb_true_iff in H2 as [H2 H2'].
      apply N.eqb_eq in H1. apply N.eqb_eq in H2. apply N.leb_le in H1'. apply N.leb_le in H2'.
      apply andb_true_iff. split; [apply N.eqb_eq; lia | apply N.leb_le; lia].
  Qed.

  Inductive sorted : list row -> Prop :=
  | sorted_nil : sorted []
  | sorted_cons r l : Forall (fun x => row_le r x = true) l -> sorted l -> sorted (r :: l).

  Lemma insert_row_perm r l : Permutation.Permutation (insert_row r l) (r :: l).
  Proof.
    induction l as [|x l IH]; cbn [insert_row]; [apply Permutation.Permutation_refl|].
    destruct (row_le r x); [apply Permutation.Permutation_refl|].
    eapply Permutation.perm_trans; [apply Permutation.perm_skip; exact IH | apply Permutation.perm_swap].
  Qed.

  Lemma insert_row_sorted r l : sorted l -> sorted (insert_row r l).
  Proof.
    induction 1 as [|x l Hx Hs IH]; cbn [insert_row]; [constructor; constructor|].
    destruct (row_le r x) eqn:E.
    - constructor; [|constructor; assumption]. constructor; [exact E|].
      eapply Forall_impl; [|exact Hx]. intros y Hy. exact (row_le_trans r x y E Hy).
    - constructor; [|exact IH].
      assert (Hxr : row_le x r = true) by (destruct (row_le_total r x); congruence).
      eapply Permutation.Permutation_Forall; [apply Permutation.Permutation_sym; apply insert_row_perm|].
      constructor; assumption.
  Qed.

  (* get_address_records lists exactly the rows of the chain, ordered by (used_times, n) *)
  Theorem address_records_spec t :
    Permutation.Permutation (address_records t) t /\ sorted (address_records t).
  Proof.
    unfold address_records. induction t as [|r t [IHp IHs]]; cbn [fold_right]; [split; constructor|].
    split; [|apply insert_row_sorted; exact IHs].
    eapply Permutation.perm_trans; [apply insert_row_perm | apply Permutation.perm_skip; exact IHp].
  Qed.
End Gap.
