(* C11 proofs: add_peer preserves well-formedness *)
From Coq Require Import NArith ZArith List Bool Lia Permutation Arith.
From LV Require Import Model.C11 Model.C11Spec Proofs.C11Base Proofs.C11Join.
Import ListNotations.
Local Open Scope N_scope.
Ltac Zify.zify_post_hook ::= Z.to_euclidean_division_equations.

Definition conflict (q p : peer) : bool := same_key q p && negb (pid q =? pid p).

(* no contact of t has p's address under another id *)
Definition NC (t : table) (p : peer) : Prop :=
  forall x, In x (contacts t) -> same_key x p = true -> pid x = pid p.

Lemma conflict_false_iff q p : conflict q p = false <-> (same_key q p = true -> pid q = pid p).
Proof.
  unfold conflict. destruct (same_key q p); cbn.
  - rewrite negb_false_iff, N.eqb_eq. tauto.
  - split; [discriminate | reflexivity].
Qed.

Lemma contacts_dist_lt own t : WF own t -> Forall (fun q => dist own (pid q) < M) (contacts t).
Proof.
  intros [C OK _ _]. apply Forall_forall. intros x Hx. apply in_contacts in Hx. destruct Hx as (b & Hb & Hx).
  rewrite Forall_forall in OK. destruct (OK _ Hb) as (R & _). rewrite Forall_forall in R. specialize (R _ Hx).
  destruct (chain_in_bounds _ _ _ _ C Hb). lia.
Qed.

(* ---------- the eviction loop ---------- *)
Lemma evict_spec own p snap : forall t,
  WF own t -> Forall (fun q => dist own (pid q) < M) snap ->
  exists t1, evict true own snap t p = Some t1 /\ WF own t1 /\ sub (contacts t1) (contacts t) /\
    (forall x, In x (contacts t1) -> In x snap -> conflict x p = false) /\
    (forall x, In x (contacts t) -> conflict x p = false -> In x (contacts t1)).
Proof.
  induction snap as [| q r IH]; intros t W D; cbn [evict].
  - exists t. split; [reflexivity |]. split; [assumption |]. split; [apply sub_refl |]. split; [cbn; tauto | auto].
  - inversion D as [| ? ? Dq Dr]; subst. fold (conflict q p). destruct (conflict q p) eqn:Cq.
    + destruct (remove_peer_spec own t q W Dq) as (t' & -> & W' & S' & Nq & Keep).
      pose proof (join_wf own t' W') as Wj.
      assert (Ej : contacts (join true t') = contacts t') by (destruct W'; eapply join_contacts; eauto).
      destruct (IH (join true t') Wj Dr) as (t1 & E1 & W1 & S1 & NC1 & K1).
      exists t1. split; [exact E1 |]. split; [exact W1 |]. rewrite Ej in *.
      split; [eapply sub_trans; eauto |]. split.
      * intros x Hx [-> | Hr]; [| auto]. exfalso. apply Nq. eapply sub_In; eauto.
      * intros x Hx Cx. apply K1; [| exact Cx]. apply Keep; [exact Hx |]. intros ->. congruence.
    + destruct (IH t W Dr) as (t1 & E1 & W1 & S1 & NC1 & K1).
      exists t1. split; [exact E1 |]. split; [exact W1 |]. split; [exact S1 |]. split; [| exact K1].
      intros x Hx [-> | Hr]; auto.
Qed.

Lemma evict_noop rp own p snap t :
  (forall x, In x snap -> conflict x p = false) -> evict rp own snap t p = Some t.
Proof.
  induction snap as [| q r IH]; intros H; cbn [evict]; [reflexivity |].
  fold (conflict q p). rewrite (H q (or_introl eq_refl)). apply IH. intros. apply H. right. assumption.
Qed.

Lemma evict_top own p t :
  WF own t ->
  exists t1, evict true own (contacts t) t p = Some t1 /\ WF own t1 /\ sub (contacts t1) (contacts t) /\ NC t1 p /\
    (forall x, In x (contacts t) -> conflict x p = false -> In x (contacts t1)).
Proof.
  intros W. destruct (evict_spec own p (contacts t) t W (contacts_dist_lt own t W)) as (t1 & E & W1 & S & N & Kp).
  exists t1. split; [exact E |]. split; [exact W1 |]. split; [exact S |]. split; [| exact Kp].
  intros x Hx Sk. apply conflict_false_iff; [| exact Sk]. apply N; [exact Hx |]. eapply sub_In; eauto.
Qed.

(* ---------- generic replacement of one bucket ---------- *)
Lemma wf_replace_gen own pre b b' post :
  WF own (pre ++ b :: post) -> blo b' = blo b -> bhi b' = bhi b -> bucket_ok own b' ->
  NoDup (map pid (contacts pre ++ bpeers b' ++ contacts post)) ->
  NoDup (map pkey (contacts pre ++ bpeers b' ++ contacts post)) ->
  WF own (pre ++ b' :: post).
Proof.
  intros [C OK I Ky] E1 E2 B N1 N2. constructor.
  - eapply chain_replace; eauto.
  - apply Forall_mid in OK. apply Forall_mid. tauto.
  - rewrite contacts_mid. exact N1.
  - rewrite contacts_mid. exact N2.
Qed.

Lemma perm_snoc_mid {A} (a l c : list A) (p : A) : Permutation (a ++ (l ++ [p]) ++ c) (p :: a ++ l ++ c).
Proof.
  rewrite <- app_assoc. cbn. rewrite app_assoc. symmetry. rewrite (app_assoc a l c). apply Permutation_middle.
Qed.

Lemma bucket_add_none b p :
  bucket_add b p = None ->
  existsb (fun q => pid q =? pid p) (bpeers b) = false /\ (K <= length (bpeers b))%nat.
Proof.
  unfold bucket_add. destruct (existsb (peer_eqb p) (bpeers b)); [discriminate |].
  destruct (existsb (fun q => pid q =? pid p) (bpeers b)); [discriminate |].
  destruct (length (bpeers b) <? K)%nat eqn:L; [discriminate |]. apply Nat.ltb_ge in L. auto.
Qed.

(* a successful KBucket.add_peer inside a well-formed table *)
Lemma add_found own t pre b post p b' :
  WF own t -> NC t p -> find_bucket own (pid p) t = Some (pre, b, post) -> bucket_add b p = Some b' ->
  WF own (pre ++ b' :: post) /\ NC (pre ++ b' :: post) p /\ In p (contacts (pre ++ b' :: post)) /\
  (forall x, In x (contacts t) -> pid x <> pid p -> In x (contacts (pre ++ b' :: post))) /\
  (forall x, In x (contacts (pre ++ b' :: post)) -> x = p \/ In x (contacts t)).
Proof.
  intros W N F A. pose proof W as [C OK I Ky].
  pose proof (find_bucket_some _ _ _ _ _ _ F) as (Et & R & _). apply in_range_iff in R.
  assert (Found : forall x, In x (contacts t) -> pid x = pid p -> In x (bpeers b))
    by (intros; eapply in_contacts_found; eauto).
  unfold NC in *. subst t. rewrite contacts_mid in *.
  pose proof (proj1 (Forall_mid _ _ _ _) OK) as (_ & (Rb & Lb) & _).
  assert (NDc : NoDup (contacts pre ++ bpeers b ++ contacts post)) by (eapply NoDup_map_NoDup; eauto).
  unfold bucket_add in A.
  destruct (existsb (peer_eqb p) (bpeers b)) eqn:E1.
  { (* refresh of the very same contact *)
    inversion A; subst b'; clear A. apply existsb_peer_eqb in E1.
    assert (P : Permutation (bpeers b) (remove_first (peer_eqb p) (bpeers b) ++ [p])).
    { rewrite <- Permutation_cons_append. apply remove_first_perm; [exact E1 | apply peer_eqb_refl |].
      intros y _ Ey. apply peer_eqb_spec in Ey. auto. }
    assert (PP : Permutation (contacts pre ++ bpeers b ++ contacts post)
                   (contacts pre ++ (remove_first (peer_eqb p) (bpeers b) ++ [p]) ++ contacts post)).
    { apply Permutation_app_head. apply Permutation_app_tail. exact P. }
    split.
    - apply (wf_replace_gen own pre b); [exact W | reflexivity | reflexivity | | |]; cbn [bpeers blo bhi].
      + split; cbn [bpeers blo bhi]; [eapply Permutation_Forall; eauto | rewrite <- (Permutation_length P); exact Lb].
      + eapply NoDup_map_perm; eauto.
      + eapply NoDup_map_perm; eauto.
    - rewrite !contacts_mid. cbn [bpeers]. split; [| split; [| split]].
      + intros x Hx. apply N. eapply Permutation_in; [symmetry; exact PP | exact Hx].
      + rewrite !in_app_iff. right. left. right. left. reflexivity.
      + intros x Hx _. eapply Permutation_in; eauto.
      + intros x Hx. right. eapply Permutation_in; [symmetry; exact PP | exact Hx]. }
  destruct (existsb (fun q => pid q =? pid p) (bpeers b)) eqn:E2.
  { (* same node id under another address: the old entry is replaced *)
    inversion A; subst b'; clear A. apply existsb_exists in E2. destruct E2 as (q & Hq & Eq). apply N.eqb_eq in Eq.
    set (g := fun q0 : peer => pid q0 =? pid p) in *.
    assert (Uq : forall y, In y (bpeers b) -> g y = true -> y = q).
    { intros y Hy Ey. unfold g in Ey. apply N.eqb_eq in Ey.
      apply (NoDup_map_inj pid (contacts pre ++ bpeers b ++ contacts post)); try assumption.
      - apply in_or_app. right. apply in_or_app. left. assumption.
      - apply in_or_app. right. apply in_or_app. left. assumption.
      - congruence. }
    assert (Gq : g q = true) by (unfold g; apply N.eqb_eq; exact Eq).
    assert (P : Permutation (bpeers b) (q :: remove_first g (bpeers b))) by (apply remove_first_perm; auto).
    set (R0 := remove_first g (bpeers b)) in *.
    assert (SubR : sub (contacts pre ++ R0 ++ contacts post) (contacts pre ++ bpeers b ++ contacts post)).
    { apply sub_app; [apply sub_refl |]. apply sub_app; [apply remove_first_sub | apply sub_refl]. }
    assert (PP : Permutation (contacts pre ++ bpeers b ++ contacts post) (q :: contacts pre ++ R0 ++ contacts post)).
    { rewrite P. cbn. symmetry. apply Permutation_middle. }
    assert (Nq : ~ In q (contacts pre ++ R0 ++ contacts post)).
    { eapply Permutation_NoDup in NDc; [| exact PP]. inversion NDc; assumption. }
    split.
    - apply (wf_replace_gen own pre b); [exact W | reflexivity | reflexivity | | |]; cbn [bpeers blo bhi].
      + split; cbn [bpeers blo bhi].
        * apply Forall_app. split; [eapply sub_Forall; [apply remove_first_sub | exact Rb] | constructor; [exact R | constructor]].
        * rewrite app_length. cbn. rewrite (Permutation_length P) in Lb. cbn in Lb. fold R0. lia.
      + eapply Permutation_NoDup; [symmetry; apply Permutation_map; apply perm_snoc_mid |].
        cbn. rewrite <- Eq. change (NoDup (map pid (q :: contacts pre ++ R0 ++ contacts post))).
        eapply NoDup_map_perm; eauto.
      + eapply Permutation_NoDup; [symmetry; apply Permutation_map; apply perm_snoc_mid |].
        cbn. constructor; [| eapply NoDup_map_sub; eauto].
        intros Hin. apply in_map_iff in Hin. destruct Hin as (x & Ex & Hx).
        assert (Hx' : In x (contacts pre ++ bpeers b ++ contacts post)) by (eapply sub_In; eauto).
        assert (pid x = pid p) by (apply N; [exact Hx' | apply same_key_pkey; exact Ex]).
        assert (x = q).
        { apply (NoDup_map_inj pid (contacts pre ++ bpeers b ++ contacts post)); try assumption.
          - apply in_or_app. right. apply in_or_app. left. assumption.
          - congruence. }
        subst x. contradiction.
    - rewrite !contacts_mid. cbn [bpeers]. fold R0. split; [| split; [| split]].
      + intros x Hx Sx. eapply Permutation_in in Hx; [| apply perm_snoc_mid]. destruct Hx as [-> | Hx]; [reflexivity |].
        apply N; [eapply sub_In; eauto | exact Sx].
      + rewrite !in_app_iff. right. left. right. left. reflexivity.
      + intros x Hx Nx. eapply Permutation_in in Hx; [| exact PP]. destruct Hx as [-> | Hx]; [congruence |].
        eapply Permutation_in; [symmetry; apply perm_snoc_mid |]. right. exact Hx.
      + intros x Hx. eapply Permutation_in in Hx; [| apply perm_snoc_mid]. destruct Hx as [-> | Hx]; [auto |].
        right. eapply sub_In; eauto. }
  destruct (length (bpeers b) <? K)%nat eqn:E3; [| discriminate].
  (* a new node id *)
  inversion A; subst b'; clear A. apply Nat.ltb_lt in E3.
  assert (Nid : forall x, In x (contacts pre ++ bpeers b ++ contacts post) -> pid x <> pid p).
  { intros x Hx Ex. specialize (Found x Hx Ex).
    assert (existsb (fun q => pid q =? pid p) (bpeers b) = true)
      by (apply existsb_exists; exists x; split; [assumption | apply N.eqb_eq; assumption]).
    congruence. }
  split.
  - apply (wf_replace_gen own pre b); [exact W | reflexivity | reflexivity | | |]; cbn [bpeers blo bhi].
    + split; cbn [bpeers blo bhi]; [apply Forall_app; split; [exact Rb | constructor; [exact R | constructor]] |].
      rewrite app_length. cbn. lia.
    + eapply Permutation_NoDup; [symmetry; apply Permutation_map; apply perm_snoc_mid |].
      cbn. constructor; [| exact I]. intros Hin. apply in_map_iff in Hin. destruct Hin as (x & Ex & Hx).
      exact (Nid x Hx Ex).
    + eapply Permutation_NoDup; [symmetry; apply Permutation_map; apply perm_snoc_mid |].
      cbn. constructor; [| exact Ky]. intros Hin. apply in_map_iff in Hin. destruct Hin as (x & Ex & Hx).
      apply (Nid x Hx). apply N; [exact Hx | apply same_key_pkey; exact Ex].
  - rewrite !contacts_mid. cbn [bpeers]. split; [| split; [| split]].
    + intros x Hx Sx. eapply Permutation_in in Hx; [| apply perm_snoc_mid]. destruct Hx as [-> | Hx]; [reflexivity |].
      apply N; assumption.
    + rewrite !in_app_iff. right. left. right. left. reflexivity.
    + intros x Hx _. eapply Permutation_in; [symmetry; apply perm_snoc_mid |]. right. exact Hx.
    + intros x Hx. eapply Permutation_in in Hx; [| apply perm_snoc_mid]. destruct Hx as [-> | Hx]; auto.
Qed.

(* ---------- _split_bucket ---------- *)
Lemma filter_partition_perm {A} (f : A -> bool) l :
  Permutation l (filter (fun x => negb (f x)) l ++ filter f l).
Proof.
  induction l as [| a l IH]; cbn; [constructor |].
  destruct (f a); cbn.
  - apply Permutation_cons_app. exact IH.
  - constructor. exact IH.
Qed.

Lemma sub_mid {A} (a l c : list A) : sub l (a ++ l ++ c).
Proof.
  pose proof (sub_app _ _ _ _ (sub_nil_l a) (sub_app _ _ _ _ (sub_refl l) (sub_nil_l c))) as H.
  cbn in H. rewrite app_nil_r in H. exact H.
Qed.

Lemma full_width own b :
  NoDup (map pid (bpeers b)) -> Forall (fun q => blo b <= dist own (pid q) < bhi b) (bpeers b) ->
  (2 <= length (bpeers b))%nat -> blo b + 2 <= bhi b.
Proof.
  destruct (bpeers b) as [| x [| y l]]; cbn; try lia. intros N F _.
  inversion N as [| ? ? Nx _]; subst. inversion F as [| ? ? Fx F']; subst. inversion F' as [| ? ? Fy _]; subst.
  assert (dist own (pid x) <> dist own (pid y)).
  { intros E. apply dist_inj in E. apply Nx. left. auto. }
  lia.
Qed.

Lemma split_wf own pre b post b1 b2 :
  WF own (pre ++ b :: post) -> (2 <= length (bpeers b))%nat -> split_bucket own b = (b1, b2) ->
  WF own (pre ++ b1 :: b2 :: post) /\
  Permutation (contacts (pre ++ b :: post)) (contacts (pre ++ b1 :: b2 :: post)).
Proof.
  intros [C OK I Ky] L S. unfold split_bucket in S. inversion S; subst b1 b2; clear S.
  set (sp := bhi b - (bhi b - blo b) / 2).
  set (inr := fun q : peer => (sp <=? dist own (pid q)) && (dist own (pid q) <? bhi b)).
  pose proof (proj1 (Forall_mid _ _ _ _) OK) as (O1 & (Rb & Lb) & O3).
  rewrite contacts_mid in I, Ky.
  assert (W2 : blo b + 2 <= bhi b).
  { apply (full_width own b); try assumption. eapply NoDup_map_sub; [apply sub_mid | exact I]. }
  assert (Hsp : blo b < sp < bhi b) by (unfold sp; lia).
  assert (PP : Permutation (contacts (pre ++ b :: post))
                 (contacts (pre ++ mkB (blo b) sp (filter (fun q => negb (inr q)) (bpeers b))
                                :: mkB sp (bhi b) (filter inr (bpeers b)) :: post))).
  { rewrite !contacts_mid, contacts_cons. cbn [bpeers]. apply Permutation_app_head. rewrite app_assoc.
    apply Permutation_app_tail. apply filter_partition_perm. }
  split; [| exact PP]. constructor.
  - apply chain_app in C. destruct C as (mid & C1 & C2). apply chain_app. exists mid. split; [exact C1 |].
    cbn in *. destruct C2 as (E1 & E2 & C3). repeat split; try lia; try assumption.
  - apply Forall_mid. split; [exact O1 |]. split; [| constructor; [| exact O3]].
    + split; cbn [bpeers blo bhi].
      * apply Forall_forall. intros q Hq. apply filter_In in Hq. destruct Hq as (Hq & Nq).
        rewrite Forall_forall in Rb. specialize (Rb _ Hq). unfold inr in Nq.
        apply negb_true_iff, andb_false_iff in Nq. rewrite N.leb_gt, N.ltb_ge in Nq. lia.
      * eapply Nat.le_trans; [apply sub_length; apply filter_sub | exact Lb].
    + split; cbn [bpeers blo bhi].
      * apply Forall_forall. intros q Hq. apply filter_In in Hq. destruct Hq as (Hq & Nq).
        unfold inr in Nq. apply andb_true_iff in Nq. rewrite N.leb_le, N.ltb_lt in Nq. lia.
      * eapply Nat.le_trans; [apply sub_length; apply filter_sub | exact Lb].
  - eapply NoDup_map_perm; [exact PP |]. rewrite contacts_mid. exact I.
  - eapply NoDup_map_perm; [exact PP |]. rewrite contacts_mid. exact Ky.
Qed.

Lemma NC_perm t t' p : NC t p -> (forall x, In x (contacts t') -> In x (contacts t)) -> NC t' p.
Proof. unfold NC. intros N H x Hx. apply N. auto. Qed.

(* ---------- add_peer without the (idempotent) eviction loop ---------- *)
Fixpoint add_core (own : N) (e : env) (fuel : nat) (t : table) (p : peer) : res * list peer * table :=
  match fuel with
  | O => (ErrFuel, [], t)
  | S f =>
      match find_bucket own (pid p) t with
      | None => (ErrIndex, [], t)
      | Some (pre, b, post) =>
        match bucket_add b p with
        | Some b' => (Ret true, [], pre ++ b' :: post)
        | None =>
          if should_split own (length pre) t (pid p) then
            let (b1, b2) := split_bucket own b in
            match add_core own e f (pre ++ b1 :: b2 :: post) p with
            | (r, pr, t3) => if is_ret r then (r, pr, join true t3) else (r, pr, t3)
            end
          else
            match choose_replace e b with
            | None => (Ret false, [], t)
            | Some q =>
              match probe e q with
              | PReply => (Ret false, [q], t)
              | PLocalFail => (ErrProbe, [q], t)
              | PDead => match add_core own e f (pre ++ bucket_remove b q :: post) p with
                         | (r, pr, t3) => (r, q :: pr, t3)
                         end
              end
            end
        end
      end
  end.

Lemma K_ge_2 : (2 <= K)%nat.
Proof. unfold K. lia. Qed.

Lemma add_peer_core own e fuel : forall t p,
  WF own t -> NC t p -> add_peer true own e fuel t p = add_core own e fuel t p.
Proof.
  induction fuel as [| f IH]; intros t p W N; [reflexivity |].
  cbn [add_peer add_core].
  rewrite evict_noop; [| intros x Hx; apply conflict_false_iff; apply N; exact Hx].
  destruct (find_bucket own (pid p) t) as [[[pre b] post] |] eqn:F; [| reflexivity].
  pose proof (find_bucket_some _ _ _ _ _ _ F) as (Et & _ & _).
  destruct (bucket_add b p) as [b' |] eqn:A; [reflexivity |].
  destruct (should_split own (length pre) t (pid p)).
  - destruct (split_bucket own b) as [b1 b2] eqn:S.
    apply bucket_add_none in A. destruct A as (_ & A). subst t.
    destruct (split_wf own pre b post b1 b2 W) as (W' & P); [pose proof K_ge_2; lia | exact S |].
    rewrite IH; [reflexivity | exact W' |].
    eapply NC_perm; [exact N |]. intros x Hx. eapply Permutation_in; [symmetry; exact P | exact Hx].
  - destruct (choose_replace e b) as [q |]; [| reflexivity].
    destruct (probe e q); [reflexivity | | reflexivity]. subst t.
    destruct (wf_replace_sub own pre b (bucket_remove b q) post W eq_refl eq_refl (remove_first_sub _ _)) as (W' & S).
    rewrite IH; [reflexivity | exact W' |].
    eapply NC_perm; [exact N |]. intros x Hx. eapply sub_In; eauto.
Qed.

(* what one add_core call guarantees *)
Lemma add_core_inv own e fuel : forall t p,
  WF own t -> NC t p -> pid p < M -> own < M ->
  match add_core own e fuel t p with
  | (r, pr, t') =>
      WF own t' /\
      (r = Ret true -> In p (contacts t')) /\
      (forall x, In x (contacts t) -> pid x <> pid p -> probe e x <> PDead -> In x (contacts t')) /\
      (forall x, In x (contacts t) -> pid x <> pid p -> ~ In x pr -> In x (contacts t')) /\
      (forall x, In x (contacts t') -> x = p \/ In x (contacts t)) /\
      (forall x, In x pr -> In x (contacts t) /\ pid x <> pid p) /\
      r <> ErrIndex
  end.
Proof.
  induction fuel as [| f IH]; intros t p W N Hp Ho; cbn [add_core].
  { split; [exact W |]. split; [discriminate |]. split; [auto |]. split; [auto |]. split; [auto |].
    split; [intros x [] | discriminate]. }
  pose proof W as [C OK I Ky].
  destruct (find_bucket_chain own (pid p) 0 t M C) as (pre & b & post & F).
  { split; [lia | apply dist_lt_M; assumption]. }
  rewrite F. pose proof (find_bucket_some _ _ _ _ _ _ F) as (Et & Rg & _).
  destruct (bucket_add b p) as [b' |] eqn:A.
  { destruct (add_found own t pre b post p b' W N F A) as (W' & _ & Hin & Keep & Back).
    split; [exact W' |]. split; [auto |]. split; [auto |]. split; [auto |]. split; [exact Back |].
    split; [cbn; tauto | discriminate]. }
  pose proof (bucket_add_none _ _ A) as (NoId & Full).
  assert (Pnew : forall x, In x (bpeers b) -> pid x <> pid p).
  { intros x Hx Ex. assert (existsb (fun q => pid q =? pid p) (bpeers b) = true)
      by (apply existsb_exists; exists x; split; [assumption | apply N.eqb_eq; assumption]). congruence. }
  destruct (should_split own (length pre) t (pid p)).
  - destruct (split_bucket own b) as [b1 b2] eqn:S. subst t.
    destruct (split_wf own pre b post b1 b2 W) as (W' & P); [pose proof K_ge_2; lia | exact S |].
    assert (N' : NC (pre ++ b1 :: b2 :: post) p).
    { eapply NC_perm; [exact N |]. intros x Hx. eapply Permutation_in; [symmetry; exact P | exact Hx]. }
    specialize (IH (pre ++ b1 :: b2 :: post) p W' N' Hp Ho).
    destruct (add_core own e f (pre ++ b1 :: b2 :: post) p) as [[r pr] t3].
    destruct IH as (W3 & I1 & I2 & I3 & I4 & I5 & I6).
    assert (Pin : forall x, In x (contacts (pre ++ b :: post)) <-> In x (contacts (pre ++ b1 :: b2 :: post))).
    { intros x. split; intros Hx; [eapply Permutation_in; [exact P | exact Hx] |
                                   eapply Permutation_in; [symmetry; exact P | exact Hx]]. }
    destruct (is_ret r) eqn:Rr.
    + assert (Ej : contacts (join true t3) = contacts t3) by (destruct W3; eapply join_contacts; eauto).
      rewrite Ej. split; [apply join_wf; exact W3 |]. split; [exact I1 |].
      split; [intros x Hx; apply I2; apply Pin; exact Hx |].
      split; [intros x Hx; apply I3; apply Pin; exact Hx |].
      split; [intros x Hx; destruct (I4 x Hx); [auto | right; apply Pin; assumption] |].
      split; [intros x Hx; destruct (I5 x Hx); split; [apply Pin; assumption | assumption] | exact I6].
    + split; [exact W3 |]. split; [exact I1 |].
      split; [intros x Hx; apply I2; apply Pin; exact Hx |].
      split; [intros x Hx; apply I3; apply Pin; exact Hx |].
      split; [intros x Hx; destruct (I4 x Hx); [auto | right; apply Pin; assumption] |].
      split; [intros x Hx; destruct (I5 x Hx); split; [apply Pin; assumption | assumption] | exact I6].
  - destruct (choose_replace e b) as [q |] eqn:CR.
    2:{ split; [exact W |]. split; [discriminate |]. split; [auto |]. split; [auto |]. split; [auto |].
        split; [intros x [] | discriminate]. }
    assert (Hq : In q (bpeers b)).
    { unfold choose_replace in CR.
      destruct (filter (fun q0 => is_stale (lrs e q0)) (filter (fun q0 => negb (good e q0)) (firstn K (bpeers b)))) as [| q0 l0] eqn:Fl.
      - destruct (bpeers b) as [| h l]; [discriminate |]. destruct (is_fresh (lrs e h)); [discriminate |].
        inversion CR; subst. left. reflexivity.
      - inversion CR; subst q0. assert (In q (q :: l0)) by (left; reflexivity). rewrite <- Fl in H.
        apply filter_In in H. destruct H as (H & _). apply filter_In in H. destruct H as (H & _).
        eapply sub_In; [| exact H]. clear. generalize K. induction (bpeers b); intros [| k]; cbn;
          try apply sub_nil_l; try apply sub_refl. apply sub_keep. apply IHl. }
    assert (Hqt : In q (contacts t)).
    { subst t. rewrite contacts_mid. apply in_or_app. right. apply in_or_app. left. exact Hq. }
    destruct (probe e q) eqn:Pq.
    1:{ split; [exact W |]. split; [discriminate |]. split; [auto |]. split; [auto |]. split; [auto |].
        split; [| discriminate]. intros x [<- | []]. split; [exact Hqt | apply Pnew; exact Hq]. }
    2:{ split; [exact W |]. split; [discriminate |]. split; [auto |]. split; [auto |]. split; [auto |].
        split; [| discriminate]. intros x [<- | []]. split; [exact Hqt | apply Pnew; exact Hq]. }
    subst t.
    destruct (wf_replace_sub own pre b (bucket_remove b q) post W eq_refl eq_refl (remove_first_sub _ _)) as (W' & S).
    assert (N' : NC (pre ++ bucket_remove b q :: post) p).
    { eapply NC_perm; [exact N |]. intros x Hx. eapply sub_In; eauto. }
    specialize (IH _ p W' N' Hp Ho).
    destruct (add_core own e f (pre ++ bucket_remove b q :: post) p) as [[r pr] t3].
    destruct IH as (W3 & I1 & I2 & I3 & I4 & I5 & I6).
    assert (Kp : forall x, In x (contacts (pre ++ b :: post)) -> x <> q -> In x (contacts (pre ++ bucket_remove b q :: post))).
    { intros x Hx Nx. rewrite !contacts_mid in *. cbn [bucket_remove bpeers]. rewrite !in_app_iff in Hx |- *.
      destruct Hx as [H | [H | H]]; auto. right. left. apply remove_first_keeps; [assumption |].
      destruct (peer_eqb q x) eqn:E; [| reflexivity]. apply peer_eqb_spec in E. congruence. }
    split; [exact W3 |]. split; [exact I1 |].
    split; [intros x Hx Nx Px; apply I2; auto; apply Kp; [exact Hx | intros ->; congruence] |].
    split; [intros x Hx Nx Npr; apply I3; auto; [apply Kp; [exact Hx | intros ->; apply Npr; left; reflexivity] |
                                                 intros H; apply Npr; right; exact H] |].
    split; [intros x Hx; destruct (I4 x Hx); [auto | right; eapply sub_In; eauto] |].
    split; [| exact I6].
    intros x [<- | Hx]; [split; [exact Hqt | apply Pnew; exact Hq] |].
    destruct (I5 x Hx). split; [eapply sub_In; eauto | assumption].
Qed.
