(* C10 proofs: fragmentation of an honest server stream does not matter *)
From Coq Require Import NArith ZArith List Bool Lia.
From Coq.Strings Require Import Byte.
From LV Require Import Lib.Bytes Model.C10 Proofs.C10.
Import ListNotations.
Local Open Scope Z_scope.
Ltac Zify.zify_post_hook ::= Z.to_euclidean_division_equations.

Section Frag.
Variable H : bytes -> bytes.
Variable json_loads : bytes -> jres.
Variable hdr : bytes.
Variable r : response.
Variable hash : bytes.
Variable n : Z.
Hypothesis Hparse : json_loads hdr = JResp r.
Hypothesis Hend : exists h0, hdr = h0 ++ [rbrace].
Hypothesis Hnoprefix : forall a b, hdr = a ++ rbrace :: b -> b <> [] -> json_loads (a ++ [rbrace]) = JInvalid.
Hypothesis Hshort : zlen hdr <= MAX_RESPONSE_SIZE.
Hypothesis Hblob : r_blob r = BrIncoming (Some hash) (LInt n).
Hypothesis Hn : 0 < n <= MAX_BLOB_SIZE.

(* a download that has just been started for (hash, known length) on an open connection *)
Definition Init (known : option Z) (c : client) : Prop :=
  c_open c = true /\ c_att c = true /\ c_fut c = FutPending /\ c_received c = 0 /\ c_buf c = [] /\
  c_has_w c = true /\ c_w c = new_writer /\ c_hash c = hash /\ c_len c = known /\ c_delivered c = O /\
  (known = None \/ known = Some n).

(* after the header: the response was delivered once, the writer holds the body so far, cut at n *)
Definition P2 (t : bytes) (c : client) : Prop :=
  c_att c = true /\ c_has_w c = true /\ c_hash c = hash /\ c_fut c = FutResult r /\ c_delivered c = 1%nat /\
  c_len c = Some n /\ c_buf c = [] /\ c_received c = zlen (w_data (c_w c)) /\
  ((w_closed (c_w c) = false /\ w_fin (c_w c) = WPending /\ w_data (c_w c) = t /\ zlen t < n /\ c_open c = true) \/
   (w_closed (c_w c) = true /\ w_data (c_w c) = firstn (Z.to_nat n) t /\ n <= zlen t)).

Lemma firstn_all2' {A} (l : list A) k : (length l <= k)%nat -> firstn k l = l.
Proof. apply firstn_all2. Qed.

(* writing the next body bytes *)
Lemma write_P2 t c d :
  P2 t c -> w_closed (c_w c) = false ->
  exists c', cl_write H c d = (c', false) /\ P2 (t ++ d) c' /\ c_open c' = c_open c /\ c_lost c' = c_lost c.
Proof.
  intros (A1 & A2 & A3 & A4 & A5 & A6 & A7 & A8 & A9) Hop.
  destruct A9 as [(B1 & B2 & B3 & B4 & B5)|(B1 & _)]; [|congruence].
  unfold cl_write. rewrite A6. rewrite A8, B3.
  set (room := n - zlen t).
  set (data' := if zlen d >? room then pyslice_to d room else d).
  assert (Hd' : data' = firstn (Z.to_nat room) d).
  { subst data'. destruct (zlen d >? room) eqn:E.
    - unfold pyslice_to. destruct (room <? 0) eqn:E2; [lia|reflexivity].
    - symmetry. apply firstn_all2. unfold zlen in *. lia. }
  assert (Hdl : zlen data' = Z.min room (zlen d)) by (rewrite Hd', zlen_firstn; lia).
  pose proof (zlen_nonneg d) as Hdn. pose proof (zlen_nonneg t) as Htn.
  unfold writer_write. destruct (n =? 0) eqn:En0; [lia|]. rewrite B1, B2, B3.
  assert (Hz : zlen (t ++ data') = zlen t + zlen data') by apply zlen_app.
  destruct (zlen (t ++ data') >? n) eqn:Egt; [lia|].
  assert (Hfirst : firstn (Z.to_nat n) (t ++ d) = t ++ data').
  { rewrite firstn_app. rewrite firstn_all2 by (unfold zlen in *; lia).
    f_equal. rewrite Hd'. f_equal. unfold room, zlen. lia. }
  destruct (zlen (t ++ data') =? n) eqn:Eeq.
  - (* the announced length is reached: the writer closes *)
    assert (Hge : n <= zlen (t ++ d)) by (rewrite zlen_app; lia).
    destruct (bytes_eqb (H (t ++ data')) (c_hash c)); eexists; (split; [reflexivity|]);
      (split; [|split; reflexivity]); unfold P2; cbn; rewrite A1, A2, A3, A4, A5, A6, A7;
      repeat (split; [reflexivity|]); (split; [rewrite zlen_app; lia|]); right;
      (split; [reflexivity|]); (split; [symmetry; exact Hfirst|exact Hge]).
  - (* still short: everything was written *)
    assert (Hall : data' = d).
    { rewrite Hd'. apply firstn_all2. unfold zlen in *. lia. }
    assert (Hlt : zlen (t ++ d) < n) by (rewrite <- Hall; lia).
    eexists; split; [reflexivity|]. split; [|split; reflexivity].
    unfold P2; cbn. rewrite A1, A2, A3, A4, A5, A6, A7, B5, Hall.
    repeat (split; [reflexivity|]). split; [rewrite zlen_app; lia|]. left.
    repeat (split; [reflexivity|]). split; [exact Hlt|reflexivity].
Qed.

(* once the writer is closed, whatever arrives changes nothing the claim talks about *)
Lemma closed_P2 t c d :
  P2 t c -> w_closed (c_w c) = true ->
  P2 (t ++ d) (fst (parse_path H json_loads c d)).
Proof.
  intros (A1 & A2 & A3 & A4 & A5 & A6 & A7 & A8 & A9) Hcl.
  destruct A9 as [(B1 & _)|(B1 & B2 & B3)]; [congruence|].
  assert (Hgoal : forall c', c_att c' = true -> c_has_w c' = true -> c_hash c' = hash -> c_fut c' = FutResult r ->
     c_delivered c' = 1%nat -> c_len c' = Some n -> c_buf c' = [] -> c_received c' = c_received c ->
     c_w c' = c_w c -> P2 (t ++ d) c').
  { intros c' C1 C2 C3 C4 C5 C6 C7 C8 C9. unfold P2. rewrite C1, C2, C3, C4, C5, C6, C7, C8, C9.
    repeat split; auto. right. repeat split; auto.
    - rewrite B2. rewrite firstn_app.
      replace (Z.to_nat n - length t)%nat with O by (unfold zlen in *; lia). cbn. rewrite app_nil_r. reflexivity.
    - rewrite zlen_app. pose proof (zlen_nonneg d). lia. }
  unfold parse_path. rewrite A7. cbn [app].
  destruct (parse_prefix json_loads d) as [| |r' k]; cbn [fst].
  - rewrite A4. cbn. unfold write_if_open. destruct d; cbn [fst].
    + apply Hgoal; cbn; auto.
    + cbn. rewrite A2, Hcl. cbn. apply Hgoal; cbn; auto.
  - apply Hgoal; auto.
  - cbn. rewrite A1.
    assert (Hdel : P2 (t ++ d) (fst (match c_fut (set_buf [] c) with
        | FutPending => write_if_open H (set_delivered (S (c_delivered (set_buf [] c))) (set_fut (FutResult r') (set_buf [] c))) (skipn k d)
        | _ => (set_buf [] c, true) end))).
    { cbn. rewrite A4. cbn. apply Hgoal; cbn; auto. }
    destruct (r_blob r') as [| |h l]; try exact Hdel.
    destruct (match h with Some h' => bytes_eqb h' (c_hash c) | None => false end).
    + unfold set_length. cbn. rewrite A6. destruct l; cbn; rewrite A4; cbn; apply Hgoal; cbn; auto.
    + cbn. apply Hgoal; cbn; auto.
Qed.

(* one segment in the body phase *)
Lemma step_P2 t c d : P2 t c -> P2 (t ++ d) (step H json_loads c (EvData d)).
Proof.
  intro Hp. pose proof Hp as (A1 & A2 & A3 & A4 & A5 & A6 & A7 & A8 & A9).
  unfold step. cbn [step_with].
  destruct (c_open c) eqn:Eo.
  - unfold data_received. rewrite Eo, A1, A4. cbn. rewrite orb_true_r, A2. cbn.
    destruct (w_closed (c_w c)) eqn:Ecl; cbn.
    + pose proof (closed_P2 t c d Hp Ecl) as Hc.
      destruct (parse_path H json_loads c d) as [c' raised]. cbn [fst] in Hc.
      destruct raised; [|exact Hc].
      destruct Hc as (C1 & C2 & C3 & C4 & C5 & C6 & C7 & C8 & C9). unfold P2, force_close. cbn.
      repeat split; auto. destruct C9 as [(D1 & D2 & D3 & D4 & D5)|D]; [|right; exact D].
      (* a raise only happens with a closed writer *)
      exfalso. destruct A9 as [(B1 & _)|(B1 & B2 & B3)]; [congruence|].
      pose proof (zlen_nonneg d). rewrite zlen_app in D4. lia.
    + destruct (write_P2 t c d Hp Ecl) as (c' & Hw & Hp' & _). rewrite Hw. exact Hp'.
  - (* the transport is closing: the segment is dropped; only possible with a closed writer *)
    destruct A9 as [(B1 & B2 & B3 & B4 & B5)|(B1 & B2 & B3)]; [congruence|].
    unfold P2. repeat split; auto. right. repeat split; auto.
    + rewrite B2. rewrite firstn_app.
      replace (Z.to_nat n - length t)%nat with O by (unfold zlen in *; lia). cbn. rewrite app_nil_r. reflexivity.
    + rewrite zlen_app. pose proof (zlen_nonneg d). lia.
Qed.

(* the header phase *)
Lemma set_buf_id c : c_buf c = [] -> set_buf [] c = c.
Proof. destruct c; cbn; intro; subst; reflexivity. Qed.

Lemma hdr_nonempty : hdr <> [].
Proof. destruct Hend as [h0 ->]. destruct h0; discriminate. Qed.

Lemma step_in_header known c0 pre d rest :
  Init known c0 -> hdr = (pre ++ d) ++ rest -> rest <> [] ->
  step H json_loads (set_buf pre c0) (EvData d) = set_buf (pre ++ d) c0.
Proof.
  intros (I1 & I2 & I3 & I4 & I5 & I6 & I7 & I8 & I9 & I10 & I11) Hh Hne.
  destruct c0 as [o l ce a f rc b hw w hs ln v ph nw T dl uk]; cbn in I1, I2, I3, I4, I5, I6, I7, I8, I9, I10;
  subst o a f rc b hw w hs ln dl.
  unfold step, data_received, parse_path; cbn.
  pose proof (parse_header_prefix json_loads hdr Hnoprefix (pre ++ d) rest Hh Hne) as Hpp.
  unfold parse_prefix in Hpp. rewrite Hpp. cbn.
  assert (Hlt : zlen (pre ++ d) <= MAX_RESPONSE_SIZE).
  { rewrite Hh in Hshort. rewrite zlen_app in Hshort. pose proof (zlen_nonneg rest). lia. }
  destruct (zlen (pre ++ d) >? MAX_RESPONSE_SIZE) eqn:E; [lia|]. reflexivity.
Qed.

Lemma step_completes_header known c0 pre d t :
  Init known c0 -> pre ++ d = hdr ++ t ->
  P2 t (step H json_loads (set_buf pre c0) (EvData d)).
Proof.
  intros (I1 & I2 & I3 & I4 & I5 & I6 & I7 & I8 & I9 & I10 & I11) Hh.
  destruct c0 as [o l ce a f rc b hw w hs ln v ph nw T dl uk]; cbn in I1, I2, I3, I4, I5, I6, I7, I8, I9, I10;
  subst o a f rc b hw w hs ln dl.
  unfold step, data_received, parse_path; cbn.
  pose proof (parse_header_then json_loads hdr r Hparse Hend Hnoprefix Hshort t) as Hpp.
  unfold parse_prefix in Hpp. rewrite Hh, Hpp. cbn.
  rewrite Hblob, bytes_eqb_refl, skipn_app_exact.
  assert (Hcap : (0 <=? n) && (n <=? MAX_BLOB_SIZE) = true) by (apply andb_true_iff; split; lia).
  (* the state right after set_result, before the glued body bytes are written *)
  assert (Hmid : forall c1, P2 [] c1 -> w_closed (c_w c1) = false -> c_has_w c1 = true ->
            P2 t (let '(c2, raised) := write_if_open H c1 t in if raised then force_close c2 else c2)).
  { intros c1 Hp Hop Hw. unfold write_if_open. destruct t as [|b t']; [exact Hp|].
    rewrite Hw, Hop. cbn [andb negb].
    destruct (write_P2 [] c1 (b :: t') Hp Hop) as (c' & Hwr & Hp' & _). rewrite Hwr. exact Hp'. }
  destruct I11 as [->| ->]; unfold set_length; cbn; [rewrite Hcap; cbn|];
    (apply Hmid; [|reflexivity|reflexivity]); unfold P2; cbn;
    repeat (split; [reflexivity|]); left; repeat (split; [reflexivity|]); (split; [lia|reflexivity]).
Qed.

(* the same step, spelled out: the state right after set_result, then the glued body bytes are written *)
Lemma step_completes_header_eq known c0 pre d t :
  Init known c0 -> pre ++ d = hdr ++ t ->
  exists c1, P2 [] c1 /\ w_closed (c_w c1) = false /\ c_has_w c1 = true /\ c_open c1 = true /\
    c_lost c1 = c_lost c0 /\ c_closed_ev c1 = c_closed_ev c0 /\ c_verified c1 = c_verified c0 /\
    c_phase c1 = c_phase c0 /\
    step H json_loads (set_buf pre c0) (EvData d) =
      (let '(c2, raised) := write_if_open H c1 t in if raised then force_close c2 else c2).
Proof.
  intros (I1 & I2 & I3 & I4 & I5 & I6 & I7 & I8 & I9 & I10 & I11) Hh.
  destruct c0 as [o l ce a f rc b hw w hs ln v ph nw T dl uk]; cbn in I1, I2, I3, I4, I5, I6, I7, I8, I9, I10;
  subst o a f rc b hw w hs ln dl.
  unfold step, data_received, parse_path; cbn.
  pose proof (parse_header_then json_loads hdr r Hparse Hend Hnoprefix Hshort t) as Hpp.
  unfold parse_prefix in Hpp. rewrite Hh, Hpp. cbn.
  rewrite Hblob, bytes_eqb_refl, skipn_app_exact.
  assert (Hcap : (0 <=? n) && (n <=? MAX_BLOB_SIZE) = true) by (apply andb_true_iff; split; lia).
  destruct I11 as [->| ->]; unfold set_length; cbn; [rewrite Hcap; cbn|];
    eexists; (split; [|split; [|split; [|split; [|split; [|split; [|split; [|split; [|reflexivity]]]]]]]]);
    try reflexivity; unfold P2; cbn;
    repeat (split; [reflexivity|]); left; repeat (split; [reflexivity|]); (split; [lia|reflexivity]).
Qed.

Lemma prefix_cases {A} : forall (a b x y : list A), a ++ x = b ++ y ->
  (exists z, b = a ++ z /\ z <> []) \/ (exists t, a = b ++ t).
Proof.
  induction a as [|a0 a IH]; intros b x y He.
  - destruct b as [|b0 b]; [right; exists []; reflexivity | left; exists (b0 :: b); split; [reflexivity|discriminate]].
  - destruct b as [|b0 b]; [right; exists (a0 :: a); reflexivity|].
    cbn in He. inversion He; subst.
    destruct (IH b x y H2) as [[z [Hz Hn']]|[t Ht]].
    + left. exists z. split; [cbn; f_equal; exact Hz|exact Hn'].
    + right. exists t. cbn. f_equal. exact Ht.
Qed.

Definition Inv (c0 : client) (pre : bytes) (c : client) : Prop :=
  (c = set_buf pre c0 /\ exists rest, hdr = pre ++ rest /\ rest <> []) \/ (exists t, pre = hdr ++ t /\ P2 t c).

Lemma Inv_step known c0 pre c d more body :
  Init known c0 -> Inv c0 pre c -> (pre ++ d) ++ more = hdr ++ body ->
  Inv c0 (pre ++ d) (step H json_loads c (EvData d)).
Proof.
  intros Hi [[Hc [rest [Hh Hne]]]|[t [Hp Hp2]]] Hs.
  - subst c. destruct (prefix_cases _ _ _ _ Hs) as [[z [Hz Hzn]]|[t Ht]].
    + left. split; [eapply step_in_header; eassumption|]. exists z. split; assumption.
    + right. exists t. split; [exact Ht|]. eapply step_completes_header; eassumption.
  - right. exists (t ++ d). split; [rewrite Hp, app_assoc; reflexivity|]. apply step_P2. exact Hp2.
Qed.

Lemma Inv_feed known c0 body : Init known c0 ->
  forall frags pre c, Inv c0 pre c -> pre ++ concat frags = hdr ++ body ->
  Inv c0 (hdr ++ body) (feed H json_loads c frags).
Proof.
  intros Hi. induction frags as [|f frags IH]; intros pre c Hinv Hs.
  - cbn in Hs. rewrite app_nil_r in Hs. subst pre. exact Hinv.
  - unfold feed, run in *. cbn [map fold_left]. cbn [concat] in Hs. rewrite app_assoc in Hs.
    apply (IH (pre ++ f)); [|exact Hs].
    eapply Inv_step; eassumption.
Qed.

(* THE fragmentation theorem: whatever the cuts, the writer receives the body cut at the announced length,
   the response is delivered exactly once, nothing stays buffered *)
Theorem fragmentation_irrelevant known c0 body frags :
  Init known c0 -> concat frags = hdr ++ body ->
  let c := feed H json_loads c0 frags in
  w_data (c_w c) = firstn (Z.to_nat n) body /\ c_delivered c = 1%nat /\ c_fut c = FutResult r /\
  c_buf c = [] /\ c_received c = Z.min n (zlen body) /\ c_len c = Some n.
Proof.
  intros Hi Hs c.
  assert (Hinv0 : Inv c0 [] c0).
  { left. split; [symmetry; apply set_buf_id; apply Hi|]. exists hdr. split; [reflexivity|apply hdr_nonempty]. }
  pose proof (Inv_feed known c0 body Hi frags [] c0 Hinv0 Hs) as [[_ [rest [Hh Hne]]]|[t [Hp Hp2]]].
  - exfalso. apply (f_equal (@length _)) in Hh. rewrite !app_length in Hh. destruct rest; [congruence|cbn in Hh; lia].
  - apply app_inv_head in Hp. subst t.
    destruct Hp2 as (A1 & A2 & A3 & A4 & A5 & A6 & A7 & A8 & A9). fold c in A1, A2, A3, A4, A5, A6, A7, A8, A9.
    assert (Hd : w_data (c_w c) = firstn (Z.to_nat n) body /\ zlen (w_data (c_w c)) = Z.min n (zlen body)).
    { destruct A9 as [(B1 & B2 & B3 & B4 & B5)|(B1 & B2 & B3)].
      - rewrite B3. split; [symmetry; apply firstn_all2; unfold zlen in *; lia|lia].
      - rewrite B2. split; [reflexivity|]. rewrite zlen_firstn. lia. }
    destruct Hd as [Hd1 Hd2]. rewrite A8, Hd2. repeat split; auto.
Qed.

End Frag.
