(* C10 proofs, client side: safety invariants for ALL event sequences *)
From Coq Require Import NArith ZArith List Bool Lia.
From Coq.Strings Require Import Byte.
From LV Require Import Lib.Bytes Model.C10 Proofs.C10.
Import ListNotations.
Local Open Scope Z_scope.
Ltac Zify.zify_post_hook ::= Z.to_euclidean_division_equations.

Section Client.
Variable H : bytes -> bytes.
Variable json_loads : bytes -> jres.

(* ---- the part of the state the safety claims talk about *)
Definition Core (c : client) : Prop :=
  let w := c_w c in
  (w_closed w = false -> w_fin w = WPending) /\
  (w_fin w = WResult -> H (w_data w) = c_hash c /\ c_len c = Some (zlen (w_data w)) /\ w_closed w = true) /\
  (w_closed w = false ->
   match c_len c with
   | Some L => zlen (w_data w) <= c_received c /\ c_received c <= L
   | None => w_data w = [] /\ c_received c = 0
   end) /\
  (forall d, c_verified c = Some d -> d = w_data w /\ w_fin w = WResult).

Definition Safe (c : client) : Prop := Core c /\ zlen (c_buf c) <= MAX_RESPONSE_SIZE.

Definition same_core (c c' : client) : Prop :=
  c_w c' = c_w c /\ c_hash c' = c_hash c /\ c_len c' = c_len c /\ c_received c' = c_received c /\
  c_verified c' = c_verified c.

Lemma Core_ext c c' : same_core c c' -> Core c -> Core c'.
Proof.
  intros (Hw & Hh & Hl & Hr & Hv) (S1 & S2 & S3 & S4). unfold Core.
  rewrite Hw, Hh, Hl, Hr, Hv. split; [exact S1|split; [exact S2|split; [exact S3|exact S4]]].
Qed.

Lemma cap_nil : zlen (@nil byte) <= MAX_RESPONSE_SIZE.
Proof. cbn. unfold MAX_RESPONSE_SIZE. lia. Qed.

(* closing the writer handle keeps the core invariant *)
Lemma Core_close_handle c c' :
  c_w c' = close_handle (c_w c) -> c_hash c' = c_hash c -> c_len c' = c_len c -> c_received c' = c_received c ->
  c_verified c' = c_verified c -> Core c -> Core c'.
Proof.
  intros Hw Hh Hl Hr Hv (S1 & S2 & S3 & S4). unfold Core.
  rewrite Hw, Hh, Hl, Hr, Hv. unfold close_handle. cbn [w_data w_closed w_fin].
  repeat split.
  - discriminate.
  - destruct (w_fin (c_w c)); try discriminate; apply S2; reflexivity.
  - destruct (w_fin (c_w c)); try discriminate; apply S2; reflexivity.
  - discriminate.
  - apply S4; assumption.
  - destruct (S4 d H0) as [_ Hf]. rewrite Hf. reflexivity.
Qed.

Lemma Safe_close c : Core c -> Safe (close c).
Proof.
  intro Hs. split; [|apply cap_nil]. unfold close.
  destruct (c_has_w c && negb (w_closed (c_w c))).
  - eapply Core_close_handle; try reflexivity. exact Hs.
  - eapply Core_ext; [|exact Hs]. repeat split.
Qed.

Lemma pyslice_len data k : 0 <= k -> zlen (pyslice_to data k) = Z.min k (zlen data).
Proof.
  intro Hk. unfold pyslice_to. destruct (k <? 0) eqn:E; [lia|].
  rewrite zlen_firstn. lia.
Qed.

Lemma Core_maybe_futexc (b : bool) c : Core c -> Core (if b then set_fut FutExc c else c).
Proof. intro Hc. destruct b; [|exact Hc]. eapply Core_ext; [|exact Hc]. repeat split. Qed.

(* HashBlobWriter.write, for a writer that is pending while open and is not offered more than fits *)
Lemma writer_write_spec hash L w data w' out :
  writer_write H hash (Some L) w data = (w', out) ->
  (w_closed w = false -> w_fin w = WPending) ->
  (w_fin w = WResult -> w_closed w = true) ->
  zlen (w_data w) + zlen data <= L ->
  (w_fin w = WResult -> w' = w) /\
  (w_closed w' = false -> w_fin w' = WPending) /\
  (w_fin w' = WResult -> w_fin w <> WResult ->
     H (w_data w') = hash /\ L = zlen (w_data w') /\ w_closed w' = true) /\
  zlen (w_data w) <= zlen (w_data w') <= zlen (w_data w) + zlen data /\
  out <> WoInvalidState.
Proof.
  intros Hw P1 P2 Hfit. unfold writer_write in Hw. pose proof (zlen_nonneg data) as Hdn.
  destruct (L =? 0) eqn:EL0.
  { inversion Hw; subst. repeat split; auto; try lia; try discriminate; try contradiction. }
  destruct (w_closed w) eqn:Ecl.
  { destruct (w_fin w) eqn:Ef; inversion Hw; subst; cbn [w_data w_closed w_fin];
      repeat split; auto; try lia; try discriminate; try contradiction; try congruence. }
  pose proof (P1 eq_refl) as Hp. rewrite Hp in Hw.
  assert (Hdl : zlen (w_data w ++ data) = zlen (w_data w) + zlen data) by apply zlen_app.
  destruct (zlen (w_data w ++ data) >? L) eqn:Egt; [lia|].
  destruct (zlen (w_data w ++ data) =? L) eqn:Eeq.
  - destruct (bytes_eqb (H (w_data w ++ data)) hash) eqn:Eh; inversion Hw; subst; cbn [w_data w_closed w_fin];
      repeat split; auto; try lia; try discriminate; try congruence.
    apply bytes_eqb_eq. exact Eh.
  - inversion Hw; subst; cbn [w_data w_closed w_fin]; repeat split; auto; try lia; try discriminate; try congruence.
Qed.

Lemma Core_step c c' L :
  c_hash c' = c_hash c -> c_len c' = Some L -> c_len c = Some L -> c_verified c' = c_verified c ->
  Core c ->
  (w_fin (c_w c) = WResult -> c_w c' = c_w c) ->
  (w_closed (c_w c') = false -> w_fin (c_w c') = WPending) ->
  (w_fin (c_w c') = WResult -> w_fin (c_w c) <> WResult ->
     H (w_data (c_w c')) = c_hash c /\ L = zlen (w_data (c_w c')) /\ w_closed (c_w c') = true) ->
  (w_closed (c_w c') = false -> zlen (w_data (c_w c')) <= c_received c' /\ c_received c' <= L) ->
  Core c'.
Proof.
  intros Hh Hl' Hl Hv (S1 & S2 & S3 & S4) Q0 Q1 Q2 Q3. unfold Core. rewrite Hh, Hl', Hv.
  split; [exact Q1|]. split; [|split; [exact Q3|]].
  - intro Hf. destruct (w_fin (c_w c)) eqn:Ef;
      try (destruct (Q2 Hf) as (A & B & C); [discriminate|]; split; [exact A|split; [f_equal; exact B|exact C]]).
    rewrite (Q0 eq_refl). rewrite Hl in S2. apply S2. reflexivity.
  - intros d Hd. destruct (S4 d Hd) as [A B]. rewrite (Q0 B). split; assumption.
Qed.

(* a writer that is already closed: write() changes nothing that matters *)
Lemma Core_closed_writer c c' :
  c_hash c' = c_hash c -> c_len c' = c_len c -> c_verified c' = c_verified c -> Core c ->
  w_closed (c_w c') = true -> (w_fin (c_w c') = WResult -> c_w c' = c_w c) ->
  (w_fin (c_w c) = WResult -> c_w c' = c_w c) ->
  Core c'.
Proof.
  intros Hh Hl Hv (S1 & S2 & S3 & S4) Hcl Q0 Q1. unfold Core. rewrite Hh, Hl, Hv.
  split; [congruence|]. split; [|split; [congruence|]].
  - intro Hf. rewrite (Q0 Hf) in Hf |- *. apply S2. exact Hf.
  - intros d Hd. destruct (S4 d Hd) as [A B]. rewrite (Q1 B). split; assumption.
Qed.

(* _write keeps the invariant (and never hands the writer more than the announced length); it never raises
   while a length is known *)
Lemma Core_cl_write c data : Core c ->
  Core (fst (cl_write H c data)) /\ (c_len c <> None -> snd (cl_write H c data) = false).
Proof.
  intros Hc. pose proof Hc as (S1 & S2 & S3 & S4). unfold cl_write.
  destruct (c_len c) as [L|] eqn:El; [|cbn [fst snd]; split; [exact Hc|congruence]].
  set (room := L - c_received c).
  set (data' := if zlen data >? room then pyslice_to data room else data).
  destruct (w_closed (c_w c)) eqn:Ecl.
  { (* closed writer *)
    assert (Hgen : forall w' out, writer_write H (c_hash c) (Some L) (c_w c) data' = (w', out) ->
       w_closed w' = true /\ (w_fin w' = WResult -> w' = c_w c) /\ (w_fin (c_w c) = WResult -> w' = c_w c) /\
       out <> WoInvalidState).
    { intros w' out Hw. unfold writer_write in Hw. destruct (L =? 0).
      - inversion Hw; subst. repeat split; auto; discriminate.
      - rewrite Ecl in Hw. destruct (w_fin (c_w c)) eqn:Ef; inversion Hw; subst; cbn; repeat split; auto; try discriminate;
          intro; congruence. }
    destruct (writer_write H (c_hash c) (Some L) (c_w c) data') as [w' out] eqn:Ew.
    destruct (Hgen w' out eq_refl) as (G1 & G2 & G3 & G4).
    assert (Hcore : Core (set_w w' (set_received (c_received c + zlen data') c))).
    { eapply Core_closed_writer; try exact Hc; cbn; auto. }
    destruct out; cbn [fst snd]; [split; [exact Hcore|reflexivity]|split; [apply Core_maybe_futexc; exact Hcore|reflexivity]|congruence]. }
  clear S1 S2 S3 S4. pose proof Hc as (S1 & S2 & S3 & S4). rewrite El in S2, S3.
  destruct (S3 Ecl) as [S3a S3b].
  assert (Hd' : 0 <= zlen data' <= room).
  { subst data'. destruct (zlen data >? room) eqn:E.
    - rewrite pyslice_len by lia. pose proof (zlen_nonneg data). lia.
    - pose proof (zlen_nonneg data). lia. }
  destruct (writer_write H (c_hash c) (Some L) (c_w c) data') as [w' out] eqn:Ew.
  destruct (writer_write_spec _ _ _ _ _ _ Ew S1) as (R0 & R1 & R2 & R3 & R4).
  { intro Hf. apply S2. exact Hf. }
  { lia. }
  assert (Hcore : Core (set_w w' (set_received (c_received c + zlen data') c))).
  { apply (Core_step c _ L); cbn; auto. intros _. lia. }
  destruct out; cbn [fst snd].
  - split; [exact Hcore|reflexivity].
  - split; [apply Core_maybe_futexc; exact Hcore|reflexivity].
  - congruence.
Qed.

Lemma buf_cl_write c data : c_buf (fst (cl_write H c data)) = c_buf c.
Proof.
  unfold cl_write. destruct (c_len c); [|reflexivity].
  destruct (writer_write _ _ _ _ _) as [w' []]; cbn; try reflexivity.
  destruct (c_att c && _); reflexivity.
Qed.

Lemma Core_write_if_open c data : Core c -> Core (fst (write_if_open H c data)).
Proof.
  intro Hs. unfold write_if_open. destruct data; [exact Hs|].
  destruct (c_has_w c && negb (w_closed (c_w c))); [apply Core_cl_write; exact Hs | exact Hs].
Qed.

Lemma buf_write_if_open c data : c_buf (fst (write_if_open H c data)) = c_buf c.
Proof.
  unfold write_if_open. destruct data; [reflexivity|].
  destruct (c_has_w c && negb (w_closed (c_w c))); [apply buf_cl_write | reflexivity].
Qed.

Lemma Core_set_length l c : Core c -> Core (fst (set_length l c)).
Proof.
  intros (S1 & S2 & S3 & S4). unfold set_length.
  destruct l as [z|]; destruct (c_len c) as [k|] eqn:El; cbn [fst]; try (unfold Core; rewrite El; tauto).
  destruct ((0 <=? z) && (z <=? MAX_BLOB_SIZE)) eqn:E; cbn [fst]; [|unfold Core; rewrite El; tauto].
  apply andb_true_iff in E. destruct E as [E1 E2].
  assert (Hnr : w_fin (c_w c) <> WResult).
  { intro Hf. destruct (S2 Hf) as (_ & Hc & _). congruence. }
  unfold Core. cbn [set_len c_w c_hash c_len c_received c_verified].
  split; [exact S1|]. split; [intro Hf; contradiction|]. split; [|exact S4].
  intro Hop. destruct (S3 Hop) as [Hd Hr]. rewrite Hd, Hr. cbn. lia.
Qed.

Lemma buf_set_length l c : c_buf (fst (set_length l c)) = c_buf c.
Proof. unfold set_length. destruct l, (c_len c); try reflexivity. destruct (_ && _); reflexivity. Qed.

Lemma Safe_parse_path c data : Safe c -> Safe (fst (parse_path H json_loads c data)).
Proof.
  intros [Hs Hb]. unfold parse_path.
  assert (Hnil : Core (set_buf [] c)) by (eapply Core_ext; [|exact Hs]; repeat split).
  destruct (parse_prefix json_loads (c_buf c ++ data)) as [| |r n]; cbn [fst].
  - destruct (negb (fut_done (c_fut c))).
    + destruct (zlen (c_buf c ++ data) >? MAX_RESPONSE_SIZE) eqn:E; cbn [fst].
      * apply Safe_close. eapply Core_ext; [|exact Hs]. repeat split.
      * split; [eapply Core_ext; [|exact Hs]; repeat split|]. cbn. lia.
    + split; [apply Core_write_if_open; exact Hnil|]. rewrite buf_write_if_open. apply cap_nil.
  - split; assumption.
  - (* a response was recognised *)
    assert (Hdeliver : forall c1, Core c1 -> c_buf c1 = [] ->
       Safe (fst (match c_fut c1 with
                  | FutPending => write_if_open H (set_delivered (S (c_delivered c1)) (set_fut (FutResult r) c1))
                                    (skipn n (c_buf c ++ data))
                  | _ => (c1, true) end))).
    { intros c1 Hc1 Hb1. destruct (c_fut c1); cbn [fst]; try (split; [exact Hc1|rewrite Hb1; apply cap_nil]).
      split; [apply Core_write_if_open; eapply Core_ext; [|exact Hc1]; repeat split|].
      rewrite buf_write_if_open. cbn. rewrite Hb1. apply cap_nil. }
    destruct (if c_att (set_buf [] c) then r_blob r else BrAbsent) as [| |h l].
    + apply Hdeliver; [exact Hnil|reflexivity].
    + apply Hdeliver; [exact Hnil|reflexivity].
    + destruct (match h with Some h' => bytes_eqb h' (c_hash (set_buf [] c)) | None => false end).
      * destruct (set_length l (set_buf [] c)) as [c1 raised] eqn:Esl.
        assert (Hc1 : Core c1) by (change c1 with (fst (c1, raised)); rewrite <- Esl; apply Core_set_length; exact Hnil).
        assert (Hb1 : c_buf c1 = []) by (change c1 with (fst (c1, raised)); rewrite <- Esl, buf_set_length; reflexivity).
        destruct raised; cbn [fst]; [split; [exact Hc1|rewrite Hb1; apply cap_nil]|].
        apply Hdeliver; assumption.
      * cbn [fst]. split; [exact Hnil|apply cap_nil].
Qed.

Lemma Safe_data_received c data : Safe c -> Safe (fst (data_received H json_loads c data)).
Proof.
  intros Hs. pose proof Hs as [Hc Hb]. unfold data_received.
  destruct (negb (c_open c)); cbn [fst].
  { destruct (c_att c && negb (fut_done (c_fut c))); [|exact Hs].
    split; [eapply Core_ext; [|exact Hc]; repeat split|exact Hb]. }
  destruct (negb (c_att c)); cbn [fst]; [apply Safe_close; exact Hc|].
  destruct (negb (c_received c =? 0) || fut_done (c_fut c)); [|apply Safe_parse_path; exact Hs].
  destruct (negb (c_has_w c)); cbn [fst]; [exact Hs|].
  destruct (negb (w_closed (c_w c))); [|apply Safe_parse_path; exact Hs].
  split; [apply Core_cl_write; exact Hc|rewrite buf_cl_write; exact Hb].
Qed.

Lemma Safe_data_received_old c data : Safe c -> Safe (fst (data_received_old H json_loads c data)).
Proof.
  intros Hs. pose proof Hs as [Hc Hb]. unfold data_received_old.
  destruct (negb (c_open c)); cbn [fst].
  { destruct (c_att c && negb (fut_done (c_fut c))); [|exact Hs].
    split; [eapply Core_ext; [|exact Hc]; repeat split|exact Hb]. }
  destruct (negb (c_att c)); cbn [fst]; [apply Safe_close; exact Hc|].
  destruct (negb (c_received c =? 0)); [|apply Safe_parse_path; exact Hs].
  destruct (negb (c_has_w c)); cbn [fst]; [exact Hs|].
  destruct (negb (w_closed (c_w c))); [|apply Safe_parse_path; exact Hs].
  split; [apply Core_cl_write; exact Hc|rewrite buf_cl_write; exact Hb].
Qed.

(* ---- the coroutine and the loop *)
Lemma Safe_same c c' : same_core c c' -> c_buf c' = c_buf c -> Safe c -> Safe c'.
Proof. intros Hsc Hb [Hc Hbb]. split; [eapply Core_ext; eassumption|rewrite Hb; exact Hbb]. Qed.

Lemma Safe_run_callbacks c : Safe c -> Safe (run_callbacks c).
Proof.
  intros [Hc Hb]. unfold run_callbacks.
  destruct (w_fin (c_w c)) eqn:Ef; try (split; assumption).
  destruct (c_verified c) eqn:Ev; [split; assumption|].
  split; [|exact Hb]. destruct Hc as (S1 & S2 & S3 & S4).
  unfold Core. cbn [set_verified c_w c_hash c_len c_received c_verified].
  split; [exact S1|split; [exact S2|split; [exact S3|]]].
  intros d Hd. inversion Hd; subst. split; [reflexivity|exact Ef].
Qed.

(* the writer's done-callbacks have run: a writer holding verified bytes has saved them *)
Definition DV (c : client) : Prop := w_fin (c_w c) = WResult -> c_verified c <> None.

Lemma DV_run_callbacks c : DV (run_callbacks c).
Proof.
  unfold DV, run_callbacks. destruct (w_fin (c_w c)) eqn:Ef; try (intro; congruence).
  destruct (c_verified c) eqn:Ev; cbn; intros _; congruence.
Qed.
Lemma DV_close c : DV c -> DV (close c).
Proof.
  unfold DV, close. cbn. destruct (c_has_w c && negb (w_closed (c_w c))); [|auto].
  unfold close_handle. cbn. destruct (w_fin (c_w c)); auto; discriminate.
Qed.
Lemma DV_finish res c : DV c -> DV (finish res c).
Proof.
  unfold DV, finish. intro Hd.
  destruct (c_has_w c && negb (w_closed (c_w c))); cbn;
    try (unfold close_handle; cbn; destruct (w_fin (c_w c)); auto; discriminate); auto.
Qed.
Lemma DV_same c c' : c_w c' = c_w c -> c_verified c' = c_verified c -> DV c -> DV c'.
Proof. unfold DV. intros -> ->. auto. Qed.
Lemma DV_co_await_fin c : DV c -> DV (co_await_fin c).
Proof.
  intro Hd. unfold co_await_fin. destruct (w_fin (c_w c)); try exact Hd;
    apply DV_finish; try (apply DV_close; exact Hd). apply DV_run_callbacks.
Qed.
Lemma DV_co_step c : DV c -> DV (co_step c).
Proof.
  intro Hd. unfold co_step. destruct (c_phase c); try exact Hd; [|apply DV_co_await_fin; exact Hd].
  destruct (c_fut c); try exact Hd; try (apply DV_finish; try apply DV_close; exact Hd).
  destruct (c_closed_ev c); [apply DV_finish, DV_close; exact Hd|].
  match goal with |- context[if ?b then _ else _] => destruct b end;
    [apply DV_co_await_fin; eapply DV_same; [| |exact Hd]; reflexivity|apply DV_finish, DV_close; exact Hd].
Qed.
Lemma DV_drain c : DV (drain c).
Proof.
  unfold drain. destruct (c_lost _); apply DV_co_step, DV_run_callbacks.
Qed.

Lemma Safe_finish res c : Safe c -> DV c -> Safe (finish res c).
Proof.
  intros [Hc Hb] _. unfold finish.
  destruct (c_has_w c && negb (w_closed (c_w c))).
  - split; [|exact Hb]. eapply Core_close_handle; try reflexivity. exact Hc.
  - split; [eapply Core_ext; [|exact Hc]; repeat split|exact Hb].
Qed.

Lemma Safe_co_await_fin c : Safe c -> DV c -> Safe (co_await_fin c).
Proof.
  intros Hs Hd. unfold co_await_fin.
  destruct (w_fin (c_w c)); try exact Hs;
    try (apply Safe_finish; [apply Safe_close; apply Hs|apply DV_close; exact Hd]).
  apply Safe_finish; [apply Safe_run_callbacks; exact Hs|apply DV_run_callbacks].
Qed.

Lemma Safe_co_step c : Safe c -> DV c -> Safe (co_step c).
Proof.
  intros Hs Hd. unfold co_step.
  destruct (c_phase c); try exact Hs.
  - destruct (c_fut c); try exact Hs.
    + destruct (c_closed_ev c); [apply Safe_finish; [apply Safe_close; apply Hs|apply DV_close; exact Hd]|].
      destruct (acceptable (c_hash c) (c_len c) r).
      * apply Safe_co_await_fin; [eapply Safe_same; [| |exact Hs]; [repeat split|reflexivity]|].
        eapply DV_same; [| |exact Hd]; reflexivity.
      * apply Safe_finish; [apply Safe_close; apply Hs|apply DV_close; exact Hd].
    + apply Safe_finish; assumption.
    + apply Safe_finish; [apply Safe_close; apply Hs|apply DV_close; exact Hd].
  - apply Safe_co_await_fin; assumption.
Qed.

Lemma Safe_drain c : Safe c -> Safe (drain c).
Proof.
  intro Hs. unfold drain.
  assert (H1 : Safe (co_step (run_callbacks c))) by (apply Safe_co_step; [apply Safe_run_callbacks; exact Hs|apply DV_run_callbacks]).
  destruct (c_lost (co_step (run_callbacks c))); [|exact H1].
  apply Safe_co_step; [|apply DV_run_callbacks]. apply Safe_run_callbacks, Safe_close.
  destruct H1 as [Hc _]. eapply Core_ext; [|exact Hc]. repeat split.
Qed.

Lemma Safe_fire_timeouts c : Safe c -> DV c -> Safe (fire_timeouts c).
Proof.
  intros Hs Hd. unfold fire_timeouts.
  destruct (c_phase c); try exact Hs.
  - destruct (deadline <=? c_now c); [|exact Hs].
    destruct (c_fut c); try exact Hs.
    apply Safe_finish.
    + apply Safe_close. destruct Hs as [Hc _]. eapply Core_ext; [|exact Hc]. repeat split.
    + apply DV_close. eapply DV_same; [| |exact Hd]; reflexivity.
  - destruct (deadline <=? c_now c); [|exact Hs].
    apply Safe_finish.
    + apply Safe_close. destruct Hs as [Hc _]. eapply Core_close_handle; try reflexivity. exact Hc.
    + apply DV_close. unfold DV in *. cbn. unfold close_handle. cbn. destruct (w_fin (c_w c)); auto; discriminate.
Qed.

Lemma Safe_finish_any res c : Safe c -> Safe (finish res c).
Proof.
  intros [Hc Hb]. unfold finish.
  destruct (c_has_w c && negb (w_closed (c_w c))).
  - split; [|exact Hb]. eapply Core_close_handle; try reflexivity. exact Hc.
  - split; [eapply Core_ext; [|exact Hc]; repeat split|exact Hb].
Qed.

Lemma Safe_cancel_download c : Safe c -> Safe (cancel_download c).
Proof.
  intro Hs. unfold cancel_download. destruct (c_phase c); try exact Hs.
  - apply Safe_finish_any, Safe_close. destruct Hs as [Hc _].
    destruct (c_fut c); try exact Hc; (eapply Core_ext; [repeat split|exact Hc]).
  - apply Safe_finish_any, Safe_close. destruct Hs as [Hc _].
    eapply Core_close_handle; try reflexivity. exact Hc.
Qed.

Lemma Safe_force_close c : Safe c -> Safe (force_close c).
Proof. intro Hs. eapply Safe_same; [| |exact Hs]; [repeat split|reflexivity]. Qed.

Lemma Safe_step_with dr : (forall c d, Safe c -> Safe (fst (dr c d))) ->
  forall c e, Safe c -> Safe (step_with dr c e).
Proof.
  intros Hdr c e Hs. destruct e; cbn [step_with].
  - destruct (c_open c); [|exact Hs].
    pose proof (Hdr c d Hs) as Hd. destruct (dr c d) as [c1 raised]. cbn [fst] in Hd.
    destruct raised; [apply Safe_force_close|]; exact Hd.
  - pose proof (Hdr c d Hs) as Hd. destruct (dr c d) as [c1 raised]. cbn [fst] in Hd.
    destruct raised; [apply Safe_force_close|]; exact Hd.
  - apply Safe_drain. exact Hs.
  - apply Safe_drain, Safe_fire_timeouts.
    + eapply Safe_same; [| |apply Safe_drain; exact Hs]; [repeat split|reflexivity].
    + eapply DV_same; [| |apply DV_drain]; reflexivity.
  - destruct (c_open c); [apply Safe_force_close|]; exact Hs.
  - apply Safe_drain, Safe_cancel_download. exact Hs.
Qed.

Lemma Safe_run : forall evs c, Safe c -> Safe (run H json_loads c evs).
Proof.
  induction evs as [|e evs IH]; intros c Hs; [exact Hs|].
  cbn [run fold_left]. apply IH. apply Safe_step_with; [apply Safe_data_received|exact Hs].
Qed.

Lemma Safe_run_old : forall evs c, Safe c -> Safe (run_old H json_loads c evs).
Proof.
  induction evs as [|e evs IH]; intros c Hs; [exact Hs|].
  cbn [run_old fold_left]. apply IH. apply Safe_step_with; [apply Safe_data_received_old|exact Hs].
Qed.

Lemma Safe_start hash known c : (match known with Some k => 0 <= k | None => True end) ->
  zlen (c_buf c) <= MAX_RESPONSE_SIZE -> Safe (start_download hash known c).
Proof.
  intros Hk Hb. split; [|exact Hb]. unfold Core. cbn.
  split; [reflexivity|]. split; [discriminate|]. split; [|discriminate].
  destruct known; cbn; [lia|auto].
Qed.

Lemma Safe_request hash known c : (match known with Some k => 0 <= k | None => True end) ->
  zlen (c_buf c) <= MAX_RESPONSE_SIZE -> Safe (request hash known c).
Proof.
  intros Hk Hb. unfold request. destruct (c_open c); apply Safe_start; auto. apply cap_nil.
Qed.

(* ---- what data_received never touches: the coroutine's phase, the clock, the timeout, the blob hash *)
Definition frame (c c' : client) : Prop :=
  c_phase c' = c_phase c /\ c_now c' = c_now c /\ c_T c' = c_T c /\ c_hash c' = c_hash c.
Lemma frame_refl c : frame c c.
Proof. repeat split. Qed.
Lemma frame_trans a b c : frame a b -> frame b c -> frame a c.
Proof. intros (A1 & A2 & A3 & A4) (B1 & B2 & B3 & B4). repeat split; congruence. Qed.

Lemma frame_cl_write c data : frame c (fst (cl_write H c data)).
Proof.
  unfold cl_write. destruct (c_len c); [|apply frame_refl].
  destruct (writer_write _ _ _ _ _) as [w' []]; cbn [fst]; try (repeat split; fail).
  destruct (c_att _ && _); repeat split.
Qed.
Lemma frame_write_if_open c data : frame c (fst (write_if_open H c data)).
Proof.
  unfold write_if_open. destruct data; [apply frame_refl|].
  destruct (c_has_w c && _); [apply frame_cl_write|apply frame_refl].
Qed.
Lemma frame_set_length l c : frame c (fst (set_length l c)).
Proof. unfold set_length. destruct l, (c_len c); try apply frame_refl. destruct (_ && _); repeat split. Qed.
Lemma frame_close c : frame c (close c).
Proof. repeat split. Qed.

Lemma frame_parse_path c data : frame c (fst (parse_path H json_loads c data)).
Proof.
  unfold parse_path.
  destruct (parse_prefix json_loads (c_buf c ++ data)) as [| |r n]; cbn [fst]; [|apply frame_refl|].
  - destruct (negb (fut_done (c_fut c))).
    + destruct (_ >? _); repeat split.
    + eapply frame_trans; [|apply frame_write_if_open]. repeat split.
  - assert (Hdeliver : forall c1, frame c c1 ->
       frame c (fst (match c_fut c1 with
                  | FutPending => write_if_open H (set_delivered (S (c_delivered c1)) (set_fut (FutResult r) c1))
                                    (skipn n (c_buf c ++ data))
                  | _ => (c1, true) end))).
    { intros c1 Hf. destruct (c_fut c1); cbn [fst]; try exact Hf.
      eapply frame_trans; [|apply frame_write_if_open]. eapply frame_trans; [exact Hf|]. repeat split. }
    assert (Hnil : frame c (set_buf [] c)) by (repeat split).
    destruct (if c_att (set_buf [] c) then r_blob r else BrAbsent) as [| |h l]; try (apply Hdeliver; exact Hnil).
    destruct (match h with Some h' => bytes_eqb h' (c_hash (set_buf [] c)) | None => false end); [|exact Hnil].
    destruct (set_length l (set_buf [] c)) as [c1 raised] eqn:Esl.
    assert (Hf1 : frame c c1).
    { eapply frame_trans; [exact Hnil|]. change c1 with (fst (c1, raised)). rewrite <- Esl. apply frame_set_length. }
    destruct raised; cbn [fst]; [exact Hf1|apply Hdeliver; exact Hf1].
Qed.

Lemma frame_data_received c data : frame c (fst (data_received H json_loads c data)).
Proof.
  unfold data_received.
  destruct (negb (c_open c)); cbn [fst]; [destruct (_ && _); repeat split|].
  destruct (negb (c_att c)); cbn [fst]; [apply frame_close|].
  destruct (_ || _); [|apply frame_parse_path].
  destruct (negb (c_has_w c)); cbn [fst]; [apply frame_refl|].
  destruct (negb (w_closed (c_w c))); [apply frame_cl_write|apply frame_parse_path].
Qed.

(* ---- the hash of the requested blob never changes during a download *)
Lemma hash_finish res c : c_hash (finish res c) = c_hash c.
Proof. unfold finish. repeat match goal with |- context[if ?b then _ else _] => destruct b end; reflexivity. Qed.
Lemma hash_run_callbacks c : c_hash (run_callbacks c) = c_hash c.
Proof. unfold run_callbacks. destruct (w_fin _), (c_verified c); reflexivity. Qed.
Lemma hash_co_await_fin c : c_hash (co_await_fin c) = c_hash c.
Proof.
  unfold co_await_fin. destruct (w_fin (c_w c)); try reflexivity;
    rewrite hash_finish; try reflexivity. apply hash_run_callbacks.
Qed.
Lemma hash_co_step c : c_hash (co_step c) = c_hash c.
Proof.
  unfold co_step. destruct (c_phase c); try reflexivity; [|apply hash_co_await_fin].
  destruct (c_fut c); try reflexivity; try (rewrite hash_finish; reflexivity).
  destruct (c_closed_ev c); [rewrite hash_finish; reflexivity|].
  destruct (acceptable _ _ _); [rewrite hash_co_await_fin|rewrite hash_finish]; reflexivity.
Qed.
Lemma hash_drain c : c_hash (drain c) = c_hash c.
Proof.
  unfold drain. destruct (c_lost _).
  - rewrite hash_co_step, hash_run_callbacks. cbn. rewrite hash_co_step, hash_run_callbacks. reflexivity.
  - rewrite hash_co_step, hash_run_callbacks. reflexivity.
Qed.
Lemma hash_fire_timeouts c : c_hash (fire_timeouts c) = c_hash c.
Proof.
  unfold fire_timeouts. destruct (c_phase c); try reflexivity; destruct (_ <=? _); try reflexivity;
    try (destruct (c_fut c); try reflexivity); rewrite hash_finish; reflexivity.
Qed.
Lemma hash_cancel c : c_hash (cancel_download c) = c_hash c.
Proof.
  unfold cancel_download. destruct (c_phase c); try reflexivity; rewrite hash_finish; try reflexivity.
  destruct (c_fut c); reflexivity.
Qed.
Lemma hash_step c e : c_hash (step H json_loads c e) = c_hash c.
Proof.
  unfold step. destruct e; cbn [step_with].
  - destruct (c_open c); [|reflexivity].
    pose proof (frame_data_received c d) as (_ & _ & _ & Hh).
    destruct (data_received H json_loads c d) as [c1 raised]. cbn [fst] in Hh. destruct raised; exact Hh.
  - pose proof (frame_data_received c d) as (_ & _ & _ & Hh).
    destruct (data_received H json_loads c d) as [c1 raised]. cbn [fst] in Hh. destruct raised; exact Hh.
  - apply hash_drain.
  - rewrite hash_drain, hash_fire_timeouts. cbn. apply hash_drain.
  - destruct (c_open c); reflexivity.
  - rewrite hash_drain. apply hash_cancel.
Qed.
Lemma hash_run : forall evs c, c_hash (run H json_loads c evs) = c_hash c.
Proof.
  induction evs as [|e evs IH]; intro c; [reflexivity|].
  unfold run in *. cbn [fold_left]. rewrite IH. apply hash_step.
Qed.

(* ---- the safety theorems, for every connection state, every request and EVERY event sequence *)
Theorem never_poisons c0 hash known evs d :
  (match known with Some k => 0 <= k | None => True end) ->
  zlen (c_buf c0) <= MAX_RESPONSE_SIZE ->
  let c := run H json_loads (request hash known c0) evs in
  c_verified c = Some d ->
  H d = hash /\ c_len c = Some (zlen d) /\ d = w_data (c_w c).
Proof.
  intros Hk Hb c Hv.
  assert (Hs : Safe c) by (apply Safe_run, Safe_request; assumption).
  assert (Hh : c_hash c = hash).
  { unfold c. rewrite hash_run. unfold request. destruct (c_open c0); reflexivity. }
  destruct Hs as [(S1 & S2 & S3 & S4) _]. destruct (S4 d Hv) as [Hd Hf]. subst d.
  destruct (S2 Hf) as (A & B & _). rewrite <- Hh. auto.
Qed.

Theorem never_over_length c0 hash known evs :
  (match known with Some k => 0 <= k | None => True end) ->
  zlen (c_buf c0) <= MAX_RESPONSE_SIZE ->
  let c := run H json_loads (request hash known c0) evs in
  (* while the writer is open it holds at most the blob length, and nothing without a length *)
  (w_closed (c_w c) = false ->
   match c_len c with
   | Some L => zlen (w_data (c_w c)) <= L /\ c_received c <= L
   | None => w_data (c_w c) = [] /\ c_received c = 0
   end) /\
  (* and every single _write in that state stays within the length *)
  (forall data L, c_len c = Some L -> w_closed (c_w c) = false ->
     zlen (w_data (c_w (fst (cl_write H c data)))) <= L).
Proof.
  intros Hk Hb c.
  assert (Hs : Safe c) by (apply Safe_run, Safe_request; assumption).
  destruct Hs as [Hc _]. pose proof Hc as (S1 & S2 & S3 & S4). split.
  - intro Hop. specialize (S3 Hop). destruct (c_len c); [lia|exact S3].
  - intros data L El Hop. specialize (S3 Hop). rewrite El in S3. destruct S3 as [S3a S3b].
    unfold cl_write. rewrite El.
    set (room := L - c_received c).
    set (data' := if zlen data >? room then pyslice_to data room else data).
    assert (Hd' : 0 <= zlen data' <= room).
    { subst data'. destruct (zlen data >? room) eqn:E.
      - rewrite pyslice_len by lia. pose proof (zlen_nonneg data). lia.
      - pose proof (zlen_nonneg data). lia. }
    destruct (writer_write H (c_hash c) (Some L) (c_w c) data') as [w' out] eqn:Ew.
    destruct (writer_write_spec _ _ _ _ _ _ Ew S1) as (R0 & R1 & R2 & R3 & R4).
    { intro Hf. apply S2. exact Hf. }
    { lia. }
    destruct out; cbn; try lia. destruct (c_att c && _); cbn; lia.
Qed.

Theorem buffer_bounded c0 hash known evs :
  (match known with Some k => 0 <= k | None => True end) ->
  zlen (c_buf c0) <= MAX_RESPONSE_SIZE ->
  zlen (c_buf (run H json_loads (request hash known c0) evs)) <= MAX_RESPONSE_SIZE.
Proof. intros Hk Hb. apply (Safe_run evs), Safe_request; assumption. Qed.

(* more than MAX_RESPONSE_SIZE bytes in which no response is recognised: the client closes *)
Theorem unrecognised_closes c data :
  c_open c = true -> c_att c = true -> c_received c = 0 -> c_fut c = FutPending ->
  parse_prefix json_loads (c_buf c ++ data) = PNone ->
  zlen (c_buf c ++ data) > MAX_RESPONSE_SIZE ->
  data_received H json_loads c data = (close (set_buf (c_buf c ++ data) c), false).
Proof.
  intros Ho Ha Hr Hf Hp Hz. unfold data_received. rewrite Ho, Ha, Hr, Hf. cbn.
  unfold parse_path. rewrite Hp, Hf. cbn.
  destruct (zlen (c_buf c ++ data) >? MAX_RESPONSE_SIZE) eqn:E; [reflexivity|lia].
Qed.

Lemma proj_finish res c :
  c_phase (finish res c) = PhDone res /\ c_open (finish res c) = c_open c /\ c_att (finish res c) = false /\
  c_lost (finish res c) = c_lost c /\
  c_w (finish res c) = (if c_has_w c && negb (w_closed (c_w c)) then close_handle (c_w c) else c_w c).
Proof. unfold finish. destruct (c_has_w c && negb (w_closed (c_w c))); repeat split. Qed.

(* ---- the client refuses *)
Lemma acceptable_sound hash known r :
  acceptable hash known r = true ->
  (r_avail r = AvSingle hash \/ r_avail r = AvFalsy) /\ r_price r = PrAccepted /\
  exists l, r_blob r = BrIncoming (Some hash) l /\
            (known = None \/ exists k, known = Some k /\ l = LInt k).
Proof.
  unfold acceptable. intro Ha.
  destruct (r_blob r) as [| |h l] eqn:Eb; cbn in Ha.
  - destruct (r_avail r) as [| |h'|]; cbn in Ha; try discriminate.
    destruct (negb (bytes_eqb h' hash)); cbn in Ha; try discriminate.
    destruct (r_price r); discriminate.
  - destruct (r_avail r) as [| |h'|]; cbn in Ha; try discriminate.
    destruct (negb (bytes_eqb h' hash)); cbn in Ha; try discriminate.
    destruct (r_price r); discriminate.
  - assert (Hav : r_avail r = AvSingle hash \/ r_avail r = AvFalsy).
    { destruct (r_avail r) as [| |h'|]; cbn in Ha; try discriminate; [right; reflexivity|].
      destruct (bytes_eqb h' hash) eqn:E; cbn in Ha; [|discriminate].
      apply bytes_eqb_eq in E. subst. left; reflexivity. }
    assert (Hrest : (match r_price r with PrAccepted => false | _ => true end) = false /\
       (if match h with Some h' => bytes_eqb h' hash | None => false end
        then match known with None => true | Some k => match l with LInt z => z =? k | LOther => false end end
        else false) = true).
    { destruct (r_avail r) as [| |h'|]; cbn in Ha; try discriminate.
      - destruct (match r_price r with PrAccepted => false | _ => true end); [discriminate|]. split; [reflexivity|exact Ha].
      - destruct (negb (bytes_eqb h' hash)); cbn in Ha; [discriminate|].
        destruct (match r_price r with PrAccepted => false | _ => true end); [discriminate|]. split; [reflexivity|exact Ha]. }
    destruct Hrest as [Hp Hb]. split; [exact Hav|]. split; [destruct (r_price r); try discriminate; reflexivity|].
    destruct h as [h'|]; [|discriminate]. destruct (bytes_eqb h' hash) eqn:E; [|discriminate].
    apply bytes_eqb_eq in E. subst h'. exists l. split; [reflexivity|].
    destruct known as [k|]; [|left; reflexivity]. right. exists k. split; [reflexivity|].
    destruct l as [z|]; [|discriminate]. apply Z.eqb_eq in Hb. subst. reflexivity.
Qed.

(* a delivered response that fails any of the checks (availability, price, hash, length): the next time the
   loop runs, the download ends "closed", the transport is closed, the writer handle is closed *)
Theorem client_refuses c r d :
  c_phase c = PhAwaitResp d -> c_fut c = FutResult r -> c_closed_ev c = false -> c_lost c = false ->
  acceptable (c_hash c) (c_len c) r = false ->
  let c' := drain c in
  c_phase c' = PhDone (DlClosed (c_received c)) /\ c_open c' = false /\ c_att c' = false /\
  w_closed (c_w c') = (c_has_w c || w_closed (c_w c)) /\ w_data (c_w c') = w_data (c_w c).
Proof.
  intros Hp Hf Hc Hl Ha c'. unfold c', drain.
  assert (Hrc : forall x, co_step (run_callbacks x) = co_step (run_callbacks x)) by reflexivity.
  assert (E : co_step (run_callbacks c) = finish (DlClosed (c_received c)) (close (run_callbacks c))).
  { unfold co_step.
    assert (R : c_phase (run_callbacks c) = c_phase c /\ c_fut (run_callbacks c) = c_fut c /\
                c_closed_ev (run_callbacks c) = c_closed_ev c /\ c_hash (run_callbacks c) = c_hash c /\
                c_len (run_callbacks c) = c_len c /\ c_received (run_callbacks c) = c_received c).
    { unfold run_callbacks. destruct (w_fin (c_w c)), (c_verified c); repeat split. }
    destruct R as (R1 & R2 & R3 & R4 & R5 & R6). rewrite R1, Hp, R2, Hf, R3, Hc, R4, R5, Ha, R6. reflexivity. }
  rewrite E.
  assert (W : c_w (run_callbacks c) = c_w c /\ c_has_w (run_callbacks c) = c_has_w c /\ c_lost (run_callbacks c) = c_lost c).
  { unfold run_callbacks. destruct (w_fin (c_w c)), (c_verified c); repeat split. }
  destruct W as (W1 & W2 & W3).
  destruct (proj_finish (DlClosed (c_received c)) (close (run_callbacks c))) as (P1 & P2 & P3 & P4 & P5).
  rewrite P4. cbn [close c_lost]. rewrite W3, Hl. rewrite P1, P2, P3, P5. cbn [close c_open c_has_w c_w andb].
  rewrite W1, W2.
  destruct (c_has_w c); destruct (w_closed (c_w c)) eqn:Ew; cbn; rewrite ?Ew; repeat split; reflexivity.
Qed.

(* a response announcing another blob than the one asked for is dropped: never delivered, nothing written *)
Theorem unrequested_blob_dropped c data r n h l :
  c_open c = true -> c_att c = true -> c_received c = 0 -> c_fut c = FutPending ->
  parse_prefix json_loads (c_buf c ++ data) = PResp r n -> r_blob r = BrIncoming h l ->
  h <> Some (c_hash c) ->
  data_received H json_loads c data = (set_buf [] c, false).
Proof.
  intros Ho Ha Hr Hf Hp Hb Hne. unfold data_received. rewrite Ho, Ha, Hr, Hf. cbn.
  unfold parse_path. rewrite Hp. cbn. rewrite Ha, Hb.
  destruct h as [h'|]; [|reflexivity].
  destruct (bytes_eqb h' (c_hash c)) eqn:E; [|reflexivity].
  apply bytes_eqb_eq in E. congruence.
Qed.

(* ---- KNOWN FINDING race-length-poison: a length once stored in the blob is never changed or forgotten *)
Lemma len_cl_write c d L : c_len c = Some L -> c_len (fst (cl_write H c d)) = Some L.
Proof.
  intro Hl. unfold cl_write. rewrite Hl.
  destruct (writer_write _ _ _ _ _) as [w' []]; cbn; auto. destruct (c_att c && _); cbn; auto.
Qed.
Lemma len_write_if_open c d L : c_len c = Some L -> c_len (fst (write_if_open H c d)) = Some L.
Proof.
  intro Hl. unfold write_if_open. destruct d; [exact Hl|]. destruct (c_has_w c && _); [apply len_cl_write|]; exact Hl.
Qed.
Lemma len_set_length l c L : c_len c = Some L -> fst (set_length l c) = c /\ snd (set_length l c) = false.
Proof. intro Hl. unfold set_length. rewrite Hl. destruct l; auto. Qed.
Lemma len_parse_path c d L : c_len c = Some L -> c_len (fst (parse_path H json_loads c d)) = Some L.
Proof.
  intro Hl. unfold parse_path.
  destruct (parse_prefix json_loads (c_buf c ++ d)) as [| |r n]; cbn [fst]; [|exact Hl|].
  - destruct (negb (fut_done (c_fut c))); [destruct (_ >? _); exact Hl|apply len_write_if_open; exact Hl].
  - assert (Hdel : forall c1, c_len c1 = Some L ->
       c_len (fst (match c_fut c1 with
                  | FutPending => write_if_open H (set_delivered (S (c_delivered c1)) (set_fut (FutResult r) c1))
                                    (skipn n (c_buf c ++ d))
                  | _ => (c1, true) end)) = Some L).
    { intros c1 H1. destruct (c_fut c1); cbn [fst]; auto. apply len_write_if_open. exact H1. }
    destruct (if c_att (set_buf [] c) then r_blob r else BrAbsent) as [| |h l]; try (apply Hdel; exact Hl).
    destruct (match h with Some h' => bytes_eqb h' (c_hash (set_buf [] c)) | None => false end); [|exact Hl].
    destruct (len_set_length l (set_buf [] c) L Hl) as [E1 E2].
    destruct (set_length l (set_buf [] c)) as [c1 raised]. cbn in E1, E2. subst. apply Hdel. exact Hl.
Qed.
Lemma len_data_received c d L : c_len c = Some L -> c_len (fst (data_received H json_loads c d)) = Some L.
Proof.
  intro Hl. unfold data_received.
  destruct (negb (c_open c)); cbn [fst]; [destruct (_ && _); exact Hl|].
  destruct (negb (c_att c)); cbn [fst]; [exact Hl|].
  destruct (_ || _); [|apply len_parse_path; exact Hl].
  destruct (negb (c_has_w c)); cbn [fst]; [exact Hl|].
  destruct (negb (w_closed (c_w c))); [apply len_cl_write|apply len_parse_path]; exact Hl.
Qed.
Lemma len_finish res c : c_len (finish res c) = c_len c.
Proof. unfold finish. destruct (_ && _); reflexivity. Qed.
Lemma len_run_callbacks c : c_len (run_callbacks c) = c_len c.
Proof. unfold run_callbacks. destruct (w_fin _), (c_verified c); reflexivity. Qed.
Lemma len_co_await_fin c : c_len (co_await_fin c) = c_len c.
Proof.
  unfold co_await_fin. destruct (w_fin (c_w c)); try reflexivity; rewrite len_finish; try reflexivity.
  apply len_run_callbacks.
Qed.
Lemma len_co_step c : c_len (co_step c) = c_len c.
Proof.
  unfold co_step. destruct (c_phase c); try reflexivity; [|apply len_co_await_fin].
  destruct (c_fut c); try reflexivity; try (rewrite len_finish; reflexivity).
  destruct (c_closed_ev c); [rewrite len_finish; reflexivity|].
  match goal with |- context[if ?b then _ else _] => destruct b end;
    [rewrite len_co_await_fin; reflexivity|rewrite len_finish; reflexivity].
Qed.
Lemma len_drain c : c_len (drain c) = c_len c.
Proof.
  unfold drain. destruct (c_lost _).
  - rewrite len_co_step, len_run_callbacks. cbn. rewrite len_co_step, len_run_callbacks. reflexivity.
  - rewrite len_co_step, len_run_callbacks. reflexivity.
Qed.
Lemma len_fire c : c_len (fire_timeouts c) = c_len c.
Proof.
  unfold fire_timeouts. destruct (c_phase c); try reflexivity; destruct (_ <=? _); try reflexivity;
    try (destruct (c_fut c); try reflexivity); rewrite len_finish; reflexivity.
Qed.
Lemma len_cancel c : c_len (cancel_download c) = c_len c.
Proof.
  unfold cancel_download. destruct (c_phase c); try reflexivity; rewrite len_finish; try reflexivity.
  destruct (c_fut c); reflexivity.
Qed.
Lemma len_step c e L : c_len c = Some L -> c_len (step H json_loads c e) = Some L.
Proof.
  intro Hl. unfold step. destruct e; cbn [step_with].
  - destruct (c_open c); [|exact Hl]. pose proof (len_data_received c d L Hl) as Hd.
    destruct (data_received H json_loads c d) as [c1 []]; cbn in *; exact Hd.
  - pose proof (len_data_received c d L Hl) as Hd.
    destruct (data_received H json_loads c d) as [c1 []]; cbn in *; exact Hd.
  - rewrite len_drain. exact Hl.
  - rewrite len_drain, len_fire. cbn. rewrite len_drain. exact Hl.
  - destruct (c_open c); exact Hl.
  - rewrite len_drain, len_cancel. exact Hl.
Qed.

(* whatever happens to the download afterwards - failure, timeout, connection loss - the announced length stays *)
Theorem announced_length_never_forgotten : forall evs c L,
  c_len c = Some L -> c_len (run H json_loads c evs) = Some L.
Proof.
  induction evs as [|e evs IH]; intros c L Hl; [exact Hl|].
  unfold run in *. cbn [fold_left]. apply IH, len_step, Hl.
Qed.

(* ... and with a length L in the blob, a response announcing the true length n <> L is refused *)
Theorem poisoned_length_refuses hash L n r :
  r_blob r = BrIncoming (Some hash) (LInt n) -> n <> L -> acceptable hash (Some L) r = false.
Proof.
  intros Hb Hne. destruct (acceptable hash (Some L) r) eqn:E; [|reflexivity].
  apply acceptable_sound in E. destruct E as (_ & _ & l & Hb' & [Hk|[k [Hk Hl]]]); [discriminate|].
  rewrite Hb in Hb'. inversion Hb' as [Hll]. rewrite <- Hll in Hl. inversion Hl. inversion Hk. congruence.
Qed.

(* why the downloader must not start a second download on a protocol that is busy (its `active_connections` guard):
   download_blob overwrites blob / writer / future, and the honest header answering the FIRST request is then
   "a blob we didn't request": dropped, never delivered *)
Theorem second_download_on_busy_protocol_drops_first c h1 h2 known data r n l :
  c_open c = true -> h1 <> h2 ->
  parse_prefix json_loads (c_buf c ++ data) = PResp r n -> r_blob r = BrIncoming (Some h1) l ->
  data_received H json_loads (start_download h2 known c) data = (set_buf [] (start_download h2 known c), false).
Proof.
  intros Ho Hne Hp Hb.
  apply (unrequested_blob_dropped (start_download h2 known c) data r n (Some h1) l); try reflexivity; try assumption.
  cbn. congruence.
Qed.

(* ---- fix a1a028a: once a download has ended, nothing is attached to the protocol any more, and whatever then arrives
   on the idle kept connection closes it *)
Definition DoneIdle (c : client) : Prop := forall res, c_phase c = PhDone res -> c_att c = false.

Lemma idle_data_received c d : c_att c = false ->
  data_received H json_loads c d = ((if c_open c then close c else c), false).
Proof.
  intro Ha. unfold data_received. rewrite Ha. destruct (c_open c); cbn; reflexivity.
Qed.

Lemma att_finish res c : c_att (finish res c) = false /\ c_phase (finish res c) = PhDone res.
Proof. destruct (proj_finish res c) as (A & _ & B & _). auto. Qed.

Lemma DI_finish res c : DoneIdle (finish res c).
Proof. intros r _. apply att_finish. Qed.
Lemma DI_run_callbacks c : DoneIdle c -> DoneIdle (run_callbacks c).
Proof. unfold DoneIdle, run_callbacks. destruct (w_fin _), (c_verified c); auto. Qed.
Lemma DI_close c : DoneIdle (close c).
Proof. intros r _. reflexivity. Qed.
Lemma DI_co_await_fin c : DoneIdle c -> DoneIdle (co_await_fin c).
Proof. intro Hd. unfold co_await_fin. destruct (w_fin (c_w c)); try exact Hd; apply DI_finish. Qed.
Lemma DI_co_step c : DoneIdle c -> DoneIdle (co_step c).
Proof.
  intro Hd. unfold co_step. destruct (c_phase c) eqn:Ep; try exact Hd.
  - destruct (c_fut c); try exact Hd; try apply DI_finish.
    destruct (c_closed_ev c); [apply DI_finish|].
    match goal with |- context[if ?b then _ else _] => destruct b end; [|apply DI_finish].
    apply DI_co_await_fin. intros rr Hr. cbn in Hr. discriminate.
  - apply DI_co_await_fin. exact Hd.
Qed.
Lemma DI_drain c : DoneIdle c -> DoneIdle (drain c).
Proof.
  intro Hd. unfold drain. destruct (c_lost _).
  - apply DI_co_step, DI_run_callbacks, DI_close.
  - apply DI_co_step, DI_run_callbacks, Hd.
Qed.
Lemma DI_fire c : DoneIdle c -> DoneIdle (fire_timeouts c).
Proof.
  intro Hd. unfold fire_timeouts. destruct (c_phase c) eqn:Ep; try exact Hd; destruct (_ <=? _); try exact Hd;
    try (destruct (c_fut c); try exact Hd); apply DI_finish.
Qed.
Lemma DI_cancel c : DoneIdle c -> DoneIdle (cancel_download c).
Proof. intro Hd. unfold cancel_download. destruct (c_phase c); try exact Hd; apply DI_finish. Qed.
Lemma DI_same c c' : c_phase c' = c_phase c -> c_att c' = c_att c -> DoneIdle c -> DoneIdle c'.
Proof. unfold DoneIdle. intros -> ->. auto. Qed.

Lemma DI_data c d : DoneIdle c ->
  DoneIdle (let '(c1, raised) := data_received H json_loads c d in if raised then force_close c1 else c1).
Proof.
  intro Hd. pose proof (frame_data_received c d) as (Fp & _).
  assert (Ha : forall res0, c_phase c = PhDone res0 -> c_att c = false) by exact Hd.
  destruct (c_phase c) as [|dl|dl|res0] eqn:Ep.
  1-3: destruct (data_received H json_loads c d) as [c1 raised]; cbn [fst] in Fp; unfold DoneIdle; intros rr Hr; exfalso;
       destruct raised; cbn in Hr; congruence.
  rewrite (idle_data_received c d (Ha res0 eq_refl)). destruct (c_open c); [apply DI_close|].
  intros rr Hr. apply (Ha res0). reflexivity.
Qed.

Lemma DI_step c e : DoneIdle c -> DoneIdle (step H json_loads c e).
Proof.
  intro Hd. unfold step. destruct e; cbn [step_with].
  - destruct (c_open c); [apply DI_data; exact Hd|exact Hd].
  - apply DI_data. exact Hd.
  - apply DI_drain. exact Hd.
  - apply DI_drain, DI_fire. eapply DI_same; [| |apply DI_drain; exact Hd]; reflexivity.
  - destruct (c_open c); [|exact Hd]. eapply DI_same; [| |exact Hd]; reflexivity.
  - apply DI_drain, DI_cancel. exact Hd.
Qed.

Lemma DI_run : forall evs c, DoneIdle c -> DoneIdle (run H json_loads c evs).
Proof. induction evs as [|e evs IH]; intros c Hd; [exact Hd|]. unfold run in *. cbn [fold_left]. apply IH, DI_step, Hd. Qed.

(* for every history of a request: once the download has ended (ok, closed, cancelled) and the connection is still open,
   the next segment the peer sends - excess or unsolicited bytes - closes it *)
Theorem idle_connection_closes_on_data c0 hash known evs res d :
  let c := run H json_loads (request hash known c0) evs in
  c_phase c = PhDone res -> c_open c = true ->
  c_open (step H json_loads c (EvData d)) = false.
Proof.
  intros c Hp Ho.
  assert (Hd : DoneIdle c).
  { apply DI_run. unfold request. destruct (c_open c0); intros r Hr; cbn in Hr; discriminate. }
  unfold step. cbn [step_with]. rewrite Ho. rewrite (idle_data_received c d (Hd _ Hp)), Ho. reflexivity.
Qed.

End Client.
