(* C10 proofs: the download coroutine ends within two timeouts of the request, whatever the peer does *)
From Coq Require Import NArith ZArith List Bool Lia.
From Coq.Strings Require Import Byte.
From LV Require Import Lib.Bytes Model.C10 Proofs.C10 Proofs.C10Client.
Import ListNotations.
Local Open Scope Z_scope.

Section Time.
Variable H : bytes -> bytes.
Variable json_loads : bytes -> jres.

Definition Bound (t0 T : Z) (c : client) : Prop :=
  c_T c = T /\ c_phase c <> PhIdle /\
  match c_phase c with
  | PhAwaitResp d => d <= t0 + T
  | PhAwaitFin d => d <= t0 + T + T
  | _ => True
  end.
Definition Live (c : client) : Prop :=
  match c_phase c with PhAwaitResp d | PhAwaitFin d => c_now c < d | _ => True end.
Definition Drained (c : client) : Prop := forall d, c_phase c = PhAwaitResp d -> c_fut c = FutPending.
Definition TI (t0 T : Z) (c : client) : Prop := 0 < T /\ Bound t0 T c /\ Live c.

(* phase / clock / timeout projections of the building blocks *)
Lemma ptn_finish res c : c_phase (finish res c) = PhDone res /\ c_now (finish res c) = c_now c /\ c_T (finish res c) = c_T c.
Proof. unfold finish. repeat match goal with |- context[if ?b then _ else _] => destruct b end; repeat split. Qed.
Lemma ptn_run_callbacks c :
  c_phase (run_callbacks c) = c_phase c /\ c_now (run_callbacks c) = c_now c /\ c_T (run_callbacks c) = c_T c /\
  c_fut (run_callbacks c) = c_fut c /\ c_lost (run_callbacks c) = c_lost c.
Proof. unfold run_callbacks. destruct (w_fin _), (c_verified c); repeat split. Qed.

Lemma TI_done t0 T c res : 0 < T -> c_T c = T -> c_phase c = PhDone res -> TI t0 T c.
Proof. intros HT Ht Hp. unfold TI, Bound, Live. rewrite Hp. repeat split; auto. discriminate. Qed.

Lemma TI_finish t0 T res c : 0 < T -> c_T c = T -> TI t0 T (finish res c).
Proof.
  intros HT Ht. destruct (ptn_finish res c) as (A & B & C).
  eapply TI_done; [exact HT|congruence|exact A].
Qed.

Lemma TI_same t0 T c c' : c_phase c' = c_phase c -> c_now c' = c_now c -> c_T c' = c_T c -> TI t0 T c -> TI t0 T c'.
Proof. intros A B C (HT & (B1 & B2 & B3) & L). unfold TI, Bound, Live. rewrite A, B, C. repeat split; auto. Qed.

Lemma TI_co_await_fin t0 T c : TI t0 T c -> TI t0 T (co_await_fin c).
Proof.
  intros Hti. pose proof Hti as (HT & (B1 & _) & _). unfold co_await_fin.
  destruct (w_fin (c_w c)); try exact Hti; apply TI_finish; auto.
  destruct (ptn_run_callbacks c) as (_ & _ & C & _). congruence.
Qed.

Lemma fut_co_await_fin c : forall d, c_phase (co_await_fin c) = PhAwaitResp d -> c_phase c = PhAwaitResp d /\ co_await_fin c = c.
Proof.
  intros d. unfold co_await_fin. destruct (w_fin (c_w c)); intro Hp; try (split; [exact Hp|reflexivity]);
    match type of Hp with c_phase (finish ?r ?x) = _ => destruct (ptn_finish r x) as (A & _); congruence end.
Qed.

Lemma TI_co_step t0 T c : TI t0 T c -> TI t0 T (co_step c) /\ Drained (co_step c).
Proof.
  intros Hti. pose proof Hti as (HT & (B1 & B2 & B3) & L). unfold co_step, Drained.
  destruct (c_phase c) as [|d|d|res] eqn:Ep.
  - congruence.
  - destruct (c_fut c) as [|r| |] eqn:Ef.
    + split; [exact Hti|]. intros d' _. exact Ef.
    + destruct (c_closed_ev c).
      * split; [apply TI_finish; auto|]. intros d' Hp. destruct (ptn_finish DlCancelled (close c)) as (A & _). congruence.
      * destruct (acceptable (c_hash c) (c_len c) r).
        -- assert (Hti' : TI t0 T (set_phase (PhAwaitFin (c_now c + c_T c)) c)).
           { unfold TI, Bound, Live. cbn. unfold Live in L. rewrite Ep in L. repeat split; auto; try discriminate; lia. }
           split; [apply TI_co_await_fin; exact Hti'|].
           intros d' Hp. apply fut_co_await_fin in Hp. destruct Hp as [Hp _]. cbn in Hp. discriminate.
        -- split; [apply TI_finish; auto|]. intros d' Hp.
           destruct (ptn_finish (DlClosed (c_received c)) (close c)) as (A & _). congruence.
    + split; [apply TI_finish; auto|]. intros d' Hp. destruct (ptn_finish DlOSError c) as (A & _). congruence.
    + split; [apply TI_finish; auto|]. intros d' Hp. destruct (ptn_finish DlCancelled (close c)) as (A & _). congruence.
  - assert (Hti' : TI t0 T c) by exact Hti.
    split; [apply TI_co_await_fin; exact Hti|].
    intros d' Hp. apply fut_co_await_fin in Hp. destruct Hp as [Hp _]. congruence.
  - split; [exact Hti|]. intros d' Hp. congruence.
Qed.

Lemma TI_drain t0 T c : TI t0 T c -> TI t0 T (drain c) /\ Drained (drain c).
Proof.
  intro Hti. unfold drain.
  assert (H1 : TI t0 T (run_callbacks c)).
  { destruct (ptn_run_callbacks c) as (A & B & C & _). eapply TI_same; eauto. }
  destruct (TI_co_step t0 T _ H1) as [H2 D2].
  destruct (c_lost (co_step (run_callbacks c))); [|split; assumption].
  apply TI_co_step.
  destruct (ptn_run_callbacks (close (set_lost false (co_step (run_callbacks c))))) as (A & B & C & _).
  eapply TI_same; [exact A|exact B|exact C|]. eapply TI_same; [| | |exact H2]; reflexivity.
Qed.

Lemma TI_fire t0 T c : 0 < T -> Bound t0 T c -> Drained c -> TI t0 T (fire_timeouts c).
Proof.
  intros HT (B1 & B2 & B3) Hd. unfold fire_timeouts.
  destruct (c_phase c) as [|d|d|res] eqn:Ep.
  - congruence.
  - destruct (d <=? c_now c) eqn:E.
    + rewrite (Hd d Ep). apply TI_finish; auto.
    + unfold TI, Bound, Live. rewrite Ep. repeat split; auto; try discriminate; lia.
  - destruct (d <=? c_now c) eqn:E.
    + apply TI_finish; auto.
    + unfold TI, Bound, Live. rewrite Ep. repeat split; auto; try discriminate; lia.
  - unfold TI, Bound, Live. rewrite Ep. repeat split; auto; discriminate.
Qed.

Lemma TI_cancel t0 T c : TI t0 T c -> TI t0 T (cancel_download c).
Proof.
  intros Hti. pose proof Hti as (HT & (B1 & _) & _). unfold cancel_download.
  destruct (c_phase c); try exact Hti; apply TI_finish; auto. destruct (c_fut c); exact B1.
Qed.

Lemma TI_step t0 T c e : TI t0 T c -> TI t0 T (step H json_loads c e).
Proof.
  intro Hti. unfold step. destruct e; cbn [step_with].
  - destruct (c_open c); [|exact Hti].
    pose proof (frame_data_received H json_loads c d) as (A & B & C & _).
    destruct (data_received H json_loads c d) as [c1 raised]. cbn [fst] in *.
    destruct raised; eapply TI_same; try exact Hti; auto.
  - pose proof (frame_data_received H json_loads c d) as (A & B & C & _).
    destruct (data_received H json_loads c d) as [c1 raised]. cbn [fst] in *.
    destruct raised; eapply TI_same; try exact Hti; auto.
  - apply TI_drain. exact Hti.
  - destruct (TI_drain t0 T c Hti) as [(HT & Bd & _) Dr].
    apply TI_drain. apply TI_fire; [exact HT| |].
    + destruct Bd as (B1 & B2 & B3). unfold Bound. cbn. auto.
    + intros d' Hp. cbn in Hp |- *. exact (Dr d' Hp).
  - destruct (c_open c); [|exact Hti]. eapply TI_same; try exact Hti; reflexivity.
  - apply TI_drain, TI_cancel. exact Hti.
Qed.

Lemma TI_run t0 T : forall evs c, TI t0 T c -> TI t0 T (run H json_loads c evs).
Proof.
  induction evs as [|e evs IH]; intros c Hti; [exact Hti|].
  unfold run in *. cbn [fold_left]. apply IH. apply TI_step. exact Hti.
Qed.

(* the clock only moves by the advances *)
Fixpoint elapsed (evs : list event) : Z :=
  match evs with
  | [] => 0
  | EvAdvance dt :: r => Z.max dt 0 + elapsed r
  | _ :: r => elapsed r
  end.

Lemma now_co_await_fin c : c_now (co_await_fin c) = c_now c.
Proof.
  unfold co_await_fin. destruct (w_fin (c_w c)); try reflexivity;
    match goal with |- c_now (finish ?r ?x) = _ => destruct (ptn_finish r x) as (_ & A & _); rewrite A end; try reflexivity.
  destruct (ptn_run_callbacks c) as (_ & B & _). exact B.
Qed.
Lemma now_co_step c : c_now (co_step c) = c_now c.
Proof.
  unfold co_step. destruct (c_phase c); try reflexivity; [|apply now_co_await_fin].
  destruct (c_fut c); try reflexivity;
    try (match goal with |- c_now (finish ?r ?x) = _ => destruct (ptn_finish r x) as (_ & A & _); rewrite A end; reflexivity).
  destruct (c_closed_ev c);
    [match goal with |- c_now (finish ?r ?x) = _ => destruct (ptn_finish r x) as (_ & A & _); rewrite A end; reflexivity|].
  destruct (acceptable _ _ _);
    [rewrite now_co_await_fin; reflexivity
    |match goal with |- c_now (finish ?r ?x) = _ => destruct (ptn_finish r x) as (_ & A & _); rewrite A end; reflexivity].
Qed.
Lemma now_drain c : c_now (drain c) = c_now c.
Proof.
  unfold drain. destruct (ptn_run_callbacks c) as (_ & B & _).
  destruct (c_lost _).
  - rewrite now_co_step. destruct (ptn_run_callbacks (close (set_lost false (co_step (run_callbacks c))))) as (_ & B' & _).
    rewrite B'. cbn. rewrite now_co_step. exact B.
  - rewrite now_co_step. exact B.
Qed.
Lemma now_fire c : c_now (fire_timeouts c) = c_now c.
Proof.
  unfold fire_timeouts. destruct (c_phase c); try reflexivity; destruct (_ <=? _); try reflexivity;
    try (destruct (c_fut c); try reflexivity);
    try (match goal with |- c_now (finish ?r ?x) = _ => destruct (ptn_finish r x) as (_ & A & _); rewrite A end; reflexivity).
Qed.
Lemma now_cancel c : c_now (cancel_download c) = c_now c.
Proof.
  unfold cancel_download. destruct (c_phase c); try reflexivity;
    match goal with |- c_now (finish ?r ?x) = _ => destruct (ptn_finish r x) as (_ & A & _); rewrite A end; try reflexivity.
  destruct (c_fut c); reflexivity.
Qed.
Lemma now_step c e : c_now (step H json_loads c e) = c_now c + match e with EvAdvance dt => Z.max dt 0 | _ => 0 end.
Proof.
  unfold step. destruct e; cbn [step_with].
  - destruct (c_open c); [|lia].
    pose proof (frame_data_received H json_loads c d) as (_ & B & _).
    destruct (data_received H json_loads c d) as [c1 raised]. cbn [fst] in B. destruct raised; cbn; lia.
  - pose proof (frame_data_received H json_loads c d) as (_ & B & _).
    destruct (data_received H json_loads c d) as [c1 raised]. cbn [fst] in B. destruct raised; cbn; lia.
  - rewrite now_drain. lia.
  - rewrite now_drain, now_fire. cbn. rewrite now_drain. lia.
  - destruct (c_open c); cbn; lia.
  - rewrite now_drain, now_cancel. lia.
Qed.
Lemma now_run : forall evs c, c_now (run H json_loads c evs) = c_now c + elapsed evs.
Proof.
  induction evs as [|e evs IH]; intro c; [cbn; lia|].
  unfold run in *. cbn [fold_left]. rewrite IH, now_step. destruct e; cbn [elapsed]; lia.
Qed.

Lemma TI_request hash known c0 : 0 < c_T c0 -> TI (c_now c0) (c_T c0) (request hash known c0).
Proof.
  intro HT. unfold request. destruct (c_open c0); unfold TI, Bound, Live; cbn; repeat split; auto; try discriminate; lia.
Qed.

(* whatever the peer sends or does not send, in whatever order the loop runs: once two timeouts of virtual time
   have passed since the request, the download has ended *)
Theorem bounded_wait c0 hash known evs :
  0 < c_T c0 -> 2 * c_T c0 <= elapsed evs ->
  exists res, c_phase (run H json_loads (request hash known c0) evs) = PhDone res.
Proof.
  intros HT He.
  pose proof (TI_run _ _ evs _ (TI_request hash known c0 HT)) as (_ & (B1 & B2 & B3) & L).
  pose proof (now_run evs (request hash known c0)) as Hn.
  assert (Hn0 : c_now (request hash known c0) = c_now c0) by (unfold request; destruct (c_open c0); reflexivity).
  unfold Live in L.
  destruct (c_phase (run H json_loads (request hash known c0) evs)) as [|d|d|res].
  - congruence.
  - lia.
  - lia.
  - exists res. reflexivity.
Qed.

(* ... and it ended in one of four ways; only "ok" keeps the connection *)
End Time.
