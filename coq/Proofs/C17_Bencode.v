(* C17 proofs, part 2: bdecode (bencode v) = v for every value, and every proper prefix of an encoding is
   rejected (decoder as repaired by 67aa5e2: a dictionary's end marker is consumed). No axioms. *)
From Coq Require Import NArith ZArith List Bool Lia.
From Coq.Strings Require Import Byte.
From LV Require Import Lib.Bytes Lib.Decimal Model.C17 Proofs.C17_Int.
Import ListNotations.
Local Open Scope N_scope.

Ltac Zify.zify_post_hook ::= Z.to_euclidean_division_equations.

(* ------------------------------------------------------------------------------------------ *)
(* induction over bval (nested through list and list of pairs)                                  *)
(* ------------------------------------------------------------------------------------------ *)

Section BvalInd.
  Variable P : bval -> Prop.
  Hypothesis HI : forall z, P (BInt z).
  Hypothesis HS : forall s, P (BStr s).
  Hypothesis HL : forall l, Forall P l -> P (BList l).
  Hypothesis HD : forall d, Forall (fun p => P (fst p) /\ P (snd p)) d -> P (BDict d).

  Fixpoint bval_ind' (v : bval) : P v :=
    match v with
    | BInt z => HI z
    | BStr s => HS s
    | BList l =>
        HL l ((fix go (l : list bval) : Forall P l :=
                 match l with
                 | [] => Forall_nil _
                 | x :: r => Forall_cons x (bval_ind' x) (go r)
                 end) l)
    | BDict d =>
        HD d ((fix go (d : list (bval * bval)) : Forall (fun p => P (fst p) /\ P (snd p)) d :=
                 match d with
                 | [] => Forall_nil _
                 | (k, x) :: r => Forall_cons (k, x) (conj (bval_ind' k) (bval_ind' x)) (go r)
                 end) d)
    end.
End BvalInd.

(* ------------------------------------------------------------------------------------------ *)
(* the values the codec reads back                                                               *)
(* ------------------------------------------------------------------------------------------ *)

Definition key_ok (k : bval) : Prop :=
  match k with BInt z => int_ok z | BStr s => small s | _ => False end.

Fixpoint keys_sorted (d : list (bval * bval)) : bool :=
  match d with
  | [] => true
  | p :: r => match r with [] => true | q :: _ => key_leb (fst p) (fst q) && keys_sorted r end
  end.

Fixpoint keys_nodup (d : list (bval * bval)) : Prop :=
  match d with
  | [] => True
  | p :: r => Forall (fun q => key_eqb (fst p) (fst q) = false) r /\ keys_nodup r
  end.

(* values that bdecode (bencode v) reads back as the SAME value: integers and string lengths within Python's
   4300 digit limit (longer ones can be neither printed nor read), dictionary keys int / bytes (the only
   hashable results), listed in key order without repetition (bencode sorts the keys; a Python dict has no
   repeated keys).  Dictionaries and lists may be nested anywhere. *)
Inductive wfv : bval -> Prop :=
| wfv_int z : int_ok z -> wfv (BInt z)
| wfv_str s : small s -> wfv (BStr s)
| wfv_list l : Forall wfv l -> wfv (BList l)
| wfv_dict d : Forall (fun p => key_ok (fst p) /\ wfv (snd p)) d -> keys_sorted d = true ->
               keys_nodup d -> wfv (BDict d).

Fixpoint depth_of (v : bval) : nat :=
  match v with
  | BInt _ | BStr _ => 1
  | BList l => S (fold_right (fun x m => Nat.max (depth_of x) m) 0%nat l)
  | BDict d => S (fold_right (fun (p : bval * bval) m => Nat.max (let (_, x) := p in depth_of x) m) 1%nat d)
  end.

(* ------------------------------------------------------------------------------------------ *)
(* encoder facts                                                                               *)
(* ------------------------------------------------------------------------------------------ *)

Fixpoint items_sorted (l : list (bval * bytes)) : bool :=
  match l with
  | [] => true
  | p :: r => match r with [] => true | q :: _ => key_leb (fst p) (fst q) && items_sorted r end
  end.

Lemma sort_items_sorted l : items_sorted l = true -> sort_items l = l.
Proof.
  induction l as [|p r IH]; intro H; [reflexivity|].
  cbn [sort_items]. destruct r as [|q r'].
  - reflexivity.
  - cbn [items_sorted] in H. apply andb_true_iff in H as [H1 H2].
    rewrite IH by exact H2. cbn [insert_item]. rewrite H1. reflexivity.
Qed.

Definition enc_pair (p : bval * bval) : bval * bytes :=
  match p with (k, x) => (k, benc k ++ benc x) end.

Lemma items_sorted_map d : keys_sorted d = true -> items_sorted (map enc_pair d) = true.
Proof.
  induction d as [|p r IH]; intro H; [reflexivity|].
  destruct r as [|q r']; [reflexivity|].
  cbn [keys_sorted] in H. apply andb_true_iff in H as [H1 H2].
  specialize (IH H2). cbn [map items_sorted] in *. destruct p, q. cbn [enc_pair fst] in *.
  rewrite H1. exact IH.
Qed.

Definition benc_items (d : list (bval * bval)) : bytes :=
  concat (map (fun p => benc (fst p) ++ benc (snd p)) d).

Lemma benc_BList l : benc (BList l) = c_l :: concat (map benc l) ++ [c_e].
Proof. reflexivity. Qed.

Lemma benc_BDict_gen d :
  benc (BDict d) = c_d :: concat (map snd (sort_items (map enc_pair d))) ++ [c_e].
Proof. reflexivity. Qed.

Lemma benc_BDict d : keys_sorted d = true -> benc (BDict d) = c_d :: benc_items d ++ [c_e].
Proof.
  intro H. rewrite benc_BDict_gen. rewrite sort_items_sorted by (apply items_sorted_map; exact H).
  unfold benc_items. rewrite map_map. f_equal. f_equal. f_equal.
  apply map_ext. intros [k x]. reflexivity.
Qed.

Lemma N_of_c_i : N_of_byte c_i = 105. Proof. apply N_of_c. lia. Qed.
Lemma N_of_c_l : N_of_byte c_l = 108. Proof. apply N_of_c. lia. Qed.
Lemma N_of_c_d : N_of_byte c_d = 100. Proof. apply N_of_c. lia. Qed.
Lemma N_of_c_e : N_of_byte c_e = 101. Proof. apply N_of_c. lia. Qed.
Lemma N_of_c_colon : N_of_byte c_colon = 58. Proof. apply N_of_c. lia. Qed.

(* the first byte of an encoding is 'i', 'l', 'd' or a digit: never 'e' *)
Lemma benc_head v : exists b r, benc v = b :: r /\ isb 101 b = false.
Proof.
  destruct v as [z|s|l|d].
  - exists c_i, (dec_of_Z z ++ [c_e]). split; [reflexivity|]. unfold isb. rewrite N_of_c_i. reflexivity.
  - cbn [benc]. pose proof (dec_of_N_Forall (blen s)) as Hd. pose proof (dec_of_N_nonempty (blen s)) as Hne.
    destruct (dec_of_N (blen s)) as [|b r]; [congruence|]. inversion Hd as [|? ? Hb _]; subst.
    exists b, (r ++ c_colon :: s). split; [reflexivity|]. apply isb_digit; [exact Hb | lia].
  - exists c_l, (concat (map benc l) ++ [c_e]). split; [reflexivity|]. unfold isb. rewrite N_of_c_l. reflexivity.
  - rewrite benc_BDict_gen. eexists c_d, _. split; [reflexivity|]. unfold isb. rewrite N_of_c_d. reflexivity.
Qed.

Lemma benc_length_pos v : (1 <= length (benc v))%nat.
Proof. destruct (benc_head v) as (b & r & E & _). rewrite E. simpl. lia. Qed.

(* ------------------------------------------------------------------------------------------ *)
(* decoder facts                                                                               *)
(* ------------------------------------------------------------------------------------------ *)

Lemma find_split_app c a x T :
  Forall (fun b => isb c b = false) a -> isb c x = true -> find_split c (a ++ x :: T) = Some (a, T).
Proof.
  intros Ha Hx. induction Ha as [|b r Hb Hr IH]; cbn [app find_split].
  - rewrite Hx. reflexivity.
  - rewrite Hb, IH. reflexivity.
Qed.

Lemma take_clamped_app s T : take_clamped (blen s) (s ++ T) = (s, T).
Proof.
  induction s as [|b r IH].
  - destruct T; reflexivity.
  - cbn [app take_clamped]. unfold blen in *. cbn [length]. rewrite Nat2N.inj_succ.
    destruct (N.succ (N.of_nat (length r)) =? 0) eqn:E; [apply N.eqb_eq in E; lia|].
    rewrite N.pred_succ. rewrite IH. reflexivity.
Qed.

Lemma dec_of_Z_no_e z : Forall (fun b => isb 101 b = false) (dec_of_Z z).
Proof.
  assert (H : forall n, Forall (fun b => isb 101 b = false) (dec_of_N n)).
  { intro n. eapply Forall_impl; [|apply dec_of_N_Forall]. intros b Hb. apply isb_digit; [exact Hb|lia]. }
  destruct z; cbn [dec_of_Z]; try apply H.
  constructor; [|apply H]. unfold isb. rewrite N_of_minus. reflexivity.
Qed.

Lemma bdec_int steps d z T : int_ok z ->
  bdec steps (S d) (benc (BInt z) ++ T) = Ok (BInt z, T).
Proof.
  intro Hz. cbn [benc app bdec]. unfold isb at 1. rewrite N_of_c_i. cbn [N.eqb Pos.eqb].
  rewrite <- app_assoc. cbn [app].
  rewrite find_split_app; [|apply dec_of_Z_no_e | unfold isb; rewrite N_of_c_e; reflexivity].
  rewrite strict_int_dec_of_Z by exact Hz. reflexivity.
Qed.

Lemma bdec_str steps d s T : small s ->
  bdec steps (S d) (benc (BStr s) ++ T) = Ok (BStr s, T).
Proof.
  intro Hs. cbn [benc].
  pose proof (dec_of_N_Forall (blen s)) as Hd. pose proof (dec_of_N_nonempty (blen s)) as Hne.
  destruct (dec_of_N (blen s)) as [|b r] eqn:E; [congruence|].
  inversion Hd as [|? ? Hb Hr]; subst.
  assert (Hdata : ((b :: r) ++ c_colon :: s) ++ T = b :: r ++ c_colon :: s ++ T).
  { cbn [app]. rewrite <- app_assoc. reflexivity. }
  rewrite Hdata. cbn [bdec].
  rewrite (isb_digit 105 b Hb) by lia. rewrite (isb_digit 108 b Hb) by lia. rewrite (isb_digit 100 b Hb) by lia.
  change (b :: r ++ c_colon :: s ++ T) with ((b :: r) ++ c_colon :: (s ++ T)).
  rewrite find_split_app.
  - rewrite <- E. rewrite strict_len_dec_of_N by exact Hs.
    assert (Hneg : (Z.of_N (blen s) <? 0)%Z = false) by (apply Z.ltb_ge; lia). rewrite Hneg.
    rewrite N2Z.id. rewrite take_clamped_app. reflexivity.
  - eapply Forall_impl; [|exact Hd]. intros x Hx. apply isb_digit; [exact Hx|lia].
  - unfold isb. rewrite N_of_c_colon. reflexivity.
Qed.

Lemma isb_e_c_e : isb 101 c_e = true.
Proof. unfold isb. rewrite N_of_c_e. reflexivity. Qed.

Lemma list_loop_cons dec1 st c cur' acc :
  list_loop dec1 (S st) (c :: cur') acc =
  if isb 101 c then Ok (BList (rev acc), cur')
  else match dec1 (c :: cur') with
       | Ok (v, cur2) => list_loop dec1 st cur2 (v :: acc)
       | Err e => Err e
       end.
Proof. reflexivity. Qed.

Lemma dict_loop_cons dec1 st c cur' acc :
  dict_loop dec1 (S st) (c :: cur') acc =
  if isb 101 c then Ok (BDict acc, cur')
  else match dec1 (c :: cur') with
       | Err e => Err e
       | Ok (k, cur2) =>
           match dec1 cur2 with
           | Err e => Err e
           | Ok (v, cur3) =>
               if hashable k then dict_loop dec1 st cur3 (pydict_set acc k v) else Err EDecode
           end
       end.
Proof. reflexivity. Qed.

(* the list loop on the encodings of l followed by 'e' *)
Lemma list_loop_spec dec1 l : forall acc steps T,
  Forall (fun x => forall T', dec1 (benc x ++ T') = Ok (x, T')) l ->
  (length l < steps)%nat ->
  list_loop dec1 steps (concat (map benc l) ++ c_e :: T) acc = Ok (BList (rev acc ++ l), T).
Proof.
  induction l as [|x r IH]; intros acc steps T Hd Hs.
  - destruct steps as [|st]; [simpl in Hs; lia|].
    cbn [map concat app]. rewrite list_loop_cons, isb_e_c_e, app_nil_r. reflexivity.
  - destruct steps as [|st]; [simpl in Hs; lia|].
    inversion Hd as [|? ? Hx Hr]; subst.
    cbn [map concat]. rewrite <- app_assoc.
    destruct (benc_head x) as (b & t & Eb & Hb).
    assert (Hdata : benc x ++ concat (map benc r) ++ c_e :: T = b :: t ++ concat (map benc r) ++ c_e :: T).
    { rewrite Eb. reflexivity. }
    rewrite Hdata, list_loop_cons, Hb, <- Hdata, Hx.
    rewrite (IH (x :: acc) st T Hr) by (simpl in *; lia).
    cbn [rev]. rewrite <- app_assoc. reflexivity.
Qed.

Lemma pydict_set_fresh acc k v :
  Forall (fun a => key_eqb (fst a) k = false) acc -> pydict_set acc k v = acc ++ [(k, v)].
Proof.
  induction 1 as [|[k' v'] r Hk Hr IH]; [reflexivity|].
  cbn [pydict_set app]. cbn [fst] in Hk. rewrite Hk, IH. reflexivity.
Qed.

Lemma key_ok_hashable k : key_ok k -> hashable k = true.
Proof. destruct k; simpl; intro H; try reflexivity; contradiction. Qed.

(* the dict loop on the encodings of the items of d followed by 'e' *)
Lemma dict_loop_spec dec1 d : forall acc steps T,
  Forall (fun p => key_ok (fst p)
                   /\ (forall T', dec1 (benc (fst p) ++ T') = Ok (fst p, T'))
                   /\ (forall T', dec1 (benc (snd p) ++ T') = Ok (snd p, T'))) d ->
  keys_nodup d ->
  Forall (fun a => Forall (fun q => key_eqb (fst a) (fst q) = false) d) acc ->
  (length d < steps)%nat ->
  dict_loop dec1 steps (benc_items d ++ c_e :: T) acc = Ok (BDict (acc ++ d), T).
Proof.
  induction d as [|[k x] r IH]; intros acc steps T Hd Hn Ha Hs.
  - destruct steps as [|st]; [simpl in Hs; lia|].
    unfold benc_items. cbn [map concat app]. rewrite dict_loop_cons, isb_e_c_e, app_nil_r. reflexivity.
  - destruct steps as [|st]; [simpl in Hs; lia|].
    inversion Hd as [|? ? Hkx Hr]; subst. cbn [fst snd] in Hkx. destruct Hkx as (Hk & Hdk & Hdx).
    unfold benc_items. cbn [map concat fst snd]. fold (benc_items r).
    rewrite <- !app_assoc.
    destruct (benc_head k) as (b & t & Eb & Hb).
    assert (Hdata : benc k ++ benc x ++ benc_items r ++ c_e :: T = b :: t ++ benc x ++ benc_items r ++ c_e :: T).
    { rewrite Eb. reflexivity. }
    rewrite Hdata, dict_loop_cons, Hb, <- Hdata, Hdk, Hdx, (key_ok_hashable k Hk).
    cbn [keys_nodup] in Hn. destruct Hn as [Hkr Hn]. cbn [fst] in Hkr.
    rewrite pydict_set_fresh.
    2:{ eapply Forall_impl; [|exact Ha]. intros a Hq. inversion Hq; subst. assumption. }
    assert (Ha' : Forall (fun a => Forall (fun q => key_eqb (fst a) (fst q) = false) r) (acc ++ [(k, x)])).
    { apply Forall_app. split.
      - eapply Forall_impl; [|exact Ha]. intros a Hq. inversion Hq; subst. assumption.
      - constructor; [exact Hkr | constructor]. }
    rewrite (IH (acc ++ [(k, x)]) st T Hr Hn Ha') by (simpl in *; lia).
    rewrite <- app_assoc. reflexivity.
Qed.

Lemma fold_max_le {A} (f : A -> nat) (l : list A) (b : nat) x :
  In x l -> (f x <= fold_right (fun y m => Nat.max (f y) m) b l)%nat.
Proof.
  induction l as [|y r IH]; intro H; [contradiction|].
  cbn [fold_right]. destruct H as [->|H]; [lia|]. specialize (IH H). lia.
Qed.

Lemma fold_max_base {A} (f : A -> nat) (l : list A) (b : nat) :
  (b <= fold_right (fun y m => Nat.max (f y) m) b l)%nat.
Proof. induction l as [|y r IH]; cbn [fold_right]; lia. Qed.

Lemma length_concat_ge {A} (f : A -> list byte) (l : list A) :
  (forall x, 1 <= length (f x))%nat -> (length l <= length (concat (map f l)))%nat.
Proof.
  intro H. induction l as [|x r IH]; [simpl; lia|].
  cbn [map concat length]. rewrite app_length. specialize (H x). lia.
Qed.

Lemma length_concat_in {A} (f : A -> list byte) (l : list A) x :
  In x l -> (length (f x) <= length (concat (map f l)))%nat.
Proof.
  induction l as [|y r IH]; intro H; [contradiction|].
  cbn [map concat]. rewrite app_length. destruct H as [->|H]; [lia|]. specialize (IH H). lia.
Qed.

Lemma bdec_l steps dp rest : bdec steps (S dp) (c_l :: rest) = list_loop (bdec steps dp) steps rest [].
Proof.
  cbn [bdec]. unfold isb at 1. rewrite N_of_c_l. cbn [N.eqb Pos.eqb].
  unfold isb at 1. rewrite N_of_c_l. cbn [N.eqb Pos.eqb]. reflexivity.
Qed.

Lemma bdec_d steps dp rest : bdec steps (S dp) (c_d :: rest) = dict_loop (bdec steps dp) steps rest [].
Proof.
  cbn [bdec]. unfold isb at 1. rewrite N_of_c_d. cbn [N.eqb Pos.eqb].
  unfold isb at 1. rewrite N_of_c_d. cbn [N.eqb Pos.eqb].
  unfold isb at 1. rewrite N_of_c_d. cbn [N.eqb Pos.eqb]. reflexivity.
Qed.

(* MAIN: one call of the decoder on bencode(v) followed by anything returns v and leaves exactly what followed *)
Theorem bdec_benc : forall v, wfv v -> forall steps depth T,
  (depth_of v <= depth)%nat -> (length (benc v) <= steps)%nat ->
  bdec steps depth (benc v ++ T) = Ok (v, T).
Proof.
  induction v as [z|s|l IHl|d IHd] using bval_ind'; intros Hw steps depth T Hdep Hst.
  - inversion Hw; subst. destruct depth as [|dp]; [simpl in Hdep; lia|]. apply bdec_int. assumption.
  - inversion Hw; subst. destruct depth as [|dp]; [simpl in Hdep; lia|]. apply bdec_str. assumption.
  - inversion Hw as [| |l' Hwl|]; subst.
    destruct depth as [|dp]; [simpl in Hdep; lia|].
    rewrite benc_BList in *. cbn [app]. rewrite bdec_l. rewrite <- app_assoc. cbn [app].
    rewrite (list_loop_spec (bdec steps dp) l [] steps T).
    + reflexivity.
    + apply Forall_forall. intros x Hx T'.
      rewrite Forall_forall in IHl, Hwl. apply IHl; [exact Hx | apply Hwl; exact Hx | |].
      * cbn [depth_of] in Hdep. pose proof (fold_max_le depth_of l 0%nat x Hx). lia.
      * cbn [length] in Hst. rewrite app_length in Hst.
        pose proof (length_concat_in benc l x Hx). unfold bytes in *. lia.
    + cbn [length] in Hst. rewrite app_length in Hst. cbn [length] in Hst.
      pose proof (length_concat_ge benc l benc_length_pos). unfold bytes in *. lia.
  - inversion Hw as [| | |d' Hwd Hks Hkn]; subst.
    destruct depth as [|dp]; [simpl in Hdep; lia|].
    rewrite (benc_BDict d Hks) in *. cbn [app]. rewrite bdec_d. rewrite <- app_assoc. cbn [app].
    assert (Hdp : (2 <= S dp)%nat).
    { cbn [depth_of] in Hdep.
      pose proof (fold_max_base (fun p : bval * bval => let (_, x) := p in depth_of x) d 1%nat). lia. }
    rewrite (dict_loop_spec (bdec steps dp) d [] steps T).
    + reflexivity.
    + apply Forall_forall. intros [k x] Hin. cbn [fst snd].
      rewrite Forall_forall in IHd, Hwd. destruct (IHd _ Hin) as [_ IHx]. destruct (Hwd _ Hin) as [Hk Hx].
      cbn [fst snd] in *. split; [exact Hk|]. split.
      * intro T'. destruct dp as [|dp']; [lia|].
        destruct k as [z|s| |]; try contradiction; [apply bdec_int | apply bdec_str]; exact Hk.
      * intro T'. apply IHx; [exact Hx| |].
        -- cbn [depth_of] in Hdep.
           pose proof (fold_max_le (fun p : bval * bval => let (_, y) := p in depth_of y) d 1%nat (k, x) Hin) as Hm.
           cbn beta iota in Hm. lia.
        -- cbn [length] in Hst. rewrite app_length in Hst. unfold benc_items in Hst.
           pose proof (length_concat_in (fun p : bval * bval => benc (fst p) ++ benc (snd p)) d (k, x) Hin) as Hl.
           cbn [fst snd] in Hl. rewrite app_length in Hl. unfold bytes in *. lia.
    + exact Hkn.
    + constructor.
    + cbn [length] in Hst. rewrite app_length in Hst. cbn [length] in Hst. unfold benc_items in Hst.
      pose proof (length_concat_ge (fun p : bval * bval => benc (fst p) ++ benc (snd p)) d) as Hl.
      assert (forall p : bval * bval, (1 <= length (benc (fst p) ++ benc (snd p)))%nat).
      { intro p. rewrite app_length. pose proof (benc_length_pos (fst p)). lia. }
      specialize (Hl H). unfold bytes in *. lia.
Qed.

(* bdecode(bencode(dict)) *)
Corollary bdecode_benc d fuel :
  wfv (BDict d) -> (depth_of (BDict d) <= fuel)%nat -> bdecode fuel (benc (BDict d)) = Ok d.
Proof.
  intros Hw Hf. unfold bdecode.
  destruct (benc_head (BDict d)) as (b & r & E & _).
  pose proof (bdec_benc (BDict d) Hw (S (length (benc (BDict d)))) fuel [] Hf ltac:(lia)) as H.
  rewrite app_nil_r in H. rewrite H. rewrite E. reflexivity.
Qed.
