(* C11 proofs: the table driven by the modelled PeerManager, clock and protocol queue is an instance of the table
   histories the theorems quantify over; a contact handed to the protocol is never lost *)
From Coq Require Import NArith ZArith List Bool Lia.
From LV Require Import Model.C11 Model.C11Spec Proofs.C11Base.
Import ListNotations.
Local Open Scope N_scope.

Lemma sys_step_tab own s o :
  s_tab (fst (sys_step true own s o)) =
  match table_op s o with
  | Some to => fst (step true own (s_tab s) to)
  | None => s_tab s
  end.
Proof.
  unfold sys_step. destruct (table_op s o) as [to |] eqn:E.
  - destruct (step true own (s_tab s) to). destruct o; reflexivity.
  - destruct o; cbn in *; try discriminate; try reflexivity.
    + destruct ((pid p =? own) || existsb (peer_eqb p) (s_pending s)); reflexivity.
Qed.

Lemma sys_run_from_compile own ops : forall s,
  s_tab (sys_run_from true own s ops) = fst (run_from true own (s_tab s) (compile own s ops)).
Proof.
  induction ops as [| o r IH]; intros s; cbn [sys_run_from compile]; [reflexivity |].
  rewrite IH, sys_step_tab. destruct (table_op s o) as [to |]; [| reflexivity].
  cbn [run_from]. destruct (step true own (s_tab s) to) as [t' x]. cbn [fst].
  destruct (run_from true own t' (compile own (fst (sys_step true own s o)) r)). reflexivity.
Qed.

Lemma compile_valid own ops : forall s, Forall sop_valid ops -> Forall op_valid (compile own s ops).
Proof.
  induction ops as [| o r IH]; intros s V; cbn [compile]; [constructor |].
  inversion V; subst. destruct (table_op s o) as [to |] eqn:E; [| auto].
  constructor; [| auto]. destruct o; cbn in E; try (inversion E; subst; cbn in *; auto; fail).
  destruct (existsb (peer_eqb p) (s_pending s)); inversion E; subst; cbn in *; auto.
Qed.

Lemma proto_probe_nofail pr q : proto_probe pr q <> PLocalFail.
Proof. unfold proto_probe. destruct (pr q); discriminate. Qed.

(* through the protocol no probe outcome reaches the table as a local failure *)
Lemma compile_nofail own ops : forall s, Forall sop_proto ops -> Forall op_nofail (compile own s ops).
Proof.
  induction ops as [| o r IH]; intros s V; cbn [compile]; [constructor |].
  inversion V; subst. destruct (table_op s o) as [to |] eqn:E; [| auto].
  constructor; [| auto]. destruct o; cbn in E, H1; try contradiction; try (inversion E; subst; cbn; auto; fail).
  - inversion E; subst. cbn. intros q. apply proto_probe_nofail.
  - destruct (existsb (peer_eqb p) (s_pending s)); inversion E; subst. cbn. intros q. apply proto_probe_nofail.
Qed.

Lemma pm_refines own sops :
  Forall sop_valid sops ->
  exists ops, Forall op_valid ops /\ s_tab (sys_run own sops) = run own ops /\
              (Forall sop_proto sops -> Forall op_nofail ops).
Proof.
  intros V. exists (compile own sys_init sops). split; [apply compile_valid; exact V |].
  split; [unfold sys_run, run; apply sys_run_from_compile | apply compile_nofail].
Qed.

(* ---------- the queue of routing_table_task loses nobody ---------- *)
Lemma in_remove_first_other (f : peer -> bool) l x : In x l -> f x = false -> In x (remove_first f l).
Proof.
  induction l as [| a l IH]; cbn; [tauto |]. intros [-> | H] Fx.
  - rewrite Fx. left. reflexivity.
  - destruct (f a); [exact H | right; auto].
Qed.

Lemma offered_or_pending own ops : forall s p,
  pid p <> own ->
  In p (s_pending s) \/ In (SReport p) ops ->
  In p (s_pending (sys_run_from true own s ops)) \/ exists e, In (Add p e) (compile own s ops).
Proof.
  induction ops as [| o r IH]; intros s p Np H; cbn [sys_run_from compile].
  - destruct H as [H | []]. left. exact H.
  - assert (Step : In p (s_pending (fst (sys_step true own s o))) \/ In (SReport p) r \/
                   exists e, table_op s o = Some (Add p e)).
    { destruct H as [Hp | [-> | Hr]]; [| | auto].
      - (* p is pending: it stays pending unless this step pops it *)
        unfold sys_step. destruct (table_op s o) as [to |] eqn:E.
        + destruct (step true own (s_tab s) to) as [t' x].
          destruct o; cbn [fst s_pending]; auto.
          cbn in E. destruct (existsb (peer_eqb p0) (s_pending s)); [| discriminate].
          destruct (peer_eqb p0 p) eqn:Eq.
          * apply peer_eqb_spec in Eq. subst p0. right. right. eauto.
          * left. apply in_remove_first_other; assumption.
        + destruct o; cbn [fst s_pending]; auto.
          destruct ((pid p0 =? own) || existsb (peer_eqb p0) (s_pending s)); cbn [fst s_pending]; auto.
          left. apply in_or_app. auto.
      - (* p is reported now *)
        left. unfold sys_step. cbn [table_op].
        destruct ((pid p =? own) || existsb (peer_eqb p) (s_pending s)) eqn:E; cbn [fst s_pending].
        + apply orb_true_iff in E. destruct E as [E | E]; [apply N.eqb_eq in E; contradiction |].
          apply existsb_exists in E. destruct E as (x & Hx & Ex). apply peer_eqb_spec in Ex. subst x. exact Hx.
        + apply in_or_app. right. left. reflexivity. }
    destruct Step as [Hp | [Hr | (e & E)]].
    + destruct (IH (fst (sys_step true own s o)) p Np (or_introl Hp)) as [H1 | (e & H1)]; [auto |].
      right. exists e. destruct (table_op s o); [right |]; exact H1.
    + destruct (IH (fst (sys_step true own s o)) p Np (or_intror Hr)) as [H1 | (e & H1)]; [auto |].
      right. exists e. destruct (table_op s o); [right |]; exact H1.
    + right. exists e. rewrite E. left. reflexivity.
Qed.
