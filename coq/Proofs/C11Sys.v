(* C11 proofs: the table driven by the modelled PeerManager and clock is an instance of the table histories
   the theorems quantify over *)
From Coq Require Import NArith ZArith List Bool Lia.
From LV Require Import Model.C11 Model.C11Spec.
Import ListNotations.
Local Open Scope N_scope.

Lemma sys_step_tab own s o :
  s_tab (fst (sys_step true own s o)) =
  match table_op s o with
  | Some to => fst (step true own (s_tab s) to)
  | None => s_tab s
  end.
Proof.
  unfold sys_step. destruct (table_op s o) as [to |] eqn:E.
  - destruct (step true own (s_tab s) to). destruct o; reflexivity.
  - destruct o; cbn in *; try discriminate; reflexivity.
Qed.

Lemma sys_run_from_compile own ops : forall s,
  s_tab (sys_run_from true own s ops) = fst (run_from true own (s_tab s) (compile own s ops)).
Proof.
  induction ops as [| o r IH]; intros s; cbn [sys_run_from compile]; [reflexivity |].
  rewrite IH, sys_step_tab. destruct (table_op s o) as [to |]; [| reflexivity].
  cbn [run_from]. destruct (step true own (s_tab s) to) as [t' x]. cbn [fst].
  destruct (run_from true own t' (compile own (fst (sys_step true own s o)) r)). reflexivity.
Qed.

Lemma compile_valid own ops : forall s, Forall sop_valid ops -> Forall op_valid (compile own s ops).
Proof.
  induction ops as [| o r IH]; intros s V; cbn [compile]; [constructor |].
  inversion V; subst. destruct (table_op s o) as [to |] eqn:E; [| auto].
  constructor; [| auto]. destruct o; cbn in E; inversion E; subst; cbn in *; auto.
Qed.

Lemma pm_refines own sops :
  Forall sop_valid sops ->
  exists ops, Forall op_valid ops /\ s_tab (sys_run own sops) = run own ops.
Proof.
  intros V. exists (compile own sys_init sops). split; [apply compile_valid; exact V |].
  unfold sys_run, run. apply sys_run_from_compile.
Qed.
