(* C06 lemmas, part 1: positional numerals in an arbitrary base >= 2 (digit loop with fuel), list index. *)
From Coq Require Import Arith NArith ZArith List Bool Lia.
From Coq.Strings Require Import Byte.
From LV Require Import Lib.Bytes Model.C06.
Import ListNotations.
Local Open Scope N_scope.
Ltac Zify.zify_post_hook ::= Z.to_euclidean_division_equations.

(* ------------------------------------------------------------------ digits *)
Lemma digits_fuel_0 fuel b : digits_fuel fuel b 0 = [].
Proof. destruct fuel; reflexivity. Qed.

Lemma div_lt_pow2 b v p : 2 <= b -> v < 2 * p -> v / b < p.
Proof.
  intros Hb Hv. apply N.div_lt_upper_bound; [lia|].
  apply N.lt_le_trans with (2 * p); [exact Hv|]. apply N.mul_le_mono_r. exact Hb.
Qed.

Lemma digits_fuel_val b : 2 <= b -> forall fuel v, v < 2 ^ N.of_nat fuel ->
  val_lsb b (digits_fuel fuel b v) = v.
Proof.
  intros Hb. induction fuel as [|f IH]; intros v Hv.
  - simpl in Hv. assert (v = 0) by lia. subst. reflexivity.
  - cbn [digits_fuel]. destruct (N.eqb_spec v 0) as [->|Hnz]; [reflexivity|].
    cbn [val_lsb]. rewrite IH.
    + pose proof (N.div_mod v b). lia.
    + rewrite Nat2N.inj_succ, N.pow_succ_r' in Hv. apply div_lt_pow2; assumption.
Qed.

Lemma digits_fuel_bound b : 0 < b -> forall fuel v, Forall (fun d => d < b) (digits_fuel fuel b v).
Proof.
  intros Hb. induction fuel as [|f IH]; intros v; cbn [digits_fuel]; [constructor|].
  destruct (v =? 0); constructor; [apply N.mod_lt; lia | apply IH].
Qed.

Lemma last_cons_ne {A} (x : A) r d : r <> [] -> last (x :: r) d = last r d.
Proof. destruct r; [congruence | reflexivity]. Qed.

Lemma digits_fuel_canon b : 2 <= b -> forall fuel v, v < 2 ^ N.of_nat fuel ->
  last (digits_fuel fuel b v) 1 <> 0.
Proof.
  intros Hb. induction fuel as [|f IH]; intros v Hv; cbn [digits_fuel]; [simpl; lia|].
  destruct (N.eqb_spec v 0) as [->|Hnz]; [simpl; lia|].
  assert (Hq : v / b < 2 ^ N.of_nat f).
  { rewrite Nat2N.inj_succ, N.pow_succ_r' in Hv. apply div_lt_pow2; assumption. }
  destruct (N.eq_dec (v / b) 0) as [Hz|Hz].
  - rewrite Hz, digits_fuel_0. simpl.
    assert (v < b) by (apply N.div_small_iff in Hz; lia).
    rewrite N.mod_small; assumption.
  - rewrite last_cons_ne; [apply IH; exact Hq|].
    destruct f as [|f']; [change (2 ^ N.of_nat 0) with 1 in Hq; apply N.lt_1_r in Hq; contradiction|]. cbn [digits_fuel].
    destruct (N.eqb_spec (v / b) 0); [contradiction | discriminate].
Qed.

Lemma val_lsb_pos b : 0 < b -> forall ds, Forall (fun d => d < b) ds -> ds <> [] -> last ds 1 <> 0 ->
  0 < val_lsb b ds.
Proof.
  intros Hb. induction ds as [|d r IH]; intros Hf Hne Hl; [congruence|].
  cbn [val_lsb]. destruct r as [|y r'].
  - simpl in Hl. simpl. lia.
  - inversion Hf; subst. assert (0 < val_lsb b (y :: r')).
    { apply IH; [assumption | discriminate | exact Hl]. }
    nia.
Qed.

Lemma digits_fuel_unique b : 2 <= b -> forall ds fuel, Forall (fun d => d < b) ds -> last ds 1 <> 0 ->
  val_lsb b ds < 2 ^ N.of_nat fuel -> digits_fuel fuel b (val_lsb b ds) = ds.
Proof.
  intros Hb. induction ds as [|d r IH]; intros fuel Hf Hl Hv.
  - simpl. apply digits_fuel_0.
  - inversion Hf as [|? ? Hd Hr]; subst.
    assert (Hpos : 0 < val_lsb b (d :: r)).
    { apply val_lsb_pos; [lia | assumption | discriminate | assumption]. }
    destruct fuel as [|f]; [change (2 ^ N.of_nat 0) with 1 in Hv; lia|].
    cbn [digits_fuel]. destruct (N.eqb_spec (val_lsb b (d :: r)) 0) as [E|_]; [lia|].
    cbn [val_lsb] in *.
    assert (Hmod : (d + b * val_lsb b r) mod b = d).
    { generalize dependent (val_lsb b r). intros x **.
      rewrite N.mul_comm, N.mod_add by lia. apply N.mod_small. assumption. }
    assert (Hdiv : (d + b * val_lsb b r) / b = val_lsb b r).
    { generalize dependent (val_lsb b r). intros x **.
      rewrite N.mul_comm, N.div_add by lia. rewrite N.div_small by assumption. lia. }
    rewrite Hmod, Hdiv. f_equal. apply IH.
    + assumption.
    + destruct r; [simpl; lia | exact Hl].
    + rewrite Nat2N.inj_succ, N.pow_succ_r' in Hv.
      generalize dependent (val_lsb b r). generalize (2 ^ N.of_nat f). intros p x **. nia.
Qed.

Lemma size_fuel v : v < 2 ^ N.of_nat (N.to_nat (N.size v)).
Proof. rewrite N2Nat.id. apply N.size_gt. Qed.

Lemma digits_lsb_val b v : 2 <= b -> val_lsb b (digits_lsb b v) = v.
Proof. intro Hb. apply digits_fuel_val; [assumption | apply size_fuel]. Qed.

Lemma digits_lsb_bound b v : 0 < b -> Forall (fun d => d < b) (digits_lsb b v).
Proof. intro Hb. apply digits_fuel_bound. assumption. Qed.

Lemma digits_lsb_canon b v : 2 <= b -> last (digits_lsb b v) 1 <> 0.
Proof. intro Hb. apply digits_fuel_canon; [assumption | apply size_fuel]. Qed.

Lemma digits_lsb_unique b ds : 2 <= b -> Forall (fun d => d < b) ds -> last ds 1 <> 0 ->
  digits_lsb b (val_lsb b ds) = ds.
Proof. intros Hb Hf Hl. apply digits_fuel_unique; try assumption. apply size_fuel. Qed.

Lemma digits_lsb_0 b : digits_lsb b 0 = [].
Proof. reflexivity. Qed.

Lemma digits_lsb_nonempty b v : 2 <= b -> 0 < v -> digits_lsb b v <> [].
Proof.
  intros Hb Hv E. pose proof (digits_lsb_val b v Hb) as H. rewrite E in H. simpl in H. lia.
Qed.

(* ------------------------------------------------------------------ most-significant-first fold *)
Lemma val_msb_snoc b l d : val_msb b (l ++ [d]) = val_msb b l * b + d.
Proof. unfold val_msb. rewrite fold_left_app. reflexivity. Qed.

Lemma val_msb_rev b ds : val_msb b (rev ds) = val_lsb b ds.
Proof.
  induction ds as [|d r IH]; [reflexivity|].
  cbn [rev val_lsb]. rewrite val_msb_snoc, IH. lia.
Qed.

Lemma val_msb_as_lsb b ds : val_msb b ds = val_lsb b (rev ds).
Proof. rewrite <- val_msb_rev, rev_involutive. reflexivity. Qed.

Lemma val_lsb_app_zeros b ds k : val_lsb b (ds ++ repeat 0 k) = val_lsb b ds.
Proof.
  induction ds as [|d r IH]; cbn [app val_lsb].
  - induction k as [|k IHk]; [reflexivity|]. cbn [repeat val_lsb]. rewrite IHk. lia.
  - rewrite IH. reflexivity.
Qed.

Lemma val_msb_zeros_app b k ds : val_msb b (repeat 0 k ++ ds) = val_msb b ds.
Proof.
  rewrite !val_msb_as_lsb, rev_app_distr.
  replace (rev (repeat 0 k)) with (repeat 0 k).
  - apply val_lsb_app_zeros.
  - clear. induction k as [|k IH]; [reflexivity|].
    cbn [repeat rev]. rewrite <- IH. clear IH.
    induction k as [|k IH]; [reflexivity|]. cbn [repeat app]. rewrite <- IH. reflexivity.
Qed.

Lemma le_decode_val bs : le_decode bs = val_lsb 256 (map N_of_byte bs).
Proof. induction bs as [|x r IH]; [reflexivity|]. cbn [le_decode map val_lsb]. rewrite IH. reflexivity. Qed.

Lemma map_byte_roundtrip bs : map byte_of_N (map N_of_byte bs) = bs.
Proof. induction bs as [|x r IH]; [reflexivity|]. cbn [map]. rewrite byte_of_N_of_byte, IH. reflexivity. Qed.

Lemma map_N_roundtrip ds : Forall (fun d => d < 256) ds -> map N_of_byte (map byte_of_N ds) = ds.
Proof.
  induction 1 as [|d r Hd _ IH]; [reflexivity|]. cbn [map]. rewrite byte_of_N_small by assumption.
  rewrite IH. reflexivity.
Qed.

Lemma Forall_N_of_byte bs : Forall (fun d => d < 256) (map N_of_byte bs).
Proof. induction bs; constructor; [apply N_of_byte_lt | assumption]. Qed.

(* ------------------------------------------------------------------ index_of *)
Section Index.
  Context {A : Type} (eqb : A -> A -> bool).
  Hypothesis eqb_spec : forall x y, eqb x y = true <-> x = y.

  Lemma index_of_some x l i d : index_of eqb x l = Some i -> (i < length l)%nat /\ nth i l d = x.
  Proof.
    revert i. induction l as [|y r IH]; intros i H; [discriminate|].
    cbn [index_of] in H. destruct (eqb x y) eqn:E.
    - injection H as <-. apply eqb_spec in E. subst. simpl. split; [lia | reflexivity].
    - destruct (index_of eqb x r) as [j|]; [|discriminate]. injection H as <-.
      destruct (IH j eq_refl) as [Hl Hn]. simpl. split; [lia | exact Hn].
  Qed.

  Lemma index_of_none x l : index_of eqb x l = None -> ~ In x l.
  Proof.
    induction l as [|y r IH]; intros H Hin; [destruct Hin|].
    cbn [index_of] in H. destruct (eqb x y) eqn:E; [discriminate|].
    destruct (index_of eqb x r); [discriminate|].
    destruct Hin as [->|Hin]; [|exact (IH eq_refl Hin)].
    assert (eqb x x = true) by (apply eqb_spec; reflexivity). congruence.
  Qed.

  Lemma index_of_nth l : NoDup l -> forall i d, (i < length l)%nat -> index_of eqb (nth i l d) l = Some i.
  Proof.
    induction 1 as [|y r Hnin _ IH]; intros i d Hi; [simpl in Hi; lia|].
    destruct i as [|i]; cbn [nth index_of].
    - assert (E : eqb y y = true) by (apply eqb_spec; reflexivity). rewrite E. reflexivity.
    - simpl in Hi. assert (Hi' : (i < length r)%nat) by lia.
      destruct (eqb (nth i r d) y) eqn:E.
      + apply eqb_spec in E. exfalso. apply Hnin. rewrite <- E. apply nth_In. exact Hi'.
      + rewrite IH by exact Hi'. reflexivity.
  Qed.
End Index.

(* ------------------------------------------------------------------ count_leading / repeat *)
Lemma count_leading_repeat_app {A} (p : A -> bool) x k t :
  p x = true -> count_leading p (repeat x k ++ t) = (k + count_leading p t)%nat.
Proof. intro H. induction k as [|k IH]; [reflexivity|]. cbn [repeat app count_leading]. rewrite H, IH. reflexivity. Qed.

Lemma rev_repeat {A} (x : A) k : rev (repeat x k) = repeat x k.
Proof.
  induction k as [|k IH]; [reflexivity|]. cbn [repeat rev]. rewrite IH. clear IH.
  induction k as [|k IH]; [reflexivity|]. cbn [repeat app]. rewrite IH. reflexivity.
Qed.

(* split a list at its leading run *)
Lemma leading_split {A} (p : A -> bool) (x : A) (l : list A) :
  (forall y, p y = true -> y = x) ->
  l = repeat x (count_leading p l) ++ skipn (count_leading p l) l /\
  match skipn (count_leading p l) l with [] => True | c :: _ => p c = false end.
Proof.
  intro Hp. induction l as [|y r IH]; [split; [reflexivity | exact I]|].
  cbn [count_leading]. destruct (p y) eqn:E.
  - destruct IH as [IH1 IH2]. cbn [repeat app skipn]. split; [|exact IH2].
    rewrite (Hp y E) at 1. f_equal. exact IH1.
  - simpl. split; [reflexivity | exact E].
Qed.
