From Coq Require Import NArith List Bool.
From Coq.Strings Require Import Byte.
From LV Require Import Lib.Bytes Model.C04 Model.C04_Obj.
Import ListNotations.

Section Obj.
  Variable sha256 : bytes -> bytes.
  Variable pub : bytes -> bytes.
  Variable sign : bytes -> bytes -> bytes.
  Variable verify : bytes -> bytes -> bytes -> bool.
  Variable fo addr : bytes.
  Hypothesis verify_sign : forall sk d, verify (pub sk) d (sign sk d) = true.

  Notation step := (ostep sha256 sign fo).
  Notation run := (orun sha256 sign fo).
  Notation valid := (obj_valid sha256 verify fo addr).

  (* the state right after a signature by (sk, ch) over message m, seen through harmless operations *)
  Definition signed_state (sk ch m : bytes) : sobj :=
    mk_sobj None (Some (sign sk (sha256 (channel_pieces fo ch m)))) ch m.

  Lemma step_sign o sk ch : step o (OSign sk ch) = signed_state sk ch (o_msg o).
  Proof. reflexivity. Qed.

  Lemma keeps_signed_state sk ch m op : keeps m op = true -> step (signed_state sk ch m) op = signed_state sk ch m.
  Proof.
    destruct op as [sk' ch'| |m'|]; cbn [keeps]; intro H; try discriminate.
    - apply bytes_eqb_eq in H. subst. reflexivity.
    - reflexivity.
  Qed.

  Lemma run_keeps sk ch m ops : forallb (keeps m) ops = true -> run (signed_state sk ch m) ops = signed_state sk ch m.
  Proof.
    unfold orun. induction ops as [|op r IH]; cbn [forallb fold_left]; intro H; [reflexivity|].
    apply andb_true_iff in H as [H1 H2]. rewrite keeps_signed_state by exact H1. apply IH. exact H2.
  Qed.

  Lemma signed_state_valid sk ch m : valid (pub sk) (signed_state sk ch m) = true.
  Proof. unfold obj_valid, obj_digest, obj_pieces, signed_state. cbn. apply verify_sign. Qed.

  Theorem resigned_validates o0 before sk ch after :
    forallb (keeps (o_msg (run o0 before))) after = true ->
    valid (pub sk) (run o0 (before ++ OSign sk ch :: after)) = true.
  Proof.
    intro H. unfold orun. rewrite fold_left_app. cbn [fold_left]. fold (run o0 before).
    rewrite step_sign. fold (run (signed_state sk ch (o_msg (run o0 before))) after).
    rewrite run_keeps by exact H. apply signed_state_valid.
  Qed.

  (* after sign + harmless operations the digest is the current-format one over the current fields: no trace of
     an earlier release's payload survives *)
  Theorem resigned_digest_current o0 before sk ch after :
    forallb (keeps (o_msg (run o0 before))) after = true ->
    let o := run o0 (before ++ OSign sk ch :: after) in
    o_legacy o = None /\ o_ch o = ch /\ obj_pieces fo addr o = channel_pieces fo ch (o_msg (run o0 before)).
  Proof.
    intro H. unfold orun. rewrite fold_left_app. cbn [fold_left]. fold (run o0 before).
    rewrite step_sign. fold (run (signed_state sk ch (o_msg (run o0 before))) after).
    rewrite run_keeps by exact H. cbn. repeat split.
  Qed.

  Lemma unsigned_stays o ops : o_sig o = None -> forallb not_sign ops = true -> o_sig (run o ops) = None.
  Proof.
    unfold orun. revert o. induction ops as [|op r IH]; cbn [forallb fold_left]; intros o Ho H; [exact Ho|].
    apply andb_true_iff in H as [H1 H2]. apply IH; [|exact H2].
    destruct op as [sk ch| |m|]; cbn [not_sign] in H1; try discriminate; cbn [ostep].
    - reflexivity.
    - exact Ho.
    - rewrite Ho. reflexivity.
  Qed.

  Theorem cleared_never_validates o0 before after pk :
    forallb not_sign after = true ->
    valid pk (run o0 (before ++ OClear :: after)) = false.
  Proof.
    intro H.
    assert (E : o_sig (run o0 (before ++ OClear :: after)) = None).
    { unfold orun. rewrite fold_left_app. cbn [fold_left].
      apply (unsigned_stays (step (fold_left step before o0) OClear) after eq_refl H). }
    unfold obj_valid. rewrite E. reflexivity.
  Qed.

  Notation valid_ch := (obj_valid_channel sha256 verify fo addr).

  Theorem resigned_validates_channel o0 before sk ch after :
    forallb (keeps (o_msg (run o0 before))) after = true ->
    valid_ch (pub sk) ch (run o0 (before ++ OSign sk ch :: after)) = true.
  Proof.
    intro H. unfold obj_valid_channel. apply andb_true_iff. split.
    - destruct (resigned_digest_current o0 before sk ch after H) as (_ & Hc & _).
      rewrite Hc. apply bytes_eqb_eq. reflexivity.
    - apply resigned_validates. exact H.
  Qed.

  (* whatever key it carries -- the signer's own included -- a channel with another claim hash is refused *)
  Theorem other_channel_refused o pk ch : ch <> o_ch o -> valid_ch pk ch o = false.
  Proof.
    intro H. unfold obj_valid_channel. destruct (bytes_eqb (o_ch o) ch) eqn:E; [|reflexivity].
    apply bytes_eqb_eq in E. congruence.
  Qed.

  (* re-reading never changes what is signed nor by whom for a current-format object *)
  Theorem reread_preserves_current o pk : o_legacy o = None -> valid pk (step o OReread) = valid pk o.
  Proof.
    intro H. destruct o as [l s c m]. cbn in H. subst l. destruct s as [sg|]; reflexivity.
  Qed.
End Obj.

(* The behaviour before a3011f6 is refuted in the model: with a scheme whose verify compares the signature with a
   recomputation (so verify (pub sk) d (sign sk d) = true holds), an object decoded from an earlier release and then
   signed did not validate against its signer. *)
Definition toy_sha (b : bytes) : bytes := b.
Definition toy_sign (sk d : bytes) : bytes := sk ++ d.
Definition toy_verify (pk d sg : bytes) : bool := bytes_eqb sg (pk ++ d).
Lemma toy_verify_sign sk d : toy_verify sk d (toy_sign sk d) = true.
Proof. unfold toy_verify, toy_sign. apply bytes_eqb_eq. reflexivity. Qed.

Definition legacy_start : sobj := mk_sobj (Some [x01; x02]) (Some [x09]) [x05] [x03].
Lemma old_sign_refuted :
  obj_valid toy_sha toy_verify [x0a] [x0b] [x07]
    (ostep_old toy_sha toy_sign [x0a] legacy_start (OSign [x07] [x06])) = false.
Proof. vm_compute. reflexivity. Qed.
Lemma new_sign_ok :
  obj_valid toy_sha toy_verify [x0a] [x0b] [x07]
    (ostep toy_sha toy_sign [x0a] legacy_start (OSign [x07] [x06])) = true.
Proof. vm_compute. reflexivity. Qed.
