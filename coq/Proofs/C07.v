(* C07 proofs: header chain *)
From Coq Require Import NArith ZArith List Bool Lia Arith.
From Coq.Strings Require Import Byte.
From LV Require Import Lib.Bytes Model.C07.
Import ListNotations.
Ltac Zify.zify_post_hook ::= Z.to_euclidean_division_equations.

Arguments HS : simpl never.
Arguments CHUNK : simpl never.
Arguments BATCH : simpl never.

Lemma HS_pos : 0 < HS. Proof. unfold HS. lia. Qed.

(* ------------------------------------------------------------------------------------------ *)
(* lists                                                                                      *)
(* ------------------------------------------------------------------------------------------ *)
Lemma skipn_skipn {A} (a b : nat) (l : list A) : skipn a (skipn b l) = skipn (b + a) l.
Proof.
  revert l. induction b as [|b IH]; intro l; [reflexivity|].
  destruct l as [|x l]; [destruct a; reflexivity|]. cbn [skipn Nat.add]. apply IH.
Qed.

Lemma firstn_firstn_le {A} (a b : nat) (l : list A) : a <= b -> firstn a (firstn b l) = firstn a l.
Proof. intro H. rewrite firstn_firstn. f_equal. lia. Qed.

Lemma firstn_add {A} (a b : nat) (l : list A) : firstn (a + b) l = firstn a l ++ firstn b (skipn a l).
Proof.
  revert l. induction a as [|a IH]; intro l; [reflexivity|].
  destruct l as [|x l]; [destruct b; reflexivity|]. cbn [firstn skipn Nat.add app]. f_equal. apply IH.
Qed.

Lemma firstn_eq_app {A} (n : nat) (a b : list A) : length a = n -> firstn n (a ++ b) = a.
Proof. intros <-. apply firstn_app_exact. Qed.
Lemma skipn_eq_app {A} (n : nat) (a b : list A) : length a = n -> skipn n (a ++ b) = b.
Proof. intros <-. apply skipn_app_exact. Qed.

Lemma app_eq_len {A} (a c b d : list A) : length a = length c -> a ++ b = c ++ d -> a = c /\ b = d.
Proof.
  revert c. induction a as [|x a IH]; intros [|y c] L H; cbn in *; try discriminate; [auto|].
  inversion H; subst. destruct (IH c) as [-> ->]; auto.
Qed.

(* ------------------------------------------------------------------------------------------ *)
(* chunks                                                                                     *)
(* ------------------------------------------------------------------------------------------ *)
Lemma chunks_length k : forall b, length (chunks k b) = k.
Proof. induction k as [|k IH]; intro b; cbn [chunks length]; [reflexivity | rewrite IH; reflexivity]. Qed.

Lemma chunks_add k j : forall b, chunks (k + j) b = chunks k b ++ chunks j (skipn (HS * k) b).
Proof.
  induction k as [|k IH]; intro b.
  - rewrite Nat.mul_0_r. reflexivity.
  - cbn [Nat.add chunks app]. f_equal. rewrite IH. f_equal. f_equal.
    rewrite skipn_skipn. f_equal. lia.
Qed.

Lemma chunks_ext k : forall a b, firstn (HS * k) a = firstn (HS * k) b -> chunks k a = chunks k b.
Proof.
  induction k as [|k IH]; intros a b H; [reflexivity|].
  cbn [chunks].
  replace (HS * S k) with (HS + HS * k) in H by lia.
  rewrite !firstn_add in H.
  assert (L : length (firstn HS a) = length (firstn HS b)).
  { apply (f_equal (@length _)) in H. rewrite !app_length, !firstn_length, !skipn_length in H.
    rewrite !firstn_length. lia. }
  apply app_eq_len in H; [|exact L].
  destruct H as [H1 H2]. rewrite H1. f_equal. apply IH. exact H2.
Qed.

Lemma chunks_app k j a b : length a = HS * k -> chunks (k + j) (a ++ b) = chunks k a ++ chunks j b.
Proof.
  intro L. rewrite chunks_add. f_equal.
  - apply chunks_ext. rewrite firstn_eq_app by exact L. rewrite firstn_all2 by lia. reflexivity.
  - rewrite skipn_eq_app by exact L. reflexivity.
Qed.

Lemma chunks_snoc k b : chunks (S k) b = chunks k b ++ [read b k].
Proof.
  replace (S k) with (k + 1) by lia. rewrite chunks_add. f_equal.
Qed.

Lemma concat_chunks k : forall b, HS * k <= length b -> concat (chunks k b) = firstn (HS * k) b.
Proof.
  induction k as [|k IH]; intros b H.
  - rewrite Nat.mul_0_r. reflexivity.
  - cbn [chunks concat]. replace (HS * S k) with (HS + HS * k) by lia.
    rewrite firstn_add. f_equal. apply IH. rewrite skipn_length. lia.
Qed.

Lemma chunks_concat hs : Forall (fun x : bytes => length x = HS) hs ->
  forall rest, chunks (length hs) (concat hs ++ rest) = hs.
Proof.
  induction 1 as [|x hs Hx _ IH]; intro rest; [reflexivity|].
  cbn [length chunks concat]. rewrite <- app_assoc.
  rewrite firstn_eq_app by exact Hx. rewrite skipn_eq_app by exact Hx. f_equal. apply IH.
Qed.

Lemma concat_length_HS hs : Forall (fun x : bytes => length x = HS) hs -> length (concat hs) = HS * length hs.
Proof.
  induction 1 as [|x hs Hx _ IH]; [cbn; lia|].
  cbn [concat length]. rewrite app_length, IH, Hx. lia.
Qed.

Lemma chunks_Forall_len k : forall b, HS * k <= length b -> Forall (fun x : bytes => length x = HS) (chunks k b).
Proof.
  induction k as [|k IH]; intros b H; [constructor|].
  cbn [chunks]. constructor.
  - rewrite firstn_length. lia.
  - apply IH. rewrite skipn_length. lia.
Qed.

(* ------------------------------------------------------------------------------------------ *)
(* write_at                                                                                   *)
(* ------------------------------------------------------------------------------------------ *)
Lemma write_at_inside off data iob : off <= length iob -> data <> [] ->
  write_at off data iob = firstn off iob ++ data ++ skipn (off + length data) iob.
Proof.
  intros H Hd. unfold write_at. destruct data as [|d r]; [congruence|].
  replace (off - length iob) with 0 by lia. reflexivity.
Qed.

Lemma write_at_length off data iob : data <> [] ->
  length (write_at off data iob) = Nat.max (length iob) (off + length data).
Proof.
  intro Hd. unfold write_at. destruct data as [|d r]; [congruence|].
  rewrite !app_length, firstn_length, repeat_length, skipn_length. lia.
Qed.

Lemma write_at_nil off iob : write_at off [] iob = iob.
Proof. reflexivity. Qed.

Lemma write_at_firstn off data iob : off <= length iob ->
  firstn off (write_at off data iob) = firstn off iob.
Proof.
  intro H. destruct data as [|d r] eqn:E; [reflexivity|]. rewrite <- E.
  rewrite write_at_inside by (subst; congruence || exact H).
  rewrite firstn_eq_app by (rewrite firstn_length; lia). reflexivity.
Qed.

(* the stored bytes: the batch sits at [off, off + length data) *)
Lemma write_at_read off data iob : off <= length iob -> data <> [] ->
  firstn (length data) (skipn off (write_at off data iob)) = data.
Proof.
  intros H Hd. rewrite write_at_inside by assumption.
  rewrite skipn_eq_app by (rewrite firstn_length; lia).
  apply firstn_eq_app. reflexivity.
Qed.

Lemma write_at_skipn off data iob : off <= length iob ->
  skipn (off + length data) (write_at off data iob) = skipn (off + length data) iob.
Proof.
  intro H. destruct data as [|d r] eqn:E; [reflexivity|]. rewrite <- E.
  rewrite write_at_inside by (subst; congruence || exact H).
  rewrite app_assoc. apply skipn_eq_app. rewrite app_length, firstn_length. lia.
Qed.

Lemma write_at_prefix off data iob : off <= length iob -> data <> [] ->
  firstn (off + length data) (write_at off data iob) = firstn off iob ++ data.
Proof.
  intros H Hd. rewrite write_at_inside by assumption.
  rewrite app_assoc. apply firstn_eq_app. rewrite app_length, firstn_length. lia.
Qed.

(* ------------------------------------------------------------------------------------------ *)
(* validation                                                                                 *)
(* ------------------------------------------------------------------------------------------ *)
Definition wf (s : st) : Prop := HS * hsize s <= length (io s).

(* the two headers below the next one after consuming hs *)
Fixpoint adv (pp p : option bytes) (hs : list bytes) : option bytes * option bytes :=
  match hs with [] => (pp, p) | x :: r => adv p (Some x) r end.

Lemma adv_app a : forall pp p b, adv pp p (a ++ b) = adv (fst (adv pp p a)) (snd (adv pp p a)) b.
Proof. induction a as [|x a IH]; intros pp p b; [reflexivity|]. cbn [app adv]. apply IH. Qed.

Lemma adv_snoc a x : forall pp p, adv pp p (a ++ [x]) = (snd (adv pp p a), Some x).
Proof. intros pp p. rewrite adv_app. reflexivity. Qed.

Lemma below_adv iob start : (below2 iob start, below1 iob start) = adv None None (chunks start iob).
Proof.
  destruct start as [|[|k]]; [reflexivity | reflexivity |].
  rewrite chunks_snoc, adv_snoc, chunks_snoc, adv_snoc. reflexivity.
Qed.

Section Chain.
Variables sha256 sha512 rmd160 : bytes -> bytes.
Local Notation dsha := (dsha sha256).
Local Notation pow_value := (pow_value sha256 sha512 rmd160).
Local Notation check_header := (check_header sha256 sha512 rmd160).
Local Notation validate := (validate sha256 sha512 rmd160).
Local Notation connect := (connect sha256 sha512 rmd160).

Lemma validate_app c a : forall pp p b,
  validate c pp p (a ++ b) =
  match validate c pp p a with
  | Some e => Some e
  | None => validate c (fst (adv pp p a)) (snd (adv pp p a)) b
  end.
Proof.
  induction a as [|x a IH]; intros pp p b; [reflexivity|].
  cbn [app validate adv]. destruct (check_header c pp p x); [reflexivity | apply IH].
Qed.

Definition valid_chain (c : cfg) (hs : list bytes) : Prop := validate c None None hs = None.

Lemma valid_chain_app c a b :
  valid_chain c (a ++ b) <->
  valid_chain c a /\ validate c (fst (adv None None a)) (snd (adv None None a)) b = None.
Proof.
  unfold valid_chain. rewrite validate_app. destruct (validate c None None a); split.
  - discriminate. - intros [H _]; discriminate. - auto. - intros [_ H]; exact H.
Qed.

Lemma valid_chain_prefix c k j iob : k <= j -> valid_chain c (chunks j iob) -> valid_chain c (chunks k iob).
Proof.
  intros H V. replace j with (k + (j - k)) in V by lia. rewrite chunks_add in V.
  apply valid_chain_app in V. tauto.
Qed.

(* the headers a batch is judged against are the last two of the chain below `start` *)
Lemma valid_extension c iob start hs :
  valid_chain c (chunks start iob) ->
  validate c (below2 iob start) (below1 iob start) hs = None ->
  valid_chain c (chunks start iob ++ hs).
Proof.
  intros V H. apply valid_chain_app. split; [exact V|].
  rewrite <- below_adv. exact H.
Qed.

(* ------------------------------------------------------------------------------------------ *)
(* connect                                                                                    *)
(* ------------------------------------------------------------------------------------------ *)
Definition stored (r : cres) : bool := match r with COk (S _) => true | _ => false end.

Lemma connect_cases c s start batch s' r : connect c s start batch = (s', r) ->
  (exists n, r = COk (S n) /\ length batch = HS * S n /\ start <= hsize s /\
     validate c (below2 (io s) start) (below1 (io s) start) (chunks (S n) batch) = None /\
     s' = do_write s start batch)
  \/ (s' = s /\ stored r = false).
Proof.
  unfold connect. intro H.
  destruct (Nat.eqb (length batch mod HS) 0) eqn:Em; cbn [negb] in H.
  2:{ inversion H; subst. right. auto. }
  destruct (Nat.ltb (hsize s) start) eqn:El.
  { inversion H; subst. right. auto. }
  destruct (validate c (below2 (io s) start) (below1 (io s) start) (chunks (length batch / HS) batch)) eqn:Ev.
  { inversion H; subst. right. auto. }
  destruct batch as [|b0 br] eqn:Eb.
  { inversion H; subst. right. auto. }
  rewrite <- Eb in *. inversion H; subst s' r. clear H.
  apply Nat.eqb_eq in Em. apply Nat.ltb_ge in El.
  assert (Hl : length batch <> 0) by (subst batch; cbn; lia).
  destruct (length batch / HS) as [|n] eqn:En.
  { exfalso. unfold HS in *. lia. }
  left. exists n. repeat split; try assumption.
  unfold HS in *. lia.
Qed.

Lemma connect_accepts c s start batch n :
  length batch = HS * S n -> start <= hsize s ->
  validate c (below2 (io s) start) (below1 (io s) start) (chunks (S n) batch) = None ->
  connect c s start batch = (do_write s start batch, COk (S n)).
Proof.
  intros L Hs V. unfold connect.
  assert (Em : length batch mod HS = 0) by (rewrite L, Nat.mul_comm; apply Nat.mod_mul; unfold HS; lia).
  assert (En : length batch / HS = S n) by (rewrite L, Nat.mul_comm; apply Nat.div_mul; unfold HS; lia).
  rewrite Em. cbn [Nat.eqb negb].
  destruct (Nat.ltb (hsize s) start) eqn:El; [apply Nat.ltb_lt in El; lia|].
  rewrite En, V.
  destruct batch as [|b0 br]; [cbn in L; unfold HS in L; lia | reflexivity].
Qed.

Lemma do_write_chunks s start batch n : wf s -> start <= hsize s -> length batch = HS * S n ->
  let s' := do_write s start batch in
  chunks (start + S n) (io s') = chunks start (io s) ++ chunks (S n) batch
  /\ hsize s' = Nat.max (hsize s) (start + S n) /\ wf s'
  /\ firstn (HS * start) (io s') = firstn (HS * start) (io s)
  /\ skipn (HS * (start + S n)) (io s') = skipn (HS * (start + S n)) (io s)
  /\ firstn (length batch) (skipn (HS * start) (io s')) = batch.
Proof.
  intros W Hs L. unfold wf in W. cbn zeta.
  assert (Hoff : HS * start <= length (io s)) by (unfold HS in *; nia).
  assert (Hne : batch <> []) by (intro E; subst; cbn in L; unfold HS in L; lia).
  assert (Hsz : (HS * start + length batch) / HS = start + S n).
  { rewrite L. unfold HS. lia. }
  unfold do_write; cbn [io hsize]. rewrite Hsz.
  split; [|split; [reflexivity|split; [|split; [|split]]]].
  - transitivity (chunks (start + S n) (firstn (HS * start) (io s) ++ batch)).
    + apply chunks_ext. replace (HS * (start + S n)) with (HS * start + length batch) by (rewrite L; lia).
      rewrite write_at_prefix by assumption.
      rewrite firstn_all2; [reflexivity|]. rewrite app_length, firstn_length. lia.
    + rewrite chunks_app by (rewrite firstn_length; lia). f_equal.
      apply chunks_ext. rewrite firstn_firstn_le by lia. reflexivity.
  - unfold wf; cbn [io hsize]. rewrite write_at_length by exact Hne. unfold HS in *. lia.
  - apply write_at_firstn. exact Hoff.
  - replace (HS * (start + S n)) with (HS * start + length batch) by (rewrite L; lia).
    apply write_at_skipn. exact Hoff.
  - apply write_at_read; assumption.
Qed.

(* ------------------------------------------------------------------------------------------ *)
(* the chain invariant over every sequence of connect calls                                   *)
(* ------------------------------------------------------------------------------------------ *)
(* (state, end of the most recently connected batch, "every accepted batch so far was connected at or
   below the end of the batch accepted before it") *)
Definition tstate := (st * nat * bool)%type.

Definition cstep (c : cfg) (t : tstate) (op : nat * bytes) : tstate :=
  let '(s, e, g) := t in
  let '(s', r) := connect c s (fst op) (snd op) in
  match r with
  | COk (S n) => (s', fst op + S n, g && Nat.leb (fst op) e)
  | _ => (s', e, g)
  end.

Definition crun (c : cfg) (t : tstate) (ops : list (nat * bytes)) : tstate := fold_left (cstep c) ops t.

Definition cinv (c : cfg) (t : tstate) (w : nat) : Prop :=
  let '(s, e, g) := t in
  wf s /\ w <= hsize s /\ valid_chain c (chunks w (io s)) /\ (g = true -> e = w).

Lemma cstep_inv c t op w : cinv c t w -> exists w', cinv c (cstep c t op) w'.
Proof.
  destruct t as [[s e] g]. destruct op as [start batch]. intros (W & Hw & V & G).
  unfold cstep. cbn [fst snd].
  destruct (connect c s start batch) as [s' r] eqn:E.
  apply connect_cases in E. destruct E as [(n & -> & L & Hs & Val & ->) | [-> Hr]].
  - destruct (do_write_chunks s start batch n W Hs L) as (Hc & Hsz & W' & Hpre & _ & _).
    destruct (Nat.leb start w) eqn:Elw.
    + apply Nat.leb_le in Elw. exists (start + S n). unfold cinv.
      split; [exact W'|]. split; [lia|]. split.
      * rewrite Hc. apply valid_extension; [|exact Val].
        apply (valid_chain_prefix c start w); assumption.
      * intros _. reflexivity.
    + apply Nat.leb_gt in Elw. exists w. unfold cinv.
      split; [exact W'|]. split; [lia|]. split.
      * replace (chunks w (io (do_write s start batch))) with (chunks w (io s)); [exact V|].
        apply chunks_ext.
        rewrite <- (firstn_firstn_le (HS * w) (HS * start) (io s)) by (unfold HS; lia).
        rewrite <- (firstn_firstn_le (HS * w) (HS * start) (io (do_write s start batch))) by (unfold HS; lia).
        rewrite Hpre. reflexivity.
      * intro Hg. apply andb_true_iff in Hg as [Hg1 Hg2]. apply Nat.leb_le in Hg2.
        specialize (G Hg1). lia.
  - exists w. destruct r as [[|k]| | |]; cbn in Hr; try discriminate; unfold cinv; auto.
Qed.

Lemma crun_inv c ops : forall t w, cinv c t w -> exists w', cinv c (crun c t ops) w'.
Proof.
  induction ops as [|op ops IH]; intros t w H; [exists w; exact H|].
  cbn [crun fold_left]. destruct (cstep_inv c t op w H) as [w' H']. apply (IH _ w' H').
Qed.

Theorem chain_invariant c ops s0 e0 :
  wf s0 -> e0 <= hsize s0 -> valid_chain c (chunks e0 (io s0)) ->
  forall s e g, crun c (s0, e0, true) ops = (s, e, g) -> g = true ->
  valid_chain c (chunks e (io s)) /\ e <= hsize s /\ wf s.
Proof.
  intros W He V s e g R Hg.
  destruct (crun_inv c ops (s0, e0, true) e0) as [w Hi].
  { unfold cinv. auto. }
  rewrite R in Hi. destruct Hi as (W' & Hw & V' & G). specialize (G Hg). subst w. auto.
Qed.
