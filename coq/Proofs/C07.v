(* C07 proofs: header chain *)
From Coq Require Import NArith ZArith List Bool Lia Arith.
From Coq.Strings Require Import Byte.
From LV Require Import Lib.Bytes Model.C07.
Import ListNotations.
Ltac Zify.zify_post_hook ::= Z.to_euclidean_division_equations.

Arguments HS : simpl never.
Arguments CHUNK : simpl never.
Arguments BATCH : simpl never.

Lemma HS_pos : 0 < HS. Proof. unfold HS. lia. Qed.

(* lia does not see nat division here: name quotient and remainder *)
Ltac nateuc a b :=
  let H1 := fresh "Hdm" in let H2 := fresh "Hlt" in
  pose proof (Nat.div_mod_eq a b) as H1;
  assert (H2 : a mod b < b) by (apply Nat.mod_upper_bound; lia);
  generalize dependent (a / b); generalize dependent (a mod b); intros.
Ltac euc :=
  unfold HS, BATCH, CHUNK in *;
  repeat match goal with
  | |- context [?a / ?b] => nateuc a b
  | |- context [?a mod ?b] => nateuc a b
  | H : context [?a / ?b] |- _ => nateuc a b
  | H : context [?a mod ?b] |- _ => nateuc a b
  end; lia.

(* ------------------------------------------------------------------------------------------ *)
(* lists                                                                                      *)
(* ------------------------------------------------------------------------------------------ *)
Lemma skipn_skipn {A} (a b : nat) (l : list A) : skipn a (skipn b l) = skipn (b + a) l.
Proof.
  revert l. induction b as [|b IH]; intro l; [reflexivity|].
  destruct l as [|x l]; [destruct a; reflexivity|]. cbn [skipn Nat.add]. apply IH.
Qed.

Lemma firstn_firstn_le {A} (a b : nat) (l : list A) : a <= b -> firstn a (firstn b l) = firstn a l.
Proof. intro H. rewrite firstn_firstn. f_equal. lia. Qed.

Lemma firstn_add {A} (a b : nat) (l : list A) : firstn (a + b) l = firstn a l ++ firstn b (skipn a l).
Proof.
  revert l. induction a as [|a IH]; intro l; [reflexivity|].
  destruct l as [|x l]; [destruct b; reflexivity|]. cbn [firstn skipn Nat.add app]. f_equal. apply IH.
Qed.

Lemma firstn_eq_app {A} (n : nat) (a b : list A) : length a = n -> firstn n (a ++ b) = a.
Proof. intros <-. apply firstn_app_exact. Qed.
Lemma skipn_eq_app {A} (n : nat) (a b : list A) : length a = n -> skipn n (a ++ b) = b.
Proof. intros <-. apply skipn_app_exact. Qed.

Lemma app_eq_len {A} (a c b d : list A) : length a = length c -> a ++ b = c ++ d -> a = c /\ b = d.
Proof.
  revert c. induction a as [|x a IH]; intros [|y c] L H; cbn in *; try discriminate; [auto|].
  inversion H; subst. destruct (IH c) as [-> ->]; auto.
Qed.

(* ------------------------------------------------------------------------------------------ *)
(* chunks                                                                                     *)
(* ------------------------------------------------------------------------------------------ *)
Lemma chunks_length k : forall b, length (chunks k b) = k.
Proof. induction k as [|k IH]; intro b; cbn [chunks length]; [reflexivity | rewrite IH; reflexivity]. Qed.

Lemma chunks_add k j : forall b, chunks (k + j) b = chunks k b ++ chunks j (skipn (HS * k) b).
Proof.
  induction k as [|k IH]; intro b.
  - rewrite Nat.mul_0_r. reflexivity.
  - cbn [Nat.add chunks app]. f_equal. rewrite IH. f_equal. f_equal.
    rewrite skipn_skipn. f_equal. lia.
Qed.

Lemma chunks_ext k : forall a b, firstn (HS * k) a = firstn (HS * k) b -> chunks k a = chunks k b.
Proof.
  induction k as [|k IH]; intros a b H; [reflexivity|].
  cbn [chunks].
  replace (HS * S k) with (HS + HS * k) in H by lia.
  rewrite !firstn_add in H.
  assert (L : length (firstn HS a) = length (firstn HS b)).
  { apply (f_equal (@length _)) in H. rewrite !app_length, !firstn_length, !skipn_length in H.
    rewrite !firstn_length. lia. }
  apply app_eq_len in H; [|exact L].
  destruct H as [H1 H2]. rewrite H1. f_equal. apply IH. exact H2.
Qed.

Lemma chunks_app k j a b : length a = HS * k -> chunks (k + j) (a ++ b) = chunks k a ++ chunks j b.
Proof.
  intro L. rewrite chunks_add. f_equal.
  - apply chunks_ext. rewrite firstn_eq_app by exact L. rewrite firstn_all2 by lia. reflexivity.
  - rewrite skipn_eq_app by exact L. reflexivity.
Qed.

Lemma chunks_snoc k b : chunks (S k) b = chunks k b ++ [read b k].
Proof.
  replace (S k) with (k + 1) by lia. rewrite chunks_add. f_equal.
Qed.

Lemma concat_chunks k : forall b, HS * k <= length b -> concat (chunks k b) = firstn (HS * k) b.
Proof.
  induction k as [|k IH]; intros b H.
  - rewrite Nat.mul_0_r. reflexivity.
  - cbn [chunks concat]. replace (HS * S k) with (HS + HS * k) by lia.
    rewrite firstn_add. f_equal. apply IH. rewrite skipn_length. lia.
Qed.

Lemma chunks_concat hs : Forall (fun x : bytes => length x = HS) hs ->
  forall rest, chunks (length hs) (concat hs ++ rest) = hs.
Proof.
  induction 1 as [|x hs Hx _ IH]; intro rest; [reflexivity|].
  cbn [length chunks concat]. rewrite <- app_assoc.
  rewrite firstn_eq_app by exact Hx. rewrite skipn_eq_app by exact Hx. f_equal. apply IH.
Qed.

Lemma concat_length_HS hs : Forall (fun x : bytes => length x = HS) hs -> length (concat hs) = HS * length hs.
Proof.
  induction 1 as [|x hs Hx _ IH]; [cbn; lia|].
  cbn [concat length]. rewrite app_length, IH, Hx. lia.
Qed.

Lemma chunks_Forall_len k : forall b, HS * k <= length b -> Forall (fun x : bytes => length x = HS) (chunks k b).
Proof.
  induction k as [|k IH]; intros b H; [constructor|].
  cbn [chunks]. constructor.
  - rewrite firstn_length. lia.
  - apply IH. rewrite skipn_length. lia.
Qed.

(* ------------------------------------------------------------------------------------------ *)
(* write_at                                                                                   *)
(* ------------------------------------------------------------------------------------------ *)
Lemma write_at_inside off data iob : off <= length iob -> data <> [] ->
  write_at off data iob = firstn off iob ++ data ++ skipn (off + length data) iob.
Proof.
  intros H Hd. unfold write_at. destruct data as [|d r]; [congruence|].
  replace (off - length iob) with 0 by lia. reflexivity.
Qed.

Lemma write_at_length off data iob : data <> [] ->
  length (write_at off data iob) = Nat.max (length iob) (off + length data).
Proof.
  intro Hd. unfold write_at. destruct data as [|d r]; [congruence|].
  rewrite !app_length, firstn_length, repeat_length, skipn_length. lia.
Qed.

Lemma write_at_nil off iob : write_at off [] iob = iob.
Proof. reflexivity. Qed.

Lemma write_at_firstn off data iob : off <= length iob ->
  firstn off (write_at off data iob) = firstn off iob.
Proof.
  intro H. destruct data as [|d r] eqn:E; [reflexivity|]. rewrite <- E.
  rewrite write_at_inside by (subst; congruence || exact H).
  rewrite firstn_eq_app by (rewrite firstn_length; lia). reflexivity.
Qed.

(* the stored bytes: the batch sits at [off, off + length data) *)
Lemma write_at_read off data iob : off <= length iob -> data <> [] ->
  firstn (length data) (skipn off (write_at off data iob)) = data.
Proof.
  intros H Hd. rewrite write_at_inside by assumption.
  rewrite skipn_eq_app by (rewrite firstn_length; lia).
  apply firstn_eq_app. reflexivity.
Qed.

Lemma write_at_skipn off data iob : off <= length iob ->
  skipn (off + length data) (write_at off data iob) = skipn (off + length data) iob.
Proof.
  intro H. destruct data as [|d r] eqn:E; [reflexivity|]. rewrite <- E.
  rewrite write_at_inside by (subst; congruence || exact H).
  rewrite app_assoc. apply skipn_eq_app. rewrite app_length, firstn_length. lia.
Qed.

Lemma write_at_prefix off data iob : off <= length iob -> data <> [] ->
  firstn (off + length data) (write_at off data iob) = firstn off iob ++ data.
Proof.
  intros H Hd. rewrite write_at_inside by assumption.
  rewrite app_assoc. apply firstn_eq_app. rewrite app_length, firstn_length. lia.
Qed.

(* ------------------------------------------------------------------------------------------ *)
(* validation                                                                                 *)
(* ------------------------------------------------------------------------------------------ *)
Definition wf (s : st) : Prop := HS * hsize s <= length (io s).

(* the two headers below the next one after consuming hs *)
Fixpoint adv (pp p : option bytes) (hs : list bytes) : option bytes * option bytes :=
  match hs with [] => (pp, p) | x :: r => adv p (Some x) r end.

Lemma adv_app a : forall pp p b, adv pp p (a ++ b) = adv (fst (adv pp p a)) (snd (adv pp p a)) b.
Proof. induction a as [|x a IH]; intros pp p b; [reflexivity|]. cbn [app adv]. apply IH. Qed.

Lemma adv_snoc a x : forall pp p, adv pp p (a ++ [x]) = (snd (adv pp p a), Some x).
Proof. intros pp p. rewrite adv_app. reflexivity. Qed.

Lemma below_adv iob start : (below2 iob start, below1 iob start) = adv None None (chunks start iob).
Proof.
  destruct start as [|[|k]]; [reflexivity | reflexivity |].
  rewrite chunks_snoc, adv_snoc, chunks_snoc, adv_snoc. reflexivity.
Qed.

(* index form: the headers one and two below position k of a chain *)
Definition prev1 (hs : list bytes) (k : nat) : option bytes :=
  match k with O => None | S j => nth_error hs j end.
Definition prev2 (hs : list bytes) (k : nat) : option bytes :=
  match k with S (S j) => nth_error hs j | _ => None end.

Section Chain.
Variables sha256 sha512 rmd160 : bytes -> bytes.
Local Notation dsha := (dsha sha256).
Local Notation pow_value := (pow_value sha256 sha512 rmd160).
Local Notation check_header := (check_header sha256 sha512 rmd160).
Local Notation validate := (validate sha256 sha512 rmd160).
Local Notation connect := (connect sha256 sha512 rmd160).

(* the rules of validate_header, as a proposition *)
Definition header_rules (c : cfg) (pp p : option bytes) (x : bytes) : Prop :=
  match p with
  | None => match genesis c with Some g => dsha x = g | None => True end
  | Some pr =>
      h_prev x = dsha pr /\
      (validate_difficulty c = true ->
       h_bits x = compact (next_target (max_target c) pp p) /\
       (pow_value x <= from_compact (h_bits x))%N)
  end.

Lemma check_header_rules c pp p x : check_header c pp p x = None <-> header_rules c pp p x.
Proof.
  unfold check_header, header_rules. destruct p as [pr|].
  - destruct (bytes_eqb (h_prev x) (dsha pr)) eqn:E1; cbn [negb].
    + apply bytes_eqb_eq in E1. destruct (validate_difficulty c).
      * destruct (N.eqb (h_bits x) (compact (next_target (max_target c) pp (Some pr)))) eqn:E2; cbn [negb].
        -- apply N.eqb_eq in E2.
           destruct (N.ltb (from_compact (h_bits x)) (pow_value x)) eqn:E3.
           ++ apply N.ltb_lt in E3. split; [discriminate|]. intros [_ H]. destruct (H eq_refl) as [_ H']. lia.
           ++ apply N.ltb_ge in E3. split; auto.
        -- apply N.eqb_neq in E2. split; [discriminate|]. intros [_ H]. destruct (H eq_refl) as [H' _]. congruence.
      * split; auto. intros _. split; [exact E1 | discriminate].
    + apply bytes_eqb_neq in E1. split; [discriminate|]. intros [H _]. congruence.
  - destruct (genesis c) as [g|]; [|tauto].
    destruct (bytes_eqb (dsha x) g) eqn:E.
    + apply bytes_eqb_eq in E. tauto.
    + apply bytes_eqb_neq in E. split; [discriminate | congruence].
Qed.

Lemma validate_app c a : forall pp p b,
  validate c pp p (a ++ b) =
  match validate c pp p a with
  | Some e => Some e
  | None => validate c (fst (adv pp p a)) (snd (adv pp p a)) b
  end.
Proof.
  induction a as [|x a IH]; intros pp p b; [reflexivity|].
  cbn [app validate adv]. destruct (check_header c pp p x); [reflexivity | apply IH].
Qed.

Definition valid_chain (c : cfg) (hs : list bytes) : Prop := validate c None None hs = None.

(* every header of the chain obeys the rules relative to the two headers below it *)
Definition chain_rules (c : cfg) (hs : list bytes) : Prop :=
  forall k x, nth_error hs k = Some x -> header_rules c (prev2 hs k) (prev1 hs k) x.

Lemma validate_rules c hs : forall pp p,
  validate c pp p hs = None <->
  (forall k x, nth_error hs k = Some x ->
     header_rules c (match k with O => pp | S O => p | S (S j) => nth_error hs j end)
                    (match k with O => p | S j => nth_error hs j end) x).
Proof.
  induction hs as [|y r IH]; intros pp p.
  - split; [|reflexivity]. intros _ k x H. destruct k; discriminate.
  - cbn [validate]. destruct (check_header c pp p y) eqn:E.
    + split; [discriminate|]. intro H. specialize (H 0 y eq_refl). apply check_header_rules in H. congruence.
    + rewrite IH. apply check_header_rules in E. split.
      * intros H k x Hk. destruct k as [|k]; [cbn in Hk; inversion Hk; subst; exact E|].
        cbn [nth_error] in Hk. specialize (H k x Hk).
        destruct k as [|[|j]]; exact H.
      * intros H k x Hk. specialize (H (S k) x Hk).
        destruct k as [|[|j]]; exact H.
Qed.

Lemma valid_chain_rules c hs : valid_chain c hs <-> chain_rules c hs.
Proof.
  unfold valid_chain, chain_rules. rewrite validate_rules. split; intros H k x Hk; specialize (H k x Hk).
  - destruct k as [|[|j]]; exact H.
  - destruct k as [|[|j]]; exact H.
Qed.

Lemma valid_chain_app c a b :
  valid_chain c (a ++ b) <->
  valid_chain c a /\ validate c (fst (adv None None a)) (snd (adv None None a)) b = None.
Proof.
  unfold valid_chain. rewrite validate_app. destruct (validate c None None a); split.
  - discriminate. - intros [H _]; discriminate. - auto. - intros [_ H]; exact H.
Qed.

Lemma valid_chain_prefix c k j iob : k <= j -> valid_chain c (chunks j iob) -> valid_chain c (chunks k iob).
Proof.
  intros H V. replace j with (k + (j - k)) in V by lia. rewrite chunks_add in V.
  apply valid_chain_app in V. tauto.
Qed.

(* the headers a batch is judged against are the last two of the chain below `start` *)
Lemma valid_extension c iob start hs :
  valid_chain c (chunks start iob) ->
  validate c (below2 iob start) (below1 iob start) hs = None ->
  valid_chain c (chunks start iob ++ hs).
Proof.
  intros V H. apply valid_chain_app. split; [exact V|].
  rewrite <- below_adv. exact H.
Qed.

Lemma valid_extension_inv c iob start hs :
  valid_chain c (chunks start iob ++ hs) ->
  validate c (below2 iob start) (below1 iob start) hs = None.
Proof.
  intros V. apply valid_chain_app in V. destruct V as [_ V].
  rewrite <- below_adv in V. exact V.
Qed.

(* ------------------------------------------------------------------------------------------ *)
(* connect                                                                                    *)
(* ------------------------------------------------------------------------------------------ *)
Definition stored (r : cres) : bool := match r with COk (S _) => true | _ => false end.

Lemma connect_cases c s start batch s' r : connect c s start batch = (s', r) ->
  (exists n, r = COk (S n) /\ length batch = HS * S n /\ start <= hsize s /\
     validate c (below2 (io s) start) (below1 (io s) start) (chunks (S n) batch) = None /\
     s' = connect_write s start batch)
  \/ (s' = s /\ stored r = false).
Proof.
  unfold connect. remember (length batch / HS) as q eqn:En. intro H.
  destruct (Nat.eqb (length batch mod HS) 0) eqn:Em; cbn [negb] in H.
  2:{ inversion H; subst. right. auto. }
  destruct (Nat.ltb (hsize s) start) eqn:El.
  { inversion H; subst. right. auto. }
  destruct (validate c (below2 (io s) start) (below1 (io s) start) (chunks q batch)) eqn:Ev.
  { inversion H; subst. right. auto. }
  destruct batch as [|b0 br] eqn:Eb.
  { inversion H; subst. right. auto. }
  rewrite <- Eb in *. inversion H; subst s' r. clear H.
  apply Nat.eqb_eq in Em. apply Nat.ltb_ge in El.
  assert (Hl : length batch <> 0) by (subst batch; cbn; lia).
  destruct q as [|n].
  { exfalso. clear Ev. euc. }
  left. exists n. split; [reflexivity|]. split; [clear Ev; euc|]. auto.
Qed.

Lemma connect_accepts c s start batch n :
  length batch = HS * S n -> start <= hsize s ->
  validate c (below2 (io s) start) (below1 (io s) start) (chunks (S n) batch) = None ->
  connect c s start batch = (connect_write s start batch, COk (S n)).
Proof.
  intros L Hs V. unfold connect.
  assert (Em : length batch mod HS = 0) by (rewrite L, Nat.mul_comm; apply Nat.mod_mul; unfold HS; lia).
  assert (En : length batch / HS = S n) by (rewrite L, Nat.mul_comm; apply Nat.div_mul; unfold HS; lia).
  rewrite Em. cbn [Nat.eqb negb].
  destruct (Nat.ltb (hsize s) start) eqn:El; [apply Nat.ltb_lt in El; lia|].
  rewrite En, V.
  destruct batch as [|b0 br]; [cbn in L; unfold HS in L; lia | reflexivity].
Qed.

Lemma connect_write_spec s start batch n : wf s -> start <= hsize s -> length batch = HS * S n ->
  let s' := connect_write s start batch in
  io s' = firstn (HS * start) (io s) ++ batch
  /\ hsize s' = start + S n
  /\ length (io s') = HS * hsize s'
  /\ missing s' = missing s
  /\ chunks (start + S n) (io s') = chunks start (io s) ++ chunks (S n) batch.
Proof.
  intros W Hs L. unfold wf in W. cbn zeta.
  assert (Hoff : HS * start <= length (io s)) by (unfold HS in *; nia).
  assert (Hne : batch <> []) by (intro E; subst; cbn in L; unfold HS in L; lia).
  assert (Hsz : (HS * start + length batch) / HS = start + S n).
  { rewrite L. replace (HS * start + HS * S n) with ((start + S n) * HS) by lia.
    apply Nat.div_mul. unfold HS; lia. }
  assert (Hio : io (connect_write s start batch) = firstn (HS * start) (io s) ++ batch).
  { unfold connect_write, do_write; cbn [io]. apply write_at_prefix; assumption. }
  split; [exact Hio|]. split; [unfold connect_write; cbn [hsize]; exact Hsz|].
  split; [|split; [reflexivity|]].
  - rewrite Hio. unfold connect_write; cbn [hsize]. rewrite Hsz, app_length, firstn_length, L. lia.
  - rewrite Hio. rewrite chunks_app by (rewrite firstn_length; lia). f_equal.
    apply chunks_ext. rewrite firstn_firstn_le by lia. reflexivity.
Qed.

(* ------------------------------------------------------------------------------------------ *)
(* the chain invariant over every sequence of connect calls                                   *)
(* ------------------------------------------------------------------------------------------ *)
Definition cinv (c : cfg) (s : st) : Prop := wf s /\ valid_chain c (chunks (hsize s) (io s)).

Lemma connect_inv c s start batch : cinv c s -> cinv c (fst (connect c s start batch)).
Proof.
  intros [W V]. destruct (connect c s start batch) as [s' r] eqn:E. cbn [fst].
  apply connect_cases in E. destruct E as [(n & -> & L & Hs & Val & ->) | [-> _]]; [|split; assumption].
  destruct (connect_write_spec s start batch n W Hs L) as (_ & Hsz & Hlen & _ & Hc).
  split; [unfold wf; lia|].
  rewrite Hsz, Hc. apply valid_extension; [|exact Val].
  apply (valid_chain_prefix c start (hsize s)); assumption.
Qed.

Definition run_connects (c : cfg) (s : st) (ops : list (nat * bytes)) : st :=
  fold_left (fun s op => fst (connect c s (fst op) (snd op))) ops s.

Theorem chain_invariant c ops : forall s, cinv c s -> cinv c (run_connects c s ops).
Proof.
  induction ops as [|op ops IH]; intros s H; [exact H|].
  cbn [run_connects fold_left]. apply IH. apply connect_inv. exact H.
Qed.

Lemma cinv_empty c : cinv c (mkSt [] 0 []).
Proof. split; [unfold wf; cbn; lia | reflexivity]. Qed.

(* all-or-nothing *)
Theorem connect_all_or_nothing c s start batch s' r : wf s -> connect c s start batch = (s', r) ->
  (stored r = true ->
     exists n, r = COk n /\ length batch = HS * n /\ 0 < n /\ start <= hsize s /\
       io s' = firstn (HS * start) (io s) ++ batch /\ hsize s' = start + n /\ missing s' = missing s /\
       validate c (below2 (io s) start) (below1 (io s) start) (chunks n batch) = None) /\
  (stored r = false -> s' = s).
Proof.
  intros W E. apply connect_cases in E. destruct E as [(n & -> & L & Hs & Val & ->) | [-> Hr]].
  - destruct (connect_write_spec s start batch n W Hs L) as (Hio & Hsz & _ & Hm & _).
    split.
    + intros _. exists (S n). repeat split; try assumption; lia.
    + discriminate.
  - split; [intro H; congruence | reflexivity].
Qed.
(* ---- statement forms used in Props ---- *)
Definition stored_chain (s : st) : list bytes := chunks (hsize s) (io s).

Theorem chain_invariant_rules c ops s :
  wf s -> chain_rules c (stored_chain s) ->
  let s' := run_connects c s ops in
  wf s' /\ chain_rules c (stored_chain s').
Proof.
  intros W R. apply valid_chain_rules in R.
  destruct (chain_invariant c ops s (conj W R)) as [W' V'].
  split; [exact W'|]. apply valid_chain_rules. exact V'.
Qed.

Theorem connect_valid_accepted c s start batch n :
  wf s -> length batch = HS * S n -> start <= hsize s ->
  chain_rules c (chunks start (io s) ++ chunks (S n) batch) ->
  connect c s start batch = (connect_write s start batch, COk (S n)).
Proof.
  intros W L Hs R. apply connect_accepts; try assumption.
  apply valid_chain_rules in R. apply valid_extension_inv in R. exact R.
Qed.

(* an accepted batch, together with what lies below it, obeys the rules provided the part below does *)
Theorem connect_accepted_valid c s start batch s' n :
  wf s -> connect c s start batch = (s', COk (S n)) ->
  chain_rules c (chunks start (io s)) ->
  chain_rules c (stored_chain s') /\
  stored_chain s' = chunks start (io s) ++ chunks (S n) batch.
Proof.
  intros W E R. apply connect_cases in E.
  destruct E as [(m & Hr & L & Hs & Val & ->) | [_ Hr]]; [|discriminate].
  inversion Hr; subst m. clear Hr.
  destruct (connect_write_spec s start batch n W Hs L) as (_ & Hsz & _ & _ & Hc).
  unfold stored_chain. rewrite Hsz, Hc. split; [|reflexivity].
  apply valid_chain_rules. apply valid_extension; [|exact Val].
  apply valid_chain_rules. exact R.
Qed.

(* ------------------------------------------------------------------------------------------ *)
(* connecting a batch in pieces = connecting it whole                                         *)
(* ------------------------------------------------------------------------------------------ *)
Lemma st_eq (a b : st) : io a = io b -> hsize a = hsize b -> missing a = missing b -> a = b.
Proof. destruct a, b; cbn; intros; subst; reflexivity. Qed.

Lemma below_after_write s start a na : wf s -> start <= hsize s -> length a = HS * S na ->
  let s1 := connect_write s start a in
  (below2 (io s1) (start + S na), below1 (io s1) (start + S na)) =
  adv (below2 (io s) start) (below1 (io s) start) (chunks (S na) a).
Proof.
  intros W Hs L. cbn zeta.
  destruct (connect_write_spec s start a na W Hs L) as (_ & _ & _ & _ & Hc).
  rewrite below_adv, Hc, adv_app, <- below_adv. reflexivity.
Qed.

Lemma connect_write_twice s start a b na nb : wf s -> start <= hsize s ->
  length a = HS * S na -> length b = HS * S nb ->
  connect_write (connect_write s start a) (start + S na) b = connect_write s start (a ++ b).
Proof.
  intros W Hs La Lb.
  destruct (connect_write_spec s start a na W Hs La) as (Hio1 & Hsz1 & Hlen1 & Hm1 & _).
  assert (W1 : wf (connect_write s start a)) by (unfold wf; lia).
  assert (Lab : length (a ++ b) = HS * S (na + S nb)) by (rewrite app_length, La, Lb; lia).
  destruct (connect_write_spec (connect_write s start a) (start + S na) b nb W1 ltac:(lia) Lb)
    as (Hio2 & Hsz2 & _ & Hm2 & _).
  destruct (connect_write_spec s start (a ++ b) (na + S nb) W Hs Lab) as (Hio & Hsz & _ & Hm & _).
  apply st_eq.
  - rewrite Hio2, Hio, Hio1. rewrite firstn_all2; [rewrite app_assoc; reflexivity|].
    rewrite app_length, firstn_length, La. unfold wf in W. unfold HS in *. lia.
  - lia.
  - congruence.
Qed.

Theorem split_batches c s start a b na nb :
  wf s -> length a = HS * S na -> length b = HS * S nb ->
  forall s2,
  (connect c s start (a ++ b) = (s2, COk (S na + S nb)) <->
   exists s1, connect c s start a = (s1, COk (S na)) /\ connect c s1 (start + S na) b = (s2, COk (S nb))).
Proof.
  intros W La Lb s2.
  assert (Lab : length (a ++ b) = HS * S (na + S nb)) by (rewrite app_length, La, Lb; lia).
  assert (Hch : chunks (S (na + S nb)) (a ++ b) = chunks (S na) a ++ chunks (S nb) b).
  { replace (S (na + S nb)) with (S na + S nb) by lia. apply chunks_app. exact La. }
  split.
  - intro E. apply connect_cases in E. destruct E as [(n & Hr & L & Hs & Val & ->) | [_ Hr]]; [|discriminate].
    assert (n = na + S nb) by (inversion Hr; lia). subst n. clear Hr.
    rewrite Hch, validate_app in Val.
    destruct (validate c (below2 (io s) start) (below1 (io s) start) (chunks (S na) a)) eqn:Va; [discriminate|].
    exists (connect_write s start a). split; [apply connect_accepts; assumption|].
    destruct (connect_write_spec s start a na W Hs La) as (_ & Hsz1 & Hlen1 & _ & _).
    rewrite <- (connect_write_twice s start a b na nb W Hs La Lb).
    apply connect_accepts; [exact Lb | lia |].
    pose proof (below_after_write s start a na W Hs La) as Hb. cbn zeta in Hb.
    apply (f_equal fst) in Hb as Hb2. apply (f_equal snd) in Hb as Hb1. cbn [fst snd] in Hb1, Hb2.
    rewrite Hb1, Hb2. exact Val.
  - intros (s1 & E1 & E2).
    apply connect_cases in E1. destruct E1 as [(n & Hr & _ & Hs & Va & ->) | [_ Hr]]; [|discriminate].
    assert (n = na) by (inversion Hr; lia). subst n. clear Hr.
    apply connect_cases in E2. destruct E2 as [(n & Hr & _ & _ & Vb & ->) | [_ Hr]]; [|discriminate].
    assert (n = nb) by (inversion Hr; lia). subst n. clear Hr.
    rewrite (connect_write_twice s start a b na nb W Hs La Lb).
    replace (S na + S nb) with (S (na + S nb)) by lia.
    apply connect_accepts; [exact Lab | exact Hs |].
    rewrite Hch, validate_app, Va.
    pose proof (below_after_write s start a na W Hs La) as Hb. cbn zeta in Hb.
    apply (f_equal fst) in Hb as Hb2. apply (f_equal snd) in Hb as Hb1. cbn [fst snd] in Hb1, Hb2.
    rewrite <- Hb1, <- Hb2. exact Vb.
Qed.

End Chain.

(* ------------------------------------------------------------------------------------------ *)
(* repair / open                                                                              *)
(* ------------------------------------------------------------------------------------------ *)
Lemma chunks_skipn_list a m b : skipn a (chunks (a + m) b) = chunks m (skipn (HS * a) b).
Proof. rewrite chunks_add. apply skipn_eq_app. apply chunks_length. Qed.

Lemma chunks_firstn_list j k b : j <= k -> firstn j (chunks k b) = chunks j b.
Proof.
  intro H. replace k with (j + (k - j)) by lia. rewrite chunks_add.
  apply firstn_eq_app. apply chunks_length.
Qed.

Lemma chunks_of_firstn j b : chunks j (firstn (HS * j) b) = chunks j b.
Proof. apply chunks_ext. rewrite firstn_firstn_le by lia. reflexivity. Qed.

Lemma visited_end_tight start sz : visited_end start sz sz = Nat.max start sz.
Proof.
  unfold visited_end. destruct (Nat.ltb start sz) eqn:E.
  - apply Nat.ltb_lt in E. euc.
  - apply Nat.ltb_ge in E. lia.
Qed.

Lemma nth_error_skipn {A} (a j : nat) (l : list A) : nth_error (skipn a l) j = nth_error l (a + j).
Proof.
  revert l. induction a as [|a IH]; intro l; [reflexivity|].
  destruct l as [|x l]; [destruct j; reflexivity|]. cbn [skipn Nat.add nth_error]. apply IH.
Qed.

Definition tight (s : st) : Prop := hsize s = length (io s) / HS.

Lemma tight_wf s : tight s -> wf s.
Proof. unfold tight, wf. intro H. rewrite H. euc. Qed.

Section Repair.
Variable sha256 : bytes -> bytes.
Local Notation dsha := (dsha sha256).
Local Notation scan := (scan sha256).
Local Notation repair := (repair_links sha256).
Local Notation links_fail := (links_fail sha256).
Local Notation repair_genesis_ok := (repair_genesis_ok sha256).

(* ------------------------------------------------------------------------------------------ *)
(* checkpointed chunks                                                                        *)
(* ------------------------------------------------------------------------------------------ *)
Theorem checkpoint_only c s height chunk s' r :
  fetch_chunk sha256 c s height chunk = (s', r) ->
  (r = FStored <-> lookup (chunk_start height) (checkpoints c) = Some (dsha chunk)) /\
  (r <> FStored -> s' = s) /\
  (r = FStored -> io s' = write_at (HS * chunk_start height) chunk (io s)).
Proof.
  unfold fetch_chunk. destruct (lookup (chunk_start height) (checkpoints c)) as [e|] eqn:El.
  - destruct (bytes_eqb (dsha chunk) e) eqn:Eb; intro H; inversion H; subst; clear H.
    + apply bytes_eqb_eq in Eb. subst e. split; [tauto|]. split; [congruence|]. intros _. reflexivity.
    + apply bytes_eqb_neq in Eb. split; [|split; [reflexivity | discriminate]].
      split; [discriminate|]. intro H. inversion H. congruence.
  - intro H; inversion H; subst; clear H. split; [|split; [reflexivity | discriminate]].
    split; discriminate.
Qed.

Theorem ensure_chunk_only c s height chunk s' r :
  ensure_chunk_at sha256 c s height chunk = (s', r) ->
  s' <> s -> lookup (chunk_start height) (checkpoints c) = Some (dsha chunk).
Proof.
  unfold ensure_chunk_at. destruct (has_header sha256 c s height).
  - intro H; inversion H; subst. congruence.
  - intros H Hne. destruct (checkpoint_only c s height chunk s' r H) as (H1 & H2 & _).
    destruct r; try (exfalso; apply Hne; apply H2; discriminate). apply H1. reflexivity.
Qed.

(* each header's prev field is the hash of the header before it *)
Fixpoint links (prev : bytes) (hs : list bytes) : Prop :=
  match hs with [] => True | x :: r => h_prev x = dsha prev /\ links x r end.
Definition linked (l : list bytes) : Prop := match l with [] => True | x :: r => links x r end.

Lemma links_firstn j : forall p l, links p l -> links p (firstn j l).
Proof.
  induction j as [|j IH]; intros p l H; [exact I|].
  destruct l as [|x r]; [exact I|]. cbn [firstn links] in *. destruct H as [H1 H2]. split; [exact H1 | apply IH; exact H2].
Qed.

Lemma linked_firstn j l : linked l -> linked (firstn j l).
Proof.
  destruct l as [|x r]; [destruct j; auto|]. destruct j as [|j]; [exact (fun _ => I)|].
  cbn [firstn linked]. apply links_firstn.
Qed.

(* index form *)
Lemma links_nth p l : links p l ->
  forall i a b, nth_error (p :: l) i = Some a -> nth_error l i = Some b -> h_prev b = dsha a.
Proof.
  revert p. induction l as [|x r IH]; intros p H i a b Ha Hb; [destruct i; discriminate|].
  destruct H as [H1 H2]. destruct i as [|i].
  - cbn in Ha, Hb. inversion Ha; inversion Hb; subst. exact H1.
  - cbn [nth_error] in Ha, Hb. apply (IH x H2 i a b Ha Hb).
Qed.

Lemma linked_nth l : linked l ->
  forall i a b, nth_error l i = Some a -> nth_error l (S i) = Some b -> h_prev b = dsha a.
Proof.
  destruct l as [|x r]; intros H i a b Ha Hb; [destruct i; discriminate|].
  apply (links_nth x r H i a b Ha Hb).
Qed.

Lemma nth_linked l :
  (forall i a b, nth_error l i = Some a -> nth_error l (S i) = Some b -> h_prev b = dsha a) -> linked l.
Proof.
  destruct l as [|x r]; [exact (fun _ => I)|]. cbn [linked]. revert x.
  induction r as [|y r IH]; intros x H; [exact I|].
  split; [apply (H 0 x y); reflexivity|]. apply IH. intros i a b Ha Hb. apply (H (S i) a b); assumption.
Qed.

Lemma linked_iff l :
  linked l <->
  (forall i a b, nth_error l i = Some a -> nth_error l (S i) = Some b -> h_prev b = dsha a).
Proof. split; [apply linked_nth | apply nth_linked]. Qed.

Lemma scan_spec hs : forall prev h,
  match scan prev h hs with
  | None => links prev hs
  | Some k => exists i, k = h + i /\ i < length hs /\ links prev (firstn i hs) /\ ~ links prev (firstn (S i) hs)
  end.
Proof.
  induction hs as [|x r IH]; intros prev h; [exact I|].
  cbn [scan]. destruct (bytes_eqb (h_prev x) (dsha prev)) eqn:E.
  - apply bytes_eqb_eq in E. specialize (IH x (S h)). destruct (scan x (S h) r) as [k|].
    + destruct IH as (i & -> & Hi & L1 & L2). exists (S i). cbn [length firstn links].
      split; [lia|]. split; [lia|]. split; [split; assumption|]. intros [_ H]. apply L2. exact H.
    + split; assumption.
  - apply bytes_eqb_neq in E. exists 0. cbn [length firstn links]. split; [lia|]. split; [lia|].
    split; [exact I|]. intros [H _]. contradiction.
Qed.

(* the first broken link, in index form *)
Lemma first_break p l i : links p (firstn i l) -> ~ links p (firstn (S i) l) -> i < length l ->
  exists a b, nth_error (p :: l) i = Some a /\ nth_error l i = Some b /\ h_prev b <> dsha a.
Proof.
  revert p l. induction i as [|i IH]; intros p l H1 H2 Hi.
  - destruct l as [|x r]; [cbn in Hi; lia|]. exists p, x. cbn [firstn links] in H2.
    repeat split; try reflexivity. intro E. apply H2. split; [exact E | exact I].
  - destruct l as [|x r]; [cbn in Hi; lia|]. cbn [firstn links length] in *.
    destruct H1 as [E H1]. destruct (IH x r H1) as (a & b & Ha & Hb & Hne); [tauto | lia |].
    exists a, b. cbn [nth_error]. auto.
Qed.

Lemma repair_hs s start : tight s ->
  chunks (visited_end start (hsize s) (length (io s) / HS) - start) (skipn (HS * start) (io s))
  = skipn start (stored_chain s).
Proof.
  intro T. unfold tight in T. rewrite <- T. rewrite visited_end_tight. unfold stored_chain.
  destruct (Nat.le_gt_cases (hsize s) start) as [H|H].
  - replace (Nat.max start (hsize s) - start) with 0 by lia.
    rewrite (@skipn_all2 _ start (chunks (hsize s) (io s))) by (rewrite chunks_length; lia). reflexivity.
  - replace (Nat.max start (hsize s) - start) with (hsize s - start) by lia.
    rewrite <- chunks_skipn_list. f_equal. f_equal. lia.
Qed.

(* What repair does, completely: either nothing -- then everything from `start` upwards links (and for
   start = 0 height 0 is the genesis block) -- or it cuts the chain at k-1 where k is the first height
   whose link to its predecessor is broken (k = 0: the genesis test failed). *)
Theorem repair_spec c s start : tight s ->
  let s' := repair c s start in
  let H := stored_chain s in
  (links_fail c s start = None /\ s' = s /\ linked (skipn start H) /\
     (start = 0 -> forall x, nth_error H 0 = Some x -> repair_genesis_ok c x = true))
  \/ (exists k, links_fail c s start = Some k /\ k < length H /\
        io s' = firstn (HS * (k - 1)) (io s) /\ hsize s' = k - 1 /\ missing s' = missing s /\
        stored_chain s' = firstn (k - 1) H /\ tight s' /\
        linked (skipn start (firstn k H)) /\
        (start = 0 -> 0 < k -> forall x, nth_error H 0 = Some x -> repair_genesis_ok c x = true) /\
        ((k = 0 /\ start = 0 /\ exists x, nth_error H 0 = Some x /\ repair_genesis_ok c x = false)
         \/ (start < k /\ exists x y, nth_error H (k - 1) = Some x /\ nth_error H k = Some y /\
                                      h_prev y <> dsha x))).
Proof.
  intro T. cbn zeta. unfold repair_links, C07.links_fail. rewrite (repair_hs s start T).
  pose proof (tight_wf s T) as W. unfold wf in W.
  assert (LH : length (stored_chain s) = hsize s) by apply chunks_length.
  destruct (skipn start (stored_chain s)) as [|x r] eqn:Es.
  { left. cbn [repair_fail]. split; [reflexivity|]. split; [reflexivity|]. split; [exact I|].
    intros -> y Hy. cbn [skipn] in Es. rewrite Es in Hy. discriminate. }
  assert (Lx : length (stored_chain s) = start + S (length r)).
  { apply (f_equal (@length _)) in Es. rewrite skipn_length in Es. cbn [length] in Es. lia. }
  assert (Hnth : forall j, nth_error (x :: r) j = nth_error (stored_chain s) (start + j)).
  { intro j. rewrite <- Es. apply nth_error_skipn. }
  (* facts about a cut at k-1 < hsize *)
  assert (Cut : forall k, k < length (stored_chain s) ->
     let io' := firstn (HS * (k - 1)) (io s) in
     length io' / HS = k - 1 /\ chunks (k - 1) io' = firstn (k - 1) (stored_chain s)).
  { intros k Hk. cbn zeta. split.
    - rewrite firstn_length. replace (Nat.min (HS * (k - 1)) (length (io s))) with ((k - 1) * HS) by (unfold HS in *; lia).
      apply Nat.div_mul. unfold HS; lia.
    - rewrite chunks_of_firstn. unfold stored_chain. rewrite chunks_firstn_list by lia. reflexivity. }
  cbn [repair_fail].
  destruct (Nat.eqb start 0 && negb (repair_genesis_ok c x)) eqn:Eg.
  - apply andb_true_iff in Eg as [E0 Eg]. apply Nat.eqb_eq in E0. subst start.
    apply negb_true_iff in Eg.
    right. exists 0. destruct (Cut 0 ltac:(lia)) as [C1 C2]. cbn [Nat.sub] in *.
    split; [reflexivity|]. split; [lia|]. cbn [io hsize missing]. split; [reflexivity|]. split; [exact C1|]. split; [reflexivity|].
    split; [unfold stored_chain; cbn [io hsize]; rewrite C1; exact C2|].
    split; [unfold tight; cbn [io hsize]; reflexivity|].
    split; [exact I|]. split; [intros _ Hk; lia|]. left. split; [reflexivity|]. split; [reflexivity|].
    exists x. split; [|exact Eg]. pose proof (Hnth 0) as Hn. change (0 + 0) with 0 in Hn. rewrite <- Hn. reflexivity.
  - pose proof (scan_spec r x (S start)) as Hsc. destruct (scan x (S start) r) as [k|].
    + destruct Hsc as (i & -> & Hi & L1 & L2).
      right. exists (S start + i). destruct (Cut (S start + i) ltac:(lia)) as [C1 C2].
      replace (S start + i - 1) with (start + i) in * by lia.
      split; [reflexivity|]. split; [lia|]. cbn [io hsize missing]. split; [reflexivity|]. split; [exact C1|]. split; [reflexivity|].
      split; [unfold stored_chain; cbn [io hsize]; rewrite C1; exact C2|].
      split; [unfold tight; cbn [io hsize]; reflexivity|].
      split; [|split].
      * rewrite skipn_firstn_comm, Es. replace (S start + i - start) with (S i) by lia.
        cbn [firstn linked]. exact L1.
      * intros -> _ y Hy. cbn [Nat.eqb andb] in Eg. apply negb_false_iff in Eg.
        pose proof (Hnth 0) as Hn. change (0 + 0) with 0 in Hn. rewrite <- Hn in Hy. cbn [nth_error] in Hy.
        inversion Hy; subst. exact Eg.
      * right. split; [lia|].
        destruct (first_break x r i L1 L2 Hi) as (a & b & Ha & Hb & Hne).
        exists a, b. rewrite (Hnth i) in Ha. split; [exact Ha|]. split; [|exact Hne].
        rewrite <- Hb. change (nth_error r i) with (nth_error (x :: r) (S i)). rewrite Hnth. f_equal. lia.
    + left. split; [reflexivity|]. split; [reflexivity|]. split; [exact Hsc|].
      intros -> y Hy. cbn [Nat.eqb andb] in Eg. apply negb_false_iff in Eg.
      pose proof (Hnth 0) as Hn. change (0 + 0) with 0 in Hn. rewrite <- Hn in Hy. cbn [nth_error] in Hy. inversion Hy; subst. exact Eg.
Qed.

(* ---- open() = load the file, repair ---- *)
Definition open_start (c : cfg) (file : bytes) : nat :=
  if Nat.eqb (length file mod HS) 0 then repair_start c else 0.

(* open() up to the link scan *)
Definition load_links (c : cfg) (file : bytes) : st :=
  repair c (mkSt file (length file / HS) []) (open_start c file).
Lemma load_repair_eq c file :
  load_links c file = repair c (mkSt file (length file / HS) []) (open_start c file).
Proof. reflexivity. Qed.

Lemma nth_error_firstn_some {A} j (l : list A) i x : nth_error (firstn j l) i = Some x -> nth_error l i = Some x.
Proof.
  revert l i. induction j as [|j IH]; intros l i H; [destruct i; discriminate|].
  destruct l as [|y l]; [destruct i; discriminate|]. destruct i as [|i]; [exact H|].
  cbn [firstn nth_error] in *. apply IH. exact H.
Qed.

Lemma nth_error_firstn_lt {A} j (l : list A) i : i < j -> nth_error (firstn j l) i = nth_error l i.
Proof.
  revert l i. induction j as [|j IH]; intros l i H; [lia|].
  destruct l as [|y l]; [reflexivity|]. destruct i as [|i]; [reflexivity|].
  cbn [firstn nth_error]. apply IH. lia.
Qed.

(* open() on ANY file content: the loaded chain is a prefix of the file, in whole headers unless nothing
   was cut, and links from the height where the check starts; with the check starting at 0 its first
   header is the genesis block *)
Theorem open_linked_prefix_links c file :
  let s := load_links c file in
  let H := chunks (length file / HS) file in
  io s = firstn (length (io s)) file /\
  (io s = file \/ length (io s) = HS * hsize s) /\
  tight s /\ hsize s <= length file / HS /\ missing s = [] /\
  stored_chain s = firstn (hsize s) H /\
  linked (skipn (open_start c file) (stored_chain s)) /\
  (open_start c file = 0 -> forall x, nth_error (stored_chain s) 0 = Some x -> repair_genesis_ok c x = true).
Proof.
  cbn zeta. rewrite load_repair_eq.
  set (s0 := mkSt file (length file / HS) []).
  assert (T : tight s0) by reflexivity.
  assert (H0 : stored_chain s0 = chunks (length file / HS) file) by reflexivity.
  assert (LH : length (chunks (length file / HS) file) = length file / HS) by apply chunks_length.
  destruct (repair_spec c s0 (open_start c file) T) as [(_ & -> & L & G) | (k & _ & Hk & Hio & Hsz & Hm & Hsc & T' & L & G & _)].
  - cbn [io hsize missing s0]. rewrite firstn_all. rewrite H0 in *.
    repeat split; auto. rewrite firstn_all2 by lia. reflexivity.
  - rewrite H0 in *. rewrite LH in Hk. cbn [io s0] in Hio.
    assert (Hl : length (io (repair c s0 (open_start c file))) = HS * (k - 1)).
    { rewrite Hio, firstn_length. assert (HS * (length file / HS) <= length file) by euc. unfold HS in *. lia. }
    rewrite Hsz, Hsc, Hm. split; [rewrite Hl; exact Hio|]. split; [right; exact Hl|].
    split; [exact T'|]. split; [lia|]. split; [reflexivity|]. split; [reflexivity|]. split.
    + replace (firstn (k - 1) (chunks (length file / HS) file))
        with (firstn (k - 1) (firstn k (chunks (length file / HS) file))) by (apply firstn_firstn_le; lia).
      rewrite skipn_firstn_comm. apply linked_firstn. exact L.
    + intros E x Hx. destruct k as [|k]; [change (0 - 1) with 0 in Hx; cbn [firstn nth_error] in Hx; discriminate|].
      apply (G E ltac:(lia) x). apply nth_error_firstn_some in Hx. exact Hx.
Qed.

(* the part of repair_spec that says how much is dropped *)
Theorem open_drops_links c file :
  let s := load_links c file in
  let H := chunks (length file / HS) file in
  let start := open_start c file in
  (io s = file /\ hsize s = length file / HS)
  \/ (exists k, k < length H /\ hsize s = k - 1 /\ io s = firstn (HS * (k - 1)) file /\
        linked (skipn start (firstn k H)) /\
        ((k = 0 /\ start = 0 /\ exists x, nth_error H 0 = Some x /\ repair_genesis_ok c x = false)
         \/ (start < k /\ exists x y, nth_error H (k - 1) = Some x /\ nth_error H k = Some y /\
                                      h_prev y <> dsha x))).
Proof.
  cbn zeta. rewrite load_repair_eq.
  set (s0 := mkSt file (length file / HS) []).
  assert (T : tight s0) by reflexivity.
  destruct (repair_spec c s0 (open_start c file) T) as [(_ & -> & _) | (k & _ & Hk & Hio & Hsz & _ & _ & _ & L & _ & B)].
  - left. split; reflexivity.
  - right. exists k. auto.
Qed.

Lemma linked_skipn j l : linked l -> linked (skipn j l).
Proof.
  intro H. apply nth_linked. intros i a b Ha Hb. rewrite nth_error_skipn in Ha, Hb.
  apply (linked_nth l H (j + i) a b Ha). rewrite <- Hb. f_equal. lia.
Qed.

(* a stored chain that links (and starts with the genesis block), cut at ANY byte offset m: exactly the
   m / 112 whole headers are loaded, i.e. only the partial header is lost *)
Theorem open_after_cut_links c hs m :
  Forall (fun x : bytes => length x = HS) hs -> linked hs ->
  (forall x, nth_error hs 0 = Some x -> repair_genesis_ok c x = true) ->
  m <= length (concat hs) ->
  load_links c (firstn m (concat hs)) = mkSt (firstn m (concat hs)) (m / HS) [].
Proof.
  intros Hlen L G Hm.
  set (file := firstn m (concat hs)).
  assert (Lf : length file = m) by (unfold file; rewrite firstn_length; lia).
  assert (Hq : m / HS <= length hs).
  { rewrite (concat_length_HS hs Hlen) in Hm. clear - Hm. euc. }
  assert (HH : chunks (length file / HS) file = firstn (m / HS) hs).
  { rewrite Lf. transitivity (chunks (m / HS) (concat hs)).
    - apply chunks_ext. unfold file. apply firstn_firstn_le. clear. euc.
    - rewrite <- (chunks_firstn_list (m / HS) (length hs)) by exact Hq.
      rewrite <- (app_nil_r (concat hs)). rewrite (chunks_concat hs Hlen []). reflexivity. }
  destruct (open_drops_links c file) as [[Hio Hsz] | (k & Hk & _ & _ & _ & B)].
  - destruct (open_linked_prefix_links c file) as (_ & _ & _ & _ & Hmi & _).
    apply st_eq; cbn [io hsize missing]; [exact Hio | rewrite Hsz, Lf; reflexivity | exact Hmi].
  - exfalso. rewrite HH in *. destruct B as [(_ & _ & x & Hx & Hg) | (Hsk & x & y & Hx & Hy & Hne)].
    + apply nth_error_firstn_some in Hx. rewrite (G x Hx) in Hg. discriminate.
    + apply nth_error_firstn_some in Hx. apply nth_error_firstn_some in Hy.
      assert (Hk0 : k <> 0) by lia.
      apply Hne. apply (linked_nth hs L (k - 1) x y Hx). rewrite <- Hy. f_equal. lia.
Qed.

Lemma Forall_firstn' {A} (P : A -> Prop) j : forall l, Forall P l -> Forall P (firstn j l).
Proof.
  induction j as [|j IH]; intros l H; [constructor|]. destruct H as [|x l Hx Hl]; [constructor|].
  cbn [firstn]. constructor; [exact Hx | apply IH; exact Hl].
Qed.
Lemma Forall_skipn' {A} (P : A -> Prop) j : forall l, Forall P l -> Forall P (skipn j l).
Proof.
  induction j as [|j IH]; intros l H; [exact H|]. destruct H as [|x l Hx Hl]; [constructor|].
  cbn [skipn]. apply IH. exact Hl.
Qed.

(* ---- one stored header overwritten above the start of the check ---- *)
Definition replace_nth (d : nat) (x' : bytes) (hs : list bytes) : list bytes :=
  firstn d hs ++ x' :: skipn (S d) hs.

Lemma replace_nth_lt d x' hs i : i < d -> d < length hs -> nth_error (replace_nth d x' hs) i = nth_error hs i.
Proof.
  intros H Hd. unfold replace_nth. rewrite nth_error_app1 by (rewrite firstn_length; lia).
  apply nth_error_firstn_lt. exact H.
Qed.
Lemma replace_nth_eq d x' hs : d < length hs -> nth_error (replace_nth d x' hs) d = Some x'.
Proof.
  intro Hd. unfold replace_nth. rewrite nth_error_app2 by (rewrite firstn_length; lia).
  rewrite firstn_length. replace (d - Nat.min d (length hs)) with 0 by lia. reflexivity.
Qed.
Lemma replace_nth_gt d x' hs i : d < i -> d < length hs -> nth_error (replace_nth d x' hs) i = nth_error hs i.
Proof.
  intros H Hd. unfold replace_nth. rewrite nth_error_app2 by (rewrite firstn_length; lia).
  rewrite firstn_length. replace (i - Nat.min d (length hs)) with (S (i - S d)) by lia.
  cbn [nth_error]. rewrite nth_error_skipn. f_equal. lia.
Qed.
Lemma replace_nth_length d x' hs : d < length hs -> length (replace_nth d x' hs) = length hs.
Proof. intro H. unfold replace_nth. rewrite app_length, firstn_length. cbn [length]. rewrite skipn_length. lia. Qed.

Lemma nth_error_some_lt {A} (l : list A) i x : nth_error l i = Some x -> i < length l.
Proof. intro H. apply nth_error_Some. congruence. Qed.

(* A linked stored chain in which ONE header above the start of the check is overwritten so that the damage
   shows in a prev-hash link (its own prev field no longer matches, or its successor no longer points to it):
   the loaded chain is the undamaged prefix, cut one before the damaged header or exactly at it. *)
Theorem open_single_damage_links c hs d x' :
  Forall (fun x : bytes => length x = HS) hs -> linked hs -> length x' = HS ->
  (forall x, nth_error hs 0 = Some x -> repair_genesis_ok c x = true) ->
  repair_start c < d -> d < length hs ->
  ((forall p, nth_error hs (d - 1) = Some p -> h_prev x' <> dsha p)
   \/ (exists y, nth_error hs (S d) = Some y /\ h_prev y <> dsha x')) ->
  let s := load_links c (concat (replace_nth d x' hs)) in
  (hsize s = d - 1 \/ hsize s = d) /\ io s = firstn (HS * hsize s) (concat hs).
Proof.
  intros Hlen L Lx Gen Hsd Hd Det. cbn zeta.
  set (hs' := replace_nth d x' hs). set (file := concat hs').
  assert (Hlen' : Forall (fun x : bytes => length x = HS) hs').
  { unfold hs', replace_nth. apply Forall_app. split; [apply Forall_firstn'; exact Hlen|].
    constructor; [exact Lx | apply Forall_skipn'; exact Hlen]. }
  assert (Ll : length hs' = length hs) by (apply replace_nth_length; exact Hd).
  assert (Lf : length file = HS * length hs) by (unfold file; rewrite (concat_length_HS hs' Hlen'), Ll; reflexivity).
  assert (Hdiv : length file / HS = length hs).
  { rewrite Lf, Nat.mul_comm. apply Nat.div_mul. unfold HS; lia. }
  assert (Hst : open_start c file = repair_start c).
  { unfold open_start. rewrite Lf, Nat.mul_comm, Nat.mod_mul by (unfold HS; lia). reflexivity. }
  assert (HH : chunks (length file / HS) file = hs').
  { rewrite Hdiv, <- Ll. unfold file. rewrite <- (app_nil_r (concat hs')). apply chunks_concat. exact Hlen'. }
  (* the damage shows in hs' at link d or d+1 *)
  assert (Brk : forall l, (forall i a b, repair_start c <= i -> nth_error l i = Some a -> nth_error l (S i) = Some b ->
                                         h_prev b = dsha a) ->
                          (forall i, i <= S d -> nth_error l i = nth_error hs' i) -> False).
  { intros l Hl Hagree. destruct d as [|d']; [lia|]. replace (S d' - 1) with d' in Det by lia.
    destruct Det as [D1 | (y & Hy & D2)].
    - destruct (nth_error hs d') as [p|] eqn:Ep; [|apply nth_error_None in Ep; lia].
      apply (D1 p eq_refl). apply (Hl d' p x'); [lia | |].
      + rewrite Hagree by lia. unfold hs'. rewrite replace_nth_lt by lia. exact Ep.
      + rewrite Hagree by lia. unfold hs'. apply replace_nth_eq. exact Hd.
    - apply D2. apply (Hl (S d') x' y); [lia | |].
      + rewrite Hagree by lia. unfold hs'. apply replace_nth_eq. exact Hd.
      + rewrite Hagree by lia. unfold hs'. rewrite replace_nth_gt by lia. exact Hy. }
  assert (Lnk : forall l, linked (skipn (repair_start c) l) ->
            forall i a b, repair_start c <= i -> nth_error l i = Some a -> nth_error l (S i) = Some b -> h_prev b = dsha a).
  { intros l Hl i a b Hi Ha Hb. apply (linked_nth _ Hl (i - repair_start c) a b); rewrite nth_error_skipn.
    - rewrite <- Ha. f_equal. lia. - rewrite <- Hb. f_equal. lia. }
  destruct (open_drops_links c file) as [[Hio Hsz] | (k & Hk & Hsz & Hio & Lk & B)].
  - exfalso. destruct (open_linked_prefix_links c file) as (_ & _ & _ & _ & _ & Hsc & Hl & _).
    rewrite Hst, Hsc, HH, Hsz, Hdiv, <- Ll, firstn_all in Hl.
    apply (Brk hs' (Lnk hs' Hl)). reflexivity.
  - rewrite Hst, HH in *. destruct B as [(-> & E0 & x & Hx & Hg) | (Hsk & x & y & Hx & Hy & Hne)].
    { exfalso. unfold hs' in Hx. rewrite replace_nth_lt in Hx by lia. rewrite (Gen x Hx) in Hg. discriminate. }
    assert (Hdk : d <= k).
    { destruct (Nat.le_gt_cases d k) as [H|H]; [exact H|]. exfalso. apply Hne.
      unfold hs' in Hx, Hy. rewrite replace_nth_lt in Hx, Hy by lia.
      apply (linked_nth hs L (k - 1) x y Hx). rewrite <- Hy. f_equal. lia. }
    assert (Hkd : k <= S d).
    { destruct (Nat.le_gt_cases k (S d)) as [H|H]; [exact H|]. exfalso.
      apply (Brk (firstn k hs') (Lnk _ Lk)). intros i Hi. apply nth_error_firstn_lt. lia. }
    split; [lia|]. rewrite Hio, Hsz. unfold file, hs', replace_nth.
    rewrite <- (firstn_skipn d hs) at 3. rewrite !concat_app.
    assert (Lc : length (concat (firstn d hs)) = HS * d).
    { rewrite concat_length_HS by (apply Forall_firstn'; exact Hlen). rewrite firstn_length. f_equal. lia. }
    rewrite !firstn_app, Lc. replace (HS * (k - 1) - HS * d) with 0 by (unfold HS; lia). reflexivity.
Qed.
End Repair.

(* ------------------------------------------------------------------------------------------ *)
(* repair() = link scan, then validation of the tip; open()                                   *)
(* ------------------------------------------------------------------------------------------ *)
Section RepairTip.
Variables sha256 sha512 rmd160 : bytes -> bytes.
Local Notation dsha := (dsha sha256).
Local Notation check_header := (check_header sha256 sha512 rmd160).
Local Notation tip_check := (tip_check sha256 sha512 rmd160).
Local Notation load_repair := (load_repair sha256 sha512 rmd160).
Local Notation load_links := (load_links sha256).
Local Notation links_fail := (links_fail sha256).
Local Notation repair_links := (repair_links sha256).
Local Notation linked := (linked sha256).
Local Notation repair_genesis_ok := (repair_genesis_ok sha256).
Local Notation chain_rules := (chain_rules sha256 sha512 rmd160).
Local Notation header_rules := (header_rules sha256 sha512 rmd160).

Lemma nth_error_chunks n b k : k < n -> nth_error (chunks n b) k = Some (read b k).
Proof.
  intro H. replace n with (k + S (n - k - 1)) by lia. rewrite chunks_add.
  rewrite nth_error_app2 by (rewrite chunks_length; lia). rewrite chunks_length, Nat.sub_diag.
  reflexivity.
Qed.

Lemma below_prev n iob h : h <= n ->
  below1 iob h = prev1 (chunks n iob) h /\ below2 iob h = prev2 (chunks n iob) h.
Proof.
  intro H. destruct h as [|[|k]]; cbn [below1 below2 prev1 prev2]; rewrite ?nth_error_chunks by lia; auto.
Qed.

(* the last header obeys the rules relative to the two headers below it *)
Definition tip_ok (c : cfg) (H : list bytes) : Prop :=
  match length H with
  | O => True
  | S n => forall x, nth_error H n = Some x -> check_header c (prev2 H n) (prev1 H n) x = None
  end.

Lemma cut_facts s k : tight s -> k <= hsize s ->
  let io' := firstn (HS * k) (io s) in
  length io' = HS * k /\ length io' / HS = k /\ chunks k io' = firstn k (stored_chain s).
Proof.
  intros T Hk. pose proof (tight_wf s T) as W. unfold wf in W. cbn zeta.
  assert (L : length (firstn (HS * k) (io s)) = HS * k) by (rewrite firstn_length; unfold HS in *; lia).
  split; [exact L|]. split.
  - rewrite L, Nat.mul_comm. apply Nat.div_mul. unfold HS; lia.
  - rewrite chunks_of_firstn. unfold stored_chain. rewrite chunks_firstn_list by lia. reflexivity.
Qed.

Lemma tip_check_spec c s start : tight s ->
  let H := stored_chain s in
  let n := hsize s in
  let s' := tip_check c s start in
  (s' = s /\ (Nat.max start 1 < n -> tip_ok c H))
  \/ (Nat.max start 1 < n /\ ~ tip_ok c H /\
      io s' = firstn (HS * (n - 1)) (io s) /\ hsize s' = n - 1 /\ missing s' = missing s /\ tight s' /\
      stored_chain s' = firstn (n - 1) H).
Proof.
  intro T. cbn zeta. unfold C07.tip_check.
  destruct (Nat.leb 1 (hsize s) && Nat.leb (Nat.max start 1) (hsize s - 1)) eqn:E.
  2:{ left. split; [reflexivity|]. intro Hn. exfalso.
      apply andb_false_iff in E. destruct E as [E|E]; [apply Nat.leb_gt in E | apply Nat.leb_gt in E]; lia. }
  apply andb_true_iff in E as [E1 E2]. apply Nat.leb_le in E1, E2.
  destruct (hsize s) as [|m] eqn:En; [lia|]. replace (S m - 1) with m in * by lia.
  destruct (below_prev (S m) (io s) m ltac:(lia)) as [B1 B2].
  assert (Hx : nth_error (stored_chain s) m = Some (read (io s) m)).
  { unfold stored_chain. rewrite En. apply nth_error_chunks. lia. }
  assert (LH : length (stored_chain s) = S m) by (unfold stored_chain; rewrite chunks_length; exact En).
  assert (Tip : tip_ok c (stored_chain s) <->
                check_header c (below2 (io s) m) (below1 (io s) m) (read (io s) m) = None).
  { unfold tip_ok. rewrite LH. unfold stored_chain at 2 3. rewrite En, <- B1, <- B2. split.
    - intro H. apply H. exact Hx.
    - intros H x Hx'. rewrite Hx in Hx'. inversion Hx'; subst. exact H. }
  destruct (check_header c (below2 (io s) m) (below1 (io s) m) (read (io s) m)) as [e|] eqn:Ec.
  - right. split; [lia|]. split; [intro H; apply Tip in H; discriminate|].
    assert (Hm : m <= hsize s) by lia.
    destruct (cut_facts s m T Hm) as (C1 & C2 & C3). cbn [io hsize missing].
    split; [reflexivity|]. split; [exact C2|]. split; [reflexivity|].
    split; [unfold tight; cbn [io hsize]; reflexivity|].
    unfold stored_chain at 1. cbn [io hsize]. rewrite C2. exact C3.
  - left. split; [reflexivity|]. intros _. apply Tip. reflexivity.
Qed.

Lemma load_repair_cases c file :
  let s0 := mkSt file (length file / HS) [] in
  load_repair c file =
  match links_fail c s0 (open_start c file) with
  | None => tip_check c s0 (open_start c file)
  | Some _ => load_links c file
  end.
Proof.
  cbn zeta. unfold C07.load_repair, C07.load_links, open_start, repair.
  destruct (Nat.eqb (length file mod HS) 0); reflexivity.
Qed.

(* a chain that links from `start` (and begins with the genesis block when start = 0) passes the link scan *)
Lemma links_ok_none c s start : tight s ->
  linked (skipn start (stored_chain s)) ->
  (start = 0 -> forall x, nth_error (stored_chain s) 0 = Some x -> repair_genesis_ok c x = true) ->
  links_fail c s start = None.
Proof.
  intros T L G.
  destruct (repair_spec sha256 c s start T) as [(Hn & _) | (k & _ & _ & _ & _ & _ & _ & _ & _ & _ & B)]; [exact Hn|].
  exfalso. destruct B as [(-> & E0 & x & Hx & Hg) | (Hsk & x & y & Hx & Hy & Hne)].
  - rewrite (G E0 x Hx) in Hg. discriminate.
  - apply Hne. apply (linked_nth sha256 _ L (k - 1 - start) x y); rewrite nth_error_skipn.
    + rewrite <- Hx. f_equal. lia.
    + rewrite <- Hy. f_equal. lia.
Qed.

Lemma chain_rules_firstn c j hs : chain_rules c hs -> chain_rules c (firstn j hs).
Proof.
  intros R k x Hk.
  assert (Hkj : k < j).
  { apply nth_error_some_lt in Hk. rewrite firstn_length in Hk. lia. }
  specialize (R k x (nth_error_firstn_some j hs k x Hk)).
  destruct k as [|[|k]]; cbn [prev1 prev2] in *.
  - exact R.
  - rewrite nth_error_firstn_lt by lia. exact R.
  - rewrite !nth_error_firstn_lt by lia. exact R.
Qed.

Lemma chain_rules_linked c hs : chain_rules c hs -> linked hs.
Proof.
  intro R. apply nth_linked. intros i a b Ha Hb.
  specialize (R (S i) b Hb). cbn [prev1] in R. rewrite Ha in R. cbn [C07.header_rules] in R. tauto.
Qed.

Lemma chain_rules_tip_ok c hs : chain_rules c hs -> tip_ok c hs.
Proof.
  intro R. unfold tip_ok. destruct (length hs) as [|n]; [exact I|].
  intros x Hx. apply check_header_rules. apply (R n x Hx).
Qed.

Lemma chain_rules_genesis c hs g : genesis c = Some g -> chain_rules c hs ->
  forall x, nth_error hs 0 = Some x -> repair_genesis_ok c x = true.
Proof.
  intros G R x Hx. specialize (R 0 x Hx). cbn [prev1 prev2 C07.header_rules] in R. rewrite G in R.
  unfold C07.repair_genesis_ok. rewrite G. apply bytes_eqb_eq. exact R.
Qed.

(* open() on ANY file content *)
Theorem open_linked_prefix c file :
  let s := load_repair c file in
  let H := chunks (length file / HS) file in
  let start := open_start c file in
  io s = firstn (length (io s)) file /\
  (io s = file \/ length (io s) = HS * hsize s) /\
  tight s /\ hsize s <= length file / HS /\ missing s = [] /\
  stored_chain s = firstn (hsize s) H /\
  linked (skipn start (stored_chain s)) /\
  (start = 0 -> forall x, nth_error (stored_chain s) 0 = Some x -> repair_genesis_ok c x = true) /\
  (hsize s = length file / HS -> Nat.max start 1 < hsize s -> tip_ok c (stored_chain s)).
Proof.
  cbn zeta. rewrite load_repair_cases.
  set (s0 := mkSt file (length file / HS) []). set (start := open_start c file).
  assert (T : tight s0) by reflexivity.
  assert (LH : length (chunks (length file / HS) file) = length file / HS) by apply chunks_length.
  pose proof (open_linked_prefix_links sha256 c file) as Old. cbn zeta in Old. fold start in Old.
  destruct (repair_spec sha256 c s0 start T)
    as [(Hn & Hrl & L & G) | (k & Hn & Hk & _ & Hsz & _)]; rewrite Hn.
  - assert (Hll : load_links c file = s0) by exact Hrl.
    rewrite Hll in Old.
    destruct (tip_check_spec c s0 start T) as [(-> & Tip) | (Hlt & Hbad & Hio & Hsz & Hm & T' & Hsc)].
    + destruct Old as (O1 & O2 & O3 & O4 & O5 & O6 & O7 & O8).
      repeat (split; [assumption|]). intros _ Hlt. apply Tip. exact Hlt.
    + cbn [io hsize missing s0] in Hio, Hsz, Hm.
      assert (HH : stored_chain s0 = chunks (length file / HS) file) by reflexivity. rewrite HH in *.
      destruct (cut_facts s0 (length file / HS - 1) T ltac:(cbn [hsize s0]; lia)) as (C1 & _ & _).
      cbn [io s0] in C1. rewrite Hsz, Hsc, Hm.
      split; [rewrite Hio, C1; reflexivity|]. split; [right; rewrite Hio; exact C1|].
      split; [exact T'|]. split; [lia|]. split; [reflexivity|]. split; [reflexivity|]. split; [|split].
      * rewrite skipn_firstn_comm. apply linked_firstn. exact L.
      * intros E x Hx. apply (G E x). apply nth_error_firstn_some in Hx. exact Hx.
      * cbn [hsize s0] in Hlt. intros E. lia.
  - destruct Old as (O1 & O2 & O3 & O4 & O5 & O6 & O7 & O8).
    repeat (split; [assumption|]).
    assert (Hh : hsize (load_links c file) = k - 1) by exact Hsz.
    rewrite Hh. cbn [stored_chain s0 io hsize] in Hk. unfold stored_chain in Hk. cbn [io hsize s0] in Hk.
    rewrite LH in Hk. intro E. lia.
Qed.

(* how much is dropped, for ANY file *)
Theorem open_drops_from_first_break c file :
  let s := load_repair c file in
  let H := chunks (length file / HS) file in
  let n := length file / HS in
  let start := open_start c file in
  (io s = file /\ hsize s = n /\ (Nat.max start 1 < n -> tip_ok c H))
  \/ (Nat.max start 1 < n /\ ~ tip_ok c H /\ linked (skipn start H) /\
      hsize s = n - 1 /\ io s = firstn (HS * (n - 1)) file)
  \/ (exists k, k < length H /\ hsize s = k - 1 /\ io s = firstn (HS * (k - 1)) file /\
        linked (skipn start (firstn k H)) /\
        ((k = 0 /\ start = 0 /\ exists x, nth_error H 0 = Some x /\ repair_genesis_ok c x = false)
         \/ (start < k /\ exists x y, nth_error H (k - 1) = Some x /\ nth_error H k = Some y /\
                                      h_prev y <> dsha x))).
Proof.
  cbn zeta. rewrite load_repair_cases.
  set (s0 := mkSt file (length file / HS) []). set (start := open_start c file).
  assert (T : tight s0) by reflexivity.
  destruct (repair_spec sha256 c s0 start T)
    as [(Hn & _ & L & _) | (k & Hn & Hk & Hio & Hsz & _ & _ & _ & Lk & _ & B)]; rewrite Hn.
  - destruct (tip_check_spec c s0 start T) as [(-> & Tip) | (Hlt & Hbad & Hio & Hsz & _)].
    + left. cbn [io hsize s0]. auto.
    + right. left. cbn [io hsize s0] in *. auto.
  - right. right. exists k. cbn [io s0] in Hio. auto.
Qed.

(* a stored chain that obeys the rules, cut at ANY byte offset m: exactly the m / 112 whole headers are loaded *)
Theorem open_after_cut c hs m g :
  genesis c = Some g ->
  Forall (fun x : bytes => length x = HS) hs -> chain_rules c hs ->
  m <= length (concat hs) ->
  load_repair c (firstn m (concat hs)) = mkSt (firstn m (concat hs)) (m / HS) [].
Proof.
  intros G Hlen R Hm.
  set (file := firstn m (concat hs)).
  assert (Lf : length file = m) by (unfold file; rewrite firstn_length; lia).
  assert (Hq : m / HS <= length hs).
  { rewrite (concat_length_HS hs Hlen) in Hm. clear - Hm. euc. }
  assert (HH : chunks (length file / HS) file = firstn (m / HS) hs).
  { rewrite Lf. transitivity (chunks (m / HS) (concat hs)).
    - apply chunks_ext. unfold file. apply firstn_firstn_le. clear. euc.
    - rewrite <- (chunks_firstn_list (m / HS) (length hs)) by exact Hq.
      rewrite <- (app_nil_r (concat hs)). rewrite (chunks_concat hs Hlen []). reflexivity. }
  rewrite load_repair_cases.
  set (s0 := mkSt file (length file / HS) []).
  assert (T : tight s0) by reflexivity.
  assert (Hs0 : stored_chain s0 = firstn (m / HS) hs) by exact HH.
  pose proof (chain_rules_firstn c (m / HS) hs R) as R'.
  rewrite (links_ok_none c s0 (open_start c file) T).
  - destruct (tip_check_spec c s0 (open_start c file) T) as [(-> & _) | (_ & Hbad & _)].
    + unfold s0. rewrite Lf. reflexivity.
    + exfalso. apply Hbad. rewrite Hs0. apply chain_rules_tip_ok. exact R'.
  - rewrite Hs0. apply linked_skipn. apply (chain_rules_linked c). exact R'.
  - intros _ x Hx. rewrite Hs0 in Hx. apply (chain_rules_genesis c _ g G R' x Hx).
Qed.

Theorem restart_after_cut_keeps_rules c hs m g :
  genesis c = Some g ->
  Forall (fun x : bytes => length x = HS) hs -> chain_rules c hs ->
  m <= length (concat hs) ->
  let s := load_repair c (firstn m (concat hs)) in
  hsize s = m / HS /\ io s = firstn m (concat hs) /\
  stored_chain s = firstn (m / HS) hs /\ chain_rules c (stored_chain s).
Proof.
  intros G Hlen R Hm. cbn zeta. rewrite (open_after_cut c hs m g G Hlen R Hm).
  cbn [io hsize]. split; [reflexivity|]. split; [reflexivity|].
  assert (Hq : m / HS <= length hs).
  { rewrite (concat_length_HS hs Hlen) in Hm. clear - Hm. euc. }
  assert (E : stored_chain (mkSt (firstn m (concat hs)) (m / HS) []) = firstn (m / HS) hs).
  { unfold stored_chain; cbn [io hsize]. transitivity (chunks (m / HS) (concat hs)).
    - apply chunks_ext. apply firstn_firstn_le. clear. euc.
    - rewrite <- (chunks_firstn_list (m / HS) (length hs)) by exact Hq.
      rewrite <- (app_nil_r (concat hs)). rewrite (chunks_concat hs Hlen []). reflexivity. }
  split; [exact E|]. rewrite E. apply chain_rules_firstn. exact R.
Qed.

(* close writes exactly the chain in memory; reopening a chain that obeys the rules loads exactly what was stored *)
Theorem close_reopen_exact c s f hs g :
  genesis c = Some g ->
  io s = concat hs -> Forall (fun x : bytes => length x = HS) hs -> chain_rules c hs ->
  hclose s f = io s /\
  load_repair c (hclose s f) = mkSt (io s) (length hs) [].
Proof.
  intros G Hio Hlen R. split; [reflexivity|]. unfold hclose. rewrite Hio.
  pose proof (open_after_cut c hs (length (concat hs)) g G Hlen R (le_n _)) as H.
  rewrite firstn_all in H. rewrite H. f_equal.
  rewrite (concat_length_HS hs Hlen), Nat.mul_comm. apply Nat.div_mul. unfold HS; lia.
Qed.

(* one stored header overwritten above the start of the check, visible in a prev-hash link *)
Theorem open_after_single_damage c hs d x' :
  Forall (fun x : bytes => length x = HS) hs -> linked hs -> length x' = HS ->
  (forall x, nth_error hs 0 = Some x -> repair_genesis_ok c x = true) ->
  repair_start c < d -> d < length hs ->
  ((forall p, nth_error hs (d - 1) = Some p -> h_prev x' <> dsha p)
   \/ (exists y, nth_error hs (S d) = Some y /\ h_prev y <> dsha x')) ->
  let s := load_repair c (concat (replace_nth d x' hs)) in
  (hsize s = d - 1 \/ hsize s = d) /\ io s = firstn (HS * hsize s) (concat hs).
Proof.
  intros Hlen L Lx Gen Hsd Hd Det. cbn zeta.
  pose proof (open_single_damage_links sha256 c hs d x' Hlen L Lx Gen Hsd Hd Det) as Old. cbn zeta in Old.
  rewrite load_repair_cases.
  set (file := concat (replace_nth d x' hs)) in *.
  set (s0 := mkSt file (length file / HS) []).
  assert (T : tight s0) by reflexivity.
  destruct (repair_spec sha256 c s0 (open_start c file) T) as [(Hn & Hrl & _) | (k & Hn & _)]; rewrite Hn.
  - (* no broken link found: impossible, the link scan alone already cuts *)
    exfalso. assert (Hll : load_links c file = s0) by exact Hrl. rewrite Hll in Old.
    cbn [hsize s0] in Old. destruct Old as [Hs _].
    assert (Hlen' : Forall (fun x : bytes => length x = HS) (replace_nth d x' hs)).
    { unfold replace_nth. apply Forall_app. split; [apply Forall_firstn'; exact Hlen|].
      constructor; [exact Lx | apply Forall_skipn'; exact Hlen]. }
    assert (Lf : length file / HS = length hs).
    { unfold file. rewrite (concat_length_HS _ Hlen').
      assert (Lr : length (replace_nth d x' hs) = length hs).
      { unfold replace_nth. rewrite app_length, firstn_length. cbn [length]. rewrite skipn_length. lia. }
      rewrite Lr, Nat.mul_comm. apply Nat.div_mul. unfold HS; lia. }
    lia.
  - exact Old.
Qed.

(* the LAST header overwritten while its prev field stays intact: no link exposes it, the tip validation does;
   exactly the tip is dropped *)
Theorem open_after_tip_damage c hs x' g n :
  genesis c = Some g ->
  Forall (fun x : bytes => length x = HS) hs -> chain_rules c hs -> length x' = HS ->
  length hs = S n -> Nat.max (repair_start c) 1 <= n ->
  (forall p, nth_error hs (n - 1) = Some p -> h_prev x' = dsha p) ->
  check_header c (prev2 hs n) (prev1 hs n) x' <> None ->
  load_repair c (concat (firstn n hs ++ [x'])) = mkSt (concat (firstn n hs)) n [].
Proof.
  intros G Hlen R Lx Ln Hst Hlink Hbad.
  set (hs' := firstn n hs ++ [x']). set (file := concat hs').
  assert (Hlen' : Forall (fun x : bytes => length x = HS) hs').
  { unfold hs'. apply Forall_app. split; [apply Forall_firstn'; exact Hlen | constructor; [exact Lx | constructor]]. }
  assert (Ll : length hs' = S n) by (unfold hs'; rewrite app_length, firstn_length; cbn [length]; lia).
  assert (Lf : length file = HS * S n) by (unfold file; rewrite (concat_length_HS hs' Hlen'), Ll; reflexivity).
  assert (Hdiv : length file / HS = S n) by (rewrite Lf, Nat.mul_comm; apply Nat.div_mul; unfold HS; lia).
  assert (Hst' : open_start c file = repair_start c).
  { unfold open_start. rewrite Lf, Nat.mul_comm, Nat.mod_mul by (unfold HS; lia). reflexivity. }
  assert (HH : chunks (length file / HS) file = hs').
  { rewrite Hdiv, <- Ll. unfold file. rewrite <- (app_nil_r (concat hs')). apply chunks_concat. exact Hlen'. }
  assert (Hlt : forall i, i < n -> nth_error hs' i = nth_error hs i).
  { intros i Hi. unfold hs'. rewrite nth_error_app1 by (rewrite firstn_length; lia). apply nth_error_firstn_lt. exact Hi. }
  assert (Hn' : nth_error hs' n = Some x').
  { unfold hs'. rewrite nth_error_app2 by (rewrite firstn_length; lia).
    rewrite firstn_length. replace (n - Nat.min n (length hs)) with 0 by lia. reflexivity. }
  assert (Lk : linked hs').
  { apply nth_linked. intros i a b Ha Hb.
    assert (Hi : S i <= n) by (apply nth_error_some_lt in Hb; lia).
    destruct (Nat.eq_dec (S i) n) as [E|E].
    - rewrite E, Hn' in Hb. inversion Hb; subst b. rewrite Hlt in Ha by lia.
      apply Hlink. rewrite <- Ha. f_equal. lia.
    - rewrite Hlt in Ha, Hb by lia. apply (linked_nth sha256 hs (chain_rules_linked c hs R) i a b Ha Hb). }
  rewrite load_repair_cases. fold file.
  set (s0 := mkSt file (length file / HS) []).
  assert (T : tight s0) by reflexivity.
  assert (Hs0 : stored_chain s0 = hs') by exact HH.
  rewrite (links_ok_none c s0 (open_start c file) T).
  - destruct (tip_check_spec c s0 (open_start c file) T) as [(_ & Tip) | (_ & _ & Hio & Hsz & Hm & _)].
    + exfalso. apply Hbad. cbn [hsize s0] in Tip. rewrite Hdiv, Hst', Hs0 in Tip.
      specialize (Tip ltac:(lia)). unfold tip_ok in Tip. rewrite Ll in Tip. specialize (Tip x' Hn').
      destruct n as [|[|j]]; cbn [prev1 prev2] in *; rewrite ?Hlt in Tip by lia; exact Tip.
    + cbn [io hsize missing s0] in Hio, Hsz, Hm. rewrite Hdiv in *. replace (S n - 1) with n in * by lia.
      apply st_eq; cbn [io hsize missing]; [|exact Hsz | exact Hm].
      rewrite Hio. unfold file, hs'. rewrite concat_app. apply firstn_eq_app.
      rewrite concat_length_HS by (apply Forall_firstn'; exact Hlen). rewrite firstn_length. f_equal. lia.
  - rewrite Hs0. apply linked_skipn. exact Lk.
  - intros _ x Hx. rewrite Hs0 in Hx. rewrite Hlt in Hx by lia. apply (chain_rules_genesis c hs g G R x Hx).
Qed.
End RepairTip.

(* ------------------------------------------------------------------------------------------ *)
(* compact targets                                                                            *)
(* ------------------------------------------------------------------------------------------ *)
Section Compact.
Local Open Scope N_scope.

Lemma pow2_pos k : 0 < 2 ^ k.
Proof. apply N.neq_0_lt_0. apply N.pow_nonzero. lia. Qed.
Lemma pow2_nz k : 2 ^ k <> 0.
Proof. apply N.pow_nonzero. lia. Qed.

Lemma csize_ge1 v : 1 <= csize v.
Proof. unfold csize, py_bits, bin_len. lia. Qed.

Lemma csize_bits v : bin_len v + 1 <= 8 * csize v.
Proof. unfold csize, py_bits. lia. Qed.

(* the value fits in 8*size - 1 bits: the compact mantissa never reaches the sign bit *)
Lemma size_bound v : v < 2 ^ (8 * csize v - 1).
Proof.
  apply N.lt_le_trans with (2 ^ N.size v); [apply N.size_gt|].
  apply N.pow_le_mono_r; [lia|]. pose proof (csize_bits v). unfold bin_len in *. lia.
Qed.

Definition mantissa (v : N) : N :=
  if csize v <=? 3 then v * 2 ^ (8 * (3 - csize v)) else v / 2 ^ (8 * (csize v - 3)).

Lemma mantissa_lt v : mantissa v < 2 ^ 23.
Proof.
  unfold mantissa. pose proof (size_bound v) as B. pose proof (csize_ge1 v) as G.
  destruct (csize v <=? 3) eqn:E.
  - apply N.leb_le in E.
    replace (2 ^ 23) with (2 ^ (8 * csize v - 1) * 2 ^ (8 * (3 - csize v)))
      by (rewrite <- N.pow_add_r; f_equal; lia).
    apply N.mul_lt_mono_pos_r; [apply pow2_pos | exact B].
  - apply N.leb_gt in E. apply N.div_lt_upper_bound; [apply pow2_nz|].
    rewrite <- N.pow_add_r. replace (8 * (csize v - 3) + 23) with (8 * csize v - 1) by lia. exact B.
Qed.

Lemma testbit23_small c : c < 2 ^ 23 -> N.testbit c 23 = false.
Proof.
  intro H. destruct (N.eq_dec c 0) as [->|Hz]; [reflexivity|].
  apply N.bits_above_log2. apply N.log2_lt_pow2; [lia | exact H].
Qed.

Lemma compact_raw_spec v : compact_raw v = (mantissa v, csize v).
Proof.
  unfold compact_raw.
  assert (Hc : (if csize v <=? 3 then N.shiftl (low64 v) (8 * (3 - csize v))
                else low64 (N.shiftr v (8 * (csize v - 3)))) = mantissa v).
  { pose proof (mantissa_lt v) as M. unfold mantissa in *. unfold low64.
    pose proof (size_bound v) as B.
    destruct (csize v <=? 3) eqn:E.
    - apply N.leb_le in E. rewrite N.shiftl_mul_pow2. f_equal. apply N.mod_small.
      apply N.lt_le_trans with (2 ^ (8 * csize v - 1)); [exact B|].
      apply N.pow_le_mono_r; lia.
    - rewrite N.shiftr_div_pow2. apply N.mod_small.
      apply N.lt_trans with (2 ^ 23); [exact M | reflexivity]. }
  rewrite Hc. rewrite (testbit23_small _ (mantissa_lt v)). reflexivity.
Qed.

Lemma lor_parts c S : c < 2 ^ 23 ->
  N.shiftr (N.lor c (N.shiftl S 24)) 24 = S /\ N.land (N.lor c (N.shiftl S 24)) 8388607 = c.
Proof.
  intro H. split.
  - rewrite N.shiftr_lor. rewrite (N.shiftr_div_pow2 c), N.div_small.
    + rewrite N.shiftr_shiftl_l by lia. rewrite N.sub_diag, N.shiftl_0_r. apply N.lor_0_l.
    + apply N.lt_trans with (2 ^ 23); [exact H | reflexivity].
  - change 8388607 with (N.ones 23). rewrite N.land_lor_distr_l, !N.land_ones.
    rewrite N.mod_small by exact H.
    rewrite N.shiftl_mul_pow2. replace (S * 2 ^ 24) with (S * 2 * 2 ^ 23) by (change (2 ^ 24) with (2 * 2 ^ 23); lia).
    rewrite N.mod_mul by apply pow2_nz. apply N.lor_0_r.
Qed.

Definition cshift (v : N) : N := 8 * (csize v - 3).

Lemma from_compact_compact v : from_compact (compact v) = N.shiftl (N.shiftr v (cshift v)) (cshift v).
Proof.
  unfold compact. rewrite compact_raw_spec. unfold from_compact.
  destruct (lor_parts (mantissa v) (csize v) (mantissa_lt v)) as [-> ->].
  unfold mantissa, cshift. destruct (csize v <=? 3) eqn:E.
  - apply N.leb_le in E. replace (csize v - 3) with 0 by lia. rewrite N.mul_0_r, N.shiftr_0_r, N.shiftl_0_r.
    rewrite N.shiftr_div_pow2. apply N.div_mul. apply pow2_nz.
  - rewrite N.shiftl_mul_pow2, N.shiftr_div_pow2, N.shiftl_mul_pow2. reflexivity.
Qed.

Theorem compact_facts v :
  (* the sign bit is never set, the mantissa has 23 bits *)
  N.testbit (compact v) 23 = false /\
  N.land (compact v) 8388607 < 2 ^ 23 /\ N.shiftr (compact v) 24 = csize v /\
  (* decoding gives the value with its low bits cleared *)
  from_compact (compact v) = N.shiftl (N.shiftr v (cshift v)) (cshift v) /\
  from_compact (compact v) <= v /\
  v < from_compact (compact v) + 2 ^ cshift v /\
  N.shiftr (from_compact (compact v)) (cshift v) = N.shiftr v (cshift v) /\
  (* values that fit in 23 bits are exact *)
  (v < 2 ^ 23 -> from_compact (compact v) = v) /\
  (* re-encoding is stable *)
  compact (from_compact (compact v)) = compact v /\
  (* the two assert statements hold for every 256-bit value *)
  (v < 2 ^ 256 -> compact_asserts v = true /\ compact v < 2 ^ 32).
Proof.
  pose proof (from_compact_compact v) as F.
  pose proof (mantissa_lt v) as M.
  destruct (lor_parts (mantissa v) (csize v) M) as [P1 P2].
  assert (C : compact v = N.lor (mantissa v) (N.shiftl (csize v) 24)).
  { unfold compact. rewrite compact_raw_spec. reflexivity. }
  set (sh := cshift v) in *.
  assert (Fv : from_compact (compact v) = 2 ^ sh * (v / 2 ^ sh)).
  { rewrite F, N.shiftl_mul_pow2, N.shiftr_div_pow2. lia. }
  pose proof (N.mul_div_le v (2 ^ sh) (pow2_nz sh)) as Hle.
  pose proof (N.mod_lt v (2 ^ sh) (pow2_nz sh)) as Hlt.
  pose proof (N.div_mod v (2 ^ sh) (pow2_nz sh)) as Hdm.
  split; [|split; [|split; [|split; [|split; [|split; [|split; [|split; [|split]]]]]]]].
  - rewrite C, N.lor_spec, (testbit23_small _ M), N.shiftl_spec_low by lia. reflexivity.
  - rewrite C, P2. exact M.
  - rewrite C. exact P1.
  - exact F.
  - rewrite Fv. exact Hle.
  - rewrite Fv. lia.
  - rewrite F. rewrite N.shiftr_shiftl_l by lia. rewrite N.sub_diag. apply N.shiftl_0_r.
  - intro Hv. rewrite F. unfold sh, cshift.
    assert (csize v <= 3).
    { unfold csize, py_bits, bin_len.
      assert (N.size v <= 23).
      { destruct (N.eq_dec v 0) as [->|Hz]; [cbn; lia|].
        rewrite N.size_log2 by exact Hz. apply N.le_succ_l. apply N.log2_lt_pow2; [lia | exact Hv]. }
      lia. }
    replace (csize v - 3) with 0 by lia. rewrite N.mul_0_r, N.shiftr_0_r. apply N.shiftl_0_r.
  - (* stability: same size, same mantissa *)
    set (w := from_compact (compact v)) in *.
    assert (Hs : csize w = csize v).
    { unfold csize, py_bits, bin_len.
      destruct (N.eq_dec (v / 2 ^ sh) 0) as [Hq|Hq].
      - (* v below 2^sh: only possible when sh = 0 and v = 0 *)
        assert (Hv : v < 2 ^ sh) by (rewrite Hq in Hdm; lia).
        unfold sh, cshift in Hv. destruct (N.le_gt_cases (csize v) 3) as [H3|H3].
        + replace (csize v - 3) with 0 in Hv by lia. cbn in Hv. assert (v = 0) by lia. subst v.
          rewrite Fv, Hq, N.mul_0_r. reflexivity.
        + exfalso. pose proof (csize_bits v) as B1. unfold csize, py_bits, bin_len in *.
          assert (Hz : v <> 0) by (intro; subst v; cbn in H3; lia).
          rewrite N.size_log2 in * by exact Hz.
          assert (N.log2 v < 8 * ((N.max 1 (N.succ (N.log2 v)) + 1 + 7) / 8 - 3)).
          { apply N.log2_lt_pow2; [lia | exact Hv]. }
          lia.
      - assert (Hw : w <> 0) by (rewrite Fv; pose proof (pow2_nz sh); nia).
        assert (Hz : v <> 0) by (intro; subst v; rewrite N.div_0_l in Hq by apply pow2_nz; congruence).
        rewrite !N.size_log2 by assumption.
        assert (N.log2 w = N.log2 v); [|congruence].
        apply N.le_antisymm; [apply N.log2_le_mono; rewrite Fv; exact Hle|].
        (* 2^(log2 v) <= v, hence 2^(log2 v) <= w as w keeps the bits above sh and log2 v >= sh *)
        assert (Hsh : sh <= N.log2 v).
        { apply N.log2_le_pow2; [lia|]. apply N.le_trans with (2 ^ sh * (v / 2 ^ sh)); [|exact Hle].
          assert (1 <= v / 2 ^ sh) by lia. nia. }
        apply N.log2_le_pow2; [lia|].
        rewrite Fv. replace (N.log2 v) with (sh + (N.log2 v - sh)) by lia. rewrite N.pow_add_r.
        apply N.mul_le_mono_l.
        apply N.div_le_lower_bound; [apply pow2_nz|].
        rewrite <- N.pow_add_r. replace (sh + (N.log2 v - sh)) with (N.log2 v) by lia.
        apply N.log2_spec. lia. }
    unfold compact. rewrite !compact_raw_spec. rewrite Hs. f_equal.
    unfold mantissa. rewrite Hs. fold sh.
    destruct (csize v <=? 3) eqn:E.
    + apply N.leb_le in E. f_equal. rewrite Fv. unfold sh, cshift. replace (csize v - 3) with 0 by lia.
      rewrite N.mul_0_r. cbn [N.pow]. rewrite N.div_1_r. lia.
    + unfold cshift in sh. fold sh. rewrite Fv. rewrite N.mul_comm, N.div_mul by apply pow2_nz. reflexivity.
  - intro Hv.
    assert (Hs : csize v <= 33).
    { unfold csize, py_bits, bin_len.
      assert (N.size v <= 256).
      { destruct (N.eq_dec v 0) as [->|Hz]; [cbn; lia|].
        rewrite N.size_log2 by exact Hz. apply N.le_succ_l. apply N.log2_lt_pow2; [lia | exact Hv]. }
      lia. }
    split.
    + unfold compact_asserts. rewrite compact_raw_spec.
      apply andb_true_iff. split; [apply N.ltb_lt; exact M | apply N.ltb_lt; lia].
    + rewrite C. rewrite <- (N.lxor_lor (mantissa v) (N.shiftl (csize v) 24)).
      * rewrite <- N.add_nocarry_lxor.
        -- rewrite N.shiftl_mul_pow2. change (2 ^ 32) with (256 * 2 ^ 24). change (2 ^ 23) with 8388608 in M.
           change (2 ^ 24) with 16777216. lia.
        -- apply N.bits_inj. intro n. rewrite N.land_spec, N.bits_0.
           destruct (N.lt_ge_cases n 24) as [Hn|Hn].
           ++ rewrite N.shiftl_spec_low by exact Hn. apply andb_false_r.
           ++ rewrite N.bits_above_log2; [reflexivity|].
              destruct (N.eq_dec (mantissa v) 0) as [->|Hz]; [cbn; lia|].
              apply N.lt_le_trans with 23; [|lia]. apply N.log2_lt_pow2; [lia | exact M].
      * apply N.bits_inj. intro n. rewrite N.land_spec, N.bits_0.
        destruct (N.lt_ge_cases n 24) as [Hn|Hn].
        -- rewrite N.shiftl_spec_low by exact Hn. apply andb_false_r.
        -- rewrite N.bits_above_log2; [reflexivity|].
           destruct (N.eq_dec (mantissa v) 0) as [->|Hz]; [cbn; lia|].
           apply N.lt_le_trans with 23; [|lia]. apply N.log2_lt_pow2; [lia | exact M].
Qed.
End Compact.

(* ------------------------------------------------------------------------------------------ *)
(* 112-byte header codec                                                                      *)
(* ------------------------------------------------------------------------------------------ *)
Section Codec.
Lemma slice_app off len (pre x post : bytes) : length pre = off -> length x = len ->
  slice off len (pre ++ x ++ post) = x.
Proof. intros H1 H2. unfold slice. rewrite skipn_eq_app by exact H1. apply firstn_eq_app. exact H2. Qed.

Lemma split_at (n : nat) (b : bytes) : b = firstn n b ++ skipn n b.
Proof. symmetry. apply firstn_skipn. Qed.

Lemma header_split r : length r = 112 ->
  r = slice 0 4 r ++ slice 4 32 r ++ slice 36 32 r ++ slice 68 32 r ++ slice 100 4 r ++ slice 104 4 r ++ slice 108 4 r.
Proof.
  intro L. unfold slice. rewrite skipn_O.
  rewrite (split_at 4 r) at 1. f_equal.
  rewrite (split_at 32 (skipn 4 r)) at 1. f_equal. rewrite skipn_skipn. change (4 + 32) with 36.
  rewrite (split_at 32 (skipn 36 r)) at 1. f_equal. rewrite skipn_skipn. change (36 + 32) with 68.
  rewrite (split_at 32 (skipn 68 r)) at 1. f_equal. rewrite skipn_skipn. change (68 + 32) with 100.
  rewrite (split_at 4 (skipn 100 r)) at 1. f_equal. rewrite skipn_skipn. change (100 + 4) with 104.
  rewrite (split_at 4 (skipn 104 r)) at 1. f_equal. rewrite skipn_skipn. change (104 + 4) with 108.
  rewrite firstn_all2; [reflexivity|]. rewrite skipn_length. lia.
Qed.

Lemma slice_length off len (r : bytes) : off + len <= length r -> length (slice off len r) = len.
Proof. intro H. unfold slice. rewrite firstn_length, skipn_length. lia. Qed.

Lemma le4 (x : bytes) : length x = 4 -> (le_decode x < 2 ^ 32)%N /\ le_encode 4 (le_decode x) = x.
Proof.
  intro L. split.
  - pose proof (le_decode_lt x) as H. rewrite L in H. exact H.
  - rewrite <- L. apply le_encode_decode.
Qed.

(* every 112-byte string is the serialisation of the header it deserialises to *)
Theorem codec_bytes r : length r = HS ->
  exists h, deserialize r = Some h /\ serialize h = Some r.
Proof.
  unfold HS. intro L. unfold deserialize. rewrite L. unfold HS. cbn [Nat.ltb Nat.leb].
  eexists. split; [reflexivity|]. unfold serialize. cbn [version timestamp bits nonce prev_block_hash merkle_root claim_trie_root].
  unfold h_version, h_time, h_bits, h_nonce, h_prev, h_merkle, h_claim.
  destruct (le4 (slice 0 4 r)) as [V1 V2]; [apply slice_length; lia|].
  destruct (le4 (slice 100 4 r)) as [T1 T2]; [apply slice_length; lia|].
  destruct (le4 (slice 104 4 r)) as [B1 B2]; [apply slice_length; lia|].
  destruct (le4 (slice 108 4 r)) as [N1 N2]; [apply slice_length; lia|].
  apply N.ltb_lt in V1, T1, B1, N1. rewrite V1, T1, B1, N1. cbn [andb].
  rewrite V2, T2, B2, N2, !rev_involutive. f_equal. symmetry. apply header_split. exact L.
Qed.

(* every well-formed header survives serialise / deserialise *)
Theorem codec_header h :
  (version h < 2 ^ 32)%N -> (timestamp h < 2 ^ 32)%N -> (bits h < 2 ^ 32)%N -> (nonce h < 2 ^ 32)%N ->
  length (prev_block_hash h) = 32 -> length (merkle_root h) = 32 -> length (claim_trie_root h) = 32 ->
  exists r, serialize h = Some r /\ length r = HS /\ deserialize r = Some h.
Proof.
  intros V T B N P M C. unfold serialize.
  apply N.ltb_lt in V as V', T as T', B as B', N as N'. rewrite V', T', B', N'. cbn [andb].
  eexists. split; [reflexivity|].
  assert (L4 : forall v, length (le_encode 4 v) = 4) by (intro; apply le_encode_length).
  assert (LL : length (le_encode 4 (version h) ++ rev (prev_block_hash h) ++ rev (merkle_root h) ++
                       rev (claim_trie_root h) ++ le_encode 4 (timestamp h) ++ le_encode 4 (bits h) ++
                       le_encode 4 (nonce h)) = 112).
  { rewrite !app_length, !rev_length, !L4, P, M, C. reflexivity. }
  split; [exact LL|]. unfold deserialize. rewrite LL. unfold HS. cbn [Nat.ltb Nat.leb].
  set (A := le_encode 4 (version h)). set (Pb := rev (prev_block_hash h)). set (Mb := rev (merkle_root h)).
  set (Cb := rev (claim_trie_root h)). set (Tb := le_encode 4 (timestamp h)). set (Bb := le_encode 4 (bits h)).
  set (Nb := le_encode 4 (nonce h)).
  assert (LA : length A = 4) by apply L4. assert (LT : length Tb = 4) by apply L4.
  assert (LB : length Bb = 4) by apply L4. assert (LN : length Nb = 4) by apply L4.
  assert (LP : length Pb = 32) by (unfold Pb; rewrite rev_length; exact P).
  assert (LM : length Mb = 32) by (unfold Mb; rewrite rev_length; exact M).
  assert (LC : length Cb = 32) by (unfold Cb; rewrite rev_length; exact C).
  unfold h_version, h_time, h_bits, h_nonce, h_prev, h_merkle, h_claim.
  assert (E1 : slice 0 4 (A ++ Pb ++ Mb ++ Cb ++ Tb ++ Bb ++ Nb) = A).
  { apply (slice_app 0 4 [] A); [reflexivity | exact LA]. }
  assert (E2 : slice 4 32 (A ++ Pb ++ Mb ++ Cb ++ Tb ++ Bb ++ Nb) = Pb).
  { apply (slice_app 4 32 A Pb); assumption. }
  assert (E3 : slice 36 32 (A ++ Pb ++ Mb ++ Cb ++ Tb ++ Bb ++ Nb) = Mb).
  { rewrite (app_assoc A Pb). apply slice_app; [rewrite app_length; lia | exact LM]. }
  assert (E4 : slice 68 32 (A ++ Pb ++ Mb ++ Cb ++ Tb ++ Bb ++ Nb) = Cb).
  { rewrite (app_assoc A Pb), (app_assoc (A ++ Pb) Mb). apply slice_app; [rewrite !app_length; lia | exact LC]. }
  assert (E5 : slice 100 4 (A ++ Pb ++ Mb ++ Cb ++ Tb ++ Bb ++ Nb) = Tb).
  { rewrite (app_assoc A Pb), (app_assoc (A ++ Pb) Mb), (app_assoc ((A ++ Pb) ++ Mb) Cb).
    apply slice_app; [rewrite !app_length; lia | exact LT]. }
  assert (E6 : slice 104 4 (A ++ Pb ++ Mb ++ Cb ++ Tb ++ Bb ++ Nb) = Bb).
  { rewrite (app_assoc A Pb), (app_assoc (A ++ Pb) Mb), (app_assoc ((A ++ Pb) ++ Mb) Cb),
      (app_assoc (((A ++ Pb) ++ Mb) ++ Cb) Tb).
    apply slice_app; [rewrite !app_length; lia | exact LB]. }
  assert (E7 : slice 108 4 (A ++ Pb ++ Mb ++ Cb ++ Tb ++ Bb ++ Nb) = Nb).
  { rewrite (app_assoc A Pb), (app_assoc (A ++ Pb) Mb), (app_assoc ((A ++ Pb) ++ Mb) Cb),
      (app_assoc (((A ++ Pb) ++ Mb) ++ Cb) Tb), (app_assoc ((((A ++ Pb) ++ Mb) ++ Cb) ++ Tb) Bb).
    rewrite <- (app_nil_r Nb) at 1. apply slice_app; [rewrite !app_length; lia | exact LN]. }
  rewrite E1, E2, E3, E4, E5, E6, E7. unfold A, Pb, Mb, Cb, Tb, Bb, Nb.
  rewrite !rev_involutive, !le_decode_encode by assumption.
  destruct h; reflexivity.
Qed.
End Codec.

(* ------------------------------------------------------------------------------------------ *)
(* the two repaired defects: models of the OLD behaviour and machine-checked witnesses         *)
(* ------------------------------------------------------------------------------------------ *)
Section Refuted.
(* a toy hash is enough to exhibit the shape: "hash" = the first 32 bytes *)
Definition toy (x : bytes) : bytes := firstn 32 x.
Definition toy_header (v : byte) (prev : bytes) : bytes := [v; x00; x00; x00] ++ prev ++ repeat x00 76.

(* OLD connect (before 64a9e0b): _write only -- no truncation, _size = max(old, end) *)
Definition connect_old (sha256 sha512 rmd160 : bytes -> bytes) (c : cfg) (s : st) (start : nat) (batch : bytes)
  : st * cres :=
  if negb (Nat.eqb (Nat.modulo (length batch) HS) 0) then (s, CAssertion)
  else if Nat.ltb (hsize s) start then (s, CIndexError)
  else
    let n := Nat.div (length batch) HS in
    match validate sha256 sha512 rmd160 c (below2 (io s) start) (below1 (io s) start) (chunks n batch) with
    | Some e => (s, CInvalid e)
    | None => match batch with
              | [] => (s, COk 0)
              | _ => (do_write s start batch, COk n)
              end
    end.

Definition w_cfg : cfg := mkCfg 0 None false [].
Definition wA0 := toy_header x00 (repeat x00 32).
Definition wA1 := toy_header x01 (toy wA0).
Definition wA2 := toy_header x02 (toy wA1).
Definition wA3 := toy_header x03 (toy wA2).
Definition wB1 := toy_header x09 (toy wA0).
(* chain A (3 headers); a 1-header fork B on A0 (shorter than A's tail); A's continuation at the old length *)
Definition w_ops : list (nat * bytes) := [(0, wA0 ++ wA1 ++ wA2); (1, wB1); (3, wA3)].

Definition run_log (conn : cfg -> st -> nat -> bytes -> st * cres) (ops : list (nat * bytes)) : st * list cres :=
  fold_left (fun sr op => let '(s', r) := conn w_cfg (fst sr) (fst op) (snd op) in (s', snd sr ++ [r]))
            ops (mkSt [] 0 [], []).

(* OLD: all three batches are accepted, 4 headers are counted, and the stored chain [0,4) -- which ends
   with the most recently connected batch -- has a broken prev-hash link (A2 on top of B1) *)
Lemma chain_invariant_old_refuted :
  let r := run_log (connect_old toy toy toy) w_ops in
  snd r = [COk 3; COk 1; COk 1] /\ hsize (fst r) = 4 /\
  validate toy toy toy w_cfg None None (chunks 4 (io (fst r))) = Some RPrev.
Proof. vm_compute. repeat split. Qed.

(* NEW: the fork cuts the chain to 2 headers and the stale continuation is refused *)
Lemma chain_invariant_new_witness :
  let r := run_log (connect toy toy toy) w_ops in
  snd r = [COk 3; COk 1; CIndexError] /\ hsize (fst r) = 2 /\
  validate toy toy toy w_cfg None None (chunks 2 (io (fst r))) = None.
Proof. vm_compute. repeat split. Qed.

(* OLD repair (before 54b8776): `range(start, self.height, 36)` *)
Definition visited_end_old (start sz whole : nat) : nat :=
  if Nat.ltb (S start) sz
  then Nat.min whole (start + BATCH * (S (Nat.div (sz - 2 - start) BATCH)))
  else start.

Definition repair_old (sha256 : bytes -> bytes) (c : cfg) (s : st) (start : nat) : st :=
  let whole := Nat.div (length (io s)) HS in
  let vend := visited_end_old start (hsize s) whole in
  let hs := chunks (vend - start) (skipn (HS * start) (io s)) in
  match repair_fail sha256 c start hs with
  | None => s
  | Some k => let io' := firstn (HS * (k - 1)) (io s) in
              mkSt io' (Nat.div (length io') HS) (missing s)
  end.

Fixpoint toy_chain (n : nat) (i : N) (prev : bytes) : list bytes :=
  match n with
  | O => []
  | S n' => let h := toy_header (byte_of_N i) prev in h :: toy_chain n' (i + 1)%N (toy h)
  end.

(* 36 linked headers and a garbage tip: 37 = 0 + 36 + 1 *)
Definition w_file : bytes := concat (toy_chain 36 0 (repeat x00 32)) ++ repeat xff 112.
Definition w_rcfg : cfg := mkCfg 0 (Some (toy (toy_header x00 (repeat x00 32)))) false [].

Lemma repair_old_refuted :
  let s := mkSt w_file 37 [] in
  (* the link into the tip is broken ... *)
  repair_fail toy w_rcfg 0 (chunks 37 w_file) = Some 36 /\
  (* ... the old loop never read the tip and kept all 37 headers ... *)
  hsize (repair_old toy w_rcfg s 0) = 37 /\
  (* ... the repaired loop drops from one before the damaged header *)
  hsize (repair toy toy toy w_rcfg s 0) = 35.
Proof. vm_compute. repeat split. Qed.
End Refuted.

(* the target a header is judged against never exceeds max_target, so for a 256-bit max_target the
   assert statements of _calculate_compact cannot fire inside validate_header *)
Lemma next_target_le mt pp p : (next_target mt pp p <= mt)%N.
Proof. unfold next_target. destruct p; [apply N.le_min_l | apply N.le_refl]. Qed.

Theorem validation_never_asserts mt pp p : (mt < 2 ^ 256)%N ->
  compact_asserts (next_target mt pp p) = true /\ (compact (next_target mt pp p) < 2 ^ 32)%N.
Proof.
  intro H. apply compact_facts. apply N.le_lt_trans with mt; [apply next_target_le | exact H].
Qed.


(* ------------------------------------------------------------------------------------------ *)
(* Python's int(a / b) and the retarget rule                                                  *)
(* ------------------------------------------------------------------------------------------ *)
Section Division.
Local Open Scope N_scope.
Lemma size_mul_cases b k : 0 < b -> 0 < k ->
  N.size (b * k) = N.size b + N.log2 k \/ N.size (b * k) = N.size b + N.log2 k + 1.
Proof.
  intros Hb Hk.
  rewrite !N.size_log2 by lia.
  pose proof (N.log2_mul_below b k Hb Hk). pose proof (N.log2_mul_above b k ltac:(lia) ltac:(lia)). lia.
Qed.

(* int(a / b) is exact whenever the true quotient is an integer with at most 53 significant bits *)
Lemma div_round53_exact b k : 0 < b -> k mod 2 ^ (N.log2 k - 52) = 0 -> div_round53 (b * k) b = k.
Proof.
  intros Hb Hk. destruct (N.eq_dec k 0) as [->|Hk0].
  { unfold div_round53. rewrite N.mul_0_r. reflexivity. }
  unfold div_round53.
  assert (Ha : b * k <> 0) by nia.
  replace ((b * k =? 0) || (b =? 0)) with false
    by (symmetry; apply orb_false_iff; split; apply N.eqb_neq; lia).
  set (L := N.log2 k) in *.
  assert (Hlo : 2 ^ L <= k) by (apply N.log2_spec; lia).
  assert (Hhi : k < 2 ^ (L + 1)) by (rewrite N.add_1_r; apply N.log2_spec; lia).
  assert (E : (let d := (Z.of_N (N.size (b * k)) - Z.of_N (N.size b))%Z in
               if if (0 <=? d)%Z then N.shiftl b (Z.to_N d) <=? b * k else b <=? N.shiftl (b * k) (Z.to_N (- d))
               then d else (d - 1)%Z) = Z.of_N L).
  { cbn zeta. destruct (size_mul_cases b k Hb ltac:(lia)) as [Hs|Hs]; rewrite Hs; fold L.
    - replace (Z.of_N (N.size b + L) - Z.of_N (N.size b))%Z with (Z.of_N L) by lia.
      replace (0 <=? Z.of_N L)%Z with true by (symmetry; apply Z.leb_le; lia).
      rewrite N2Z.id, N.shiftl_mul_pow2.
      replace (b * 2 ^ L <=? b * k) with true; [reflexivity|].
      symmetry. apply N.leb_le. apply N.mul_le_mono_l. exact Hlo.
    - replace (Z.of_N (N.size b + L + 1) - Z.of_N (N.size b))%Z with (Z.of_N (L + 1)) by lia.
      replace (0 <=? Z.of_N (L + 1))%Z with true by (symmetry; apply Z.leb_le; lia).
      rewrite N2Z.id, N.shiftl_mul_pow2.
      replace (b * 2 ^ (L + 1) <=? b * k) with false; [lia|].
      symmetry. apply N.leb_gt. apply N.mul_lt_mono_pos_l; [exact Hb | exact Hhi]. }
  cbn zeta in E. cbn zeta. rewrite E.
  destruct (N.le_gt_cases L 52) as [HL|HL].
  - replace (0 <=? 52 - Z.of_N L)%Z with true by (symmetry; apply Z.leb_le; lia).
    replace (Z.to_N (52 - Z.of_N L)) with (52 - L) by lia.
    set (sh := 52 - L).
    rewrite N.shiftl_mul_pow2.
    replace (b * k * 2 ^ sh) with (k * 2 ^ sh * b) by lia.
    rewrite N.div_mul by lia. rewrite N.mod_mul by lia.
    replace (b <? 2 * 0) with false by (symmetry; apply N.ltb_ge; lia).
    replace (2 * 0 =? b) with false by (symmetry; apply N.eqb_neq; lia).
    rewrite N.shiftr_div_pow2. apply N.div_mul. apply N.pow_nonzero. lia.
  - replace (0 <=? 52 - Z.of_N L)%Z with false by (symmetry; apply Z.leb_gt; lia).
    replace (Z.to_N (- (52 - Z.of_N L))) with (L - 52) by lia.
    set (t := L - 52) in *.
    assert (Hp : 2 ^ t <> 0) by (apply N.pow_nonzero; lia).
    assert (Hk1 : k = k / 2 ^ t * 2 ^ t).
    { pose proof (N.div_mod k (2 ^ t) Hp). lia. }
    set (k1 := k / 2 ^ t) in *.
    rewrite !N.shiftl_mul_pow2.
    replace (b * k) with (k1 * (b * 2 ^ t)) by (rewrite Hk1 at 1; lia).
    assert (Hd : b * 2 ^ t <> 0) by nia.
    rewrite N.div_mul by exact Hd. rewrite N.mod_mul by exact Hd.
    replace (b * 2 ^ t <? 2 * 0) with false by (symmetry; apply N.ltb_ge; lia).
    replace (2 * 0 =? b * 2 ^ t) with false by (symmetry; apply N.eqb_neq; lia).
    lia.
Qed.

Lemma from_compact_53 c : from_compact c mod 2 ^ (N.log2 (from_compact c) - 52) = 0.
Proof.
  unfold from_compact.
  set (size := N.shiftr c 24). set (word := N.land c 8388607).
  assert (Hw : word < 2 ^ 23).
  { unfold word. change 8388607 with (N.ones 23). rewrite N.land_ones. apply N.mod_lt. apply N.pow_nonzero. lia. }
  destruct (size <=? 3) eqn:E.
  - set (k := N.shiftr word (8 * (3 - size))).
    assert (Hk : k < 2 ^ 23).
    { unfold k. rewrite N.shiftr_div_pow2. apply N.le_lt_trans with word; [|exact Hw].
      apply N.div_le_upper_bound; [apply N.pow_nonzero; lia|].
      assert (1 <= 2 ^ (8 * (3 - size))) by (apply N.lt_pred_le, N.neq_0_lt_0, N.pow_nonzero; lia). nia. }
    assert (N.log2 k <= 22).
    { destruct (N.eq_dec k 0) as [->|Hz]; [cbn; lia|]. apply N.lt_succ_r. apply N.log2_lt_pow2; [lia | exact Hk]. }
    replace (N.log2 k - 52) with 0 by lia. apply N.mod_1_r.
  - set (s := 8 * (size - 3)). rewrite N.shiftl_mul_pow2.
    destruct (N.eq_dec word 0) as [->|Hz].
    { rewrite N.mul_0_l. apply N.mod_0_l. apply N.pow_nonzero. lia. }
    rewrite N.log2_mul_pow2 by lia.
    assert (N.log2 word <= 22).
    { apply N.lt_succ_r. apply N.log2_lt_pow2; [lia | exact Hw]. }
    set (u := s + N.log2 word - 52).
    assert (Hu : u <= s) by lia.
    replace (2 ^ s) with (2 ^ (s - u) * 2 ^ u) by (rewrite <- N.pow_add_r; f_equal; lia).
    rewrite N.mul_assoc. apply N.mod_mul. apply N.pow_nonzero. lia.
Qed.

(* blocks exactly on schedule (150 s apart) leave the target as the previous bits encode it *)
Theorem retarget_on_schedule mt pp cur :
  let prev := match pp with Some x => x | None => cur end in
  (Z.of_N (h_time cur) - Z.of_N (h_time prev) = 150)%Z ->
  from_compact (h_bits cur) * 150 < 2 ^ 256 ->
  next_target mt pp (Some cur) = N.min mt (from_compact (h_bits cur)).
Proof.
  cbn zeta. intros Ht Hsmall. unfold next_target. rewrite Ht. unfold TIMESPAN.
  change (Z.max (150 - Z.quot 150 8) (Z.min (150 + Z.quot (150 - 150) 8) (150 + Z.quot 150 2))) with 150%Z.
  change (Z.to_N 150) with 150.
  rewrite N.mod_small by exact Hsmall.
  rewrite (N.mul_comm (from_compact (h_bits cur)) 150).
  rewrite div_round53_exact; [reflexivity | lia | apply from_compact_53].
Qed.
End Division.

(* ------------------------------------------------------------------------------------------ *)
(* header lookups while a chunk getter is installed                                           *)
(* ------------------------------------------------------------------------------------------ *)
Section Lookups.
Variables sha256 sha512 rmd160 : bytes -> bytes.

(* a lookup changes the state only by storing a chunk that hashes to the checkpoint of its range *)
Theorem lookup_only c s height chunk s' r l :
  lookup_header sha256 c s height chunk = (s', r, l) ->
  s' <> s -> lookup (chunk_start height) (checkpoints c) = Some (dsha sha256 chunk).
Proof.
  unfold lookup_header. destruct (ensure_chunk_at sha256 c s height chunk) as [s1 r1] eqn:E.
  intros H Hne. apply (ensure_chunk_only sha256 c s height chunk s1 r1 E).
  destruct r1; try destruct (Nat.ltb height (hsize s1)); inversion H; subst; exact Hne.
Qed.

Lemma lookup_unchanged c s height chunk :
  lookup (chunk_start height) (checkpoints c) = None ->
  fst (fst (lookup_header sha256 c s height chunk)) = s.
Proof.
  intro Hn. unfold lookup_header, ensure_chunk_at, fetch_chunk. rewrite Hn.
  destruct (has_header sha256 c s height); destruct (Nat.ltb height (hsize s)); reflexivity.
Qed.

(* histories that mix connect calls with lookups in ranges that have no checkpoint *)
Inductive hop := OConnect (start : nat) (batch : bytes) | OLookup (height : nat) (chunk : bytes).

Definition hstep (c : cfg) (s : st) (op : hop) : st :=
  match op with
  | OConnect start batch => fst (connect sha256 sha512 rmd160 c s start batch)
  | OLookup height chunk => fst (fst (lookup_header sha256 c s height chunk))
  end.

Definition lookups_uncheckpointed (c : cfg) (ops : list hop) : Prop :=
  forall h ch, In (OLookup h ch) ops -> lookup (chunk_start h) (checkpoints c) = None.

Theorem chain_invariant_lookups c ops : forall s,
  lookups_uncheckpointed c ops ->
  wf s -> chain_rules sha256 sha512 rmd160 c (stored_chain s) ->
  let s' := fold_left (hstep c) ops s in
  wf s' /\ chain_rules sha256 sha512 rmd160 c (stored_chain s').
Proof.
  induction ops as [|op ops IH]; intros s Hu W R; [split; assumption|].
  cbn [fold_left]. apply IH.
  - intros h ch Hin. apply (Hu h ch). right. exact Hin.
  - destruct op as [start batch | height chunk]; cbn [hstep].
    + apply valid_chain_rules in R. apply (connect_inv sha256 sha512 rmd160 c s start batch (conj W R)).
    + rewrite lookup_unchanged; [exact W|]. apply (Hu height chunk). left. reflexivity.
  - destruct op as [start batch | height chunk]; cbn [hstep].
    + apply valid_chain_rules in R. apply valid_chain_rules.
      apply (connect_inv sha256 sha512 rmd160 c s start batch (conj W R)).
    + rewrite lookup_unchanged; [exact R|]. apply (Hu height chunk). left. reflexivity.
Qed.
End Lookups.

(* ------------------------------------------------------------------------------------------ *)
(* open(): which checkpointed chunks count as present                                         *)
(* ------------------------------------------------------------------------------------------ *)
Section OpenMissing.
Variables sha256 sha512 rmd160 : bytes -> bytes.

Lemma load_repair_missing c file : missing (load_repair sha256 sha512 rmd160 c file) = [].
Proof. destruct (open_linked_prefix sha256 sha512 rmd160 c file) as (_ & _ & _ & _ & H & _). exact H. Qed.

Lemma ensure_missing c s : missing (ensure_checkpointed_size c s) = missing s.
Proof.
  unfold ensure_checkpointed_size. destruct (max_key (checkpoints c)); [|reflexivity].
  destruct (Nat.leb (hsize s) n); reflexivity.
Qed.

(* the set is computed from the FINAL buffer (after repair and re-padding): after open() every checkpointed
   chunk either is flagged missing (and will be fetched before it is served) or hashes to its checkpoint *)
Theorem open_missing_exact c file h e :
  In (h, e) (checkpoints c) ->
  let s := hopen sha256 sha512 rmd160 c file in
  In h (missing s) \/ dsha sha256 (read_n (io s) h CHUNK) = e.
Proof.
  intro Hin. cbn zeta. unfold hopen, get_all_missing. cbn [io missing].
  set (s1 := ensure_checkpointed_size c (load_repair sha256 sha512 rmd160 c file)).
  assert (Hm : missing s1 = []) by (unfold s1; rewrite ensure_missing; apply load_repair_missing).
  rewrite Hm. cbn [app existsb negb andb].
  destruct (bytes_eqb (dsha sha256 (read_n (io s1) h CHUNK)) e) eqn:E.
  - right. apply bytes_eqb_eq. exact E.
  - left. apply in_map_iff. exists (h, e). split; [reflexivity|].
    apply filter_In. split; [exact Hin|]. cbn [fst snd]. rewrite E. reflexivity.
Qed.

(* and a chunk flagged missing is never served without a fetch that hashes to the checkpoint *)
Theorem missing_not_served c s height :
  (exists e, lookup (chunk_start height) (checkpoints c) = Some e) ->
  In (chunk_start height) (missing s) -> has_header sha256 c s height = false.
Proof.
  intros [e He] Hin. unfold has_header. rewrite He.
  apply negb_false_iff. apply existsb_exists. exists (chunk_start height). split; [exact Hin | apply Nat.eqb_refl].
Qed.
End OpenMissing.

(* ------------------------------------------------------------------------------------------ *)
(* close() and a restart without any crash                                                    *)
(* ------------------------------------------------------------------------------------------ *)
Section CloseReopen.
Variable sha256 : bytes -> bytes.

(* OLD close (before the fix): 'r+b' overwrite without truncation *)
Definition hclose_old (s : st) (file : option bytes) : bytes :=
  match file with None => io s | Some f => io s ++ skipn (length (io s)) f end.

(* the witness of chain_invariant_new_witness continued: 3 headers on disk, a 1-header fork at height 1 leaves 2
   in memory; the old close keeps the third on disk, the next open() finds the broken link and is left with 1 header:
   a validly stored header is lost at every such restart (before open() checked from genesis it loaded all 3) *)
Lemma close_old_refuted :
  let old_file := wA0 ++ wA1 ++ wA2 in
  let s := mkSt (wA0 ++ wB1) 2 [] in
  (length (hclose_old s (Some old_file)) / HS,
   hsize (load_repair toy toy toy w_rcfg (hclose_old s (Some old_file))),
   hsize (load_repair toy toy toy w_rcfg (hclose s (Some old_file))))
  = (3, 1, 2).
Proof. vm_compute. reflexivity. Qed.
End CloseReopen.

(* ------------------------------------------------------------------------------------------ *)
(* the target a header has to meet is the one its own bits encode                             *)
(* ------------------------------------------------------------------------------------------ *)
Section PowTarget.
Variables sha256 sha512 rmd160 : bytes -> bytes.

(* an accepted non-genesis header meets the target encoded by its own bits (lbrycrd: SetCompact(nBits)), which
   is the demanded retarget value with its low bits cleared -- so it also lies below the exact retarget value *)
Theorem accepted_meets_bits_target c pp pr x :
  validate_difficulty c = true ->
  header_rules sha256 sha512 rmd160 c pp (Some pr) x ->
  let t := next_target (max_target c) pp (Some pr) in
  h_bits x = compact t /\
  (pow_value sha256 sha512 rmd160 x <= from_compact (h_bits x))%N /\
  from_compact (h_bits x) = N.shiftl (N.shiftr t (cshift t)) (cshift t) /\
  (pow_value sha256 sha512 rmd160 x <= t)%N.
Proof.
  intros Hv [_ H]. destruct (H Hv) as [Hb Hp]. cbn zeta.
  destruct (compact_facts (next_target (max_target c) pp (Some pr))) as (_ & _ & _ & F & Le & _).
  split; [exact Hb|]. split; [exact Hp|]. rewrite Hb in *. split; [exact F|]. lia.
Qed.
End PowTarget.
