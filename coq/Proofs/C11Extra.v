(* C11 proofs: further structural facts -- no empty bucket survives among several, one probe per add_peer,
   a rejected newcomer leaves the contacts alone *)
From Coq Require Import NArith ZArith List Bool Lia Permutation Arith.
From LV Require Import Model.C11 Model.C11Spec Proofs.C11Base Proofs.C11Join Proofs.C11Add Proofs.C11Sort
  Proofs.C11Fuel Proofs.C11Run.
Import ListNotations.
Local Open Scope N_scope.

Definition nonempty (b : bucket) : Prop := is_empty b = false.

Lemma join_scan_none rp a rest : join_scan rp (a :: rest) = None <-> Forall nonempty rest.
Proof.
  revert a. induction rest as [| b rest IH]; intros a.
  - cbn. split; [constructor | reflexivity].
  - rewrite join_scan_cons2. unfold nonempty at 1. destruct (is_empty b) eqn:E.
    + split.
      * destruct rest; discriminate.
      * intros F. inversion F; subst. unfold nonempty in H1. congruence.
    + specialize (IH b). destruct (join_scan rp (b :: rest)) as [r |].
      * split; [discriminate |]. intros F. inversion F; subst. apply IH in H2. discriminate.
      * split; [| reflexivity]. intros _. constructor; [exact E | apply IH; reflexivity].
Qed.

Lemma join_step_none rp t : join_step rp t = None <-> (length t <= 1)%nat \/ Forall nonempty t.
Proof.
  destruct t as [| a [| b rest]].
  - cbn. split; [left; lia | reflexivity].
  - cbn. split; [left; lia | reflexivity].
  - cbn [join_step]. destruct (is_empty a) eqn:E.
    + split; [discriminate |]. intros [L | F]; [cbn in L; lia |]. inversion F; subst. unfold nonempty in H1. congruence.
    + rewrite join_scan_none. split.
      * intros F. right. constructor; assumption.
      * intros [L | F]; [cbn in L; lia |]. inversion F; assumption.
Qed.

Definition joined (t : table) : Prop := join_step true t = None.

Lemma bucket_add_nonempty b p b' : bucket_add b p = Some b' -> nonempty b'.
Proof.
  unfold bucket_add, nonempty, is_empty. intros A.
  destruct (existsb (peer_eqb p) (bpeers b)); [inversion A; cbn; destruct (remove_first _ _); reflexivity |].
  destruct (existsb (fun q => pid q =? pid p) (bpeers b)); [inversion A; cbn; destruct (remove_first _ _); reflexivity |].
  destruct (length (bpeers b) <? K)%nat; [| discriminate]. inversion A; cbn. destruct (bpeers b); reflexivity.
Qed.

Lemma joined_replace pre b b' post : joined (pre ++ b :: post) -> nonempty b' -> joined (pre ++ b' :: post).
Proof.
  unfold joined. rewrite !join_step_none, !app_length. cbn [length]. intros [L | F] N; [left; exact L | right].
  apply Forall_mid in F. apply Forall_mid. tauto.
Qed.

Lemma evict_joined own p snap : forall t,
  WF own t -> Forall (fun q => dist own (pid q) < M) snap -> joined t ->
  forall t1, evict true own snap t p = Some t1 -> joined t1.
Proof.
  induction snap as [| q r IH]; intros t W D J t1; cbn [evict].
  - intros E. inversion E; subst. exact J.
  - inversion D as [| ? ? Dq Dr]; subst. destruct (same_key q p && negb (pid q =? pid p)).
    + destruct (remove_peer_spec own t q W Dq) as (t' & -> & W' & _).
      apply IH; [apply join_wf; exact W' | exact Dr | apply (join_done own); exact W'].
    + apply IH; assumption.
Qed.

(* after the failed probe: the retry inserts at once *)
Lemma add_core_after_remove own e f pre b post p q :
  WF own (pre ++ b :: post) -> find_bucket own (pid p) (pre ++ b :: post) = Some (pre, b, post) ->
  bucket_add b p = None -> In q (bpeers b) ->
  exists b'', nonempty b'' /\
    add_core own e (S f) (pre ++ bucket_remove b q :: post) p = (Ret true, [], pre ++ b'' :: post).
Proof.
  intros W F A Hq. pose proof (find_bucket_some _ _ _ _ _ _ F) as (_ & Rg & Pre).
  pose proof (bucket_add_none _ _ A) as (NoId & Full). destruct W as [C OK I Ky].
  pose proof (proj1 (Forall_mid _ _ _ _) OK) as (_ & (Rb & Lb) & _).
  destruct (bucket_add_after_remove b p q NoId Hq Lb) as (b'' & E).
  exists b''. split; [eapply bucket_add_nonempty; exact E |].
  cbn [add_core]. rewrite (find_bucket_app _ _ _ _ Pre). cbn [find_bucket].
  assert (R' : in_range own (bucket_remove b q) (pid p) = true) by exact Rg. rewrite R', app_nil_r, E. reflexivity.
Qed.

Lemma add_core_more own e fuel : forall t p,
  WF own t -> NC t p -> pid p < M -> own < M ->
  match add_core own e fuel t p with
  | (r, pr, t') =>
      (length pr <= 1)%nat /\
      (r = Ret false \/ r = ErrProbe -> Permutation (contacts t) (contacts t') /\ ~ In (pid p) (map pid (contacts t'))) /\
      (is_ret r = true -> joined t -> joined t')
  end.
Proof.
  induction fuel as [| f IH]; intros t p W N Hp Ho; cbn [add_core].
  { split; [cbn; lia |]. split; [intros [H | H]; discriminate H | cbn; intros H; discriminate H]. }
  pose proof W as [C OK I Ky].
  destruct (find_bucket_chain own (pid p) 0 t M C) as (pre & b & post & F).
  { split; [lia | apply dist_lt_M; assumption]. }
  rewrite F. pose proof (find_bucket_some _ _ _ _ _ _ F) as (Et & Rg & _).
  destruct (bucket_add b p) as [b' |] eqn:A.
  { split; [cbn; lia |]. split; [intros [H | H]; discriminate H |]. intros _ J. subst t.
    eapply joined_replace; [exact J | eapply bucket_add_nonempty; exact A]. }
  pose proof (bucket_add_none _ _ A) as (NoId & Full).
  assert (Nid : ~ In (pid p) (map pid (contacts t))).
  { intros Hin. apply in_map_iff in Hin. destruct Hin as (x & Ex & Hx).
    pose proof (in_contacts_found own t (pid p) pre b post x C OK F Hx Ex) as Hb.
    assert (existsb (fun q => pid q =? pid p) (bpeers b) = true)
      by (apply existsb_exists; exists x; split; [assumption | apply N.eqb_eq; assumption]). congruence. }
  destruct (should_split own (length pre) t (pid p)).
  - destruct (split_bucket own b) as [b1 b2] eqn:S. subst t.
    destruct (split_wf own pre b post b1 b2 W) as (W' & P); [pose proof K_ge_2; lia | exact S |].
    assert (N' : NC (pre ++ b1 :: b2 :: post) p).
    { eapply NC_perm; [exact N |]. intros x Hx. eapply Permutation_in; [symmetry; exact P | exact Hx]. }
    pose proof (add_core_inv own e f _ p W' N' Hp Ho) as Inv.
    specialize (IH (pre ++ b1 :: b2 :: post) p W' N' Hp Ho).
    destruct (add_core own e f (pre ++ b1 :: b2 :: post) p) as [[r pr] t3].
    destruct IH as (I1 & I2 & I3). destruct Inv as (W3 & _).
    destruct (is_ret r) eqn:Rr.
    + assert (Ej : contacts (join true t3) = contacts t3) by (destruct W3; eapply join_contacts; eauto).
      rewrite Ej. split; [exact I1 |]. split.
      * intros Er. destruct (I2 Er) as (P2 & N2). split; [eapply Permutation_trans; eauto | exact N2].
      * intros _ _. apply (join_done own). exact W3.
    + split; [exact I1 |]. split; [| intros H; congruence].
      intros Er. destruct (I2 Er) as (P2 & N2). split; [eapply Permutation_trans; eauto | exact N2].
  - destruct (choose_replace e b) as [q |] eqn:CR.
    2:{ split; [cbn; lia |]. split; [intros _; split; [reflexivity | exact Nid] | auto]. }
    destruct (probe e q).
    1:{ split; [cbn; lia |]. split; [intros _; split; [reflexivity | exact Nid] | auto]. }
    2:{ split; [cbn; lia |]. split; [intros _; split; [reflexivity | exact Nid] | cbn; intros H; discriminate H]. }
    destruct f as [| f'].
    { cbn [add_core]. split; [cbn; lia |]. split; [intros [H | H]; discriminate H | cbn; intros H; discriminate H]. }
    subst t. destruct (add_core_after_remove own e f' pre b post p q W F A (choose_replace_in _ _ _ CR)) as (b'' & Nb & ->).
    split; [cbn; lia |]. split; [intros [H | H]; discriminate H |]. intros _ J.
    eapply joined_replace; [exact J | exact Nb].
Qed.

Lemma add_peer_more own e fuel t p :
  WF own t -> own < M -> pid p < M -> (386 <= fuel)%nat ->
  match add_peer true own e fuel t p with
  | (r, pr, t') =>
      (length pr <= 1)%nat /\ (is_ret r = true -> joined t -> joined t') /\
      (r = Ret false \/ r = ErrProbe ->
         ~ In (pid p) (map pid (contacts t')) /\
         (forall x, In x (contacts t') -> In x (contacts t)) /\
         (forall x, In x (contacts t) -> pkey x <> pkey p -> In x (contacts t')) /\
         (forall x, In x pr -> In x (contacts t')))
  end.
Proof.
  intros W Ho Hp Fu. destruct fuel as [| f]; [lia |].
  destruct (evict_top own p t W) as (t1 & E & W1 & Sb & N1 & Kp).
  assert (J1 : joined t -> joined t1)
    by (intros J; eapply (evict_joined own p (contacts t) t W (contacts_dist_lt own t W) J); exact E).
  assert (Eq : add_peer true own e (S f) t p = add_core own e (S f) t1 p).
  { rewrite <- (add_peer_core own e (S f) t1 p W1 N1). cbn [add_peer]. rewrite E.
    rewrite (evict_noop true own p (contacts t1) t1); [reflexivity |].
    intros x Hx. apply conflict_false_iff. apply N1. exact Hx. }
  rewrite Eq in *.
  pose proof (add_core_more own e (S f) t1 p W1 N1 Hp Ho) as More.
  pose proof (add_core_inv own e (S f) t1 p W1 N1 Hp Ho) as Inv.
  destruct (add_core own e (S f) t1 p) as [[r pr] t'].
  destruct Inv as (_ & _ & _ & _ & _ & I5 & _).
  destruct More as (M1 & M2 & M3).
  split; [exact M1 |]. split; [intros Rr J; apply M3; [exact Rr | apply J1; exact J] |].
  intros Er. destruct (M2 Er) as (P & Np). split; [exact Np |]. split.
  - intros x Hx. eapply sub_In; [exact Sb |]. eapply Permutation_in; [symmetry; exact P | exact Hx].
  - split.
    + intros x Hx Nk. eapply Permutation_in; [exact P |]. apply Kp; [exact Hx |].
      apply conflict_false_iff. intros Sk. apply same_key_pkey in Sk. contradiction.
    + intros x Hx. eapply Permutation_in; [exact P |]. apply (I5 x Hx).
Qed.

Lemma init_joined : joined init.
Proof. reflexivity. Qed.

Lemma step_joined own t o :
  WF own t -> own < M -> op_valid o -> op_nofail o -> joined t -> joined (fst (step true own t o)).
Proof.
  intros W Ho V NF J. destruct o as [p e | | p |]; cbn [step]; try exact J.
  - pose proof (add_peer_more own e FUEL t p W Ho V FUEL_ge) as H.
    pose proof (add_peer_facts own e FUEL t p W Ho V FUEL_ge) as Facts.
    destruct (add_peer true own e FUEL t p) as [[r pr] t']. cbn.
    destruct H as (_ & H & _). destruct Facts as (_ & [(v & ->) | (_ & q & _ & Pq)] & _).
    + apply H; [reflexivity | exact J].
    + exfalso. exact (NF q Pq).
  - cbn in V. unfold remove_peer.
    destruct (find_bucket own (pid p) t) as [[[pre b] post] |] eqn:F; [| exact J].
    destruct (existsb (peer_eqb p) (bpeers b)) eqn:Ex; [| exact J]. cbn [fst].
    pose proof (find_bucket_some _ _ _ _ _ _ F) as (Et & _ & _). subst t.
    destruct (wf_replace_sub own pre b (bucket_remove b p) post W eq_refl eq_refl (remove_first_sub _ _)) as (W' & _).
    apply (join_done own). exact W'.
Qed.

Lemma run_from_joined own ops : forall t,
  WF own t -> own < M -> Forall op_valid ops -> Forall op_nofail ops -> joined t ->
  joined (fst (run_from true own t ops)).
Proof.
  induction ops as [| o r IH]; intros t W Ho V NF J; cbn [run_from]; [exact J |].
  inversion V; subst. inversion NF; subst. pose proof (step_wf own t o W Ho H1) as (W' & _).
  pose proof (step_joined own t o W Ho H1 H3 J) as J'.
  destruct (step true own t o) as [t' x]. cbn [fst] in *.
  specialize (IH t' W' Ho H2 H4 J'). destruct (run_from true own t' r). exact IH.
Qed.

Lemma run_joined own ops : own < M -> Forall op_valid ops -> Forall op_nofail ops -> joined (run own ops).
Proof.
  intros Ho V NF. unfold run. apply run_from_joined; [apply init_wf | exact Ho | exact V | exact NF | exact init_joined].
Qed.
