(* C16 proofs, part (f): fee addresses and signature state. *)
From Coq Require Import NArith List Bool Lia.
From Coq.Strings Require Import Byte.
From LV Require Import Lib.Bytes Model.C06 Proofs.C06_Base58 Model.C16_Env Model.C16_Fee Proofs.C16_Env.
Import ListNotations.

(* every address (any byte string with a non-zero byte, leading zero bytes included -- Bitcoin-style '1...'
   addresses): the text shown for the stored bytes decodes to those bytes *)
Lemma fee_address_roundtrip b : (exists c, In c b /\ c <> x00) ->
  exists t, fee_address b = Some t /\ fee_address_bytes t = Ok b.
Proof.
  intro H. destruct (b58_roundtrip b H) as [t [He Hd]]. exists t. unfold fee_address, fee_address_bytes.
  destruct b as [|x r]; [destruct H as [c [[] _]]|]. rewrite He. split; [reflexivity | exact Hd].
Qed.

(* and the other way: an address text (not all '1') that is stored reads back as the same text *)
Lemma fee_address_text_roundtrip t b : fee_address_bytes t = Ok b -> (exists c, In c t /\ c <> one_char) ->
  fee_address b = Some t.
Proof.
  intros Hd Hn. pose proof (b58_decode_encode t b Hd Hn) as He. unfold fee_address.
  destruct b as [|x r]; [rewrite b58_encode_empty in He; discriminate|]. rewrite He. reflexivity.
Qed.

(* a leading zero byte shows as a leading '1', in front *)
Lemma fee_address_leading_zero r t : fee_address (x00 :: r) = Some t -> exists t', t = one_char :: t'.
Proof.
  unfold fee_address, b58_encode. cbn [count_leading]. rewrite byte_eqb_refl. cbn [repeat app].
  intro H. inversion H. eexists. reflexivity.
Qed.

(* ---------- signature state ---------- *)
Definition sig_consistent (s : sigstate) : Prop :=
  match st_signature s, st_channel_hash s with
  | None, None => True
  | Some sg, Some h => length h = 20%nat /\ length sg = 64%nat
  | _, _ => False
  end.

Lemma sig_apply_consistent s o : sigop_wf o -> sig_consistent (sig_apply s o).
Proof. destruct o as [h sg|]; cbn; auto. Qed.

Lemma sig_run_consistent ops : Forall sigop_wf ops -> sig_consistent (sig_run ops).
Proof.
  unfold sig_run. assert (G : forall s, sig_consistent s -> Forall sigop_wf ops -> sig_consistent (fold_left sig_apply ops s)).
  { induction ops as [|o ops IH]; intros s Hs Hf; [exact Hs|]. inversion Hf; subst. cbn [fold_left].
    apply IH; [apply sig_apply_consistent; assumption | assumption]. }
  apply G. exact I.
Qed.

(* after ANY history of signing and clearing, the object equals what its own bytes parse back to: the bytes
   decode, and the decoded signature state (signature AND channel) is the state of the object *)
Lemma sig_reparse ops payload : Forall sigop_wf ops ->
  exists d, sig_to_bytes (sig_run ops) payload = Some d /\
            exists e, env_decode d = EnvOk e /\ sig_of_env e = sig_run ops /\ env_payload e = payload.
Proof.
  intro Hf. pose proof (sig_run_consistent ops Hf) as C. destruct (sig_run ops) as [[sg|] [h|]]; cbn in C; try contradiction.
  - exists (env_encode (Signed h sg payload)). split; [reflexivity|]. exists (Signed h sg payload).
    split; [apply env_roundtrip; exact C|]. split; reflexivity.
  - exists (env_encode (Unsigned payload)). split; [reflexivity|]. exists (Unsigned payload).
    split; [apply env_roundtrip; exact I|]. split; reflexivity.
Qed.

(* in particular: once cleared, no channel is reported any more *)
Lemma sig_clear_forgets_channel ops : st_channel_hash (sig_run (ops ++ [OpClear])) = None /\
                                      st_signature (sig_run (ops ++ [OpClear])) = None.
Proof. unfold sig_run. rewrite fold_left_app. split; reflexivity. Qed.

(* ---------- typed views ---------- *)
Lemma claim_view_typed c req : fst (claim_view (Some c) req) = Some c /\ (snd (claim_view (Some c) req) = true <-> c = req).
Proof. cbn. split; [reflexivity | apply N.eqb_eq]. Qed.

Lemma claim_view_fresh req : claim_view None req = (Some req, true).
Proof. reflexivity. Qed.

(* any number of requests, granted or refused, leave a typed claim with the type it had *)
Lemma claim_view_history c reqs : fold_left (fun cur r => fst (claim_view cur r)) reqs (Some c) = Some c.
Proof. induction reqs as [|r reqs IH]; [reflexivity | exact IH]. Qed.
