(* C14 lemmas: an invariant of the interleaved builds, preserved by every step of every build,
   hence by every schedule. *)
From Coq Require Import NArith ZArith List Bool Arith Lia.
From LV Require Import Model.C03 Model.C14 Proofs.C03.
Import ListNotations.

Lemma in_spend u f ids w : In (u, f) (spend ids w) <-> In (u, f) w /\ ~ In (uid u) ids.
Proof. unfold spend. rewrite filter_In. simpl. rewrite negb_true_iff, mem_id_false. tauto. Qed.
Section Inv.
  Variable n : nat.
  Variable choose : nat -> nat -> list utxo -> list utxo.
  Variable more : nat -> nat -> list utxo -> bool.
  Variable finish : nat -> bool.
  Variable pre : nat -> list utxo.
  Variable start : nat -> bool.
  Variable quits : nat -> nat -> bool.
  Variable can_sign : nat -> list utxo -> bool.
  Hypothesis pre_nd : forall b, NoDup (map uid (pre b)).
  (* what C03_select_sound proves of the real chooser *)
  Hypothesis choose_ok : forall b r l,
    NoDup (map uid l) -> incl (choose b r l) l /\ NoDup (map uid (choose b r l)).
  Variable w0 : wallet.

  Record Inv (st : state) : Prop := {
    I_nodup : NoDup (ids_of (wal st));
    I_crit : forall b, crit (ph (bs st b)) = true -> lock st = Some b;
    I_held : forall b u, In u (held (bs st b)) -> In (u, true) (wal st);
    I_held_nd : forall b, NoDup (map uid (held (bs st b)));
    I_disj : forall b1 b2 u1 u2, b1 <> b2 ->
             In u1 (held (bs st b1)) -> In u2 (held (bs st b2)) -> uid u1 <> uid u2;
    I_snap : forall b, ph (bs st b) = PSelect ->
             (forall u, In u (snap (bs st b)) -> In (u, false) (wal st)) /\ NoDup (map uid (snap (bs st b)));
    I_sel : forall b, ph (bs st b) = PReserve ->
            (forall u, In u (sel (bs st b)) -> In (u, false) (wal st)) /\ NoDup (map uid (sel (bs st b)));
    I_res : forall u, In (u, true) (wal st) -> exists b, In u (held (bs st b));
    I_out : forall b, n <= b -> bs st b = init_build;
    I_fin : forall b, finished (ph (bs st b)) = true -> held (bs st b) = [];
    I_same : (forall b, ph (bs st b) <> PDone Broadcast) -> map fst (wal st) = map fst w0
  }.

  Lemma upd_same f b x : upd f b x b = x.
  Proof. unfold upd. rewrite Nat.eqb_refl. reflexivity. Qed.
  Lemma upd_other f b x i : i <> b -> upd f b x i = f i.
  Proof. unfold upd. intro H. apply Nat.eqb_neq in H. rewrite H. reflexivity. Qed.

  Ltac split_b b i :=
    destruct (Nat.eq_dec i b) as [->|?]; [rewrite ?upd_same in * | rewrite ?upd_other in * by assumption].

  Lemma init_inv : NoDup (ids_of w0) -> (forall e, In e w0 -> snd e = false) -> Inv (init w0).
  Proof.
    intros N F. constructor; simpl.
    - exact N.
    - intros; discriminate.
    - intros b u [].
    - intros; constructor.
    - intros b1 b2 u1 u2 _ [].
    - intros; discriminate.
    - intros; discriminate.
    - intros u H. apply F in H. discriminate.
    - reflexivity.
    - intros; discriminate.
    - reflexivity.
  Qed.

  (* not being held by the stepping build: used for release / spend *)
  Lemma other_not_in st b b' u :
    Inv st -> b' <> b -> In u (held (bs st b')) -> ~ In (uid u) (map uid (held (bs st b))).
  Proof.
    intros I Hne Hu Hin. apply in_map_uid in Hin. destruct Hin as [u2 [H2 E]].
    exact (I_disj st I b' b u u2 Hne Hu H2 (eq_sym E)).
  Qed.
  Lemma free_not_held st b u :
    Inv st -> In (u, false) (wal st) -> ~ In (uid u) (map uid (held (bs st b))).
  Proof.
    intros I Hu Hin. apply in_map_uid in Hin. destruct Hin as [u2 [H2 E]].
    apply (I_held st I) in H2.
    destruct (ids_unique (wal st) u2 true u false (I_nodup st I) H2 Hu E) as [_ X]. discriminate.
  Qed.

  (* taking the inputs of build b out of the reserved set, by release or by spending them *)
  Lemma drop_held_inv st b (w' : wallet) p :
    Inv st -> b < n -> crit (ph (bs st b)) = false -> finished (ph (bs st b)) = false -> finished p = true ->
    (p = PDone Broadcast \/ map fst w' = map fst (wal st)) ->
    NoDup (ids_of w') ->
    (forall u f, In (u, f) w' -> (In (u, f) (wal st) /\ ~ In (uid u) (map uid (held (bs st b)))) \/ f = false) ->
    (forall u f, In (u, f) (wal st) -> ~ In (uid u) (map uid (held (bs st b))) -> In (u, f) w') ->
    (forall u, In (u, false) (wal st) -> In (u, false) w') ->
    Inv (mkS w' (lock st) (upd (bs st) b (mkB p (rnd (bs st b)) [] [] []))).
  Proof.
    intros I Hb Hc Hnf Hp Hfst Hnd Hsub Hkeep Hfree.
    constructor; simpl.
    - assumption.
    - intros i. split_b b i; simpl.
      + destruct p; simpl in *; try discriminate.
      + apply (I_crit st I).
    - intros i u. split_b b i; simpl; [intros []|]. intro Hu.
      apply Hkeep; [apply (I_held st I i); assumption | eapply other_not_in; eauto].
    - intros i. split_b b i; simpl; [constructor | apply (I_held_nd st I)].
    - intros b1 b2 u1 u2 Hne. split_b b b1; simpl; [intros []|]. split_b b b2; simpl; [intros _ []|].
      apply (I_disj st I); assumption.
    - intros i. split_b b i; simpl; [destruct p; simpl in *; discriminate|]. intro Hph.
      destruct (I_snap st I i Hph) as [S1 S2]. split; [|assumption]. intros u Hu. apply Hfree, S1; assumption.
    - intros i. split_b b i; simpl; [destruct p; simpl in *; discriminate|]. intro Hph.
      destruct (I_sel st I i Hph) as [S1 S2]. split; [|assumption]. intros u Hu. apply Hfree, S1; assumption.
    - intros u Hu. destruct (Hsub u true Hu) as [[H1 H2]|H]; [|discriminate].
      destruct (I_res st I u H1) as [i Hi]. exists i.
      split_b b i; [exfalso; apply H2; apply in_map; assumption | assumption].
    - intros i Hi. rewrite upd_other by lia. apply (I_out st I); assumption.
    - intros i. split_b b i; simpl; [reflexivity | apply (I_fin st I)].
    - intros Hall. destruct Hfst as [->|Hfst].
      + exfalso. apply (Hall b). rewrite upd_same. reflexivity.
      + rewrite Hfst. apply (I_same st I). intros i Hi. apply (Hall i).
        split_b b i; simpl.
        * exfalso. rewrite Hi in Hnf. discriminate.
        * assumption.
  Qed.

  (* a cancelled build goes to Abort with what it holds; nothing else changes *)
  Lemma abort_from st b :
    Inv st -> b < n -> crit (ph (bs st b)) = false -> finished (ph (bs st b)) = false ->
    Inv (mkS (wal st) (lock st) (upd (bs st) b (mkB PAbort (rnd (bs st b)) [] [] (held (bs st b))))).
  Proof.
    intros I Hb Hc Hf. constructor; simpl.
    - apply (I_nodup st I).
    - intros i. split_b b i; simpl; [discriminate | apply (I_crit st I)].
    - intros i u. split_b b i; simpl; apply (I_held st I).
    - intros i. split_b b i; simpl; apply (I_held_nd st I).
    - intros b1 b2 u1 u2 Hne. split_b b b1; split_b b b2; simpl; try congruence; apply (I_disj st I); assumption.
    - intros i. split_b b i; simpl; [discriminate | apply (I_snap st I)].
    - intros i. split_b b i; simpl; [discriminate | apply (I_sel st I)].
    - intros u Hu. destruct (I_res st I u Hu) as [i Hi]. exists i. split_b b i; simpl; assumption.
    - intros i Hi. rewrite upd_other by lia. apply (I_out st I); assumption.
    - intros i. split_b b i; simpl; [discriminate | apply (I_fin st I)].
    - intros Hall. apply (I_same st I). intros i. specialize (Hall i). split_b b i; simpl in *; [|assumption].
      intro E. rewrite E in Hf. discriminate.
  Qed.

  (* a build's pre-chosen wallet outputs are unreserved at the moment it reserves them *)
  Definition fresh (st : state) (b : nat) : Prop :=
    ph (bs st b) = PPre -> forall u, In u (pre b) -> In (u, false) (wal st).

  Lemma step_inv st b : Inv st -> fresh st b -> Inv (step true true n choose more finish pre start quits can_sign st b).
  Proof.
    intros I Hfresh. unfold step. destruct (n <=? b) eqn:Hn; [assumption|]. apply Nat.leb_gt in Hn.
    destruct (ph (bs st b)) eqn:P.
    - (* PreLock *)
      destruct (lock st) eqn:L; [assumption|].
      constructor; simpl.
      + apply (I_nodup st I).
      + intros i. split_b b i; simpl; [reflexivity|]. intro Hc. apply (I_crit st I) in Hc. congruence.
      + intros i u. split_b b i; simpl; apply (I_held st I).
      + intros i. split_b b i; simpl; apply (I_held_nd st I).
      + intros b1 b2 u1 u2 Hne. split_b b b1; split_b b b2; simpl; apply (I_disj st I); assumption.
      + intros i. split_b b i; simpl; [discriminate | apply (I_snap st I)].
      + intros i. split_b b i; simpl; [discriminate | apply (I_sel st I)].
      + intros u Hu. destruct (I_res st I u Hu) as [i Hi]. exists i. split_b b i; simpl; assumption.
      + intros i Hi. rewrite upd_other by lia. apply (I_out st I); assumption.
      + intros i. split_b b i; simpl; [discriminate | apply (I_fin st I)].
      + intros Hall. apply (I_same st I). intros i. specialize (Hall i). split_b b i; simpl in *; [congruence | assumption].
    - (* Pre: the pre-chosen outputs are free (premise) and nobody else is inside the lock *)
      pose proof (Hfresh P) as S1. pose proof (pre_nd b) as S2.
      assert (Hlock : lock st = Some b) by (apply (I_crit st I); rewrite P; reflexivity).
      unfold reserve.
      assert (Hup : forall u, In (u, true) (wal st) -> In (u, true) (set_reserved true (map uid (pre b)) (wal st))).
      { intros u Hu. apply in_set_reserved.
        destruct (in_dec N.eq_dec (uid u) (map uid (pre b))); [right; eauto | left; auto]. }
      assert (Hnew : forall u, In u (pre b) -> In (u, true) (set_reserved true (map uid (pre b)) (wal st))).
      { intros u Hu. apply in_set_reserved. right. split; [reflexivity|]. split; [apply in_map; assumption|].
        exists false. apply S1; assumption. }
      constructor; simpl.
      + rewrite ids_set_reserved. apply (I_nodup st I).
      + intros i. split_b b i; simpl; [intros _; assumption | apply (I_crit st I)].
      + intros i u. split_b b i; simpl.
        * rewrite in_app_iff. intros [Hu|Hu]; [apply Hup, (I_held st I b); assumption | apply Hnew; assumption].
        * intro Hu. apply Hup, (I_held st I i); assumption.
      + intros i. split_b b i; simpl; [|apply (I_held_nd st I)].
        rewrite map_app. apply NoDup_app_uid; [apply (I_held_nd st I) | assumption|].
        intros x Hx1 Hx2. apply in_map_uid in Hx2. destruct Hx2 as [u2 [Hu2 E2]]. subst x.
        apply S1 in Hu2. exact (free_not_held st b u2 I Hu2 Hx1).
      + intros b1 b2 u1 u2 Hne. split_b b b1; split_b b b2; simpl; try congruence.
        * rewrite in_app_iff. intros [H1|H1] H2; [apply (I_disj st I b b2); assumption|].
          intro E. apply S1 in H1. apply (free_not_held st b2 u1 I H1). rewrite E. apply in_map; assumption.
        * rewrite in_app_iff. intros H1 [H2|H2]; [apply (I_disj st I b1 b); assumption|].
          intro E. apply S1 in H2. apply (free_not_held st b1 u2 I H2). rewrite <- E. apply in_map; assumption.
        * apply (I_disj st I); assumption.
      + intros i. split_b b i; simpl; [discriminate|]. intro Hph.
        assert (lock st = Some i) by (apply (I_crit st I); rewrite Hph; reflexivity). congruence.
      + intros i. split_b b i; simpl; [discriminate|]. intro Hph.
        assert (lock st = Some i) by (apply (I_crit st I); rewrite Hph; reflexivity). congruence.
      + intros u Hu. apply in_set_reserved in Hu. destruct Hu as [[Hu _]|[_ [Hi [f0 Hf0]]]].
        * destruct (I_res st I u Hu) as [i Hi]. exists i. split_b b i; simpl; [apply in_app_iff; left|]; assumption.
        * exists b. rewrite upd_same; simpl. apply in_app_iff; right.
          apply in_map_uid in Hi. destruct Hi as [u2 [Hu2 E]].
          pose proof (S1 u2 Hu2) as H2.
          destruct (ids_unique (wal st) u2 false u f0 (I_nodup st I) H2 Hf0 E) as [-> _]. assumption.
      + intros i Hi. rewrite upd_other by lia. apply (I_out st I); assumption.
      + intros i. split_b b i; simpl; [discriminate | apply (I_fin st I)].
      + intros Hall. rewrite fst_set_reserved. apply (I_same st I). intros i. specialize (Hall i).
        split_b b i; simpl in *; [congruence | assumption].
    - (* PreUnlock *)
      assert (Hlock : lock st = Some b) by (apply (I_crit st I); rewrite P; reflexivity).
      set (B' := if start b then mkB PLock (rnd (bs st b)) [] [] (held (bs st b))
                 else if can_sign b (held (bs st b)) then mkB PFinish (rnd (bs st b)) [] [] (held (bs st b))
                 else mkB PAbort (rnd (bs st b)) [] [] (held (bs st b))).
      assert (HB : held B' = held (bs st b) /\ crit (ph B') = false /\ finished (ph B') = false /\
                   ph B' <> PSelect /\ ph B' <> PReserve /\ ph B' <> PDone Broadcast).
      { unfold B'. destruct (start b); [|destruct (can_sign _ _)]; simpl; repeat split; discriminate. }
      destruct HB as [Hh [Hc [Hf [Hp1 [Hp2 Hp3]]]]].
      constructor; simpl.
      + apply (I_nodup st I).
      + intros i. split_b b i; simpl; [congruence|]. intro Hcr. apply (I_crit st I) in Hcr. congruence.
      + intros i u. split_b b i; simpl; [rewrite Hh|]; apply (I_held st I).
      + intros i. split_b b i; simpl; [rewrite Hh|]; apply (I_held_nd st I).
      + intros b1 b2 u1 u2 Hne. split_b b b1; split_b b b2; simpl; rewrite ?Hh; try congruence; apply (I_disj st I); assumption.
      + intros i. split_b b i; simpl; [congruence | apply (I_snap st I)].
      + intros i. split_b b i; simpl; [congruence | apply (I_sel st I)].
      + intros u Hu. destruct (I_res st I u Hu) as [i Hi]. exists i. split_b b i; simpl; [rewrite Hh|]; assumption.
      + intros i Hi. rewrite upd_other by lia. apply (I_out st I); assumption.
      + intros i. split_b b i; simpl; [congruence | apply (I_fin st I)].
      + intros Hall. apply (I_same st I). intros i. specialize (Hall i). split_b b i; simpl in *; [congruence | assumption].
    - (* Lock *)
      destruct (quits b (rnd (bs st b))); [apply abort_from; try assumption; rewrite P; reflexivity|].
      destruct (lock st) eqn:L; [assumption|].
      constructor; simpl.
      + apply (I_nodup st I).
      + intros i. split_b b i; simpl; [reflexivity|]. intro Hc. apply (I_crit st I) in Hc. congruence.
      + intros i u. split_b b i; simpl; apply (I_held st I).
      + intros i. split_b b i; simpl; apply (I_held_nd st I).
      + intros b1 b2 u1 u2 Hne. split_b b b1; split_b b b2; simpl; apply (I_disj st I); assumption.
      + intros i. split_b b i; simpl; [discriminate | apply (I_snap st I)].
      + intros i. split_b b i; simpl; [discriminate | apply (I_sel st I)].
      + intros u Hu. destruct (I_res st I u Hu) as [i Hi]. exists i. split_b b i; simpl; assumption.
      + intros i Hi. rewrite upd_other by lia. apply (I_out st I); assumption.
      + intros i. split_b b i; simpl; [discriminate | apply (I_fin st I)].
      + intros Hall. apply (I_same st I). intros i. specialize (Hall i). split_b b i; simpl in *; [congruence | assumption].
    - (* Read *)
      constructor; simpl.
      + apply (I_nodup st I).
      + intros i. split_b b i; simpl; [intros _; apply (I_crit st I); rewrite P; reflexivity | apply (I_crit st I)].
      + intros i u. split_b b i; simpl; apply (I_held st I).
      + intros i. split_b b i; simpl; apply (I_held_nd st I).
      + intros b1 b2 u1 u2 Hne. split_b b b1; split_b b b2; simpl; apply (I_disj st I); assumption.
      + intros i. split_b b i; simpl; [|apply (I_snap st I)]. intros _. split.
        * intros u Hu. apply in_unreserved; assumption.
        * apply NoDup_unreserved, (I_nodup st I).
      + intros i. split_b b i; simpl; [discriminate | apply (I_sel st I)].
      + intros u Hu. destruct (I_res st I u Hu) as [i Hi]. exists i. split_b b i; simpl; assumption.
      + intros i Hi. rewrite upd_other by lia. apply (I_out st I); assumption.
      + intros i. split_b b i; simpl; [discriminate | apply (I_fin st I)].
      + intros Hall. apply (I_same st I). intros i. specialize (Hall i). split_b b i; simpl in *; [congruence | assumption].
    - (* Select *)
      destruct (I_snap st I b P) as [S1 S2].
      destruct (choose_ok b (rnd (bs st b)) (snap (bs st b)) S2) as [C1 C2].
      constructor; simpl.
      + apply (I_nodup st I).
      + intros i. split_b b i; simpl; [intros _; apply (I_crit st I); rewrite P; reflexivity | apply (I_crit st I)].
      + intros i u. split_b b i; simpl; apply (I_held st I).
      + intros i. split_b b i; simpl; apply (I_held_nd st I).
      + intros b1 b2 u1 u2 Hne. split_b b b1; split_b b b2; simpl; apply (I_disj st I); assumption.
      + intros i. split_b b i; simpl; [discriminate | apply (I_snap st I)].
      + intros i. split_b b i; simpl; [|apply (I_sel st I)]. intros _. split; [|assumption].
        intros u Hu. apply S1, C1; assumption.
      + intros u Hu. destruct (I_res st I u Hu) as [i Hi]. exists i. split_b b i; simpl; assumption.
      + intros i Hi. rewrite upd_other by lia. apply (I_out st I); assumption.
      + intros i. split_b b i; simpl; [discriminate | apply (I_fin st I)].
      + intros Hall. apply (I_same st I). intros i. specialize (Hall i). split_b b i; simpl in *; [congruence | assumption].
    - (* Reserve *)
      destruct (I_sel st I b P) as [S1 S2].
      assert (Hlock : lock st = Some b) by (apply (I_crit st I); rewrite P; reflexivity).
      assert (Hw : (if nonempty (sel (bs st b)) then reserve (sel (bs st b)) (wal st) else wal st)
                   = reserve (sel (bs st b)) (wal st)).
      { destruct (sel (bs st b)); simpl; [|reflexivity]. unfold reserve, set_reserved. simpl.
        rewrite <- (map_id (wal st)) at 1. apply map_ext. intros [u f]; reflexivity. }
      rewrite Hw. clear Hw. unfold reserve.
      assert (Hup : forall u, In (u, true) (wal st) -> In (u, true) (set_reserved true (map uid (sel (bs st b))) (wal st))).
      { intros u Hu. apply in_set_reserved.
        destruct (in_dec N.eq_dec (uid u) (map uid (sel (bs st b)))); [right; eauto | left; auto]. }
      assert (Hnew : forall u, In u (sel (bs st b)) -> In (u, true) (set_reserved true (map uid (sel (bs st b))) (wal st))).
      { intros u Hu. apply in_set_reserved. right. split; [reflexivity|]. split; [apply in_map; assumption|].
        exists false. apply S1; assumption. }
      constructor; simpl.
      + rewrite ids_set_reserved. apply (I_nodup st I).
      + intros i. split_b b i; simpl; [intros _; assumption | apply (I_crit st I)].
      + intros i u. split_b b i; simpl.
        * rewrite in_app_iff. intros [Hu|Hu]; [apply Hup, (I_held st I b); assumption | apply Hnew; assumption].
        * intro Hu. apply Hup, (I_held st I i); assumption.
      + intros i. split_b b i; simpl; [|apply (I_held_nd st I)].
        rewrite map_app. apply NoDup_app_uid; [apply (I_held_nd st I) | assumption|].
        intros x Hx1 Hx2. apply in_map_uid in Hx2. destruct Hx2 as [u2 [Hu2 E2]]. subst x.
        apply S1 in Hu2. exact (free_not_held st b u2 I Hu2 Hx1).
      + intros b1 b2 u1 u2 Hne. split_b b b1; split_b b b2; simpl; try congruence.
        * rewrite in_app_iff. intros [H1|H1] H2; [apply (I_disj st I b b2); assumption|].
          intro E. apply S1 in H1. apply (free_not_held st b2 u1 I H1). rewrite E. apply in_map; assumption.
        * rewrite in_app_iff. intros H1 [H2|H2]; [apply (I_disj st I b1 b); assumption|].
          intro E. apply S1 in H2. apply (free_not_held st b1 u2 I H2). rewrite <- E. apply in_map; assumption.
        * apply (I_disj st I); assumption.
      + intros i. split_b b i; simpl; [discriminate|]. intro Hph.
        assert (lock st = Some i) by (apply (I_crit st I); rewrite Hph; reflexivity). congruence.
      + intros i. split_b b i; simpl; [discriminate|]. intro Hph.
        assert (lock st = Some i) by (apply (I_crit st I); rewrite Hph; reflexivity). congruence.
      + intros u Hu. apply in_set_reserved in Hu. destruct Hu as [[Hu _]|[_ [Hi [f0 Hf0]]]].
        * destruct (I_res st I u Hu) as [i Hi]. exists i. split_b b i; simpl; [apply in_app_iff; left|]; assumption.
        * exists b. rewrite upd_same; simpl. apply in_app_iff; right.
          apply in_map_uid in Hi. destruct Hi as [u2 [Hu2 E]].
          pose proof (S1 u2 Hu2) as H2.
          destruct (ids_unique (wal st) u2 false u f0 (I_nodup st I) H2 Hf0 E) as [-> _]. assumption.
      + intros i Hi. rewrite upd_other by lia. apply (I_out st I); assumption.
      + intros i. split_b b i; simpl; [discriminate | apply (I_fin st I)].
      + intros Hall. rewrite fst_set_reserved. apply (I_same st I). intros i. specialize (Hall i).
        split_b b i; simpl in *; [congruence | assumption].
    - (* Unlock *)
      assert (Hlock : lock st = Some b) by (apply (I_crit st I); rewrite P; reflexivity).
      set (B' := if nonempty (sel (bs st b)) then
                   if more b (rnd (bs st b)) (held (bs st b))
                   then mkB PLock (S (rnd (bs st b))) [] [] (held (bs st b))
                   else if can_sign b (held (bs st b))
                        then mkB PFinish (S (rnd (bs st b))) [] [] (held (bs st b))
                        else mkB PAbort (S (rnd (bs st b))) [] [] (held (bs st b))
                 else mkB PAbort (rnd (bs st b)) [] [] (held (bs st b))).
      assert (HB : held B' = held (bs st b) /\ crit (ph B') = false /\ finished (ph B') = false /\
                   ph B' <> PSelect /\ ph B' <> PReserve /\ ph B' <> PDone Broadcast).
      { unfold B'. destruct (nonempty _); [destruct (more _ _ _); [|destruct (can_sign _ _)]|]; simpl; repeat split; discriminate. }
      destruct HB as [Hh [Hc [Hf [Hp1 [Hp2 Hp3]]]]].
      constructor; simpl.
      + apply (I_nodup st I).
      + intros i. split_b b i; simpl; [congruence|]. intro Hcr. apply (I_crit st I) in Hcr. congruence.
      + intros i u. split_b b i; simpl; [rewrite Hh|]; apply (I_held st I).
      + intros i. split_b b i; simpl; [rewrite Hh|]; apply (I_held_nd st I).
      + intros b1 b2 u1 u2 Hne. split_b b b1; split_b b b2; simpl; rewrite ?Hh; try congruence; apply (I_disj st I); assumption.
      + intros i. split_b b i; simpl; [congruence | apply (I_snap st I)].
      + intros i. split_b b i; simpl; [congruence | apply (I_sel st I)].
      + intros u Hu. destruct (I_res st I u Hu) as [i Hi]. exists i. split_b b i; simpl; [rewrite Hh|]; assumption.
      + intros i Hi. rewrite upd_other by lia. apply (I_out st I); assumption.
      + intros i. split_b b i; simpl; [congruence | apply (I_fin st I)].
      + intros Hall. apply (I_same st I). intros i. specialize (Hall i). split_b b i; simpl in *; [congruence | assumption].
    - (* Abort: release_tx *)
      apply drop_held_inv; auto; try (rewrite P; reflexivity).
      + right. apply fst_set_reserved.
      + unfold release. rewrite ids_set_reserved. apply (I_nodup st I).
      + intros u f Hu. apply in_set_reserved in Hu. destruct Hu as [Hu|[Hu _]]; [left | right]; assumption.
      + intros u f Hu Hni. apply in_set_reserved. left; auto.
      + intros u Hu. apply in_set_reserved.
        destruct (in_dec N.eq_dec (uid u) (map uid (held (bs st b)))); [right; eauto | left; auto].
    - (* Finish *)
      destruct (quits b (rnd (bs st b))); [apply abort_from; try assumption; rewrite P; reflexivity|].
      destruct (finish b).
      + apply drop_held_inv; auto; try (rewrite P; reflexivity).
        * apply (NoDup_map_filter (fun e : utxo * bool => uid (fst e))). apply (I_nodup st I).
        * intros u f Hu. apply in_spend in Hu. left; assumption.
        * intros u f Hu Hni. apply in_spend; auto.
        * intros u Hu. apply in_spend. split; [assumption | eapply free_not_held; eauto].
      + apply drop_held_inv; auto; try (rewrite P; reflexivity).
        * right. apply fst_set_reserved.
        * unfold release. rewrite ids_set_reserved. apply (I_nodup st I).
        * intros u f Hu. apply in_set_reserved in Hu. destruct Hu as [Hu|[Hu _]]; [left | right]; assumption.
        * intros u f Hu Hni. apply in_set_reserved. left; auto.
        * intros u Hu. apply in_set_reserved.
          destruct (in_dec N.eq_dec (uid u) (map uid (held (bs st b)))); [right; eauto | left; auto].
    - assumption.
  Qed.

  (* every build finds its pre-chosen outputs unreserved when it reserves them, along the whole schedule *)
  Fixpoint fresh_sched (sched : list nat) (st : state) : Prop :=
    match sched with
    | [] => True
    | b :: s => fresh st b /\ fresh_sched s (step true true n choose more finish pre start quits can_sign st b)
    end.

  Lemma run_inv sched : forall st, Inv st -> fresh_sched sched st ->
    Inv (run true true n choose more finish pre start quits can_sign sched st).
  Proof.
    induction sched as [|b s IH]; intros st I F; simpl; [assumption|]. destruct F as [F1 F2].
    apply IH; [apply step_inv; assumption | assumption].
  Qed.

  Lemma fresh_sched_nil_pre sched : (forall b, pre b = []) -> forall st, fresh_sched sched st.
  Proof.
    intro Hn. induction sched as [|b s IH]; intro st; simpl; [exact I|]. split; [|apply IH].
    intros _ u Hu. rewrite Hn in Hu. destruct Hu.
  Qed.

  (* ---------------------------------------------------------------- the theorems *)
  Hypothesis w0_nodup : NoDup (ids_of w0).
  Hypothesis w0_free : forall e, In e w0 -> snd e = false.

  Theorem exclusive sched :
    fresh_sched sched (init w0) ->
    let st := run true true n choose more finish pre start quits can_sign sched (init w0) in
    (forall b1 b2 i, b1 <> b2 -> In i (held_ids st b1) -> In i (held_ids st b2) -> False) /\
    (forall b, NoDup (held_ids st b)) /\
    (forall i, In i (reserved_ids (wal st)) <-> exists b, b < n /\ In i (held_ids st b)) /\
    (forall b u, In u (held (bs st b)) -> ~ In u (unreserved (wal st))).
  Proof.
    intros F st. assert (I : Inv st) by (apply run_inv; [apply init_inv; assumption | assumption]).
    split; [|split; [|split]].
    - intros b1 b2 i Hne H1 H2. unfold held_ids in *. apply in_map_uid in H1, H2.
      destruct H1 as [u1 [H1 E1]], H2 as [u2 [H2 E2]].
      apply (I_disj st I b1 b2 u1 u2 Hne H1 H2). congruence.
    - intro b. apply (I_held_nd st I).
    - intro i. rewrite in_reserved_ids. split.
      + intros [u [Hu E]]. destruct (I_res st I u Hu) as [b Hb]. exists b. split.
        * destruct (le_lt_dec n b) as [Hle|]; [|assumption]. rewrite (I_out st I b Hle) in Hb. destruct Hb.
        * unfold held_ids. rewrite <- E. apply in_map; assumption.
      + intros [b [_ Hb]]. unfold held_ids in Hb. apply in_map_uid in Hb. destruct Hb as [u [Hu E]].
        exists u. split; [apply (I_held st I b); assumption | assumption].
    - intros b u Hu Hfree. apply in_unreserved in Hfree. apply (I_held st I) in Hu.
      destruct (ids_unique (wal st) u true u false (I_nodup st I) Hu Hfree eq_refl) as [_ X]. discriminate.
  Qed.

  Lemma all_false_eq (w w' : wallet) :
    map fst w = map fst w' -> (forall e, In e w -> snd e = false) -> (forall e, In e w' -> snd e = false) -> w = w'.
  Proof.
    revert w'; induction w as [|[u f] w IH]; intros [|[u' f'] w']; simpl; intros E F F'; try discriminate; [reflexivity|].
    inversion E; subst.
    assert (f = false) by (apply (F (u', f)); left; reflexivity).
    assert (f' = false) by (apply (F' (u', f')); left; reflexivity). subst.
    f_equal. apply IH; auto.
  Qed.

  Theorem all_released sched :
    fresh_sched sched (init w0) ->
    let st := run true true n choose more finish pre start quits can_sign sched (init w0) in
    (forall b, b < n -> finished (ph (bs st b)) = true) ->
    reserved_ids (wal st) = [] /\
    ((forall b, b < n -> ph (bs st b) <> PDone Broadcast) -> wal st = w0).
  Proof.
    intros F st Hfin. assert (I : Inv st) by (apply run_inv; [apply init_inv; assumption | assumption]).
    assert (Hnone : forall u, ~ In (u, true) (wal st)).
    { intros u Hu. destruct (I_res st I u Hu) as [b Hb].
      destruct (le_lt_dec n b) as [Hle|Hlt].
      - rewrite (I_out st I b Hle) in Hb. destruct Hb.
      - rewrite (I_fin st I b (Hfin b Hlt)) in Hb. destruct Hb. }
    split.
    - destruct (reserved_ids (wal st)) as [|i l] eqn:E; [reflexivity|].
      assert (Hi : In i (reserved_ids (wal st))) by (rewrite E; left; reflexivity).
      apply in_reserved_ids in Hi. destruct Hi as [u [Hu _]]. exfalso; eapply Hnone; eauto.
    - intro Hnb. apply all_false_eq; [|intros [u [|]] He; [exfalso; eapply Hnone; eauto | reflexivity] | assumption].
      apply (I_same st I). intros b. destruct (le_lt_dec n b) as [Hle|Hlt]; [rewrite (I_out st I b Hle); discriminate | auto].
  Qed.
End Inv.

(* ------------------------------------------------------------------ the lock is needed *)
Definition first_one : nat -> nat -> list utxo -> list utxo := fun _ _ l => firstn 1 l.
Lemma first_one_ok b r l : NoDup (map uid l) -> incl (first_one b r l) l /\ NoDup (map uid (first_one b r l)).
Proof.
  intros _. unfold first_one. destruct l as [|x l]; simpl.
  - split; [intros ? [] | constructor].
  - split; [intros ? [<-|[]]; left; reflexivity | constructor; [intros [] | constructor]].
Qed.
Definition demo_wallet : wallet := [(mkU 1 500000 5 true true 1, false)].
Definition demo_sched : list nat := [0; 0; 0; 1; 1; 1; 0; 0; 1; 1; 1; 0; 0; 0; 1; 1]%nat.

Lemma lock_needed :
  exists n choose more finish pre start quits can_sign w0 sched,
    (forall b, pre b = []) /\
    (forall b r l, NoDup (map uid l) -> incl (choose b r l) l /\ NoDup (map uid (choose b r l))) /\
    NoDup (map (fun e : utxo * bool => uid (fst e)) w0) /\ (forall e, In e w0 -> snd e = false) /\
    let st := run false true n choose more finish pre start quits can_sign sched (init w0) in
    exists i, In i (held_ids st 0) /\ In i (held_ids st 1).
Proof.
  exists 2%nat, first_one, (fun _ _ _ => false), (fun _ => false), (fun _ => []), (fun _ => true), (fun _ _ => false), (fun _ _ => true), demo_wallet, demo_sched.
  split; [reflexivity|]. split; [exact first_one_ok|]. split; [repeat constructor; intros []|].
  split; [intros e [<-|[]]; reflexivity|].
  exists 1%N. vm_compute. split; left; reflexivity.
Qed.

(* with the lock the same schedule keeps the builds apart *)
Lemma demo_with_lock :
  let st := run true true 2 first_one (fun _ _ _ => false) (fun _ => false) (fun _ => []) (fun _ => true) (fun _ _ => false) (fun _ _ => true) demo_sched (init demo_wallet) in
  held_ids st 0 = [1%N] /\ held_ids st 1 = [] /\ lock st = Some 1%nat.
Proof. vm_compute. repeat split. Qed.

(* ------------------------------------------------------------------ with the chooser of the real code *)
Section WithC03.
  Variable fpb : Z.
  Variable shuffle : list utxo -> list utxo.
  Hypothesis shuffle_perm : forall l, Permutation.Permutation l (shuffle l).
  Hypothesis fpb_nonneg : (0 <= fpb)%Z.
  Variable strat : nat -> strategy.
  Variable amount : nat -> nat -> Z.

  Lemma c03_choose_ok b r l :
    NoDup (map uid l) ->
    incl (c03_choose fpb shuffle strat amount b r l) l /\ NoDup (map uid (c03_choose fpb shuffle strat amount b r l)).
  Proof.
    intro Hl. unfold c03_choose.
    destruct (choose_from_plain fpb shuffle shuffle_perm fpb_nonneg (strat b) l (amount b r)) as [A [B _]].
    split; auto.
  Qed.

  Theorem exclusive_c03 n more finish pre start quits can_sign w0 :
    (forall b, NoDup (map uid (pre b))) ->
    NoDup (ids_of w0) -> (forall e, In e w0 -> snd e = false) -> forall sched,
    fresh_sched n (c03_choose fpb shuffle strat amount) more finish pre start quits can_sign sched (init w0) ->
    let st := run true true n (c03_choose fpb shuffle strat amount) more finish pre start quits can_sign sched (init w0) in
    (forall b1 b2 i, b1 <> b2 -> In i (held_ids st b1) -> In i (held_ids st b2) -> False) /\
    (forall b, NoDup (held_ids st b)) /\
    (forall i, In i (reserved_ids (wal st)) <-> exists b, b < n /\ In i (held_ids st b)) /\
    (forall b u, In u (held (bs st b)) -> ~ In u (unreserved (wal st))).
  Proof. intros. apply exclusive; try assumption. exact c03_choose_ok. Qed.
End WithC03.

(* a build that is funded and then fails while signing: its inputs are released again *)
Lemma demo_sign_fails :
  let st := run true true 1 first_one (fun _ _ _ => false) (fun _ => false) (fun _ => []) (fun _ => true) (fun _ _ => false) (fun _ _ => false)
                [0; 0; 0; 0; 0; 0; 0; 0; 0]%nat (init demo_wallet) in
  ph (bs st 0%nat) = PDone Failed /\ reserved_ids (wal st) = [] /\ wal st = demo_wallet /\
  (let st5 := run true true 1 first_one (fun _ _ _ => false) (fun _ => false) (fun _ => []) (fun _ => true) (fun _ _ => false) (fun _ _ => false)
                  [0; 0; 0; 0; 0; 0; 0; 0]%nat (init demo_wallet) in
   ph (bs st5 0%nat) = PAbort /\ held_ids st5 0%nat = [1%N]).
Proof. vm_compute. repeat split. Qed.

(* ------------------------------------------------------------------ pre-chosen wallet outputs *)
(* Before `fix: pre-chosen inputs are reserved under the UTXO reservation lock` create reserved its pre-chosen
   inputs OUTSIDE the lock ([lock_pre] = false).  With all other lock steps in place: build 0 reads the wallet
   (output 1 is free), build 1 - handed output 1 as a pre-chosen input - reserves it, build 0 selects and
   reserves it as well: both hold outpoint 1. *)
Definition race_pre (b : nat) : list utxo := if Nat.eqb b 1 then [mkU 1 500000 5 true true 1] else [].
Definition race_sched : list nat := [0; 0; 0; 0; 0; 1; 1; 0; 0]%nat.
Lemma prechosen_race_old_refuted :
  let st := run true false 2 first_one (fun _ _ _ => false) (fun _ => false) race_pre (fun b => Nat.eqb b 0)
                (fun _ _ => false) (fun _ _ => true) race_sched (init demo_wallet) in
  held_ids st 0%nat = [1%N] /\ held_ids st 1%nat = [1%N].
Proof. vm_compute. repeat split. Qed.
(* the repaired code on the same schedule: build 1 has to wait for the lock, build 0 gets the output alone *)
Lemma prechosen_race_repaired :
  let st := run true true 2 first_one (fun _ _ _ => false) (fun _ => false) race_pre (fun b => Nat.eqb b 0)
                (fun _ _ => false) (fun _ _ => true) race_sched (init demo_wallet) in
  held_ids st 0%nat = [1%N] /\ held_ids st 1%nat = [] /\ ph (bs st 1%nat) = PPreLock.
Proof. vm_compute. repeat split. Qed.

(* a build whose pre-chosen wallet inputs cover the cost never asks for funds; it still holds them, and they
   are released when it is abandoned *)
Lemma prechosen_sweep :
  let run_ s := run true true 1 first_one (fun _ _ _ => false) (fun _ => false)
                (fun _ => [mkU 1 500000 5 true true 1]) (fun _ => false) (fun _ _ => false) (fun _ _ => true) s (init demo_wallet) in
  held_ids (run_ [0; 0; 0]%nat) 0%nat = [1%N] /\ reserved_ids (wal (run_ [0; 0; 0]%nat)) = [1%N] /\
  ph (bs (run_ [0; 0; 0; 0]%nat) 0%nat) = PDone Released /\ wal (run_ [0; 0; 0; 0]%nat) = demo_wallet.
Proof. vm_compute. repeat split. Qed.

(* ------------------------------------------------------------------ a finished build does nothing more *)
(* once a build has been abandoned (released), has failed or has been broadcast, none of its steps changes the
   wallet, the lock or any build: a released transaction is not sent later, a failed send (Finish with
   finish = false) has released its inputs *)
Lemma done_is_final use_lock lock_pre n choose more finish pre start quits can_sign st b :
  finished (ph (bs st b)) = true ->
  step use_lock lock_pre n choose more finish pre start quits can_sign st b = st.
Proof.
  intro H. unfold step. destruct (n <=? b); [reflexivity|].
  destruct (ph (bs st b)); try discriminate. reflexivity.
Qed.
Lemma failed_send_releases use_lock lock_pre n choose more finish pre start quits can_sign st b :
  b < n -> ph (bs st b) = PFinish -> quits b (rnd (bs st b)) = false -> finish b = false ->
  let st' := step use_lock lock_pre n choose more finish pre start quits can_sign st b in
  wal st' = release (map uid (held (bs st b))) (wal st) /\ ph (bs st' b) = PDone Released /\ held (bs st' b) = [].
Proof.
  intros Hb P Q F. unfold step. apply Nat.leb_gt in Hb. rewrite Hb, P, Q, F. simpl.
  unfold upd. rewrite Nat.eqb_refl. simpl. repeat split.
Qed.

(* a build cancelled while it waits for the lock of its first round, and one cancelled after funding: both end
   Failed with everything released *)
Lemma demo_cancelled :
  let run_ q s := run true true 1 first_one (fun _ _ _ => false) (fun _ => false) (fun _ => []) (fun _ => true) q
                      (fun _ _ => true) s (init demo_wallet) in
  ph (bs (run_ (fun _ r => Nat.eqb r 0) [0; 0; 0; 0; 0]%nat) 0%nat) = PDone Failed /\
  ph (bs (run_ (fun _ r => Nat.eqb r 1) [0; 0; 0; 0; 0; 0; 0; 0; 0]%nat) 0%nat) = PAbort /\
  held_ids (run_ (fun _ r => Nat.eqb r 1) [0; 0; 0; 0; 0; 0; 0; 0; 0]%nat) 0%nat = [1%N] /\
  wal (run_ (fun _ r => Nat.eqb r 1) [0; 0; 0; 0; 0; 0; 0; 0; 0; 0]%nat) = demo_wallet.
Proof. vm_compute. repeat split. Qed.
