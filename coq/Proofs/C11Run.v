(* C11 proofs: whole add_peer calls, single steps, histories *)
From Coq Require Import NArith ZArith List Bool Lia Permutation Arith.
From LV Require Import Model.C11 Model.C11Spec Proofs.C11Base Proofs.C11Join Proofs.C11Add Proofs.C11Sort Proofs.C11Fuel.
Import ListNotations.
Local Open Scope N_scope.
Ltac Zify.zify_post_hook ::= Z.to_euclidean_division_equations.

Lemma M_pow : M = 2 ^ N.of_nat 384.
Proof. reflexivity. Qed.

Lemma init_wf own : WF own init.
Proof.
  constructor; cbn.
  - split; [reflexivity |]. split; [apply M_pos | reflexivity].
  - constructor; [| constructor]. split; cbn; [constructor | unfold K; lia].
  - constructor.
  - constructor.
Qed.

Lemma add_peer_top own e f t p :
  WF own t ->
  exists t1, WF own t1 /\ sub (contacts t1) (contacts t) /\ NC t1 p /\
    (forall x, In x (contacts t) -> conflict x p = false -> In x (contacts t1)) /\
    add_peer true own e (S f) t p = add_core own e (S f) t1 p.
Proof.
  intros W. destruct (evict_top own p t W) as (t1 & E & W1 & Sb & N1 & Kp).
  exists t1. split; [exact W1 |]. split; [exact Sb |]. split; [exact N1 |]. split; [exact Kp |].
  rewrite <- (add_peer_core own e (S f) t1 p W1 N1).
  cbn [add_peer]. rewrite E.
  rewrite (evict_noop true own p (contacts t1) t1); [reflexivity |].
  intros x Hx. apply conflict_false_iff. apply N1. exact Hx.
Qed.

(* everything one add_peer call guarantees on a well-formed table, for any fuel >= 386 *)
Lemma add_peer_facts own e fuel t p :
  WF own t -> own < M -> pid p < M -> (386 <= fuel)%nat ->
  match add_peer true own e fuel t p with
  | (r, pr, t') =>
      WF own t' /\
      ((exists v, r = Ret v) \/ (r = ErrProbe /\ exists q, In q pr /\ probe e q = PLocalFail)) /\
      ((at_least_as_close own t p < K)%nat -> r = Ret true) /\
      (r = Ret true -> In p (contacts t')) /\
      (forall x, In x (contacts t) -> pid x <> pid p -> pkey x <> pkey p -> probe e x <> PDead -> In x (contacts t')) /\
      (forall x, In x (contacts t) -> pid x <> pid p -> pkey x <> pkey p -> ~ In x pr -> In x (contacts t')) /\
      (forall x, In x (contacts t') -> x = p \/ In x (contacts t)) /\
      (forall x, In x pr -> In x (contacts t) /\ pid x <> pid p)
  end.
Proof.
  intros W Ho Hp Fu. destruct fuel as [| f]; [lia |].
  destruct (add_peer_top own e f t p W) as (t1 & W1 & Sb & N1 & Kp & ->).
  pose proof (add_core_inv own e (S f) t1 p W1 N1 Hp Ho) as Inv.
  pose proof W1 as [C1 OK1 _ _].
  destruct (find_bucket_chain own (pid p) 0 t1 M C1) as (pre & b & post & F).
  { split; [lia | apply dist_lt_M; assumption]. }
  pose proof (find_bucket_some _ _ _ _ _ _ F) as (Et & _ & _).
  assert (Wd : bhi b - blo b <= 2 ^ N.of_nat 384).
  { rewrite <- M_pow. assert (In b t1) by (subst t1; apply in_or_app; right; left; reflexivity).
    destruct (chain_in_bounds _ _ _ _ C1 H). lia. }
  pose proof (add_core_progress own e 384 (S f) t1 p pre b post W1 N1 F Wd) as Pr.
  pose proof (add_core_errprobe own e (S f) t1 p) as Ep.
  destruct (add_core own e (S f) t1 p) as [[r pr] t'].
  destruct Inv as (W' & I1 & I2 & I3 & I4 & I5 & I6).
  destruct Pr as (P1 & P2); [lia |].
  assert (NoConf : forall x, pkey x <> pkey p -> conflict x p = false).
  { intros x Hk. apply conflict_false_iff. intros Sk. apply same_key_pkey in Sk. contradiction. }
  split; [exact W' |].
  split; [destruct r; [left; eauto | contradiction | contradiction | right; split; [reflexivity | apply Ep; reflexivity]] |].
  split; [intros Cn; apply P2; unfold at_least_as_close in *;
          pose proof (sub_filter_length (fun c => dist own (pid c) <=? dist own (pid p)) _ _ Sb); lia |].
  split; [exact I1 |].
  split; [intros x Hx Ni Nk Px; apply I2; auto |].
  split; [intros x Hx Ni Nk Px; apply I3; auto |].
  split; [intros x Hx; destruct (I4 x Hx); [auto | right; eapply sub_In; eauto] |].
  intros x Hx. destruct (I5 x Hx). split; [eapply sub_In; eauto | assumption].
Qed.

Lemma FUEL_ge : (386 <= FUEL)%nat.
Proof. unfold FUEL. lia. Qed.

(* ---------- one step ---------- *)
Lemma step_wf own t o :
  WF own t -> own < M -> op_valid o ->
  WF own (fst (step true own t o)) /\ out_ok (snd (step true own t o)).
Proof.
  intros W Ho V. destruct o as [p e | | p |]; cbn [step].
  - pose proof (add_peer_facts own e FUEL t p W Ho V FUEL_ge) as H.
    destruct (add_peer true own e FUEL t p) as [[r pr] t']. cbn.
    destruct H as (W' & [(v & ->) | (-> & _)] & _); (split; [exact W' | exact I]).
  - cbn. split; [exact W | exact I].
  - cbn in V. destruct (remove_peer_spec own t p W) as (t' & E & W' & _).
    { destruct (contacts_dist_lt own t W) as [| ]; apply dist_lt_M; assumption. }
    rewrite E. cbn. split; [exact W' | exact I].
  - cbn. split; [exact W | exact I].
Qed.

Lemma run_from_wf own ops : forall t,
  WF own t -> own < M -> Forall op_valid ops ->
  WF own (fst (run_from true own t ops)) /\ Forall out_ok (snd (run_from true own t ops)).
Proof.
  induction ops as [| o r IH]; intros t W Ho V; cbn [run_from].
  - cbn. split; [exact W | constructor].
  - inversion V; subst. destruct (step_wf own t o W Ho H1) as (W' & O').
    destruct (step true own t o) as [t' x]. cbn in W', O'.
    destruct (IH t' W' Ho H2) as (W'' & O''). destruct (run_from true own t' r) as [t'' xs]. cbn in *.
    split; [exact W'' | constructor; assumption].
Qed.

Lemma run_wf own ops : own < M -> Forall op_valid ops -> WF own (run own ops).
Proof. intros Ho V. unfold run. apply run_from_wf; [apply init_wf | exact Ho | exact V]. Qed.

Lemma run_outs_ok own ops : own < M -> Forall op_valid ops -> Forall out_ok (outs own ops).
Proof. intros Ho V. unfold outs. apply run_from_wf; [apply init_wf | exact Ho | exact V]. Qed.

(* ---------- covering exactly once ---------- *)
Lemma chain_covering lo t hi d :
  chain lo t hi -> covering t d = if (lo <=? d) && (d <? hi) then 1%nat else 0%nat.
Proof.
  revert lo. induction t as [| b r IH]; intros lo; cbn.
  - intros ->. destruct (N.leb_spec hi d), (N.ltb_spec d hi); cbn; try reflexivity; lia.
  - intros (E1 & E2 & C). unfold covering in *. cbn [filter]. specialize (IH _ C).
    pose proof (chain_le _ _ _ C) as Le.
    destruct (N.leb_spec (blo b) d), (N.ltb_spec d (bhi b)), (N.leb_spec lo d), (N.ltb_spec d hi),
      (N.leb_spec (bhi b) d); cbn in *; try lia; rewrite IH; reflexivity.
Qed.
