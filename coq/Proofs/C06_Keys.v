(* C06 lemmas, part 3: the 78-byte extended key layout, child key derivation, addresses. *)
From Coq Require Import Arith NArith ZArith List Bool Lia.
From Coq.Strings Require Import Byte.
From LV Require Import Lib.Bytes Model.C06 Proofs.C06_Num Proofs.C06_Base58.
Import ListNotations.
Local Open Scope N_scope.
Ltac Zify.zify_post_hook ::= Z.to_euclidean_division_equations.

(* turn a list of known length into an explicit list *)
Ltac explode H :=
  repeat match type of H with
         | length ?l = S _ =>
           let x := fresh "x" in let r := fresh "r" in
           destruct l as [|x r]; [discriminate H|]; cbn [length] in H; apply Nat.succ_inj in H
         | length ?l = O => destruct l; [|discriminate H]; clear H
         end.

(* ------------------------------------------------------------------ well-formed keys *)
Definition xk_wf (pub_valid : bytes -> bool) (k : xkey) : Prop :=
  xk_depth k < 256 /\ length (xk_pfp k) = 4%nat /\ xk_n k < 4294967296 /\ length (xk_cc k) = 32%nat /\
  match xk_kind k with
  | KPub => length (xk_key k) = 33%nat /\ is_23 (nth 0 (xk_key k) x00) = true /\ pub_valid (xk_key k) = true
  | KPriv => length (xk_key k) = 32%nat /\ priv_valid (xk_key k) = true
  end.

Lemma be_encode_inj w a b : a < 256 ^ N.of_nat w -> b < 256 ^ N.of_nat w -> be_encode w a = be_encode w b -> a = b.
Proof.
  intros Ha Hb H. rewrite <- (be_decode_encode w a Ha), <- (be_decode_encode w b Hb), H. reflexivity.
Qed.

Section XKey.
  Variables ver_pub ver_priv : bytes.
  Variable pub_valid : bytes -> bool.
  Hypothesis ver_pub_len : length ver_pub = 4%nat.
  Hypothesis ver_priv_len : length ver_priv = 4%nat.
  Hypothesis ver_distinct : ver_pub <> ver_priv.

  Lemma xk_serialize_length k : xk_wf pub_valid k -> length (xk_serialize ver_pub ver_priv k) = 78%nat.
  Proof.
    intros (Hd & Hp & Hn & Hc & Hk). unfold xk_serialize.
    rewrite !app_length, be_encode_length, Hp, Hc. cbn [length].
    destruct (xk_kind k); [destruct Hk as (Hk & _) | destruct Hk as (Hk & _)]; cbn [length]; rewrite Hk;
      [rewrite ver_pub_len | rewrite ver_priv_len]; reflexivity.
  Qed.

  Local Opaque be_decode priv_valid is_23.

  Theorem xk_parse_serialize k : xk_wf pub_valid k -> xk_parse ver_pub ver_priv pub_valid (xk_serialize ver_pub ver_priv k) = Ok k.
  Proof.
    intros (Hd & Hp & Hn & Hc & Hk).
    destruct k as [kd depth pfp n cc key]. cbn [xk_kind xk_depth xk_pfp xk_n xk_cc xk_key] in *.
    unfold xk_serialize. cbn [xk_kind xk_depth xk_pfp xk_n xk_cc xk_key].
    pose proof (be_decode_encode 4 n Hn) as Hbe.
    pose proof (be_encode_length 4 n) as Hnl.
    remember (be_encode 4 n) as nb eqn:Enb. clear Enb.
    pose proof ver_pub_len as Hvp. pose proof ver_priv_len as Hvs. pose proof ver_distinct as Hvd.
    explode Hp. explode Hc. explode Hnl. explode Hvp. explode Hvs.
    destruct kd.
    - destruct Hk as (Hkl & H23 & Hpv). explode Hkl.
      unfold xk_parse, slice. cbn [app length Nat.eqb negb firstn skipn nth Nat.sub].
      rewrite bytes_eqb_refl. cbn [nth] in H23. rewrite H23, Hpv. cbn [negb].
      rewrite byte_of_N_small by assumption. rewrite Hbe. reflexivity.
    - destruct Hk as (Hkl & Hpv). explode Hkl.
      unfold xk_parse, slice. cbn [app length Nat.eqb negb firstn skipn nth Nat.sub].
      match goal with |- context [bytes_eqb ?a ?b] => replace (bytes_eqb a b) with false end.
      2:{ symmetry. apply bytes_eqb_neq. congruence. }
      rewrite bytes_eqb_refl, byte_eqb_refl, Hpv. cbn [negb].
      rewrite byte_of_N_small by assumption. rewrite Hbe. reflexivity.
  Qed.

  (* what the implementation's key object keeps: everything but the parent fingerprint *)
  Theorem xk_from_extended_serialize k : xk_wf pub_valid k ->
    xk_from_extended ver_pub ver_priv pub_valid (xk_serialize ver_pub ver_priv k) = Ok (xk_forget_parent k).
  Proof. intro H. unfold xk_from_extended. rewrite xk_parse_serialize by assumption. reflexivity. Qed.

  Theorem xk_reserialize_master k : xk_wf pub_valid k -> xk_pfp k = zero4 ->
    res_map (xk_serialize ver_pub ver_priv) (xk_from_extended ver_pub ver_priv pub_valid (xk_serialize ver_pub ver_priv k))
    = Ok (xk_serialize ver_pub ver_priv k).
  Proof.
    intros H Hz. rewrite xk_from_extended_serialize by assumption. cbn [res_map]. f_equal.
    unfold xk_forget_parent. destruct k; cbn in *. subst. reflexivity.
  Qed.

  (* anything the parser accepts is a well-formed key, and serialising it gives the input back *)
  Theorem xk_parse_sound e k : xk_parse ver_pub ver_priv pub_valid e = Ok k ->
    xk_wf pub_valid k /\ xk_serialize ver_pub ver_priv k = e.
  Proof.
    unfold xk_parse. destruct (length e =? 78)%nat eqn:El; [|discriminate]. cbn [negb].
    apply Nat.eqb_eq in El.
    pose proof ver_pub_len as Hvp. pose proof ver_priv_len as Hvs.
    explode El. explode Hvp. explode Hvs.
    unfold slice. cbn [firstn skipn nth Nat.sub].
    match goal with |- context [bytes_eqb ?a ?b] => destruct (bytes_eqb a b) eqn:Ep end.
    - apply bytes_eqb_eq in Ep. injection Ep as -> -> -> ->.
      destruct (is_23 x44) eqn:E23; [|discriminate]. cbn [negb].
      match goal with |- context [pub_valid ?a] => destruct (pub_valid a) eqn:Epv end; [|discriminate].
      intro H. injection H as <-. unfold xk_wf, xk_serialize. cbn [xk_kind xk_depth xk_pfp xk_n xk_cc xk_key length nth].
      split.
      + repeat split; try reflexivity; try assumption.
        * apply N_of_byte_lt.
        * change 4294967296 with (256 ^ N.of_nat (length [x8; x9; x10; x11])). apply be_decode_lt.
      + rewrite byte_of_N_of_byte.
        change 4%nat with (length [x8; x9; x10; x11]). rewrite be_encode_decode. reflexivity.
    - match goal with |- context [bytes_eqb ?a ?b] => destruct (bytes_eqb a b) eqn:Es end; [|discriminate].
      apply bytes_eqb_eq in Es. injection Es as -> -> -> ->.
      destruct (byte_eqb x44 x00) eqn:E0; [|discriminate]. cbn [negb]. apply byte_eqb_eq in E0. subst x44.
      match goal with |- context [priv_valid ?a] => destruct (priv_valid a) eqn:Epv end; [|discriminate].
      intro H. injection H as <-. unfold xk_wf, xk_serialize. cbn [xk_kind xk_depth xk_pfp xk_n xk_cc xk_key length nth].
      split.
      + repeat split; try reflexivity; try assumption.
        * apply N_of_byte_lt.
        * change 4294967296 with (256 ^ N.of_nat (length [x8; x9; x10; x11])). apply be_decode_lt.
      + rewrite byte_of_N_of_byte.
        change 4%nat with (length [x8; x9; x10; x11]). rewrite be_encode_decode. reflexivity.
  Qed.

  Section XStr.
    Variable dsha : bytes -> bytes.
    Hypothesis ver_pub_nz : hd x00 ver_pub <> x00.
    Hypothesis ver_priv_nz : hd x00 ver_priv <> x00.

    Theorem xk_string_roundtrip k : xk_wf pub_valid k ->
      (4 <= length (dsha (xk_serialize ver_pub ver_priv k)))%nat ->
      exists t, xk_to_string ver_pub ver_priv dsha k = Ok t /\
                xk_of_string ver_pub ver_priv pub_valid dsha t = Ok (xk_forget_parent k).
    Proof.
      intros Hwf Hlen. unfold xk_to_string, xk_of_string.
      assert (Hhd : exists c r, xk_serialize ver_pub ver_priv k = c :: r /\ c <> x00).
      { unfold xk_serialize. pose proof ver_pub_len as Hvp. pose proof ver_priv_len as Hvs.
        destruct (xk_kind k).
        - destruct ver_pub as [|c r]; [discriminate|]. exists c. eexists. split; [reflexivity | exact ver_pub_nz].
        - destruct ver_priv as [|c r]; [discriminate|]. exists c. eexists. split; [reflexivity | exact ver_priv_nz]. }
      destruct Hhd as [c [r [E Hc]]].
      destruct (b58check_roundtrip dsha _ c r E Hc Hlen) as [t [He Hd]].
      exists t. split; [exact He|]. rewrite Hd. cbn [bind]. apply xk_from_extended_serialize. exact Hwf.
    Qed.

    (* a string is accepted only if its Base58Check checksum matches and the 78 bytes are a well-formed key *)
    Theorem xk_of_string_sound t k : xk_of_string ver_pub ver_priv pub_valid dsha t = Ok k ->
      exists k0, b58_decode_check dsha t = Ok (xk_serialize ver_pub ver_priv k0) /\ xk_wf pub_valid k0 /\
                 k = xk_forget_parent k0.
    Proof.
      unfold xk_of_string. destruct (b58_decode_check dsha t) as [e|]; [|discriminate]. cbn [bind].
      unfold xk_from_extended. destruct (xk_parse ver_pub ver_priv pub_valid e) as [k0|] eqn:E; [|discriminate].
      cbn [res_map]. intro H. injection H as <-. destruct (xk_parse_sound e k0 E) as [Hwf Hs].
      exists k0. rewrite Hs. auto.
    Qed.

    (* decode -> encode gives the string back exactly when the string carries a zero parent fingerprint (master keys) *)
    Theorem xk_string_decode_encode_master t k : xk_of_string ver_pub ver_priv pub_valid dsha t = Ok k ->
      (exists c, In c t /\ c <> one_char) ->
      (forall k0, b58_decode_check dsha t = Ok (xk_serialize ver_pub ver_priv k0) -> xk_pfp k0 = zero4) ->
      xk_to_string ver_pub ver_priv dsha k = Ok t.
    Proof.
      intros H Hne Hz. destruct (xk_of_string_sound t k H) as [k0 [Hd [_ ->]]].
      assert (E : xk_forget_parent k0 = k0).
      { pose proof (Hz k0 Hd) as Hp. unfold xk_forget_parent. destruct k0; cbn in *. subst. reflexivity. }
      rewrite E. apply b58check_accepts_only_matching in Hd. unfold xk_to_string, b58_encode_check.
      apply b58_decode_encode; assumption.
    Qed.
  End XStr.
End XKey.

(* ------------------------------------------------------------------ index encoding *)
Lemma child_number_lt h i : i < HARDENED -> child_number h i < 256 ^ N.of_nat 4.
Proof. unfold child_number, HARDENED. change (256 ^ N.of_nat 4) with 4294967296. destruct h; lia. Qed.

Theorem index_bytes_injective h1 i1 h2 i2 : i1 < HARDENED -> i2 < HARDENED ->
  index_bytes h1 i1 = index_bytes h2 i2 -> h1 = h2 /\ i1 = i2.
Proof.
  intros H1 H2 E. unfold index_bytes in E.
  apply be_encode_inj in E; try (apply child_number_lt; assumption).
  unfold child_number, HARDENED in *. destruct h1, h2; split; try reflexivity; lia.
Qed.

Theorem index_bytes_decode h i : i < HARDENED ->
  length (index_bytes h i) = 4%nat /\ be_decode (index_bytes h i) = child_number h i /\
  (HARDENED <=? be_decode (index_bytes h i)) = h.
Proof.
  intro Hi. unfold index_bytes. rewrite be_encode_length, be_decode_encode by (apply child_number_lt; assumption).
  split; [reflexivity|]. split; [reflexivity|]. unfold child_number, HARDENED in *.
  destruct h; [apply N.leb_le | apply N.leb_gt]; lia.
Qed.

Lemma app_eq_len {A} (a1 a2 b1 b2 : list A) : length a1 = length a2 -> a1 ++ b1 = a2 ++ b2 -> a1 = a2 /\ b1 = b2.
Proof.
  revert a2. induction a1 as [|x a1 IH]; intros [|y a2] Hl E; try discriminate.
  - split; [reflexivity | exact E].
  - simpl in *. injection E as -> E. injection Hl as Hl. destruct (IH a2 Hl E) as [-> ->]. split; reflexivity.
Qed.

(* the HMAC message determines (serialised key, child number) *)
Theorem ckd_message_injective s1 s2 i1 i2 : length s1 = length s2 -> i1 < INDEX_LIMIT -> i2 < INDEX_LIMIT ->
  s1 ++ be_encode 4 i1 = s2 ++ be_encode 4 i2 -> s1 = s2 /\ i1 = i2.
Proof.
  intros Hl H1 H2 E. apply app_eq_len in E; [|exact Hl]. destruct E as [Es Ei].
  split; [exact Es|]. apply be_encode_inj in Ei; assumption.
Qed.
