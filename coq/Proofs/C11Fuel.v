(* C11 proofs: fuel bound, admission of closer newcomers, single steps and histories *)
From Coq Require Import NArith ZArith List Bool Lia Permutation Arith.
From LV Require Import Model.C11 Model.C11Spec Proofs.C11Base Proofs.C11Join Proofs.C11Add Proofs.C11Sort.
Import ListNotations.
Local Open Scope N_scope.
Ltac Zify.zify_post_hook ::= Z.to_euclidean_division_equations.

Lemma find_bucket_app own id pre l :
  Forall (fun x => in_range own x id = false) pre ->
  find_bucket own id (pre ++ l) =
  match find_bucket own id l with Some (a, x, c) => Some (pre ++ a, x, c) | None => None end.
Proof.
  induction pre as [| y pre IH]; intros F; cbn.
  - destruct (find_bucket own id l) as [[[a x] c] |]; reflexivity.
  - inversion F; subst. rewrite H1, (IH H2). destruct (find_bucket own id l) as [[[a x] c] |]; reflexivity.
Qed.

Lemma choose_replace_in e b q : choose_replace e b = Some q -> In q (bpeers b).
Proof.
  unfold choose_replace. intros CR.
  destruct (filter (fun q0 => is_stale (lrs e q0)) (filter (fun q0 => negb (good e q0)) (firstn K (bpeers b)))) as [| q0 l0] eqn:Fl.
  - destruct (bpeers b) as [| h l]; [discriminate |]. destruct (is_fresh (lrs e h)); [discriminate |].
    inversion CR; subst. left. reflexivity.
  - inversion CR; subst q0. assert (In q (q :: l0)) by (left; reflexivity). rewrite <- Fl in H.
    apply filter_In in H. destruct H as (H & _). apply filter_In in H. destruct H as (H & _).
    eapply sub_In; [apply firstn_sub | exact H].
Qed.

Lemma remove_first_length f l x : In x l -> f x = true -> length l = S (length (remove_first f l)).
Proof.
  induction l as [| a l IH]; cbn; [tauto |]. intros Hx Fx. destruct (f a) eqn:Fa; [reflexivity |].
  destruct Hx as [-> | Hx]; [congruence |]. cbn. rewrite <- IH; auto.
Qed.

Lemma existsb_sub_false {A} (f : A -> bool) l' l : sub l' l -> existsb f l = false -> existsb f l' = false.
Proof.
  intros S E. destruct (existsb f l') eqn:E'; [| reflexivity].
  apply existsb_exists in E'. destruct E' as (x & Hx & Fx).
  assert (existsb f l = true) by (apply existsb_exists; exists x; split; [eapply sub_In; eauto | assumption]). congruence.
Qed.

Lemma bucket_add_after_remove b p q :
  existsb (fun x => pid x =? pid p) (bpeers b) = false -> In q (bpeers b) -> (length (bpeers b) <= K)%nat ->
  exists b', bucket_add (bucket_remove b q) p = Some b'.
Proof.
  intros NoId Hq L. unfold bucket_add, bucket_remove. cbn [bpeers blo bhi].
  set (R := remove_first (peer_eqb q) (bpeers b)).
  assert (E2 : existsb (fun x => pid x =? pid p) R = false).
  { eapply existsb_sub_false; [apply remove_first_sub | exact NoId]. }
  assert (E1 : existsb (peer_eqb p) R = false).
  { destruct (existsb (peer_eqb p) R) eqn:E; [| reflexivity]. apply existsb_peer_eqb in E.
    assert (existsb (fun x => pid x =? pid p) R = true)
      by (apply existsb_exists; exists p; split; [assumption | apply N.eqb_refl]). congruence. }
  rewrite E1, E2.
  assert (length (bpeers b) = S (length R)) by (apply remove_first_length with (x := q); [assumption | apply peer_eqb_refl]).
  assert (E3 : (length R <? K)%nat = true) by (apply Nat.ltb_lt; lia). rewrite E3. eauto.
Qed.

Lemma should_split_true own i t p :
  (K <= length (contacts t))%nat -> (at_least_as_close own t p < K)%nat -> should_split own i t (pid p) = true.
Proof.
  intros L Cn. unfold should_split. destruct (i <? 1)%nat; [reflexivity |].
  set (key := fun c : peer => dist own (pid c)).
  set (cs := sort_by key (contacts t)).
  assert (Lc : length cs = length (contacts t)) by (apply Permutation_length; apply sort_by_perm).
  assert (E : (length cs <? K)%nat = false) by (apply Nat.ltb_ge; lia). rewrite E.
  destruct cs as [| c0 cs'] eqn:Ecs; [cbn in Lc; unfold K in L; lia |]. rewrite <- Ecs.
  apply N.ltb_lt. destruct (N.lt_ge_cases (dist own (pid p)) (dist own (pid (nth (K - 1) cs (mkPeer 0 0 0))))) as [H | H]; [exact H | exfalso].
  assert (NE : nth_error cs (K - 1) = Some (nth (K - 1) cs (mkPeer 0 0 0))).
  { apply nth_error_nth'. rewrite Ecs, Lc. unfold K in *. lia. }
  pose proof (sorted_nth_count key cs (K - 1)%nat _ (dist own (pid p)) (sort_by_sorted key (contacts t)) NE) as Hc.
  specialize (Hc (N.lt_eq_cases _ _ |> fun _ => H)).
  rewrite (filter_length_perm _ cs (contacts t) (sort_by_perm key (contacts t))) in Hc.
  unfold at_least_as_close in Cn. unfold key in Hc. unfold K in *. lia.
Qed.
