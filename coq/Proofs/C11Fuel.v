(* C11 proofs: fuel bound, admission of closer newcomers, single steps and histories *)
From Coq Require Import NArith ZArith List Bool Lia Permutation Arith.
From LV Require Import Model.C11 Model.C11Spec Proofs.C11Base Proofs.C11Join Proofs.C11Add Proofs.C11Sort.
Import ListNotations.
Local Open Scope N_scope.
Ltac Zify.zify_post_hook ::= Z.to_euclidean_division_equations.

Lemma find_bucket_app own id pre l :
  Forall (fun x => in_range own x id = false) pre ->
  find_bucket own id (pre ++ l) =
  match find_bucket own id l with Some (a, x, c) => Some (pre ++ a, x, c) | None => None end.
Proof.
  induction pre as [| y pre IH]; intros F; cbn.
  - destruct (find_bucket own id l) as [[[a x] c] |]; reflexivity.
  - inversion F; subst. rewrite H1, (IH H2). destruct (find_bucket own id l) as [[[a x] c] |]; reflexivity.
Qed.

Lemma choose_replace_in e b q : choose_replace e b = Some q -> In q (bpeers b).
Proof.
  unfold choose_replace. intros CR.
  destruct (filter (fun q0 => is_stale (lrs e q0)) (filter (fun q0 => negb (good e q0)) (firstn K (bpeers b)))) as [| q0 l0] eqn:Fl.
  - destruct (bpeers b) as [| h l]; [discriminate |]. destruct (is_fresh (lrs e h)); [discriminate |].
    inversion CR; subst. left. reflexivity.
  - inversion CR; subst q0. assert (In q (q :: l0)) by (left; reflexivity). rewrite <- Fl in H.
    apply filter_In in H. destruct H as (H & _). apply filter_In in H. destruct H as (H & _).
    eapply sub_In; [apply firstn_sub | exact H].
Qed.

Lemma remove_first_length f l x : In x l -> f x = true -> length l = S (length (remove_first f l)).
Proof.
  induction l as [| a l IH]; cbn; [tauto |]. intros Hx Fx. destruct (f a) eqn:Fa; [reflexivity |].
  destruct Hx as [-> | Hx]; [congruence |]. cbn. rewrite <- IH; auto.
Qed.

Lemma existsb_sub_false {A} (f : A -> bool) l' l : sub l' l -> existsb f l = false -> existsb f l' = false.
Proof.
  intros S E. destruct (existsb f l') eqn:E'; [| reflexivity].
  apply existsb_exists in E'. destruct E' as (x & Hx & Fx).
  assert (existsb f l = true) by (apply existsb_exists; exists x; split; [eapply sub_In; eauto | assumption]). congruence.
Qed.

Lemma bucket_add_after_remove b p q :
  existsb (fun x => pid x =? pid p) (bpeers b) = false -> In q (bpeers b) -> (length (bpeers b) <= K)%nat ->
  exists b', bucket_add (bucket_remove b q) p = Some b'.
Proof.
  intros NoId Hq L. unfold bucket_add, bucket_remove. cbn [bpeers blo bhi].
  set (R := remove_first (peer_eqb q) (bpeers b)).
  assert (E2 : existsb (fun x => pid x =? pid p) R = false).
  { eapply existsb_sub_false; [apply remove_first_sub | exact NoId]. }
  assert (E1 : existsb (peer_eqb p) R = false).
  { destruct (existsb (peer_eqb p) R) eqn:E; [| reflexivity]. apply existsb_peer_eqb in E.
    assert (existsb (fun x => pid x =? pid p) R = true)
      by (apply existsb_exists; exists p; split; [assumption | apply N.eqb_refl]). congruence. }
  rewrite E1, E2.
  assert (length (bpeers b) = S (length R)) by (apply remove_first_length with (x := q); [assumption | apply peer_eqb_refl]).
  assert (E3 : (length R <? K)%nat = true) by (apply Nat.ltb_lt; lia). rewrite E3. eauto.
Qed.

Lemma should_split_true own i t p :
  (K <= length (contacts t))%nat -> (at_least_as_close own t p < K)%nat -> should_split own i t (pid p) = true.
Proof.
  intros L Cn. unfold should_split. destruct (i <? 1)%nat; [reflexivity |].
  set (key := fun c : peer => dist own (pid c)).
  set (cs := sort_by key (contacts t)).
  assert (Lc : length cs = length (contacts t)) by (apply Permutation_length; apply sort_by_perm).
  assert (E : (length cs <? K)%nat = false) by (apply Nat.ltb_ge; lia). rewrite E.
  destruct cs as [| c0 cs'] eqn:Ecs; [cbn in Lc; unfold K in L; lia |]. rewrite <- Ecs.
  apply N.ltb_lt. destruct (N.lt_ge_cases (dist own (pid p)) (dist own (pid (nth (K - 1) cs (mkPeer 0 0 0))))) as [H | H]; [exact H | exfalso].
  assert (NE : nth_error cs (K - 1) = Some (nth (K - 1) cs (mkPeer 0 0 0))).
  { apply nth_error_nth'. rewrite Ecs, Lc. unfold K in *. lia. }
  pose proof (sorted_nth_count key cs (K - 1)%nat _ (dist own (pid p)) (sort_by_sorted key (contacts t)) NE) as Hc.
  specialize (Hc H).
  rewrite (filter_length_perm _ cs (contacts t) (sort_by_perm key (contacts t))) in Hc.
  unfold at_least_as_close in Cn. unfold key in Hc. unfold K in *. lia.
Qed.

Lemma pow2_half k w : w <= 2 ^ N.of_nat (S k) -> w - w / 2 <= 2 ^ N.of_nat k /\ w / 2 <= 2 ^ N.of_nat k.
Proof. rewrite Nat2N.inj_succ, N.pow_succ_r'. generalize (2 ^ N.of_nat k). intros; lia. Qed.

Lemma full_bucket_wide own pre b post p :
  WF own (pre ++ b :: post) -> bucket_add b p = None -> blo b + 2 <= bhi b.
Proof.
  intros [C OK I Ky] A. apply bucket_add_none in A. destruct A as (_ & L).
  pose proof (proj1 (Forall_mid _ _ _ _) OK) as (_ & (Rb & _) & _).
  apply (full_width own b); [| exact Rb | pose proof K_ge_2; lia].
  rewrite contacts_mid in I. eapply NoDup_map_sub; [apply sub_mid | exact I].
Qed.

Lemma add_core_progress own e : forall k fuel t p pre b post,
  WF own t -> NC t p ->
  find_bucket own (pid p) t = Some (pre, b, post) ->
  bhi b - blo b <= 2 ^ N.of_nat k -> (k + 2 <= fuel)%nat ->
  match add_core own e fuel t p with
  | (r, _, _) => r <> ErrFuel /\ ((at_least_as_close own t p < K)%nat -> r = Ret true)
  end.
Proof.
  induction k as [| k IH]; intros fuel t p pre b post W N F Wd Fu;
    (destruct fuel as [| f]; [lia |]); cbn [add_core]; rewrite F;
    pose proof (find_bucket_some _ _ _ _ _ _ F) as (Et & Rg & Pre);
    (destruct (bucket_add b p) as [b' |] eqn:A; [split; [discriminate | reflexivity] |]);
    subst t; pose proof (full_bucket_wide own pre b post p W A) as W2;
    pose proof (bucket_add_none _ _ A) as (NoId & Full);
    pose proof W as [C OK I Ky];
    pose proof (proj1 (Forall_mid _ _ _ _) OK) as (_ & (Rb & Lb) & _).
  - (* width <= 1 contradicts a full bucket *) cbn in Wd. lia.
  - assert (Lc : (K <= length (contacts (pre ++ b :: post)))%nat).
    { rewrite contacts_mid, !app_length. lia. }
    destruct (should_split own (length pre) (pre ++ b :: post) (pid p)) eqn:SS.
    + destruct (split_bucket own b) as [b1 b2] eqn:S.
      destruct (split_wf own pre b post b1 b2 W) as (W' & P); [pose proof K_ge_2; lia | exact S |].
      assert (N' : NC (pre ++ b1 :: b2 :: post) p).
      { eapply NC_perm; [exact N |]. intros x Hx. eapply Permutation_in; [symmetry; exact P | exact Hx]. }
      assert (Cnt : at_least_as_close own (pre ++ b1 :: b2 :: post) p = at_least_as_close own (pre ++ b :: post) p).
      { unfold at_least_as_close. symmetry. apply filter_length_perm. exact P. }
      unfold split_bucket in S. inversion S; clear S.
      set (sp := bhi b - (bhi b - blo b) / 2) in *.
      destruct (pow2_half k (bhi b - blo b) Wd) as (Wh1 & Wh2).
      apply in_range_iff in Rg.
      assert (exists pre' b' post', find_bucket own (pid p) (pre ++ b1 :: b2 :: post) = Some (pre', b', post') /\
                                    bhi b' - blo b' <= 2 ^ N.of_nat k) as (pre' & b' & post' & F2 & Wd2).
      { rewrite (find_bucket_app _ _ _ _ Pre). cbn [find_bucket].
        destruct (in_range own b1 (pid p)) eqn:R1.
        - do 3 eexists. split; [reflexivity |]. subst b1. cbn [blo bhi]. unfold sp. lia.
        - assert (R2 : in_range own b2 (pid p) = true).
          { apply in_range_iff. subst b2. cbn [blo bhi].
            assert (~ (blo b1 <= dist own (pid p) < bhi b1)) by (rewrite <- in_range_iff; congruence).
            subst b1. cbn [blo bhi] in *. lia. }
          rewrite R2. do 3 eexists. split; [reflexivity |]. subst b2. cbn [blo bhi]. unfold sp. lia. }
      rewrite H0, H1 in *.
      assert (Fu' : (k + 2 <= f)%nat) by lia.
      specialize (IH f _ p pre' b' post' W' N' F2 Wd2 Fu').
      destruct (add_core own e f (pre ++ b1 :: b2 :: post) p) as [[r pr] t3].
      destruct IH as (I1 & I2). rewrite Cnt in I2.
      destruct (is_ret r); (split; [exact I1 | exact I2]).
    + assert (Adm : (at_least_as_close own (pre ++ b :: post) p < K)%nat -> False).
      { intros Cn. rewrite (should_split_true own _ _ p Lc Cn) in SS. discriminate. }
      destruct (choose_replace e b) as [q |] eqn:CR; [| split; [discriminate | intros Cn; destruct (Adm Cn)]].
      destruct (probe e q); [split; [discriminate | intros Cn; destruct (Adm Cn)] | |
                             split; [discriminate | intros Cn; destruct (Adm Cn)]].
      destruct f as [| f']; [lia |]. cbn [add_core].
      assert (F2 : find_bucket own (pid p) (pre ++ bucket_remove b q :: post) = Some (pre, bucket_remove b q, post)).
      { rewrite (find_bucket_app _ _ _ _ Pre). cbn [find_bucket].
        assert (R' : in_range own (bucket_remove b q) (pid p) = true) by exact Rg. rewrite R'.
        rewrite app_nil_r. reflexivity. }
      rewrite F2.
      destruct (bucket_add_after_remove b p q NoId (choose_replace_in _ _ _ CR) Lb) as (b' & ->).
      split; [discriminate | reflexivity].
Qed.

(* the probe's own exception leaves add_peer only when the probed contact's outcome is a local failure *)
Lemma add_core_errprobe own e fuel : forall t p,
  match add_core own e fuel t p with
  | (r, pr, _) => r = ErrProbe -> exists q, In q pr /\ probe e q = PLocalFail
  end.
Proof.
  induction fuel as [| f IH]; intros t p; cbn [add_core]; [intros H; discriminate H |].
  destruct (find_bucket own (pid p) t) as [[[pre b] post] |]; [| intros H; discriminate H].
  destruct (bucket_add b p); [intros H; discriminate H |].
  destruct (should_split own (length pre) t (pid p)).
  - destruct (split_bucket own b) as [b1 b2]. specialize (IH (pre ++ b1 :: b2 :: post) p).
    destruct (add_core own e f (pre ++ b1 :: b2 :: post) p) as [[r pr] t3]. destruct (is_ret r); exact IH.
  - destruct (choose_replace e b) as [q |]; [| intros H; discriminate H].
    destruct (probe e q) eqn:Pq.
    + intros H; discriminate H.
    + specialize (IH (pre ++ bucket_remove b q :: post) p).
      destruct (add_core own e f (pre ++ bucket_remove b q :: post) p) as [[r pr] t3].
      intros H. destruct (IH H) as (x & Hx & Px). exists x. split; [right; exact Hx | exact Px].
    + intros _. exists q. split; [left; reflexivity | exact Pq].
Qed.
