(* C06 lemmas, part 7: mnemonic text normalisation (order of the Unicode primitives, whitespace collapse, CJK rule). *)
From Coq Require Import Arith NArith List Bool Lia.
From LV Require Import Lib.Bytes Model.C06.
Import ListNotations.
Local Open Scope N_scope.

Section SplitJoin.
  Context {A : Type} (sp : A -> bool) (sep : A).
  Hypothesis sep_is_space : sp sep = true.

  Definition sp_free (w : list A) : Prop := Forall (fun c => sp c = false) w.
  Definition goodw (w : list A) : Prop := w <> [] /\ sp_free w.

  Lemma splitg_go_word w s : sp_free w ->
    splitg_go sp (w ++ s) = (w ++ fst (splitg_go sp s), snd (splitg_go sp s)).
  Proof.
    induction 1 as [|c r Hc _ IH]; cbn [app]; [destruct (splitg_go sp s); reflexivity|].
    cbn [splitg_go]. rewrite IH, Hc. reflexivity.
  Qed.

  Lemma splitg_go_sep s : splitg_go sp (sep :: s) =
    ([], match fst (splitg_go sp s) with [] => snd (splitg_go sp s) | w => w :: snd (splitg_go sp s) end).
  Proof. cbn [splitg_go]. rewrite sep_is_space. destruct (splitg_go sp s) as [w ws]. cbn [fst snd]. destruct w; reflexivity. Qed.

  Lemma splitg_alt s : splitg sp s = match fst (splitg_go sp s) with [] => snd (splitg_go sp s) | w => w :: snd (splitg_go sp s) end.
  Proof. unfold splitg. destruct (splitg_go sp s) as [w ws]. cbn [fst snd]. destruct w; reflexivity. Qed.

  Lemma splitg_joing ws : Forall goodw ws -> splitg sp (joing sep ws) = ws.
  Proof.
    induction 1 as [|w r [Hne Hsf] Hr IH]; [reflexivity|].
    cbn [joing]. destruct r as [|w2 r'].
    - pose proof (splitg_go_word w [] Hsf) as E. rewrite app_nil_r in E. cbn [splitg_go fst snd] in E.
      rewrite app_nil_r in E. rewrite splitg_alt, E. cbn [fst snd]. destruct w; [congruence | reflexivity].
    - rewrite splitg_alt, splitg_go_word by assumption. rewrite splitg_go_sep. cbn [fst snd].
      rewrite app_nil_r. rewrite <- splitg_alt, IH. destruct w; [congruence | reflexivity].
  Qed.

  (* every word produced by split is non-empty and free of separators *)
  Lemma splitg_go_good s : sp_free (fst (splitg_go sp s)) /\ Forall goodw (snd (splitg_go sp s)).
  Proof.
    induction s as [|c r [IH1 IH2]]; cbn [splitg_go]; [split; constructor|].
    destruct (splitg_go sp r) as [w ws]. cbn [fst snd] in *.
    destruct (sp c) eqn:E; cbn [fst snd].
    - split; [constructor|]. destruct w as [|x w']; [exact IH2|].
      constructor; [split; [discriminate | exact IH1] | exact IH2].
    - split; [constructor; assumption | exact IH2].
  Qed.

  Lemma splitg_good s : Forall goodw (splitg sp s).
  Proof.
    rewrite splitg_alt. destruct (splitg_go_good s) as [H1 H2].
    destruct (fst (splitg_go sp s)) as [|x w] eqn:E; [exact H2|].
    constructor; [split; [discriminate | exact H1] | exact H2].
  Qed.

  (* ' '.join(s.split()) is idempotent and keeps the words *)
  Lemma split_collapse s : splitg sp (joing sep (splitg sp s)) = splitg sp s.
  Proof. apply splitg_joing. apply splitg_good. Qed.
End SplitJoin.

Lemma is_ws_32 : is_ws_cp 32 = true.
Proof. vm_compute. reflexivity. Qed.

Theorem collapse_ws_words s : splitg is_ws_cp (collapse_ws s) = splitg is_ws_cp s.
Proof. unfold collapse_ws. apply split_collapse. exact is_ws_32. Qed.

Theorem collapse_ws_idempotent s : collapse_ws (collapse_ws s) = collapse_ws s.
Proof. unfold collapse_ws at 1. rewrite collapse_ws_words. reflexivity. Qed.

(* the CJK rule only ever deletes ASCII whitespace: all other characters survive, in order *)
Theorem rm_cjk_spaces_content s : forall prev,
  filter (fun c => negb (is_ascii_ws c)) (rm_cjk_spaces prev s) = filter (fun c => negb (is_ascii_ws c)) s.
Proof.
  induction s as [|c r IH]; intro prev; [reflexivity|].
  cbn [rm_cjk_spaces]. rewrite filter_app, IH. cbn [filter].
  destruct (is_ascii_ws c) eqn:E; cbn [andb negb].
  - destruct (_ && _); cbn [filter app]; rewrite ?E; reflexivity.
  - cbn [filter]. rewrite E. reflexivity.
Qed.

Section Normalize.
  Variable nfkd : list N -> list N.
  Variable lower : list N -> list N.
  Variable combining : N -> bool.

  (* canonically / compatibility-equivalent spellings (same NFKD) normalise to the same text, hence stretch to the
     same seed: precomposed and decomposed accents, full-width and ASCII letters, ideographic and ASCII space *)
  Theorem normalize_respects_nfkd s1 s2 : nfkd s1 = nfkd s2 ->
    normalize_text nfkd lower combining s1 = normalize_text nfkd lower combining s2.
  Proof. intro H. unfold normalize_text. rewrite H. reflexivity. Qed.

  (* more generally anything that agrees after NFKD, lower-casing and accent stripping *)
  Theorem normalize_accent_case_insensitive s1 s2 :
    strip_accents combining (lower (nfkd s1)) = strip_accents combining (lower (nfkd s2)) ->
    normalize_text nfkd lower combining s1 = normalize_text nfkd lower combining s2.
  Proof. intro H. unfold normalize_text. rewrite H. reflexivity. Qed.

  (* no combining mark reaches the key-stretching input unless the CJK/whitespace steps... they only delete or
     insert U+0020: every character of the result other than U+0020 is a non-combining character of lower(nfkd s) *)
  Theorem normalize_no_combining s c : In c (normalize_text nfkd lower combining s) -> c <> 32 ->
    combining c = false /\ In c (lower (nfkd s)).
  Proof.
    unfold normalize_text. intros Hin Hc.
    assert (Hsub : forall prev l x, In x (rm_cjk_spaces prev l) -> In x l).
    { intros prev l. revert prev. induction l as [|y r IH]; intros prev x Hx; [exact Hx|].
      cbn [rm_cjk_spaces] in Hx. apply in_app_or in Hx. destruct Hx as [Hx|Hx].
      - destruct (_ && _ && _); [destruct Hx | destruct Hx as [<-|[]]; left; reflexivity].
      - right. exact (IH _ _ Hx). }
    apply Hsub in Hin. unfold collapse_ws in Hin.
    assert (Hj : forall ws x, In x (joing 32 ws) -> x = 32 \/ exists w, In w ws /\ In x w).
    { induction ws as [|w r IH]; intros x Hx; [destruct Hx|]. cbn [joing] in Hx. destruct r as [|w2 r'].
      - right. exists w. split; [left; reflexivity | exact Hx].
      - apply in_app_or in Hx. destruct Hx as [Hx|[Hx|Hx]].
        + right. exists w. split; [left; reflexivity | exact Hx].
        + left. congruence.
        + destruct (IH x Hx) as [|[w' [Hw Hxw]]]; [left; assumption|]. right. exists w'. split; [right; exact Hw | exact Hxw]. }
    destruct (Hj _ _ Hin) as [|[w [Hw Hxw]]]; [contradiction|].
    assert (Hs : forall (l : list N) w1 x, In w1 (splitg is_ws_cp l) -> In x w1 -> In x l).
    { clear. intros l. unfold splitg.
      assert (G : forall x, (In x (fst (splitg_go is_ws_cp l)) -> In x l) /\
                            (forall w, In w (snd (splitg_go is_ws_cp l)) -> In x w -> In x l)).
      { induction l as [|y r IH]; intro x; cbn [splitg_go]; [split; [auto | intros w []]|].
        destruct (splitg_go is_ws_cp r) as [w0 ws0]. cbn [fst snd] in IH.
        destruct (is_ws_cp y); cbn [fst snd].
        - split; [intros []|]. intros w Hw Hx. right. destruct w0 as [|a w0'].
          + exact (proj2 (IH x) w Hw Hx).
          + destruct Hw as [<-|Hw]; [exact (proj1 (IH x) Hx) | exact (proj2 (IH x) w Hw Hx)].
        - split.
          + intros [<-|Hx]; [left; reflexivity | right; exact (proj1 (IH x) Hx)].
          + intros w Hw Hx. right. exact (proj2 (IH x) w Hw Hx). }
      intros w1 x Hw1 Hx. destruct (splitg_go is_ws_cp l) as [w0 ws0]. cbn [fst snd] in G.
      destruct w0 as [|a w0'].
      - exact (proj2 (G x) w1 Hw1 Hx).
      - destruct Hw1 as [<-|Hw1]; [exact (proj1 (G x) Hx) | exact (proj2 (G x) w1 Hw1 Hx)]. }
    pose proof (Hs _ _ _ Hw Hxw) as Hf. unfold strip_accents in Hf. apply filter_In in Hf.
    destruct Hf as [Hl Hnc]. split; [apply negb_true_iff; exact Hnc | exact Hl].
  Qed.
End Normalize.
