(* C08 proofs *)
From Coq Require Import NArith ZArith List Bool Lia Arith.
From Coq.Strings Require Import Byte.
From LV Require Import Lib.Bytes Model.C08.
Import ListNotations.
Ltac Zify.zify_post_hook ::= Z.to_euclidean_division_equations.

(* ================= hex ================= *)
Lemma hexval_hexdigit n : (n < 16)%N -> hexval (hexdigit n) = Some n.
Proof.
  intro H. unfold hexval, hexdigit.
  destruct (n <? 10)%N eqn:E.
  - apply N.ltb_lt in E. rewrite byte_of_N_small by lia.
    replace ((48 <=? 48 + n) && (48 + n <=? 57))%N with true.
    + f_equal. lia.
    + symmetry. apply andb_true_iff. split; apply N.leb_le; lia.
  - apply N.ltb_ge in E. rewrite byte_of_N_small by lia.
    replace ((48 <=? 87 + n) && (87 + n <=? 57))%N with false.
    + replace ((97 <=? 87 + n) && (87 + n <=? 102))%N with true.
      * f_equal. lia.
      * symmetry. apply andb_true_iff. split; apply N.leb_le; lia.
    + symmetry. apply andb_false_iff. right. apply N.leb_gt. lia.
Qed.

Lemma unhexlify_hexlify b : unhexlify (hexlify b) = Some b.
Proof.
  induction b as [|x r IH]; [reflexivity|].
  cbn [hexlify unhexlify].
  pose proof (N_of_byte_lt x) as Hx.
  rewrite hexval_hexdigit by (apply N.div_lt_upper_bound; lia).
  rewrite hexval_hexdigit by (apply N.mod_lt; lia).
  rewrite IH. f_equal. f_equal.
  rewrite <- (byte_of_N_of_byte x) at 3. f_equal.
  generalize dependent (N_of_byte x). intros. lia.
Qed.

Lemma hexlify_inj a b : hexlify a = hexlify b -> a = b.
Proof.
  intro H. pose proof (unhexlify_hexlify a) as Ha. rewrite H, unhexlify_hexlify in Ha. congruence.
Qed.

Lemma hexlify_length b : length (hexlify b) = (2 * length b)%nat.
Proof. induction b as [|x r IH]; cbn [hexlify length]; [reflexivity | rewrite IH; lia]. Qed.

Lemma rev_inj {A} (a b : list A) : rev a = rev b -> a = b.
Proof. intro H. rewrite <- (rev_involutive a), <- (rev_involutive b), H. reflexivity. Qed.

Lemma wire_inj a b : wire a = wire b -> a = b.
Proof. unfold wire. intro H. apply rev_inj, hexlify_inj, H. Qed.

Lemma wire_eqb a b : bytes_eqb (wire a) (wire b) = true <-> a = b.
Proof.
  split.
  - intro H. apply bytes_eqb_eq in H. apply wire_inj, H.
  - intros ->. apply bytes_eqb_refl.
Qed.

(* ================= splitting concatenations ================= *)
Lemma app_inj_len_l {A} (a b c d : list A) : length a = length c -> a ++ b = c ++ d -> a = c /\ b = d.
Proof.
  revert c. induction a as [|x a IH]; intros [|y c] L H; simpl in *; try discriminate.
  - split; [reflexivity | exact H].
  - inversion H; subst. destruct (IH c) as [-> ->]; [lia | assumption | split; reflexivity].
Qed.

Lemma app_inj_len_r {A} (a b c d : list A) : length b = length d -> a ++ b = c ++ d -> a = c /\ b = d.
Proof.
  intros L H. apply app_inj_len_l; [|exact H].
  apply (f_equal (@length A)) in H. rewrite !app_length in H. lia.
Qed.

Section Merkle.
Variable dsha : bytes -> bytes.
Notation fold_from := (fold_from dsha).
Notation fold_branch := (fold_branch dsha).
Notation pair_up := (pair_up dsha).
Notation root_fuel := (root_fuel dsha).
Notation merkle_root := (merkle_root dsha).
Notation branch_fuel := (branch_fuel dsha).
Notation branch := (branch dsha).
Notation collision_from := (collision_from dsha).
Notation collision := (collision dsha).
Notation get_root_of_merkle_tree := (get_root_of_merkle_tree dsha).
Notation maybe_verify := (maybe_verify dsha).

(* ================= fold ================= *)
Lemma fold_from_app a : forall i b p w,
  fold_from i (a ++ b) p w = fold_from (i + length a) b p (fold_from i a p w).
Proof.
  induction a as [|x a IH]; intros i b p w; cbn [app fold_from length].
  - f_equal. lia.
  - rewrite IH. f_equal. lia.
Qed.

Lemma fold_from_ext br : forall i p1 p2 w,
  (forall j, (i <= j < i + length br)%nat -> Z.testbit p1 (Z.of_nat j) = Z.testbit p2 (Z.of_nat j)) ->
  fold_from i br p1 w = fold_from i br p2 w.
Proof.
  induction br as [|b r IH]; intros i p1 p2 w H; cbn [fold_from]; [reflexivity|].
  rewrite (H i) by (cbn [length]; lia).
  apply IH. intros j Hj. apply H. cbn [length]. lia.
Qed.

Lemma testbit_mod_low p n j : (j < n)%nat ->
  Z.testbit (p mod 2 ^ Z.of_nat n) (Z.of_nat j) = Z.testbit p (Z.of_nat j).
Proof. intro H. apply Z.mod_pow2_bits_low. lia. Qed.

(* bits at or above the branch length do not matter (what Bitcoin's own check does too) *)
Lemma fold_branch_mod br p1 p2 w :
  (p1 mod 2 ^ Z.of_nat (length br) = p2 mod 2 ^ Z.of_nat (length br))%Z ->
  fold_branch br p1 w = fold_branch br p2 w.
Proof.
  intro H. unfold C08.fold_branch. apply fold_from_ext. intros j Hj.
  rewrite <- (testbit_mod_low p1 (length br) j) by lia.
  rewrite <- (testbit_mod_low p2 (length br) j) by lia.
  rewrite H. reflexivity.
Qed.

(* shifting form of the fold, convenient for the induction over tree levels *)
Fixpoint fold_sh (br : list bytes) (p : Z) (w : bytes) : bytes :=
  match br with
  | [] => w
  | b :: r => fold_sh r (Z.div2 p) (dsha (combine (Z.odd p) b w))
  end.

Lemma fold_from_sh br : forall i p w, fold_from i br p w = fold_sh br (Z.shiftr p (Z.of_nat i)) w.
Proof.
  induction br as [|b r IH]; intros i p w; cbn [fold_from fold_sh]; [reflexivity|].
  rewrite IH. rewrite Z.testbit_odd. f_equal.
  rewrite Z.div2_spec, Z.shiftr_shiftr by lia. f_equal. lia.
Qed.

Lemma fold_branch_sh br p w : fold_branch br p w = fold_sh br p w.
Proof. unfold C08.fold_branch. rewrite fold_from_sh. rewrite Z.shiftr_0_r. reflexivity. Qed.

(* ================= tree levels ================= *)
Lemma pair_ind (P : list bytes -> Prop) :
  P [] -> (forall a, P [a]) -> (forall a b r, P r -> P (a :: b :: r)) -> forall l, P l.
Proof.
  intros H0 H1 H2.
  assert (H : forall l, P l /\ forall a, P (a :: l)).
  { induction l as [|x l [IHa IHb]]; split; auto. }
  intro l. apply H.
Qed.

Lemma pair_up_length l : (2 * length (pair_up l) = length l + Nat.b2n (Nat.odd (length l)))%nat.
Proof.
  induction l as [| a | a b r IH] using pair_ind; cbn [C08.pair_up length]; try reflexivity.
  change (Nat.odd (S (S (length r)))) with (Nat.odd (length r)). lia.
Qed.

Lemma pair_up_length_le l : (2 * length (pair_up l) <= length l + 1)%nat.
Proof. rewrite pair_up_length. destruct (Nat.odd (length l)); simpl; lia. Qed.

Lemma pair_up_length_ge l : (length l <= 2 * length (pair_up l))%nat.
Proof. rewrite pair_up_length. lia. Qed.

Lemma nth_pair_up l : forall j, (j < length (pair_up l))%nat ->
  nth j (pair_up l) [] = dsha (nth (2 * j) l [] ++ nth (2 * j + 1) l (nth (2 * j) l [])).
Proof.
  induction l as [| a | a b r IH] using pair_ind; intros j Hj.
  - simpl in Hj. lia.
  - simpl in Hj. assert (j = 0)%nat by lia. subst. reflexivity.
  - destruct j as [|j].
    + reflexivity.
    + cbn [C08.pair_up length] in Hj. cbn [C08.pair_up nth].
      rewrite IH by lia.
      replace (2 * S j)%nat with (S (S (2 * j))) by lia.
      replace (S (S (2 * j)) + 1)%nat with (S (S (2 * j + 1))) by lia.
      reflexivity.
Qed.

Lemma even_odd_cases n : (n = 2 * Nat.div2 n /\ Nat.odd n = false /\ Nat.even n = true)%nat \/
                         (n = 2 * Nat.div2 n + 1 /\ Nat.odd n = true /\ Nat.even n = false)%nat.
Proof.
  pose proof (Nat.div2_odd n) as H. unfold Nat.odd in *.
  destruct (Nat.even n); simpl in H; [left | right]; repeat split; lia.
Qed.

(* one level: the parent of node idx is the hash the verifier's loop computes from it *)
Lemma level_step l idx : (idx < length l)%nat ->
  (Nat.div2 idx < length (pair_up l))%nat /\
  nth (Nat.div2 idx) (pair_up l) [] = dsha (combine (Nat.odd idx) (sibling l idx) (nth idx l [])).
Proof.
  intro H. pose proof (pair_up_length_ge l) as Hl.
  assert (Hd : (Nat.div2 idx < length (pair_up l))%nat).
  { destruct (even_odd_cases idx) as [[E _]|[E _]]; lia. }
  split; [exact Hd|].
  rewrite nth_pair_up by exact Hd.
  unfold sibling.
  destruct (even_odd_cases idx) as [[E [Ho Hev]]|[E [Ho Hev]]]; rewrite Ho, Hev; cbn [combine].
  - rewrite <- E. replace (idx + 1)%nat with (S idx) by lia. reflexivity.
  - replace (2 * Nat.div2 idx + 1)%nat with idx by lia.
    replace (pred idx) with (2 * Nat.div2 idx)%nat by lia.
    f_equal. f_equal.
    + apply nth_indep. lia.
    + apply nth_indep. lia.
Qed.

Lemma Zodd_of_nat n : Z.odd (Z.of_nat n) = Nat.odd n.
Proof.
  destruct (even_odd_cases n) as [[E [Ho _]]|[E [Ho _]]]; rewrite Ho.
  - replace (Z.of_nat n) with (0 + 2 * Z.of_nat (Nat.div2 n))%Z by lia.
    rewrite Z.odd_add_mul_2. reflexivity.
  - replace (Z.of_nat n) with (1 + 2 * Z.of_nat (Nat.div2 n))%Z by lia.
    rewrite Z.odd_add_mul_2. reflexivity.
Qed.

Lemma Zdiv2_of_nat n : Z.div2 (Z.of_nat n) = Z.of_nat (Nat.div2 n).
Proof.
  rewrite Z.div2_div.
  destruct (even_odd_cases n) as [[E _]|[E _]]; lia.
Qed.

Lemma root_fuel_step f a b t : root_fuel (S f) (a :: b :: t) = root_fuel f (pair_up (a :: b :: t)).
Proof. reflexivity. Qed.
Lemma branch_fuel_step f a b t idx :
  branch_fuel (S f) (a :: b :: t) idx =
  sibling (a :: b :: t) idx :: branch_fuel f (pair_up (a :: b :: t)) (Nat.div2 idx).
Proof. reflexivity. Qed.

(* all levels: folding the generated branch from leaf idx reaches the root *)
Lemma genuine_fuel : forall fuel l idx,
  (1 <= length l <= S fuel)%nat -> (idx < length l)%nat ->
  exists r, root_fuel fuel l = Some r /\
            fold_sh (branch_fuel fuel l idx) (Z.of_nat idx) (nth idx l []) = r.
Proof.
  induction fuel as [|f IH]; intros l idx Hl Hi.
  - destruct l as [|a [|b t]]; cbn [length] in *; try lia.
    assert (idx = 0)%nat by lia. subst. exists a. split; reflexivity.
  - destruct l as [|a [|b t]]; cbn [length] in Hl, Hi; try lia.
    + assert (idx = 0)%nat by lia. subst. exists a. split; reflexivity.
    + rewrite root_fuel_step, branch_fuel_step. cbn [fold_sh].
      set (l := a :: b :: t) in *.
      assert (Hi' : (idx < length l)%nat) by (subst l; cbn [length]; lia).
      destruct (level_step l idx Hi') as [Hd Hn].
      rewrite Zodd_of_nat, Zdiv2_of_nat, <- Hn.
      apply IH; [|exact Hd].
      pose proof (pair_up_length_le l). pose proof (pair_up_length_ge l).
      assert (length l = S (S (length t))) by reflexivity. lia.
Qed.

Lemma genuine l idx : (idx < length l)%nat ->
  exists r, merkle_root l = Some r /\ fold_branch (branch l idx) (Z.of_nat idx) (nth idx l []) = r.
Proof.
  intro H. unfold C08.merkle_root, C08.branch. rewrite fold_branch_sh.
  apply genuine_fuel; lia.
Qed.

(* the branch is long enough to address every leaf: n <= 2^len *)
Lemma branch_fuel_length : forall fuel l idx, (1 <= length l <= S fuel)%nat ->
  (length l <= 2 ^ length (branch_fuel fuel l idx))%nat.
Proof.
  induction fuel as [|f IH]; intros l idx Hl.
  - destruct l as [|a [|b t]]; cbn [length] in *; try lia. simpl. lia.
  - destruct l as [|a [|b t]]; cbn [length] in Hl; try lia.
    + simpl. lia.
    + rewrite branch_fuel_step. cbn [length]. rewrite Nat.pow_succ_r'.
      set (l := a :: b :: t) in *.
      pose proof (pair_up_length_le l). pose proof (pair_up_length_ge l).
      assert (length l = S (S (length t))) by reflexivity.
      specialize (IH (pair_up l) (Nat.div2 idx)). lia.
Qed.

Lemma branch_length_covers l idx : (1 <= length l)%nat -> (length l <= 2 ^ length (branch l idx))%nat.
Proof. intro H. unfold C08.branch. apply branch_fuel_length. lia. Qed.

(* the branch length does not depend on the index *)
Lemma branch_fuel_length_indep : forall fuel l i j, length (branch_fuel fuel l i) = length (branch_fuel fuel l j).
Proof.
  induction fuel as [|f IH]; intros l i j.
  - destruct l as [|a [|b t]]; reflexivity.
  - destruct l as [|a [|b t]]; try reflexivity.
    rewrite !branch_fuel_step. cbn [length]. f_equal. apply IH.
Qed.

(* any position that agrees with the index below the branch length works *)
Lemma genuine_any_high_bits l idx pos : (idx < length l)%nat ->
  (pos mod 2 ^ Z.of_nat (length (branch l idx)) = Z.of_nat idx)%Z ->
  exists r, merkle_root l = Some r /\ fold_branch (branch l idx) pos (nth idx l []) = r.
Proof.
  intros H Hp. destruct (genuine l idx H) as [r [Hr Hf]]. exists r. split; [exact Hr|].
  rewrite <- Hf. apply fold_branch_mod. rewrite Hp.
  symmetry. apply Z.mod_small. split; [lia|].
  pose proof (branch_length_covers l idx ltac:(lia)) as Hc.
  rewrite <- (Nat2Z.inj_pow 2). lia.
Qed.

(* ================= wire level ================= *)
Lemma decode_branches_wire br : decode_branches (map wire br) = Some br.
Proof.
  induction br as [|b r IH]; [reflexivity|].
  cbn [map decode_branches]. unfold wire at 1. rewrite unhexlify_hexlify, IH, rev_involutive. reflexivity.
Qed.

Lemma genuine_wire l idx : (idx < length l)%nat ->
  exists r, merkle_root l = Some r /\
    get_root_of_merkle_tree (map wire (branch l idx)) (Z.of_nat idx) (nth idx l []) = Some (wire r).
Proof.
  intro H. destruct (genuine l idx H) as [r [Hr Hf]]. exists r. split; [exact Hr|].
  unfold C08.get_root_of_merkle_tree. rewrite decode_branches_wire, Hf. reflexivity.
Qed.

(* ================= binding ================= *)
Definition same_widths (br1 br2 : list bytes) : Prop := Forall2 (fun a b : bytes => length a = length b) br1 br2.

Lemma combine_inj_width s b1 b2 w1 w2 : length b1 = length b2 ->
  combine s b1 w1 = combine s b2 w2 -> b1 = b2 /\ w1 = w2.
Proof.
  intros L H. destruct s; cbn [combine] in H.
  - apply app_inj_len_l in H; [exact H | exact L].
  - apply app_inj_len_r in H; [destruct H; split; assumption | exact L].
Qed.

Lemma combine_inj_wlen s b1 b2 w1 w2 : length w1 = length w2 ->
  combine s b1 w1 = combine s b2 w2 -> b1 = b2 /\ w1 = w2.
Proof.
  intros L H. destruct s; cbn [combine] in H.
  - apply app_inj_len_r in H; [exact H | exact L].
  - apply app_inj_len_l in H; [destruct H; split; assumption | exact L].
Qed.

Lemma bytes_eq_dec (a b : bytes) : {a = b} + {a <> b}.
Proof. destruct (bytes_eqb a b) eqn:E; [left; apply bytes_eqb_eq, E | right; apply bytes_eqb_neq, E]. Qed.

(* core: same sides on the levels the branch spans, siblings of pairwise equal width, different
   (branch, start) but the same end: some level hashes two different inputs to the same value,
   and [collision_from] returns that pair. No assumption on dsha. *)
Lemma binding_core : forall br1 br2 i p1 p2 w1 w2,
  same_widths br1 br2 ->
  (forall j, (i <= j < i + length br1)%nat -> Z.testbit p1 (Z.of_nat j) = Z.testbit p2 (Z.of_nat j)) ->
  (br1, w1) <> (br2, w2) ->
  fold_from i br1 p1 w1 = fold_from i br2 p2 w2 ->
  exists x y, collision_from i br1 br2 p1 p2 w1 w2 = Some (x, y) /\ x <> y /\ dsha x = dsha y.
Proof.
  induction br1 as [|b1 r1 IH]; intros br2 i p1 p2 w1 w2 Hw Hb Hne Hf.
  - inversion Hw; subst. cbn [C08.fold_from] in Hf. subst. congruence.
  - inversion Hw as [|? b2 ? r2 Hlen Hw']; subst.
    cbn [C08.fold_from] in Hf. cbn [C08.collision_from].
    rewrite <- (Hb i) in * by (cbn [length]; lia).
    set (s := Z.testbit p1 (Z.of_nat i)) in *.
    set (c1 := combine s b1 w1) in *. set (c2 := combine s b2 w2) in *.
    assert (Hb' : forall j, (S i <= j < S i + length r1)%nat ->
                            Z.testbit p1 (Z.of_nat j) = Z.testbit p2 (Z.of_nat j)).
    { intros j Hj. apply Hb. cbn [length]. lia. }
    destruct (bytes_eq_dec c1 c2) as [Ec|Ec].
    + rewrite (proj2 (bytes_eqb_eq c1 c2) Ec). cbn [negb andb].
      apply IH; try assumption.
      subst c1 c2. apply combine_inj_width in Ec; [|exact Hlen]. destruct Ec as [-> ->].
      intro E. apply Hne. inversion E; subst. reflexivity.
    + rewrite (proj2 (bytes_eqb_neq c1 c2) Ec). cbn [negb andb].
      destruct (bytes_eq_dec (dsha c1) (dsha c2)) as [Ed|Ed].
      * rewrite (proj2 (bytes_eqb_eq _ _) Ed). exists c1, c2. repeat split; assumption.
      * rewrite (proj2 (bytes_eqb_neq _ _) Ed).
        apply IH; try assumption. intro E. inversion E. contradiction.
Qed.

Lemma same_widths_refl br : same_widths br br.
Proof. induction br; constructor; auto. Qed.

Lemma same_widths_length br1 br2 : same_widths br1 br2 -> length br1 = length br2.
Proof. induction 1; cbn [length]; congruence. Qed.

Lemma same_widths_32 br1 br2 : length br1 = length br2 ->
  Forall (fun b : bytes => length b = 32%nat) br1 -> Forall (fun b : bytes => length b = 32%nat) br2 ->
  same_widths br1 br2.
Proof.
  revert br2. induction br1 as [|a r IH]; intros [|b r2] L H1 H2; cbn [length] in L; try discriminate.
  - constructor.
  - inversion H1; inversion H2; subst. constructor; [congruence|]. apply IH; auto.
Qed.

Lemma mod_bits_agree p1 p2 n :
  (p1 mod 2 ^ Z.of_nat n = p2 mod 2 ^ Z.of_nat n)%Z ->
  forall j, (0 <= j < 0 + n)%nat -> Z.testbit p1 (Z.of_nat j) = Z.testbit p2 (Z.of_nat j).
Proof.
  intros H j Hj.
  rewrite <- (testbit_mod_low p1 n j) by lia. rewrite <- (testbit_mod_low p2 n j) by lia.
  rewrite H. reflexivity.
Qed.

Theorem binding br1 br2 p1 p2 leaf1 leaf2 :
  same_widths br1 br2 ->
  (p1 mod 2 ^ Z.of_nat (length br1) = p2 mod 2 ^ Z.of_nat (length br1))%Z ->
  (br1, leaf1) <> (br2, leaf2) ->
  fold_branch br1 p1 leaf1 = fold_branch br2 p2 leaf2 ->
  exists x y, collision br1 br2 p1 p2 leaf1 leaf2 = Some (x, y) /\ x <> y /\ dsha x = dsha y.
Proof.
  intros Hw Hp Hne Hf. unfold C08.collision. apply binding_core; try assumption.
  apply mod_bits_agree. exact Hp.
Qed.

(* variant for siblings of arbitrary widths (the code does not check them): it needs the hash to
   have a fixed output length and the two leaves to have equal length *)
Lemma binding_core_fixed_out :
  (forall x y, length (dsha x) = length (dsha y)) ->
  forall br1 br2 i p1 p2 w1 w2,
  length br1 = length br2 -> length w1 = length w2 ->
  (forall j, (i <= j < i + length br1)%nat -> Z.testbit p1 (Z.of_nat j) = Z.testbit p2 (Z.of_nat j)) ->
  (br1, w1) <> (br2, w2) ->
  fold_from i br1 p1 w1 = fold_from i br2 p2 w2 ->
  exists x y, collision_from i br1 br2 p1 p2 w1 w2 = Some (x, y) /\ x <> y /\ dsha x = dsha y.
Proof.
  intro Hout.
  induction br1 as [|b1 r1 IH]; intros br2 i p1 p2 w1 w2 Hl Hwl Hb Hne Hf.
  - destruct br2; [|discriminate]. cbn [C08.fold_from] in Hf. subst. congruence.
  - destruct br2 as [|b2 r2]; [discriminate|]. cbn [length] in Hl.
    cbn [C08.fold_from] in Hf. cbn [C08.collision_from].
    rewrite <- (Hb i) in * by (cbn [length]; lia).
    set (s := Z.testbit p1 (Z.of_nat i)) in *.
    set (c1 := combine s b1 w1) in *. set (c2 := combine s b2 w2) in *.
    assert (Hb' : forall j, (S i <= j < S i + length r1)%nat ->
                            Z.testbit p1 (Z.of_nat j) = Z.testbit p2 (Z.of_nat j)).
    { intros j Hj. apply Hb. cbn [length]. lia. }
    destruct (bytes_eq_dec c1 c2) as [Ec|Ec].
    + rewrite (proj2 (bytes_eqb_eq c1 c2) Ec). cbn [negb andb].
      apply IH; try assumption; [lia | apply Hout |].
      subst c1 c2. apply combine_inj_wlen in Ec; [|exact Hwl]. destruct Ec as [-> ->].
      intro E. apply Hne. inversion E; subst. reflexivity.
    + rewrite (proj2 (bytes_eqb_neq c1 c2) Ec). cbn [negb andb].
      destruct (bytes_eq_dec (dsha c1) (dsha c2)) as [Ed|Ed].
      * rewrite (proj2 (bytes_eqb_eq _ _) Ed). exists c1, c2. repeat split; assumption.
      * rewrite (proj2 (bytes_eqb_neq _ _) Ed).
        apply IH; try assumption; [lia | apply Hout |]. intro E. inversion E. contradiction.
Qed.

Theorem binding_fixed_out br1 br2 p1 p2 leaf1 leaf2 :
  (forall x y, length (dsha x) = length (dsha y)) ->
  length br1 = length br2 -> length leaf1 = length leaf2 ->
  (p1 mod 2 ^ Z.of_nat (length br1) = p2 mod 2 ^ Z.of_nat (length br1))%Z ->
  (br1, leaf1) <> (br2, leaf2) ->
  fold_branch br1 p1 leaf1 = fold_branch br2 p2 leaf2 ->
  exists x y, collision br1 br2 p1 p2 leaf1 leaf2 = Some (x, y) /\ x <> y /\ dsha x = dsha y.
Proof.
  intros Hout Hl Hw Hp Hne Hf. unfold C08.collision.
  apply binding_core_fixed_out; try assumption. apply mod_bits_agree. exact Hp.
Qed.

(* the pair returned by collision_from consists of 64-byte strings when everything is 32 bytes *)
Lemma combine_length s b w : length (combine s b w) = (length b + length w)%nat.
Proof. destruct s; cbn [combine]; rewrite app_length; lia. Qed.

Lemma collision_from_64 :
  (forall x, length (dsha x) = 32%nat) ->
  forall br1 br2 i p1 p2 w1 w2 x y,
  Forall (fun b : bytes => length b = 32%nat) br1 -> Forall (fun b : bytes => length b = 32%nat) br2 ->
  length w1 = 32%nat -> length w2 = 32%nat ->
  collision_from i br1 br2 p1 p2 w1 w2 = Some (x, y) -> length x = 64%nat /\ length y = 64%nat.
Proof.
  intro Hout.
  induction br1 as [|b1 r1 IH]; intros br2 i p1 p2 w1 w2 x y H1 H2 L1 L2 Hc.
  - discriminate.
  - destruct br2 as [|b2 r2]; [discriminate|].
    inversion H1; inversion H2; subst. cbn [C08.collision_from] in Hc.
    match type of Hc with (if ?c then _ else _) = _ => destruct c end.
    + inversion Hc; subst. rewrite !combine_length. lia.
    + match goal with Ha : Forall _ r1, Hb : Forall _ r2 |- _ =>
        exact (IH r2 (S i) p1 p2 _ _ x y Ha Hb (Hout _) (Hout _) Hc) end.
Qed.

Theorem binding_64 br1 br2 p1 p2 leaf1 leaf2 :
  (forall x, length (dsha x) = 32%nat) ->
  length br1 = length br2 ->
  Forall (fun b : bytes => length b = 32%nat) br1 -> Forall (fun b : bytes => length b = 32%nat) br2 ->
  length leaf1 = 32%nat -> length leaf2 = 32%nat ->
  (p1 mod 2 ^ Z.of_nat (length br1) = p2 mod 2 ^ Z.of_nat (length br1))%Z ->
  (br1, leaf1) <> (br2, leaf2) ->
  fold_branch br1 p1 leaf1 = fold_branch br2 p2 leaf2 ->
  exists x y, collision br1 br2 p1 p2 leaf1 leaf2 = Some (x, y) /\ x <> y /\ dsha x = dsha y /\
              length x = 64%nat /\ length y = 64%nat.
Proof.
  intros Hout Hl H1 H2 L1 L2 Hp Hne Hf.
  destruct (binding br1 br2 p1 p2 leaf1 leaf2) as [x [y [Hc [Hxy Hd]]]]; try assumption.
  { apply same_widths_32; assumption. }
  exists x, y. repeat split; try assumption;
    eapply (collision_from_64 Hout br1 br2 0 p1 p2 leaf1 leaf2 x y); eassumption.
Qed.

(* ---------- SPV soundness against the block's own tree ----------
   a proof that folds to the root of the tree built from leaf list l, presented with a position whose
   low bits name index j of the block and with the branch length of that tree, carries exactly the
   j-th leaf and the genuine branch -- or [collision] returns an explicit collision *)
Theorem verified_member l br pos leaf r j :
  merkle_root l = Some r -> (j < length l)%nat ->
  (pos mod 2 ^ Z.of_nat (length br) = Z.of_nat j)%Z ->
  same_widths br (branch l j) ->
  fold_branch br pos leaf = r ->
  (leaf = nth j l [] /\ br = branch l j) \/
  exists x y, collision br (branch l j) pos (Z.of_nat j) leaf (nth j l []) = Some (x, y) /\ x <> y /\ dsha x = dsha y.
Proof.
  intros Hr Hj Hp Hw Hf.
  destruct (genuine l j Hj) as [r' [Hr' Hg]]. rewrite Hr in Hr'. inversion Hr'; subst r'.
  destruct (list_eq_dec bytes_eq_dec br (branch l j)) as [Eb|Eb];
    [destruct (bytes_eq_dec leaf (nth j l [])) as [El|El]|].
  - left. split; assumption.
  - right. apply binding; try assumption.
    + rewrite Hp. pose proof (same_widths_length _ _ Hw) as HL. rewrite HL.
      symmetry. apply Z.mod_small. split; [lia|].
      pose proof (branch_length_covers l j ltac:(lia)). rewrite <- (Nat2Z.inj_pow 2). lia.
    + intro E. inversion E. contradiction.
    + congruence.
  - right. apply binding; try assumption.
    + rewrite Hp. pose proof (same_widths_length _ _ Hw) as HL. rewrite HL.
      symmetry. apply Z.mod_small. split; [lia|].
      pose proof (branch_length_covers l j ltac:(lia)). rewrite <- (Nat2Z.inj_pow 2). lia.
    + intro E. inversion E. contradiction.
    + congruence.
Qed.

(* ---------- mutation of the transaction ---------- *)
Theorem tx_mutation br pos raw1 raw2 :
  raw1 <> raw2 ->
  fold_branch br pos (dsha raw1) = fold_branch br pos (dsha raw2) ->
  exists x y, x <> y /\ dsha x = dsha y /\
    ((x, y) = (raw1, raw2) \/ collision br br pos pos (dsha raw1) (dsha raw2) = Some (x, y)).
Proof.
  intros Hne Hf.
  destruct (bytes_eq_dec (dsha raw1) (dsha raw2)) as [E|E].
  - exists raw1, raw2. repeat split; auto.
  - destruct (binding br br pos pos (dsha raw1) (dsha raw2)) as [x [y [Hc [Hxy Hd]]]]; try assumption.
    + apply same_widths_refl.
    + reflexivity.
    + intro F. inversion F. contradiction.
    + exists x, y. repeat split; auto.
Qed.

(* ---------- mutation of one position bit ---------- *)
Lemma flip_core : forall k br i p' p w,
  (k < length br)%nat ->
  Z.testbit p' (Z.of_nat (i + k)) = negb (Z.testbit p (Z.of_nat (i + k))) ->
  (forall j, (i <= j < i + length br)%nat -> j <> (i + k)%nat -> Z.testbit p' (Z.of_nat j) = Z.testbit p (Z.of_nat j)) ->
  fold_from i br p' w = fold_from i br p w ->
  (nth k br [] ++ fold_from i (firstn k br) p w = fold_from i (firstn k br) p w ++ nth k br []) \/
  exists x y, collision_from i br br p' p w w = Some (x, y) /\ x <> y /\ dsha x = dsha y.
Proof.
  induction k as [|k IH]; intros br i p' p w Hk Hflip Hsame Hf.
  - destruct br as [|b r]; [cbn [length] in Hk; lia|].
    cbn [firstn nth C08.fold_from] in *. cbn [C08.collision_from].
    replace (i + 0)%nat with i in * by lia. rewrite Hflip in *.
    set (s := Z.testbit p (Z.of_nat i)) in *.
    set (c1 := combine (negb s) b w) in *. set (c2 := combine s b w) in *.
    destruct (bytes_eq_dec c1 c2) as [Ec|Ec].
    + left. subst c1 c2. destruct s; cbn [negb combine] in Ec; [symmetry|]; exact Ec.
    + right. rewrite (proj2 (bytes_eqb_neq c1 c2) Ec). cbn [negb andb].
      destruct (bytes_eq_dec (dsha c1) (dsha c2)) as [Ed|Ed].
      * rewrite (proj2 (bytes_eqb_eq _ _) Ed). exists c1, c2. repeat split; assumption.
      * rewrite (proj2 (bytes_eqb_neq _ _) Ed).
        apply binding_core; try assumption.
        -- apply same_widths_refl.
        -- intros j Hj. apply Hsame; cbn [length]; lia.
        -- intro E. inversion E. contradiction.
  - destruct br as [|b r]; [cbn [length] in Hk; lia|].
    cbn [length] in Hk.
    cbn [firstn nth C08.fold_from] in *. cbn [C08.collision_from].
    rewrite (Hsame i) in * by (cbn [length]; lia).
    rewrite bytes_eqb_refl. cbn [negb andb].
    apply IH.
    + lia.
    + replace (S i + k)%nat with (i + S k)%nat by lia. exact Hflip.
    + intros j Hj Hjk. apply Hsame; cbn [length]; lia.
    + exact Hf.
Qed.

Theorem position_flip br pos' pos leaf k :
  (k < length br)%nat ->
  Z.testbit pos' (Z.of_nat k) = negb (Z.testbit pos (Z.of_nat k)) ->
  (forall j, (j < length br)%nat -> j <> k -> Z.testbit pos' (Z.of_nat j) = Z.testbit pos (Z.of_nat j)) ->
  fold_branch br pos' leaf = fold_branch br pos leaf ->
  (nth k br [] ++ fold_branch (firstn k br) pos leaf = fold_branch (firstn k br) pos leaf ++ nth k br []) \/
  exists x y, collision br br pos' pos leaf leaf = Some (x, y) /\ x <> y /\ dsha x = dsha y.
Proof.
  intros Hk Hflip Hsame Hf. unfold C08.fold_branch, C08.collision in *.
  apply flip_core; try assumption.
  intros j Hj Hjk. apply Hsame; lia.
Qed.

(* with equal widths "same hash input on both sides" means: the sibling IS the running hash
   (Bitcoin's duplicated last node) *)
Lemma app_comm_same_len (b w : bytes) : length b = length w -> b ++ w = w ++ b -> b = w.
Proof. intros L H. apply app_inj_len_l in H; [apply H | exact L]. Qed.

Lemma lxor_pow2_flip pos k j :
  Z.testbit (Z.lxor pos (2 ^ Z.of_nat k)) (Z.of_nat j) =
  if Nat.eqb j k then negb (Z.testbit pos (Z.of_nat j)) else Z.testbit pos (Z.of_nat j).
Proof.
  rewrite Z.lxor_spec, Z.pow2_bits_eqb by lia.
  destruct (Nat.eqb j k) eqn:E.
  - apply Nat.eqb_eq in E. subst. rewrite Z.eqb_refl. apply xorb_true_r.
  - apply Nat.eqb_neq in E. replace (Z.of_nat k =? Z.of_nat j)%Z with false.
    + apply xorb_false_r.
    + symmetry. apply Z.eqb_neq. lia.
Qed.

(* ---------- changing the branch length ---------- *)
Lemma fold_branch_snoc br e pos leaf :
  fold_branch (br ++ [e]) pos leaf =
  dsha (combine (Z.testbit pos (Z.of_nat (length br))) e (fold_branch br pos leaf)).
Proof. unfold C08.fold_branch. rewrite fold_from_app. reflexivity. Qed.

(* ================= maybe_verify ================= *)
Definition in_range (headers : list bytes) (h : Z) : Prop := (0 < h < Z.of_nat (length headers))%Z.

Lemma in_range_dec headers h :
  ((0 <? h) && (h <? Z.of_nat (length headers)))%Z = true <-> in_range headers h.
Proof. unfold in_range. rewrite andb_true_iff, !Z.ltb_lt. tauto. Qed.

(* the proof carried by the dict folds to the root stored in the header at height h *)
Definition proof_checks (headers : list bytes) (raw_tx : bytes) (h : Z) (m : merkle_resp) : Prop :=
  exists brs pos br, m_merkle m = Some brs /\ m_pos m = Some pos /\ decode_branches brs = Some br /\
     fold_branch br pos (dsha raw_tx) = header_root_raw (nth (Z.to_nat h) headers []) /\
     pos_fits brs pos = true.

Lemma root_eqb_iff x hdr : bytes_eqb (hexlify (rev x)) (header_merkle_root hdr) = true <-> x = header_root_raw hdr.
Proof. unfold header_merkle_root. apply (wire_eqb x (header_root_raw hdr)). Qed.

Lemma mv_out_of_range headers st raw h arg net :
  ~ in_range headers h ->
  maybe_verify headers st raw h arg net =
  ({| t_height := h; t_position := t_position st; t_verified := t_verified st |}, RetTx, false).
Proof.
  intro H. unfold C08.maybe_verify.
  destruct ((0 <? h) && (h <? Z.of_nat (length headers)))%Z eqn:E; [|reflexivity].
  apply in_range_dec in E. contradiction.
Qed.

Lemma mv_in_range headers st raw h arg net :
  in_range headers h ->
  maybe_verify headers st raw h arg net =
  let m := effective arg net in
  let fetched := match arg with Some _ => false | None => true end in
  let st1 := {| t_height := h; t_position := t_position st; t_verified := t_verified st |} in
  match m_merkle m with
  | None => (st1, RetNone, fetched)
  | Some brs =>
      match m_pos m with
      | None => (st1, RaiseKeyError, fetched)
      | Some pos =>
          if negb (pos_fits brs pos)
          then ({| t_height := h; t_position := t_position st; t_verified := false |}, RetTx, fetched) else
          match get_root_of_merkle_tree brs pos (dsha raw) with
          | None => (st1, RaiseHexError, fetched)
          | Some root =>
              ({| t_height := h; t_position := pos;
                  t_verified := bytes_eqb root (header_merkle_root (nth (Z.to_nat h) headers [])) |},
               RetTx, fetched)
          end
      end
  end.
Proof.
  intro H. apply in_range_dec in H. unfold C08.maybe_verify. rewrite H. reflexivity.
Qed.

Theorem height_recorded headers st raw h arg net :
  t_height (mv_state (maybe_verify headers st raw h arg net)) = h.
Proof.
  unfold C08.maybe_verify, effective.
  destruct ((0 <? h) && (h <? Z.of_nat (length headers)))%Z; [|reflexivity].
  destruct arg as [m|]; destruct (m_merkle _); try reflexivity; destruct (m_pos _); try reflexivity;
    destruct (negb _); try reflexivity; destruct (C08.get_root_of_merkle_tree _ _ _ _); reflexivity.
Qed.

(* the new value of the flag, for every previous state *)
Theorem verified_char headers st raw h arg net :
  let r := maybe_verify headers st raw h arg net in
  (in_range headers h /\ mv_outcome r = RetTx ->
     (t_verified (mv_state r) = true <-> proof_checks headers raw h (effective arg net))) /\
  (~ (in_range headers h /\ mv_outcome r = RetTx) -> t_verified (mv_state r) = t_verified st).
Proof.
  cbv zeta.
  destruct (Z_lt_dec 0 h) as [H0|H0]; [destruct (Z_lt_dec h (Z.of_nat (length headers))) as [H1|H1]|].
  2,3: rewrite mv_out_of_range by (unfold in_range; lia); split;
       [intros [Hr _]; unfold in_range in Hr; lia | reflexivity].
  assert (Hr : in_range headers h) by (unfold in_range; lia).
  rewrite (mv_in_range _ _ _ _ _ _ Hr). cbv zeta. unfold proof_checks.
  destruct (m_merkle (effective arg net)) as [brs|] eqn:Em.
  2: { split; [intros [_ Ho]; discriminate Ho | reflexivity]. }
  destruct (m_pos (effective arg net)) as [pos|] eqn:Ep.
  2: { split; [intros [_ Ho]; discriminate Ho | reflexivity]. }
  destruct (pos_fits brs pos) eqn:Ef; cbn [negb].
  2: { split.
       - intros _. unfold mv_state. cbn [fst t_verified]. split; [discriminate|].
         intros [brs' [pos' [br' [E1 [E2 [_ [_ E5]]]]]]]. inversion E1; inversion E2; subst. congruence.
       - intro H. exfalso. apply H. split; [exact Hr | reflexivity]. }
  unfold C08.get_root_of_merkle_tree.
  destruct (decode_branches brs) as [br|] eqn:Ed.
  2: { split; [intros [_ Ho]; discriminate Ho | reflexivity]. }
  split.
  - intros _. unfold mv_state. cbn [fst t_verified]. rewrite root_eqb_iff. split.
    + intro H. exists brs, pos, br. repeat split; auto.
    + intros [brs' [pos' [br' [E1 [E2 [E3 [E4 _]]]]]]].
      inversion E1; inversion E2; subst. rewrite Ed in E3. inversion E3; subst. exact E4.
  - intro H. exfalso. apply H. split; [exact Hr | reflexivity].
Qed.

(* the plan's statement: for a transaction not yet verified, the flag is set iff the height has
   a header (0 < h < len headers) and the proof folds to that header's root *)
Theorem verified_iff headers st raw h arg net :
  t_verified st = false ->
  (t_verified (mv_state (maybe_verify headers st raw h arg net)) = true <->
   in_range headers h /\ proof_checks headers raw h (effective arg net)).
Proof.
  intro Hst.
  destruct (Z_lt_dec 0 h) as [H0|H0]; [destruct (Z_lt_dec h (Z.of_nat (length headers))) as [H1|H1]|].
  2,3: rewrite mv_out_of_range by (unfold in_range; lia); unfold mv_state; cbn [fst t_verified];
       rewrite Hst; split; [discriminate | intros [Hr _]; unfold in_range in Hr; lia].
  assert (Hr : in_range headers h) by (unfold in_range; lia).
  rewrite (mv_in_range _ _ _ _ _ _ Hr). cbv zeta. unfold proof_checks.
  destruct (m_merkle (effective arg net)) as [brs|] eqn:Em.
  2: { unfold mv_state; cbn [fst t_verified]. rewrite Hst. split; [discriminate|].
       intros [_ [? [? [? [E _]]]]]. discriminate E. }
  destruct (m_pos (effective arg net)) as [pos|] eqn:Ep.
  2: { unfold mv_state; cbn [fst t_verified]. rewrite Hst. split; [discriminate|].
       intros [_ [? [? [? [_ [E _]]]]]]. discriminate E. }
  destruct (pos_fits brs pos) eqn:Ef; cbn [negb].
  2: { unfold mv_state; cbn [fst t_verified]. split; [discriminate|].
       intros [_ [brs' [pos' [br' [E1 [E2 [_ [_ E5]]]]]]]]. inversion E1; inversion E2; subst. congruence. }
  unfold C08.get_root_of_merkle_tree.
  destruct (decode_branches brs) as [br|] eqn:Ed.
  2: { unfold mv_state; cbn [fst t_verified]. rewrite Hst. split; [discriminate|].
       intros [_ [brs' [? [? [E1 [_ [E3 _]]]]]]]. inversion E1; subst. rewrite Ed in E3. discriminate E3. }
  unfold mv_state. cbn [fst t_verified]. rewrite root_eqb_iff. split.
  - intro H. split; [exact Hr|]. exists brs, pos, br. repeat split; auto.
  - intros [_ [brs' [pos' [br' [E1 [E2 [E3 [E4 _]]]]]]]].
    inversion E1; inversion E2; subst. rewrite Ed in E3. inversion E3; subst. exact E4.
Qed.

Theorem unknown_height_never_verified headers st raw h arg net :
  ~ in_range headers h ->
  let r := maybe_verify headers st raw h arg net in
  t_verified (mv_state r) = t_verified st /\ t_position (mv_state r) = t_position st /\
  mv_outcome r = RetTx /\ mv_fetched r = false.
Proof. intro H. cbv zeta. rewrite mv_out_of_range by exact H. repeat split. Qed.

(* the supplied position is recorded whenever the proof was evaluated (it fits the branch); a position
   the branch cannot address is NOT recorded (fix 3419b3f) *)
Theorem position_recorded headers st raw h arg net :
  let r := maybe_verify headers st raw h arg net in
  in_range headers h -> mv_outcome r = RetTx ->
  exists brs pos, m_merkle (effective arg net) = Some brs /\ m_pos (effective arg net) = Some pos /\
    (if pos_fits brs pos then t_position (mv_state r) = pos
     else t_position (mv_state r) = t_position st /\ t_verified (mv_state r) = false).
Proof.
  cbv zeta. intros Hr. rewrite (mv_in_range _ _ _ _ _ _ Hr). cbv zeta.
  destruct (m_merkle (effective arg net)) as [brs|]; [|discriminate].
  destruct (m_pos (effective arg net)) as [pos|]; [|discriminate].
  intro Ho. exists brs, pos. split; [reflexivity|]. split; [reflexivity|].
  destruct (pos_fits brs pos); cbn [negb] in *.
  - destruct (C08.get_root_of_merkle_tree _ _ _ _); [reflexivity | discriminate].
  - split; reflexivity.
Qed.

(* a verified transaction's recorded position fits the branch: 0 <= position < 2^len(branch) *)
Theorem verified_position_fits headers st raw h arg net :
  t_verified st = false ->
  t_verified (mv_state (maybe_verify headers st raw h arg net)) = true ->
  exists brs, m_merkle (effective arg net) = Some brs /\
    m_pos (effective arg net) = Some (t_position (mv_state (maybe_verify headers st raw h arg net))) /\
    (0 <= t_position (mv_state (maybe_verify headers st raw h arg net)) < 2 ^ Z.of_nat (length brs))%Z.
Proof.
  intros Hst V. pose proof V as V'. apply verified_iff in V'; [|exact Hst].
  destruct V' as [Hr [brs [pos [br [E1 [E2 [E3 [E4 E5]]]]]]]].
  exists brs. split; [exact E1|].
  revert V. rewrite (mv_in_range _ _ _ _ _ _ Hr). cbv zeta. rewrite E1, E2, E5. cbn [negb].
  destruct (C08.get_root_of_merkle_tree _ _ _ _); unfold mv_state; cbn [fst t_position t_verified]; intro V.
  - split; [reflexivity|]. unfold pos_fits in E5. apply andb_true_iff in E5. destruct E5 as [A B].
    apply Z.leb_le in A. apply Z.ltb_lt in B. lia.
  - congruence.
Qed.

(* end to end: the genuine proof of transaction idx of a block whose root sits in the header at
   height h is accepted, whatever the previous state of the transaction *)
Theorem genuine_verified headers st raws idx h arg net r :
  (idx < length raws)%nat -> in_range headers h ->
  merkle_root (map dsha raws) = Some r ->
  header_root_raw (nth (Z.to_nat h) headers []) = r ->
  effective arg net = {| m_merkle := Some (map wire (branch (map dsha raws) idx));
                         m_pos := Some (Z.of_nat idx) |} ->
  let res := maybe_verify headers st (nth idx raws []) h arg net in
  t_verified (mv_state res) = true /\ t_position (mv_state res) = Z.of_nat idx /\
  t_height (mv_state res) = h /\ mv_outcome res = RetTx.
Proof.
  intros Hi Hr Hroot Hh He. cbv zeta.
  rewrite (mv_in_range _ _ _ _ _ _ Hr). cbv zeta. rewrite He. cbn [m_merkle m_pos].
  assert (Hi' : (idx < length (map dsha raws))%nat) by (rewrite map_length; exact Hi).
  destruct (genuine_wire (map dsha raws) idx Hi') as [r' [Hr' Hg]].
  rewrite Hroot in Hr'. inversion Hr'; subst r'.
  replace (dsha (nth idx raws [])) with (nth idx (map dsha raws) []).
  2: { rewrite (nth_indep _ [] (dsha [])) by exact Hi'. apply map_nth. }
  assert (Hfit : pos_fits (map wire (branch (map dsha raws) idx)) (Z.of_nat idx) = true).
  { unfold pos_fits. rewrite map_length. apply andb_true_iff. split; [apply Z.leb_le; lia|].
    apply Z.ltb_lt. pose proof (branch_length_covers (map dsha raws) idx ltac:(lia)) as Hc.
    rewrite <- (Nat2Z.inj_pow 2). lia. }
  rewrite Hfit. cbn [negb].
  rewrite Hg. unfold mv_state, mv_outcome. cbn [fst snd t_verified t_position t_height].
  repeat split. unfold wire. rewrite root_eqb_iff. symmetry. exact Hh.
Qed.

(* presenting the same proof for another height can only succeed if that header has the same root *)
Theorem height_mutation headers st raw h h' arg net :
  t_verified st = false ->
  t_verified (mv_state (maybe_verify headers st raw h arg net)) = true ->
  t_verified (mv_state (maybe_verify headers st raw h' arg net)) = true ->
  in_range headers h' /\
  header_root_raw (nth (Z.to_nat h') headers []) = header_root_raw (nth (Z.to_nat h) headers []).
Proof.
  intros Hst H1 H2.
  apply verified_iff in H1; [|exact Hst]. apply verified_iff in H2; [|exact Hst].
  destruct H1 as [_ [b1 [p1 [d1 [A1 [A2 [A3 [A4 _]]]]]]]]. destruct H2 as [R [b2 [p2 [d2 [B1 [B2 [B3 [B4 _]]]]]]]].
  split; [exact R|].
  rewrite A1 in B1. inversion B1; subst. rewrite A2 in B2. inversion B2; subst.
  rewrite A3 in B3. inversion B3; subst. congruence.
Qed.


(* a verified transaction is the block's transaction at that index, or a collision is exhibited *)
Theorem verified_tx_in_block headers st raw h arg net raws r :
  t_verified st = false ->
  t_verified (mv_state (maybe_verify headers st raw h arg net)) = true ->
  merkle_root (map dsha raws) = Some r ->
  header_root_raw (nth (Z.to_nat h) headers []) = r ->
  exists brs pos br,
    m_merkle (effective arg net) = Some brs /\ m_pos (effective arg net) = Some pos /\
    decode_branches brs = Some br /\
    forall j, (j < length raws)%nat ->
      (pos mod 2 ^ Z.of_nat (length br) = Z.of_nat j)%Z ->
      same_widths br (branch (map dsha raws) j) ->
      (dsha raw = dsha (nth j raws []) /\ br = branch (map dsha raws) j) \/
      exists x y, collision br (branch (map dsha raws) j) pos (Z.of_nat j) (dsha raw) (dsha (nth j raws [])) = Some (x, y)
                  /\ x <> y /\ dsha x = dsha y.
Proof.
  intros Hst Hv Hroot Hh.
  apply verified_iff in Hv; [|exact Hst].
  destruct Hv as [_ [brs [pos [br [E1 [E2 [E3 [E4 _]]]]]]]].
  exists brs, pos, br. repeat split; try assumption.
  intros j Hj Hp Hw.
  assert (Hj' : (j < length (map dsha raws))%nat) by (rewrite map_length; exact Hj).
  assert (Hn : nth j (map dsha raws) [] = dsha (nth j raws [])).
  { rewrite (nth_indep _ [] (dsha [])) by exact Hj'. apply map_nth. }
  rewrite <- Hn.
  apply (verified_member (map dsha raws) br pos (dsha raw) r j); try assumption.
  rewrite E4. exact Hh.
Qed.

(* ================= the duplicated last node: same root for l and l ++ [last l] ================= *)
Lemma root_fuel_indep : forall f1 f2 l, (length l <= S f1)%nat -> (length l <= S f2)%nat ->
  root_fuel f1 l = root_fuel f2 l.
Proof.
  induction f1 as [|f1 IH]; intros f2 l H1 H2.
  - destruct l as [|a [|b t]]; cbn [length] in *; try lia; destruct f2; reflexivity.
  - destruct l as [|a [|b t]]; try (destruct f2; reflexivity).
    destruct f2 as [|f2]; [cbn [length] in H2; lia|].
    rewrite !root_fuel_step.
    set (l := a :: b :: t) in *.
    pose proof (pair_up_length_le l).
    assert (length l = S (S (length t))) by reflexivity.
    apply IH; lia.
Qed.

Lemma last_cons2 (a b : bytes) r : r <> [] -> last (a :: b :: r) [] = last r [].
Proof. intro H. destruct r; [congruence | reflexivity]. Qed.

Lemma pair_up_dup_last l : Nat.odd (length l) = true -> pair_up (l ++ [last l []]) = pair_up l.
Proof.
  induction l as [| a | a b r IH] using pair_ind; intro H.
  - discriminate.
  - reflexivity.
  - change (Nat.odd (length (a :: b :: r))) with (Nat.odd (length r)) in H.
    assert (Hr : r <> []) by (intro E; subst; discriminate).
    rewrite last_cons2 by exact Hr.
    change ((a :: b :: r) ++ [last r []]) with (a :: b :: (r ++ [last r []])).
    cbn [C08.pair_up]. f_equal. apply IH. exact H.
Qed.

Theorem dup_last_same_root l : Nat.odd (length l) = true -> (3 <= length l)%nat ->
  merkle_root (l ++ [last l []]) = merkle_root l.
Proof.
  intros Ho H3. unfold C08.merkle_root. rewrite app_length. cbn [length].
  destruct l as [|a [|b t]]; cbn [length] in H3; try lia.
  replace (length (a :: b :: t) + 1)%nat with (S (length (a :: b :: t))) by lia.
  change ((a :: b :: t) ++ [last (a :: b :: t) []]) with (a :: b :: (t ++ [last (a :: b :: t) []])).
  rewrite root_fuel_step.
  change (a :: b :: (t ++ [last (a :: b :: t) []])) with ((a :: b :: t) ++ [last (a :: b :: t) []]).
  rewrite pair_up_dup_last by exact Ho.
  change (length (a :: b :: t)) with (S (S (length t))).
  rewrite root_fuel_step.
  pose proof (pair_up_length_le (a :: b :: t)) as Hle.
  change (length (a :: b :: t)) with (S (S (length t))) in Hle.
  assert (Ht : (1 <= length t)%nat) by lia.
  apply root_fuel_indep; unfold bytes in *; lia.
Qed.

End Merkle.

(* ================= toy hashes for the non-vacuity examples ================= *)
(* 32 bytes that depend on every byte of the input (a polynomial checksum) *)
Definition toy_hash (x : bytes) : bytes :=
  le_encode 32 (fold_left (fun a b => (a * 257 + N_of_byte b + 1) mod 2 ^ 200)%N x 7%N).
(* a constant "hash": everything collides *)
Definition const_hash (_ : bytes) : bytes := repeat x00 32.
(* the identity: no collisions at all *)
Definition id_hash (x : bytes) : bytes := x.
Definition leaf_n (n : N) : bytes := repeat (byte_of_N n) 32.
Definition header_with_root (r : bytes) : bytes := repeat x00 36 ++ r ++ repeat x00 44.
