(* C06 lemmas, part 4: child key derivation (private vs public), hardened refusal, addresses. *)
From Coq Require Import Arith NArith ZArith List Bool Lia.
From Coq.Strings Require Import Byte.
From LV Require Import Lib.Bytes Model.C06 Proofs.C06_Num Proofs.C06_Base58 Proofs.C06_Keys.
Import ListNotations.
Local Open Scope N_scope.
Ltac Zify.zify_post_hook ::= Z.to_euclidean_division_equations.

Lemma ORDER_lt : ORDER < 256 ^ N.of_nat 32.
Proof. vm_compute. reflexivity. Qed.

(* a successful scalar addition yields a valid 32-byte scalar: (k + t) mod n, non-zero *)
Lemma priv_add_valid k l s : priv_add k l = Some s ->
  length s = 32%nat /\ priv_valid s = true /\ be_decode s = (be_decode k + be_decode l) mod ORDER.
Proof.
  unfold priv_add. destruct (ORDER <=? be_decode l); [discriminate|].
  destruct (N.eqb_spec ((be_decode k + be_decode l) mod ORDER) 0) as [|Hnz]; [discriminate|].
  intro H. injection H as <-.
  set (v := (be_decode k + be_decode l) mod ORDER) in *.
  assert (Hv : v < ORDER) by (apply N.mod_lt; discriminate).
  assert (Hd : be_decode (be_encode 32 v) = v).
  { apply be_decode_encode. pose proof ORDER_lt. lia. }
  split; [apply be_encode_length|]. split; [|exact Hd].
  unfold priv_valid. rewrite Hd. apply andb_true_iff. split; [apply N.ltb_lt; lia | apply N.ltb_lt; exact Hv].
Qed.

Section CKD.
  Variable hmac512 : bytes -> bytes -> bytes.
  Variable pub : bytes -> bytes.
  Variable pub_add : bytes -> bytes -> option bytes.
  Variable hash160 : bytes -> bytes.

  (* the one fact about the curve that is assumed: k |-> k*G turns scalar addition into point addition,
     failures included (t >= n on both sides; k + t = 0 mod n <-> P + t*G is the point at infinity) *)
  Hypothesis group_hom : forall k l, priv_valid k = true -> pub_add (pub k) l = option_map pub (priv_add k l).

  Notation ckd_priv := (ckd_priv hmac512 pub hash160).
  Notation ckd_pub := (ckd_pub hmac512 pub_add hash160).
  Notation ckd := (ckd hmac512 pub pub_add hash160).
  Notation derive := (derive hmac512 pub pub_add hash160).
  Notation neuter := (neuter pub).

  Definition priv_ok (k : xkey) : Prop := xk_kind k = KPriv /\ priv_valid (xk_key k) = true.

  Lemma ckd_priv_ok k i c : ckd_priv k i = Ok c ->
    priv_ok c /\ xk_n c = i /\ xk_depth c = xk_depth k + 1 /\ length (xk_cc c) = 32%nat /\ length (xk_key c) = 32%nat /\
    xk_pfp c = fingerprint hash160 (pub (xk_key k)) /\ i < INDEX_LIMIT /\ xk_depth c < 256.
  Proof.
    unfold C06.ckd_priv. destruct (N.leb_spec INDEX_LIMIT i) as [|Hi]; [discriminate|].
    destruct (priv_add _ _) as [s|] eqn:Ea; [|discriminate].
    unfold mk_child. destruct (length _ =? 32)%nat eqn:El; [|discriminate]. cbn [negb].
    destruct (N.leb_spec 256 (xk_depth k + 1)) as [|Hdp]; [discriminate|].
    intro H. injection H as <-. cbn [xk_kind xk_key xk_n xk_depth xk_cc xk_pfp].
    destruct (priv_add_valid _ _ _ Ea) as (Hl & Hv & _). apply Nat.eqb_eq in El.
    unfold priv_ok. cbn [xk_kind xk_key]. auto 10.
  Qed.

  (* deriving a non-hardened child from the public key alone gives the public key of the privately
     derived child -- including the parent fingerprint, chain code, depth, child number, and including
     the cases where derivation fails *)
  Theorem ckd_public_matches_private k i : priv_ok k -> i < HARDENED ->
    ckd_pub (neuter k) i = res_map neuter (ckd_priv k i).
  Proof.
    intros [Hk Hv] Hi. unfold C06.ckd_pub, C06.ckd_priv, C06.neuter, pubkey_of.
    cbn [xk_kind xk_key xk_cc xk_depth]. rewrite Hk.
    destruct (N.leb_spec HARDENED i) as [|_]; [lia|].
    destruct (N.leb_spec INDEX_LIMIT i) as [Hbig|_]; [unfold INDEX_LIMIT, HARDENED in *; lia|].
    rewrite group_hom by exact Hv.
    destruct (priv_add _ _) as [s|]; cbn [option_map]; [|reflexivity].
    unfold mk_child. destruct (negb _); [reflexivity|]. destruct (256 <=? _); reflexivity.
  Qed.

  Theorem derive_public_matches_private path : forall k, priv_ok k -> Forall (fun i => i < HARDENED) path ->
    derive (neuter k) path = res_map neuter (derive k path).
  Proof.
    induction path as [|i rest IH]; intros k Hk Hp; [reflexivity|].
    inversion Hp as [|? ? Hi Hrest]; subst.
    cbn [C06.derive]. unfold C06.ckd at 1 2. cbn [C06.neuter xk_kind]. destruct Hk as [Hkk Hkv]. rewrite Hkk.
    fold (neuter k). rewrite ckd_public_matches_private by (try assumption; split; assumption).
    destruct (ckd_priv k i) as [c|e] eqn:E; cbn [res_map bind]; [|reflexivity].
    apply IH; [|assumption]. apply (ckd_priv_ok k i c E).
  Qed.

  (* paths compose: m/p/q is (m/p)/q *)
  Theorem derive_app p q : forall k, derive k (p ++ q) = bind (derive k p) (fun c => derive c q).
  Proof.
    induction p as [|i p IH]; intro k; [reflexivity|].
    cbn [app C06.derive]. destruct (ckd k i) as [c|e]; cbn [bind]; [apply IH | reflexivity].
  Qed.

  (* hardened derivation from a public key is refused *)
  Theorem ckd_pub_hardened_refused k i : HARDENED <= i -> ckd_pub k i = Err EIndex.
  Proof. intro H. unfold C06.ckd_pub. destruct (N.leb_spec HARDENED i); [reflexivity | lia]. Qed.

  Lemma ckd_pub_kind k i c : ckd_pub k i = Ok c -> xk_kind c = KPub.
  Proof.
    unfold C06.ckd_pub. destruct (HARDENED <=? i); [discriminate|]. destruct (pub_add _ _); [|discriminate].
    unfold mk_child. destruct (negb _); [discriminate|]. destruct (256 <=? _); [discriminate|].
    intro H. injection H as <-. reflexivity.
  Qed.

  Theorem derive_pub_hardened_refused path : forall k, xk_kind k = KPub ->
    Exists (fun i => HARDENED <= i) path -> exists e, derive k path = Err e.
  Proof.
    induction path as [|i rest IH]; intros k Hk Hex; [inversion Hex|].
    cbn [C06.derive]. unfold C06.ckd. rewrite Hk.
    destruct (ckd_pub k i) as [c|e] eqn:E; cbn [bind]; [|eauto].
    inversion Hex as [? ? Hi|? ? Hrest]; subst.
    - rewrite ckd_pub_hardened_refused in E by assumption. discriminate.
    - apply IH; [exact (ckd_pub_kind k i c E) | assumption].
  Qed.

  (* private derivation never leaves the valid scalars; depth and child number are recorded *)
  Theorem derive_priv_ok path : forall k c, priv_ok k -> derive k path = Ok c ->
    priv_ok c /\ xk_depth c = xk_depth k + N.of_nat (length path).
  Proof.
    induction path as [|i rest IH]; intros k c Hk H.
    - injection H as <-. split; [assumption | simpl; lia].
    - cbn [C06.derive] in H. unfold C06.ckd in H. destruct Hk as [Hkk Hkv]. rewrite Hkk in H.
      destruct (ckd_priv k i) as [c1|] eqn:E; [|discriminate]. cbn [bind] in H.
      destruct (ckd_priv_ok k i c1 E) as (Hok & _ & Hd & _).
      destruct (IH c1 c Hok H) as [Hc Hdc]. split; [exact Hc|]. rewrite Hdc, Hd. cbn [length]. lia.
  Qed.

  Theorem from_seed_ok seed k : from_seed hmac512 seed = Ok k ->
    priv_ok k /\ xk_depth k = 0 /\ xk_n k = 0 /\ xk_pfp k = zero4 /\ length (xk_cc k) = 32%nat /\
    xk_key k = firstn 32 (hmac512 bitcoin_seed seed) /\ xk_cc k = skipn 32 (hmac512 bitcoin_seed seed).
  Proof.
    unfold from_seed. destruct (length _ =? 32)%nat eqn:El; [|discriminate]. cbn [negb].
    destruct (priv_valid _) eqn:Ev; [|discriminate]. intro H. injection H as <-.
    apply Nat.eqb_eq in El. unfold priv_ok. cbn. auto 10.
  Qed.

  (* the fingerprint recorded in a child is that of the parent's public key, on both routes *)
  Theorem ckd_pub_fingerprint k i c : ckd_pub k i = Ok c ->
    xk_pfp c = firstn 4 (hash160 (xk_key k)) /\ xk_n c = i /\ xk_depth c = xk_depth k + 1.
  Proof.
    unfold C06.ckd_pub. destruct (HARDENED <=? i); [discriminate|]. destruct (pub_add _ _); [|discriminate].
    unfold mk_child. destruct (negb _); [discriminate|]. destruct (256 <=? _); [discriminate|].
    intro H. injection H as <-. cbn. auto.
  Qed.

  (* ---------------------------------------------------------------- addresses *)
  Section Addr.
    Variable dsha : bytes -> bytes.

    Theorem address_roundtrip prefix pk c r : prefix = c :: r -> c <> x00 ->
      (4 <= length (dsha (prefix ++ hash160 pk)))%nat ->
      exists a, address hash160 dsha prefix pk = Ok a /\ b58_decode_check dsha a = Ok (prefix ++ hash160 pk).
    Proof.
      intros -> Hc Hl. unfold address. apply (b58check_roundtrip dsha _ c (r ++ hash160 pk)); auto.
    Qed.

    Theorem address_to_hash160_roundtrip c pk : c <> x00 -> length (hash160 pk) = 20%nat ->
      (4 <= length (dsha ([c] ++ hash160 pk)))%nat ->
      exists a, address hash160 dsha [c] pk = Ok a /\ address_to_hash160 a = Ok (hash160 pk).
    Proof.
      intros Hc Hh Hl. destruct (address_roundtrip [c] pk c [] eq_refl Hc Hl) as [a [Ha Hd]].
      exists a. split; [exact Ha|]. apply b58check_accepts_only_matching in Hd.
      unfold address_to_hash160. rewrite Hd. cbn [res_map]. f_equal.
      unfold slice. cbn [app skipn Nat.sub]. rewrite <- Hh. apply firstn_app_exact.
    Qed.

    (* HierarchicalDeterministic.get_public_key(i) and get_private_key(i) name the same address:
       the address handed out for (chain c, index i) from the account PUBLIC key is the address of the
       key derived from the account PRIVATE key along m/c/i *)
    Theorem chain_address_private prefix k c i : priv_ok k -> c < HARDENED -> i < HARDENED ->
      chain_address hmac512 pub_add hash160 dsha prefix (neuter k) c i =
      bind (derive k [c; i]) (fun sk => address hash160 dsha prefix (pubkey_of pub sk)).
    Proof.
      intros Hk Hc Hi.
      pose proof (derive_public_matches_private [c; i] k Hk ltac:(repeat constructor; assumption)) as H.
      unfold chain_address. cbn [C06.derive] in *.
      unfold C06.ckd at 1 in H. cbn [C06.neuter xk_kind] in H. fold (neuter k) in H.
      assert (Hstep : forall ck (r : res xkey), ckd_pub (neuter k) c = Ok ck ->
                bind (ckd ck i) (fun c1 => Ok c1) = r ->
                bind (ckd_pub ck i) (fun k0 => address hash160 dsha prefix (xk_key k0)) =
                bind r (fun k0 => address hash160 dsha prefix (xk_key k0))).
      { intros ck r E1 <-. unfold C06.ckd. rewrite (ckd_pub_kind _ _ _ E1).
        destruct (ckd_pub ck i); reflexivity. }
      destruct (ckd k c) as [sc|e1]; cbn [bind res_map] in *.
      - destruct (ckd sc i) as [si|e2]; cbn [bind res_map] in *.
        + destruct (ckd_pub (neuter k) c) as [ck|] eqn:E1; cbn [bind] in *; [|discriminate].
          rewrite (Hstep ck _ eq_refl H). reflexivity.
        + destruct (ckd_pub (neuter k) c) as [ck|] eqn:E1; cbn [bind] in *.
          * rewrite (Hstep ck _ eq_refl H). reflexivity.
          * injection H as ->. reflexivity.
      - destruct (ckd_pub (neuter k) c) as [ck|] eqn:E1; cbn [bind] in *.
        + rewrite (Hstep ck _ eq_refl H). reflexivity.
        + injection H as ->. reflexivity.
    Qed.

    (* the address validator: accepted => the string decodes to version byte :: rest followed by the
       matching 4-byte checksum *)
    Theorem validator_sound v a : is_version_address dsha v a = Ok true ->
      exists r, b58_decode_check dsha a = Ok (v :: r) /\ b58_decode a = Ok ((v :: r) ++ checksum dsha (v :: r)).
    Proof.
      unfold is_version_address. destruct (b58_decode_check dsha a) as [p|e] eqn:E; [|discriminate].
      cbn [bind]. destruct p as [|b r]; [discriminate|]. intro H. injection H as H. apply byte_eqb_eq in H. subst b.
      exists r. split; [reflexivity|]. apply b58check_accepts_only_matching. exact E.
    Qed.

    Theorem validator_accepts_address c pk a : c <> x00 -> (4 <= length (dsha ([c] ++ hash160 pk)))%nat ->
      address hash160 dsha [c] pk = Ok a -> is_version_address dsha c a = Ok true.
    Proof.
      intros Hc Hl Ha. destruct (address_roundtrip [c] pk c [] eq_refl Hc Hl) as [a' [Ea Da]].
      assert (a' = a) by congruence. subst a'. unfold is_version_address. rewrite Da. cbn [bind app].
      rewrite byte_eqb_refl. reflexivity.
    Qed.

    (* a different string accepted by the validator is never an alias of this address: it carries a different
       payload (whose own checksum matches) *)
    Theorem validator_no_alias c pk a a' : address hash160 dsha [c] pk = Ok a -> c <> x00 ->
      (4 <= length (dsha ([c] ++ hash160 pk)))%nat -> a' <> a -> is_version_address dsha c a' = Ok true ->
      exists r, b58_decode_check dsha a' = Ok (c :: r) /\ r <> hash160 pk.
    Proof.
      intros Ha Hc Hl Hne Hv. destruct (validator_sound c a' Hv) as [r [Hd _]]. exists r. split; [exact Hd|].
      intro E. subst r. destruct (address_roundtrip [c] pk c [] eq_refl Hc Hl) as [a0 [Ea Da]].
      assert (a0 = a) by congruence. subst a0. apply Hne. exact (b58check_inj dsha a' a _ Hd Da).
    Qed.

    Theorem valid_address_sound pv sv allow a : valid_address dsha pv sv allow a = true ->
      is_version_address dsha pv a = Ok true \/ (allow = true /\ is_version_address dsha sv a = Ok true).
    Proof.
      unfold valid_address. destruct (is_version_address dsha pv a) as [[|]|]; [auto | | discriminate].
      destruct allow; [|discriminate]. destruct (is_version_address dsha sv a) as [[|]|]; try discriminate. auto.
    Qed.

    (* equal addresses come from equal key hashes *)
    Theorem address_injective prefix pk1 pk2 a c r : prefix = c :: r -> c <> x00 ->
      (4 <= length (dsha (prefix ++ hash160 pk1)))%nat -> (4 <= length (dsha (prefix ++ hash160 pk2)))%nat ->
      address hash160 dsha prefix pk1 = Ok a -> address hash160 dsha prefix pk2 = Ok a ->
      hash160 pk1 = hash160 pk2.
    Proof.
      intros Hp Hc H1 H2 A1 A2.
      destruct (address_roundtrip prefix pk1 c r Hp Hc H1) as [a1 [E1 D1]].
      destruct (address_roundtrip prefix pk2 c r Hp Hc H2) as [a2 [E2 D2]].
      assert (a1 = a) by congruence. assert (a2 = a) by congruence. subst a1 a2.
      rewrite D1 in D2. injection D2 as E. apply app_inv_head in E. exact E.
    Qed.
  End Addr.
End CKD.
