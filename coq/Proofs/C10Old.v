(* C10 proofs: the condition used before `fix: blob client treats bytes after a delivered response as blob data`
   is refuted; a concrete instance of all Section hypotheses (non-vacuity) *)
From Coq Require Import NArith ZArith List Bool Lia String.
From Coq.Strings Require Import Byte.
From LV Require Import Lib.Bytes Model.C10 Proofs.C10 Proofs.C10Client Proofs.C10Frag Proofs.C10Honest.
Import ListNotations.
Local Open Scope Z_scope.

Section Old.
Variable H : bytes -> bytes.
Variable json_loads : bytes -> jres.
Variable hdr : bytes.
Variable r : response.
Variable hash : bytes.
Variable n : Z.
Hypothesis Hparse : json_loads hdr = JResp r.
Hypothesis Hend : exists h0, hdr = h0 ++ [rbrace].
Hypothesis Hnoprefix : forall a b, hdr = a ++ rbrace :: b -> b <> [] -> json_loads (a ++ [rbrace]) = JInvalid.
Hypothesis Hshort : zlen hdr <= MAX_RESPONSE_SIZE.
Hypothesis Hblob : r_blob r = BrIncoming (Some hash) (LInt n).
Hypothesis Hn : 0 < n <= MAX_BLOB_SIZE.
(* the blob itself begins with something that reads as a response without an incoming_blob *)
Variable body : bytes.
Variable r' : response.
Variable k : nat.
Hypothesis Hwit : parse_prefix json_loads body = PResp r' k.
Hypothesis Hwit_blob : r_blob r' = BrAbsent.

Lemma old_eq_new c d : c_received c = 0 -> c_fut c = FutPending ->
  data_received_old H json_loads c d = data_received H json_loads c d.
Proof. intros Hr Hf. unfold data_received_old, data_received. rewrite Hr, Hf. reflexivity. Qed.

(* header and body delivered as two segments: the OLD client re-parses the body as a response, set_result on a done
   future raises, the connection is force-closed and not one byte reaches the writer *)
Lemma old_condition_refuted known c0 :
  Init hash n known c0 ->
  let c := run_old H json_loads c0 [EvData hdr; EvData body] in
  c_open c = false /\ c_lost c = true /\ w_data (c_w c) = [] /\ c_received c = 0.
Proof.
  intros Hi c.
  assert (He : exists c1, P2 r hash n [] c1 /\ w_closed (c_w c1) = false /\ c_has_w c1 = true /\ c_open c1 = true /\
    c_lost c1 = c_lost c0 /\ c_closed_ev c1 = c_closed_ev c0 /\ c_verified c1 = c_verified c0 /\
    c_phase c1 = c_phase c0 /\
    step H json_loads (set_buf [] c0) (EvData hdr) =
      (let '(c2, raised) := write_if_open H c1 [] in if raised then force_close c2 else c2)).
  { eapply step_completes_header_eq; try eassumption. rewrite app_nil_r. reflexivity. }
  destruct He as (c1 & Hp1 & Hop & Hhw & Ho1 & _ & _ & _ & _ & Es). cbn in Es.
  pose proof Hi as (I1 & I2 & I3 & I4 & I5 & I6 & I7 & I8 & I9 & I10 & I11).
  assert (E1 : step_old H json_loads c0 (EvData hdr) = c1).
  { rewrite <- Es. rewrite (set_buf_id c0 I5). unfold step_old, step, step_with. rewrite I1.
    rewrite old_eq_new by assumption. reflexivity. }
  destruct Hp1 as (A1 & A2 & A3 & A4 & A5 & A6 & A7 & A8 & A9).
  destruct A9 as [(B1 & B2 & B3 & B4 & B5)|(B1 & _)]; [|congruence].
  assert (Hrecv : c_received c1 = 0) by (rewrite A8, B3; reflexivity).
  unfold c, run_old. cbn [fold_left]. rewrite E1.
  unfold step_old, step_with, data_received_old. rewrite Ho1, A1, Hrecv. cbn.
  unfold parse_path. rewrite A7. cbn [app]. rewrite Hwit. cbn. rewrite A1, Hwit_blob, A4. cbn.
  rewrite B3, Hrecv. repeat split; reflexivity.
Qed.

End Old.

(* ------------------------------------------------------------------ a concrete instance *)
Definition bs (s : string) : bytes := list_byte_of_string s.
Definition T_HDR : bytes := bs "{""incoming_blob"": {""blob_hash"": ""h"", ""length"": 24}}".
Definition T_WIT : bytes := bs "{""lbrycrd_address"": ""x""}".
Definition T_HASH : bytes := bs "h".
Definition T_R : response := mkResp (AvSingle T_HASH) PrAccepted (BrIncoming (Some T_HASH) (LInt 24)).
Definition T_R' : response := mkResp AvAbsent PrAbsent BrAbsent.
Definition toy_H (_ : bytes) : bytes := T_HASH.
Definition toy_json (s : bytes) : jres :=
  if bytes_eqb s T_HDR then JResp T_R else if bytes_eqb s T_WIT then JResp T_R' else JInvalid.
Definition toy_c0 : client := request T_HASH None (fresh_client 0 3).

Lemma toy_parse : toy_json T_HDR = JResp T_R.
Proof. vm_compute. reflexivity. Qed.
Lemma toy_end : exists h0, T_HDR = h0 ++ [rbrace].
Proof. exists (removelast T_HDR). vm_compute. reflexivity. Qed.
Lemma toy_noprefix : forall a b, T_HDR = a ++ rbrace :: b -> b <> [] -> toy_json (a ++ [rbrace]) = JInvalid.
Proof.
  intros a b Hh Hne. unfold toy_json.
  destruct (bytes_eqb (a ++ [rbrace]) T_HDR) eqn:E1.
  - apply bytes_eqb_eq in E1. exfalso. rewrite Hh in E1. apply app_inv_head in E1.
    inversion E1. congruence.
  - destruct (bytes_eqb (a ++ [rbrace]) T_WIT) eqn:E2; [|reflexivity].
    apply bytes_eqb_eq in E2. exfalso.
    change (rbrace :: b) with ([rbrace] ++ b) in Hh. rewrite app_assoc, E2 in Hh.
    apply (f_equal (firstn 3)) in Hh. vm_compute in Hh. discriminate.
Qed.
Lemma toy_short : zlen T_HDR <= MAX_RESPONSE_SIZE.
Proof. vm_compute. discriminate. Qed.
Lemma toy_init : Init T_HASH 24 None toy_c0.
Proof. unfold Init, toy_c0. cbn. repeat split; auto. Qed.
Lemma toy_start : Start T_HASH 24 None 3 toy_c0.
Proof. split; [exact toy_init|]. cbn. repeat split. Qed.
Lemma toy_wit : parse_prefix toy_json T_WIT = PResp T_R' 24.
Proof. vm_compute. reflexivity. Qed.

(* the refutation, closed: a blob that starts like a response, header and body in two segments *)
Lemma old_condition_refuted_instance :
  let c := run_old toy_H toy_json toy_c0 [EvData T_HDR; EvData T_WIT] in
  c_open c = false /\ c_lost c = true /\ w_data (c_w c) = [] /\ c_received c = 0.
Proof.
  assert (Hn : 0 < 24 <= MAX_BLOB_SIZE) by (vm_compute; split; [reflexivity|discriminate]).
  exact (old_condition_refuted toy_H toy_json T_HDR T_R T_HASH 24 toy_parse toy_end toy_noprefix toy_short eq_refl Hn
           T_WIT T_R' 24%nat toy_wit eq_refl None toy_c0 toy_init).
Qed.

(* ... and the repaired client completes on the same input, through the general theorem *)
Lemma repaired_completes_instance :
  let c := drain (run toy_H toy_json toy_c0 [EvData T_HDR; EvDrain; EvData T_WIT]) in
  c_phase c = PhDone (DlOk 24) /\ c_verified c = Some T_WIT /\ c_received c = 24 /\ c_open c = true /\
  w_data (c_w c) = T_WIT.
Proof.
  assert (Hn : 0 < 24 <= MAX_BLOB_SIZE) by (vm_compute; split; [reflexivity|discriminate]).
  assert (Hacc : acceptable T_HASH (Some 24) T_R = true) by (vm_compute; reflexivity).
  assert (Hlen : zlen T_WIT = 24) by (vm_compute; reflexivity).
  assert (Hok : Forall sched_ok [EvData T_HDR; EvDrain; EvData T_WIT]).
  { constructor; [cbn; discriminate|]. constructor; [exact I|]. constructor; [cbn; discriminate|constructor]. }
  exact (honest_transfer_completes toy_H toy_json T_HDR T_R T_HASH 24 T_WIT toy_parse toy_end toy_noprefix toy_short
           eq_refl Hn Hacc Hlen eq_refl None 3 toy_c0 _ toy_start Hok eq_refl).
Qed.

(* ------------------------------------------------------------------ KNOWN FINDING race-length-poison, in the model:
   the blob (24 bytes) is requested by hash only; a peer announces length 25 and closes; the announced length stays in
   the blob; the honest peer asked next (same blob: known length = what the first download left) is REFUSED *)
Definition T_LIAR : bytes := bs "{""incoming_blob"": {""blob_hash"": ""h"", ""length"": 25}}".
Definition T_RL : response := mkResp (AvSingle T_HASH) PrAccepted (BrIncoming (Some T_HASH) (LInt 25)).
Definition toy_json2 (s : bytes) : jres :=
  if bytes_eqb s T_LIAR then JResp T_RL else toy_json s.
Definition poisoned : client := run toy_H toy_json2 toy_c0 [EvData T_LIAR; EvDrain; EvLost; EvDrain].

Lemma length_poison_refuted_instance :
  c_phase poisoned = PhDone DlCancelled /\ c_verified poisoned = None /\ c_len poisoned = Some 25 /\
  let retry := drain (run toy_H toy_json2 (request T_HASH (c_len poisoned) poisoned) [EvData T_HDR; EvDrain; EvData T_WIT]) in
  c_phase retry = PhDone (DlClosed 0) /\ c_verified retry = None /\ c_open retry = false.
Proof. vm_compute. repeat split; reflexivity. Qed.
