(* C17 proofs, part 3: protocol messages, reference encoder, compact addresses, the handler. No axioms. *)
From Coq Require Import String.
From Coq Require Import NArith ZArith List Bool Lia.
From Coq.Strings Require Import Byte.
From LV Require Import Lib.Bytes Lib.Decimal Model.C17 Proofs.C17_Int Proofs.C17_Bencode.
Import ListNotations.
Local Open Scope N_scope.

Ltac Zify.zify_post_hook ::= Z.to_euclidean_division_equations.

(* ------------------------------------------------------------------------------------------ *)
(* well-formed protocol messages                                                                *)
(* ------------------------------------------------------------------------------------------ *)

Definition request_ok (r : request) : Prop :=
  match r with
  | Ping => True
  | Store h t p => small h /\ small t /\ int_ok p
  | FindNode k => small k
  | FindValue k page => small k /\ int_ok page
  end.

(* ids of the fixed lengths; every other byte string shorter than 10^4300 bytes and every integer of at
   most 4300 digits (Python cannot print or read longer ones); error texts valid UTF-8 (they are str
   objects in the class); the response payload any value the codec reads back (see [wfv]) *)
Definition wf_message (m : message) : Prop :=
  match m with
  | Request rpc node r => blen rpc = 20 /\ blen node = 48 /\ request_ok r
  | Response rpc node p => blen rpc = 20 /\ blen node = 48 /\ wfv p
  | Error rpc node et tx => blen rpc = 20 /\ blen node = 48 /\ small et /\ small tx
                            /\ utf8_valid et = true /\ utf8_valid tx = true
  end.

Lemma small_lt s n : blen s = n -> n < 65536 -> small s.
Proof. intros H Hn. unfold small. pose proof NBOUND_big. lia. Qed.

Lemma int_ok_small z : (Z.abs z < 65536)%Z -> int_ok z.
Proof. intro H. unfold int_ok. pose proof NBOUND_big. lia. Qed.

Lemma small_lit s : blen s < 65536 -> small s.
Proof. intro H. unfold small. pose proof NBOUND_big. lia. Qed.

Ltac items :=
  repeat match goal with
         | |- Forall _ (_ :: _) => apply Forall_cons
         | |- Forall _ [] => apply Forall_nil
         end; cbn [fst snd key_ok].

Lemma wfv_pv_dict : wfv pv_dict.
Proof.
  apply wfv_dict.
  - items. split; [apply small_lit; vm_compute; reflexivity | apply wfv_int; apply int_ok_small; vm_compute; reflexivity].
  - reflexivity.
  - cbn. repeat constructor.
Qed.

Ltac leaf :=
  match goal with
  | |- _ /\ _ => split; leaf
  | |- key_ok _ => unfold PAGE_KEY, PV; cbn [key_ok]; leaf
  | |- int_ok _ => first [assumption | apply int_ok_small; vm_compute; reflexivity]
  | |- small _ => first [assumption | (eapply small_lt; [eassumption | reflexivity]) | (apply small_lit; vm_compute; reflexivity)]
  | |- wfv (BInt _) => apply wfv_int; leaf
  | |- wfv (BStr _) => apply wfv_str; leaf
  | |- wfv pv_dict => apply wfv_pv_dict
  | |- keys_nodup _ => cbn; repeat constructor
  | _ => idtac
  end.

Lemma wfv_args node r : small node -> request_ok r -> wfv (BList (args_of node r)).
Proof.
  intros Hn Hr. destruct r as [|h t p|k|k page]; cbn [args_of request_ok] in *.
  - apply wfv_list; items; leaf.
  - destruct Hr as (Hh & Ht & Hp). apply wfv_list; items; leaf.
  - apply wfv_list; items; leaf.
  - destruct Hr as (Hk & Hp). apply wfv_list; items; leaf.
    apply wfv_dict; [items; leaf | reflexivity | leaf].
Qed.

Lemma wfv_value_of_message m : wf_message m -> wfv (value_of_message m).
Proof.
  destruct m as [rpc node r|rpc node p|rpc node et tx]; cbn [wf_message value_of_message].
  - intros (Hr & Hn & Hq).
    assert (small node) by (eapply small_lt; [exact Hn | reflexivity]).
    apply wfv_dict; [items; leaf | reflexivity | leaf].
    + destruct r; apply small_lit; vm_compute; reflexivity.
    + apply wfv_args; assumption.
  - intros (Hr & Hn & Hp).
    apply wfv_dict; [items; leaf | reflexivity | leaf]. exact Hp.
  - intros (Hr & Hn & He & Ht & _ & _).
    apply wfv_dict; [items; leaf | reflexivity | leaf].
Qed.

(* ------------------------------------------------------------------------------------------ *)
(* decode_datagram (encode m) = m                                                               *)
(* ------------------------------------------------------------------------------------------ *)

Lemma fields5 a b c d e :
  let cv := converted [(BInt 0, a); (BInt 1, b); (BInt 2, c); (BInt 3, d); (BInt 4, e)] in
  field cv 0 = Some a /\ field cv 1 = Some b /\ field cv 2 = Some c /\ field cv 3 = Some d /\ field cv 4 = Some e.
Proof. vm_compute. repeat split. Qed.

Lemma fields4 a b c d :
  let cv := converted [(BInt 0, a); (BInt 1, b); (BInt 2, c); (BInt 3, d)] in
  field cv 0 = Some a /\ field cv 1 = Some b /\ field cv 2 = Some c /\ field cv 3 = Some d /\ field cv 4 = None.
Proof. vm_compute. repeat split. Qed.

Lemma norm_args_of node r : norm_args (Some (BList (args_of node r))) = Ok (BList (args_of node r)).
Proof. destruct r; vm_compute; reflexivity. Qed.

Lemma check_ids_ok rpc node : blen rpc = 20 -> blen node = 48 -> check_ids (BStr rpc) (BStr node) = Ok (rpc, node).
Proof. intros H1 H2. unfold check_ids. rewrite H1, H2. reflexivity. Qed.

Definition message_depth (m : message) : nat := depth_of (value_of_message m).

Theorem decode_encode_message fuel m :
  wf_message m -> (message_depth m <= fuel)%nat ->
  decode_datagram fuel (encode_message m) = inl (raw_of_message m).
Proof.
  intros Hw Hf. pose proof (wfv_value_of_message m Hw) as Hq.
  unfold decode_datagram, encode_message, message_depth in *.
  destruct m as [rpc node r|rpc node p|rpc node et tx]; cbn [wf_message value_of_message raw_of_message] in *.
  - destruct Hw as (Hr & Hn & _).
    rewrite bdecode_benc by assumption. cbv zeta.
    destruct (fields5 (BInt 0) (BStr rpc) (BStr node) (BStr (method_of r)) (BList (args_of node r)))
      as (F0 & F1 & F2 & F3 & F4).
    rewrite F0. unfold build_request. rewrite F1, F2, F3, F4.
    rewrite check_ids_ok by assumption. rewrite norm_args_of. reflexivity.
  - destruct Hw as (Hr & Hn & _).
    rewrite bdecode_benc by assumption. cbv zeta.
    destruct (fields4 (BInt 1) (BStr rpc) (BStr node) p) as (F0 & F1 & F2 & F3 & _).
    rewrite F0. unfold build_response. rewrite F1, F2, F3.
    rewrite check_ids_ok by assumption. reflexivity.
  - destruct Hw as (Hr & Hn & _ & _ & He & Ht).
    rewrite bdecode_benc by assumption. cbv zeta.
    destruct (fields5 (BInt 2) (BStr rpc) (BStr node) (BStr et) (BStr tx)) as (F0 & F1 & F2 & F3 & F4).
    rewrite F0. unfold build_error. rewrite F1, F2, F3, F4.
    rewrite check_ids_ok by assumption. cbn [py_decode_utf8]. rewrite He, Ht. reflexivity.
Qed.

Lemma request_depth rpc node r : message_depth (Request rpc node r) = 4%nat.
Proof. destruct r; reflexivity. Qed.
Lemma error_depth rpc node et tx : message_depth (Error rpc node et tx) = 2%nat.
Proof. reflexivity. Qed.
Lemma response_depth rpc node p : message_depth (Response rpc node p) = S (Nat.max (depth_of p) 1).
Proof. unfold message_depth. cbn [value_of_message depth_of fold_right]. lia. Qed.

(* the response shapes the node produces are inside the round trip's domain *)
Definition contact_ok (c : bytes * bytes * Z) : Prop :=
  match c with (id, addr, port) => small id /\ small addr /\ int_ok port end.

Lemma wfv_contacts l : Forall contact_ok l -> wfv (contacts_val l).
Proof.
  intro H. unfold contacts_val. apply wfv_list.
  apply Forall_map. eapply Forall_impl; [|exact H]. intros [[id addr] port] (H1 & H2 & H3).
  cbn [contact_val]. apply wfv_list. repeat constructor; assumption.
Qed.

Lemma wfv_peers l : Forall small l -> wfv (peers_val l).
Proof.
  intro H. unfold peers_val. apply wfv_list.
  apply Forall_map. eapply Forall_impl; [|exact H]. intros s Hs. apply wfv_str. exact Hs.
Qed.

Lemma depth_contacts l : (depth_of (contacts_val l) <= 3)%nat.
Proof.
  unfold contacts_val. cbn [depth_of]. apply le_n_S.
  induction l as [|[[id addr] port] r IH]; cbn [map fold_right]; [lia|].
  cbn [contact_val depth_of fold_right]. lia.
Qed.

Lemma depth_peers l : (depth_of (peers_val l) <= 2)%nat.
Proof.
  unfold peers_val. cbn [depth_of]. apply le_n_S.
  induction l as [|s r IH]; cbn [map fold_right depth_of]; lia.
Qed.

(* ------------------------------------------------------------------------------------------ *)
(* reference encoder                                                                           *)
(* ------------------------------------------------------------------------------------------ *)

(* every dictionary, at every level, lists its keys in key order *)
Inductive canonical : bval -> Prop :=
| can_int z : canonical (BInt z)
| can_str s : canonical (BStr s)
| can_list l : Forall canonical l -> canonical (BList l)
| can_dict d : Forall (fun p => canonical (fst p) /\ canonical (snd p)) d -> keys_sorted d = true ->
               canonical (BDict d).

Lemma ref_benc_BList l : ref_benc (BList l) = [c_l] ++ concat (map ref_benc l) ++ [c_e].
Proof.
  cbn [ref_benc]. f_equal. f_equal.
  induction l as [|x r IH]; [reflexivity|]. cbn [map concat]. rewrite <- IH. reflexivity.
Qed.

Lemma ref_benc_BDict d :
  ref_benc (BDict d) = [c_d] ++ concat (map (fun p => ref_benc (fst p) ++ ref_benc (snd p)) d) ++ [c_e].
Proof.
  cbn [ref_benc]. f_equal. f_equal.
  induction d as [|[k x] r IH]; [reflexivity|]. cbn [map concat fst snd]. rewrite <- IH.
  rewrite <- app_assoc. reflexivity.
Qed.

Theorem benc_ref v : canonical v -> benc v = ref_benc v.
Proof.
  induction v as [z|s|l IHl|d IHd] using bval_ind'; intro Hc.
  - reflexivity.
  - reflexivity.
  - inversion Hc as [| |l' Hl|]; subst. rewrite benc_BList, ref_benc_BList. cbn [app]. f_equal. f_equal.
    f_equal. apply map_ext_in. intros x Hx. rewrite Forall_forall in IHl, Hl. apply IHl; [exact Hx|apply Hl; exact Hx].
  - inversion Hc as [| | |d' Hd Hs]; subst. rewrite (benc_BDict d Hs), ref_benc_BDict. cbn [app]. f_equal. f_equal.
    unfold benc_items. f_equal. apply map_ext_in. intros p Hp. rewrite Forall_forall in IHd, Hd.
    destruct (IHd p Hp) as [Ik Ix]. destruct (Hd p Hp) as [Ck Cx]. rewrite Ik, Ix by assumption. reflexivity.
Qed.

Lemma key_ok_canonical k : key_ok k -> canonical k.
Proof. destruct k; simpl; intro H; try contradiction; constructor. Qed.

Lemma wfv_canonical v : wfv v -> canonical v.
Proof.
  induction v as [z|s|l IHl|d IHd] using bval_ind'; intro Hw.
  - constructor.
  - constructor.
  - inversion Hw as [| |l' Hl|]; subst. constructor. rewrite Forall_forall in *. intros x Hx. apply IHl; [exact Hx|apply Hl; exact Hx].
  - inversion Hw as [| | |d' Hd Hs _]; subst. constructor; [|exact Hs]. rewrite Forall_forall in *. intros p Hp.
    destruct (IHd p Hp) as [_ Ix]. destruct (Hd p Hp) as [Hk Hx]. split; [apply key_ok_canonical; exact Hk | apply Ix; exact Hx].
Qed.

Theorem encode_message_ref m : wf_message m -> encode_message m = ref_benc (value_of_message m).
Proof. intro H. unfold encode_message. apply benc_ref. apply wfv_canonical. apply wfv_value_of_message. exact H. Qed.

(* the wire layout of the four requests, byte for byte *)
Lemma ping_layout rpc node : blen rpc = 20 -> blen node = 48 ->
  encode_message (Request rpc node Ping)
  = lit "di0ei0ei1e20:" ++ rpc ++ lit "i2e48:" ++ node ++ lit "i3e4:pingi4eld15:protocolVersioni1eeee".
Proof.
  intros Hr Hn. rewrite encode_message_ref by (cbn; repeat split; assumption).
  cbn [value_of_message]. rewrite ref_benc_BDict. cbn [map concat fst snd ref_benc].
  rewrite Hr, Hn. rewrite <- !app_assoc. vm_compute. reflexivity.
Qed.

Lemma find_node_layout rpc node key : blen rpc = 20 -> blen node = 48 -> blen key = 48 ->
  encode_message (Request rpc node (FindNode key))
  = lit "di0ei0ei1e20:" ++ rpc ++ lit "i2e48:" ++ node ++ lit "i3e8:findNodei4el48:" ++ key
    ++ lit "d15:protocolVersioni1eeee".
Proof.
  intros Hr Hn Hk. rewrite encode_message_ref.
  2:{ cbn. repeat split; try assumption. eapply small_lt; [exact Hk|reflexivity]. }
  cbn [value_of_message]. rewrite ref_benc_BDict. cbn [map concat fst snd ref_benc args_of].
  rewrite Hr, Hn, Hk. rewrite <- !app_assoc. vm_compute. reflexivity.
Qed.

(* ------------------------------------------------------------------------------------------ *)
(* compact addresses                                                                           *)
(* ------------------------------------------------------------------------------------------ *)

Lemma split_on_none c s : Forall (fun b => isb c b = false) s -> split_on c s = [s].
Proof.
  induction 1 as [|b r Hb Hr IH]; [reflexivity|]. cbn [split_on]. rewrite Hb, IH. reflexivity.
Qed.

Lemma split_on_app c a x rest :
  Forall (fun b => isb c b = false) a -> isb c x = true ->
  split_on c (a ++ x :: rest) = a :: split_on c rest.
Proof.
  intros Ha Hx. induction Ha as [|b r Hb Hr IH]; cbn [app split_on].
  - rewrite Hx. reflexivity.
  - rewrite Hb, IH. reflexivity.
Qed.

Lemma dec_no_dot n : Forall (fun b => isb 46 b = false) (dec_of_N n).
Proof. eapply Forall_impl; [|apply dec_of_N_Forall]. intros b Hb. apply isb_digit; [exact Hb|lia]. Qed.

Lemma isb_dot : isb 46 c_dot = true.
Proof. unfold isb, c_dot. rewrite N_of_c by lia. reflexivity. Qed.

Lemma split_dotted a b c d :
  split_on 46 (dotted a b c d)
  = [dec_of_N (N_of_byte a); dec_of_N (N_of_byte b); dec_of_N (N_of_byte c); dec_of_N (N_of_byte d)].
Proof.
  unfold dotted.
  rewrite split_on_app by (apply dec_no_dot || apply isb_dot).
  rewrite split_on_app by (apply dec_no_dot || apply isb_dot).
  rewrite split_on_app by (apply dec_no_dot || apply isb_dot).
  rewrite split_on_none by apply dec_no_dot. reflexivity.
Qed.

Lemma octet_back a : py_int_of_bytes (dec_of_N (N_of_byte a)) = Some (Z.of_N (N_of_byte a)).
Proof. apply py_int_dec_of_N. pose proof (N_of_byte_lt a). pose proof NBOUND_big. lia. Qed.

Lemma make_compact_ip_dotted a b c d : make_compact_ip (dotted a b c d) = Ok [a; b; c; d].
Proof.
  unfold make_compact_ip. rewrite split_dotted. cbn [octets]. rewrite !octet_back.
  pose proof (N_of_byte_lt a). pose proof (N_of_byte_lt b). pose proof (N_of_byte_lt c). pose proof (N_of_byte_lt d).
  repeat match goal with
  | |- context [((0 <=? Z.of_N (N_of_byte ?x)) && (Z.of_N (N_of_byte ?x) <? 256))%Z] =>
      replace ((0 <=? Z.of_N (N_of_byte x)) && (Z.of_N (N_of_byte x) <? 256))%Z with true
        by (symmetry; apply andb_true_iff; split; [apply Z.leb_le | apply Z.ltb_lt]; lia)
  end.
  rewrite !N2Z.id, !byte_of_N_of_byte. reflexivity.
Qed.

Theorem compact_address_roundtrip node a b c d port :
  blen node = 48 -> (0 < port < 65536)%Z ->
  make_compact_address node (dotted a b c d) port = Ok ([a; b; c; d] ++ be_encode 2 (Z.to_N port) ++ node)
  /\ decode_compact_address ([a; b; c; d] ++ be_encode 2 (Z.to_N port) ++ node) = Ok (node, dotted a b c d, port).
Proof.
  intros Hn Hp.
  assert (Hpo : port_ok port = true).
  { unfold port_ok. apply andb_true_iff. split; apply Z.ltb_lt; lia. }
  split.
  - unfold make_compact_address. rewrite make_compact_ip_dotted, Hpo, Hn. reflexivity.
  - cbn [app decode_compact_address].
    rewrite (firstn_app_exact' 2 (be_encode 2 (Z.to_N port)) node) by (rewrite be_encode_length; reflexivity).
    rewrite (skipn_app_exact' 2 (be_encode 2 (Z.to_N port)) node) by (rewrite be_encode_length; reflexivity).
    rewrite be_decode_encode by (change (256 ^ N.of_nat 2) with 65536; lia).
    rewrite Z2N.id by lia. rewrite Hpo, Hn. reflexivity.
Qed.

(* the other direction: whatever decode_compact_address accepts re-encodes to the same bytes *)
Theorem compact_address_decode_make ca node addr port :
  decode_compact_address ca = Ok (node, addr, port) -> make_compact_address node addr port = Ok ca.
Proof.
  unfold decode_compact_address.
  destruct ca as [|a [|b [|c [|d r]]]]; try discriminate.
  remember (firstn 2 r) as f eqn:Ef. remember (skipn 2 r) as sk eqn:Esk.
  destruct (port_ok (Z.of_N (be_decode f))) eqn:Hp; cbn [negb]; [|discriminate].
  destruct (blen sk =? HASH_LENGTH) eqn:Hl; cbn [negb]; [|discriminate].
  intro H. injection H as H1 H2 H3. subst node addr port.
  unfold make_compact_address. rewrite make_compact_ip_dotted, Hp, Hl. cbn [negb].
  rewrite N2Z.id.
  assert (Hr : (2 <= length r)%nat).
  { apply N.eqb_eq in Hl. unfold blen, HASH_LENGTH in Hl. subst sk. rewrite skipn_length in Hl. lia. }
  assert (Hf : length f = 2%nat) by (subst f; rewrite firstn_length; lia).
  rewrite <- Hf at 1. rewrite be_encode_decode.
  subst f sk. cbn [app]. rewrite firstn_skipn. reflexivity.
Qed.

(* ------------------------------------------------------------------------------------------ *)
(* the handler                                                                                 *)
(* ------------------------------------------------------------------------------------------ *)

Section HandlerFacts.
  Variables Routing Store Other Addr : Type.
  Variable process : node_state Routing Store Other Addr -> Addr -> rawmsg -> node_state Routing Store Other Addr.
  Let recv := datagram_received Routing Store Other Addr process.
  Let recv_all := receive_all Routing Store Other Addr process.

  Lemma garbage_dropped fuel st sender data e :
    decode_datagram fuel data = inr e ->
    let st' := recv fuel st sender data in
    routing _ _ _ _ st' = routing _ _ _ _ st /\ store _ _ _ _ st' = store _ _ _ _ st
    /\ other _ _ _ _ st' = other _ _ _ _ st /\ failures _ _ _ _ st' = sender :: failures _ _ _ _ st.
  Proof. intro H. unfold recv, datagram_received. rewrite H. cbn. repeat split. Qed.

  (* any sequence of undecodable datagrams, from any senders *)
  Lemma garbage_sequence_dropped fuel l : forall st,
    Forall (fun p => exists e, decode_datagram fuel (snd p) = inr e) l ->
    let st' := recv_all fuel st l in
    routing _ _ _ _ st' = routing _ _ _ _ st /\ store _ _ _ _ st' = store _ _ _ _ st
    /\ other _ _ _ _ st' = other _ _ _ _ st /\ failures _ _ _ _ st' = rev (map fst l) ++ failures _ _ _ _ st.
  Proof.
    induction l as [|[a d] r IH]; intros st H.
    - cbn. repeat split.
    - inversion H as [|? ? [e He] Hr]; subst. cbn [snd] in He.
      unfold recv_all, receive_all. cbn [fold_left fst snd].
      destruct (garbage_dropped fuel st a d e He) as (R1 & S1 & O1 & F1).
      specialize (IH (recv fuel st a d) Hr). cbn zeta in IH. destruct IH as (R2 & S2 & O2 & F2).
      unfold recv_all, receive_all, recv in *. cbn zeta in *.
      rewrite R2, S2, O2, F2, R1, S1, O1, F1. cbn [map rev fst]. rewrite <- app_assoc. repeat split.
  Qed.

  Lemma decoded_handed_on fuel st sender data m :
    decode_datagram fuel data = inl m -> recv fuel st sender data = process st sender m.
  Proof. intro H. unfold recv, datagram_received. rewrite H. reflexivity. Qed.
End HandlerFacts.

(* ------------------------------------------------------------------------------------------ *)
(* what can be accepted at all                                                                  *)
(* ------------------------------------------------------------------------------------------ *)

Definition raw_rpc (m : rawmsg) : bytes := match m with RReq r _ _ _ | RResp r _ _ | RErr r _ _ _ => r end.
Definition raw_node (m : rawmsg) : bytes := match m with RReq _ n _ _ | RResp _ n _ | RErr _ n _ _ => n end.

Lemma check_ids_sound rpc node r n : check_ids rpc node = Ok (r, n) -> blen r = 20 /\ blen n = 48.
Proof.
  unfold check_ids. destruct rpc; try discriminate. destruct node; try discriminate.
  destruct (blen s =? RPC_ID_LENGTH) eqn:E1; cbn [negb]; [|discriminate].
  destruct (blen s0 =? HASH_LENGTH) eqn:E2; cbn [negb]; [|discriminate].
  intro H. inversion H; subst. apply N.eqb_eq in E1. apply N.eqb_eq in E2. split; assumption.
Qed.

Lemma py_decode_utf8_sound v s : py_decode_utf8 v = Ok s -> v = BStr s /\ utf8_valid s = true.
Proof.
  destruct v; try discriminate. cbn [py_decode_utf8]. destruct (utf8_valid s0) eqn:E; [|discriminate].
  intro H. inversion H; subst. split; [reflexivity|exact E].
Qed.

Theorem accepted_header fuel data m :
  decode_datagram fuel data = inl m ->
  blen (raw_rpc m) = 20 /\ blen (raw_node m) = 48
  /\ match m with RErr _ _ et tx => utf8_valid et = true /\ utf8_valid tx = true | _ => True end.
Proof.
  unfold decode_datagram. destruct (bdecode fuel data) as [d|e]; [|discriminate].
  destruct (field (converted d) 0) as [t|]; [|discriminate].
  destruct t as [z| | |]; try discriminate.
  destruct z as [|p|p]; try discriminate.
  - unfold build_request.
    destruct (field (converted d) 1) as [rpc|]; [|discriminate].
    destruct (field (converted d) 2) as [node|]; [|discriminate].
    destruct (field (converted d) 3) as [meth|]; [|discriminate].
    destruct (check_ids rpc node) as [[r n]|] eqn:E; [|discriminate].
    destruct (norm_args (field (converted d) 4)); [|discriminate].
    intro H. inversion H; subst. cbn. destruct (check_ids_sound _ _ _ _ E). repeat split; assumption.
  - destruct p as [p|p|]; try discriminate.
    + destruct p; try discriminate.
      unfold build_error.
      destruct (field (converted d) 1) as [rpc|]; [|discriminate].
      destruct (field (converted d) 2) as [node|]; [|discriminate].
      destruct (field (converted d) 3) as [et|]; [|discriminate].
      destruct (field (converted d) 4) as [tx|]; [|discriminate].
      destruct (check_ids rpc node) as [[r n]|] eqn:E; [|discriminate].
      destruct (py_decode_utf8 et) as [ets|] eqn:E1; [|discriminate].
      destruct (py_decode_utf8 tx) as [txs|] eqn:E2; [|discriminate].
      intro H. inversion H; subst. cbn. destruct (check_ids_sound _ _ _ _ E).
      apply py_decode_utf8_sound in E1 as [_ U1]. apply py_decode_utf8_sound in E2 as [_ U2].
      repeat split; assumption.
    + unfold build_response.
      destruct (field (converted d) 1) as [rpc|]; [|discriminate].
      destruct (field (converted d) 2) as [node|]; [|discriminate].
      destruct (field (converted d) 3) as [rs|]; [|discriminate].
      destruct (check_ids rpc node) as [[r n]|] eqn:E; [|discriminate].
      intro H. inversion H; subst. cbn. destruct (check_ids_sound _ _ _ _ E). repeat split; assumption.
Qed.

(* ------------------------------------------------------------------------------------------ *)
(* instances of the round trip                                                                  *)
(* ------------------------------------------------------------------------------------------ *)

Lemma request_roundtrip fuel rpc node r :
  blen rpc = 20 -> blen node = 48 -> request_ok r -> (4 <= fuel)%nat ->
  decode_datagram fuel (encode_message (Request rpc node r))
  = inl (RReq rpc node (BStr (method_of r)) (BList (args_of node r))).
Proof.
  intros H1 H2 H3 H4. apply (decode_encode_message fuel (Request rpc node r)).
  - cbn. auto.
  - rewrite request_depth. exact H4.
Qed.

Lemma error_roundtrip fuel rpc node et tx :
  blen rpc = 20 -> blen node = 48 -> small et -> small tx -> utf8_valid et = true -> utf8_valid tx = true ->
  (2 <= fuel)%nat ->
  decode_datagram fuel (encode_message (Error rpc node et tx)) = inl (RErr rpc node et tx).
Proof.
  intros H1 H2 H3 H4 H5 H6 H7. apply (decode_encode_message fuel (Error rpc node et tx)).
  - cbn. auto 10.
  - rewrite error_depth. exact H7.
Qed.

Lemma contacts_roundtrip fuel rpc node (l : list (bytes * bytes * Z)) :
  blen rpc = 20 -> blen node = 48 -> Forall contact_ok l -> (4 <= fuel)%nat ->
  decode_datagram fuel (encode_message (Response rpc node (contacts_val l))) = inl (RResp rpc node (contacts_val l)).
Proof.
  intros H1 H2 H3 H4. apply (decode_encode_message fuel (Response rpc node (contacts_val l))).
  - cbn. split; [exact H1|]. split; [exact H2|]. apply wfv_contacts. exact H3.
  - rewrite response_depth. pose proof (depth_contacts l). lia.
Qed.

Lemma peers_roundtrip fuel rpc node (l : list bytes) :
  blen rpc = 20 -> blen node = 48 -> Forall small l -> (3 <= fuel)%nat ->
  decode_datagram fuel (encode_message (Response rpc node (peers_val l))) = inl (RResp rpc node (peers_val l)).
Proof.
  intros H1 H2 H3 H4. apply (decode_encode_message fuel (Response rpc node (peers_val l))).
  - cbn. split; [exact H1|]. split; [exact H2|]. apply wfv_peers. exact H3.
  - rewrite response_depth. pose proof (depth_peers l). lia.
Qed.
