(* C10 proofs: an honest transfer completes under EVERY fragmentation and every placement of loop runs *)
From Coq Require Import NArith ZArith List Bool Lia.
From Coq.Strings Require Import Byte.
From LV Require Import Lib.Bytes Model.C10 Proofs.C10 Proofs.C10Client Proofs.C10Frag.
Import ListNotations.
Local Open Scope Z_scope.

Section Honest.
Variable H : bytes -> bytes.
Variable json_loads : bytes -> jres.
Variable hdr : bytes.
Variable r : response.
Variable hash : bytes.
Variable n : Z.
Variable body : bytes.
Hypothesis Hparse : json_loads hdr = JResp r.
Hypothesis Hend : exists h0, hdr = h0 ++ [rbrace].
Hypothesis Hnoprefix : forall a b, hdr = a ++ rbrace :: b -> b <> [] -> json_loads (a ++ [rbrace]) = JInvalid.
Hypothesis Hshort : zlen hdr <= MAX_RESPONSE_SIZE.
Hypothesis Hblob : r_blob r = BrIncoming (Some hash) (LInt n).
Hypothesis Hn : 0 < n <= MAX_BLOB_SIZE.
(* the server is honest: the header passes the client's checks, the body is the blob *)
Hypothesis Hacc : acceptable hash (Some n) r = true.
Hypothesis Hlen : zlen body = n.
Hypothesis Hhash : H body = hash.

Notation P2 := (P2 r hash n).
Notation Init := (Init hash n).

Variable known : option Z.
Variable d0 : Z.

(* a download just started on a healthy connection: the coroutine waits for the response *)
Definition Start (c0 : client) : Prop :=
  Init known c0 /\ c_phase c0 = PhAwaitResp d0 /\ c_lost c0 = false /\ c_closed_ev c0 = false /\ c_verified c0 = None.

(* what _write leaves alone *)
Lemma misc_cl_write c d :
  let c' := fst (cl_write H c d) in
  c_closed_ev c' = c_closed_ev c /\ c_verified c' = c_verified c /\ c_lost c' = c_lost c /\ c_open c' = c_open c /\
  c_phase c' = c_phase c.
Proof.
  unfold cl_write. destruct (c_len c); [|repeat split].
  destruct (writer_write _ _ _ _ _) as [w' []]; cbn [fst]; try (repeat split; fail).
  destruct (c_att _ && _); repeat split.
Qed.

(* when the body is complete the writer verifies it *)
Lemma write_fin t c d rest :
  P2 t c -> w_closed (c_w c) = false -> body = (t ++ d) ++ rest ->
  let c' := fst (cl_write H c d) in
  w_closed (c_w c') = true -> w_fin (c_w c') = WResult.
Proof.
  intros (A1 & A2 & A3 & A4 & A5 & A6 & A7 & A8 & A9) Hop Hb.
  destruct A9 as [(B1 & B2 & B3 & B4 & B5)|(B1 & _)]; [|congruence].
  assert (Hfit : zlen t + zlen d <= n).
  { rewrite <- Hlen, Hb, !zlen_app. pose proof (zlen_nonneg rest). lia. }
  unfold cl_write. rewrite A6, A8, B3.
  pose proof (zlen_nonneg d) as Hdn.
  destruct (zlen d >? n - zlen t) eqn:E; [lia|].
  unfold writer_write. destruct (n =? 0) eqn:En0; [lia|]. rewrite B1, B2, B3.
  rewrite zlen_app.
  destruct (zlen t + zlen d >? n) eqn:Egt; [lia|].
  destruct (zlen t + zlen d =? n) eqn:Eeq.
  - (* complete: t ++ d is the whole body *)
    assert (Hrest : rest = []).
    { assert (zlen rest = 0) by (rewrite <- Hlen, Hb, !zlen_app in Eeq; lia).
      destruct rest; [reflexivity|]. unfold zlen in *. cbn in *. lia. }
    subst rest. rewrite app_nil_r in Hb. rewrite <- Hb, Hhash, A3, bytes_eqb_refl. cbn. reflexivity.
  - cbn. discriminate.
Qed.

(* the loop runs while the header is still incomplete: nothing happens *)
Lemma drain_in_header c0 pre : Start c0 -> drain (set_buf pre c0) = set_buf pre c0.
Proof.
  intros ((I1 & I2 & I3 & I4 & I5 & I6 & I7 & I8 & I9 & I10 & I11) & Hph0 & Hlost0 & Hcev0 & Hver0).
  destruct c0 as [o l ce a f rc b hw w hs ln v ph nw T dl uk]; cbn in *. subst. reflexivity.
Qed.

(* the body phase with everything the completion argument needs *)
Definition PhB (c : client) : Prop :=
  (c_phase c = PhAwaitResp d0 \/ exists d, c_phase c = PhAwaitFin d) /\ c_verified c = None.

(* the download has ended "ok": this state is what the theorem promises, and the loop leaves it alone *)
Definition DoneOk (c : client) : Prop :=
  c_phase c = PhDone (DlOk n) /\ c_verified c = Some body /\ c_received c = n /\ c_open c = true /\
  w_data (c_w c) = body /\ c_lost c = false /\ w_fin (c_w c) = WResult.

Definition B (t : bytes) (c : client) : Prop :=
  P2 t c /\ (exists rest, body = t ++ rest) /\
  c_open c = true /\ c_lost c = false /\ c_closed_ev c = false /\
  (w_closed (c_w c) = true -> w_fin (c_w c) = WResult) /\ PhB c.

Lemma closed_means_complete t c : B t c -> w_closed (c_w c) = true -> t = body /\ w_data (c_w c) = body.
Proof.
  intros ((A1 & A2 & A3 & A4 & A5 & A6 & A7 & A8 & A9) & [rest Hb] & _) Hcl.
  destruct A9 as [(B1 & _)|(B1 & B2 & B3)]; [congruence|].
  assert (Hr : rest = []).
  { assert (zlen rest = 0).
    { pose proof (zlen_nonneg rest). rewrite <- Hlen, Hb, zlen_app in B3. lia. }
    destruct rest; [reflexivity|]. unfold zlen in *. cbn in *. lia. }
  subst rest. rewrite app_nil_r in Hb. subst t. split; [reflexivity|].
  rewrite B2. apply firstn_all2. unfold zlen in *. lia.
Qed.

Lemma step_B t c d rest : B t c -> d <> [] -> body = (t ++ d) ++ rest -> B (t ++ d) (step H json_loads c (EvData d)).
Proof.
  intros Hb Hdne Hbody. pose proof Hb as (Hp & [rest0 Hr0] & Ho & Hl & Hce & Hfin & Hph).
  pose proof Hp as (A1 & A2 & A3 & A4 & A5 & A6 & A7 & A8 & A9).
  destruct (w_closed (c_w c)) eqn:Ecl.
  - (* the writer is closed: the body is complete, so there is nothing left to deliver *)
    exfalso. destruct (closed_means_complete t c Hb Ecl) as [Ht Hw]. subst t.
    assert (Hz : zlen body = zlen ((body ++ d) ++ rest)) by (rewrite <- Hbody; reflexivity).
    rewrite !zlen_app in Hz.
    pose proof (zlen_nonneg rest). destruct d; [congruence|]. unfold zlen in *. cbn in *. lia.
  - assert (Hw : exists c', cl_write H c d = (c', false) /\ P2 (t ++ d) c' /\ c_open c' = c_open c /\ c_lost c' = c_lost c).
    { eapply write_P2; eassumption. }
    destruct Hw as (c' & Hw & Hp' & Ho' & Hl').
    assert (Es : step H json_loads c (EvData d) = c').
    { unfold step, step_with, data_received. rewrite Ho, A1, A4. cbn. rewrite orb_true_r, A2, Ecl. cbn.
      rewrite Hw. reflexivity. }
    rewrite Es.
    pose proof (misc_cl_write c d) as M. pose proof (write_fin t c d rest Hp Ecl Hbody) as F.
    rewrite Hw in M, F. cbn [fst] in M, F. destruct M as (M1 & M2 & M3 & M4 & M5).
    unfold B. split; [exact Hp'|]. split; [exists rest; exact Hbody|].
    split; [congruence|]. split; [congruence|]. split; [congruence|]. split; [exact F|].
    unfold PhB in *. rewrite M5, M2. exact Hph.
Qed.

(* connection_lost is only ever queued by a transport event, never by the coroutine *)
Lemma lost_finish res c : c_lost (finish res c) = c_lost c.
Proof. unfold finish. repeat match goal with |- context[if ?b then _ else _] => destruct b end; reflexivity. Qed.
Lemma lost_run_callbacks c : c_lost (run_callbacks c) = c_lost c.
Proof. unfold run_callbacks. destruct (w_fin _), (c_verified c); reflexivity. Qed.
Lemma lost_co_await_fin c : c_lost (co_await_fin c) = c_lost c.
Proof.
  unfold co_await_fin. destruct (w_fin (c_w c)); try reflexivity; rewrite lost_finish; try reflexivity.
  apply lost_run_callbacks.
Qed.
Lemma lost_co_step c : c_lost (co_step c) = c_lost c.
Proof.
  unfold co_step. destruct (c_phase c); try reflexivity; [|apply lost_co_await_fin].
  destruct (c_fut c); try reflexivity; try (rewrite lost_finish; reflexivity).
  destruct (c_closed_ev c); [try rewrite lost_finish; reflexivity|].
  match goal with |- context[if ?b then _ else _] => destruct b end;
    [rewrite lost_co_await_fin; reflexivity|try rewrite lost_finish; reflexivity].
Qed.
Lemma drain_not_lost c : c_lost c = false -> drain c = co_step (run_callbacks c).
Proof. intro Hl. unfold drain. rewrite lost_co_step, lost_run_callbacks, Hl. reflexivity. Qed.

Lemma DoneOk_intro c' :
  c_received c' = n -> c_w c' = mkW body true WResult -> c_open c' = true -> c_lost c' = false ->
  c_phase c' = PhDone (DlOk n) -> c_verified c' = Some body -> DoneOk c'.
Proof. intros C1 C2 C3 C4 C5 C6. unfold DoneOk. rewrite C1, C2, C3, C4, C5, C6. repeat split. Qed.

Lemma drain_DoneOk c : DoneOk c -> drain c = c.
Proof.
  intros (D1 & D2 & D3 & D4 & D5 & D6 & D7). rewrite drain_not_lost by exact D6.
  unfold run_callbacks. rewrite D7, D2. unfold co_step. rewrite D1. reflexivity.
Qed.

Lemma B_intro_open t rest0 c' :
  body = t ++ rest0 -> zlen t < n ->
  c_att c' = true -> c_has_w c' = true -> c_hash c' = hash -> c_fut c' = FutResult r ->
  c_delivered c' = 1%nat -> c_len c' = Some n -> c_buf c' = [] -> c_received c' = zlen t ->
  c_w c' = mkW t false WPending -> c_open c' = true -> c_lost c' = false -> c_closed_ev c' = false ->
  PhB c' -> B t c'.
Proof.
  intros Hr0 Hlt C1 C2 C3 C4 C5 C6 C7 C8 C9 C10 C11 C12 C13.
  unfold B, C10Frag.P2. rewrite C1, C2, C3, C4, C5, C6, C7, C8, C9, C10, C11, C12.
  cbn [w_data w_closed w_fin].
  split; [|split; [exists rest0; exact Hr0|]].
  - repeat (split; [reflexivity|]). left. repeat (split; [reflexivity|]). split; [exact Hlt|reflexivity].
  - repeat (split; [reflexivity|]). split; [discriminate|exact C13].
Qed.

(* the loop runs during the body phase: the checks pass; when the body is complete the blob is verified and the
   download ends ok *)
Lemma drain_B t c : B t c ->
  (w_closed (c_w c) = false -> B t (drain c)) /\ (w_closed (c_w c) = true -> DoneOk (drain c)).
Proof.
  intros Hb. pose proof Hb as (Hp & [rest0 Hr0] & Ho & Hl & Hce & Hfin & Hph).
  pose proof Hp as (A1 & A2 & A3 & A4 & A5 & A6 & A7 & A8 & A9).
  destruct (w_closed (c_w c)) eqn:Ecl.
  - (* closed writer: complete and verified *)
    split; [discriminate|]. intros _.
    destruct (closed_means_complete t c Hb Ecl) as [Ht Hw]. pose proof (Hfin eq_refl) as Hres.
    assert (Hrecv : c_received c = n) by (rewrite A8, Hw; exact Hlen).
    clear Hb Hp Hfin A8 A9. subst t.
    destruct c as [o l ce a f rc b hw w hs ln v ph nw T dl uk]. destruct w as [wd wc wf].
    cbn in Ho, Hl, Hce, A1, A2, A3, A4, A5, A6, A7, Ecl, Hw, Hres, Hrecv. subst o l ce a hw hs f dl ln b wc wd wf rc.
    unfold PhB in Hph. cbn in Hph.
    destruct Hph as [[Hph|[d Hph]] Hv]; subst ph v;
      rewrite drain_not_lost by reflexivity;
      unfold run_callbacks, co_step, co_await_fin, finish, run_callbacks; cbn -[acceptable Z.add];
      rewrite ?Hacc; cbn -[acceptable Z.add]; apply DoneOk_intro; reflexivity.
  - (* open writer: still waiting for the rest *)
    split; [|discriminate]. intros _.
    destruct A9 as [(B1 & B2 & B3 & B4 & B5)|(B1 & _)]; [|congruence].
    clear Hb Hp Hfin B5.
    destruct c as [o l ce a f rc b hw w hs ln v ph nw T dl uk]. destruct w as [wd wc wf].
    cbn in Ho, Hl, Hce, A1, A2, A3, A4, A5, A6, A7, A8, B1, B2, B3, Ecl. subst o l ce a hw hs f dl ln b wc wd wf rc.
    unfold PhB in Hph. cbn in Hph.
    destruct Hph as [[Hph|[d Hph]] Hv]; subst ph v;
      rewrite drain_not_lost by reflexivity;
      unfold run_callbacks, co_step, co_await_fin, finish, run_callbacks; cbn -[acceptable Z.add];
      rewrite ?Hacc; cbn -[acceptable Z.add]; apply (B_intro_open t rest0); try reflexivity; try assumption;
      unfold PhB; cbn; (split; [right; eexists; reflexivity|reflexivity]).
Qed.

(* ---- schedules: segments and loop runs in any order *)
(* asyncio never calls data_received with an empty segment *)
Definition sched_ok (e : event) : Prop := match e with EvData d => d <> [] | EvDrain => True | _ => False end.
Fixpoint data_of (evs : list event) : bytes :=
  match evs with
  | [] => []
  | EvData d :: r => d ++ data_of r
  | _ :: r => data_of r
  end.

Definition HInv (c0 : client) (pre : bytes) (c : client) : Prop :=
  (c = set_buf pre c0 /\ exists rest, hdr = pre ++ rest /\ rest <> []) \/
  (exists t, pre = hdr ++ t /\ B t c) \/
  (pre = hdr ++ body /\ DoneOk c).

Lemma B_after_header c0 pre d t rest :
  Start c0 -> pre ++ d = hdr ++ t -> body = t ++ rest ->
  B t (step H json_loads (set_buf pre c0) (EvData d)).
Proof.
  intros Hs Hh Hbody. pose proof Hs as (Hi & Hph0 & Hlost0 & Hcev0 & Hver0).
  assert (He : exists c1, P2 [] c1 /\ w_closed (c_w c1) = false /\ c_has_w c1 = true /\ c_open c1 = true /\
    c_lost c1 = c_lost c0 /\ c_closed_ev c1 = c_closed_ev c0 /\ c_verified c1 = c_verified c0 /\
    c_phase c1 = c_phase c0 /\
    step H json_loads (set_buf pre c0) (EvData d) =
      (let '(c2, raised) := write_if_open H c1 t in if raised then force_close c2 else c2)).
  { eapply step_completes_header_eq; eassumption. }
  destruct He as (c1 & Hp1 & Hop & Hhw & Ho1 & Hl1 & Hc1 & Hv1 & Hph1 & Es). rewrite Es.
  assert (HphB : PhB c1) by (split; [left; congruence|congruence]).
  unfold write_if_open. destruct t as [|b t'].
  - unfold B. split; [exact Hp1|]. split; [exists rest; exact Hbody|].
    split; [exact Ho1|]. split; [congruence|]. split; [congruence|]. split; [congruence|exact HphB].
  - rewrite Hhw, Hop. cbn [andb negb].
    assert (Hw : exists c', cl_write H c1 (b :: t') = (c', false) /\ P2 ([] ++ b :: t') c' /\
                 c_open c' = c_open c1 /\ c_lost c' = c_lost c1).
    { eapply write_P2; eassumption. }
    destruct Hw as (c' & Hw & Hp' & Ho' & Hl').
    pose proof (misc_cl_write c1 (b :: t')) as M.
    pose proof (write_fin [] c1 (b :: t') rest Hp1 Hop Hbody) as F.
    rewrite Hw in M, F |- *. cbn [fst] in M, F. destruct M as (M1 & M2 & M3 & M4 & M5).
    unfold B. split; [exact Hp'|]. split; [exists rest; exact Hbody|].
    split; [congruence|]. split; [congruence|]. split; [congruence|]. split; [exact F|].
    unfold PhB in *. rewrite M5, M2. exact HphB.
Qed.

Lemma HInv_step c0 pre c e more :
  Start c0 -> HInv c0 pre c -> sched_ok e -> (pre ++ data_of [e]) ++ more = hdr ++ body ->
  HInv c0 (pre ++ data_of [e]) (step H json_loads c e).
Proof.
  intros Hs Hinv Hok Hstream. destruct e as [d|d| | | |]; try contradiction; cbn [data_of] in *.
  - rewrite app_nil_r in *. cbn in Hok.
    destruct Hinv as [[Hc [rest [Hh Hne]]]|[[t [Hp Hb]]|[Hp Hd]]].
    + subst c. destruct (prefix_cases _ _ _ _ Hstream) as [[z [Hz Hzn]]|[t Ht]].
      * left. split; [|exists z; split; assumption].
        destruct Hs as (Hi & _). eapply step_in_header; eassumption.
      * right. left. exists t. split; [exact Ht|].
        rewrite Ht, <- app_assoc in Hstream. apply app_inv_head in Hstream.
        eapply B_after_header; [exact Hs|exact Ht|symmetry; exact Hstream].
    + right. left. exists (t ++ d). split; [rewrite Hp, app_assoc; reflexivity|].
      rewrite Hp, <- !app_assoc in Hstream. apply app_inv_head in Hstream. rewrite app_assoc in Hstream.
      eapply step_B; [exact Hb|exact Hok|symmetry; exact Hstream].
    + (* everything was delivered already: no non-empty segment can follow *)
      exfalso. rewrite Hp in Hstream. apply (f_equal (@length _)) in Hstream. rewrite !app_length in Hstream.
      destruct d; [congruence|]. cbn in Hstream. lia.
  - rewrite app_nil_r in *. unfold step, step_with.
    destruct Hinv as [[Hc [rest [Hh Hne]]]|[[t [Hp Hb]]|[Hp Hd]]].
    + left. subst c. rewrite (drain_in_header c0 pre Hs). split; [reflexivity|exists rest; split; assumption].
    + destruct (drain_B t c Hb) as [Hopen Hclosed]. destruct (w_closed (c_w c)) eqn:Ecl.
      * right. right. destruct (closed_means_complete t c Hb Ecl) as [Ht _]. subst t. split; [exact Hp|apply Hclosed; reflexivity].
      * right. left. exists t. split; [exact Hp|apply Hopen; reflexivity].
    + right. right. rewrite (drain_DoneOk c Hd). split; assumption.
Qed.

Lemma data_of_app a b : data_of (a ++ b) = data_of a ++ data_of b.
Proof.
  induction a as [|e a IH]; [reflexivity|]. destruct e; cbn [app data_of]; rewrite ?IH, ?app_assoc; reflexivity.
Qed.

Lemma HInv_run c0 : Start c0 -> forall evs pre c, HInv c0 pre c -> Forall sched_ok evs ->
  pre ++ data_of evs = hdr ++ body -> HInv c0 (hdr ++ body) (run H json_loads c evs).
Proof.
  intros Hs. induction evs as [|e evs IH]; intros pre c Hinv Hok Hstream.
  - cbn in Hstream. rewrite app_nil_r in Hstream. subst pre. exact Hinv.
  - inversion Hok as [|? ? Hoke Hokr]; subst.
    unfold run in *. cbn [fold_left].
    change (e :: evs) with ([e] ++ evs) in Hstream. rewrite data_of_app, app_assoc in Hstream.
    apply (IH (pre ++ data_of [e])); [|exact Hokr|exact Hstream].
    eapply HInv_step; eassumption.
Qed.

(* THE liveness theorem: an honest server's stream, cut into ANY segments, with the loop running between ANY of
   them, ends (after one more loop run) with the verified, byte-identical blob, result "ok", connection kept *)
Theorem honest_transfer_completes c0 evs :
  Start c0 -> Forall sched_ok evs -> data_of evs = hdr ++ body ->
  let c := drain (run H json_loads c0 evs) in
  c_phase c = PhDone (DlOk n) /\ c_verified c = Some body /\ c_received c = n /\ c_open c = true /\
  w_data (c_w c) = body.
Proof.
  intros Hs Hok Hd c.
  assert (Hinv0 : HInv c0 [] c0).
  { left. split; [symmetry; apply set_buf_id; apply Hs|]. exists hdr. split; [reflexivity|].
    destruct Hend as [h0 ->]. destruct h0; discriminate. }
  assert (Hgoal : forall x, DoneOk x -> c_phase x = PhDone (DlOk n) /\ c_verified x = Some body /\ c_received x = n /\
                                          c_open x = true /\ w_data (c_w x) = body).
  { intros x (D1 & D2 & D3 & D4 & D5 & _). repeat split; assumption. }
  pose proof (HInv_run c0 Hs evs [] c0 Hinv0 Hok Hd) as [[_ [rest [Hh Hne]]]|[[t [Hp Hb]]|[_ Hdone]]].
  - exfalso. apply (f_equal (@length _)) in Hh. rewrite !app_length in Hh. destruct rest; [congruence|cbn in Hh; lia].
  - apply app_inv_head in Hp. subst t. apply Hgoal. unfold c.
    destruct (drain_B body _ Hb) as [Hopen Hclosed].
    destruct (w_closed (c_w (run H json_loads c0 evs))) eqn:Ecl; [apply Hclosed; reflexivity|].
    (* an open writer holds less than n bytes, but the whole body has been delivered *)
    exfalso. destruct Hb as ((_ & _ & _ & _ & _ & _ & _ & _ & A9) & _).
    destruct A9 as [(B1 & B2 & B3 & B4 & B5)|(B1 & _)]; [lia|congruence].
  - apply Hgoal. unfold c. rewrite (drain_DoneOk _ Hdone). exact Hdone.
Qed.

End Honest.

(* every request_blob on a clean connection (nothing buffered, no connection_lost pending) - a reused one or a new
   one - starts in the state the completion theorem talks about: several requests per connection *)
Lemma request_starts hash n known c :
  c_buf c = [] -> c_lost c = false -> (known = None \/ known = Some n) ->
  Start hash n known (c_now c + c_T c) (request hash known c).
Proof.
  intros Hb Hl Hk. unfold request, Start, Init.
  destruct (c_open c) eqn:Eo; cbn; rewrite ?Eo, ?Hb, ?Hl; repeat split; auto.
Qed.
