(* C17 proofs, part 5: requests that decode but are not valid protocol requests. No axioms. *)
From Coq Require Import NArith ZArith List Bool Lia.
From Coq.Strings Require Import Byte.
From LV Require Import Lib.Bytes Lib.Decimal Model.C17 Proofs.C17_Int Proofs.C17_Bencode Proofs.C17_Msg Proofs.C17_Total.
Import ListNotations.
Local Open Scope N_scope.

Section RequestFacts.
  Variables Routing Store Other Addr : Type.
  Notation state := (node_state Routing Store Other Addr).
  Variable usable : Addr -> bool.
  Variable note_request : Other -> Addr -> Other.
  Variable error_reply : Other -> Addr -> rawmsg -> Other.
  Variable serve : state -> Addr -> rawmsg -> state.
  Variable process_other : state -> Addr -> rawmsg -> state.

  Let handle := handle_request Routing Store Other Addr usable note_request error_reply serve.
  Let receive := node_receive Routing Store Other Addr usable note_request error_reply serve process_other.

  (* a request that is not valid is answered with an error (or, from an address that cannot be a contact, not at
     all): EXACTLY one failure for the datagram's sender; routing table (with its queues) and data store are those
     of before *)
  Lemma invalid_request_effect own st sender m :
    request_valid own m = false ->
    let st' := handle own st sender m in
    routing _ _ _ _ st' = routing _ _ _ _ st /\ store _ _ _ _ st' = store _ _ _ _ st
    /\ failures _ _ _ _ st' = sender :: failures _ _ _ _ st.
  Proof.
    intro H. unfold handle, handle_request. destruct (usable sender); cbn [negb].
    - rewrite H. cbn. repeat split.
    - cbn. repeat split.
  Qed.

  (* a request from an address that cannot be a contact is never served, valid or not: one failure, nothing else *)
  Lemma unusable_sender_effect own st sender m :
    usable sender = false ->
    let st' := handle own st sender m in
    routing _ _ _ _ st' = routing _ _ _ _ st /\ store _ _ _ _ st' = store _ _ _ _ st
    /\ failures _ _ _ _ st' = sender :: failures _ _ _ _ st.
  Proof. intro H. unfold handle, handle_request. rewrite H. cbn. repeat split. Qed.

  Definition is_request (m : rawmsg) : bool := match m with RReq _ _ _ _ => true | _ => false end.

  (* for ALL byte strings: a datagram that cannot be decoded, or that decodes to a request that is not a valid
     protocol request, never changes the routing table (with its queues) or the data store and records exactly
     one failure for the address it came from *)
  Theorem not_a_valid_request_leaves_routing own fuel st sender data :
    match decode_datagram fuel data with
    | inr _ => True
    | inl m => is_request m = true /\ request_valid own m = false
    end ->
    let st' := receive own fuel st sender data in
    routing _ _ _ _ st' = routing _ _ _ _ st /\ store _ _ _ _ st' = store _ _ _ _ st
    /\ failures _ _ _ _ st' = sender :: failures _ _ _ _ st.
  Proof.
    intro H. unfold receive, node_receive, datagram_received.
    destruct (decode_datagram fuel data) as [m|e].
    - destruct H as [Hr Hv]. destruct m; try discriminate.
      cbn [process_message]. apply invalid_request_effect. exact Hv.
    - cbn. repeat split.
  Qed.
End RequestFacts.

(* which requests are valid *)
Lemma unknown_method_invalid own rpc node method args :
  bytes_eqb method s_ping = false -> bytes_eqb method s_store = false ->
  bytes_eqb method s_findNode = false -> bytes_eqb method s_findValue = false ->
  request_valid own (RReq rpc node (BStr method) args) = false.
Proof.
  intros H1 H2 H3 H4. unfold request_valid. destruct args; try reflexivity.
  rewrite H1, H2, H3, H4. apply andb_false_r.
Qed.

Lemma non_bytes_method_invalid own rpc node method args :
  (forall s, method <> BStr s) -> request_valid own (RReq rpc node method args) = false.
Proof. intro H. destruct method; try reflexivity. exfalso. apply (H s). reflexivity. Qed.

Lemma own_id_invalid own rpc method args : request_valid own (RReq rpc own method args) = false.
Proof.
  unfold request_valid. destruct method; try reflexivity. destruct args; try reflexivity.
  rewrite bytes_eqb_refl. reflexivity.
Qed.

Lemma short_key_invalid own rpc node key rest :
  blen key <> 48 ->
  request_valid own (RReq rpc node (BStr s_findNode) (BList (BStr key :: rest ++ [pv_dict]))) = false
  /\ request_valid own (RReq rpc node (BStr s_findValue) (BList (BStr key :: rest ++ [pv_dict]))) = false.
Proof.
  intro H. apply N.eqb_neq in H.
  assert (Hp : removelast (BStr key :: rest ++ [pv_dict]) = BStr key :: rest).
  { change (BStr key :: rest ++ [pv_dict]) with ((BStr key :: rest) ++ [pv_dict]). apply removelast_last. }
  unfold request_valid. rewrite Hp. cbn [hash_key_ok]. unfold HASH_LENGTH. rewrite H.
  split.
  - replace (bytes_eqb s_findNode s_ping) with false by (vm_compute; reflexivity).
    replace (bytes_eqb s_findNode s_store) with false by (vm_compute; reflexivity).
    rewrite bytes_eqb_refl. apply andb_false_r.
  - replace (bytes_eqb s_findValue s_ping) with false by (vm_compute; reflexivity).
    replace (bytes_eqb s_findValue s_store) with false by (vm_compute; reflexivity).
    replace (bytes_eqb s_findValue s_findNode) with false by (vm_compute; reflexivity).
    rewrite bytes_eqb_refl. cbn [andb]. apply andb_false_r.
Qed.

Definition request_servable (r : request) : Prop :=
  match r with
  | Ping => True
  | Store h _ p => blen h = 48 /\ (1024 <= p <= 65535)%Z
  | FindNode k => blen k = 48
  | FindValue k _ => blen k = 48
  end.

(* every request built by make_ping / make_store / make_find_node / make_find_value from another node is valid *)
Lemma protocol_requests_valid own rpc node r :
  node <> own -> request_servable r -> request_valid own (raw_of_message (Request rpc node r)) = true.
Proof.
  intros Hn Hr. apply bytes_eqb_neq in Hn.
  destruct r as [|h t p|k|k page]; cbn [raw_of_message method_of args_of request_servable] in *;
    unfold request_valid; rewrite Hn; cbn [negb andb].
  - reflexivity.
  - destruct Hr as [Hh Hp].
    replace (bytes_eqb s_store s_ping) with false by (vm_compute; reflexivity). rewrite bytes_eqb_refl.
    cbn [removelast nth length hash_key_ok rpc_port_ok]. unfold HASH_LENGTH. rewrite Hh.
    replace ((1024 <=? p) && (p <=? 65535))%Z with true by (symmetry; apply andb_true_iff; split; apply Z.leb_le; lia).
    reflexivity.
  - replace (bytes_eqb s_findNode s_ping) with false by (vm_compute; reflexivity).
    replace (bytes_eqb s_findNode s_store) with false by (vm_compute; reflexivity). rewrite bytes_eqb_refl.
    cbn [removelast hash_key_ok]. unfold HASH_LENGTH. rewrite Hr. reflexivity.
  - replace (bytes_eqb s_findValue s_ping) with false by (vm_compute; reflexivity).
    replace (bytes_eqb s_findValue s_store) with false by (vm_compute; reflexivity).
    replace (bytes_eqb s_findValue s_findNode) with false by (vm_compute; reflexivity). rewrite bytes_eqb_refl.
    cbn [removelast hash_key_ok last]. unfold HASH_LENGTH. rewrite Hr. reflexivity.
Qed.

(* ------------------------------------------------------------------------------------------ *)
(* the error text that answers an unknown method: cut by characters, it stays valid UTF-8         *)
(* ------------------------------------------------------------------------------------------ *)

Lemma utf8_take_prefix n : forall s, exists t, s = utf8_take n s ++ t.
Proof.
  induction n as [|n IH]; intro s; [exists s; reflexivity|].
  destruct s as [|a r]; [exists []; reflexivity|]. cbn [utf8_take].
  destruct (IH (skipn (utf8_seq_len a) (a :: r))) as [t Ht].
  exists t. rewrite <- app_assoc, <- Ht. symmetry. apply firstn_skipn.
Qed.

Lemma utf8_take_length n : forall s, (length (utf8_take n s) <= 4 * n)%nat.
Proof.
  induction n as [|n IH]; intro s; [simpl; lia|].
  destruct s as [|a r]; [simpl; lia|]. cbn [utf8_take]. rewrite app_length.
  specialize (IH (skipn (utf8_seq_len a) (a :: r))).
  assert (length (firstn (utf8_seq_len a) (a :: r)) <= 4)%nat.
  { rewrite firstn_length. unfold utf8_seq_len.
    destruct (N_of_byte a <=? 127); [lia|]. destruct (N_of_byte a <=? 223); [lia|].
    destruct (N_of_byte a <=? 239); lia. }
  lia.
Qed.

Lemma utf8_take_valid n : forall s, utf8_valid s = true -> utf8_valid (utf8_take n s) = true.
Proof.
  induction n as [|n IH]; intros s H; [reflexivity|].
  destruct s as [|a r]; [reflexivity|]. cbn [utf8_take]. cbn [utf8_valid] in H. unfold utf8_seq_len.
  destruct (N_of_byte a <=? 127) eqn:E1.
  - cbn [firstn skipn app utf8_valid]. rewrite E1. apply IH. exact H.
  - apply N.leb_gt in E1.
    destruct (in_rng 194 223 a) eqn:E2.
    + unfold in_rng in E2. apply andb_true_iff in E2 as [A B]. apply N.leb_le in A. apply N.leb_le in B.
      replace (N_of_byte a <=? 223) with true by (symmetry; apply N.leb_le; lia).
      destruct r as [|b r2]; [discriminate|]. apply andb_true_iff in H as [Hb Hr].
      cbn [firstn skipn app utf8_valid].
      replace (N_of_byte a <=? 127) with false by (symmetry; apply N.leb_gt; lia).
      replace (in_rng 194 223 a) with true by (symmetry; unfold in_rng; apply andb_true_iff; split; apply N.leb_le; lia).
      rewrite Hb. cbn [andb]. apply IH. exact Hr.
    + destruct (in_rng 224 239 a) eqn:E3.
      * unfold in_rng in E3. apply andb_true_iff in E3 as [A B]. apply N.leb_le in A. apply N.leb_le in B.
        replace (N_of_byte a <=? 223) with false by (symmetry; apply N.leb_gt; lia).
        replace (N_of_byte a <=? 239) with true by (symmetry; apply N.leb_le; lia).
        destruct r as [|b [|c r3]]; try discriminate.
        apply andb_true_iff in H as [H Hr]. apply andb_true_iff in H as [Hb Hc].
        cbn [firstn skipn app utf8_valid].
        replace (N_of_byte a <=? 127) with false by (symmetry; apply N.leb_gt; lia).
        rewrite E2.
        replace (in_rng 224 239 a) with true by (symmetry; unfold in_rng; apply andb_true_iff; split; apply N.leb_le; lia).
        rewrite Hb, Hc. cbn [andb]. apply IH. exact Hr.
      * destruct (in_rng 240 244 a) eqn:E4; [|discriminate].
        unfold in_rng in E4. apply andb_true_iff in E4 as [A B]. apply N.leb_le in A. apply N.leb_le in B.
        replace (N_of_byte a <=? 223) with false by (symmetry; apply N.leb_gt; lia).
        replace (N_of_byte a <=? 239) with false by (symmetry; apply N.leb_gt; lia).
        destruct r as [|b [|c [|d r4]]]; try discriminate.
        apply andb_true_iff in H as [H Hr]. apply andb_true_iff in H as [H Hd]. apply andb_true_iff in H as [Hb Hc].
        cbn [firstn skipn app utf8_valid].
        replace (N_of_byte a <=? 127) with false by (symmetry; apply N.leb_gt; lia).
        rewrite E2, E3.
        replace (in_rng 240 244 a) with true by (symmetry; unfold in_rng; apply andb_true_iff; split; apply N.leb_le; lia).
        rewrite Hb, Hc, Hd. cbn [andb]. apply IH. exact Hr.
Qed.

Lemma utf8_valid_ascii_app a s : Forall (fun b => N_of_byte b <= 127) a -> utf8_valid (a ++ s) = utf8_valid s.
Proof.
  induction 1 as [|b r Hb Hr IH]; [reflexivity|].
  cbn [app utf8_valid]. replace (N_of_byte b <=? 127) with true by (symmetry; apply N.leb_le; exact Hb). exact IH.
Qed.

(* the text echoed for an unknown method (any valid UTF-8 name, any length) is valid UTF-8, so building the
   ErrorDatagram cannot fail, it is a prefix of the full text and at most 1024 bytes long *)
Theorem invalid_method_text_ok method :
  utf8_valid method = true ->
  utf8_valid (invalid_method_text method) = true
  /\ (length (invalid_method_text method) <= 1024)%nat
  /\ exists t, s_invalid_method ++ method = invalid_method_text method ++ t.
Proof.
  intro H. unfold invalid_method_text. split; [|split].
  - apply utf8_take_valid. rewrite utf8_valid_ascii_app; [exact H|].
    unfold s_invalid_method. repeat constructor; vm_compute; discriminate.
  - pose proof (utf8_take_length ERROR_TEXT_LIMIT (s_invalid_method ++ method)). unfold ERROR_TEXT_LIMIT in *. lia.
  - apply utf8_take_prefix.
Qed.
