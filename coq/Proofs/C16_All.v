(* C16 proofs: envelope and message together. *)
From Coq Require Import NArith List Bool Lia.
From Coq.Strings Require Import Byte.
From LV Require Import Lib.Bytes Model.C16_Env Model.C16_Wire Model.C16_All Proofs.C16_Env Proofs.C16_Wire.
Import ListNotations.

Lemma mk_env_wf sig p : sig_wf sig -> env_wf (mk_env sig p).
Proof. destruct sig as [[h s]|]; cbn; auto. Qed.

Lemma mk_env_payload sig p : env_payload (mk_env sig p) = p.
Proof. destruct sig as [[h s]|]; reflexivity. Qed.

Lemma all_roundtrip sch d m sig fs : sig_wf sig -> tfields_ok sch m fs = true -> (fdepth fs <= d)%nat ->
  decode_all sch d m (encode_all sig fs) = (EnvOk (mk_env sig (ser_tree fs)), WOk fs).
Proof.
  intros Hs Hok Hd. unfold decode_all, encode_all.
  rewrite env_roundtrip by (apply mk_env_wf; exact Hs).
  rewrite mk_env_payload. rewrite tree_roundtrip by assumption. reflexivity.
Qed.

Lemma purchase_all_roundtrip sch d m fs : tfields_ok sch m fs = true -> (fdepth fs <= d)%nat ->
  purchase_decode_all sch d m (purchase_encode_all fs) = Some (WOk fs).
Proof.
  intros Hok Hd. unfold purchase_decode_all, purchase_encode_all. rewrite purchase_roundtrip.
  rewrite tree_roundtrip by assumption. reflexivity.
Qed.

(* no two different (signature, field tree) pairs share an encoding: nothing is lost *)
Lemma encode_all_inj sch d m sig1 fs1 sig2 fs2 :
  sig_wf sig1 -> sig_wf sig2 -> tfields_ok sch m fs1 = true -> tfields_ok sch m fs2 = true ->
  (fdepth fs1 <= d)%nat -> (fdepth fs2 <= d)%nat ->
  encode_all sig1 fs1 = encode_all sig2 fs2 -> sig1 = sig2 /\ fs1 = fs2.
Proof.
  intros W1 W2 O1 O2 D1 D2 E.
  pose proof (all_roundtrip sch d m sig1 fs1 W1 O1 D1) as R1.
  pose proof (all_roundtrip sch d m sig2 fs2 W2 O2 D2) as R2.
  rewrite E, R2 in R1. inversion R1 as [[He Hf]]. split; [|reflexivity].
  destruct sig1 as [[h1 s1]|], sig2 as [[h2 s2]|]; cbn [mk_env] in He; congruence.
Qed.

(* ---------- legacy v1: the payload the signature covers ---------- *)
Lemma drop_field_ok k fs : forallb field_ok fs = true -> forallb field_ok (drop_field k fs) = true.
Proof.
  intro H. apply forallb_forall. intros f Hf. unfold drop_field in Hf. apply filter_In in Hf as [Hf _].
  rewrite forallb_forall in H. apply H. exact Hf.
Qed.

Lemma drop_field_spec k fs f : In f (drop_field k fs) <-> In f fs /\ fst f <> k.
Proof.
  unfold drop_field. rewrite filter_In. split; intros [H1 H2]; split; try exact H1.
  - apply negb_true_iff in H2. apply N.eqb_neq in H2. exact H2.
  - apply negb_true_iff. apply N.eqb_neq. exact H2.
Qed.

Lemma drop_field_absent k fs : (forall f, In f fs -> fst f <> k) -> drop_field k fs = fs.
Proof.
  intro H. unfold drop_field. induction fs as [|f fs IH]; [reflexivity|]. cbn [filter].
  replace (negb (fst f =? k)%N) with true
    by (symmetry; apply negb_true_iff; apply N.eqb_neq; apply H; left; reflexivity).
  f_equal. apply IH. intros g Hg. apply H. right. exact Hg.
Qed.

(* for every canonical v1 message: the unsigned payload is the encoding of the same fields without the
   signature field, it parses back to exactly those fields, and it is the message itself when unsigned *)
Lemma v1_unsigned_payload_spec fs : forallb field_ok fs = true ->
  v1_unsigned_payload (ser_fields fs) = WOk (ser_fields (drop_field V1_SIGNATURE_FIELD fs)) /\
  wire_parse (ser_fields (drop_field V1_SIGNATURE_FIELD fs)) = WOk (drop_field V1_SIGNATURE_FIELD fs) /\
  ((forall f, In f fs -> fst f <> V1_SIGNATURE_FIELD) ->
     v1_unsigned_payload (ser_fields fs) = WOk (ser_fields fs)).
Proof.
  intro H. unfold v1_unsigned_payload. rewrite wire_roundtrip by exact H. split; [reflexivity|]. split.
  - apply wire_roundtrip. apply drop_field_ok. exact H.
  - intro Ha. rewrite drop_field_absent by exact Ha. reflexivity.
Qed.
