(* C05 proofs: segwit parsing and transaction id, totality of the reader (fuel always suffices),
   stability of parse -> write -> parse. The core round trip lives in Wire/Tx.v. *)
From Coq Require Import NArith ZArith List Bool Lia.
From Coq.Strings Require Import Byte.
From LV Require Import Lib.Bytes Wire.CompactSize Wire.Tx Model.C05.
Import ListNotations.
Local Open Scope N_scope.

Ltac Zify.zify_post_hook ::= Z.to_euclidean_division_equations.

(* ---------- compact size: statement used by Props ---------- *)
Lemma compact_size_roundtrip n rest : n < 18446744073709551616 ->
  read_cs (cs_encode n ++ rest) = ROk (Some n, rest) /\
  length (cs_encode n) = cs_width n /\
  ((cs_width n = 1%nat /\ n < 253) \/ (cs_width n = 3%nat /\ 253 <= n < 65536) \/
   (cs_width n = 5%nat /\ 65536 <= n < 4294967296) \/ (cs_width n = 9%nat /\ 4294967296 <= n)).
Proof.
  intro H. split; [apply read_cs_encode; exact H|]. split; [apply cs_encode_length|].
  apply cs_width_minimal. exact H.
Qed.

(* ---------- witnesses ---------- *)
Lemma map_id' {A} (l : list A) : map (fun x => x) l = l.
Proof. induction l as [|x l IH]; cbn; [reflexivity | rewrite IH; reflexivity]. Qed.

Lemma ser_string_length s : (1 <= length (ser_string s))%nat.
Proof.
  unfold ser_string. rewrite app_length, cs_encode_length. unfold cs_width.
  destruct (_ <? 253); [lia|]. destruct (_ <=? 65535); [lia|]. destruct (_ <=? 4294967295); lia.
Qed.

Lemma parse_witness_ser fuel0 w rest : wf_witness w -> (length w <= fuel0)%nat ->
  parse_witness fuel0 (ser_witness w ++ rest) = ROk (w, rest).
Proof.
  intros (Hn & Hall) Hf. unfold parse_witness, ser_witness. rewrite <- app_assoc.
  rewrite read_cs_encode by exact Hn. cbn [bind].
  rewrite (parse_many_ser ser_string read_string (fun x => x)
             (fun item => N.of_nat (length item) < MAXSIZE1)); try assumption.
  - rewrite map_id'. reflexivity.
  - intros x r Hx. apply read_string_encode. exact Hx.
Qed.

Lemma ser_witness_length w : (1 <= length (ser_witness w))%nat /\ (length w <= length (ser_witness w))%nat.
Proof.
  unfold ser_witness. rewrite app_length, cs_encode_length.
  pose proof (concat_length_ge ser_string w ser_string_length).
  unfold cs_width. destruct (_ <? 253); [lia|]. destruct (_ <=? 65535); [lia|].
  destruct (_ <=? 4294967295); lia.
Qed.

Lemma in_concat_length {A} (ser : A -> bytes) x l : In x l ->
  (length (ser x) <= length (concat (map ser l)))%nat.
Proof.
  induction l as [|y l IH]; intro H; [destruct H|].
  cbn [map concat]. rewrite app_length. destruct H as [->|H]; [lia | specialize (IH H); lia].
Qed.

(* parsing the witness-carrying encoding: same fields as the legacy encoding, the flag byte,
   the witness items flattened; trailing bytes ignored *)
Lemma segwit_parse t flag wits rest : wf_tx t -> wf_wits t wits -> 0 < flag < 256 ->
  deserialize (serialize_segwit t flag wits ++ rest) = ROk (lift_with flag (concat wits) t).
Proof.
  intros (Hv & Hl & Hne & Hni & Hno & Hins & Houts) (Hlen & Hw) Hflag.
  unfold deserialize.
  set (fuel := S (length (serialize_segwit t flag wits ++ rest))).
  assert (Hfi : (length (tx_ins t) <= fuel)%nat).
  { subst fuel. unfold serialize_segwit, ser_ins. rewrite !app_length.
    pose proof (concat_length_ge ser_in (tx_ins t) ser_in_length). lia. }
  assert (Hfo : (length (tx_outs t) <= fuel)%nat).
  { subst fuel. unfold serialize_segwit, ser_outs. rewrite !app_length.
    pose proof (concat_length_ge ser_out (tx_outs t) ser_out_length). lia. }
  assert (Hfw : (length (concat (map ser_witness wits)) <= fuel)%nat).
  { subst fuel. unfold serialize_segwit. rewrite !app_length. lia. }
  clearbody fuel.
  unfold serialize_segwit. rewrite <- app_assoc.
  rewrite read_uint_encode by (rewrite pow256_4; lia). cbn [bind].
  cbn [app]. rewrite read_cs_cons. cbv zeta.
  rewrite byte_of_N_small by lia. change (0 <? 253) with true. cbv iota. cbn [bind].
  change (is_zero (Some 0)) with true. cbv iota.
  rewrite read_uint1_cons. cbn [bind]. rewrite byte_of_N_small by lia.
  unfold ser_ins. rewrite <- !app_assoc.
  rewrite read_cs_encode by exact Hni. cbn [bind snd fst].
  rewrite (parse_many_ser ser_in parse_in lift_in wf_in) by (try assumption; intros; apply parse_in_ser; assumption).
  cbn [bind]. unfold ser_outs. rewrite <- !app_assoc.
  rewrite read_cs_encode by exact Hno. cbn [bind].
  rewrite (parse_many_ser ser_out parse_out lift_out wf_out) by (try assumption; intros; apply parse_out_ser; assumption).
  cbn [bind].
  assert (Ht : truthy (Some flag) = true).
  { cbn. apply negb_true_iff. apply N.eqb_neq. lia. }
  rewrite Ht. rewrite <- Hlen.
  rewrite (parse_many_ser ser_witness (parse_witness fuel) (fun w => w)
             (fun w => wf_witness w /\ (length w <= fuel)%nat)).
  - cbn [bind]. rewrite read_uint_encode by (rewrite pow256_4; lia). cbn [bind].
    rewrite map_id'. reflexivity.
  - intros x r (Hx & Hxf). apply parse_witness_ser; assumption.
  - pose proof (concat_length_ge ser_witness wits (fun w => proj1 (ser_witness_length w))). lia.
  - rewrite Forall_forall in Hw |- *. intros w Hin. split; [apply Hw; exact Hin|].
    pose proof (in_concat_length ser_witness w wits Hin).
    pose proof (proj2 (ser_witness_length w)). lia.
Qed.

(* ---------- transaction id ---------- *)
Section Id.
  Variable sha256 : bytes -> bytes.

  Lemma build_ok t : wf_tx t ->
    build_raw t = ROk (serialize t) /\ build_id sha256 t = ROk (rev (sha256 (sha256 (serialize t)))).
  Proof.
    intro H. unfold build_id, build_raw. rewrite pser_lift by exact H. split; reflexivity.
  Qed.

  Lemma txid_legacy t : wf_tx t ->
    txid_of_raw sha256 (serialize t) = ROk (rev (sha256 (sha256 (serialize t)))).
  Proof.
    intro H. unfold txid_of_raw.
    rewrite <- (app_nil_r (serialize t)) at 1. rewrite deserialize_serialize by exact H.
    cbn [bind]. unfold id_of_parsed. reflexivity.
  Qed.

  Lemma txid_segwit t flag wits rest : wf_tx t -> wf_wits t wits -> 0 < flag < 256 ->
    txid_of_raw sha256 (serialize_segwit t flag wits ++ rest) = ROk (rev (sha256 (sha256 (serialize t)))).
  Proof.
    intros H Hw Hf. unfold txid_of_raw. rewrite segwit_parse by assumption. cbn [bind].
    unfold id_of_parsed.
    assert (Ht : truthy (p_flag (lift_with flag (concat wits) t)) = true).
    { cbn. apply negb_true_iff. apply N.eqb_neq. lia. }
    rewrite Ht. rewrite pser_lift_with by exact H. reflexivity.
  Qed.

  Lemma segwit_full t flag wits rest : wf_tx t -> wf_wits t wits -> 0 < flag < 256 ->
    deserialize (serialize_segwit t flag wits ++ rest) = ROk (lift_with flag (concat wits) t) /\
    txid_of_raw sha256 (serialize_segwit t flag wits ++ rest) = ROk (rev (sha256 (sha256 (serialize t)))) /\
    txid_of_raw sha256 (serialize t) = ROk (rev (sha256 (sha256 (serialize t)))).
  Proof.
    intros H Hw Hf. split; [apply segwit_parse; assumption|].
    split; [apply txid_segwit; assumption | apply txid_legacy; assumption].
  Qed.
End Id.

(* ---------- round trip and re-serialisation in one statement ---------- *)
Lemma roundtrip_reserialize t rest : wf_tx t ->
  exists p, deserialize (serialize t ++ rest) = ROk p /\ p = lift t /\ pser p = ROk (serialize t).
Proof.
  intro H. exists (lift t). split; [apply deserialize_serialize; exact H|].
  split; [reflexivity | apply pser_lift; exact H].
Qed.

(* ---------- totality: the fuel of the reader never runs out ---------- *)
Lemma read_uint_no_oof w s : read_uint w s <> RErr EOutOfFuel.
Proof.
  unfold read_uint. destruct s; [discriminate|].
  destruct (take (N.of_nat w) (b :: s)). destruct (Nat.eqb _ _); discriminate.
Qed.

Lemma read_cs_no_oof s : read_cs s <> RErr EOutOfFuel.
Proof.
  destruct s as [|b s]; [discriminate|]. rewrite read_cs_cons. cbv zeta.
  destruct (_ <? 253); [discriminate|].
  destruct (_ =? 253); [apply read_uint_no_oof|]. destruct (_ =? 254); apply read_uint_no_oof.
Qed.

Lemma read_string_no_oof s : read_string s <> RErr EOutOfFuel.
Proof.
  unfold read_string. pose proof (read_cs_no_oof s). destruct (read_cs s) as [[n r]|e]; cbn [bind].
  - unfold read_bytes. destruct n; [destruct (_ <? _)|]; discriminate.
  - congruence.
Qed.

Lemma parse_in_spec s :
  parse_in s <> RErr EOutOfFuel /\ forall x r, parse_in s = ROk (x, r) -> (length r < length s)%nat.
Proof.
  unfold parse_in. destruct (take 32 s) as [h s1] eqn:T. apply take_length_rest in T.
  pose proof (read_uint_no_oof 4 s1) as N1.
  destruct (read_uint 4 s1) as [[idx s2]|e] eqn:E1; cbn [bind]; [|split; [congruence | discriminate]].
  apply read_uint_rest in E1.
  pose proof (read_string_no_oof s2) as N2.
  destruct (read_string s2) as [[scr s3]|e] eqn:E2; cbn [bind]; [|split; [congruence | discriminate]].
  apply read_string_rest in E2.
  pose proof (read_uint_no_oof 4 s3) as N3.
  destruct (read_uint 4 s3) as [[sq s4]|e] eqn:E3; cbn [bind]; [|split; [congruence | discriminate]].
  apply read_uint_rest in E3.
  split; [discriminate|]. intros x r H. inversion H; subst. lia.
Qed.

Lemma parse_out_spec s :
  parse_out s <> RErr EOutOfFuel /\ forall x r, parse_out s = ROk (x, r) -> (length r < length s)%nat.
Proof.
  unfold parse_out.
  pose proof (read_uint_no_oof 8 s) as N1.
  destruct (read_uint 8 s) as [[amt s1]|e] eqn:E1; cbn [bind]; [|split; [congruence | discriminate]].
  apply read_uint_rest in E1.
  pose proof (read_string_no_oof s1) as N2.
  destruct (read_string s1) as [[scr s2]|e] eqn:E2; cbn [bind]; [|split; [congruence | discriminate]].
  apply read_string_rest in E2.
  split; [discriminate|]. intros x r H. inversion H; subst. lia.
Qed.

Lemma parse_many_spec {A} (f : bytes -> res (A * bytes)) (bound : nat) :
  (forall s, (length s < bound)%nat ->
     f s <> RErr EOutOfFuel /\ forall x r, f s = ROk (x, r) -> (length r < length s)%nat) ->
  forall fuel n s, (length s < fuel)%nat -> (length s < bound)%nat ->
    parse_many f fuel n s <> RErr EOutOfFuel /\
    forall l r, parse_many f fuel n s = ROk (l, r) -> (length r <= length s)%nat.
Proof.
  intros Hf. induction fuel as [|fuel IH]; intros n s Hs Hb; [lia|].
  cbn [parse_many]. destruct (n =? 0).
  - split; [discriminate|]. intros l r H. inversion H; subst. lia.
  - destruct (Hf s Hb) as [Hno Hlen].
    destruct (f s) as [[x r]|e] eqn:E; cbn [bind]; [|split; [congruence | discriminate]].
    specialize (Hlen x r eq_refl).
    destruct (IH (N.pred n) r ltac:(lia) ltac:(lia)) as [IHno IHlen].
    destruct (parse_many f fuel (N.pred n) r) as [[l r']|e] eqn:E2; cbn [bind];
      [|split; [congruence | discriminate]].
    specialize (IHlen l r' eq_refl).
    split; [discriminate|]. intros l0 r0 H. inversion H; subst. lia.
Qed.

Lemma parse_witness_spec fuel0 s : (length s < fuel0)%nat ->
  parse_witness fuel0 s <> RErr EOutOfFuel /\
  forall x r, parse_witness fuel0 s = ROk (x, r) -> (length r < length s)%nat.
Proof.
  intro Hs. unfold parse_witness.
  pose proof (read_cs_no_oof s) as N1.
  destruct (read_cs s) as [[n r0]|e] eqn:E1; cbn [bind]; [|split; [congruence | discriminate]].
  apply read_cs_rest in E1.
  destruct n as [k|]; [|split; discriminate].
  destruct (parse_many_spec read_string fuel0
              (fun s _ => conj (read_string_no_oof s) (read_string_rest s)) fuel0 k r0
              ltac:(lia) ltac:(lia)) as [Hno Hlen].
  split; [exact Hno|]. intros x r H. specialize (Hlen x r H). lia.
Qed.

Theorem deserialize_total raw : deserialize raw <> RErr EOutOfFuel.
Proof.
  unfold deserialize. set (fuel := S (length raw)).
  pose proof (read_uint_no_oof 4 raw) as N1.
  destruct (read_uint 4 raw) as [[ver s1]|e] eqn:E1; cbn [bind]; [|congruence].
  apply read_uint_rest in E1.
  pose proof (read_cs_no_oof s1) as N2.
  destruct (read_cs s1) as [[ic0 s2]|e] eqn:E2; cbn [bind]; [|congruence].
  apply read_cs_rest in E2.
  assert (Hfl : forall fl s3,
    (if is_zero ic0
     then do (f, a) <- read_uint 1 s2; do (ic1, b) <- read_cs a; ROk ((f, ic1), b)
     else ROk ((Some 0, ic0), s2)) = ROk (fl, s3) -> (length s3 <= length s2)%nat).
  { intros fl s3. destruct (is_zero ic0).
    - destruct (read_uint 1 s2) as [[f a]|e] eqn:F1; cbn [bind]; [|discriminate].
      apply read_uint_rest in F1.
      destruct (read_cs a) as [[ic1 b]|e] eqn:F2; cbn [bind]; [|discriminate].
      apply read_cs_rest in F2. intro H. inversion H; subst. lia.
    - intro H. inversion H; subst. lia. }
  assert (Hfn : (if is_zero ic0
     then do (f, a) <- read_uint 1 s2; do (ic1, b) <- read_cs a; ROk ((f, ic1), b)
     else ROk ((Some 0, ic0), s2)) <> RErr EOutOfFuel).
  { destruct (is_zero ic0); [|discriminate].
    pose proof (read_uint_no_oof 1 s2) as M1.
    destruct (read_uint 1 s2) as [[f a]|e]; cbn [bind]; [|congruence].
    pose proof (read_cs_no_oof a) as M2.
    destruct (read_cs a) as [[ic1 b]|e]; cbn [bind]; [discriminate | congruence]. }
  destruct (if is_zero ic0 then _ else _) as [[fl s3]|e]; cbn [bind]; [|congruence].
  specialize (Hfl fl s3 eq_refl).
  destruct (snd fl) as [n|]; [|discriminate].
  destruct (parse_many_spec parse_in fuel (fun s _ => parse_in_spec s) fuel n s3
              ltac:(subst fuel; lia) ltac:(subst fuel; lia)) as [P1 L1].
  destruct (parse_many parse_in fuel n s3) as [[ins s4]|e]; cbn [bind]; [|congruence].
  specialize (L1 ins s4 eq_refl).
  pose proof (read_cs_no_oof s4) as N3.
  destruct (read_cs s4) as [[oc s5]|e] eqn:E3; cbn [bind]; [|congruence].
  apply read_cs_rest in E3.
  destruct oc as [m|]; [|discriminate].
  destruct (parse_many_spec parse_out fuel (fun s _ => parse_out_spec s) fuel m s5
              ltac:(subst fuel; lia) ltac:(subst fuel; lia)) as [P2 L2].
  destruct (parse_many parse_out fuel m s5) as [[outs s6]|e]; cbn [bind]; [|congruence].
  specialize (L2 outs s6 eq_refl).
  assert (Hw : (if truthy (fst fl)
                then do (ws, r) <- parse_many (parse_witness fuel) fuel n s6; ROk (concat ws, r)
                else ROk ([], s6)) <> RErr EOutOfFuel).
  { destruct (truthy (fst fl)); [|discriminate].
    destruct (parse_many_spec (parse_witness fuel) fuel (parse_witness_spec fuel) fuel n s6
                ltac:(subst fuel; lia) ltac:(subst fuel; lia)) as [P3 _].
    destruct (parse_many (parse_witness fuel) fuel n s6) as [[ws r]|e]; cbn [bind];
      [discriminate | congruence]. }
  destruct (if truthy (fst fl) then _ else _) as [[wits s7]|e]; cbn [bind]; [|congruence].
  pose proof (read_uint_no_oof 4 s7) as N4.
  destruct (read_uint 4 s7) as [[lt s8]|e]; cbn [bind]; [discriminate | congruence].
Qed.

(* ---------- soundness of the reader: whatever it returns that the writer accepts IS a well-formed
   transaction, and the writer emits that transaction's canonical legacy encoding ---------- *)
Definition dflt (o : option N) : N := match o with Some v => v | None => 0 end.
Definition unlift_in (i : pin) : txin :=
  mk_txin (pi_hash i) (dflt (pi_index i)) (pi_script i) (dflt (pi_seq i)).
Definition unlift_out (o : pout) : txout := mk_txout (dflt (po_amount o)) (po_script o).
Definition unlift (p : ptx) : tx :=
  mk_tx (dflt (p_version p)) (map unlift_in (p_ins p)) (map unlift_out (p_outs p)) (dflt (p_locktime p)).

(* facts the reader guarantees about each element it returns *)
Definition good_in (i : pin) : Prop :=
  (pi_index i <> None -> length (pi_hash i) = 32%nat) /\
  (pi_seq i <> None -> N.of_nat (length (pi_script i)) < MAXSIZE1).

Lemma read_string_sound s scr r : read_string s = ROk (scr, r) ->
  N.of_nat (length scr) < MAXSIZE1 \/ r = [].
Proof.
  unfold read_string. destruct (read_cs s) as [[n r0]|e]; cbn [bind]; [|discriminate].
  unfold read_bytes. destruct n as [k|].
  - destruct (N.ltb_spec k MAXSIZE1) as [Hk|Hk]; [|discriminate]. intro G. inversion G as [T].
    apply take_spec in T as (_ & Hle & _). left. lia.
  - intro G. inversion G; subst. right. reflexivity.
Qed.

Lemma read_string_len s scr r : read_string s = ROk (scr, r) -> (length scr + length r <= length s)%nat.
Proof.
  unfold read_string. destruct (read_cs s) as [[n r0]|e] eqn:E; cbn [bind]; [|discriminate].
  apply read_cs_rest in E. unfold read_bytes. destruct n as [k|].
  - destruct (k <? MAXSIZE1); [|discriminate]. intro G. inversion G as [T].
    apply take_spec in T as (-> & _). rewrite app_length in E. lia.
  - intro G. inversion G; subst. cbn. lia.
Qed.

Lemma parse_out_len s o r : parse_out s = ROk (o, r) ->
  (length (po_script o) <= length s)%nat /\ (length r <= length s)%nat.
Proof.
  unfold parse_out.
  destruct (read_uint 8 s) as [[amt s1]|e] eqn:E1; cbn [bind]; [|discriminate].
  apply read_uint_rest in E1.
  destruct (read_string s1) as [[scr s2]|e] eqn:E2; cbn [bind]; [|discriminate].
  apply read_string_len in E2. intro G. inversion G; subst. cbn [po_script]. lia.
Qed.

Lemma parse_many_rest_le {A} (f : bytes -> res (A * bytes)) :
  (forall s x r, f s = ROk (x, r) -> (length r <= length s)%nat) ->
  forall fuel n s l r, parse_many f fuel n s = ROk (l, r) -> (length r <= length s)%nat.
Proof.
  intro Hf. induction fuel as [|fuel IH]; intros n s l r; cbn [parse_many]; destruct (n =? 0).
  - intro G; inversion G; subst. lia.
  - discriminate.
  - intro G; inversion G; subst. lia.
  - destruct (f s) as [[x r0]|e] eqn:F; cbn [bind]; [|discriminate].
    destruct (parse_many f fuel (N.pred n) r0) as [[l0 r1]|e] eqn:E; cbn [bind]; [|discriminate].
    intro G; inversion G; subst. apply Hf in F. apply IH in E. lia.
Qed.

(* an element property that may depend on how many bytes were available *)
Lemma parse_many_Forall_bound {A} (f : bytes -> res (A * bytes)) (Q : A -> nat -> Prop) :
  (forall s x r, f s = ROk (x, r) -> Q x (length s) /\ (length r <= length s)%nat) ->
  (forall x a b, Q x a -> (a <= b)%nat -> Q x b) ->
  forall fuel n s l r, parse_many f fuel n s = ROk (l, r) -> Forall (fun x => Q x (length s)) l.
Proof.
  intros Hf Hmono. induction fuel as [|fuel IH]; intros n s l r; cbn [parse_many]; destruct (n =? 0).
  - intro G; inversion G; subst. constructor.
  - discriminate.
  - intro G; inversion G; subst. constructor.
  - destruct (f s) as [[x r0]|e] eqn:F; cbn [bind]; [|discriminate].
    destruct (parse_many f fuel (N.pred n) r0) as [[l0 r1]|e] eqn:E; cbn [bind]; [|discriminate].
    intro G; inversion G; subst. apply Hf in F as [Fq Fl]. apply IH in E.
    constructor; [exact Fq|]. eapply Forall_impl; [|exact E]. intros a Ha. cbv beta in Ha. exact (Hmono a _ _ Ha Fl).
Qed.

Lemma parse_in_good s i r : parse_in s = ROk (i, r) -> good_in i.
Proof.
  unfold parse_in. destruct (take 32 s) as [h s1] eqn:T.
  destruct (read_uint 4 s1) as [[idx s2]|e] eqn:E1; cbn [bind]; [|discriminate].
  destruct (read_string s2) as [[scr s3]|e] eqn:E2; cbn [bind]; [|discriminate].
  destruct (read_uint 4 s3) as [[sq s4]|e] eqn:E3; cbn [bind]; [|discriminate].
  intro H. inversion H; subst. unfold good_in. cbn [pi_index pi_hash pi_seq pi_script]. split.
  - intro Hidx. apply take_spec in T as (_ & _ & [Hl|Hnil]).
    + change 32 with (N.of_nat 32) in Hl. lia.
    + subst s1. cbn in E1. inversion E1; subst. congruence.
  - intro Hsq. apply read_string_sound in E2 as [Hl|Hnil]; [exact Hl|].
    subst s3. cbn in E3. inversion E3; subst. congruence.
Qed.

Lemma parse_many_length {A} (f : bytes -> res (A * bytes)) fuel : forall n s l r,
  parse_many f fuel n s = ROk (l, r) -> N.of_nat (length l) = n.
Proof.
  induction fuel as [|fuel IH]; intros n s l r; cbn [parse_many]; destruct (N.eqb_spec n 0) as [Z|Z].
  - intro H; inversion H; subst. reflexivity.
  - discriminate.
  - intro H; inversion H; subst. reflexivity.
  - destruct (f s) as [[x r0]|e]; cbn [bind]; [|discriminate].
    destruct (parse_many f fuel (N.pred n) r0) as [[l0 r1]|e] eqn:E; cbn [bind]; [|discriminate].
    intro H; inversion H; subst. apply IH in E. cbn [length]. lia.
Qed.

Lemma parse_many_Forall {A} (f : bytes -> res (A * bytes)) (P : A -> Prop) :
  (forall s x r, f s = ROk (x, r) -> P x) ->
  forall fuel n s l r, parse_many f fuel n s = ROk (l, r) -> Forall P l.
Proof.
  intro Hf. induction fuel as [|fuel IH]; intros n s l r; cbn [parse_many]; destruct (n =? 0).
  - intro H; inversion H; subst. constructor.
  - discriminate.
  - intro H; inversion H; subst. constructor.
  - destruct (f s) as [[x r0]|e] eqn:F; cbn [bind]; [|discriminate].
    destruct (parse_many f fuel (N.pred n) r0) as [[l0 r1]|e] eqn:E; cbn [bind]; [|discriminate].
    intro H; inversion H; subst. constructor; [eapply Hf; eassumption | eapply IH; eassumption].
Qed.

(* what a successful [deserialize] tells about the two element lists *)
Lemma deserialize_inv raw p : deserialize raw = ROk p ->
  Forall good_in (p_ins p) /\
  Forall (fun o => (length (po_script o) <= length raw)%nat) (p_outs p) /\
  N.of_nat (length (p_ins p)) < 18446744073709551616 /\
  N.of_nat (length (p_outs p)) < 18446744073709551616.
Proof.
  unfold deserialize. set (fuel := S (length raw)). clearbody fuel.
  destruct (read_uint 4 raw) as [[ver s1]|e] eqn:E1; cbn [bind]; [|discriminate].
  apply read_uint_rest in E1.
  destruct (read_cs s1) as [[ic0 s2]|e] eqn:E2; cbn [bind]; [|discriminate].
  assert (Hfl : forall fl s3,
    (if is_zero ic0
     then do (f, a) <- read_uint 1 s2; do (ic1, b) <- read_cs a; ROk ((f, ic1), b)
     else ROk ((Some 0, ic0), s2)) = ROk (fl, s3) ->
    (length s3 <= length s2)%nat /\ forall n, snd fl = Some n -> n < 18446744073709551616).
  { intros fl s3. destruct (is_zero ic0).
    - destruct (read_uint 1 s2) as [[f a]|e] eqn:F1; cbn [bind]; [|discriminate].
      apply read_uint_rest in F1.
      destruct (read_cs a) as [[ic1 b]|e] eqn:F2; cbn [bind]; [|discriminate].
      intro G. inversion G; subst. cbn [snd]. split; [apply read_cs_rest in F2; lia|].
      intros n ->. eapply read_cs_lt; eassumption.
    - intro G. inversion G; subst. cbn [snd]. split; [lia|]. intros n ->. eapply read_cs_lt; eassumption. }
  apply read_cs_rest in E2.
  destruct (if is_zero ic0 then _ else _) as [[fl s3]|e]; cbn [bind]; [|discriminate].
  destruct (Hfl fl s3 eq_refl) as [L3 Hn].
  destruct (snd fl) as [n|]; [|discriminate]. specialize (Hn n eq_refl).
  destruct (parse_many parse_in fuel n s3) as [[ins s4]|e] eqn:PI; cbn [bind]; [|discriminate].
  destruct (read_cs s4) as [[oc s5]|e] eqn:E3; cbn [bind]; [|discriminate].
  destruct oc as [m|]; [|discriminate].
  pose proof (read_cs_lt _ _ _ E3) as Hm. apply read_cs_rest in E3.
  destruct (parse_many parse_out fuel m s5) as [[outs s6]|e] eqn:PO; cbn [bind]; [|discriminate].
  destruct (if truthy (fst fl) then _ else _) as [[wits s7]|e]; cbn [bind]; [|discriminate].
  destruct (read_uint 4 s7) as [[lt s8]|e]; cbn [bind]; [|discriminate].
  intro G. inversion G; subst. cbn [p_ins p_outs].
  split; [eapply parse_many_Forall; [exact parse_in_good | exact PI]|].
  split.
  - pose proof (parse_many_rest_le parse_in
                  (fun s x r H => Nat.lt_le_incl _ _ (proj2 (parse_in_spec s) x r H)) _ _ _ _ _ PI) as L4.
    pose proof (parse_many_Forall_bound parse_out (fun o k => (length (po_script o) <= k)%nat)
                  parse_out_len (fun x a b H1 H2 => Nat.le_trans _ _ _ H1 H2) _ _ _ _ _ PO) as F.
    eapply Forall_impl; [|exact F]. cbv beta. intros o Ho. lia.
  - apply parse_many_length in PI. apply parse_many_length in PO. lia.
Qed.

Lemma pser_in_sound i b : pser_in i = ROk b -> good_in i ->
  wf_in (unlift_in i) /\ lift_in (unlift_in i) = i /\ b = ser_in (unlift_in i).
Proof.
  unfold pser_in. intros H (Gh & Gs).
  destruct (enc_uint 4 (pi_index i)) as [a|e] eqn:E1; cbn [bind] in H; [|discriminate].
  destruct (enc_uint 4 (pi_seq i)) as [c|e] eqn:E2; cbn [bind] in H; [|discriminate].
  apply enc_uint_ok in E1 as (v1 & Hv1 & Hr1 & ->). apply enc_uint_ok in E2 as (v2 & Hv2 & Hr2 & ->).
  rewrite pow256_4 in Hr1, Hr2. inversion H; subst b. destruct i as [h idx scr sq].
  cbn [pi_index pi_seq pi_hash pi_script] in *. subst idx sq.
  unfold unlift_in, lift_in, ser_in, wf_in. cbn [pi_index pi_seq pi_hash pi_script dflt ti_hash ti_index ti_script ti_seq].
  split; [|split; reflexivity].
  split; [apply Gh; discriminate|]. split; [exact Hr1|]. split; [apply Gs; discriminate | exact Hr2].
Qed.

Lemma pser_out_sound o b : pser_out o = ROk b -> N.of_nat (length (po_script o)) < MAXSIZE1 ->
  wf_out (unlift_out o) /\ lift_out (unlift_out o) = o /\ b = ser_out (unlift_out o).
Proof.
  unfold pser_out. intros H G.
  destruct (enc_uint 8 (po_amount o)) as [a|e] eqn:E1; cbn [bind] in H; [|discriminate].
  apply enc_uint_ok in E1 as (v1 & Hv1 & Hr1 & ->). rewrite pow256_8 in Hr1.
  inversion H; subst b. destruct o as [amt scr]. cbn [po_amount po_script] in *. subst amt.
  unfold unlift_out, lift_out, ser_out, wf_out. cbn [po_amount po_script dflt to_amount to_script].
  split; [|split; reflexivity]. split; assumption.
Qed.

Lemma pser_list_sound {A B} (f : B -> res bytes) (un : B -> A) (lf : A -> B) (ser : A -> bytes)
      (G : B -> Prop) (W : A -> Prop) :
  (forall x b, f x = ROk b -> G x -> W (un x) /\ lf (un x) = x /\ b = ser (un x)) ->
  forall l b, pser_list f l = ROk b -> Forall G l ->
    Forall W (map un l) /\ map lf (map un l) = l /\ b = concat (map ser (map un l)).
Proof.
  intro Hf. induction l as [|x l IH]; intros b H HG.
  - cbn in H. inversion H; subst. split; [constructor|]. split; reflexivity.
  - cbn [pser_list] in H. destruct (f x) as [a|e] eqn:F; cbn [bind] in H; [|discriminate].
    destruct (pser_list f l) as [c|e] eqn:R; cbn [bind] in H; [|discriminate].
    inversion H; subst b. inversion HG; subst.
    destruct (Hf x a F ltac:(assumption)) as (W1 & L1 & ->).
    destruct (IH c eq_refl ltac:(assumption)) as (W2 & L2 & ->).
    cbn [map concat]. split; [constructor; assumption|]. split; [rewrite L1, L2; reflexivity | reflexivity].
Qed.

Theorem reader_sound raw p b : N.of_nat (length raw) < MAXSIZE1 ->
  deserialize raw = ROk p -> p_ins p <> [] -> pser p = ROk b ->
  exists t, wf_tx t /\ b = serialize t /\
            p_version p = Some (tx_version t) /\ p_ins p = map lift_in (tx_ins t) /\
            p_outs p = map lift_out (tx_outs t) /\ p_locktime p = Some (tx_locktime t) /\
            deserialize b = ROk (lift t).
Proof.
  intros Hraw D Hne H. apply deserialize_inv in D as (Gi & Go & Ni & No).
  assert (Hshort : Forall (fun o => N.of_nat (length (po_script o)) < MAXSIZE1) (p_outs p)).
  { eapply Forall_impl; [|exact Go]. cbv beta. intros o Ho. lia. }
  unfold pser in H.
  destruct (enc_uint 4 (p_version p)) as [v|e] eqn:E1; cbn [bind] in H; [|discriminate].
  destruct (pser_list pser_in (p_ins p)) as [bi|e] eqn:E2; cbn [bind] in H; [|discriminate].
  destruct (pser_list pser_out (p_outs p)) as [bo|e] eqn:E3; cbn [bind] in H; [|discriminate].
  destruct (enc_uint 4 (p_locktime p)) as [l|e] eqn:E4; cbn [bind] in H; [|discriminate].
  apply enc_uint_ok in E1 as (v1 & Hv1 & Hr1 & ->). apply enc_uint_ok in E4 as (v4 & Hv4 & Hr4 & ->).
  rewrite pow256_4 in Hr1, Hr4.
  destruct (pser_list_sound pser_in unlift_in lift_in ser_in good_in wf_in pser_in_sound _ _ E2 Gi)
    as (Wi & Li & ->).
  destruct (pser_list_sound pser_out unlift_out lift_out ser_out
              (fun o => N.of_nat (length (po_script o)) < MAXSIZE1) wf_out pser_out_sound _ _ E3 Hshort)
    as (Wo & Lo & ->).
  assert (WF : wf_tx (unlift p)).
  { unfold wf_tx, unlift. cbn [tx_version tx_locktime tx_ins tx_outs]. rewrite Hv1, Hv4. cbn [dflt].
    rewrite !map_length.
    split; [exact Hr1|]. split; [exact Hr4|]. split.
    { destruct (p_ins p); [congruence | discriminate]. }
    split; [exact Ni|]. split; [exact No|]. split; assumption. }
  exists (unlift p). split; [exact WF|].
  assert (Hb : b = serialize (unlift p)).
  { inversion H; subst b. unfold serialize, unlift, ser_ins, ser_outs.
    cbn [tx_version tx_locktime tx_ins tx_outs]. rewrite Hv1, Hv4. cbn [dflt]. rewrite !map_length.
    reflexivity. }
  split; [exact Hb|].
  split; [unfold unlift; cbn [tx_version]; rewrite Hv1; reflexivity|].
  split; [unfold unlift; cbn [tx_ins]; symmetry; exact Li|].
  split; [unfold unlift; cbn [tx_outs]; symmetry; exact Lo|].
  split; [unfold unlift; cbn [tx_locktime]; rewrite Hv4; reflexivity|].
  rewrite Hb. rewrite <- (app_nil_r (serialize (unlift p))). apply deserialize_serialize. exact WF.
Qed.

(* the id of ANY accepted input: over the bytes as given when the flag is falsy, over the canonical
   legacy encoding of the transaction that was read when the flag is truthy *)
Section ParsedId.
  Variable sha256 : bytes -> bytes.
  Theorem parsed_id raw p b : N.of_nat (length raw) < MAXSIZE1 ->
    deserialize raw = ROk p -> p_ins p <> [] -> pser p = ROk b ->
    (exists t, wf_tx t /\ b = serialize t /\
               p_version p = Some (tx_version t) /\ p_ins p = map lift_in (tx_ins t) /\
               p_outs p = map lift_out (tx_outs t) /\ p_locktime p = Some (tx_locktime t) /\
               deserialize b = ROk (lift t)) /\
    txid_of_raw sha256 raw = ROk (rev (sha256 (sha256 (if truthy (p_flag p) then b else raw)))).
  Proof.
    intros Hraw D Hne H. split; [eapply reader_sound; eassumption|].
    unfold txid_of_raw. rewrite D. cbn [bind]. unfold id_of_parsed.
    destruct (truthy (p_flag p)); [rewrite H|]; reflexivity.
  Qed.
End ParsedId.

(* ---------- why a transaction needs an input: the legacy encoding of a transaction without
   inputs starts with the segwit marker and is read as something else ---------- *)
Lemma no_input_ambiguous :
  deserialize (serialize no_input_tx) <> ROk (lift no_input_tx).
Proof. vm_compute. discriminate. Qed.

(* ---------- the sample values satisfy the hypotheses of the theorems ---------- *)
Lemma sample_wf : wf_tx sample_tx /\ wf_wits sample_tx sample_wits.
Proof.
  assert (Hi : wf_in sample_in).
  { unfold wf_in. split; [reflexivity|]. split; [reflexivity|]. split; reflexivity. }
  assert (Ho : wf_out sample_out).
  { unfold wf_out. split; reflexivity. }
  split.
  - unfold wf_tx. split; [reflexivity|]. split; [reflexivity|]. split; [discriminate|].
    split; [reflexivity|]. split; [reflexivity|].
    split; [repeat constructor; exact Hi | repeat constructor; exact Ho].
  - unfold wf_wits. split; [reflexivity|].
    repeat constructor.
Qed.

(* the hypotheses of reader_sound are inhabited by an input that is NOT of the form [serialize t]:
   a segwit encoding followed by a trailing byte *)
Lemma sample_reader_sound_hyps :
  let raw := serialize_segwit sample_tx 1 sample_wits ++ [byte_of_N 9] in
  let p := lift_with 1 (concat sample_wits) sample_tx in
  N.of_nat (length raw) < MAXSIZE1 /\ deserialize raw = ROk p /\ p_ins p <> [] /\
  pser p = ROk (serialize sample_tx) /\ raw <> serialize sample_tx.
Proof.
  cbv zeta. split; [vm_compute; reflexivity|]. split; [vm_compute; reflexivity|].
  split; [discriminate|]. split; [vm_compute; reflexivity|]. vm_compute. discriminate.
Qed.
