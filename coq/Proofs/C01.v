(* C01 proofs: safety invariant (only matching bytes are stored / verified), exact writer outcome,
   chunking irrelevance, length accepted once, termination of Drain, liveness (first complete copy wins). *)
From Coq Require Import NArith ZArith List Bool Lia Arith.
From Coq.Strings Require Import Byte.
From LV Require Import Lib.Bytes Model.C01.
Import ListNotations.
Ltac Zify.zify_post_hook ::= Z.to_euclidean_division_equations.

(* ------------------------------------------------------------------------------------------ *)
(* lists                                                                                      *)
(* ------------------------------------------------------------------------------------------ *)
Lemma nth_error_upd_eq {A} (l : list A) i x y : nth_error l i = Some y -> nth_error (upd i x l) i = Some x.
Proof. revert i; induction l; intros [|i]; simpl; try discriminate; auto. Qed.

Lemma nth_error_upd_neq {A} (l : list A) i j x : i <> j -> nth_error (upd i x l) j = nth_error l j.
Proof.
  revert i j; induction l; intros [|i] [|j]; simpl; auto; try congruence.
Qed.

Lemma nth_error_upd_none {A} (l : list A) i x : nth_error l i = None -> upd i x l = l.
Proof. revert i; induction l; intros [|i]; simpl; try discriminate; auto. intros; f_equal; auto. Qed.

Lemma upd_same {A} (l : list A) i x : nth_error l i = Some x -> upd i x l = l.
Proof. revert i; induction l; intros [|i]; simpl; try discriminate. congruence. intros; f_equal; auto. Qed.

Lemma upd_length {A} (l : list A) i x : length (upd i x l) = length l.
Proof. revert i; induction l; intros [|i]; simpl; auto. Qed.

Lemma Forall_upd {A} (P : A -> Prop) l i x : Forall P l -> P x -> Forall P (upd i x l).
Proof.
  intros Hl Hx; revert i; induction Hl; intros [|i]; simpl; auto.
Qed.

Lemma Forall_nth {A} (P : A -> Prop) l i x : Forall P l -> nth_error l i = Some x -> P x.
Proof. intros Hl Hn. rewrite Forall_forall in Hl. apply Hl. eapply nth_error_In; eauto. Qed.

Lemma nth_error_upd_cases {A} (l : list A) i j x y :
  nth_error (upd i x l) j = Some y ->
  (j = i /\ y = x /\ exists z, nth_error l i = Some z) \/ (j <> i /\ nth_error l j = Some y).
Proof.
  intros E. destruct (Nat.eq_dec j i) as [->|Hne].
  - left. destruct (nth_error l i) eqn:Hn.
    + erewrite nth_error_upd_eq in E by eauto. inversion E; eauto.
    + rewrite nth_error_upd_none in E by auto. congruence.
  - right. rewrite nth_error_upd_neq in E by auto. auto.
Qed.

(* ------------------------------------------------------------------------------------------ *)
(* writer-level transitions                                                                   *)
(* ------------------------------------------------------------------------------------------ *)
Lemma fut_done_false f : fut_done f = false <-> f = FPending.
Proof. destruct f; simpl; split; congruence. Qed.
Lemma fut_done_true f : fut_done f = true <-> f <> FPending.
Proof. destruct f; simpl; split; congruence. Qed.

Section C01.
Variable H : bytes -> bytes.
Variable h : bytes.
Variable kd : kind.
Variable cb : bool.

Notation wr_write := (wr_write H h).

(* a complete correct copy of an admissible size *)
Definition good (b : bytes) : Prop := (0 < N.of_nat (length b) <= MAX_BLOB_SIZE)%N /\ H b = h.

Definition w_ok (len : option N) (w : writer) : Prop :=
  (forall b, w_fut w = FOk b -> good b)
  /\ (w_open w = true -> w_fut w = FPending ->
      w_seen w = w_buf w /\ forall L, len = Some L -> L <> 0%N -> (N.of_nat (length (w_seen w)) < L)%N)
  /\ (w_open w = false -> w_fut w <> FPending)
  /\ (len = None \/ len = Some 0%N -> w_fut w = FPending -> w_seen w = [])
  /\ (forall L, len = Some L -> (L <= MAX_BLOB_SIZE)%N).

Record wtrans (len : option N) (f : writer -> writer * bool) : Prop := {
  wt_key : forall w, w_key (fst (f w)) = w_key w;
  wt_fire : forall w, snd (f w) = true -> w_fut w = FPending /\ fut_done (w_fut (fst (f w))) = true;
  wt_nofire : forall w, snd (f w) = false -> w_fut (fst (f w)) = w_fut w;
  wt_ok : forall w, w_ok len w -> w_ok len (fst (f w));
  wt_newok : forall w b, w_ok len w -> w_fut w = FPending -> w_fut (fst (f w)) = FOk b ->
             exists L, len = Some L /\ N.of_nat (length b) = L;
  wt_open : forall w, w_open (fst (f w)) = true -> w_open w = true }.

Ltac split5 := split; [|split; [|split; [|split]]].

Lemma wtrans_close len : wtrans len close_handle_w.
Proof.
  split; intros w; unfold close_handle_w; destruct (fut_done (w_fut w)) eqn:D; simpl; auto; try discriminate.
  - intros _. apply fut_done_false in D. auto.
  - unfold w_ok; intros (A & B & C & E & F). split5; simpl; auto; try discriminate.
    intros _. apply fut_done_true; auto.
  - unfold w_ok; intros (A & B & C & E & F). split5; simpl; auto; try discriminate.
  - intros b _ P E. congruence.
Qed.

Lemma wtrans_cancel len : wtrans len cancel_w.
Proof.
  split; intros w; unfold cancel_w; destruct (fut_done (w_fut w)) eqn:D; simpl; auto; try discriminate.
  - intros _. apply fut_done_false in D. auto.
  - unfold w_ok; intros (A & B & C & E & F). split5; simpl; auto; try discriminate.
  - intros b _ P E. congruence.
Qed.

Ltac break_ifs :=
  repeat (match goal with |- context [if ?c then _ else _] => destruct c eqn:? end; simpl).
Ltac norm_hyps :=
  repeat match goal with
  | X : fut_done _ = false |- _ => apply fut_done_false in X
  | X : fut_done _ = true |- _ => apply fut_done_true in X
  | X : (_ =? _)%N = true |- _ => apply N.eqb_eq in X
  | X : (_ =? _)%N = false |- _ => apply N.eqb_neq in X
  | X : (_ <? _)%N = true |- _ => apply N.ltb_lt in X
  | X : (_ <? _)%N = false |- _ => apply N.ltb_ge in X
  | X : negb _ = true |- _ => apply negb_true_iff in X
  | X : negb _ = false |- _ => apply negb_false_iff in X
  | X : bytes_eqb _ _ = true |- _ => apply bytes_eqb_eq in X
  | X : bytes_eqb _ _ = false |- _ => apply bytes_eqb_neq in X
  end.

Lemma wtrans_write len d : wtrans len (fun x => fst (wr_write len x d)).
Proof.
  split; intros w; unfold C01.wr_write; destruct len as [L|]; simpl; auto; try discriminate.
  - break_ifs; auto.
  - break_ifs; try discriminate; intros _; norm_hyps; auto.
  - break_ifs; try discriminate; auto.
  - unfold w_ok; intros (A & B & C & F & G); break_ifs; norm_hyps; simpl.
    all: split5; auto; try discriminate; try congruence.
    all: try (intros [X|X]; congruence).
    + intros b Eb. inversion Eb; subst b.
      destruct (B Heqb0 Heqb4) as (S1 & _). rewrite <- S1. pose proof (G L eq_refl). split; auto. lia.
    + intros _ P. destruct (B Heqb0 P) as (S1 & _). split; [congruence|].
      intros L' EL _. inversion EL; subst L'. lia.
  - intros b Hok P. rewrite P. simpl. destruct Hok as (_ & B & _).
    break_ifs; norm_hyps; simpl; intros E; try discriminate; try congruence.
    inversion E; subst b. exists L. split; auto.
    destruct (B Heqb1 P) as (S1 & _). rewrite <- S1. auto.
  - intros; congruence.
  - break_ifs; norm_hyps; auto; intros; try discriminate; auto.
Qed.

(* ------------------------------------------------------------------------------------------ *)
(* safety invariant                                                                           *)
(* ------------------------------------------------------------------------------------------ *)
Definition goodS (s : state) (b : bytes) : Prop :=
  exists L, s_len s = Some L /\ N.of_nat (length b) = L /\ good b.

Definition Inv (s : state) : Prop :=
  (forall L, s_len s = Some L -> (L <= MAX_BLOB_SIZE)%N)
  /\ Forall (w_ok (s_len s)) (s_ws s)
  /\ (forall b, In (QTask b) (s_q s) -> goodS s b)
  /\ (forall b, s_io s = Some b -> goodS s b)
  /\ (forall b, s_store s = Some b -> goodS s b)
  /\ (s_verified s = true -> s_store s <> None)
  /\ (In QUpdate (s_q s) \/ In QWakeup (s_q s) \/ In QSetState (s_q s) -> s_store s <> None).

Lemma Inv_init : Inv init.
Proof.
  unfold Inv, init; simpl. repeat split; try discriminate; auto; try tauto.
Qed.

Lemma app_w_len f i s : s_len (app_w f i s) = s_len s.
Proof. unfold app_w. destruct (nth_error (s_ws s) i); auto. destruct (f w); auto. Qed.

(* items scheduled by a future never are task/notification items *)
Lemma in_fire_task i w fl b : ~ In (QTask b) (fire i w fl).
Proof. destruct fl; simpl; intuition discriminate. Qed.
Lemma in_fire_upd i w fl : ~ In QUpdate (fire i w fl).
Proof. destruct fl; simpl; intuition discriminate. Qed.
Lemma in_fire_wk i w fl : ~ In QWakeup (fire i w fl).
Proof. destruct fl; simpl; intuition discriminate. Qed.
Lemma in_fire_ss i w fl : ~ In QSetState (fire i w fl).
Proof. destruct fl; simpl; intuition discriminate. Qed.

Lemma Inv_app_w f i s : wtrans (s_len s) f -> Inv s -> Inv (app_w f i s).
Proof.
  intros Wt (I1 & I2 & I3 & I4 & I5 & I6 & I7). unfold app_w.
  destruct (nth_error (s_ws s) i) eqn:Hn; [|repeat split; auto].
  destruct (f w) as [w' fl] eqn:Ef. unfold Inv, enq, goodS in *; simpl.
  repeat split; auto.
  - apply Forall_upd; auto. replace w' with (fst (f w)) by (rewrite Ef; auto).
    apply (wt_ok _ _ Wt). eapply Forall_nth; eauto.
  - intros b Hin. apply in_app_or in Hin. destruct Hin as [Hin|Hin]; auto.
    exfalso; eapply in_fire_task; eauto.
  - intros Hq. apply I7.
    destruct Hq as [Hq|[Hq|Hq]]; apply in_app_or in Hq; destruct Hq as [Hq|Hq]; auto; exfalso.
    + eapply in_fire_upd; eauto.
    + eapply in_fire_wk; eauto.
    + eapply in_fire_ss; eauto.
Qed.

Lemma fold_pres {A} (P : state -> Prop) (g : A -> state -> state) l s :
  (forall x st, P st -> P (g x st)) -> P s -> P (fold_right g s l).
Proof. intros Hg Hs. induction l; simpl; auto. Qed.

Lemma Inv_set_map m s : Inv s -> Inv (set_map m s).
Proof. unfold Inv, goodS; simpl; auto. Qed.

Lemma w_ok_set_len w L : (L <= MAX_BLOB_SIZE)%N -> w_ok None w -> w_ok (Some L) w.
Proof.
  intros HL (A & B & C & F & G). split5; auto.
  - intros O P. destruct (B O P) as (S1 & _). split; auto.
    intros L0 E Hne. assert (L0 = L) by congruence. subst L0. rewrite (F (or_introl eq_refl) P). simpl. lia.
  - intros L0 E. assert (L0 = L) by congruence. subst L0. auto.
Qed.

Lemma Inv_set_length n s : Inv s -> Inv (set_length n s).
Proof.
  intros (I1 & I2 & I3 & I4 & I5 & I6 & I7). unfold set_length.
  destruct (s_len s) eqn:El. { unfold Inv; rewrite El; repeat split; auto. }
  destruct ((0 <=? n)%Z && (n <=? Z.of_N MAX_BLOB_SIZE)%Z) eqn:Eb.
  2:{ unfold Inv; rewrite El; repeat split; auto. }
  apply andb_true_iff in Eb. destruct Eb as [E1 E2]. apply Z.leb_le in E1, E2.
  assert (HL : (Z.to_N n <= MAX_BLOB_SIZE)%N) by (unfold MAX_BLOB_SIZE in *; lia).
  unfold Inv, goodS in *; simpl. repeat split; auto.
  - intros L E. inversion E; subst. auto.
  - eapply Forall_impl; [|exact I2]. intros w. apply w_ok_set_len; auto.
  - intros b Hb. destruct (I3 b Hb) as (L & X & _). congruence.
  - intros b Hb. destruct (I4 b Hb) as (L & X & _). congruence.
  - intros b Hb. destruct (I5 b Hb) as (L & X & _). congruence.
Qed.

Lemma Inv_open k s : Inv s -> Inv (fst (open_writer kd k s)).
Proof.
  intros I. unfold open_writer. destruct (file_exists kd s); simpl; auto.
  match goal with |- context [if ?c then _ else _] => destruct c end; simpl; auto.
  destruct I as (I1 & I2 & I3 & I4 & I5 & I6 & I7). unfold Inv, goodS in *; simpl.
  repeat split; auto.
  apply Forall_app; split; auto. constructor; auto.
  split5; simpl; auto; try discriminate. intros _ _. split; auto. intros; lia.
Qed.

Lemma Inv_close_blob s : Inv s -> Inv (close_blob s).
Proof.
  intros I. unfold close_blob. apply Inv_set_map. apply fold_pres; auto.
  intros x st Hst. apply Inv_app_w; auto. apply wtrans_cancel.
Qed.

Lemma Inv_close_others i s : Inv s -> Inv (close_others i s).
Proof.
  intros I. unfold close_others. apply Inv_set_map. apply fold_pres; auto.
  intros x st Hst. destruct (Nat.eqb (snd x) i); auto.
  apply Inv_app_w; auto. apply wtrans_close.
Qed.

Lemma close_others_len i s : s_len (close_others i s) = s_len s.
Proof.
  unfold close_others; simpl. induction (s_map s); simpl; auto.
  destruct (Nat.eqb (snd a) i); auto. unfold close_handle. rewrite app_w_len; auto.
Qed.

Lemma Inv_save_verified b s : Inv s -> goodS s b -> Inv (save_verified kd b s).
Proof.
  intros I G. unfold save_verified. destruct (s_verified s); auto. destruct (writeable kd s); auto.
  destruct I as (I1 & I2 & I3 & I4 & I5 & I6 & I7). unfold Inv, goodS in *; simpl. repeat split; auto.
  - intros b' Hin. apply in_app_or in Hin. destruct Hin as [Hin|[Hin|[]]]; auto. inversion Hin; subst; auto.
  - intros Hq. apply I7.
    destruct Hq as [Hq|[Hq|Hq]]; apply in_app_or in Hq; destruct Hq as [Hq|[Hq|[]]]; auto; discriminate.
Qed.

(* a queued writer_finished_callback that carries a result carries one of the CURRENT length *)
Definition Qok (s : state) : Prop :=
  forall i w b, In (QWfc i) (s_q s) -> nth_error (s_ws s) i = Some w -> w_fut w = FOk b -> goodS s b.

Lemma Qok_init : Qok init.
Proof. intros i w b []. Qed.

Lemma Qok_grow s s' : s_ws s' = s_ws s -> s_len s' = s_len s ->
  (forall i, In (QWfc i) (s_q s') -> In (QWfc i) (s_q s)) -> Qok s -> Qok s'.
Proof.
  intros E1 E2 Q K i w b Hq Hn Ef. rewrite E1 in Hn. destruct (K i w b (Q i Hq) Hn Ef) as (L & X).
  exists L. rewrite E2. auto.
Qed.

Lemma Qok_app_w g j s : wtrans (s_len s) g -> Forall (w_ok (s_len s)) (s_ws s) -> Qok s -> Qok (app_w g j s).
Proof.
  intros Wt F K. unfold app_w. destruct (nth_error (s_ws s) j) eqn:Hj; auto.
  destruct (g w) as [w' fl] eqn:Eg. assert (Ew : w' = fst (g w)) by (rewrite Eg; auto).
  pose proof (Forall_nth _ _ _ _ F Hj) as Wok.
  intros i x b Hq Hn Ef. unfold goodS. simpl in *.
  apply nth_error_upd_cases in Hn. destruct Hn as [(-> & -> & _)|(Hne & Hn)].
  - destruct (fut_done (w_fut w)) eqn:D.
    + (* already done: same future, and its callback was queued before *)
      pose proof (wt_fire _ _ Wt w) as Fi. rewrite Eg in Fi. simpl in Fi.
      destruct fl. { destruct (Fi eq_refl) as (P & _). rewrite P in D. discriminate. }
      simpl in Hq. rewrite app_nil_r in Hq.
      pose proof (wt_nofire _ _ Wt w) as Nf. rewrite Eg in Nf. simpl in Nf. rewrite Nf in Ef by auto.
      apply (K j w b); auto.
    + apply fut_done_false in D. rewrite Ew in Ef.
      destruct (wt_newok _ _ Wt w b Wok D Ef) as (L & E1 & E2). exists L. split; auto. split; auto.
      destruct (wt_ok _ _ Wt w Wok) as (A & _). apply A; auto.
  - apply in_app_or in Hq. destruct Hq as [Hq|Hq]; [apply (K i x b); auto|].
    destruct fl; simpl in Hq; [|tauto]. destruct Hq as [Hq|[Hq|[Hq|[]]]]; try discriminate.
    inversion Hq; subst. contradiction.
Qed.

Lemma Forall_ok_app_w g j s : wtrans (s_len s) g -> Forall (w_ok (s_len s)) (s_ws s) ->
  Forall (w_ok (s_len (app_w g j s))) (s_ws (app_w g j s)).
Proof.
  intros Wt F. rewrite app_w_len. unfold app_w. destruct (nth_error (s_ws s) j) eqn:Hj; auto.
  destruct (g w) as [w' fl] eqn:Eg. simpl. apply Forall_upd; auto.
  replace w' with (fst (g w)) by (rewrite Eg; auto). apply (wt_ok _ _ Wt). eapply Forall_nth; eauto.
Qed.

Lemma Qok_fold {A} (g : A -> state -> state) l s :
  (forall x st, Forall (w_ok (s_len st)) (s_ws st) -> Qok st ->
                Forall (w_ok (s_len (g x st))) (s_ws (g x st)) /\ Qok (g x st)) ->
  Forall (w_ok (s_len s)) (s_ws s) -> Qok s ->
  Forall (w_ok (s_len (fold_right g s l))) (s_ws (fold_right g s l)) /\ Qok (fold_right g s l).
Proof. intros Hg F K. induction l; simpl; auto. destruct IHl. apply Hg; auto. Qed.

Lemma Qok_close_others i s : Forall (w_ok (s_len s)) (s_ws s) -> Qok s -> Qok (close_others i s).
Proof.
  intros I2 K. unfold close_others.
  eapply Qok_grow; [reflexivity|reflexivity|auto|].
  apply Qok_fold; auto. intros x st F Kt. destruct (Nat.eqb (snd x) i); auto.
  split; [apply Forall_ok_app_w|apply Qok_app_w]; auto; apply wtrans_close.
Qed.

Lemma Qok_close_blob s : Inv s -> Qok s -> Qok (close_blob s).
Proof.
  intros (_ & I2 & _) K. unfold close_blob.
  eapply Qok_grow; [reflexivity|reflexivity|auto|].
  apply Qok_fold; auto. intros x st F Kt.
  split; [apply Forall_ok_app_w|apply Qok_app_w]; auto; apply wtrans_cancel.
Qed.

Lemma in_done_cbs_task b : ~ In (QTask b) (done_cbs cb).
Proof. unfold done_cbs. destruct cb; simpl; intuition discriminate. Qed.

Definition harmless (it : qitem) : Prop :=
  match it with QTask _ | QUpdate | QWakeup | QSetState => False | _ => True end.

Lemma Inv_enq l s : Forall harmless l -> Inv s -> Inv (enq l s).
Proof.
  intros Hl (I1 & I2 & I3 & I4 & I5 & I6 & I7). rewrite Forall_forall in Hl.
  unfold Inv, goodS, enq in *; simpl. repeat split; auto.
  - intros b Hin. apply in_app_or in Hin. destruct Hin as [Hin|Hin]; auto. exfalso. apply (Hl _ Hin).
  - intros Hq. apply I7.
    destruct Hq as [Hq|[Hq|Hq]]; apply in_app_or in Hq; destruct Hq as [Hq|Hq]; auto; exfalso; apply (Hl _ Hq).
Qed.

Lemma Inv_set_writing v s : Inv s -> Inv (set_writing v s).
Proof. unfold Inv, goodS; simpl; auto. Qed.

Lemma Inv_run_item it r s : Inv s -> Qok s -> s_q s = it :: r -> Inv (run_item kd cb it (set_q r s)).
Proof.
  intros I K Eq.
  assert (I0 : Inv (set_q r s)).
  { destruct I as (I1 & I2 & I3 & I4 & I5 & I6 & I7). unfold Inv, goodS in *; simpl. rewrite Eq in *.
    repeat split; auto.
    - intros b Hb. apply I3. right; auto.
    - intros Hq. apply I7. simpl. tauto. }
  destruct it; simpl.
  - apply Inv_app_w; auto. apply wtrans_close.
  - apply Inv_set_map; auto.
  - destruct (nth_error (s_ws s) i) eqn:Hn; auto. destruct (w_fut w) eqn:Ef; auto.
    apply Inv_save_verified. apply Inv_close_others; auto.
    destruct (K i w b) as (L & E1 & E2 & E3); auto. rewrite Eq; left; auto.
    exists L. rewrite close_others_len. simpl. auto.
  - assert (G : goodS s b). { destruct I as (_ & _ & I3 & _). apply I3. rewrite Eq; left; auto. }
    destruct I0 as (I1 & I2 & I3 & I4 & I5 & I6 & I7). destruct kd.
    + unfold Inv, goodS in *; simpl in *. repeat split; auto. intros b' E. inversion E; subst; auto.
    + change (s_store (set_q r s)) with (s_store s). destruct (s_store s) eqn:Es.
      * apply Inv_enq; [unfold fail_cbs; destruct cb; repeat constructor|].
        unfold Inv, goodS in *; simpl in *. repeat split; auto.
      * unfold Inv, goodS, enq in *; simpl in *; rewrite ?Es in *. repeat split; auto; try discriminate.
        -- intros b' Hin. apply in_app_or in Hin. destruct Hin as [Hin|Hin]; auto.
           exfalso; eapply in_done_cbs_task; eauto.
        -- intros b' E. inversion E; subst; auto.
  - destruct I as (_ & _ & _ & _ & _ & _ & I7). assert (Sn : s_store s <> None) by (apply I7; rewrite Eq; simpl; auto).
    destruct I0 as (I1 & I2 & I3 & I4 & I5 & I6 & _). unfold Inv, goodS, enq in *; simpl in *. repeat split; auto.
    intros b' Hin. apply in_app_or in Hin. destruct Hin as [Hin|Hin]; auto.
    simpl in Hin. intuition discriminate.
  - auto.
  - destruct I as (_ & _ & _ & _ & _ & _ & I7). assert (Sn : s_store s <> None) by (apply I7; rewrite Eq; simpl; auto).
    destruct I0 as (I1 & I2 & I3 & I4 & I5 & I6 & _). unfold Inv, goodS, enq in *; simpl in *. repeat split; auto.
    intros b' Hin. apply in_app_or in Hin. destruct Hin as [Hin|Hin]; auto.
    exfalso; eapply in_done_cbs_task; eauto.
  - destruct I as (_ & _ & _ & _ & _ & _ & I7). assert (Sn : s_store s <> None) by (apply I7; rewrite Eq; simpl; auto).
    destruct I0 as (I1 & I2 & I3 & I4 & I5 & I6 & I7'). unfold Inv, goodS in *; simpl in *. repeat split; auto.
  - destruct I0 as (I1 & I2 & I3 & I4 & I5 & I6 & I7'). unfold Inv, goodS in *; simpl in *. repeat split; auto.
  - apply Inv_enq; auto. repeat constructor.
  - apply Inv_enq; auto. unfold fail_cbs; destruct cb; repeat constructor.
  - apply Inv_set_writing; auto.
Qed.

Lemma Qok_save_verified b s : Qok s -> Qok (save_verified kd b s).
Proof.
  intros K. unfold save_verified. destruct (s_verified s); auto. destruct (writeable kd s); auto.
  eapply Qok_grow; [| | |exact K]; auto. simpl. intros i Hq. apply in_app_or in Hq.
  destruct Hq as [Hq|Hq]; auto. simpl in Hq; intuition discriminate.
Qed.

Lemma Qok_enq l s : (forall i, ~ In (QWfc i) l) -> Qok s -> Qok (enq l s).
Proof.
  intros Hl K. eapply Qok_grow; [| | |exact K]; auto. simpl. intros i Hq. apply in_app_or in Hq.
  destruct Hq as [Hq|Hq]; auto. exfalso; eapply Hl; eauto.
Qed.

Lemma done_cbs_no_wfc i : ~ In (QWfc i) (done_cbs cb).
Proof. unfold done_cbs. destruct cb; simpl; intuition discriminate. Qed.

Lemma fail_cbs_no_wfc i : ~ In (QWfc i) (fail_cbs cb).
Proof. unfold fail_cbs. destruct cb; simpl; intuition discriminate. Qed.

Lemma Qok_run_item it r s : Inv s -> Qok s -> s_q s = it :: r -> Qok (run_item kd cb it (set_q r s)).
Proof.
  intros I K Eq.
  assert (K0 : Qok (set_q r s)).
  { eapply Qok_grow; [| | |exact K]; auto. simpl. intros i Hq. rewrite Eq; right; auto. }
  assert (F0 : Forall (w_ok (s_len (set_q r s))) (s_ws (set_q r s))) by (destruct I as (_ & I2 & _); exact I2).
  destruct it; simpl.
  - apply Qok_app_w; auto. apply wtrans_close.
  - eapply Qok_grow; [| | |exact K0]; auto.
  - change (s_ws (set_q r s)) with (s_ws s). destruct (nth_error (s_ws s) i); auto. destruct (w_fut w); auto.
    apply Qok_save_verified. apply Qok_close_others; auto.
  - destruct kd. eapply Qok_grow; [| | |exact K0]; auto.
    change (s_store (set_q r s)) with (s_store s).
    destruct (s_store s); apply Qok_enq; try apply done_cbs_no_wfc; try apply fail_cbs_no_wfc; auto.
  - apply Qok_enq; auto. intros i Hq. simpl in Hq; intuition discriminate.
  - auto.
  - apply Qok_enq; auto. apply done_cbs_no_wfc.
  - eapply Qok_grow; [| | |exact K0]; auto.
  - eapply Qok_grow; [| | |exact K0]; auto.
  - apply Qok_enq; auto. intros i Hq. simpl in Hq; intuition discriminate.
  - apply Qok_enq; auto. apply fail_cbs_no_wfc.
  - eapply Qok_grow; [| | |exact K0]; auto.
Qed.

Lemma IK_step1 s : Inv s -> Qok s -> Inv (step1 kd cb s) /\ Qok (step1 kd cb s).
Proof.
  intros I K. unfold step1. destruct (s_q s) eqn:Eq; auto. split.
  apply Inv_run_item; auto. apply Qok_run_item; auto.
Qed.

Lemma IK_iter n s : Inv s -> Qok s -> Inv (iter kd cb n s) /\ Qok (iter kd cb n s).
Proof. revert s; induction n; simpl; auto. intros s I K. destruct (IK_step1 s I K). apply IHn; auto. Qed.

Lemma Inv_iter n s : Inv s -> Qok s -> Inv (iter kd cb n s).
Proof. intros I K. apply IK_iter; auto. Qed.

Lemma Inv_io_done s : Inv s -> Inv (io_done s).
Proof.
  intros I. unfold io_done. destruct (s_io s) eqn:Ei; auto.
  destruct I as (I1 & I2 & I3 & I4 & I5 & I6 & I7). unfold Inv, goodS, enq in *; simpl in *.
  repeat split; auto; try discriminate.
  - intros b' Hin. apply in_app_or in Hin. destruct Hin as [Hin|Hin]; auto. simpl in Hin; intuition discriminate.
  - intros b' E. inversion E; subst; auto.
Qed.

Lemma Inv_write i d s : Inv s -> Inv (fst (write H h i d s)).
Proof.
  intros I. unfold write. destruct (nth_error (s_ws s) i); simpl; auto.
  apply Inv_app_w; auto. apply wtrans_write.
Qed.

Notation step := (step H h kd cb).
Notation run := (run H h kd cb).

(* the operations other than the two resets (a consuming read, delete()) *)
Definition core_op (o : op) : Prop := match o with Read | Delete | IoFail => False | _ => True end.
Definition core_ops (ops : list op) : Prop := Forall core_op ops.

Lemma Inv_step_core o s : core_op o -> Inv s -> Qok s -> Inv (fst (step o s)).
Proof.
  intros Co I K. destruct o; simpl in *; try contradiction.
  - apply Inv_set_length; auto.
  - apply Inv_open; auto.
  - apply Inv_write; auto.
  - apply Inv_app_w; auto. apply wtrans_close.
  - apply Inv_close_blob; auto.
  - apply Inv_iter; auto.
  - apply Inv_iter; auto.
  - apply Inv_io_done; auto.
  - simpl; auto.
  - simpl; auto.
  - simpl; auto.
Qed.

Lemma Qok_step_core o s : core_op o -> Inv s -> Qok s -> Qok (fst (step o s)).
Proof.
  intros Co I K. assert (I2 := I). destruct I2 as (_ & I2 & _).
  destruct o; simpl in *; try contradiction.
  - unfold set_length. destruct (s_len s) eqn:El; auto.
    destruct ((0 <=? n)%Z && (n <=? Z.of_N MAX_BLOB_SIZE)%Z); auto.
    intros i w b Hq Hn Ef. simpl in *. destruct (K i w b Hq Hn Ef) as (L & X & _). congruence.
  - unfold open_writer. destruct (file_exists kd s); simpl; auto.
    match goal with |- context [if ?c then _ else _] => destruct c end; simpl; auto.
    intros i w b Hq Hn Ef. simpl in *. destruct (Nat.lt_ge_cases i (length (s_ws s))) as [Hi|Hi].
    + rewrite nth_error_app1 in Hn by auto. apply (K i w b); auto.
    + rewrite nth_error_app2 in Hn by auto. destruct (i - length (s_ws s))%nat as [|n0]; simpl in Hn.
      * inversion Hn; subst w. discriminate.
      * destruct n0; discriminate.
  - unfold write. destruct (nth_error (s_ws s) i); simpl; auto. apply Qok_app_w; auto. apply wtrans_write.
  - apply Qok_app_w; auto. apply wtrans_close.
  - apply Qok_close_blob; auto.
  - apply IK_iter; auto.
  - apply IK_iter; auto.
  - unfold io_done. destruct (s_io s); auto. apply Qok_enq.
    intros i Hq. simpl in Hq; intuition discriminate.
    eapply Qok_grow; [| | |exact K]; auto.
  - simpl; auto.
  - simpl; auto.
  - simpl; auto.
Qed.

(* ------------------------------------------------------------------------------------------ *)
(* the accepted length                                                                        *)
(* ------------------------------------------------------------------------------------------ *)
Lemma fold_len {A} (g : A -> state -> state) l s :
  (forall x st, s_len (g x st) = s_len st) -> s_len (fold_right g s l) = s_len s.
Proof. intros Hg. induction l; simpl; auto. rewrite Hg; auto. Qed.

Lemma close_blob_len s : s_len (close_blob s) = s_len s.
Proof. unfold close_blob; simpl. apply fold_len. intros; apply app_w_len. Qed.

Lemma save_verified_len b s : s_len (save_verified kd b s) = s_len s.
Proof. unfold save_verified. destruct (s_verified s); auto. destruct (writeable kd s); auto. Qed.

Lemma run_item_len it s : s_len (run_item kd cb it s) = s_len s.
Proof.
  destruct it; simpl; auto.
  - apply app_w_len.
  - destruct (nth_error (s_ws s) i); auto. destruct (w_fut w); auto.
    rewrite save_verified_len. apply close_others_len.
  - destruct kd; auto. destruct (s_store s); auto.
Qed.

Lemma step1_len s : s_len (step1 kd cb s) = s_len s.
Proof. unfold step1. destruct (s_q s); auto. rewrite run_item_len. auto. Qed.

Lemma iter_len n s : s_len (iter kd cb n s) = s_len s.
Proof. revert s; induction n; simpl; auto. intros. rewrite IHn. apply step1_len. Qed.

Lemma step_len_other o s : (forall n, o <> SetLength n) -> o <> Delete -> s_len (fst (step o s)) = s_len s.
Proof.
  intros Hno Hnd. destruct o; simpl.
  - exfalso; eapply Hno; eauto.
  - unfold open_writer. destruct (file_exists kd s); auto.
    match goal with |- context [if ?c then _ else _] => destruct c end; auto.
  - unfold write. destruct (nth_error (s_ws s) i); auto. simpl. apply app_w_len.
  - apply app_w_len.
  - apply close_blob_len.
  - apply iter_len.
  - apply iter_len.
  - unfold io_done. destruct (s_io s); auto.
  - unfold read_blob. destruct (s_verified s); auto. destruct (s_store s); auto. destruct kd; auto.
  - contradiction.
  - simpl; auto.
  - simpl; auto.
  - simpl; auto.
  - unfold io_fail. destruct (s_io s); auto.
Qed.

(* an accepted length changes by nothing but delete() *)
Lemma step_len_kept o s L : o <> Delete -> s_len s = Some L -> s_len (fst (step o s)) = Some L.
Proof.
  intros Hnd E. destruct o; try (rewrite step_len_other; [auto|intros; discriminate|auto]).
  simpl. unfold set_length. rewrite E. auto.
Qed.

Definition no_delete (ops : list op) : Prop := Forall (fun o => o <> Delete) ops.

Lemma run_len_kept ops s L : no_delete ops -> s_len s = Some L -> s_len (run ops s) = Some L.
Proof.
  revert s; induction ops; simpl; auto. intros s Nd E. inversion Nd; subst.
  apply IHops; auto. apply step_len_kept; auto.
Qed.

Lemma run_app ops1 ops2 s : run (ops1 ++ ops2) s = run ops2 (run ops1 s).
Proof. unfold C01.run. apply fold_left_app. Qed.

Lemma core_no_delete ops : core_ops ops -> no_delete ops.
Proof. intros F. eapply Forall_impl; [|exact F]. intros o Co ->. exact Co. Qed.

(* a length outside 0..2^21 is refused, whatever the state *)
Lemma set_length_refused n s : (n < 0 \/ Z.of_N MAX_BLOB_SIZE < n)%Z -> set_length n s = s.
Proof.
  intros Hn. unfold set_length. destruct (s_len s); auto.
  destruct (Z.leb_spec 0 n); destruct (Z.leb_spec n (Z.of_N MAX_BLOB_SIZE)); simpl; auto; lia.
Qed.

(* a length inside the range is accepted exactly when none was accepted before *)
Lemma set_length_accepted n s : (0 <= n <= Z.of_N MAX_BLOB_SIZE)%Z -> s_len s = None ->
  s_len (set_length n s) = Some (Z.to_N n).
Proof.
  intros Hn E. unfold set_length. rewrite E.
  destruct (Z.leb_spec 0 n); destruct (Z.leb_spec n (Z.of_N MAX_BLOB_SIZE)); simpl; auto; lia.
Qed.

(* ------------------------------------------------------------------------------------------ *)
(* exact outcome of a write on a live writer; chunking                                        *)
(* ------------------------------------------------------------------------------------------ *)
Definition live (L : N) (w : writer) : Prop :=
  w_open w = true /\ w_fut w = FPending /\ w_seen w = w_buf w /\ L <> 0%N.

(* the writer after a live writer whose buffer holds [buf] has received bytes making the total [t] *)
Definition live_result (L : N) (k : N) (buf t : bytes) : writer * bool * res :=
  if (L <? N.of_nat (length t))%N then (mkW k false buf t FErrLen, true, ROk)
  else if (N.of_nat (length t) =? L)%N then
    (if bytes_eqb (H t) h then (mkW k false t t (FOk t), true, ROk) else (mkW k false t t FErrHash, true, ROk))
  else (mkW k true t t FPending, false, ROk).

Lemma wr_write_live L w d : live L w ->
  wr_write (Some L) w d = live_result L (w_key w) (w_buf w) (w_buf w ++ d).
Proof.
  intros (O & P & S & Hne). unfold C01.wr_write, live_result. rewrite O, P, S. simpl.
  destruct (N.eqb_spec L 0); [contradiction|]. auto.
Qed.

Lemma writer_write_exact L w d : live L w ->
  let t := w_buf w ++ d in
  let w' := fst (fst (wr_write (Some L) w d)) in
  ((N.of_nat (length t) < L)%N -> w' = mkW (w_key w) true t t FPending)
  /\ (N.of_nat (length t) = L -> H t = h -> w' = mkW (w_key w) false t t (FOk t))
  /\ (N.of_nat (length t) = L -> H t <> h -> w' = mkW (w_key w) false t t FErrHash)
  /\ ((L < N.of_nat (length t))%N -> w' = mkW (w_key w) false (w_buf w) t FErrLen)
  /\ (forall b, w_fut w' = FOk b <-> b = t /\ N.of_nat (length t) = L /\ H t = h)
  /\ snd (wr_write (Some L) w d) = ROk.
Proof.
  intros Lv t w'. unfold w'. rewrite wr_write_live by auto. fold t. unfold live_result.
  destruct (N.ltb_spec L (N.of_nat (length t))); simpl.
  { repeat split; auto; try lia; try discriminate. }
  destruct (N.eqb_spec (N.of_nat (length t)) L); simpl.
  - destruct (bytes_eqb (H t) h) eqn:E; simpl.
    + apply bytes_eqb_eq in E. repeat split; auto; try lia; try congruence. intros (-> & _); auto.
    + apply bytes_eqb_neq in E. repeat split; auto; try lia; try congruence; try discriminate. intros (_ & _ & X); contradiction.
  - repeat split; auto; try lia; try congruence; try discriminate; try (intros (_ & X & _); contradiction).
Qed.

(* a write never stores anything by itself: only writer i and the ready queue change *)
Lemma write_frame i d s :
  let s' := fst (write H h i d s) in
  s_store s' = s_store s /\ s_io s' = s_io s /\ s_verified s' = s_verified s /\ s_writing s' = s_writing s
  /\ s_completed s' = s_completed s /\ s_len s' = s_len s /\ s_map s' = s_map s
  /\ (forall b, In (QTask b) (s_q s') -> In (QTask b) (s_q s)).
Proof.
  unfold write, app_w. destruct (nth_error (s_ws s) i); simpl; [|tauto].
  destruct (wr_write (s_len s) w d) as [[w' fl] r]; simpl. repeat split; auto.
  intros b Hin. apply in_app_or in Hin. destruct Hin; auto. exfalso; eapply in_fire_task; eauto.
Qed.

Fixpoint feed (len : option N) (w : writer) (cs : list bytes) : writer :=
  match cs with [] => w | c :: r => feed len (fst (fst (wr_write len w c))) r end.

Lemma feed_dead L w cs : w_open w = false -> fut_done (w_fut w) = true -> feed (Some L) w cs = w.
Proof.
  intros O D. induction cs; simpl; auto.
  unfold C01.wr_write. destruct (L =? 0)%N; simpl; auto. rewrite O, D. simpl. auto.
Qed.

Lemma live_result_short L k buf t : (N.of_nat (length t) < L)%N ->
  live_result L k buf t = (mkW k true t t FPending, false, ROk).
Proof.
  intros Hl. unfold live_result.
  destruct (N.ltb_spec L (N.of_nat (length t))); [lia|].
  destruct (N.eqb_spec (N.of_nat (length t)) L); [lia|]. auto.
Qed.

Lemma live_result_buf L k buf buf' t : (N.of_nat (length t) <= L)%N ->
  live_result L k buf t = live_result L k buf' t.
Proof.
  intros Hl. unfold live_result. destruct (N.ltb_spec L (N.of_nat (length t))); [lia|]. auto.
Qed.

Lemma feed_concat L w cs : live L w -> (N.of_nat (length (w_buf w)) < L)%N ->
  (N.of_nat (length (w_buf w ++ concat cs)) <= L)%N ->
  feed (Some L) w cs = fst (fst (wr_write (Some L) w (concat cs))).
Proof.
  revert w. induction cs as [|c r IH]; intros w Lv Hlt Hle.
  - cbn [feed concat]. rewrite wr_write_live by auto. rewrite app_nil_r.
    rewrite live_result_short by auto. simpl.
    destruct Lv as (O & P & S & _). destruct w; simpl in *. congruence.
  - cbn [feed concat]. rewrite !wr_write_live by auto. rewrite app_assoc.
    set (t := w_buf w ++ c) in *.
    assert (Hl : (N.of_nat (length (t ++ concat r)) <= L)%N).
    { unfold t. rewrite <- app_assoc. exact Hle. }
    assert (Hl' := Hl). rewrite app_length in Hl'.
    destruct (N.eq_dec (N.of_nat (length t)) L) as [El|Hn].
    + (* complete at this chunk: everything that follows is empty *)
      assert (Er : concat r = []) by (apply length_zero_iff_nil; lia).
      rewrite Er, app_nil_r. unfold live_result.
      destruct (N.ltb_spec L (N.of_nat (length t))); [lia|].
      destruct (N.eqb_spec (N.of_nat (length t)) L); [|contradiction].
      destruct (bytes_eqb (H t) h); simpl; apply feed_dead; auto.
    + rewrite (live_result_short L (w_key w) (w_buf w) t) by lia. cbn [fst].
      destruct Lv as (_ & _ & _ & X).
      rewrite IH.
      * rewrite wr_write_live by (repeat split; auto). cbn [w_key w_buf].
        rewrite (live_result_buf L (w_key w) t (w_buf w)); auto.
      * repeat split; auto.
      * simpl. lia.
      * simpl. exact Hl.
Qed.

Lemma chunking_irrelevant L w cs1 cs2 : live L w -> (N.of_nat (length (w_buf w)) < L)%N ->
  concat cs1 = concat cs2 -> (N.of_nat (length (w_buf w ++ concat cs1)) <= L)%N ->
  feed (Some L) w cs1 = feed (Some L) w cs2.
Proof.
  intros Lv Hlt E Hle. rewrite !feed_concat; auto; congruence.
Qed.

(* the state-level run of the chunk writes on writer i computes exactly [feed] *)
Lemma run_writes_feed i cs : forall s w, nth_error (s_ws s) i = Some w ->
  nth_error (s_ws (run (map (Write i) cs) s)) i = Some (feed (s_len s) w cs).
Proof.
  induction cs as [|c r IH]; intros s w Hn; simpl; auto.
  assert (E : fst (write H h i c s) = app_w (fun x => fst (wr_write (s_len s) x c)) i s).
  { unfold write. rewrite Hn. auto. }
  rewrite E. erewrite IH.
  - rewrite app_w_len. reflexivity.
  - unfold app_w. rewrite Hn. destruct (fst (wr_write (s_len s) w c)) as [w' fl] eqn:Ew. simpl.
    erewrite nth_error_upd_eq by eauto. reflexivity.
Qed.

(* ------------------------------------------------------------------------------------------ *)
(* control-neutral transitions: only writers, the map and plain callbacks change              *)
(* ------------------------------------------------------------------------------------------ *)
Definition plain (it : qitem) : Prop :=
  match it with QClose _ | QRemove _ _ | QWfc _ | QNop => True | _ => False end.

Definition same_ctl (s s' : state) : Prop :=
  s_writing s' = s_writing s /\ s_verified s' = s_verified s /\ s_io s' = s_io s
  /\ s_store s' = s_store s /\ s_completed s' = s_completed s /\ s_len s' = s_len s
  /\ exists l, s_q s' = s_q s ++ l /\ Forall plain l.

Lemma same_ctl_refl s : same_ctl s s.
Proof. unfold same_ctl; repeat split; auto. exists []; rewrite app_nil_r; auto. Qed.

Lemma same_ctl_trans s1 s2 s3 : same_ctl s1 s2 -> same_ctl s2 s3 -> same_ctl s1 s3.
Proof.
  intros (A1 & A2 & A3 & A4 & A5 & A6 & l1 & A7 & A8) (B1 & B2 & B3 & B4 & B5 & B6 & l2 & B7 & B8).
  unfold same_ctl; repeat split; try congruence.
  exists (l1 ++ l2). split. rewrite B7, A7, app_assoc; auto. apply Forall_app; auto.
Qed.

Lemma plain_fire i w fl : Forall plain (fire i w fl).
Proof. destruct fl; simpl; repeat constructor. Qed.

Lemma plain_no_task l x : Forall plain l -> ~ In (QTask x) l.
Proof. intros F Hin. rewrite Forall_forall in F. apply (F _ Hin). Qed.

Lemma same_ctl_app_w f i s : same_ctl s (app_w f i s).
Proof.
  unfold app_w. destruct (nth_error (s_ws s) i); [|apply same_ctl_refl].
  destruct (f w) as [w' fl]. unfold same_ctl; simpl; repeat split; auto.
  eexists; split; eauto. apply plain_fire.
Qed.

Lemma same_ctl_set_map m s : same_ctl s (set_map m s).
Proof. unfold same_ctl; simpl; repeat split; auto. exists []; rewrite app_nil_r; auto. Qed.

Lemma same_ctl_fold {A} (g : A -> state -> state) l s :
  (forall x st, same_ctl st (g x st)) -> same_ctl s (fold_right g s l).
Proof.
  intros Hg. induction l; simpl. apply same_ctl_refl. eapply same_ctl_trans; eauto.
Qed.

Lemma same_ctl_close_blob s : same_ctl s (close_blob s).
Proof.
  unfold close_blob. eapply same_ctl_trans; [|apply same_ctl_set_map].
  apply same_ctl_fold. intros; apply same_ctl_app_w.
Qed.

Lemma same_ctl_close_others i s : same_ctl s (close_others i s).
Proof.
  unfold close_others. eapply same_ctl_trans; [|apply same_ctl_set_map].
  apply same_ctl_fold. intros x st. destruct (Nat.eqb (snd x) i). apply same_ctl_refl. apply same_ctl_app_w.
Qed.

Lemma same_ctl_open k s : same_ctl s (fst (open_writer kd k s)).
Proof.
  unfold open_writer. destruct (file_exists kd s); simpl; [apply same_ctl_refl|].
  match goal with |- context [if ?c then _ else _] => destruct c end; simpl; [apply same_ctl_refl|].
  unfold same_ctl; simpl; repeat split; auto. exists []; rewrite app_nil_r; auto.
Qed.

Lemma same_ctl_write i d s : same_ctl s (fst (write H h i d s)).
Proof.
  unfold write. destruct (nth_error (s_ws s) i); simpl; [|apply same_ctl_refl]. apply same_ctl_app_w.
Qed.

Lemma same_ctl_set_length n s : s_len s <> None -> same_ctl s (set_length n s).
Proof. intros Hn. unfold set_length. destruct (s_len s); [apply same_ctl_refl|contradiction]. Qed.

(* ------------------------------------------------------------------------------------------ *)
(* counting invariant: at most one save in flight, completion callback at most once           *)
(* ------------------------------------------------------------------------------------------ *)
Definition is_task it := match it with QTask _ => true | _ => false end.
Definition is_ss it := match it with QSetState | QSetStateF => true | _ => false end.
Definition is_wk it := match it with QWakeup | QWakeupF => true | _ => false end.
Definition is_up it := match it with QUpdate | QUpdateF => true | _ => false end.
Definition is_cp it := match it with QCompleted => true | _ => false end.
Definition cnt (p : qitem -> bool) (q : list qitem) : nat := length (filter p q).
Definition stage_q q := (cnt is_task q + cnt is_ss q + cnt is_wk q + cnt is_up q)%nat.
Definition b2n (b : bool) : nat := if b then 1 else 0.
Definition io01 (s : state) : nat := match s_io s with Some _ => 1 | None => 0 end.

Arguments cnt : simpl never.
Arguments stage_q : simpl never.

Lemma cnt_app p a b : cnt p (a ++ b) = (cnt p a + cnt p b)%nat.
Proof. unfold cnt. rewrite filter_app, app_length. auto. Qed.
Lemma stage_app a b : stage_q (a ++ b) = (stage_q a + stage_q b)%nat.
Proof. unfold stage_q. rewrite !cnt_app. lia. Qed.
Lemma cnt_cons p it r : cnt p (it :: r) = (cnt p [it] + cnt p r)%nat.
Proof. apply (cnt_app p [it] r). Qed.
Lemma stage_cons it r : stage_q (it :: r) = (stage_q [it] + stage_q r)%nat.
Proof. apply (stage_app [it] r). Qed.
Lemma cnt_plain p l : Forall plain l -> (forall it, plain it -> p it = false) -> cnt p l = O.
Proof.
  intros Hl Hp. induction Hl; auto. unfold cnt in *. simpl. rewrite Hp by auto. auto.
Qed.
Lemma stage_plain l : Forall plain l -> stage_q l = O.
Proof.
  intros Hl. unfold stage_q. rewrite !cnt_plain; auto; intros []; simpl; tauto.
Qed.

Lemma cnt_zero_in p q it : cnt p q = 0%nat -> In it q -> p it = false.
Proof.
  unfold cnt. induction q; simpl; [tauto|]. intros Hc [->|Hin].
  - destruct (p it); auto. simpl in Hc. discriminate.
  - apply IHq; auto. destruct (p a); auto. simpl in Hc. discriminate.
Qed.

Lemma stage_zero_in q it : stage_q q = 0%nat -> In it q ->
  is_task it = false /\ is_ss it = false /\ is_wk it = false /\ is_up it = false.
Proof.
  unfold stage_q. intros Z Hin. repeat split; eapply cnt_zero_in; eauto; lia.
Qed.

(* a callback of the SUCCESSFUL tail of a save (the bytes are stored) is queued *)
Definition succ_in (q : list qitem) : Prop := In QSetState q \/ In QWakeup q \/ In QUpdate q.

Lemma succ_in_app_l a b : succ_in a -> succ_in (a ++ b).
Proof. intros [X|[X|X]]; [left|right; left|right; right]; apply in_or_app; auto. Qed.
Lemma succ_in_app_r a b : succ_in b -> succ_in (a ++ b).
Proof. intros [X|[X|X]]; [left|right; left|right; right]; apply in_or_app; auto. Qed.
Lemma succ_in_cons it r : succ_in (it :: r) -> it = QSetState \/ it = QWakeup \/ it = QUpdate \/ succ_in r.
Proof. unfold succ_in; simpl. intuition. Qed.
Lemma succ_in_stage q : succ_in q -> (1 <= stage_q q)%nat.
Proof.
  intros S. destruct (Nat.eq_dec (stage_q q) 0) as [Z|Z]; [|lia]. exfalso.
  destruct S as [X|[X|X]]; destruct (stage_zero_in _ _ Z X) as (A & B & C & D); discriminate.
Qed.

Definition Inv2 (s : state) : Prop :=
  (stage_q (s_q s) + io01 s = b2n (s_writing s))%nat
  /\ (s_verified s = true -> s_writing s = false)
  /\ (s_store s <> None -> s_verified s = true \/ succ_in (s_q s)).

Lemma Inv2_init : Inv2 init.
Proof. unfold Inv2, init; simpl. repeat split; auto; try congruence. Qed.

(* bytes are stored only while the blob is verified or the successful tail of its save is under way *)
Lemma stored_busy s : Inv2 s -> s_store s <> None -> s_verified s = true \/ s_writing s = true.
Proof.
  intros (I1 & I2 & I4) Hs. destruct (I4 Hs) as [V|S]; auto. right.
  pose proof (succ_in_stage _ S). destruct (s_writing s); auto. simpl in I1. lia.
Qed.

Lemma Inv2_same_ctl s s' : same_ctl s s' -> Inv2 s -> Inv2 s'.
Proof.
  intros (A1 & A2 & A3 & A4 & A5 & A6 & l & A7 & A8) (I1 & I2 & I4).
  unfold Inv2, io01. rewrite ?A1, ?A2, ?A3, ?A4, ?A7. rewrite stage_app.
  rewrite (stage_plain l) by auto.
  unfold io01 in I1. repeat split; auto; try lia.
  intros Hs. destruct (I4 Hs); auto. right. apply succ_in_app_l; auto.
Qed.

Lemma stage_done_cbs : stage_q (done_cbs cb) = 1%nat.
Proof. unfold done_cbs. destruct cb; reflexivity. Qed.

Lemma Inv2_save_verified b s : Inv2 s -> Inv2 (save_verified kd b s).
Proof.
  intros I. unfold save_verified. destruct (s_verified s) eqn:V; auto.
  destruct (writeable kd s) eqn:W; auto. destruct I as (I1 & I2 & I4).
  unfold writeable in W. apply andb_true_iff in W. destruct W as [W1 W2]. apply negb_true_iff in W1.
  unfold Inv2, io01 in *; simpl. rewrite V, W1 in *. rewrite stage_app. simpl in *.
  change (stage_q [QTask b]) with 1%nat.
  repeat split; auto; try congruence; try lia.
  intros Hs. destruct (I4 Hs); auto. right. apply succ_in_app_l; auto.
Qed.

Lemma Inv2_run_item it r s : Inv2 s -> s_q s = it :: r -> Inv2 (run_item kd cb it (set_q r s)).
Proof.
  intros (I1 & I2 & I4) Eq. rewrite Eq in *. rewrite stage_cons in I1.
  assert (St : forall n, stage_q [it] = n -> (n + stage_q r + io01 s = b2n (s_writing s))%nat) by (intros n <-; exact I1).
  assert (Wr : stage_q [it] = 1%nat -> s_writing s = true /\ s_verified s = false /\ stage_q r = 0%nat /\ s_io s = None).
  { intros E1. specialize (St _ E1). unfold io01 in St.
    destruct (s_writing s) eqn:W; simpl in St; [|lia].
    repeat split; auto; try lia.
    - destruct (s_verified s); auto; discriminate (I2 eq_refl).
    - destruct (s_io s); auto; lia. }
  (* a callback that is not part of a save: pop it *)
  assert (P : stage_q [it] = 0%nat -> Inv2 (set_q r s)).
  { intros E0. specialize (St _ E0). unfold Inv2, io01 in *; simpl. repeat split; auto.
    intros Hs. destruct (I4 Hs) as [V|S]; auto. right.
    apply succ_in_cons in S. destruct S as [->|[->|[->|S]]]; auto; discriminate. }
  destruct it; simpl.
  - eapply Inv2_same_ctl; [apply same_ctl_app_w|]. apply P; reflexivity.
  - eapply Inv2_same_ctl; [apply same_ctl_set_map|]. apply P; reflexivity.
  - assert (I0 : Inv2 (set_q r s)) by (apply P; reflexivity).
    destruct (nth_error (s_ws s) i); auto. destruct (w_fut w); auto.
    apply Inv2_save_verified. eapply Inv2_same_ctl; [apply same_ctl_close_others|]. auto.
  - (* QTask *)
    destruct (Wr eq_refl) as (W & V & Z & Io).
    destruct kd.
    + unfold Inv2, io01; simpl. rewrite W, V, Z. repeat split; auto; try congruence.
      intros Hs. destruct (I4 Hs) as [X|S]; [congruence|]. right.
      apply succ_in_cons in S. destruct S as [S|[S|[S|S]]]; auto; discriminate.
    + change (s_store (set_q r s)) with (s_store s). destruct (s_store s) eqn:Es.
      * (* bytes already there while a save starts: impossible (the blob would be verified or past this stage) *)
        exfalso. destruct I4 as [X|S]; [congruence|congruence|].
        apply succ_in_cons in S. destruct S as [S|[S|[S|S]]]; try discriminate.
        pose proof (succ_in_stage _ S). lia.
      * unfold Inv2, io01, enq; simpl. rewrite Io, W, V. rewrite stage_app, stage_done_cbs, Z.
        repeat split; auto; try congruence. intros _. right. apply succ_in_app_r. right; right. unfold done_cbs; simpl; auto.
  - (* QSetState *)
    destruct (Wr eq_refl) as (W & V & Z & Io).
    unfold Inv2, io01, enq; simpl. rewrite stage_app. rewrite W, V, Io, Z.
    change (stage_q [QNop; QWakeup]) with 1%nat.
    repeat split; auto; try congruence. intros _. right. apply succ_in_app_r. right; left; simpl; auto.
  - apply P; reflexivity.
  - (* QWakeup *)
    destruct (Wr eq_refl) as (W & V & Z & Io).
    unfold Inv2, io01, enq; simpl. rewrite W, V, Io. rewrite stage_app, stage_done_cbs, Z.
    repeat split; auto; try congruence. intros _. right. apply succ_in_app_r. right; right. unfold done_cbs; simpl; auto.
  - (* QUpdate *)
    destruct (Wr eq_refl) as (W & V & Z & Io).
    unfold Inv2, io01; simpl. rewrite Io, Z. repeat split; auto.
  - (* QCompleted *)
    apply P; reflexivity.
  - (* QSetStateF *)
    destruct (Wr eq_refl) as (W & V & Z & Io).
    unfold Inv2, io01, enq; simpl. rewrite W, V, Io. rewrite stage_app, Z.
    change (stage_q [QNop; QWakeupF]) with 1%nat.
    repeat split; auto; try congruence.
    intros Hs. destruct (I4 Hs) as [X|S]; [congruence|]. right. apply succ_in_app_l.
    apply succ_in_cons in S. destruct S as [S|[S|[S|S]]]; auto; discriminate.
  - (* QWakeupF *)
    destruct (Wr eq_refl) as (W & V & Z & Io).
    unfold Inv2, io01, enq; simpl. rewrite W, V, Io. rewrite stage_app, Z.
    replace (stage_q (fail_cbs cb)) with 1%nat by (unfold fail_cbs; destruct cb; reflexivity).
    repeat split; auto; try congruence.
    intros Hs. destruct (I4 Hs) as [X|S]; [congruence|]. right. apply succ_in_app_l.
    apply succ_in_cons in S. destruct S as [S|[S|[S|S]]]; auto; discriminate.
  - (* QUpdateF: the failed save is over, the blob is idle again *)
    destruct (Wr eq_refl) as (W & V & Z & Io).
    unfold Inv2, io01; simpl. rewrite V, Io, Z. repeat split; auto; try congruence.
    intros Hs. destruct (I4 Hs) as [X|S]; [congruence|]. right.
    apply succ_in_cons in S. destruct S as [S|[S|[S|S]]]; auto; discriminate.
Qed.

Lemma Inv2_step1 s : Inv2 s -> Inv2 (step1 kd cb s).
Proof. intros I. unfold step1. destruct (s_q s) eqn:Eq; auto. apply Inv2_run_item; auto. Qed.

Lemma Inv2_iter n s : Inv2 s -> Inv2 (iter kd cb n s).
Proof. revert s; induction n; simpl; auto. intros; apply IHn. apply Inv2_step1; auto. Qed.

Lemma Inv2_io_done s : Inv2 s -> Inv2 (io_done s).
Proof.
  intros (I1 & I2 & I4). unfold io_done. destruct (s_io s) eqn:Ei; [|repeat split; auto].
  unfold Inv2, io01, enq in *; simpl. rewrite Ei in *. rewrite stage_app.
  change (stage_q [QSetState]) with 1%nat.
  repeat split; auto; try lia. intros _. right. apply succ_in_app_r. left; simpl; auto.
Qed.

Lemma Inv2_io_fail s : Inv2 s -> Inv2 (io_fail s).
Proof.
  intros (I1 & I2 & I4). unfold io_fail. destruct (s_io s) eqn:Ei; [|repeat split; auto].
  unfold Inv2, io01, enq in *; simpl. rewrite Ei in *. rewrite stage_app.
  change (stage_q [QSetStateF]) with 1%nat.
  repeat split; auto; try lia. intros Hs. destruct (I4 Hs); auto. right. apply succ_in_app_l; auto.
Qed.

Lemma Inv2_read s : Inv2 s -> Inv2 (fst (read_blob kd s)).
Proof.
  intros I. unfold read_blob. destruct (s_verified s) eqn:V; simpl; auto.
  destruct (s_store s) eqn:Es; simpl; auto. destruct kd; auto.
  destruct I as (I1 & I2 & I4). unfold Inv2, io01 in *; simpl. repeat split; auto; try discriminate; try congruence.
Qed.

Lemma Inv2_delete s : Inv2 s -> Inv2 (fst (delete_blob s)).
Proof.
  intros I. unfold delete_blob. destruct (settled s); auto. simpl.
  assert (X : Inv2 (close_blob s)) by (eapply Inv2_same_ctl; [apply same_ctl_close_blob|auto]).
  destruct X as (I1 & I2 & I4). unfold Inv2, io01 in *; simpl in *. repeat split; auto; try discriminate; try congruence.
Qed.

Lemma task_head_no_store s b r : Inv2 s -> s_q s = QTask b :: r -> s_store s = None.
Proof.
  intros (I1 & I2 & I4) Eq. destruct (s_store s) eqn:Es; auto. exfalso.
  rewrite Eq, stage_cons in I1. change (stage_q [QTask b]) with 1%nat in I1.
  assert (W : s_writing s = true) by (destruct (s_writing s); auto; simpl in I1; lia).
  rewrite W in I1. simpl in I1.
  destruct I4 as [X|S]; [congruence|rewrite (I2 X) in W; discriminate|].
  rewrite Eq in S. apply succ_in_cons in S. destruct S as [S|[S|[S|S]]]; try discriminate.
  pose proof (succ_in_stage _ S). lia.
Qed.

Lemma Inv2_step o s : Inv2 s -> Inv2 (fst (step o s)).
Proof.
  intros I. destruct o; simpl.
  - unfold set_length. destruct (s_len s); auto.
    destruct ((0 <=? n)%Z && (n <=? Z.of_N MAX_BLOB_SIZE)%Z); auto.
  - eapply Inv2_same_ctl; [apply same_ctl_open|auto].
  - eapply Inv2_same_ctl; [apply same_ctl_write|auto].
  - eapply Inv2_same_ctl; [apply same_ctl_app_w|auto].
  - eapply Inv2_same_ctl; [apply same_ctl_close_blob|auto].
  - apply Inv2_iter; auto.
  - apply Inv2_iter; auto.
  - apply Inv2_io_done; auto.
  - apply Inv2_read; auto.
  - apply Inv2_delete; auto.
  - simpl; auto.
  - simpl; auto.
  - simpl; auto.
  - apply Inv2_io_fail; auto.
Qed.

Lemma Inv2_run ops s : Inv2 s -> Inv2 (run ops s).
Proof. revert s; induction ops; simpl; auto. intros; apply IHops. apply Inv2_step; auto. Qed.

(* ------------------------------------------------------------------------------------------ *)
(* writers only move forward: a done future keeps its value, a closed buffer stays closed     *)
(* ------------------------------------------------------------------------------------------ *)
Definition wmono (s s' : state) : Prop :=
  forall i w, nth_error (s_ws s) i = Some w ->
    exists w', nth_error (s_ws s') i = Some w' /\ w_key w' = w_key w
               /\ (fut_done (w_fut w) = true -> w_fut w' = w_fut w)
               /\ (w_open w' = true -> w_open w = true).

Lemma wmono_refl s : wmono s s.
Proof. intros i w Hn. exists w; auto. Qed.

Lemma wmono_trans s1 s2 s3 : wmono s1 s2 -> wmono s2 s3 -> wmono s1 s3.
Proof.
  intros A B i w Hn. destruct (A i w Hn) as (w2 & N2 & K2 & F2 & O2).
  destruct (B i w2 N2) as (w3 & N3 & K3 & F3 & O3). exists w3. repeat split; auto; try congruence.
  intros D. rewrite F3; auto. rewrite F2; auto.
Qed.

Lemma wtrans_done_keeps len g w : wtrans len g -> fut_done (w_fut w) = true -> w_fut (fst (g w)) = w_fut w /\ snd (g w) = false.
Proof.
  intros Wt D. destruct (snd (g w)) eqn:E.
  - destruct (wt_fire _ _ Wt w E) as (P & _). rewrite P in D. discriminate.
  - split; auto. apply (wt_nofire _ _ Wt); auto.
Qed.

Lemma wmono_app_w len g j s : wtrans len g -> wmono s (app_w g j s).
Proof.
  intros Wt i w Hn. unfold app_w. destruct (nth_error (s_ws s) j) eqn:Hj; [|exists w; auto].
  destruct (g w0) as [w' fl] eqn:Eg. simpl.
  destruct (Nat.eq_dec j i) as [->|Hne].
  - rewrite Hn in Hj. inversion Hj; subst w0. exists w'. erewrite nth_error_upd_eq by eauto.
    replace w' with (fst (g w)) by (rewrite Eg; auto). repeat split; auto.
    + apply (wt_key _ _ Wt).
    + intros D. apply (wtrans_done_keeps _ _ _ Wt D).
    + apply (wt_open _ _ Wt).
  - exists w. rewrite nth_error_upd_neq by auto. auto.
Qed.

Lemma wmono_fold {A} (g : A -> state -> state) l s :
  (forall x st, wmono st (g x st)) -> wmono s (fold_right g s l).
Proof. intros Hg. induction l; simpl. apply wmono_refl. eapply wmono_trans; eauto. Qed.

Lemma wmono_ws s s' : s_ws s' = s_ws s -> wmono s s'.
Proof. intros E i w Hn. exists w. rewrite E. auto. Qed.

Lemma wmono_close_others i s : wmono s (close_others i s).
Proof.
  unfold close_others. eapply wmono_trans; [|apply wmono_ws; reflexivity].
  apply wmono_fold. intros x st. destruct (Nat.eqb (snd x) i). apply wmono_refl.
  eapply wmono_app_w. apply (wtrans_close None).
Qed.

Lemma wmono_close_blob s : wmono s (close_blob s).
Proof.
  unfold close_blob. eapply wmono_trans; [|apply wmono_ws; reflexivity].
  apply wmono_fold. intros x st. eapply wmono_app_w. apply (wtrans_cancel None).
Qed.

Lemma save_verified_ws b s : s_ws (save_verified kd b s) = s_ws s.
Proof. unfold save_verified. destruct (s_verified s); auto. destruct (writeable kd s); auto. Qed.

Lemma wmono_run_item it s : wmono s (run_item kd cb it s).
Proof.
  destruct it; simpl; try (apply wmono_ws; reflexivity).
  - eapply wmono_app_w. apply (wtrans_close None).
  - destruct (nth_error (s_ws s) i); [|apply wmono_refl]. destruct (w_fut w); try apply wmono_refl.
    eapply wmono_trans; [apply wmono_close_others|]. apply wmono_ws. apply save_verified_ws.
  - destruct kd; [apply wmono_ws; reflexivity|]. destruct (s_store s); apply wmono_ws; reflexivity.
Qed.

Lemma wmono_step1 s : wmono s (step1 kd cb s).
Proof.
  unfold step1. destruct (s_q s); [apply wmono_refl|].
  eapply wmono_trans; [|apply wmono_run_item]. apply wmono_ws; reflexivity.
Qed.

Lemma wmono_iter n s : wmono s (iter kd cb n s).
Proof.
  revert s; induction n; simpl; intros. apply wmono_refl.
  eapply wmono_trans; [apply wmono_step1|apply IHn].
Qed.

Lemma read_frame s :
  let s' := fst (read_blob kd s) in
  s_ws s' = s_ws s /\ s_q s' = s_q s /\ s_map s' = s_map s /\ s_len s' = s_len s /\ s_io s' = s_io s
  /\ s_writing s' = s_writing s /\ s_completed s' = s_completed s.
Proof.
  unfold read_blob. destruct (s_verified s); simpl; [|tauto]. destruct (s_store s); simpl; [|tauto].
  destruct kd; simpl; tauto.
Qed.

Lemma wmono_step o s : wmono s (fst (step o s)).
Proof.
  destruct o; simpl.
  - apply wmono_ws. unfold set_length. destruct (s_len s); auto.
    destruct ((0 <=? n)%Z && (n <=? Z.of_N MAX_BLOB_SIZE)%Z); auto.
  - unfold open_writer. destruct (file_exists kd s); simpl; [apply wmono_refl|].
    match goal with |- context [if ?c then _ else _] => destruct c end; simpl; [apply wmono_refl|].
    intros i w Hn. exists w. simpl. rewrite nth_error_app1; auto. apply nth_error_Some. congruence.
  - unfold write. destruct (nth_error (s_ws s) i); simpl; [|apply wmono_refl].
    eapply wmono_app_w. apply wtrans_write.
  - eapply wmono_app_w. apply (wtrans_close None).
  - apply wmono_close_blob.
  - apply wmono_iter.
  - apply wmono_iter.
  - apply wmono_ws. unfold io_done. destruct (s_io s); auto.
  - apply wmono_ws. apply read_frame.
  - unfold delete_blob. destruct (settled s); simpl; [|apply wmono_refl].
    eapply wmono_trans; [apply wmono_close_blob|apply wmono_ws; reflexivity].
  - apply wmono_refl.
  - apply wmono_refl.
  - apply wmono_refl.
  - apply wmono_ws. unfold io_fail. destruct (s_io s); auto.
Qed.

Lemma wmono_run ops s : wmono s (run ops s).
Proof.
  revert s; induction ops; simpl; intros. apply wmono_refl.
  eapply wmono_trans; [apply wmono_step|apply IHops].
Qed.

(* the internal transitions create no writer *)
Lemma app_w_nws g j s : length (s_ws (app_w g j s)) = length (s_ws s).
Proof. unfold app_w. destruct (nth_error (s_ws s) j); auto. destruct (g w); simpl. apply upd_length. Qed.

Lemma fold_nws {A} (g : A -> state -> state) l s :
  (forall x st, length (s_ws (g x st)) = length (s_ws st)) -> length (s_ws (fold_right g s l)) = length (s_ws s).
Proof. intros Hg. induction l; simpl; auto. rewrite Hg; auto. Qed.

Lemma run_item_nws it s : length (s_ws (run_item kd cb it s)) = length (s_ws s).
Proof.
  destruct it; simpl; auto.
  - apply app_w_nws.
  - destruct (nth_error (s_ws s) i); auto. destruct (w_fut w); auto. rewrite save_verified_ws.
    unfold close_others; simpl. apply fold_nws. intros x st. destruct (Nat.eqb (snd x) i); auto. apply app_w_nws.
  - destruct kd; auto. destruct (s_store s); auto.
Qed.

Lemma step1_nws s : length (s_ws (step1 kd cb s)) = length (s_ws s).
Proof. unfold step1. destruct (s_q s); auto. rewrite run_item_nws. auto. Qed.

Lemma iter_nws n s : length (s_ws (iter kd cb n s)) = length (s_ws s).
Proof. revert s; induction n; simpl; auto. intros. rewrite IHn. apply step1_nws. Qed.

(* no writer is pending *)
Definition NP (s : state) : Prop := forall i w, nth_error (s_ws s) i = Some w -> fut_done (w_fut w) = true.

Lemma NP_mono s s' : wmono s s' -> length (s_ws s') = length (s_ws s) -> NP s -> NP s'.
Proof.
  intros M Ln Np i w' Hn.
  assert (Hi : (i < length (s_ws s))%nat) by (rewrite <- Ln; apply nth_error_Some; congruence).
  destruct (nth_error (s_ws s) i) as [w|] eqn:Hw; [|apply nth_error_None in Hw; lia].
  destruct (M i w Hw) as (w2 & N2 & _ & F2 & _). rewrite Hn in N2. inversion N2; subst w2.
  rewrite F2; eauto.
Qed.

(* ------------------------------------------------------------------------------------------ *)
(* Drain terminates: [fuel] steps empty the ready queue                                       *)
(* ------------------------------------------------------------------------------------------ *)
Lemma qweight_app a b : qweight (a ++ b) = (qweight a + qweight b)%nat.
Proof. induction a; simpl; auto. rewrite IHa. lia. Qed.

Lemma pending_upd ws i w w' : nth_error ws i = Some w ->
  (pending_count (upd i w' ws) + b2n (negb (fut_done (w_fut w))) = pending_count ws + b2n (negb (fut_done (w_fut w'))))%nat.
Proof.
  revert i; induction ws as [|a ws IH]; intros [|i] Hn; simpl in *; try discriminate.
  - inversion Hn; subst a. unfold pending_count; simpl.
    destruct (fut_done (w_fut w)); destruct (fut_done (w_fut w')); simpl; lia.
  - specialize (IH i Hn). unfold pending_count in *; simpl.
    destruct (negb (fut_done (w_fut a))); simpl; lia.
Qed.

Lemma fuel_app_w len g j s : wtrans len g -> fuel (app_w g j s) = fuel s.
Proof.
  intros Wt. unfold app_w. destruct (nth_error (s_ws s) j) eqn:Hj; auto.
  destruct (g w) as [w' fl] eqn:Eg. unfold fuel, enq; simpl. rewrite qweight_app.
  pose proof (pending_upd _ _ _ w' Hj) as P.
  destruct fl.
  - destruct (wt_fire _ _ Wt w) as (P1 & P2); [rewrite Eg; auto|]. rewrite Eg in P2; simpl in P2.
    rewrite P1, P2 in P. simpl in *. lia.
  - pose proof (wt_nofire _ _ Wt w) as P1. rewrite Eg in P1. simpl in P1. rewrite P1 in P by auto.
    simpl. lia.
Qed.

Lemma fuel_fold {A} (g : A -> state -> state) l s :
  (forall x st, fuel (g x st) = fuel st) -> fuel (fold_right g s l) = fuel s.
Proof. intros Hg. induction l; simpl; auto. rewrite Hg; auto. Qed.

Lemma fuel_close_others i s : fuel (close_others i s) = fuel s.
Proof.
  unfold close_others. change (fuel (set_map [] ?x)) with (fuel x).
  apply fuel_fold. intros x st. destruct (Nat.eqb (snd x) i); auto. eapply fuel_app_w. apply (wtrans_close None).
Qed.

Lemma fuel_save_verified b s : (fuel (save_verified kd b s) <= fuel s + 3)%nat.
Proof.
  unfold save_verified. destruct (s_verified s); [lia|]. destruct (writeable kd s); [|lia].
  unfold fuel; simpl. rewrite qweight_app. simpl. lia.
Qed.

Lemma qweight_done_cbs : (qweight (done_cbs cb) <= 2)%nat.
Proof. unfold done_cbs. destruct cb; simpl; lia. Qed.

Lemma fuel_run_item it r s : s_q s = it :: r -> (fuel (run_item kd cb it (set_q r s)) < fuel s)%nat.
Proof.
  intros Eq. assert (F0 : fuel s = (wt it + fuel (set_q r s))%nat).
  { unfold fuel. rewrite Eq. simpl. lia. }
  rewrite F0. pose proof qweight_done_cbs as Qd.
  destruct it; simpl wt; simpl run_item.
  - unfold close_handle. erewrite fuel_app_w by apply (wtrans_close None). lia.
  - change (fuel (set_map ?m ?x)) with (fuel x). lia.
  - change (s_ws (set_q r s)) with (s_ws s).
    destruct (nth_error (s_ws s) i); [|lia]. destruct (w_fut w); try lia.
    pose proof (fuel_save_verified b (close_others i (set_q r s))) as P. rewrite fuel_close_others in P. lia.
  - destruct kd.
    + change (fuel (set_io ?m ?x)) with (fuel x). lia.
    + change (s_store (set_q r s)) with (s_store s). destruct (s_store s).
      * unfold fuel, enq; simpl. rewrite qweight_app. unfold done_cbs. destruct cb; simpl; lia.
      * unfold fuel, enq; simpl. rewrite qweight_app. unfold done_cbs. destruct cb; simpl; lia.
  - unfold fuel, enq; simpl. rewrite qweight_app. simpl. lia.
  - lia.
  - unfold fuel, enq; simpl. rewrite qweight_app. unfold done_cbs. destruct cb; simpl; lia.
  - change (fuel (set_writing ?a (set_verified ?b ?x))) with (fuel x). lia.
  - change (fuel (set_completed ?a ?x)) with (fuel x). lia.
  - unfold fuel, enq; simpl. rewrite qweight_app. simpl. lia.
  - unfold fuel, enq; simpl. rewrite qweight_app. destruct cb; simpl; lia.
  - change (fuel (set_writing ?a ?x)) with (fuel x). lia.
Qed.

Lemma iter_quiet n s : s_q s = [] -> iter kd cb n s = s.
Proof. intros E. induction n; simpl; auto. unfold step1. rewrite E. auto. Qed.

Lemma iter_fuel n : forall s, (fuel s <= n)%nat -> s_q (iter kd cb n s) = [].
Proof.
  induction n; intros s Hf.
  - simpl. destruct (s_q s) as [|it r] eqn:Eq; auto. unfold fuel in Hf. rewrite Eq in Hf. simpl in Hf.
    destruct it; simpl in Hf; lia.
  - simpl. destruct (s_q s) as [|it r] eqn:Eq.
    + unfold step1. rewrite Eq. rewrite iter_quiet; auto.
    + apply IHn. unfold step1. rewrite Eq. pose proof (fuel_run_item it r s Eq). lia.
Qed.

Lemma drain_quiescent s : s_q (drain kd cb s) = [].
Proof. unfold drain. apply iter_fuel. lia. Qed.

(* ------------------------------------------------------------------------------------------ *)
(* liveness: once a writer holds a complete correct copy the blob ends up verified            *)
(* ------------------------------------------------------------------------------------------ *)
Definition won (s : state) : Prop :=
  exists i w b, In (QWfc i) (s_q s) /\ nth_error (s_ws s) i = Some w /\ w_fut w = FOk b.
Definition Live (s : state) : Prop := s_verified s = true \/ s_writing s = true \/ won s.

Lemma won_mono s s' : wmono s s' -> (forall it, In it (s_q s) -> In it (s_q s')) -> won s -> won s'.
Proof.
  intros M Q (i & w & b & A & B & C). destruct (M i w B) as (w' & N' & _ & F' & _).
  exists i, w', b. repeat split; auto. rewrite F'; auto. rewrite C; auto.
Qed.

Lemma Live_neutral s s' : same_ctl s s' -> wmono s s' -> Live s -> Live s'.
Proof.
  intros (A1 & A2 & _ & _ & _ & _ & l & A7 & _) M [V|[W|Wn]].
  - left; congruence.
  - right; left; congruence.
  - right; right. eapply won_mono; eauto. intros it Hin. rewrite A7. apply in_or_app; auto.
Qed.

Lemma run_item_verified it s : s_verified s = true -> s_verified (run_item kd cb it s) = true.
Proof.
  intros V. destruct it; simpl; auto.
  - destruct (same_ctl_app_w close_handle_w i s) as (_ & X & _). unfold close_handle. congruence.
  - destruct (nth_error (s_ws s) i); auto. destruct (w_fut w); auto.
    destruct (same_ctl_close_others i s) as (_ & X & _).
    unfold save_verified. rewrite X, V. congruence.
  - destruct kd; auto. destruct (s_store s); auto.
Qed.

Lemma save_verified_live b s :
  (s_store s <> None -> s_verified s = true \/ s_writing s = true) ->
  s_verified (save_verified kd b s) = true \/ s_writing (save_verified kd b s) = true.
Proof.
  intros E4. unfold save_verified. destruct (s_verified s) eqn:V; auto.
  destruct (writeable kd s) eqn:W; simpl; auto.
  unfold writeable in W. apply andb_false_iff in W. destruct W as [W|W].
  - apply negb_false_iff in W. auto.
  - apply negb_false_iff in W. unfold file_exists in W. destruct kd; try discriminate.
    destruct (s_store s); try discriminate. destruct E4 as [X|X]; auto; congruence.
Qed.

Lemma run_item_writing it s : it <> QUpdateF -> s_writing s = true ->
  s_writing (run_item kd cb it s) = true \/ s_verified (run_item kd cb it s) = true.
Proof.
  intros Hnf V. destruct it; simpl; auto; try contradiction.
  - destruct (same_ctl_app_w close_handle_w i s) as (X & _). unfold close_handle. left; congruence.
  - destruct (nth_error (s_ws s) i); auto. destruct (w_fut w); auto.
    destruct (same_ctl_close_others i s) as (X & _).
    unfold save_verified. destruct (s_verified (close_others i s)) eqn:Vf; auto.
    destruct (writeable kd (close_others i s)); [simpl; auto|left; congruence].
  - destruct kd; auto. destruct (s_store s); auto.
Qed.

(* no callback of a FAILED save is queued *)
Definition is_fail (it : qitem) : bool := match it with QSetStateF | QWakeupF | QUpdateF => true | _ => false end.
Definition nofail (s : state) : Prop := forall it, In it (s_q s) -> is_fail it = false.

Lemma nofail_grow s s' l : s_q s' = s_q s ++ l -> (forall it, In it l -> is_fail it = false) -> nofail s -> nofail s'.
Proof. intros Q Hl N it Hin. rewrite Q in Hin. apply in_app_or in Hin. destruct Hin; auto. Qed.

Lemma plain_not_fail l : Forall plain l -> forall it, In it l -> is_fail it = false.
Proof. intros F it Hin. rewrite Forall_forall in F. specialize (F _ Hin). destruct it; simpl in *; auto; contradiction. Qed.

Lemma nofail_same_ctl s s' : same_ctl s s' -> nofail s -> nofail s'.
Proof.
  intros (_ & _ & _ & _ & _ & _ & l & A7 & A8) N. eapply nofail_grow; eauto. apply plain_not_fail; auto.
Qed.

Lemma run_item_q it s : exists l, s_q (run_item kd cb it s) = s_q s ++ l.
Proof.
  destruct it; simpl; try (exists []; rewrite app_nil_r; reflexivity); try (eexists; reflexivity).
  - destruct (same_ctl_app_w close_handle_w i s) as (_ & _ & _ & _ & _ & _ & l & X & _). exists l; auto.
  - destruct (nth_error (s_ws s) i); [|exists []; rewrite app_nil_r; reflexivity].
    destruct (w_fut w); try (exists []; rewrite app_nil_r; reflexivity).
    destruct (same_ctl_close_others i s) as (_ & _ & _ & _ & _ & _ & l & X & _).
    unfold save_verified. destruct (s_verified (close_others i s)); [exists l; auto|].
    destruct (writeable kd (close_others i s)); [|exists l; auto].
    unfold enq, set_writing, set_q; cbn [s_q]. rewrite X. rewrite <- app_assoc. eexists; reflexivity.
  - destruct kd. exists []; rewrite app_nil_r; reflexivity.
    destruct (s_store s); simpl; eexists; reflexivity.
Qed.

Lemma nofail_sub s r : (forall it, In it r -> In it (s_q s)) -> nofail s -> nofail (set_q r s).
Proof. intros Q N it Hin. apply N. apply Q. exact Hin. Qed.

Lemma done_cbs_not_fail it : In it (done_cbs cb) -> is_fail it = false.
Proof. unfold done_cbs. destruct cb; simpl; intros [<-|[<-|[]]] || intros [<-|[]]; reflexivity. Qed.

Lemma nofail_run_item it r s : Inv2 s -> nofail s -> s_q s = it :: r -> nofail (run_item kd cb it (set_q r s)).
Proof.
  intros I2 N Eq.
  assert (N0 : nofail (set_q r s)) by (apply nofail_sub; auto; intros x Hx; rewrite Eq; right; auto).
  assert (Hh : is_fail it = false) by (apply N; rewrite Eq; left; auto).
  destruct it; simpl in *; try discriminate; auto.
  - eapply nofail_same_ctl; [apply same_ctl_app_w|auto].
  - change (s_ws (set_q r s)) with (s_ws s). destruct (nth_error (s_ws s) i); auto. destruct (w_fut w); auto.
    assert (N1 : nofail (close_others i (set_q r s))) by (eapply nofail_same_ctl; [apply same_ctl_close_others|auto]).
    unfold save_verified. destruct (s_verified _); auto. destruct (writeable _ _); auto.
    eapply nofail_grow; [reflexivity| |exact N1]. intros x [<-|[]]; reflexivity.
  - destruct kd; auto. change (s_store (set_q r s)) with (s_store s).
    rewrite (task_head_no_store s b r I2 Eq).
    eapply nofail_grow; [reflexivity|apply done_cbs_not_fail|]. exact N0.
  - eapply nofail_grow; [reflexivity| |exact N0]. intros x [<-|[<-|[]]]; reflexivity.
  - eapply nofail_grow; [reflexivity|apply done_cbs_not_fail|exact N0].
Qed.

Lemma nofail_step1 s : Inv2 s -> nofail s -> nofail (step1 kd cb s).
Proof. intros I N. unfold step1. destruct (s_q s) eqn:Eq; auto. apply nofail_run_item; auto. Qed.

Lemma nofail_iter n s : Inv2 s -> nofail s -> nofail (iter kd cb n s).
Proof. revert s; induction n; simpl; auto. intros. apply IHn. apply Inv2_step1; auto. apply nofail_step1; auto. Qed.

Lemma Live_step1 s : Inv2 s -> nofail s -> Live s -> Live (step1 kd cb s).
Proof.
  intros I2 Nf Lv. unfold step1. destruct (s_q s) as [|it r] eqn:Eq; auto.
  assert (Hh : it <> QUpdateF). { intros ->. assert (X : is_fail QUpdateF = false) by (apply Nf; rewrite Eq; left; auto). discriminate. }
  destruct Lv as [V|[W|Wn]].
  - left. apply run_item_verified; auto.
  - destruct (run_item_writing it (set_q r s)) as [X|X]; auto. right; left; auto. left; auto.
  - destruct Wn as (i & w & b & A & B & C). rewrite Eq in A. destruct A as [A|A].
    + subst it. simpl. change (s_ws (set_q r s)) with (s_ws s). rewrite B, C.
      destruct (save_verified_live b (close_others i (set_q r s))) as [X|X]; [|left; auto|right; left; auto].
      destruct (same_ctl_close_others i (set_q r s)) as (X1 & X2 & _ & X4 & _). rewrite X1, X2, X4.
      apply (stored_busy s); auto.
    + right; right. destruct (run_item_q it (set_q r s)) as (l & Q).
      eapply won_mono; [apply wmono_run_item| |exists i, w, b; repeat split; eauto].
      intros it' Hin. rewrite Q. apply in_or_app; auto.
Qed.

Lemma Live_iter n s : Inv2 s -> nofail s -> Live s -> Live (iter kd cb n s).
Proof.
  revert s; induction n; simpl; auto. intros. apply IHn. apply Inv2_step1; auto. apply nofail_step1; auto.
  apply Live_step1; auto.
Qed.

Lemma Live_io_done s : Live s -> Live (io_done s).
Proof.
  intros Lv. unfold io_done. destruct (s_io s) as [b0|]; auto.
  destruct Lv as [V|[W|(i & w & b & A & B & C)]]; [left; auto|right; left; auto|].
  right; right. exists i, w, b. simpl. repeat split; auto. apply in_or_app; auto.
Qed.

Lemma nofail_step o s : core_op o -> Inv2 s -> nofail s -> nofail (fst (step o s)).
Proof.
  intros Co I2 N. destruct o; simpl in *; try contradiction; auto.
  - unfold set_length. destruct (s_len s); auto. destruct ((0 <=? n)%Z && (n <=? Z.of_N MAX_BLOB_SIZE)%Z); auto.
  - eapply nofail_same_ctl; [apply same_ctl_open|auto].
  - eapply nofail_same_ctl; [apply same_ctl_write|auto].
  - eapply nofail_same_ctl; [apply same_ctl_app_w|auto].
  - eapply nofail_same_ctl; [apply same_ctl_close_blob|auto].
  - apply nofail_iter; auto.
  - apply nofail_iter; auto.
  - unfold io_done. destruct (s_io s); auto. eapply nofail_grow; [reflexivity| |exact N]. intros x [<-|[]]; reflexivity.
Qed.

Lemma Live_step o s : core_op o -> Inv2 s -> nofail s -> Live s -> Live (fst (step o s)).
Proof.
  intros Co I2 Nf Lv. destruct o; simpl in *; try contradiction.
  - unfold set_length. destruct (s_len s); auto.
    destruct ((0 <=? n)%Z && (n <=? Z.of_N MAX_BLOB_SIZE)%Z); auto.
  - eapply Live_neutral; [apply same_ctl_open|apply (wmono_step (Open k))|auto].
  - eapply Live_neutral; [apply same_ctl_write|apply (wmono_step (Write i d))|auto].
  - eapply Live_neutral; [apply same_ctl_app_w|apply (wmono_step (CloseW i))|auto].
  - eapply Live_neutral; [apply same_ctl_close_blob|apply wmono_close_blob|auto].
  - apply Live_iter; auto.
  - apply Live_iter; auto.
  - apply Live_io_done; auto.
  - simpl; auto.
  - simpl; auto.
  - simpl; auto.
Qed.

Lemma Live_run ops s : core_ops ops -> Inv2 s -> nofail s -> Live s -> Live (run ops s).
Proof.
  revert s; induction ops; simpl; auto. intros s Co I2 Nf Lv. inversion Co; subst.
  apply IHops; auto. apply Inv2_step; auto. apply nofail_step; auto. apply Live_step; auto.
Qed.

(* whatever happens afterwards: when nothing is left to run and no write is pending in the executor, the
   blob is verified *)
Lemma Live_quiescent s : Inv2 s -> Live s -> s_q s = [] -> s_io s = None -> s_verified s = true.
Proof.
  intros (I1 & _) [V|[W|(i & _ & _ & A & _)]] Q Io; auto.
  - unfold io01 in I1. rewrite Q, Io, W in I1. discriminate.
  - rewrite Q in A. destruct A.
Qed.

Definition Late (s : state) : Prop :=
  s_verified s = true \/ In QSetState (s_q s) \/ In QWakeup (s_q s) \/ In QUpdate (s_q s).

Lemma Late_step1 s : Late s -> Late (step1 kd cb s).
Proof.
  intros Lt. unfold step1. destruct (s_q s) as [|it r] eqn:Eq; auto.
  destruct (run_item_q it (set_q r s)) as (l & Q). simpl in Q.
  assert (K : forall x, In x r -> In x (s_q (run_item kd cb it (set_q r s)))).
  { intros x Hx. rewrite Q. apply in_or_app; auto. }
  unfold Late in *. rewrite Eq in Lt. destruct Lt as [V|[A|[A|A]]].
  - left. apply run_item_verified; auto.
  - destruct A as [A|A]; [|right; left; auto]. subst it. right; right; left. simpl. apply in_or_app; right; simpl; auto.
  - destruct A as [A|A]; [|right; right; left; auto]. subst it. right; right; right. simpl. apply in_or_app; right.
    unfold done_cbs; simpl; auto.
  - destruct A as [A|A]; [|right; right; right; auto]. subst it. left. reflexivity.
Qed.

Lemma Late_iter n s : Late s -> Late (iter kd cb n s).
Proof. revert s; induction n; simpl; auto. intros. apply IHn. apply Late_step1; auto. Qed.

Lemma Late_quiescent s : Late s -> s_q s = [] -> s_verified s = true.
Proof. intros [V|[A|[A|A]]] Q; auto; rewrite Q in A; destruct A. Qed.

Lemma iter_verified n s : s_verified s = true -> s_verified (iter kd cb n s) = true.
Proof.
  revert s; induction n; simpl; auto. intros. apply IHn. unfold step1. destruct (s_q s); auto.
  apply run_item_verified; auto.
Qed.

Lemma wins_verified s : Inv2 s -> nofail s -> Live s ->
  s_verified (drain kd cb (io_done (drain kd cb s))) = true.
Proof.
  intros I2 Nf Lv. set (s2 := drain kd cb s).
  assert (I22 : Inv2 s2) by (apply Inv2_iter; auto).
  assert (L2 : Live s2) by (apply Live_iter; auto).
  assert (Q2 : s_q s2 = []) by apply drain_quiescent.
  apply Late_quiescent; [|apply drain_quiescent]. apply Late_iter.
  destruct L2 as [V|[W|(i & _ & _ & A & _)]].
  - left. unfold io_done. destruct (s_io s2); auto.
  - destruct I22 as (I1 & _). unfold io01 in I1. rewrite Q2, W in I1.
    unfold io_done. destruct (s_io s2); [|discriminate]. right; left. simpl. apply in_or_app; right; simpl; auto.
  - rewrite Q2 in A. destruct A.
Qed.

(* ------------------------------------------------------------------------------------------ *)
(* a finished writer whose buffer is still open has its close_handle callback queued          *)
(* ------------------------------------------------------------------------------------------ *)
Definition Cl (s : state) : Prop :=
  forall i w, nth_error (s_ws s) i = Some w -> w_open w = true -> fut_done (w_fut w) = true -> In (QClose i) (s_q s).

Lemma Cl_grow s s' : s_ws s' = s_ws s -> (forall it, In it (s_q s) -> In it (s_q s')) -> Cl s -> Cl s'.
Proof. intros E Q C i w Hn O D. rewrite E in Hn. apply Q. eapply C; eauto. Qed.

Lemma Cl_app_w len g j s : wtrans len g -> Cl s -> Cl (app_w g j s).
Proof.
  intros Wt C. unfold app_w. destruct (nth_error (s_ws s) j) eqn:Hj; auto.
  destruct (g w) as [w' fl] eqn:Eg. intros i x Hn O D. simpl in *.
  apply nth_error_upd_cases in Hn. destruct Hn as [(-> & -> & _)|(Hne & Hn)].
  - assert (Ew : w' = fst (g w)) by (rewrite Eg; auto).
    destruct fl.
    + apply in_or_app; right. simpl; auto.
    + apply in_or_app; left. apply (C j w); auto.
      * apply (wt_open _ _ Wt). congruence.
      * pose proof (wt_nofire _ _ Wt w) as P. rewrite Eg in P. simpl in P. rewrite <- P; auto.
  - apply in_or_app; left. eapply C; eauto.
Qed.

Lemma Cl_fold {A} (g : A -> state -> state) l s :
  (forall x st, Cl st -> Cl (g x st)) -> Cl s -> Cl (fold_right g s l).
Proof. intros Hg Hs. induction l; simpl; auto. Qed.

Lemma Cl_close_others i s : Cl s -> Cl (close_others i s).
Proof.
  intros C. unfold close_others. eapply Cl_grow; [reflexivity|auto|].
  apply Cl_fold; auto. intros x st Hst. destruct (Nat.eqb (snd x) i); auto.
  eapply Cl_app_w; eauto. apply (wtrans_close None).
Qed.

Lemma Cl_close_blob s : Cl s -> Cl (close_blob s).
Proof.
  intros C. unfold close_blob. eapply Cl_grow; [reflexivity|auto|].
  apply Cl_fold; auto. intros x st Hst. eapply Cl_app_w; eauto. apply (wtrans_cancel None).
Qed.

Lemma Cl_run_item it r s : Cl s -> s_q s = it :: r -> Cl (run_item kd cb it (set_q r s)).
Proof.
  intros C Eq.
  assert (C0 : (forall j, it <> QClose j) -> Cl (set_q r s)).
  { intros Hne i w Hn O D. simpl in *. pose proof (C i w Hn O D) as X. rewrite Eq in X.
    destruct X as [X|X]; auto. exfalso; eapply Hne; eauto. }
  destruct it.
  - (* QClose i *)
    simpl. unfold close_handle, app_w. change (s_ws (set_q r s)) with (s_ws s).
    destruct (nth_error (s_ws s) i) eqn:Hi.
    2:{ intros j w Hn O D. simpl in *. pose proof (C j w Hn O D) as X. rewrite Eq in X.
        destruct X as [X|X]; auto. inversion X; subst. congruence. }
    destruct (close_handle_w w) as [w' fl] eqn:Ec. intros j x Hn O D. simpl in *.
    apply nth_error_upd_cases in Hn. destruct Hn as [(-> & -> & _)|(Hne & Hn)].
    + unfold close_handle_w in Ec. destruct (fut_done (w_fut w)); inversion Ec; subst; simpl in O; discriminate.
    + pose proof (C j x Hn O D) as X. rewrite Eq in X. apply in_or_app; left.
      destruct X as [X|X]; auto. inversion X; subst; contradiction.
  - simpl. apply Cl_grow with (s := set_q r s); [reflexivity|auto|]. apply C0; intros; discriminate.
  - simpl. change (s_ws (set_q r s)) with (s_ws s).
    assert (C1 : Cl (set_q r s)) by (apply C0; intros; discriminate).
    destruct (nth_error (s_ws s) i); auto. destruct (w_fut w); auto.
    eapply Cl_grow; [apply save_verified_ws| |apply Cl_close_others; eauto].
    intros it Hin. unfold save_verified. destruct (s_verified _); auto. destruct (writeable _ _); auto.
    simpl. apply in_or_app; auto.
  - assert (C1 : Cl (set_q r s)) by (apply C0; intros; discriminate). simpl.
    destruct kd. apply Cl_grow with (s := set_q r s); [reflexivity|auto|auto].
    change (s_store (set_q r s)) with (s_store s).
    destruct (s_store s); (apply Cl_grow with (s := set_q r s); [reflexivity| |exact C1]); intros it Hin; simpl; apply in_or_app; auto.
  - assert (C1 : Cl (set_q r s)) by (apply C0; intros; discriminate). simpl.
    apply Cl_grow with (s := set_q r s); [reflexivity| |exact C1]. intros it Hin; simpl; apply in_or_app; auto.
  - apply C0; intros; discriminate.
  - assert (C1 : Cl (set_q r s)) by (apply C0; intros; discriminate). simpl.
    apply Cl_grow with (s := set_q r s); [reflexivity| |exact C1]. intros it Hin; simpl; apply in_or_app; auto.
  - assert (C1 : Cl (set_q r s)) by (apply C0; intros; discriminate). simpl.
    apply Cl_grow with (s := set_q r s); [reflexivity|auto|exact C1].
  - assert (C1 : Cl (set_q r s)) by (apply C0; intros; discriminate). simpl.
    apply Cl_grow with (s := set_q r s); [reflexivity|auto|exact C1].
  - assert (C1 : Cl (set_q r s)) by (apply C0; intros; discriminate). simpl.
    apply Cl_grow with (s := set_q r s); [reflexivity| |exact C1]. intros it Hin; simpl; apply in_or_app; auto.
  - assert (C1 : Cl (set_q r s)) by (apply C0; intros; discriminate). simpl.
    apply Cl_grow with (s := set_q r s); [reflexivity| |exact C1]. intros it Hin; simpl; apply in_or_app; auto.
  - assert (C1 : Cl (set_q r s)) by (apply C0; intros; discriminate). simpl.
    apply Cl_grow with (s := set_q r s); [reflexivity|auto|exact C1].
Qed.

Lemma Cl_step1 s : Cl s -> Cl (step1 kd cb s).
Proof. intros C. unfold step1. destruct (s_q s) eqn:Eq; auto. apply Cl_run_item; auto. Qed.

Lemma Cl_iter n s : Cl s -> Cl (iter kd cb n s).
Proof. revert s; induction n; simpl; auto. intros; apply IHn. apply Cl_step1; auto. Qed.

Lemma Cl_step o s : Cl s -> Cl (fst (step o s)).
Proof.
  intros C. destruct o; simpl.
  - eapply Cl_grow; [| |exact C]; unfold set_length; destruct (s_len s); auto;
      destruct ((0 <=? n)%Z && (n <=? Z.of_N MAX_BLOB_SIZE)%Z); auto.
  - unfold open_writer. destruct (file_exists kd s); simpl; auto.
    match goal with |- context [if ?c then _ else _] => destruct c end; simpl; auto.
    intros i w Hn O D. simpl in *.
    destruct (Nat.lt_ge_cases i (length (s_ws s))) as [Hi|Hi].
    + rewrite nth_error_app1 in Hn by auto. eapply C; eauto.
    + rewrite nth_error_app2 in Hn by auto. destruct (i - length (s_ws s))%nat as [|n0]; simpl in Hn.
      * inversion Hn; subst w. simpl in D. discriminate.
      * destruct n0; discriminate.
  - unfold write. destruct (nth_error (s_ws s) i); simpl; auto. eapply Cl_app_w; eauto. apply wtrans_write.
  - eapply Cl_app_w; eauto. apply (wtrans_close None).
  - apply Cl_close_blob; auto.
  - apply Cl_iter; auto.
  - apply Cl_iter; auto.
  - eapply Cl_grow; [| |exact C]; unfold io_done; destruct (s_io s); auto. intros it Hin. simpl. apply in_or_app; auto.  - destruct (read_frame s) as (E1 & E2 & _). eapply Cl_grow; [exact E1| |exact C]. intros it Hin. rewrite E2; auto.
  - unfold delete_blob. destruct (settled s); simpl; auto.
    apply Cl_grow with (s := close_blob s); auto. apply Cl_close_blob; auto.
  - simpl; auto.
  - simpl; auto.
  - simpl; auto.
  - eapply Cl_grow; [| |exact C]; unfold io_fail; destruct (s_io s); auto. intros it Hin. simpl. apply in_or_app; auto.
Qed.

Lemma Cl_run ops s : Cl s -> Cl (run ops s).
Proof. revert s; induction ops; simpl; auto. intros; apply IHops. apply Cl_step; auto. Qed.

Lemma Cl_init : Cl init.
Proof. intros i w Hn. destruct i; discriminate. Qed.

(* nothing pending, nothing queued: every writer is closed *)
Lemma all_closed s : Cl s -> NP s -> s_q s = [] ->
  forall i w, nth_error (s_ws s) i = Some w -> w_open w = false /\ fut_done (w_fut w) = true.
Proof.
  intros C Np Q i w Hn. split; [|eapply Np; eauto].
  destruct (w_open w) eqn:O; auto. exfalso. pose proof (C i w Hn O (Np i w Hn)) as X. rewrite Q in X. destruct X.
Qed.

(* ------------------------------------------------------------------------------------------ *)
(* the writers map; registration of pending writers under the re-open discipline              *)
(* ------------------------------------------------------------------------------------------ *)
Lemma in_keys (m : list (N * nat)) k j : In (k, j) m -> In k (map fst m).
Proof. intros Hin. change k with (fst (k, j)). apply in_map; auto. Qed.

Lemma In_map_set k i m k' j : NoDup (map fst m) ->
  In (k', j) (map_set k i m) -> (k' = k /\ j = i) \/ (k' <> k /\ In (k', j) m).
Proof.
  induction m as [|[k0 j0] m IH]; simpl; intros Nd.
  - intros [E|[]]. inversion E; auto.
  - inversion Nd; subst. destruct (N.eqb_spec k0 k) as [->|Hne]; simpl.
    + intros [E|E]. inversion E; auto.
      right. split; auto. intros ->. apply H2. eapply in_keys; eauto.
    + intros [E|E]. inversion E; subst. right; split; auto.
      destruct (IH H3 E) as [X|(X1 & X2)]; auto.
Qed.

Lemma In_map_set_new k i m : In (k, i) (map_set k i m).
Proof.
  induction m as [|[k0 j0] m IH]; simpl; auto.
  destruct (N.eqb_spec k0 k); simpl; auto.
Qed.

Lemma In_map_set_other k i m k' j : k' <> k -> In (k', j) m -> In (k', j) (map_set k i m).
Proof.
  intros Hne. induction m as [|[k0 j0] m IH]; simpl; auto.
  destruct (N.eqb_spec k0 k) as [->|Hn]; simpl.
  - intros [E|E]; auto. inversion E; subst; contradiction.
  - intros [E|E]; auto.
Qed.

Lemma keys_map_set k i m x : In x (map fst (map_set k i m)) -> x = k \/ In x (map fst m).
Proof.
  induction m as [|[k0 j0] m IH]; simpl.
  - intros [E|[]]; auto.
  - destruct (N.eqb_spec k0 k) as [->|Hn]; simpl.
    + intros [E|E]; auto.
    + intros [E|E]; auto. destruct (IH E); auto.
Qed.

Lemma NoDup_map_set k i m : NoDup (map fst m) -> NoDup (map fst (map_set k i m)).
Proof.
  induction m as [|[k0 j0] m IH]; simpl; intros Nd.
  - constructor; auto; constructor.
  - inversion Nd; subst. destruct (N.eqb_spec k0 k) as [->|Hn]; simpl.
    + constructor; auto.
    + constructor; auto. intros X. apply keys_map_set in X. destruct X; auto.
Qed.

Lemma In_map_del k m k' j : In (k', j) (map_del k m) -> In (k', j) m.
Proof.
  induction m as [|[k0 j0] m IH]; simpl; auto.
  destruct (N.eqb_spec k0 k); simpl; auto. intros [E|E]; auto.
Qed.

Lemma In_map_del_other k m k' j : k' <> k -> In (k', j) m -> In (k', j) (map_del k m).
Proof.
  intros Hne. induction m as [|[k0 j0] m IH]; simpl; auto.
  destruct (N.eqb_spec k0 k) as [->|Hn]; simpl.
  - intros [E|E]; auto. inversion E; subst; contradiction.
  - intros [E|E]; auto.
Qed.

Lemma NoDup_map_del k m : NoDup (map fst m) -> NoDup (map fst (map_del k m)).
Proof.
  induction m as [|[k0 j0] m IH]; simpl; intros Nd; auto.
  inversion Nd; subst. destruct (N.eqb_spec k0 k); simpl; auto.
  constructor; auto. intros X. apply H2. apply in_map_iff in X. destruct X as ([a b] & E1 & E2).
  simpl in E1; subst a. apply In_map_del in E2. eapply in_keys; eauto.
Qed.

Lemma NoDup_keys_inj (m : list (N * nat)) k a b : NoDup (map fst m) -> In (k, a) m -> In (k, b) m -> a = b.
Proof.
  induction m as [|[k0 j0] m IH]; simpl; intros Nd; [tauto|].
  inversion Nd; subst. intros [E1|E1] [E2|E2].
  - congruence.
  - inversion E1; subst. exfalso. apply H2. eapply in_keys; eauto.
  - inversion E2; subst. exfalso. apply H2. eapply in_keys; eauto.
  - auto.
Qed.

Lemma lookup_In k j m : NoDup (map fst m) -> In (k, j) m -> lookup k m = Some j.
Proof.
  induction m as [|[k0 j0] m IH]; simpl; intros Nd; [tauto|].
  inversion Nd; subst. intros [E|E].
  - inversion E; subst. rewrite N.eqb_refl. auto.
  - destruct (N.eqb_spec k0 k) as [->|Hn]; auto. exfalso. apply H2. eapply in_keys; eauto.
Qed.

Definition Reg (s : state) : Prop :=
  NoDup (map fst (s_map s))
  /\ (forall i w, nth_error (s_ws s) i = Some w -> w_fut w = FPending -> In (w_key w, i) (s_map s))
  /\ (forall k j, In (QRemove k j) (s_q s) -> exists w, nth_error (s_ws s) j = Some w /\ fut_done (w_fut w) = true)
  /\ (forall k j, In (k, j) (s_map s) -> (j < length (s_ws s))%nat).

Lemma Reg_init : Reg init.
Proof. unfold Reg, init; simpl. repeat split; try tauto. constructor. intros [|i]; discriminate. Qed.

Lemma Reg_app_w len g j s : wtrans len g -> Reg s -> Reg (app_w g j s).
Proof.
  intros Wt (R1 & R2 & R3 & R4). unfold app_w. destruct (nth_error (s_ws s) j) eqn:Hj; [|repeat split; auto].
  destruct (g w) as [w' fl] eqn:Eg. assert (Ew : w' = fst (g w)) by (rewrite Eg; auto).
  assert (Efl : fl = snd (g w)) by (rewrite Eg; auto).
  unfold Reg; simpl. repeat split; auto.
  - intros i x Hn P. apply nth_error_upd_cases in Hn. destruct Hn as [(-> & -> & _)|(Hne & Hn)]; auto.
    rewrite Ew in *. rewrite (wt_key _ _ Wt). apply R2; auto.
    destruct (fut_done (w_fut w)) eqn:D.
    + destruct (wtrans_done_keeps _ _ _ Wt D) as (X & _). congruence.
    + apply fut_done_false; auto.
  - intros k j' Hq. apply in_app_or in Hq. destruct Hq as [Hq|Hq].
    + destruct (R3 k j' Hq) as (w0 & N0 & D0). destruct (Nat.eq_dec j j') as [<-|Hne].
      * rewrite Hj in N0. inversion N0; subst w0. exists w'. erewrite nth_error_upd_eq by eauto. split; auto.
        destruct (wtrans_done_keeps _ _ _ Wt D0) as (X & _). rewrite Ew, X; auto.
      * exists w0. rewrite nth_error_upd_neq by auto. auto.
    + destruct fl; simpl in Hq; [|tauto]. destruct Hq as [Hq|[Hq|[Hq|[]]]]; try discriminate.
      inversion Hq; subst k j'. destruct (wt_fire _ _ Wt w) as (P1 & P2); [congruence|].
      exists w'. erewrite nth_error_upd_eq by eauto. split; auto. rewrite Ew; auto.
  - intros k j' Hm. rewrite upd_length. eauto.
Qed.

Lemma Reg_fold {A} (g : A -> state -> state) l s :
  (forall x st, Reg st -> Reg (g x st)) -> Reg s -> Reg (fold_right g s l).
Proof. intros Hg Hs. induction l; simpl; auto. Qed.

Lemma cancel_w_done w : fut_done (w_fut (fst (cancel_w w))) = true.
Proof. unfold cancel_w. destruct (fut_done (w_fut w)) eqn:D; simpl; auto. Qed.
Lemma close_handle_w_done w : fut_done (w_fut (fst (close_handle_w w))) = true.
Proof. unfold close_handle_w. destruct (fut_done (w_fut w)) eqn:D; simpl; auto. Qed.

Lemma app_w_done g j s : (forall w, fut_done (w_fut (fst (g w))) = true) ->
  forall w, nth_error (s_ws (app_w g j s)) j = Some w -> fut_done (w_fut w) = true.
Proof.
  intros Hg w. unfold app_w. destruct (nth_error (s_ws s) j) eqn:Hj; [|congruence].
  destruct (g w0) as [w' fl] eqn:Eg. simpl. erewrite nth_error_upd_eq by eauto. intros E; inversion E; subst.
  replace w with (fst (g w0)) by (rewrite Eg; auto). auto.
Qed.

Lemma done_mono s s' j : wmono s s' -> length (s_ws s') = length (s_ws s) ->
  (forall w, nth_error (s_ws s) j = Some w -> fut_done (w_fut w) = true) ->
  (forall w, nth_error (s_ws s') j = Some w -> fut_done (w_fut w) = true).
Proof.
  intros M Ln Hd w' Hn.
  assert (Hi : (j < length (s_ws s))%nat) by (rewrite <- Ln; apply nth_error_Some; congruence).
  destruct (nth_error (s_ws s) j) as [w|] eqn:Hw; [|apply nth_error_None in Hw; lia].
  destruct (M j w Hw) as (w2 & N2 & _ & F2 & _). rewrite Hn in N2. inversion N2; subst w2.
  rewrite F2; auto.
Qed.

(* after the popitem loops every registered writer (except the winner) is done *)
Lemma fold_cancel_done m s j : In j (map snd m) ->
  forall w, nth_error (s_ws (fold_right (fun (kj : N * nat) st => cancel (snd kj) st) s m)) j = Some w -> fut_done (w_fut w) = true.
Proof.
  induction m as [|[k0 j0] m IH]; simpl; [tauto|]. intros [E|E].
  - subst j0. apply app_w_done. apply cancel_w_done.
  - eapply done_mono; [eapply wmono_app_w; apply (wtrans_cancel None)|apply app_w_nws|]. apply IH; auto.
Qed.

Lemma fold_close_done i m s j : In j (map snd m) -> j <> i ->
  forall w, nth_error (s_ws (fold_right (fun (kj : N * nat) st => if Nat.eqb (snd kj) i then st else close_handle (snd kj) st) s m)) j = Some w ->
  fut_done (w_fut w) = true.
Proof.
  intros Hin Hne. induction m as [|[k0 j0] m IH]; simpl in *; [tauto|]. destruct Hin as [E|E].
  - subst j0. destruct (Nat.eqb_spec j i); [contradiction|]. apply app_w_done. apply close_handle_w_done.
  - destruct (Nat.eqb j0 i); auto.
    eapply done_mono; [eapply wmono_app_w; apply (wtrans_close None)|apply app_w_nws|]. apply IH; auto.
Qed.

Lemma in_snd (m : list (N * nat)) k j : In (k, j) m -> In j (map snd m).
Proof. intros Hin. change j with (snd (k, j)). apply in_map; auto. Qed.

Lemma NP_close_blob s : Reg s -> NP (close_blob s).
Proof.
  intros (R1 & R2 & R3 & R4) i w' Hn. unfold close_blob in Hn. simpl in Hn.
  set (s' := fold_right (fun (kj : N * nat) st => cancel (snd kj) st) s (s_map s)) in *.
  assert (M : wmono s s') by (apply wmono_fold; intros; eapply wmono_app_w; apply (wtrans_cancel None)).
  assert (Ln : length (s_ws s') = length (s_ws s)) by (apply fold_nws; intros; apply app_w_nws).
  assert (Hi : (i < length (s_ws s))%nat) by (rewrite <- Ln; apply nth_error_Some; congruence).
  destruct (nth_error (s_ws s) i) as [w|] eqn:Hw; [|apply nth_error_None in Hw; lia].
  destruct (fut_done (w_fut w)) eqn:D.
  - destruct (M i w Hw) as (w2 & N2 & _ & F2 & _). rewrite Hn in N2. inversion N2; subst. rewrite F2; auto.
  - apply fut_done_false in D. pose proof (R2 i w Hw D) as X. eapply fold_cancel_done; eauto. eapply in_snd; eauto.
Qed.

Lemma NP_close_others i s : Reg s -> (forall w, nth_error (s_ws s) i = Some w -> fut_done (w_fut w) = true) ->
  NP (close_others i s).
Proof.
  intros (R1 & R2 & R3 & R4) Di j w' Hn. unfold close_others in Hn. simpl in Hn.
  set (g := fun (kj : N * nat) st => if Nat.eqb (snd kj) i then st else close_handle (snd kj) st) in *.
  set (s' := fold_right g s (s_map s)) in *.
  assert (M : wmono s s').
  { apply wmono_fold. intros x st. unfold g. destruct (Nat.eqb (snd x) i). apply wmono_refl.
    eapply wmono_app_w; apply (wtrans_close None). }
  assert (Ln : length (s_ws s') = length (s_ws s)).
  { apply fold_nws. intros x st. unfold g. destruct (Nat.eqb (snd x) i); auto. apply app_w_nws. }
  assert (Hi : (j < length (s_ws s))%nat) by (rewrite <- Ln; apply nth_error_Some; congruence).
  destruct (nth_error (s_ws s) j) as [w|] eqn:Hw; [|apply nth_error_None in Hw; lia].
  destruct (fut_done (w_fut w)) eqn:D.
  - destruct (M j w Hw) as (w2 & N2 & _ & F2 & _). rewrite Hn in N2. inversion N2; subst. rewrite F2; auto.
  - assert (Hne : j <> i). { intros ->. rewrite (Di w Hw) in D. discriminate. }
    apply fut_done_false in D. pose proof (R2 j w Hw D) as X.
    eapply (fold_close_done i (s_map s) s j); eauto. eapply in_snd; eauto.
Qed.

Lemma Reg_clear_map s : Reg s -> NP s -> Reg (set_map [] s).
Proof.
  intros (R1 & R2 & R3 & R4) Np. unfold Reg; simpl. repeat split; auto; try tauto. constructor.
  intros i w Hn P. pose proof (Np i w Hn) as D. rewrite P in D. discriminate.
Qed.

Lemma NP_ws s s' : s_ws s' = s_ws s -> NP s -> NP s'.
Proof. intros E Np i w Hn. rewrite E in Hn. eauto. Qed.

Lemma Reg_sub s q' : (forall it, In it q' -> In it (s_q s)) -> Reg s -> Reg (set_q q' s).
Proof. intros Q (R1 & R2 & R3 & R4). unfold Reg; simpl. repeat split; auto. intros k j Hq; apply (R3 k j); auto. Qed.

Lemma Reg_grow_q s s' : s_ws s' = s_ws s -> s_map s' = s_map s ->
  (forall k j, In (QRemove k j) (s_q s') -> In (QRemove k j) (s_q s)) -> Reg s -> Reg s'.
Proof.
  intros E1 E2 Q (R1 & R2 & R3 & R4). unfold Reg. rewrite E1, E2. repeat split; auto. intros k j Hq; apply (R3 k j); auto.
Qed.

Lemma Reg_run_item it r s : Reg s -> s_q s = it :: r -> Reg (run_item kd cb it (set_q r s)).
Proof.
  intros R Eq.
  assert (R0 : Reg (set_q r s)). { apply Reg_sub; auto. intros x Hx. rewrite Eq. right; auto. }
  destruct it; simpl.
  - eapply Reg_app_w; eauto. apply (wtrans_close None).
  - destruct R as (R1 & R2 & R3 & R4). unfold map_del_if. change (s_map (set_q r s)) with (s_map s).
    destruct (lookup k (s_map s)) as [j0|] eqn:Lk; [|exact R0].
    destruct (Nat.eqb_spec j0 i) as [->|Hne]; [|exact R0].
    unfold Reg; simpl. repeat split.
    + apply NoDup_map_del; auto.
    + intros i' w Hn P. pose proof (R2 i' w Hn P) as X. apply In_map_del_other; auto. intros E.
      rewrite E in X. rewrite (lookup_In _ _ _ R1 X) in Lk. inversion Lk; subst i'.
      destruct (R3 k i) as (w0 & N0 & D); [rewrite Eq; left; auto|]. rewrite Hn in N0. inversion N0; subst w0.
      rewrite P in D; discriminate.
    + intros k' j Hq. apply (R3 k' j). rewrite Eq; right; auto.
    + intros k' j Hm. apply In_map_del in Hm. eauto.
  - change (s_ws (set_q r s)) with (s_ws s). destruct (nth_error (s_ws s) i) eqn:Hi; auto.
    destruct (w_fut w) eqn:Ef; auto.
    assert (Np : NP (close_others i (set_q r s))).
    { apply NP_close_others; auto. simpl. intros w0 Hw0. rewrite Hi in Hw0. inversion Hw0; subst. rewrite Ef; auto. }
    assert (Rc : Reg (close_others i (set_q r s))).
    { unfold close_others in *. apply Reg_clear_map; [|eapply NP_ws; [|exact Np]; reflexivity].
      apply Reg_fold; auto. intros x st Hst. destruct (Nat.eqb (snd x) i); auto.
      eapply Reg_app_w; eauto. apply (wtrans_close None). }
    eapply Reg_grow_q; [apply save_verified_ws| | |exact Rc].
    + unfold save_verified. destruct (s_verified _); auto. destruct (writeable _ _); auto.
    + intros k j Hq. unfold save_verified in Hq. destruct (s_verified _); auto. destruct (writeable _ _); auto.
      simpl in Hq. apply in_app_or in Hq. destruct Hq as [Hq|Hq]; auto. simpl in Hq; intuition discriminate.
  - destruct kd.
    + eapply Reg_grow_q; [| | |exact R0]; auto.
    + change (s_store (set_q r s)) with (s_store s).
      destruct (s_store s); (eapply Reg_grow_q; [| | |exact R0]; auto); simpl; intros k j Hq;
        apply in_app_or in Hq; destruct Hq as [Hq|Hq]; auto; unfold done_cbs in Hq; destruct cb; simpl in Hq; intuition discriminate.
  - eapply Reg_grow_q; [| | |exact R0]; auto. simpl. intros k j Hq.
    apply in_app_or in Hq; destruct Hq as [Hq|Hq]; auto. simpl in Hq; intuition discriminate.
  - auto.
  - eapply Reg_grow_q; [| | |exact R0]; auto. simpl. intros k j Hq.
    apply in_app_or in Hq; destruct Hq as [Hq|Hq]; auto. unfold done_cbs in Hq; destruct cb; simpl in Hq; intuition discriminate.
  - eapply Reg_grow_q; [| | |exact R0]; auto.
  - eapply Reg_grow_q; [| | |exact R0]; auto.
  - eapply Reg_grow_q; [| | |exact R0]; auto. simpl. intros k j Hq.
    apply in_app_or in Hq; destruct Hq as [Hq|Hq]; auto. simpl in Hq; intuition discriminate.
  - eapply Reg_grow_q; [| | |exact R0]; auto. simpl. intros k j Hq.
    apply in_app_or in Hq; destruct Hq as [Hq|Hq]; auto. unfold fail_cbs in Hq; destruct cb; simpl in Hq; intuition discriminate.
  - eapply Reg_grow_q; [| | |exact R0]; auto.
Qed.

Lemma Reg_step1 s : Reg s -> Reg (step1 kd cb s).
Proof. intros R. unfold step1. destruct (s_q s) eqn:Eq; auto. apply Reg_run_item; auto. Qed.

Lemma Reg_iter n s : Reg s -> Reg (iter kd cb n s).
Proof. revert s; induction n; simpl; auto. intros; apply IHn. apply Reg_step1; auto. Qed.

Lemma Reg_open k s : Inv s -> Reg s -> Reg (fst (open_writer kd k s)).
Proof.
  intros I (R1 & R2 & R3 & R4). unfold open_writer. destruct (file_exists kd s); simpl; [repeat split; auto|].
  match goal with |- context [if ?c then _ else _] => destruct c eqn:Busy end; simpl; [repeat split; auto|].
  unfold Reg; simpl. repeat split.
  - apply NoDup_map_set; auto.
  - intros i w Hn P. destruct (Nat.lt_ge_cases i (length (s_ws s))) as [Hi|Hi].
    + rewrite nth_error_app1 in Hn by auto. pose proof (R2 i w Hn P) as X.
      destruct (N.eq_dec (w_key w) k) as [Ek|Ek]; [|apply In_map_set_other; auto].
      exfalso. rewrite Ek in X. rewrite (lookup_In _ _ _ R1 X), Hn in Busy.
      destruct I as (_ & I2 & _). destruct (Forall_nth _ _ _ _ I2 Hn) as (_ & _ & C & _).
      apply C; auto.
    + rewrite nth_error_app2 in Hn by auto. destruct (i - length (s_ws s))%nat as [|n0] eqn:En; simpl in Hn.
      * inversion Hn; subst w. simpl. replace i with (length (s_ws s)) by lia. apply In_map_set_new.
      * destruct n0; discriminate.
  - intros k' j Hq. destruct (R3 k' j Hq) as (w0 & N0 & D0). exists w0. split; auto.
    rewrite nth_error_app1; auto. apply nth_error_Some. congruence.
  - intros k' j Hm. rewrite app_length. simpl. apply In_map_set in Hm; auto.
    destruct Hm as [(-> & ->)|(Hne & Hm)]; [lia|]. pose proof (R4 _ _ Hm). lia.
Qed.

Lemma Reg_close_blob s : Reg s -> Reg (close_blob s).
Proof.
  intros R. pose proof (NP_close_blob s R) as Np. unfold close_blob in *.
  apply Reg_clear_map; [|eapply NP_ws; [|exact Np]; reflexivity].
  apply Reg_fold; auto. intros x st Hst. eapply Reg_app_w; eauto. apply (wtrans_cancel None).
Qed.

Lemma Reg_step o s : Inv s -> Reg s -> Reg (fst (step o s)).
Proof.
  intros I R. destruct o; simpl in *.
  - eapply Reg_grow_q; [| | |exact R]; unfold set_length; destruct (s_len s); auto;
      destruct ((0 <=? n)%Z && (n <=? Z.of_N MAX_BLOB_SIZE)%Z); auto.
  - apply Reg_open; auto.
  - unfold write. destruct (nth_error (s_ws s) i); simpl; auto. eapply Reg_app_w; eauto. apply wtrans_write.
  - eapply Reg_app_w; eauto. apply (wtrans_close None).
  - apply Reg_close_blob; auto.
  - apply Reg_iter; auto.
  - apply Reg_iter; auto.
  - eapply Reg_grow_q; [| | |exact R]; unfold io_done; destruct (s_io s); auto.
    simpl. intros k j Hq. apply in_app_or in Hq; destruct Hq as [Hq|Hq]; auto. simpl in Hq; intuition discriminate.
  - destruct (read_frame s) as (E1 & E2 & E3 & _). eapply Reg_grow_q; [exact E1|exact E3| |exact R].
    intros k j Hq. rewrite E2 in Hq; auto.
  - unfold delete_blob. destruct (settled s); simpl; auto.
    apply Reg_grow_q with (s := close_blob s); auto. apply Reg_close_blob; auto.
  - simpl; auto.
  - simpl; auto.
  - simpl; auto.
  - eapply Reg_grow_q; [| | |exact R]; unfold io_fail; destruct (s_io s); auto.
    simpl. intros k j Hq. apply in_app_or in Hq; destruct Hq as [Hq|Hq]; auto. simpl in Hq; intuition discriminate.
Qed.

(* ------------------------------------------------------------------------------------------ *)
(* the two resets; all invariants together                                                    *)
(* ------------------------------------------------------------------------------------------ *)
Lemma w_ok_unset len w : fut_done (w_fut w) = true -> w_ok len w -> w_ok None w.
Proof.
  intros D (A & B & C & F & G). apply fut_done_true in D. split5; auto.
  - intros _ P. contradiction.
  - intros _ P. contradiction.
  - intros L E. discriminate.
Qed.

Lemma Inv_read s : Inv s -> Inv2 s -> Inv (fst (read_blob kd s)).
Proof.
  intros I J. unfold read_blob. destruct (s_verified s) eqn:V; simpl; auto.
  destruct (s_store s) eqn:Es; simpl; auto. destruct kd; auto.
  destruct I as (I1 & I2 & I3 & I4 & I5 & I6 & I7). destruct J as (J1 & J2 & _).
  assert (Z : stage_q (s_q s) = 0%nat) by (rewrite (J2 V) in J1; simpl in J1; lia).
  unfold Inv, goodS in *; simpl. repeat split; auto; try discriminate.
  intros [X|[X|X]]; destruct (stage_zero_in _ _ Z X) as (A & B & C & D); discriminate.
Qed.

Lemma settled_spec s : settled s = true -> s_q s = [] /\ s_io s = None /\ s_writing s = false.
Proof.
  unfold settled. destruct (s_q s); [|discriminate]. destruct (s_io s); [discriminate|].
  intros X. apply negb_true_iff in X. auto.
Qed.

Lemma Inv_delete s : Inv s -> Reg s -> Inv (fst (delete_blob s)).
Proof.
  intros I R. unfold delete_blob. destruct (settled s) eqn:St; simpl; auto.
  destruct (settled_spec s St) as (Q & Io & W).
  pose proof (Inv_close_blob s I) as (C1 & C2 & C3 & C4 & C5 & C6 & C7).
  pose proof (NP_close_blob s R) as Np.
  destruct (same_ctl_close_blob s) as (_ & _ & A3 & _ & _ & _ & l & A7 & A8). rewrite Q in A7. change ([] ++ l) with l in A7.
  unfold Inv, goodS. cbn [s_len s_ws s_q s_io s_store s_verified set_len set_store set_verified].
  rewrite A3, A7, Io. repeat split; auto; try discriminate.
  - apply Forall_forall. intros w Hin. destruct (In_nth_error _ _ Hin) as (i & Hn).
    eapply w_ok_unset; [eapply Np; eauto|]. rewrite Forall_forall in C2. apply C2; auto.
  - intros b Hin. exfalso; eapply plain_no_task; eauto.
  - intros [X|[X|X]]; rewrite Forall_forall in A8; exfalso; apply (A8 _ X).
Qed.

Lemma Qok_read s : Qok s -> Qok (fst (read_blob kd s)).
Proof.
  intros K. destruct (read_frame s) as (E1 & E2 & _ & E4 & _).
  eapply Qok_grow; [exact E1|exact E4| |exact K]. intros i Hq. rewrite E2 in Hq; auto.
Qed.

Lemma close_blob_wfc_cancelled s : s_q s = [] ->
  forall i, In (QWfc i) (s_q (close_blob s)) ->
  exists w, nth_error (s_ws (close_blob s)) i = Some w /\ w_fut w = FCancelled.
Proof.
  intros Q. unfold close_blob. simpl.
  set (P := fun st => forall i, In (QWfc i) (s_q st) ->
                      exists w, nth_error (s_ws st) i = Some w /\ w_fut w = FCancelled).
  change (P (fold_right (fun (kj : N * nat) st => cancel (snd kj) st) s (s_map s))).
  apply fold_pres.
  - intros x st Hst i Hq. unfold cancel, app_w in *. destruct (nth_error (s_ws st) (snd x)) as [w0|] eqn:Hj; auto.
    unfold cancel_w in *. destruct (fut_done (w_fut w0)) eqn:D; simpl in *.
    + rewrite app_nil_r in Hq. rewrite (upd_same _ _ _ Hj). auto.
    + apply in_app_or in Hq. destruct Hq as [Hq|Hq].
      * destruct (Hst i Hq) as (w & N & F). destruct (Nat.eq_dec (snd x) i) as [E|Hne].
        -- rewrite E in Hj. rewrite Hj in N. inversion N; subst. rewrite F in D. discriminate.
        -- exists w. rewrite nth_error_upd_neq by auto. auto.
      * destruct Hq as [Hq|[Hq|[Hq|[]]]]; try discriminate. inversion Hq; subst i.
        eexists. erewrite nth_error_upd_eq by eauto. split; [reflexivity|]. reflexivity.
  - intros i Hq. rewrite Q in Hq. destruct Hq.
Qed.

Lemma Qok_delete s : Qok s -> Qok (fst (delete_blob s)).
Proof.
  intros K. unfold delete_blob. destruct (settled s) eqn:St; simpl; auto.
  destruct (settled_spec s St) as (Q & _).
  intros i w b Hq Hn Ef.
  change (In (QWfc i) (s_q (close_blob s))) in Hq. change (nth_error (s_ws (close_blob s)) i = Some w) in Hn.
  destruct (close_blob_wfc_cancelled s Q i Hq) as (w' & N & F). rewrite Hn in N. inversion N; subst. congruence.
Qed.

Lemma Inv_io_fail s : Inv s -> Inv (io_fail s).
Proof.
  intros I. unfold io_fail. destruct (s_io s) eqn:Ei; auto.
  apply Inv_enq; [repeat constructor|].
  destruct I as (I1 & I2 & I3 & I4 & I5 & I6 & I7). unfold Inv, goodS in *; simpl. repeat split; auto. intros; discriminate.
Qed.

Lemma Qok_io_fail s : Qok s -> Qok (io_fail s).
Proof.
  intros K. unfold io_fail. destruct (s_io s); auto. apply Qok_enq.
  intros i Hq. simpl in Hq; intuition discriminate.
  eapply Qok_grow; [| | |exact K]; auto.
Qed.

Definition All (s : state) : Prop := Inv s /\ Inv2 s /\ Qok s /\ Reg s /\ Cl s.

Lemma All_init : All init.
Proof. repeat split; try apply Inv_init; try apply Inv2_init; try apply Qok_init; try apply Reg_init; try apply Cl_init. Qed.

Lemma All_step o s : All s -> All (fst (step o s)).
Proof.
  intros (I & J & K & R & C). unfold All.
  split; [|split; [apply Inv2_step; auto|split; [|split; [apply Reg_step; auto|apply Cl_step; auto]]]].
  - destruct o; try (apply Inv_step_core; simpl; auto; fail).
    + apply Inv_read; auto.
    + apply Inv_delete; auto.
    + apply Inv_io_fail; auto.
  - destruct o; try (apply Qok_step_core; simpl; auto; fail).
    + apply Qok_read; auto.
    + apply Qok_delete; auto.
    + apply Qok_io_fail; auto.
Qed.

Lemma All_run ops : forall s, All s -> All (run ops s).
Proof. induction ops; simpl; auto. intros s A. apply IHops. apply All_step; auto. Qed.

(* the winner's callback closes every registered writer: nothing stays pending *)
Definition PW (s : state) : Prop := NP s \/ won s.

Lemma PW_step1 s : Reg s -> PW s -> PW (step1 kd cb s).
Proof.
  intros R [Np|Wn].
  - left. eapply NP_mono; [apply wmono_step1|apply step1_nws|auto].
  - unfold step1. destruct (s_q s) as [|it r] eqn:Eq; [right; auto|].
    destruct Wn as (i & w & b & A & B & C). rewrite Eq in A. destruct A as [A|A].
    + subst it. left. simpl. change (s_ws (set_q r s)) with (s_ws s). rewrite B, C.
      eapply NP_ws; [apply save_verified_ws|]. apply NP_close_others.
      * apply Reg_sub; auto. intros x Hx. rewrite Eq; right; auto.
      * simpl. intros w0 Hw0. rewrite B in Hw0. inversion Hw0; subst. rewrite C; auto.
    + right. destruct (run_item_q it (set_q r s)) as (l & Q).
      eapply won_mono; [apply wmono_run_item| |exists i, w, b; repeat split; eauto].
      intros it' Hin. rewrite Q. apply in_or_app; auto.
Qed.

Lemma PW_iter n s : Reg s -> PW s -> PW (iter kd cb n s).
Proof. revert s; induction n; simpl; auto. intros. apply IHn. apply Reg_step1; auto. apply PW_step1; auto. Qed.

Lemma PW_quiescent s : PW s -> s_q s = [] -> NP s.
Proof. intros [Np|(i & _ & _ & A & _)] Q; auto. rewrite Q in A. destruct A. Qed.

(* ------------------------------------------------------------------------------------------ *)
(* the completion callback: one call per save.  [Psi] = calls made + calls queued + saves that *)
(* are in flight or still owed (blob neither verified nor being saved) is conserved by every  *)
(* operation other than the two resets                                                        *)
(* ------------------------------------------------------------------------------------------ *)
Definition is_upF it := match it with QUpdateF => true | _ => false end.
Definition tok_q (q : list qitem) : nat := (cnt is_task q + cnt is_ss q + cnt is_wk q + cnt is_upF q)%nat.
Definition owed (s : state) : nat := b2n (negb (s_verified s) && negb (s_writing s)).
Definition Psi (s : state) : nat :=
  (s_completed s + cnt is_cp (s_q s) + if cb then tok_q (s_q s) + io01 s + owed s else 0)%nat.

Lemma cnt_single p it : cnt p [it] = b2n (p it).
Proof. unfold cnt. simpl. destruct (p it); auto. Qed.

Lemma tok_app a b : tok_q (a ++ b) = (tok_q a + tok_q b)%nat.
Proof. unfold tok_q. rewrite !cnt_app. lia. Qed.
Lemma tok_cons it r : tok_q (it :: r) = (tok_q [it] + tok_q r)%nat.
Proof. apply (tok_app [it] r). Qed.
Lemma tok_plain l : Forall plain l -> tok_q l = 0%nat.
Proof. intros Hl. unfold tok_q. rewrite !cnt_plain; auto; intros []; simpl; tauto. Qed.
Lemma tok_done_cbs : tok_q (done_cbs cb) = 0%nat.
Proof. unfold done_cbs. destruct cb; reflexivity. Qed.
Lemma cnt_cp_done_cbs : cnt is_cp (done_cbs cb) = if cb then 1%nat else 0%nat.
Proof. unfold done_cbs. destruct cb; reflexivity. Qed.
Lemma tok_fail_cbs : tok_q (fail_cbs cb) = 1%nat.
Proof. unfold fail_cbs. destruct cb; reflexivity. Qed.
Lemma cnt_cp_fail_cbs : cnt is_cp (fail_cbs cb) = 0%nat.
Proof. unfold fail_cbs. destruct cb; reflexivity. Qed.
Lemma tok_single it : tok_q [it] = (b2n (is_task it) + b2n (is_ss it) + b2n (is_wk it) + b2n (is_upF it))%nat.
Proof. unfold tok_q. rewrite !cnt_single. reflexivity. Qed.
Arguments tok_q : simpl never.

Lemma Psi_same_ctl s s' : same_ctl s s' -> Psi s' = Psi s.
Proof.
  intros (A1 & A2 & A3 & A4 & A5 & A6 & l & A7 & A8). unfold Psi, owed, io01.
  rewrite A1, A2, A3, A5, A7. rewrite cnt_app, tok_app. rewrite (tok_plain l) by auto.
  rewrite (cnt_plain is_cp l) by (auto; intros []; simpl; tauto). destruct cb; lia.
Qed.

Lemma Psi_save_verified b s : Psi (save_verified kd b s) = Psi s.
Proof.
  unfold save_verified. destruct (s_verified s) eqn:V; auto. destruct (writeable kd s) eqn:W; auto.
  unfold writeable in W. apply andb_true_iff in W. destruct W as [W1 _]. apply negb_true_iff in W1.
  unfold Psi, owed, io01, enq; simpl. rewrite V, W1. rewrite cnt_app, tok_app. rewrite cnt_single.
  change (tok_q [QTask b]) with 1%nat. simpl. destruct cb; lia.
Qed.

Lemma Psi_run_item it r s : Inv2 s -> s_q s = it :: r -> Psi (run_item kd cb it (set_q r s)) = Psi s.
Proof.
  intros (I1 & I2 & I4) Eq.
  assert (P0 : Psi s = (Psi (set_q r s) + b2n (is_cp it) + if cb then tok_q [it] else 0)%nat).
  { unfold Psi, owed, io01; simpl. rewrite Eq. rewrite cnt_cons, tok_cons, cnt_single. destruct cb; lia. }
  rewrite Eq, stage_cons in I1. rewrite tok_single in P0.
  destruct it; simpl run_item; simpl in P0.
  - unfold close_handle. rewrite (Psi_same_ctl _ _ (same_ctl_app_w _ _ _)). rewrite P0. simpl. destruct cb; reflexivity || lia.
  - rewrite (Psi_same_ctl _ _ (same_ctl_set_map _ _)). rewrite P0. simpl. destruct cb; reflexivity || lia.
  - assert (X : Psi (set_q r s) = Psi s) by (rewrite P0; simpl; destruct cb; reflexivity || lia).
    change (s_ws (set_q r s)) with (s_ws s). destruct (nth_error (s_ws s) i); auto. destruct (w_fut w); auto.
    rewrite Psi_save_verified. rewrite (Psi_same_ctl _ _ (same_ctl_close_others _ _)). auto.
  - (* QTask *)
    change (stage_q [QTask b]) with 1%nat in I1.
    assert (Wr : s_writing s = true) by (destruct (s_writing s); simpl in I1; auto; lia).
    assert (V : s_verified s = false) by (destruct (s_verified s); auto; rewrite I2 in Wr; auto; discriminate).
    unfold io01 in I1. rewrite Wr in I1. simpl in I1.
    assert (Io : s_io s = None) by (destruct (s_io s); auto; lia).
    rewrite P0. change (tok_q [QTask b]) with 1%nat. destruct kd.
    + unfold Psi, owed, io01; simpl. rewrite Io. destruct cb; lia.
    + change (s_store (set_q r s)) with (s_store s).
      destruct (s_store s); unfold Psi, owed, io01, enq; simpl; rewrite cnt_app, tok_app;
        rewrite ?tok_done_cbs, ?cnt_cp_done_cbs, ?tok_fail_cbs, ?cnt_cp_fail_cbs; destruct cb; simpl; lia.
  - rewrite P0. change (tok_q [QSetState]) with 1%nat. unfold Psi, owed, io01, enq; simpl.
    rewrite cnt_app, tok_app. change (tok_q [QNop; QWakeup]) with 1%nat. change (cnt is_cp [QNop; QWakeup]) with 0%nat.
    destruct cb; lia.
  - rewrite P0. simpl. destruct cb; reflexivity || lia.
  - rewrite P0. change (tok_q [QWakeup]) with 1%nat. unfold Psi, owed, io01, enq; simpl.
    rewrite cnt_app, tok_app, tok_done_cbs, cnt_cp_done_cbs. destruct cb; simpl; lia.
  - (* QUpdate *)
    change (stage_q [QUpdate]) with 1%nat in I1.
    assert (Wr : s_writing s = true) by (destruct (s_writing s); simpl in I1; auto; lia).
    rewrite P0. change (tok_q [QUpdate]) with 0%nat. unfold Psi, owed, io01; simpl. rewrite Wr.
    rewrite andb_false_r. simpl. destruct cb; lia.
  - rewrite P0. change (tok_q [QCompleted]) with 0%nat. unfold Psi, owed, io01; simpl. destruct cb; lia.
  - rewrite P0. unfold Psi, owed, io01, enq; simpl.
    rewrite cnt_app, tok_app. change (tok_q [QNop; QWakeupF]) with 1%nat. change (cnt is_cp [QNop; QWakeupF]) with 0%nat.
    destruct cb; lia.
  - rewrite P0. unfold Psi, owed, io01, enq; simpl.
    rewrite cnt_app, tok_app, tok_fail_cbs, cnt_cp_fail_cbs. destruct cb; simpl; lia.
  - (* QUpdateF: the token of the failed save turns back into an owed save *)
    change (stage_q [QUpdateF]) with 1%nat in I1.
    assert (Wr : s_writing s = true) by (destruct (s_writing s); simpl in I1; auto; lia).
    assert (V : s_verified s = false) by (destruct (s_verified s); auto; rewrite I2 in Wr; auto; discriminate).
    rewrite P0. unfold Psi, owed, io01; simpl. rewrite Wr, V. simpl. destruct cb; lia.
Qed.

Lemma Psi_iter n : forall s, Inv2 s -> Psi (iter kd cb n s) = Psi s.
Proof.
  induction n; simpl; auto. intros s I. rewrite IHn by (apply Inv2_step1; auto).
  unfold step1. destruct (s_q s) eqn:Eq; auto. apply Psi_run_item; auto.
Qed.

Lemma Psi_io_done s : Psi (io_done s) = Psi s.
Proof.
  unfold io_done. destruct (s_io s) eqn:Ei; auto. unfold Psi, owed, io01, enq; simpl. rewrite Ei.
  rewrite cnt_app, tok_app. change (tok_q [QSetState]) with 1%nat. change (cnt is_cp [QSetState]) with 0%nat.
  destruct cb; lia.
Qed.

Lemma Psi_step o s : core_op o -> Inv2 s -> Psi (fst (step o s)) = Psi s.
Proof.
  intros Co I. destruct o; simpl in *; try contradiction.
  - unfold set_length. destruct (s_len s); auto. destruct ((0 <=? n)%Z && (n <=? Z.of_N MAX_BLOB_SIZE)%Z); auto.
  - apply Psi_same_ctl. apply same_ctl_open.
  - apply Psi_same_ctl. apply same_ctl_write.
  - apply Psi_same_ctl. apply same_ctl_app_w.
  - apply Psi_same_ctl. apply same_ctl_close_blob.
  - apply Psi_iter; auto.
  - apply Psi_iter; auto.
  - apply Psi_io_done.
  - simpl; auto.
  - simpl; auto.
  - simpl; auto.
Qed.

Lemma Psi_run ops : forall s, core_ops ops -> Inv2 s -> Psi (run ops s) = Psi s.
Proof.
  induction ops; simpl; auto. intros s Co I. inversion Co; subst.
  rewrite IHops; auto. apply Psi_step; auto. apply Inv2_step; auto.
Qed.

(* ------------------------------------------------------------------------------------------ *)
(* assembled statements                                                                       *)
(* ------------------------------------------------------------------------------------------ *)
(* From here on everything is stated for an arbitrary starting state [s0] that satisfies the invariants, has no
   writer yet and nothing in flight: the fresh object [init], and the object BlobManager.get_blob creates over a
   directory that already holds a file ([start], see start_All below). *)
Variable s0 : state.
Hypothesis A0 : All s0.
Hypothesis W0 : s_ws s0 = [].
Hypothesis Q0 : s_q s0 = [].
Hypothesis Io0 : s_io s0 = None.
Hypothesis C0 : s_completed s0 = 0%nat.

Lemma reach_all ops : All (run ops s0).
Proof. apply All_run, A0. Qed.

Lemma only_matching ops :
  let s := run ops s0 in
  (s_verified s = true ->
     exists b L, s_store s = Some b /\ s_len s = Some L /\ N.of_nat (length b) = L
                 /\ (0 < L <= MAX_BLOB_SIZE)%N /\ H b = h)
  /\ (forall b, s_store s = Some b ->
     exists L, s_len s = Some L /\ N.of_nat (length b) = L /\ (0 < L <= MAX_BLOB_SIZE)%N /\ H b = h).
Proof.
  intros s. destruct (reach_all ops) as (I & _). fold s in I.
  destruct I as (I1 & I2 & I3 & I4 & I5 & I6 & I7).
  assert (G : forall b, s_store s = Some b ->
     exists L, s_len s = Some L /\ N.of_nat (length b) = L /\ (0 < L <= MAX_BLOB_SIZE)%N /\ H b = h).
  { intros b Eb. destruct (I5 b Eb) as (L & E1 & E2 & (E3 & E4)). subst L. eexists. repeat split; eauto; lia. }
  split; auto.
  intros V. destruct (s_store s) as [b|] eqn:Es; [|exfalso; apply I6; auto].
  destruct (G b eq_refl) as (L & X). exists b, L. tauto.
Qed.

(* BlobManager.is_blob_verified / ensure_completed_blobs_status for the cached object say "yes" (and the latter then
   records the blob as finished, which is what gets it announced) only for a verified blob holding the named bytes *)
Lemma manager_yes_only_verified ops o :
  (o = Ensure \/ exists n, o = IsVerified n) ->
  snd (step o (run ops s0)) = RBool true ->
  let s := run ops s0 in
  fst (step o s) = s /\ s_verified s = true /\
  exists b L, s_store s = Some b /\ s_len s = Some L /\ N.of_nat (length b) = L
              /\ (0 < L <= MAX_BLOB_SIZE)%N /\ H b = h.
Proof.
  intros Ho E s. assert (V : s_verified s = true /\ fst (step o s) = s).
  { assert (E1 : manager_verified kd s = true /\ fst (step o s) = s).
    { destruct Ho as [->|(n & ->)]; simpl in *; inversion E; auto. }
    destruct E1 as (E1 & E2). unfold manager_verified in E1. apply andb_true_iff in E1. destruct E1; auto. }
  destruct V as (V & Fs). split; auto. split; auto. destruct (only_matching ops) as (A & _). apply A; auto.
Qed.

(* every writer result is a complete correct copy of an admissible size (its length was the accepted length when
   it completed: writer_write_exact) *)
Lemma writer_result_good ops i w b :
  nth_error (s_ws (run ops s0)) i = Some w -> w_fut w = FOk b ->
  (0 < N.of_nat (length b) <= MAX_BLOB_SIZE)%N /\ H b = h.
Proof.
  intros Hn Ef. destruct (reach_all ops) as (I & _).
  destruct I as (I1 & I2 & _). destruct (Forall_nth _ _ _ _ I2 Hn) as (A & _). apply A; auto.
Qed.

(* an accepted length is at most 2^21 and is changed by nothing but delete() *)
Lemma length_once_bounded ops1 ops2 L :
  s_len (run ops1 s0) = Some L ->
  (L <= MAX_BLOB_SIZE)%N /\ (no_delete ops2 -> s_len (run (ops1 ++ ops2) s0) = Some L).
Proof.
  intros E. split.
  - destruct (reach_all ops1) as (I & _). destruct I as (I1 & _). auto.
  - intros Nd. rewrite run_app. apply run_len_kept; auto.
Qed.

(* the state right after a live writer received the bytes completing a correct copy *)
Lemma winning_write ops i w d L :
  let s := run ops s0 in
  nth_error (s_ws s) i = Some w -> w_open w = true -> w_fut w = FPending -> s_len s = Some L -> (0 < L)%N ->
  N.of_nat (length (w_buf w ++ d)) = L -> H (w_buf w ++ d) = h ->
  let s1 := fst (step (Write i d) s) in
  snd (step (Write i d) s) = ROk
  /\ (exists w1, nth_error (s_ws s1) i = Some w1 /\ w_fut w1 = FOk (w_buf w ++ d) /\ w_open w1 = false)
  /\ In (QWfc i) (s_q s1).
Proof.
  intros s Hn O P El Lp Ln Hh s1.
  destruct (reach_all ops) as (I & _). fold s in I.
  destruct I as (_ & I2 & _). destruct (Forall_nth _ _ _ _ I2 Hn) as (_ & B & _).
  destruct (B O P) as (Sb & _).
  assert (Lv : live L w) by (repeat split; auto; lia).
  unfold s1. simpl. unfold write. rewrite Hn. simpl. unfold app_w. rewrite Hn. rewrite El.
  rewrite wr_write_live by auto. unfold live_result.
  destruct (N.ltb_spec L (N.of_nat (length (w_buf w ++ d)))); [lia|].
  destruct (N.eqb_spec (N.of_nat (length (w_buf w ++ d))) L); [|contradiction].
  rewrite <- Hh. rewrite bytes_eqb_refl. simpl. repeat split; auto.
  - eexists. erewrite nth_error_upd_eq by eauto. split; [reflexivity|]. simpl. auto.
  - apply in_or_app; right. simpl; auto.
Qed.

Lemma stored_good s : Inv s -> s_verified s = true ->
  exists b L, s_store s = Some b /\ s_len s = Some L /\ H b = h /\ N.of_nat (length b) = L.
Proof.
  intros (_ & _ & _ & _ & I5 & I6 & _) V. destruct (s_store s) as [b|] eqn:Es; [|exfalso; apply I6; auto].
  destruct (I5 b eq_refl) as (L' & E1 & E2 & (E3 & E4)). exists b, L'. repeat split; auto.
Qed.

Lemma cnt_le p p' q : (forall it, p it = true -> p' it = true) -> (cnt p q <= cnt p' q)%nat.
Proof.
  intros M. unfold cnt. induction q as [|a q IH]; simpl; auto.
  destruct (p a) eqn:E. rewrite (M a E). simpl. lia. destruct (p' a); simpl; lia.
Qed.

Lemma first_copy_wins ops i w d L :
  let s := run ops s0 in
  nth_error (s_ws s) i = Some w -> w_open w = true -> w_fut w = FPending -> s_len s = Some L -> (0 < L)%N ->
  N.of_nat (length (w_buf w ++ d)) = L -> H (w_buf w ++ d) = h ->
  nofail s ->      (* no save that FAILED (executor job raised) is still winding down *)
  let s1 := fst (step (Write i d) s) in
  (* whatever operations (other than a reset of the object) follow: once the loop is idle and the executor has
     nothing pending, the blob is verified *)
  (forall ops', core_ops ops' -> let s' := run ops' s1 in s_q s' = [] -> s_io s' = None ->
     s_verified s' = true /\ exists b, s_store s' = Some b /\ H b = h /\ N.of_nat (length b) = L)
  (* and drain; io; drain reaches such a state; if nothing was being saved before, the completion callback is
     called exactly once more than the calls already made or already queued *)
  /\ (let s4 := run [Drain; IoDone; Drain] s1 in
      s_q s4 = [] /\ s_verified s4 = true /\ s_writing s4 = false
      /\ (exists b, s_store s4 = Some b /\ H b = h /\ N.of_nat (length b) = L)
      /\ (s_verified s = false -> s_writing s = false ->
          s_completed s4 = (s_completed s + cnt is_cp (s_q s) + if cb then 1 else 0)%nat)).
Proof.
  intros s Hn O P El Lp Ln Hh Nf s1.
  assert (Nf1 : nofail s1) by (eapply nofail_same_ctl; [apply (same_ctl_write i d s)|exact Nf]).
  destruct (winning_write ops i w d L Hn O P El Lp Ln Hh) as (_ & (w1 & N1 & F1 & _) & Q1).
  fold s in N1, Q1. fold s1 in N1, Q1.
  destruct (reach_all ops) as (I0 & J0 & _). fold s in I0, J0.
  assert (A1 : All s1) by (apply (All_step (Write i d)); apply reach_all).
  destruct A1 as (I1 & I21 & K1 & _).
  assert (L1 : Live s1) by (right; right; exists i, w1, (w_buf w ++ d); auto).
  assert (El1 : s_len s1 = Some L) by (apply step_len_kept; auto; discriminate).
  assert (SG : forall s', Inv s' -> s_len s' = Some L -> s_verified s' = true ->
               exists b, s_store s' = Some b /\ H b = h /\ N.of_nat (length b) = L).
  { intros s' I' E' V'. destruct (stored_good s' I' V') as (b & L' & X1 & X2 & X3 & X4).
    exists b. repeat split; auto. congruence. }
  split.
  - intros ops' Co s' Q Io.
    assert (A' : All s'). { apply All_run. apply (All_step (Write i d)). apply reach_all. }
    destruct A' as (I' & J' & _).
    assert (V : s_verified s' = true). { apply Live_quiescent; auto. apply Live_run; auto. }
    split; auto. apply SG; auto. apply run_len_kept; auto. apply core_no_delete; auto.
  - simpl. change (C01.drain kd cb ?x) with (drain kd cb x).
    set (s4 := drain kd cb (io_done (drain kd cb s1))).
    assert (V : s_verified s4 = true) by (apply wins_verified; auto).
    assert (A4 : All s4).
    { apply (All_run [Drain; IoDone; Drain]). apply (All_step (Write i d)). apply reach_all. }
    destruct A4 as (I4 & I24 & _).
    assert (Q4 : s_q s4 = []) by apply drain_quiescent.
    assert (El4 : s_len s4 = Some L).
    { change s4 with (run [Drain; IoDone; Drain] s1). apply run_len_kept; auto.
      repeat constructor; discriminate. }
    assert (W4 : s_writing s4 = false) by (destruct I24 as (_ & X & _); auto).
    repeat split; auto.
    intros V0 Wr0.
    assert (P4 : Psi s4 = Psi s).
    { unfold s4, drain. rewrite Psi_iter by (apply Inv2_io_done, Inv2_iter; auto).
      rewrite Psi_io_done. rewrite Psi_iter by auto. apply (Psi_step (Write i d)); simpl; auto. }
    destruct I24 as (E1 & _). destruct J0 as (F1' & _).
    unfold Psi, owed, io01 in *. rewrite Q4, V, W4 in *. rewrite V0, Wr0 in *.
    change (cnt is_cp []) with 0%nat in P4. change (tok_q []) with 0%nat in P4. change (stage_q []) with 0%nat in E1.
    simpl in *. destruct (s_io s4); [simpl in E1; lia|].
    assert (T0 : tok_q (s_q s) = 0%nat).
    { pose proof (cnt_le is_upF is_up (s_q s)) as Le. unfold tok_q, stage_q in *.
      assert ((cnt is_upF (s_q s) <= cnt is_up (s_q s))%nat) by (apply Le; intros []; simpl; auto; discriminate).
      destruct (s_io s); simpl in F1'; lia. }
    rewrite T0 in P4. destruct (s_io s); [simpl in F1'; lia|]. destruct cb; simpl in *; lia.
Qed.

(* the winner also shuts every other writer down *)
Lemma first_copy_closes_others ops i w d L :
  let s := run ops s0 in
  nth_error (s_ws s) i = Some w -> w_open w = true -> w_fut w = FPending -> s_len s = Some L -> (0 < L)%N ->
  N.of_nat (length (w_buf w ++ d)) = L -> H (w_buf w ++ d) = h ->
  let s1 := fst (step (Write i d) s) in
  let s2 := run [Drain] s1 in
  let s4 := run [Drain; IoDone; Drain] s1 in
  (forall j wj, nth_error (s_ws s2) j = Some wj -> w_open wj = false /\ w_fut wj <> FPending)
  /\ (forall j wj, nth_error (s_ws s4) j = Some wj -> w_open wj = false /\ w_fut wj <> FPending)
  /\ length (s_ws s4) = length (s_ws s).
Proof.
  intros s Hn O P El Lp Ln Hh s1 s2 s4.
  destruct (winning_write ops i w d L Hn O P El Lp Ln Hh) as (_ & (w1 & N1 & F1 & _) & Q1).
  fold s in N1, Q1. fold s1 in N1, Q1.
  assert (R1 : s1 = run (ops ++ [Write i d]) s0) by (rewrite run_app; reflexivity).
  assert (A1 : All s1) by (apply (All_step (Write i d)); apply reach_all).
  destruct A1 as (_ & _ & _ & Rg1 & C1).
  assert (Pw1 : PW s1) by (right; exists i, w1, (w_buf w ++ d); auto).
  assert (Np2 : NP s2).
  { apply PW_quiescent; [|apply drain_quiescent]. apply PW_iter; auto. }
  assert (C2 : Cl s2) by (apply Cl_iter; auto).
  assert (Q2 : s_q s2 = []) by apply drain_quiescent.
  assert (Np4 : NP s4).
  { unfold s4. simpl. eapply NP_mono; [apply wmono_iter|apply iter_nws|].
    eapply NP_ws; [|exact Np2]. unfold io_done.
    match goal with |- context [match s_io ?x with _ => _ end] => destruct (s_io x) end; auto. }
  assert (C4 : Cl s4) by (unfold s4; simpl; apply Cl_iter; apply (Cl_step IoDone); apply Cl_iter; auto).
  assert (Q4 : s_q s4 = []) by apply drain_quiescent.
  split; [|split].
  - intros j wj Hj. destruct (all_closed s2 C2 Np2 Q2 j wj Hj) as (A & B). split; auto. apply fut_done_true; auto.
  - intros j wj Hj. destruct (all_closed s4 C4 Np4 Q4 j wj Hj) as (A & B). split; auto. apply fut_done_true; auto.
  - unfold s4. simpl. change (C01.drain kd cb ?x) with (drain kd cb x). unfold drain. rewrite iter_nws.
    replace (length (s_ws (io_done (iter kd cb (fuel s1) s1)))) with (length (s_ws (iter kd cb (fuel s1) s1)))
      by (unfold io_done; match goal with |- context [match s_io ?x with _ => _ end] => destruct (s_io x) end; auto).
    rewrite iter_nws. unfold s1. simpl. unfold write. rewrite Hn. simpl. apply app_w_nws.
Qed.

(* the completion callback never fires twice unless the object was reset (read out / deleted) in between *)
Lemma completed_at_most_once ops : core_ops ops -> (s_completed (run ops s0) <= 1)%nat.
Proof.
  intros Co. assert (J0 : Inv2 s0) by (destruct A0 as (_ & J & _); exact J).
  pose proof (Psi_run ops s0 Co J0) as P. unfold Psi in P. rewrite Q0, C0 in P. unfold io01 in P. rewrite Io0 in P.
  change (cnt is_cp []) with 0%nat in P. change (tok_q []) with 0%nat in P.
  assert (owed s0 <= 1)%nat by (unfold owed; destruct (negb (s_verified s0) && negb (s_writing s0)); simpl; lia).
  destruct cb; simpl in P; lia.
Qed.

(* ------------------------------------------------------------------------------------------ *)
(* history level: the bytes a writer has hashed are exactly the chunks written to it, and its  *)
(* future's state is determined by them                                                       *)
(* ------------------------------------------------------------------------------------------ *)
Definition seen0 (s : state) (i : nat) : bytes :=
  match nth_error (s_ws s) i with Some w => w_seen w | None => [] end.

Lemma seen0_ws s s' i : s_ws s' = s_ws s -> seen0 s' i = seen0 s i.
Proof. unfold seen0. intros ->. auto. Qed.

Lemma seen0_app_w g j s i : (forall w, w_seen (fst (g w)) = w_seen w) -> seen0 (app_w g j s) i = seen0 s i.
Proof.
  intros Hg. unfold app_w, seen0. destruct (nth_error (s_ws s) j) eqn:Hj; auto.
  destruct (g w) as [w' fl] eqn:Eg. simpl. destruct (Nat.eq_dec j i) as [->|Hne].
  - erewrite nth_error_upd_eq by eauto. rewrite Hj. specialize (Hg w). rewrite Eg in Hg. auto.
  - rewrite nth_error_upd_neq by auto. auto.
Qed.

Lemma seen_close w : w_seen (fst (close_handle_w w)) = w_seen w.
Proof. unfold close_handle_w. destruct (fut_done (w_fut w)); auto. Qed.
Lemma seen_cancel w : w_seen (fst (cancel_w w)) = w_seen w.
Proof. unfold cancel_w. destruct (fut_done (w_fut w)); auto. Qed.

Lemma seen0_fold {A} (g : A -> state -> state) l s i :
  (forall x st, seen0 (g x st) i = seen0 st i) -> seen0 (fold_right g s l) i = seen0 s i.
Proof. intros Hg. induction l; simpl; auto. rewrite Hg; auto. Qed.

Lemma seen0_set_map m s i : seen0 (set_map m s) i = seen0 s i.
Proof. reflexivity. Qed.

Lemma seen0_close_others j s i : seen0 (close_others j s) i = seen0 s i.
Proof.
  unfold close_others. rewrite seen0_set_map.
  apply seen0_fold. intros x st. destruct (Nat.eqb (snd x) j); auto. apply seen0_app_w. apply seen_close.
Qed.

Lemma seen0_close_blob s i : seen0 (close_blob s) i = seen0 s i.
Proof.
  unfold close_blob. rewrite seen0_set_map.
  apply seen0_fold. intros x st. apply seen0_app_w. apply seen_cancel.
Qed.

Lemma seen0_run_item it s i : seen0 (run_item kd cb it s) i = seen0 s i.
Proof.
  destruct it; simpl; try (apply seen0_ws; reflexivity).
  - apply seen0_app_w. apply seen_close.
  - destruct (nth_error (s_ws s) i0); auto. destruct (w_fut w); auto.
    rewrite (seen0_ws (close_others i0 s) (save_verified kd b (close_others i0 s)) i (save_verified_ws b _)). apply seen0_close_others.
  - destruct kd; [apply seen0_ws; reflexivity|]. destruct (s_store s); apply seen0_ws; reflexivity.
Qed.

Lemma seen0_step1 s i : seen0 (step1 kd cb s) i = seen0 s i.
Proof. unfold step1. destruct (s_q s); auto. rewrite seen0_run_item. apply seen0_ws; reflexivity. Qed.

Lemma seen0_iter n s i : seen0 (iter kd cb n s) i = seen0 s i.
Proof. revert s; induction n; simpl; auto. intros. rewrite IHn. apply seen0_step1. Qed.

(* a result "counts" when HashBlobWriter.write got past its two guards, i.e. hashed the chunk *)
Definition counts (r : res) : bool := match r with ROk | RInvalid => true | _ => false end.

Definition contrib (i : nat) (o : op) (r : res) : bytes :=
  match o with Write j d => if (Nat.eqb j i && counts r)%bool then d else [] | _ => [] end.

Lemma step_seen0 o s i : Inv s -> seen0 (fst (step o s)) i = seen0 s i ++ contrib i o (snd (step o s)).
Proof.
  intros I. destruct o; simpl; rewrite ?app_nil_r.
  - apply seen0_ws. unfold set_length. destruct (s_len s); auto.
    destruct ((0 <=? n)%Z && (n <=? Z.of_N MAX_BLOB_SIZE)%Z); auto.
  - unfold open_writer. destruct (file_exists kd s); simpl; auto.
    match goal with |- context [if ?c then _ else _] => destruct c end; simpl; auto.
    unfold seen0; simpl. destruct (Nat.lt_ge_cases i (length (s_ws s))) as [Hi|Hi].
    + rewrite nth_error_app1 by auto. auto.
    + rewrite nth_error_app2 by auto. assert (Hn : nth_error (s_ws s) i = None) by (apply nth_error_None; auto).
      rewrite Hn. destruct (i - length (s_ws s))%nat as [|n0]; simpl; auto. destruct n0; auto.
  - unfold write. destruct (nth_error (s_ws s) i0) as [w|] eqn:Hw; simpl; [|rewrite andb_false_r, app_nil_r; auto].
    destruct (Nat.eqb_spec i0 i) as [->|Hne]; simpl.
    + unfold app_w, seen0. rewrite Hw. destruct (fst (wr_write (s_len s) w d)) as [w' fl] eqn:Ew. simpl.
      erewrite nth_error_upd_eq by eauto.
      destruct I as (_ & I2 & _). destruct (Forall_nth _ _ _ _ I2 Hw) as (_ & _ & C & _).
      revert Ew. unfold C01.wr_write. destruct (s_len s) as [L|]; simpl.
      2:{ intros E; inversion E; subst. rewrite app_nil_r; auto. }
      break_ifs; intros E; inversion E; subst; simpl; rewrite ?app_nil_r; auto.
      exfalso. norm_hyps. apply C; auto.
    + rewrite app_nil_r. unfold app_w, seen0. rewrite Hw.
      destruct (fst (wr_write (s_len s) w d)) as [w' fl]. simpl. rewrite nth_error_upd_neq by auto. auto.
  - apply seen0_app_w. apply seen_close.
  - apply seen0_close_blob.
  - apply seen0_iter.
  - apply seen0_iter.
  - apply seen0_ws. unfold io_done. destruct (s_io s); auto.
  - apply seen0_ws. apply read_frame.
  - unfold delete_blob. destruct (settled s); simpl; auto.
    rewrite (seen0_ws (close_blob s)) by reflexivity. apply seen0_close_blob.
  - simpl; auto.
  - simpl; auto.
  - simpl; auto.
  - apply seen0_ws. unfold io_fail. destruct (s_io s); auto.
Qed.

Fixpoint written (i : nat) (ops : list op) (rs : list res) : bytes :=
  match ops, rs with
  | o :: ops', r :: rs' => contrib i o r ++ written i ops' rs'
  | _, _ => []
  end.

Definition results (ops : list op) (s : state) : list res := map snd (run_log H h kd cb ops s).

Lemma seen_trace ops : forall s i, All s -> seen0 (run ops s) i = seen0 s i ++ written i ops (results ops s).
Proof.
  induction ops as [|o r IH]; intros s i A; simpl.
  - rewrite app_nil_r; auto.
  - rewrite IH by (apply All_step; auto). rewrite step_seen0 by (destruct A; auto). rewrite <- app_assoc. reflexivity.
Qed.

(* the future's state is a function of what was hashed *)
Definition w_hist (w : writer) : Prop :=
  (forall b, w_fut w = FOk b -> b = w_seen w /\ w_open w = false)
  /\ (w_fut w = FErrLen -> w_open w = false)
  /\ (w_fut w = FErrHash -> w_open w = false /\ H (w_seen w) <> h).

Lemma w_hist_close w : w_hist w -> w_hist (fst (close_handle_w w)).
Proof.
  intros (A & B & C). unfold close_handle_w. destruct (fut_done (w_fut w)) eqn:D; simpl.
  - split; [|split]; simpl; auto. intros b E. destruct (A b E); auto. intros E. destruct (C E); auto.
  - split; [|split]; simpl; intros; discriminate.
Qed.

Lemma w_hist_cancel w : w_hist w -> w_hist (fst (cancel_w w)).
Proof.
  intros Hw. unfold cancel_w. destruct (fut_done (w_fut w)) eqn:D; simpl; auto.
  split; [|split]; simpl; intros; discriminate.
Qed.

Lemma w_hist_write len w d : w_ok len w -> w_hist w -> w_hist (fst (fst (wr_write len w d))).
Proof.
  intros Hok Hw. unfold C01.wr_write. destruct len as [L|]; simpl; auto.
  break_ifs; auto; norm_hyps.
  all: destruct Hok as (_ & B & _); destruct Hw as (A1 & A2 & A3); unfold w_hist; simpl.
  all: split; [|split]; auto; try (intros; discriminate); try congruence.
  all: try (intros b Eb; destruct (A1 b Eb) as (_ & X); congruence).
  all: try (intros Eb; pose proof (A2 Eb); congruence).
  all: try (intros Eb; destruct (A3 Eb) as (X & _); congruence).
  - intros b Eb. inversion Eb; subst. destruct (B Heqb0 Heqb4) as (S1 & _). rewrite S1. auto.
Qed.

Section Gen.
Variable P : writer -> Prop.
Hypothesis Pclose : forall w, P w -> P (fst (close_handle_w w)).
Hypothesis Pcancel : forall w, P w -> P (fst (cancel_w w)).

Lemma gen_app_w g j s : (forall w, P w -> P (fst (g w))) -> Forall P (s_ws s) -> Forall P (s_ws (app_w g j s)).
Proof.
  intros Hg F. unfold app_w. destruct (nth_error (s_ws s) j) eqn:Hj; auto.
  destruct (g w) as [w' fl] eqn:Eg. simpl. apply Forall_upd; auto.
  replace w' with (fst (g w)) by (rewrite Eg; auto). apply Hg. eapply Forall_nth; eauto.
Qed.

Lemma gen_fold {A} (g : A -> state -> state) l s :
  (forall x st, Forall P (s_ws st) -> Forall P (s_ws (g x st))) -> Forall P (s_ws s) -> Forall P (s_ws (fold_right g s l)).
Proof. intros Hg Hs. induction l; simpl; auto. Qed.

Lemma gen_close_others i s : Forall P (s_ws s) -> Forall P (s_ws (close_others i s)).
Proof.
  intros F. unfold close_others; simpl. apply gen_fold; auto. intros x st Hst.
  destruct (Nat.eqb (snd x) i); auto. apply gen_app_w; auto.
Qed.

Lemma gen_close_blob s : Forall P (s_ws s) -> Forall P (s_ws (close_blob s)).
Proof. intros F. unfold close_blob; simpl. apply gen_fold; auto. intros x st Hst. apply gen_app_w; auto. Qed.

Lemma gen_run_item it s : Forall P (s_ws s) -> Forall P (s_ws (run_item kd cb it s)).
Proof.
  intros F. destruct it; simpl; auto.
  - apply gen_app_w; auto.
  - destruct (nth_error (s_ws s) i); auto. destruct (w_fut w); auto. rewrite save_verified_ws. apply gen_close_others; auto.
  - destruct kd; auto. destruct (s_store s); auto.
Qed.

Lemma gen_iter n s : Forall P (s_ws s) -> Forall P (s_ws (iter kd cb n s)).
Proof.
  revert s; induction n; simpl; auto. intros s F. apply IHn. unfold step1. destruct (s_q s); auto.
  apply gen_run_item. auto.
Qed.
End Gen.

Definition Hist (s : state) : Prop := Forall w_hist (s_ws s).

Lemma Hist_step o s : Inv s -> Hist s -> Hist (fst (step o s)).
Proof.
  intros I Hs. unfold Hist in *. destruct o; simpl.
  - unfold set_length. destruct (s_len s); auto. destruct ((0 <=? n)%Z && (n <=? Z.of_N MAX_BLOB_SIZE)%Z); auto.
  - unfold open_writer. destruct (file_exists kd s); simpl; auto.
    match goal with |- context [if ?c then _ else _] => destruct c end; simpl; auto.
    apply Forall_app; split; auto. constructor; auto. split; [|split]; simpl; intros; discriminate.
  - unfold write. destruct (nth_error (s_ws s) i) eqn:Hi; simpl; auto.
    unfold app_w. rewrite Hi. destruct (fst (wr_write (s_len s) w d)) as [w' fl] eqn:Ew. simpl.
    apply Forall_upd; auto. replace w' with (fst (fst (wr_write (s_len s) w d))) by (rewrite Ew; auto).
    apply w_hist_write. destruct I as (_ & I2 & _). eapply Forall_nth; eauto. eapply Forall_nth; eauto.
  - apply gen_app_w; auto. apply w_hist_close.
  - apply gen_close_blob; auto. apply w_hist_cancel.
  - apply gen_iter; auto. apply w_hist_close.
  - apply gen_iter; auto. apply w_hist_close.
  - unfold io_done. destruct (s_io s); auto.
  - destruct (read_frame s) as (E1 & _). rewrite E1. auto.
  - unfold delete_blob. destruct (settled s); simpl; auto. apply gen_close_blob; auto. apply w_hist_cancel.
  - simpl; auto.
  - simpl; auto.
  - simpl; auto.
  - unfold io_fail. destruct (s_io s); auto.
Qed.

Lemma Hist_run ops : forall s, All s -> Hist s -> Hist (run ops s).
Proof.
  induction ops; simpl; auto. intros s A Hs. apply IHops. apply All_step; auto. apply Hist_step; auto. destruct A; auto.
Qed.

(* every writer, after any history (resets included): what it hashed is the concatenation of the chunks whose
   write() call got past the guards, and the state of its future is determined by those bytes *)
Lemma writer_history ops i w :
  nth_error (s_ws (run ops s0)) i = Some w ->
  let t := written i ops (results ops s0) in
  w_seen w = t
  /\ (forall b, w_fut w = FOk b -> b = t /\ H t = h /\ (0 < N.of_nat (length t) <= MAX_BLOB_SIZE)%N)
  /\ (w_fut w = FErrHash -> H t <> h)
  /\ (w_fut w = FPending -> forall L, s_len (run ops s0) = Some L -> L <> 0%N -> (N.of_nat (length t) < L)%N).
Proof.
  intros Hn t.
  destruct (reach_all ops) as (I & _).
  assert (Hs : Hist (run ops s0)) by (apply Hist_run; [apply A0|unfold Hist; rewrite W0; constructor]).
  assert (St : w_seen w = t).
  { pose proof (seen_trace ops s0 i A0) as X. unfold seen0 in X. rewrite Hn, W0 in X.
    destruct i; simpl in X; exact X. }
  destruct I as (_ & I2 & _). destruct (Forall_nth _ _ _ _ I2 Hn) as (A & B & C & _).
  destruct (Forall_nth _ _ _ _ Hs Hn) as (G1 & G2 & G3).
  rewrite St in *. split; auto. split; [|split].
  - intros b Eb. destruct (G1 b Eb) as (X & _). split; auto. destruct (A b Eb) as (E3 & E4). subst b. auto.
  - intros E. destruct (G3 E) as (_ & X). auto.
  - intros E L EL Hne. destruct (w_open w) eqn:O; [|exfalso; apply C; auto].
    destruct (B eq_refl E) as (_ & X). apply X; auto.
Qed.

(* ------------------------------------------------------------------------------------------ *)
(* exactly those bytes: while nothing is being saved, the first queued writer_finished_callback *)
(* that carries a result decides what is stored                                               *)
(* ------------------------------------------------------------------------------------------ *)
Section Exact.
Variable b : bytes.      (* the bytes of the first complete correct copy *)

(* writer j finished without a result *)
Definition loser (s : state) (j : nat) : Prop :=
  exists wj, nth_error (s_ws s) j = Some wj /\ fut_done (w_fut wj) = true /\ forall x, w_fut wj <> FOk x.
Definition losers (s : state) (pre : list qitem) : Prop :=
  Forall (fun it => match it with QWfc j => loser s j | _ => True end) pre.

Definition Ex (s : state) : Prop :=
  (forall x, In (QTask x) (s_q s) -> x = b)
  /\ (forall x, s_io s = Some x -> x = b)
  /\ (forall x, s_store s = Some x -> x = b)
  /\ (s_verified s = false -> s_writing s = false ->
      exists pre post i w, s_q s = pre ++ QWfc i :: post /\ nth_error (s_ws s) i = Some w /\ w_fut w = FOk b
                           /\ losers s pre).

Lemma loser_mono s s' j : wmono s s' -> loser s j -> loser s' j.
Proof.
  intros M (wj & A & B & C). destruct (M j wj A) as (w' & N' & _ & F' & _).
  exists w'. rewrite F' by auto. auto.
Qed.

Lemma losers_mono s s' pre : wmono s s' -> losers s pre -> losers s' pre.
Proof.
  intros M L. unfold losers in *. eapply Forall_impl; [|exact L]. intros [] X; auto. eapply loser_mono; eauto.
Qed.

Lemma plain_not_task l x : Forall plain l -> ~ In (QTask x) l.
Proof. intros F Hin. rewrite Forall_forall in F. apply (F _ Hin). Qed.

Lemma Ex_neutral s s' : same_ctl s s' -> wmono s s' -> Ex s -> Ex s'.
Proof.
  intros (A1 & A2 & A3 & A4 & _ & _ & l & A7 & A8) M (E1 & E2 & E3 & E4).
  unfold Ex. rewrite A1, A2, A3, A4, A7. repeat split; auto.
  - intros x Hin. apply in_app_or in Hin. destruct Hin as [Hin|Hin]; auto. exfalso; eapply plain_not_task; eauto.
  - intros V W. destruct (E4 V W) as (pre & post & i & w & Q & N & F & L).
    destruct (M i w N) as (w' & N' & _ & F' & _).
    exists pre, (post ++ l), i, w'. repeat split; auto.
    + rewrite Q. rewrite <- app_assoc. reflexivity.
    + rewrite F' by (rewrite F; auto). auto.
    + eapply losers_mono; eauto.
Qed.

Definition idle (s : state) : Prop := s_verified s = false /\ s_writing s = false.

Lemma idle_head_plain s p r : Inv2 s -> idle s -> s_q s = p :: r -> plain p \/ p = QCompleted.
Proof.
  intros (I1 & _) (V & W) Eq. rewrite Eq, W in I1. simpl in I1.
  assert (Z : stage_q (p :: r) = 0%nat) by lia.
  destruct (stage_zero_in _ p Z) as (A & B & C & D); [left; auto|].
  destruct p; simpl in *; auto; discriminate.
Qed.

Lemma idle_no_store s : Inv2 s -> idle s -> s_store s = None /\ s_io s = None.
Proof.
  intros I (V & W). assert (I' := I). destruct I' as (I1 & _ & I4). split.
  - destruct (s_store s) eqn:E; auto. destruct (stored_busy s I) as [X|X]; congruence.
  - unfold io01 in I1. rewrite W in I1. destruct (s_io s); auto. simpl in I1. lia.
Qed.

Lemma Ex_sub s r : (forall it, In it r -> In it (s_q s)) ->
  (s_verified s = false -> s_writing s = false -> False) -> Ex s -> Ex (set_q r s).
Proof.
  intros Q NI (E1 & E2 & E3 & E4). unfold Ex; simpl. repeat split; auto. intros V W. exfalso; auto.
Qed.

Lemma save_verified_busy x s : (s_verified s = true \/ s_writing s = true) -> save_verified kd x s = s.
Proof.
  intros [V|W]; unfold save_verified. rewrite V; auto.
  destruct (s_verified s); auto. unfold writeable. rewrite W. auto.
Qed.

(* the data part of [Ex] *)
Definition Exd (s : state) : Prop :=
  (forall x, In (QTask x) (s_q s) -> x = b) /\ (forall x, s_io s = Some x -> x = b) /\ (forall x, s_store s = Some x -> x = b).

Definition busy (s : state) : Prop := s_verified s = true \/ s_writing s = true.

Lemma Ex_busy s : busy s -> Exd s -> Ex s.
Proof.
  intros Bz (D1 & D2 & D3). unfold Ex. repeat split; auto. intros V W. destruct Bz; congruence.
Qed.

Lemma Exd_same_ctl s s' : same_ctl s s' -> Exd s -> Exd s'.
Proof.
  intros (_ & _ & A3 & A4 & _ & _ & l & A7 & A8) (D1 & D2 & D3). unfold Exd. rewrite A3, A4, A7.
  repeat split; auto. intros x Hin. apply in_app_or in Hin. destruct Hin as [Hin|Hin]; auto.
  exfalso; eapply plain_not_task; eauto.
Qed.

Lemma Exd_enq l s : (forall x, ~ In (QTask x) l) -> Exd s -> Exd (enq l s).
Proof.
  intros Hl (D1 & D2 & D3). unfold Exd, enq; simpl. repeat split; auto.
  intros x Hin. apply in_app_or in Hin. destruct Hin as [Hin|Hin]; auto. exfalso; eapply Hl; eauto.
Qed.

Lemma Exd_enq_task s : Exd s -> Exd (enq [QTask b] s).
Proof.
  intros (D1 & D2 & D3). unfold Exd, enq; simpl. repeat split; auto.
  intros x Hin. apply in_app_or in Hin. destruct Hin as [Hin|[Hin|[]]]; auto. inversion Hin; auto.
Qed.

Lemma Exd_set_writing v s : Exd s -> Exd (set_writing v s).
Proof. intros (D1 & D2 & D3). repeat split; auto. Qed.

Lemma done_cbs_no_task x : ~ In (QTask x) (done_cbs cb).
Proof. unfold done_cbs. destruct cb; simpl; intuition discriminate. Qed.

Lemma Exd_run_item it s : busy s -> Exd s -> (forall x, it = QTask x -> x = b) -> Exd (run_item kd cb it s).
Proof.
  intros Bz D Tk. destruct it; simpl.
  - eapply Exd_same_ctl; [apply same_ctl_app_w|auto].
  - eapply Exd_same_ctl; [apply same_ctl_set_map|auto].
  - destruct (nth_error (s_ws s) i); auto. destruct (w_fut w); auto.
    rewrite save_verified_busy.
    + eapply Exd_same_ctl; [apply same_ctl_close_others|auto].
    + destruct (same_ctl_close_others i s) as (X1 & X2 & _). rewrite X1, X2. exact Bz.
  - rewrite (Tk b0 eq_refl). destruct D as (D1 & D2 & D3). destruct kd.
    + unfold Exd; simpl. repeat split; auto. intros x E0. inversion E0; auto.
    + destruct (s_store s) eqn:Es.
      * apply Exd_enq. intros x Hin. unfold fail_cbs in Hin. destruct cb; simpl in Hin; intuition discriminate.
        repeat split; auto. intros x E0. apply D3. congruence.
      * apply Exd_enq. apply done_cbs_no_task.
        unfold Exd; simpl. repeat split; auto. intros x E0. inversion E0; auto.
  - apply Exd_enq; auto. intros x Hin. simpl in Hin. intuition discriminate.
  - auto.
  - apply Exd_enq; auto. apply done_cbs_no_task.
  - destruct D as (D1 & D2 & D3). repeat split; auto.
  - destruct D as (D1 & D2 & D3). repeat split; auto.
  - apply Exd_enq; auto. intros x Hin. simpl in Hin. intuition discriminate.
  - apply Exd_enq; auto. intros x Hin. unfold fail_cbs in Hin. destruct cb; simpl in Hin; intuition discriminate.
  - destruct D as (D1 & D2 & D3). repeat split; auto.
Qed.

Lemma busy_run_item it s : it <> QUpdateF -> busy s -> busy (run_item kd cb it s).
Proof.
  intros Hnf [V|W]. left; apply run_item_verified; auto.
  destruct (run_item_writing it s Hnf W); [right|left]; auto.
Qed.

Lemma Ex_run_item it r s : Inv2 s -> nofail s -> Ex s -> s_q s = it :: r -> Ex (run_item kd cb it (set_q r s)).
Proof.
  intros I2 Nf E Eq.
  assert (Hh : it <> QUpdateF). { intros ->. assert (X : is_fail QUpdateF = false) by (apply Nf; rewrite Eq; left; auto). discriminate. }
  destruct (s_verified s) eqn:V; [|destruct (s_writing s) eqn:W].
  1, 2: apply Ex_busy; [apply busy_run_item; auto; unfold busy; simpl; auto|].
  1, 2: apply Exd_run_item; [unfold busy; simpl; auto| |intros x ->; destruct E as (E1 & _); apply E1; rewrite Eq; left; auto].
  1, 2: destruct E as (E1 & E2 & E3 & _); unfold Exd; simpl; repeat split; auto; intros x Hx; apply E1; rewrite Eq; right; auto.
  (* idle: the head of the queue is a plain callback; the first result-bearing one is ours *)
  assert (Id : idle s) by (split; auto).
  pose proof (idle_head_plain s it r I2 Id Eq) as Pl.
  destruct (idle_no_store s I2 Id) as (Sn & Ion).
  destruct E as (E1 & E2 & E3 & E4). destruct (E4 V W) as (pre & post & i & w & Q & N & F & L).
  rewrite Eq in Q. destruct pre as [|p pre'].
  - (* our callback runs now *)
    simpl in Q. inversion Q; subst it r. simpl. change (s_ws (set_q post s)) with (s_ws s). rewrite N, F.
    destruct (same_ctl_close_others i (set_q post s)) as (X1 & X2 & X3 & X4 & _ & _ & l & X7 & X8).
    change (s_writing (set_q post s)) with (s_writing s) in X1. change (s_verified (set_q post s)) with (s_verified s) in X2.
    change (s_io (set_q post s)) with (s_io s) in X3. change (s_store (set_q post s)) with (s_store s) in X4.
    change (s_q (set_q post s)) with post in X7.
    assert (Wr : writeable kd (close_others i (set_q post s)) = true).
    { unfold writeable, file_exists. rewrite X1, X4, W, Sn. destruct kd; auto. }
    unfold save_verified. rewrite X2, V, Wr. apply Ex_busy. right; reflexivity.
    apply Exd_enq_task. apply Exd_set_writing. eapply Exd_same_ctl; [apply same_ctl_close_others|].
    unfold Exd; simpl. repeat split; auto. intros x Hx. apply E1. rewrite Eq; right; auto.
  - (* a loser's (or a plain) callback runs; ours moves one place forward *)
    simpl in Q. inversion Q; subst p r.
    assert (E0 : Ex (set_q (pre' ++ QWfc i :: post) s)).
    { unfold Ex; simpl. repeat split; auto.
      - intros x Hx. apply E1. rewrite Eq; right; auto.
      - intros _ _. exists pre', post, i, w. repeat split; auto. inversion L; auto. }
    inversion L as [|? ? Lh Lt]; subst.
    destruct Pl as [Pl|Pl]; [|subst it; simpl; destruct E0 as (F1 & F2 & F3 & F4); unfold Ex; simpl; repeat split; auto].
    destruct it; simpl in Pl; try contradiction; simpl.
    + eapply Ex_neutral; [apply same_ctl_app_w|eapply wmono_app_w; apply (wtrans_close None)|auto].
    + eapply Ex_neutral; [apply same_ctl_set_map|apply wmono_ws; reflexivity|auto].
    + destruct Lh as (wj & A & B & C). change (s_ws (set_q (pre' ++ QWfc i :: post) s)) with (s_ws s).
      rewrite A. destruct (w_fut wj) eqn:Ef; auto. exfalso. eapply C; eauto.
    + auto.
Qed.

Lemma Ex_step1 s : Inv2 s -> nofail s -> Ex s -> Ex (step1 kd cb s).
Proof. intros I2 Nf E. unfold step1. destruct (s_q s) eqn:Eq; auto. apply Ex_run_item; auto. Qed.

Lemma Ex_iter n s : Inv2 s -> nofail s -> Ex s -> Ex (iter kd cb n s).
Proof.
  revert s; induction n; simpl; auto. intros. apply IHn. apply Inv2_step1; auto. apply nofail_step1; auto.
  apply Ex_step1; auto.
Qed.

Lemma Ex_step o s : core_op o -> Inv2 s -> nofail s -> Ex s -> Ex (fst (step o s)).
Proof.
  intros Co I2 Nf E. destruct o; simpl in *; try contradiction.
  - unfold set_length. destruct (s_len s); auto.
    destruct ((0 <=? n)%Z && (n <=? Z.of_N MAX_BLOB_SIZE)%Z); auto.
  - eapply Ex_neutral; [apply same_ctl_open|apply (wmono_step (Open k))|auto].
  - eapply Ex_neutral; [apply same_ctl_write|apply (wmono_step (Write i d))|auto].
  - eapply Ex_neutral; [apply same_ctl_app_w|apply (wmono_step (CloseW i))|auto].
  - eapply Ex_neutral; [apply same_ctl_close_blob|apply wmono_close_blob|auto].
  - apply Ex_iter; auto.
  - apply Ex_iter; auto.
  - unfold io_done. destruct (s_io s) eqn:Ei; auto.
    destruct E as (E1 & E2 & E3 & E4). unfold Ex, enq; simpl. repeat split; auto; try (intros; discriminate).
    + intros x Hin. apply in_app_or in Hin. destruct Hin as [Hin|Hin]; auto. simpl in Hin; intuition discriminate.
    + intros x Ex0. inversion Ex0; subst. auto.
    + intros V W. exfalso. destruct I2 as (I1 & _). unfold io01 in I1. rewrite Ei, W in I1. simpl in I1. lia.
  - simpl; auto.
  - simpl; auto.
  - simpl; auto.
Qed.

Lemma Ex_run ops s : core_ops ops -> Inv2 s -> nofail s -> Ex s -> Ex (run ops s).
Proof.
  revert s; induction ops; simpl; auto. intros s Co I2 Nf E. inversion Co; subst.
  apply IHops; auto. apply Inv2_step; auto. apply nofail_step; auto. apply Ex_step; auto.
Qed.

End Exact.

(* "exactly those bytes": if nothing is being saved and no other writer's result is waiting in the queue when a
   live writer completes a correct copy t, then nothing but t is ever stored afterwards (until the object is reset) *)
Lemma first_copy_exact ops i w d L :
  let s := run ops s0 in
  nth_error (s_ws s) i = Some w -> w_open w = true -> w_fut w = FPending -> s_len s = Some L -> (0 < L)%N ->
  N.of_nat (length (w_buf w ++ d)) = L -> H (w_buf w ++ d) = h ->
  s_verified s = false -> s_writing s = false ->
  (forall j, In (QWfc j) (s_q s) -> loser s j) ->
  nofail s ->
  let s1 := fst (step (Write i d) s) in
  forall ops' x, core_ops ops' -> s_store (run ops' s1) = Some x -> x = w_buf w ++ d.
Proof.
  intros s Hn O P El Lp Ln Hh V W Lo Nf s1 ops' x Co.
  assert (Nf1 : nofail s1) by (eapply nofail_same_ctl; [apply (same_ctl_write i d s)|exact Nf]).
  destruct (winning_write ops i w d L Hn O P El Lp Ln Hh) as (_ & (w1 & N1 & F1 & _) & _).
  fold s in N1. fold s1 in N1.
  destruct (reach_all ops) as (_ & I2 & _). fold s in I2.
  assert (I21 : Inv2 s1) by (apply Inv2_step; auto).
  destruct (idle_no_store s I2 (conj V W)) as (Sn & Ion).
  assert (Q1 : s_q s1 = s_q s ++ cbs i (w_key w)).
  { unfold s1. simpl. unfold write. rewrite Hn. simpl. unfold app_w. rewrite Hn.
    destruct (reach_all ops) as (I & _). fold s in I. destruct I as (_ & I2' & _).
    destruct (Forall_nth _ _ _ _ I2' Hn) as (_ & B & _). destruct (B O P) as (Sb & _).
    assert (Lv : live L w) by (repeat split; auto; lia).
    rewrite El. rewrite wr_write_live by auto. unfold live_result.
    destruct (N.ltb_spec L (N.of_nat (length (w_buf w ++ d)))); [lia|].
    destruct (N.eqb_spec (N.of_nat (length (w_buf w ++ d))) L); [|contradiction].
    rewrite <- Hh. rewrite bytes_eqb_refl. reflexivity. }
  destruct (same_ctl_write i d s) as (_ & _ & A3 & A4 & _).
  assert (E : Ex (w_buf w ++ d) s1).
  change (fst (write H h i d s)) with s1 in A3, A4.
  { unfold Ex. rewrite A3, A4, Sn, Ion. repeat split; try (intros; discriminate).
    - intros y Hin. rewrite Q1 in Hin. apply in_app_or in Hin. destruct Hin as [Hin|Hin].
      + exfalso. destruct I2 as (I1 & _). unfold io01 in I1. rewrite W, Ion in I1. unfold stage_q in I1.
        assert (Z : cnt is_task (s_q s) = 0%nat) by (simpl in I1; lia).
        pose proof (cnt_zero_in _ _ _ Z Hin). discriminate.
      + simpl in Hin. intuition discriminate.
    - intros _ _. exists (s_q s ++ [QClose i; QRemove (w_key w) i]), [], i, w1. repeat split; auto.
      + rewrite Q1. unfold cbs. rewrite <- app_assoc. reflexivity.
      + unfold losers. apply Forall_app. split.
        * apply Forall_forall. intros it Hin. destruct it; auto. eapply loser_mono; [apply (wmono_step (Write i d))|auto].
        * repeat constructor. }
  intros Es. pose proof (Ex_run (w_buf w ++ d) ops' s1 Co I21 Nf1 E) as (_ & _ & E3 & _). auto.
Qed.

End C01.

(* ------------------------------------------------------------------------------------------ *)
(* the starting states: a fresh object, or BlobManager.get_blob(hash, expected) over a blob    *)
(* directory that may already hold a file (restart)                                           *)
(* ------------------------------------------------------------------------------------------ *)
(* the file, if there is one, is taken over by the constructor *)
Definition taken_over (f : bytes) (expected : option N) : Prop :=
  match expected with Some L => L = 0%N \/ L = N.of_nat (length f) | None => True end.

(* what the theorems assume about the start: the expected length, if given, is at most 2^21 (it is taken as it is
   by the constructor), and a pre-existing file THAT IS TAKEN OVER is an intact copy.  A file whose size differs
   from the (non-zero) expected length needs no assumption at all: it is deleted. *)
Definition start_ok (H : bytes -> bytes) (h : bytes) (kd : kind) (file : option bytes) (expected : option N) : Prop :=
  (forall L, expected = Some L -> (L <= MAX_BLOB_SIZE)%N)
  /\ (forall f, kd = KFile -> file = Some f -> taken_over f expected -> good H h f).

Lemma start_cases kd file expected :
  start kd file expected = init
  \/ start kd file expected = mkS expected [] [] [] false false None None O
  \/ (exists f, kd = KFile /\ file = Some f /\ taken_over f expected
                /\ start kd file expected = mkS (Some (N.of_nat (length f))) [] [] [] false true None (Some f) O).
Proof.
  unfold start. destruct kd; auto. destruct file as [f|]; auto.
  destruct expected as [L|]; simpl.
  - destruct (N.eqb_spec L 0); simpl.
    + right; right. exists f. repeat split; auto.
    + destruct (N.eqb_spec L (N.of_nat (length f))); simpl; auto.
      right; right. exists f. repeat split; auto.
  - right; right. exists f. repeat split; auto.
Qed.

Lemma All_bare H h expected : (forall L, expected = Some L -> (L <= MAX_BLOB_SIZE)%N) ->
  All H h (mkS expected [] [] [] false false None None O).
Proof.
  intros HL. unfold All, Inv, Inv2, Qok, Reg, Cl; simpl. repeat split; auto; try discriminate; try tauto.
  - constructor.
  - intros [|i] w; discriminate.
  - intros [|i] w; discriminate.
Qed.

Lemma start_All H h kd file expected : start_ok H h kd file expected -> All H h (start kd file expected).
Proof.
  intros (HL & HF). destruct (start_cases kd file expected) as [E|[E|(f & Ek & Ef & Ta & E)]]; rewrite E.
  - apply All_init.
  - apply All_bare; auto.
  - destruct (HF f Ek Ef Ta) as ((G1 & G2) & G3).
    unfold All, Inv, Inv2, Qok, Reg, Cl, goodS, good; simpl. repeat split; auto; try discriminate; try tauto.
    + intros L E1. inversion E1; subst. auto.
    + intros b E1. inversion E1; subst. eexists; repeat split; eauto.
    + constructor.
    + intros [|i] w; discriminate.
    + intros [|i] w; discriminate.
Qed.

Lemma start_ws kd file expected : s_ws (start kd file expected) = [].
Proof. destruct (start_cases kd file expected) as [E|[E|(f & _ & _ & _ & E)]]; rewrite E; reflexivity. Qed.
Lemma start_q kd file expected : s_q (start kd file expected) = [].
Proof. destruct (start_cases kd file expected) as [E|[E|(f & _ & _ & _ & E)]]; rewrite E; reflexivity. Qed.
Lemma start_io kd file expected : s_io (start kd file expected) = None.
Proof. destruct (start_cases kd file expected) as [E|[E|(f & _ & _ & _ & E)]]; rewrite E; reflexivity. Qed.
Lemma start_completed kd file expected : s_completed (start kd file expected) = 0%nat.
Proof. destruct (start_cases kd file expected) as [E|[E|(f & _ & _ & _ & E)]]; rewrite E; reflexivity. Qed.

(* the constructor itself: what BlobManager.get_blob(hash, expected) hands back over an existing file *)
Lemma start_existing_file f expected :
  let s := start KFile (Some f) expected in
  (taken_over f expected ->
     s_verified s = true /\ s_store s = Some f /\ s_len s = Some (N.of_nat (length f)))
  /\ (~ taken_over f expected -> s_verified s = false /\ s_store s = None /\ s_len s = None)
  /\ (forall L, expected = Some L -> L <> 0%N -> s_verified s = true -> s_len s = Some L /\ N.of_nat (length f) = L).
Proof.
  unfold start, taken_over. destruct expected as [E|]; simpl.
  - destruct (N.eqb_spec E 0); simpl.
    + split; [|split]; auto; try tauto. intros L X Hne. inversion X; subst. contradiction.
    + destruct (N.eqb_spec E (N.of_nat (length f))); simpl.
      * split; [|split]; auto; try tauto. intros L X _ _. inversion X; subst; auto.
      * split; [|split]; auto; try tauto; try (intros [X|X]; contradiction); intros; discriminate.
  - split; [|split]; auto; try tauto; intros; discriminate.
Qed.

Ltac from_start Ok :=
  first [ apply start_All; exact Ok | apply start_ws | apply start_q | apply start_io | apply start_completed ].

Section FromStart.
Variable H : bytes -> bytes.
Variable h : bytes.
Variable kd : kind.
Variable cb : bool.
Variable file : option bytes.
Variable expected : option N.
Hypothesis Ok : start_ok H h kd file expected.
Notation s0 := (start kd file expected).

Lemma only_matching_start ops :
  let s := run H h kd cb ops s0 in
  (s_verified s = true ->
     exists b L, s_store s = Some b /\ s_len s = Some L /\ N.of_nat (length b) = L
                 /\ (0 < L <= MAX_BLOB_SIZE)%N /\ H b = h)
  /\ (forall b, s_store s = Some b ->
     exists L, s_len s = Some L /\ N.of_nat (length b) = L /\ (0 < L <= MAX_BLOB_SIZE)%N /\ H b = h).
Proof. apply only_matching; from_start Ok. Qed.

Lemma writer_result_good_start ops i w b :
  nth_error (s_ws (run H h kd cb ops s0)) i = Some w -> w_fut w = FOk b ->
  (0 < N.of_nat (length b) <= MAX_BLOB_SIZE)%N /\ H b = h.
Proof. apply writer_result_good; from_start Ok. Qed.

Lemma length_once_bounded_start ops1 ops2 L :
  s_len (run H h kd cb ops1 s0) = Some L ->
  (L <= MAX_BLOB_SIZE)%N /\ (no_delete ops2 -> s_len (run H h kd cb (ops1 ++ ops2) s0) = Some L).
Proof. apply length_once_bounded; from_start Ok. Qed.

Lemma writer_history_start ops i w :
  nth_error (s_ws (run H h kd cb ops s0)) i = Some w ->
  let t := written i ops (results H h kd cb ops s0) in
  w_seen w = t
  /\ (forall b, w_fut w = FOk b -> b = t /\ H t = h /\ (0 < N.of_nat (length t) <= MAX_BLOB_SIZE)%N)
  /\ (w_fut w = FErrHash -> H t <> h)
  /\ (w_fut w = FPending -> forall L, s_len (run H h kd cb ops s0) = Some L -> L <> 0%N -> (N.of_nat (length t) < L)%N).
Proof. apply writer_history; from_start Ok. Qed.

Lemma first_copy_wins_start ops i w d L :
  let s := run H h kd cb ops s0 in
  nth_error (s_ws s) i = Some w -> w_open w = true -> w_fut w = FPending -> s_len s = Some L -> (0 < L)%N ->
  N.of_nat (length (w_buf w ++ d)) = L -> H (w_buf w ++ d) = h ->
  nofail s ->
  let s1 := fst (step H h kd cb (Write i d) s) in
  (forall ops', core_ops ops' -> let s' := run H h kd cb ops' s1 in s_q s' = [] -> s_io s' = None ->
     s_verified s' = true /\ exists b, s_store s' = Some b /\ H b = h /\ N.of_nat (length b) = L)
  /\ (let s4 := run H h kd cb [Drain; IoDone; Drain] s1 in
      s_q s4 = [] /\ s_verified s4 = true /\ s_writing s4 = false
      /\ (exists b, s_store s4 = Some b /\ H b = h /\ N.of_nat (length b) = L)
      /\ (s_verified s = false -> s_writing s = false ->
          s_completed s4 = (s_completed s + cnt is_cp (s_q s) + if cb then 1 else 0)%nat)).
Proof. apply first_copy_wins; from_start Ok. Qed.

Lemma first_copy_exact_start ops i w d L :
  let s := run H h kd cb ops s0 in
  nth_error (s_ws s) i = Some w -> w_open w = true -> w_fut w = FPending -> s_len s = Some L -> (0 < L)%N ->
  N.of_nat (length (w_buf w ++ d)) = L -> H (w_buf w ++ d) = h ->
  s_verified s = false -> s_writing s = false ->
  (forall j, In (QWfc j) (s_q s) -> loser s j) ->
  nofail s ->
  let s1 := fst (step H h kd cb (Write i d) s) in
  forall ops' x, core_ops ops' -> s_store (run H h kd cb ops' s1) = Some x -> x = w_buf w ++ d.
Proof. apply first_copy_exact; from_start Ok. Qed.

Lemma first_copy_closes_others_start ops i w d L :
  let s := run H h kd cb ops s0 in
  nth_error (s_ws s) i = Some w -> w_open w = true -> w_fut w = FPending -> s_len s = Some L -> (0 < L)%N ->
  N.of_nat (length (w_buf w ++ d)) = L -> H (w_buf w ++ d) = h ->
  let s1 := fst (step H h kd cb (Write i d) s) in
  let s2 := run H h kd cb [Drain] s1 in
  let s4 := run H h kd cb [Drain; IoDone; Drain] s1 in
  (forall j wj, nth_error (s_ws s2) j = Some wj -> w_open wj = false /\ w_fut wj <> FPending)
  /\ (forall j wj, nth_error (s_ws s4) j = Some wj -> w_open wj = false /\ w_fut wj <> FPending)
  /\ length (s_ws s4) = length (s_ws s).
Proof. apply first_copy_closes_others; from_start Ok. Qed.

Lemma manager_yes_only_verified_start ops o :
  (o = Ensure \/ exists n, o = IsVerified n) ->
  snd (step H h kd cb o (run H h kd cb ops s0)) = RBool true ->
  let s := run H h kd cb ops s0 in
  fst (step H h kd cb o s) = s /\ s_verified s = true /\
  exists b L, s_store s = Some b /\ s_len s = Some L /\ N.of_nat (length b) = L
              /\ (0 < L <= MAX_BLOB_SIZE)%N /\ H b = h.
Proof. apply manager_yes_only_verified; from_start Ok. Qed.

Lemma completed_at_most_once_start ops : core_ops ops -> (s_completed (run H h kd cb ops s0) <= 1)%nat.
Proof. apply completed_at_most_once; from_start Ok. Qed.

End FromStart.

(* the fresh object is the start without file and without expected length *)
Lemma start_ok_fresh H h kd : start_ok H h kd None None.
Proof. split; intros; discriminate. Qed.
Lemma start_fresh kd : start kd None None = init.
Proof. destruct kd; reflexivity. Qed.

(* ------------------------------------------------------------------------------------------ *)
(* concrete histories used as non-vacuity examples in Props/C01.v (toy hash H b = b)          *)
(* ------------------------------------------------------------------------------------------ *)
Definition ex_Hid (b : bytes) : bytes := b.
Definition ex_nm : bytes := [Byte.x01; Byte.x02; Byte.x03].
Definition ex_ops1 : list op :=
  [SetLength 3; Open 1; Open 2; Write 0 [Byte.x01]; Write 1 [Byte.x01]; Write 0 [Byte.x02; Byte.xff];
   Write 1 [Byte.x02]; Tick].
Definition ex_stale : list op :=
  [SetLength 3; Open 1; Write 0 [Byte.x01; Byte.x02; Byte.x03; Byte.x04]; Open 1; Tick; Open 2;
   Write 2 ex_nm; Drain; IoDone; Drain].

Lemma ex_hypotheses :
  let s := run ex_Hid ex_nm KFile true ex_ops1 init in
  (exists w, nth_error (s_ws s) 1 = Some w /\ w_open w = true /\ w_fut w = FPending
                /\ w_buf w = [Byte.x01; Byte.x02]) /\ s_len s = Some 3%N
  /\ s_verified s = false /\ s_writing s = false /\ s_q s = [].
Proof. vm_compute. split; [eexists; repeat split|repeat split]. Qed.

(* ------------------------------------------------------------------------------------------ *)
(* the behaviour BEFORE fix 597bcef (remove_writer deleted writers[key] whoever was registered), kept as a  *)
(* model of the old code so that the finding stays machine-checked                            *)
(* ------------------------------------------------------------------------------------------ *)
Definition run_item_old (H : bytes -> bytes) (h : bytes) (kd : kind) (cb : bool) (it : qitem) (s : state) : state :=
  match it with
  | QRemove k _ => set_map (map_del k (s_map s)) s
  | _ => run_item kd cb it s
  end.
Definition step1_old H h kd cb (s : state) : state :=
  match s_q s with [] => s | it :: r => run_item_old H h kd cb it (set_q r s) end.
Fixpoint iter_old H h kd cb (n : nat) (s : state) : state :=
  match n with O => s | S m => iter_old H h kd cb m (step1_old H h kd cb s) end.
Definition step_old H h kd cb (o : op) (s : state) : state :=
  match o with
  | Tick => iter_old H h kd cb (length (s_q s)) s
  | Drain => iter_old H h kd cb (fuel s) s
  | _ => fst (step H h kd cb o s)
  end.
Definition run_old H h kd cb (ops : list op) (s : state) : state :=
  fold_left (fun st o => step_old H h kd cb o st) ops s.

(* peer 1 fails, is opened again before the loop ran; the stale remove_writer of the failed writer unregistered
   the NEW writer in the old code, so that writer 1 was neither closed nor cancelled when peer 2 delivered the
   blob; the repaired model closes it *)
Lemma stale_reopen_old_vs_new :
  let so := run_old ex_Hid ex_nm KFile true ex_stale init in
  let sn := run ex_Hid ex_nm KFile true ex_stale init in
  (s_verified so, map w_open (s_ws so), map w_fut (s_ws so))
    = (true, [false; true; false], [FErrLen; FPending; FOk ex_nm])
  /\ (s_verified sn, map w_open (s_ws sn), map w_fut (s_ws sn))
    = (true, [false; false; false], [FErrLen; FCancelled; FOk ex_nm]).
Proof. split; vm_compute; reflexivity. Qed.

(* ------------------------------------------------------------------------------------------ *)
(* the behaviour BEFORE fix 82794e2 (the done-callbacks of save_verified_blob ignored the outcome of the write    *)
(* task): the three hops of a FAILED write ended like those of a successful one                *)
(* ------------------------------------------------------------------------------------------ *)
Definition run_item_oldfail (kd : kind) (cb : bool) (it : qitem) (s : state) : state :=
  match it with
  | QSetStateF => run_item kd cb QSetState s
  | QWakeupF => run_item kd cb QWakeup s
  | QUpdateF => run_item kd cb QUpdate s
  | _ => run_item kd cb it s
  end.
Definition step1_oldfail kd cb (s : state) : state :=
  match s_q s with [] => s | it :: r => run_item_oldfail kd cb it (set_q r s) end.
Fixpoint iter_oldfail kd cb (n : nat) (s : state) : state :=
  match n with O => s | S m => iter_oldfail kd cb m (step1_oldfail kd cb s) end.
Definition step_oldfail H h kd cb (o : op) (s : state) : state :=
  match o with
  | Tick => iter_oldfail kd cb (length (s_q s)) s
  | Drain => iter_oldfail kd cb (fuel s + 8) s
  | _ => fst (step H h kd cb o s)
  end.
Definition run_oldfail H h kd cb (ops : list op) (s : state) : state :=
  fold_left (fun st o => step_oldfail H h kd cb o st) ops s.

Definition ex_failed_write : list op :=
  [SetLength 3; Open 1; Write 0 ex_nm; Drain; IoFail; Drain].

(* a peer delivers a complete correct copy, the disk write fails: the old code ended verified, announced, with
   nothing stored; the repaired code ends unverified, writeable again, nothing announced - and a second delivery
   then succeeds *)
Lemma failed_write_old_vs_new :
  let so := run_oldfail ex_Hid ex_nm KFile true ex_failed_write init in
  let sn := run ex_Hid ex_nm KFile true ex_failed_write init in
  let sr := run ex_Hid ex_nm KFile true (ex_failed_write ++ [Open 2; Write 1 ex_nm; Drain; IoDone; Drain]) init in
  (s_verified so, s_store so, s_completed so) = (true, None, 1%nat)
  /\ (s_verified sn, s_store sn, s_completed sn, s_writing sn, s_q sn) = (false, None, 0%nat, false, [])
  /\ (s_verified sr, s_store sr, s_completed sr) = (true, Some ex_nm, 1%nat).
Proof. repeat split; vm_compute; reflexivity. Qed.
