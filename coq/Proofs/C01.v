(* C01 proofs: safety invariant (only matching bytes are stored / verified), exact writer outcome,
   chunking irrelevance, length accepted once, termination of Drain, liveness (first complete copy wins). *)
From Coq Require Import NArith ZArith List Bool Lia Arith.
From Coq.Strings Require Import Byte.
From LV Require Import Lib.Bytes Model.C01.
Import ListNotations.
Ltac Zify.zify_post_hook ::= Z.to_euclidean_division_equations.

(* ------------------------------------------------------------------------------------------ *)
(* lists                                                                                      *)
(* ------------------------------------------------------------------------------------------ *)
Lemma nth_error_upd_eq {A} (l : list A) i x y : nth_error l i = Some y -> nth_error (upd i x l) i = Some x.
Proof. revert i; induction l; intros [|i]; simpl; try discriminate; auto. Qed.

Lemma nth_error_upd_neq {A} (l : list A) i j x : i <> j -> nth_error (upd i x l) j = nth_error l j.
Proof.
  revert i j; induction l; intros [|i] [|j]; simpl; auto; try congruence.
Qed.

Lemma nth_error_upd_none {A} (l : list A) i x : nth_error l i = None -> upd i x l = l.
Proof. revert i; induction l; intros [|i]; simpl; try discriminate; auto. intros; f_equal; auto. Qed.

Lemma upd_same {A} (l : list A) i x : nth_error l i = Some x -> upd i x l = l.
Proof. revert i; induction l; intros [|i]; simpl; try discriminate. congruence. intros; f_equal; auto. Qed.

Lemma upd_length {A} (l : list A) i x : length (upd i x l) = length l.
Proof. revert i; induction l; intros [|i]; simpl; auto. Qed.

Lemma Forall_upd {A} (P : A -> Prop) l i x : Forall P l -> P x -> Forall P (upd i x l).
Proof.
  intros Hl Hx; revert i; induction Hl; intros [|i]; simpl; auto.
Qed.

Lemma Forall_nth {A} (P : A -> Prop) l i x : Forall P l -> nth_error l i = Some x -> P x.
Proof. intros Hl Hn. rewrite Forall_forall in Hl. apply Hl. eapply nth_error_In; eauto. Qed.

Lemma nth_error_upd_cases {A} (l : list A) i j x y :
  nth_error (upd i x l) j = Some y ->
  (j = i /\ y = x /\ exists z, nth_error l i = Some z) \/ (j <> i /\ nth_error l j = Some y).
Proof.
  intros E. destruct (Nat.eq_dec j i) as [->|Hne].
  - left. destruct (nth_error l i) eqn:Hn.
    + erewrite nth_error_upd_eq in E by eauto. inversion E; eauto.
    + rewrite nth_error_upd_none in E by auto. congruence.
  - right. rewrite nth_error_upd_neq in E by auto. auto.
Qed.

(* ------------------------------------------------------------------------------------------ *)
(* writer-level transitions                                                                   *)
(* ------------------------------------------------------------------------------------------ *)
Lemma fut_done_false f : fut_done f = false <-> f = FPending.
Proof. destruct f; simpl; split; congruence. Qed.
Lemma fut_done_true f : fut_done f = true <-> f <> FPending.
Proof. destruct f; simpl; split; congruence. Qed.

Section C01.
Variable H : bytes -> bytes.
Variable h : bytes.
Variable kd : kind.
Variable cb : bool.

Notation wr_write := (wr_write H h).

Definition good (L : N) (b : bytes) : Prop := N.of_nat (length b) = L /\ H b = h.

Definition w_ok (len : option N) (w : writer) : Prop :=
  (forall b, w_fut w = FOk b -> exists L, len = Some L /\ 0 < L /\ good L b)%N
  /\ (w_open w = true -> w_fut w = FPending ->
      w_seen w = w_buf w /\ forall L, len = Some L -> L <> 0%N -> (N.of_nat (length (w_seen w)) < L)%N)
  /\ (w_open w = false -> w_fut w <> FPending)
  /\ (len = None \/ len = Some 0%N -> w_seen w = []).

Record wtrans (len : option N) (f : writer -> writer * bool) : Prop := {
  wt_key : forall w, w_key (fst (f w)) = w_key w;
  wt_fire : forall w, snd (f w) = true -> w_fut w = FPending /\ fut_done (w_fut (fst (f w))) = true;
  wt_nofire : forall w, snd (f w) = false -> w_fut (fst (f w)) = w_fut w;
  wt_ok : forall w, w_ok len w -> w_ok len (fst (f w));
  wt_open : forall w, w_open (fst (f w)) = true -> w_open w = true }.

Lemma wtrans_close len : wtrans len close_handle_w.
Proof.
  split; intros w; unfold close_handle_w; destruct (fut_done (w_fut w)) eqn:D; simpl; auto; try discriminate.
  - intros _. apply fut_done_false in D. auto.
  - unfold w_ok; intros (A & B & C & E). repeat split; simpl; auto; try discriminate.
    intros _. apply fut_done_true; auto.
  - unfold w_ok; intros (A & B & C & E). repeat split; simpl; auto; try discriminate.
Qed.

Lemma wtrans_cancel len : wtrans len cancel_w.
Proof.
  split; intros w; unfold cancel_w; destruct (fut_done (w_fut w)) eqn:D; simpl; auto; try discriminate.
  - intros _. apply fut_done_false in D. auto.
  - unfold w_ok; intros (A & B & C & E). repeat split; simpl; auto; try discriminate.
Qed.

Ltac break_ifs :=
  repeat (match goal with |- context [if ?c then _ else _] => destruct c eqn:? end; simpl).
Ltac norm_hyps :=
  repeat match goal with
  | X : fut_done _ = false |- _ => apply fut_done_false in X
  | X : fut_done _ = true |- _ => apply fut_done_true in X
  | X : (_ =? _)%N = true |- _ => apply N.eqb_eq in X
  | X : (_ =? _)%N = false |- _ => apply N.eqb_neq in X
  | X : (_ <? _)%N = true |- _ => apply N.ltb_lt in X
  | X : (_ <? _)%N = false |- _ => apply N.ltb_ge in X
  | X : negb _ = true |- _ => apply negb_true_iff in X
  | X : negb _ = false |- _ => apply negb_false_iff in X
  | X : bytes_eqb _ _ = true |- _ => apply bytes_eqb_eq in X
  | X : bytes_eqb _ _ = false |- _ => apply bytes_eqb_neq in X
  end.

Lemma wtrans_write len d : wtrans len (fun x => fst (wr_write len x d)).
Proof.
  split; intros w; unfold C01.wr_write; destruct len as [L|]; simpl; auto; try discriminate.
  - break_ifs; auto.
  - break_ifs; try discriminate; intros _; norm_hyps; auto.
  - break_ifs; try discriminate; auto.
  - unfold w_ok; intros (A & B & C & F); break_ifs; norm_hyps; simpl.
    all: repeat match goal with |- _ /\ _ => split end; auto; try discriminate; try congruence.
    all: try (intros [X|X]; congruence).
    + intros b Eb. inversion Eb; subst b. exists L. split; auto. split; [lia|].
      destruct (B Heqb0 Heqb4) as (S1 & _). rewrite <- S1. split; auto.
    + intros _ P. destruct (B Heqb0 P) as (S1 & _). split; [congruence|].
      intros L' EL _. inversion EL; subst L'. lia.
  - break_ifs; norm_hyps; auto; intros; try discriminate; auto.
Qed.

(* ------------------------------------------------------------------------------------------ *)
(* safety invariant                                                                           *)
(* ------------------------------------------------------------------------------------------ *)
Definition goodS (s : state) (b : bytes) : Prop :=
  exists L, s_len s = Some L /\ (0 < L)%N /\ good L b.

Definition Inv (s : state) : Prop :=
  (forall L, s_len s = Some L -> (L <= MAX_BLOB_SIZE)%N)
  /\ Forall (w_ok (s_len s)) (s_ws s)
  /\ (forall b, In (QTask b) (s_q s) -> goodS s b)
  /\ (forall b, s_io s = Some b -> goodS s b)
  /\ (forall b, s_store s = Some b -> goodS s b)
  /\ (s_verified s = true -> s_store s <> None)
  /\ (In QUpdate (s_q s) \/ In QWakeup (s_q s) \/ In QSetState (s_q s) -> s_store s <> None).

Lemma Inv_init : Inv init.
Proof.
  unfold Inv, init; simpl. repeat split; try discriminate; auto; try tauto.
Qed.

Lemma app_w_len f i s : s_len (app_w f i s) = s_len s.
Proof. unfold app_w. destruct (nth_error (s_ws s) i); auto. destruct (f w); auto. Qed.

(* items scheduled by a future never are task/notification items *)
Lemma in_fire_task i w fl b : ~ In (QTask b) (fire i w fl).
Proof. destruct fl; simpl; intuition discriminate. Qed.
Lemma in_fire_upd i w fl : ~ In QUpdate (fire i w fl).
Proof. destruct fl; simpl; intuition discriminate. Qed.
Lemma in_fire_wk i w fl : ~ In QWakeup (fire i w fl).
Proof. destruct fl; simpl; intuition discriminate. Qed.
Lemma in_fire_ss i w fl : ~ In QSetState (fire i w fl).
Proof. destruct fl; simpl; intuition discriminate. Qed.

Lemma Inv_app_w f i s : wtrans (s_len s) f -> Inv s -> Inv (app_w f i s).
Proof.
  intros Wt (I1 & I2 & I3 & I4 & I5 & I6 & I7). unfold app_w.
  destruct (nth_error (s_ws s) i) eqn:Hn; [|repeat split; auto].
  destruct (f w) as [w' fl] eqn:Ef. unfold Inv, enq, goodS in *; simpl.
  repeat split; auto.
  - apply Forall_upd; auto. replace w' with (fst (f w)) by (rewrite Ef; auto).
    apply (wt_ok _ _ Wt). eapply Forall_nth; eauto.
  - intros b Hin. apply in_app_or in Hin. destruct Hin as [Hin|Hin]; auto.
    exfalso; eapply in_fire_task; eauto.
  - intros Hq. apply I7.
    destruct Hq as [Hq|[Hq|Hq]]; apply in_app_or in Hq; destruct Hq as [Hq|Hq]; auto; exfalso.
    + eapply in_fire_upd; eauto.
    + eapply in_fire_wk; eauto.
    + eapply in_fire_ss; eauto.
Qed.

Lemma fold_pres {A} (P : state -> Prop) (g : A -> state -> state) l s :
  (forall x st, P st -> P (g x st)) -> P s -> P (fold_right g s l).
Proof. intros Hg Hs. induction l; simpl; auto. Qed.

Lemma Inv_set_map m s : Inv s -> Inv (set_map m s).
Proof. unfold Inv, goodS; simpl; auto. Qed.

Lemma w_ok_set_len w L : w_ok None w -> w_ok (Some L) w.
Proof.
  intros (A & B & C & F). assert (Sn : w_seen w = []) by auto.
  repeat split; auto.
  - intros b Eb. destruct (A b Eb) as (L0 & X & _). discriminate.
  - apply B; auto.
  - intros L0 E Hne. inversion E; subst. rewrite Sn. simpl. lia.
Qed.

Lemma Inv_set_length n s : Inv s -> Inv (set_length n s).
Proof.
  intros (I1 & I2 & I3 & I4 & I5 & I6 & I7). unfold set_length.
  destruct (s_len s) eqn:El. { unfold Inv; rewrite El; repeat split; auto. }
  destruct ((0 <=? n)%Z && (n <=? Z.of_N MAX_BLOB_SIZE)%Z) eqn:Eb.
  2:{ unfold Inv; rewrite El; repeat split; auto. }
  apply andb_true_iff in Eb. destruct Eb as [E1 E2]. apply Z.leb_le in E1, E2.
  unfold Inv, goodS in *; simpl. repeat split; auto.
  - intros L E. inversion E; subst. unfold MAX_BLOB_SIZE in *. lia.
  - eapply Forall_impl; [|exact I2]. intros w. apply w_ok_set_len.
  - intros b Hb. destruct (I3 b Hb) as (L & X & _). congruence.
  - intros b Hb. destruct (I4 b Hb) as (L & X & _). congruence.
  - intros b Hb. destruct (I5 b Hb) as (L & X & _). congruence.
Qed.

Lemma Inv_open k s : Inv s -> Inv (fst (open_writer kd k s)).
Proof.
  intros I. unfold open_writer. destruct (file_exists kd s); simpl; auto.
  match goal with |- context [if ?c then _ else _] => destruct c end; simpl; auto.
  destruct I as (I1 & I2 & I3 & I4 & I5 & I6 & I7). unfold Inv, goodS in *; simpl.
  repeat split; auto.
  apply Forall_app; split; auto. constructor; auto.
  repeat split; simpl; auto; try discriminate. intros; lia.
Qed.

Lemma Inv_close_blob s : Inv s -> Inv (close_blob s).
Proof.
  intros I. unfold close_blob. apply Inv_set_map. apply fold_pres; auto.
  intros x st Hst. apply Inv_app_w; auto. apply wtrans_cancel.
Qed.

Lemma Inv_close_others i s : Inv s -> Inv (close_others i s).
Proof.
  intros I. unfold close_others. apply Inv_set_map. apply fold_pres; auto.
  intros x st Hst. destruct (Nat.eqb (snd x) i); auto.
  apply Inv_app_w; auto. apply wtrans_close.
Qed.

Lemma close_others_len i s : s_len (close_others i s) = s_len s.
Proof.
  unfold close_others; simpl. induction (s_map s); simpl; auto.
  destruct (Nat.eqb (snd a) i); auto. unfold close_handle. rewrite app_w_len; auto.
Qed.

Lemma Inv_save_verified b s : Inv s -> goodS s b -> Inv (save_verified kd b s).
Proof.
  intros I G. unfold save_verified. destruct (s_verified s); auto. destruct (writeable kd s); auto.
  destruct I as (I1 & I2 & I3 & I4 & I5 & I6 & I7). unfold Inv, goodS in *; simpl. repeat split; auto.
  - intros b' Hin. apply in_app_or in Hin. destruct Hin as [Hin|[Hin|[]]]; auto. inversion Hin; subst; auto.
  - intros Hq. apply I7.
    destruct Hq as [Hq|[Hq|Hq]]; apply in_app_or in Hq; destruct Hq as [Hq|[Hq|[]]]; auto; discriminate.
Qed.

Lemma in_done_cbs_task b : ~ In (QTask b) (done_cbs cb).
Proof. unfold done_cbs. destruct cb; simpl; intuition discriminate. Qed.

Lemma Inv_run_item it r s : Inv s -> s_q s = it :: r -> Inv (run_item kd cb it (set_q r s)).
Proof.
  intros I Eq.
  assert (I0 : Inv (set_q r s)).
  { destruct I as (I1 & I2 & I3 & I4 & I5 & I6 & I7). unfold Inv, goodS in *; simpl. rewrite Eq in *.
    repeat split; auto.
    - intros b Hb. apply I3. right; auto.
    - intros Hq. apply I7. simpl. tauto. }
  destruct it; simpl.
  - apply Inv_app_w; auto. apply wtrans_close.
  - apply Inv_set_map; auto.
  - destruct (nth_error (s_ws s) i) eqn:Hn; auto. destruct (w_fut w) eqn:Ef; auto.
    apply Inv_save_verified. apply Inv_close_others; auto.
    destruct I as (I1 & I2 & _). destruct (Forall_nth _ _ _ _ I2 Hn) as (A & _).
    destruct (A b Ef) as (L & E1 & E2 & E3). exists L. rewrite close_others_len. simpl. auto.
  - assert (G : goodS s b). { destruct I as (_ & _ & I3 & _). apply I3. rewrite Eq; left; auto. }
    destruct I0 as (I1 & I2 & I3 & I4 & I5 & I6 & I7). destruct kd.
    + unfold Inv, goodS in *; simpl in *. repeat split; auto. intros b' E. inversion E; subst; auto.
    + destruct (s_store s) eqn:Es; unfold Inv, goodS, enq in *; simpl in *; rewrite ?Es in *.
      * repeat split; auto; try discriminate.
        intros b' Hin. apply in_app_or in Hin. destruct Hin as [Hin|Hin]; auto.
        exfalso; eapply in_done_cbs_task; eauto.
      * repeat split; auto; try discriminate.
        -- intros b' Hin. apply in_app_or in Hin. destruct Hin as [Hin|Hin]; auto.
           exfalso; eapply in_done_cbs_task; eauto.
        -- intros b' E. inversion E; subst; auto.
  - destruct I as (_ & _ & _ & _ & _ & _ & I7). assert (Sn : s_store s <> None) by (apply I7; rewrite Eq; simpl; auto).
    destruct I0 as (I1 & I2 & I3 & I4 & I5 & I6 & _). unfold Inv, goodS, enq in *; simpl in *. repeat split; auto.
    intros b' Hin. apply in_app_or in Hin. destruct Hin as [Hin|Hin]; auto.
    simpl in Hin. intuition discriminate.
  - auto.
  - destruct I as (_ & _ & _ & _ & _ & _ & I7). assert (Sn : s_store s <> None) by (apply I7; rewrite Eq; simpl; auto).
    destruct I0 as (I1 & I2 & I3 & I4 & I5 & I6 & _). unfold Inv, goodS, enq in *; simpl in *. repeat split; auto.
    intros b' Hin. apply in_app_or in Hin. destruct Hin as [Hin|Hin]; auto.
    exfalso; eapply in_done_cbs_task; eauto.
  - destruct I as (_ & _ & _ & _ & _ & _ & I7). assert (Sn : s_store s <> None) by (apply I7; rewrite Eq; simpl; auto).
    destruct I0 as (I1 & I2 & I3 & I4 & I5 & I6 & I7'). unfold Inv, goodS in *; simpl in *. repeat split; auto.
  - destruct I0 as (I1 & I2 & I3 & I4 & I5 & I6 & I7'). unfold Inv, goodS in *; simpl in *. repeat split; auto.
Qed.

Lemma Inv_step1 s : Inv s -> Inv (step1 kd cb s).
Proof.
  intros I. unfold step1. destruct (s_q s) eqn:Eq; auto. apply Inv_run_item; auto.
Qed.

Lemma Inv_iter n s : Inv s -> Inv (iter kd cb n s).
Proof. revert s; induction n; simpl; auto. intros; apply IHn. apply Inv_step1; auto. Qed.

Lemma Inv_io_done s : Inv s -> Inv (io_done s).
Proof.
  intros I. unfold io_done. destruct (s_io s) eqn:Ei; auto.
  destruct I as (I1 & I2 & I3 & I4 & I5 & I6 & I7). unfold Inv, goodS, enq in *; simpl in *.
  repeat split; auto; try discriminate.
  - intros b' Hin. apply in_app_or in Hin. destruct Hin as [Hin|Hin]; auto. simpl in Hin; intuition discriminate.
  - intros b' E. inversion E; subst; auto.
Qed.

Lemma Inv_write i d s : Inv s -> Inv (fst (write H h i d s)).
Proof.
  intros I. unfold write. destruct (nth_error (s_ws s) i); simpl; auto.
  apply Inv_app_w; auto. apply wtrans_write.
Qed.

Notation step := (step H h kd cb).
Notation run := (run H h kd cb).

Lemma Inv_step o s : Inv s -> Inv (fst (step o s)).
Proof.
  intros I. destruct o; simpl.
  - apply Inv_set_length; auto.
  - apply Inv_open; auto.
  - apply Inv_write; auto.
  - apply Inv_app_w; auto. apply wtrans_close.
  - apply Inv_close_blob; auto.
  - apply Inv_iter; auto.
  - apply Inv_iter; auto.
  - apply Inv_io_done; auto.
Qed.

Lemma Inv_run ops s : Inv s -> Inv (run ops s).
Proof. revert s; induction ops; simpl; auto. intros; apply IHops. apply Inv_step; auto. Qed.

Lemma only_matching ops :
  let s := run ops init in
  (s_verified s = true ->
     exists b L, s_store s = Some b /\ s_len s = Some L /\ N.of_nat (length b) = L
                 /\ (0 < L <= MAX_BLOB_SIZE)%N /\ H b = h)
  /\ (forall b, s_store s = Some b ->
     exists L, s_len s = Some L /\ N.of_nat (length b) = L /\ (0 < L <= MAX_BLOB_SIZE)%N /\ H b = h).
Proof.
  intros s. assert (I : Inv s) by (apply Inv_run, Inv_init).
  destruct I as (I1 & I2 & I3 & I4 & I5 & I6 & I7).
  assert (G : forall b, s_store s = Some b ->
     exists L, s_len s = Some L /\ N.of_nat (length b) = L /\ (0 < L <= MAX_BLOB_SIZE)%N /\ H b = h).
  { intros b Eb. destruct (I5 b Eb) as (L & E1 & E2 & E3 & E4). exists L. repeat split; auto. }
  split; auto.
  intros V. destruct (s_store s) as [b|] eqn:Es; [|exfalso; apply I6; auto].
  destruct (G b eq_refl) as (L & X). exists b, L. tauto.
Qed.

(* every writer result is a complete correct copy *)
Lemma writer_result_good ops i w b :
  nth_error (s_ws (run ops init)) i = Some w -> w_fut w = FOk b ->
  exists L, s_len (run ops init) = Some L /\ N.of_nat (length b) = L /\ (0 < L <= MAX_BLOB_SIZE)%N /\ H b = h.
Proof.
  intros Hn Ef. assert (I : Inv (run ops init)) by (apply Inv_run, Inv_init).
  destruct I as (I1 & I2 & _). destruct (Forall_nth _ _ _ _ I2 Hn) as (A & _).
  destruct (A b Ef) as (L & E1 & E2 & E3 & E4). exists L. repeat split; auto.
Qed.

(* ------------------------------------------------------------------------------------------ *)
(* the accepted length                                                                        *)
(* ------------------------------------------------------------------------------------------ *)
Lemma fold_len {A} (g : A -> state -> state) l s :
  (forall x st, s_len (g x st) = s_len st) -> s_len (fold_right g s l) = s_len s.
Proof. intros Hg. induction l; simpl; auto. rewrite Hg; auto. Qed.

Lemma close_blob_len s : s_len (close_blob s) = s_len s.
Proof. unfold close_blob; simpl. apply fold_len. intros; apply app_w_len. Qed.

Lemma save_verified_len b s : s_len (save_verified kd b s) = s_len s.
Proof. unfold save_verified. destruct (s_verified s); auto. destruct (writeable kd s); auto. Qed.

Lemma run_item_len it s : s_len (run_item kd cb it s) = s_len s.
Proof.
  destruct it; simpl; auto.
  - apply app_w_len.
  - destruct (nth_error (s_ws s) i); auto. destruct (w_fut w); auto.
    rewrite save_verified_len. apply close_others_len.
  - destruct kd; auto. destruct (s_store s); auto.
Qed.

Lemma step1_len s : s_len (step1 kd cb s) = s_len s.
Proof. unfold step1. destruct (s_q s); auto. rewrite run_item_len. auto. Qed.

Lemma iter_len n s : s_len (iter kd cb n s) = s_len s.
Proof. revert s; induction n; simpl; auto. intros. rewrite IHn. apply step1_len. Qed.

Lemma step_len_other o s : (forall n, o <> SetLength n) -> s_len (fst (step o s)) = s_len s.
Proof.
  intros Hno. destruct o; simpl.
  - exfalso; eapply Hno; eauto.
  - unfold open_writer. destruct (file_exists kd s); auto.
    match goal with |- context [if ?c then _ else _] => destruct c end; auto.
  - unfold write. destruct (nth_error (s_ws s) i); auto. simpl. apply app_w_len.
  - apply app_w_len.
  - apply close_blob_len.
  - apply iter_len.
  - apply iter_len.
  - unfold io_done. destruct (s_io s); auto.
Qed.

Lemma step_len_kept o s L : s_len s = Some L -> s_len (fst (step o s)) = Some L.
Proof.
  intros E. destruct o; try (rewrite step_len_other; [auto|intros; discriminate]).
  simpl. unfold set_length. rewrite E. auto.
Qed.

Lemma run_len_kept ops s L : s_len s = Some L -> s_len (run ops s) = Some L.
Proof. revert s; induction ops; simpl; auto. intros. apply IHops. apply step_len_kept; auto. Qed.

Lemma run_app ops1 ops2 s : run (ops1 ++ ops2) s = run ops2 (run ops1 s).
Proof. unfold C01.run. apply fold_left_app. Qed.

Lemma length_once_bounded ops1 ops2 L :
  s_len (run ops1 init) = Some L ->
  (L <= MAX_BLOB_SIZE)%N /\ s_len (run (ops1 ++ ops2) init) = Some L.
Proof.
  intros E. split.
  - assert (I : Inv (run ops1 init)) by (apply Inv_run, Inv_init). destruct I as (I1 & _). auto.
  - rewrite run_app. apply run_len_kept; auto.
Qed.

(* a length outside 0..2^21 is refused, whatever the state *)
Lemma set_length_refused n s : (n < 0 \/ Z.of_N MAX_BLOB_SIZE < n)%Z -> set_length n s = s.
Proof.
  intros Hn. unfold set_length. destruct (s_len s); auto.
  destruct (Z.leb_spec 0 n); destruct (Z.leb_spec n (Z.of_N MAX_BLOB_SIZE)); simpl; auto; lia.
Qed.

(* a length inside the range is accepted exactly when none was accepted before *)
Lemma set_length_accepted n s : (0 <= n <= Z.of_N MAX_BLOB_SIZE)%Z -> s_len s = None ->
  s_len (set_length n s) = Some (Z.to_N n).
Proof.
  intros Hn E. unfold set_length. rewrite E.
  destruct (Z.leb_spec 0 n); destruct (Z.leb_spec n (Z.of_N MAX_BLOB_SIZE)); simpl; auto; lia.
Qed.

(* ------------------------------------------------------------------------------------------ *)
(* exact outcome of a write on a live writer; chunking                                        *)
(* ------------------------------------------------------------------------------------------ *)
Definition live (L : N) (w : writer) : Prop :=
  w_open w = true /\ w_fut w = FPending /\ w_seen w = w_buf w /\ L <> 0%N.

(* the writer after a live writer whose buffer holds [buf] has received bytes making the total [t] *)
Definition live_result (L : N) (k : N) (buf t : bytes) : writer * bool * res :=
  if (L <? N.of_nat (length t))%N then (mkW k false buf t FErrLen, true, ROk)
  else if (N.of_nat (length t) =? L)%N then
    (if bytes_eqb (H t) h then (mkW k false t t (FOk t), true, ROk) else (mkW k false t t FErrHash, true, ROk))
  else (mkW k true t t FPending, false, ROk).

Lemma wr_write_live L w d : live L w ->
  wr_write (Some L) w d = live_result L (w_key w) (w_buf w) (w_buf w ++ d).
Proof.
  intros (O & P & S & Hne). unfold C01.wr_write, live_result. rewrite O, P, S. simpl.
  destruct (N.eqb_spec L 0); [contradiction|]. auto.
Qed.

Lemma writer_write_exact L w d : live L w ->
  let t := w_buf w ++ d in
  let w' := fst (fst (wr_write (Some L) w d)) in
  ((N.of_nat (length t) < L)%N -> w' = mkW (w_key w) true t t FPending)
  /\ (N.of_nat (length t) = L -> H t = h -> w' = mkW (w_key w) false t t (FOk t))
  /\ (N.of_nat (length t) = L -> H t <> h -> w' = mkW (w_key w) false t t FErrHash)
  /\ ((L < N.of_nat (length t))%N -> w' = mkW (w_key w) false (w_buf w) t FErrLen)
  /\ (forall b, w_fut w' = FOk b <-> b = t /\ N.of_nat (length t) = L /\ H t = h)
  /\ snd (wr_write (Some L) w d) = ROk.
Proof.
  intros Lv t w'. unfold w'. rewrite wr_write_live by auto. fold t. unfold live_result.
  destruct (N.ltb_spec L (N.of_nat (length t))); simpl.
  { repeat split; auto; try lia; try discriminate. }
  destruct (N.eqb_spec (N.of_nat (length t)) L); simpl.
  - destruct (bytes_eqb (H t) h) eqn:E; simpl.
    + apply bytes_eqb_eq in E. repeat split; auto; try lia; try congruence. intros (-> & _); auto.
    + apply bytes_eqb_neq in E. repeat split; auto; try lia; try congruence; try discriminate. intros (_ & _ & X); contradiction.
  - repeat split; auto; try lia; try congruence; try discriminate; try (intros (_ & X & _); contradiction).
Qed.

(* a write never stores anything by itself: only writer i and the ready queue change *)
Lemma write_frame i d s :
  let s' := fst (write H h i d s) in
  s_store s' = s_store s /\ s_io s' = s_io s /\ s_verified s' = s_verified s /\ s_writing s' = s_writing s
  /\ s_completed s' = s_completed s /\ s_len s' = s_len s /\ s_map s' = s_map s
  /\ (forall b, In (QTask b) (s_q s') -> In (QTask b) (s_q s)).
Proof.
  unfold write, app_w. destruct (nth_error (s_ws s) i); simpl; [|tauto].
  destruct (wr_write (s_len s) w d) as [[w' fl] r]; simpl. repeat split; auto.
  intros b Hin. apply in_app_or in Hin. destruct Hin; auto. exfalso; eapply in_fire_task; eauto.
Qed.

Fixpoint feed (len : option N) (w : writer) (cs : list bytes) : writer :=
  match cs with [] => w | c :: r => feed len (fst (fst (wr_write len w c))) r end.

Lemma feed_dead L w cs : w_open w = false -> fut_done (w_fut w) = true -> feed (Some L) w cs = w.
Proof.
  intros O D. induction cs; simpl; auto.
  unfold C01.wr_write. destruct (L =? 0)%N; simpl; auto. rewrite O, D. simpl. auto.
Qed.

Lemma live_result_short L k buf t : (N.of_nat (length t) < L)%N ->
  live_result L k buf t = (mkW k true t t FPending, false, ROk).
Proof.
  intros Hl. unfold live_result.
  destruct (N.ltb_spec L (N.of_nat (length t))); [lia|].
  destruct (N.eqb_spec (N.of_nat (length t)) L); [lia|]. auto.
Qed.

Lemma live_result_buf L k buf buf' t : (N.of_nat (length t) <= L)%N ->
  live_result L k buf t = live_result L k buf' t.
Proof.
  intros Hl. unfold live_result. destruct (N.ltb_spec L (N.of_nat (length t))); [lia|]. auto.
Qed.

Lemma feed_concat L w cs : live L w -> (N.of_nat (length (w_buf w)) < L)%N ->
  (N.of_nat (length (w_buf w ++ concat cs)) <= L)%N ->
  feed (Some L) w cs = fst (fst (wr_write (Some L) w (concat cs))).
Proof.
  revert w. induction cs as [|c r IH]; intros w Lv Hlt Hle.
  - cbn [feed concat]. rewrite wr_write_live by auto. rewrite app_nil_r.
    rewrite live_result_short by auto. simpl.
    destruct Lv as (O & P & S & _). destruct w; simpl in *. congruence.
  - cbn [feed concat]. rewrite !wr_write_live by auto. rewrite app_assoc.
    set (t := w_buf w ++ c) in *.
    assert (Hl : (N.of_nat (length (t ++ concat r)) <= L)%N).
    { unfold t. rewrite <- app_assoc. exact Hle. }
    assert (Hl' := Hl). rewrite app_length in Hl'.
    destruct (N.eq_dec (N.of_nat (length t)) L) as [El|Hn].
    + (* complete at this chunk: everything that follows is empty *)
      assert (Er : concat r = []) by (apply length_zero_iff_nil; lia).
      rewrite Er, app_nil_r. unfold live_result.
      destruct (N.ltb_spec L (N.of_nat (length t))); [lia|].
      destruct (N.eqb_spec (N.of_nat (length t)) L); [|contradiction].
      destruct (bytes_eqb (H t) h); simpl; apply feed_dead; auto.
    + rewrite (live_result_short L (w_key w) (w_buf w) t) by lia. cbn [fst].
      destruct Lv as (_ & _ & _ & X).
      rewrite IH.
      * rewrite wr_write_live by (repeat split; auto). cbn [w_key w_buf].
        rewrite (live_result_buf L (w_key w) t (w_buf w)); auto.
      * repeat split; auto.
      * simpl. lia.
      * simpl. exact Hl.
Qed.

Lemma chunking_irrelevant L w cs1 cs2 : live L w -> (N.of_nat (length (w_buf w)) < L)%N ->
  concat cs1 = concat cs2 -> (N.of_nat (length (w_buf w ++ concat cs1)) <= L)%N ->
  feed (Some L) w cs1 = feed (Some L) w cs2.
Proof.
  intros Lv Hlt E Hle. rewrite !feed_concat; auto; congruence.
Qed.

(* the state-level run of the chunk writes on writer i computes exactly [feed] *)
Lemma run_writes_feed i cs : forall s w, nth_error (s_ws s) i = Some w ->
  nth_error (s_ws (run (map (Write i) cs) s)) i = Some (feed (s_len s) w cs).
Proof.
  induction cs as [|c r IH]; intros s w Hn; simpl; auto.
  assert (E : fst (write H h i c s) = app_w (fun x => fst (wr_write (s_len s) x c)) i s).
  { unfold write. rewrite Hn. auto. }
  rewrite E. erewrite IH.
  - rewrite app_w_len. reflexivity.
  - unfold app_w. rewrite Hn. destruct (fst (wr_write (s_len s) w c)) as [w' fl] eqn:Ew. simpl.
    erewrite nth_error_upd_eq by eauto. f_equal. destruct (wr_write (s_len s) w c) as [[a b0] c0]. simpl in *. congruence.
Qed.
