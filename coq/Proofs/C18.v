(* C18 proofs *)
From Coq Require Import NArith List Bool Lia.
From Coq.Strings Require Import Byte.
From LV Require Import Lib.Bytes Model.C18.
Import ListNotations.
Local Open Scope N_scope.

(* ---------- equality on names ---------- *)
Lemma beq_sym a b : bytes_eqb a b = bytes_eqb b a.
Proof.
  destruct (bytes_eqb a b) eqn:E.
  - apply bytes_eqb_eq in E. subst. symmetry. apply bytes_eqb_refl.
  - symmetry. apply bytes_eqb_neq. apply bytes_eqb_neq in E. congruence.
Qed.

Ltac beq a b :=
  let E := fresh "E" in
  destruct (bytes_eqb a b) eqn:E;
  [apply bytes_eqb_eq in E; try subst | pose proof E as E'; apply bytes_eqb_neq in E'].

(* ---------- association lists ---------- *)
Definition has_key {V} (m : list (name * V)) (k : name) : bool :=
  match lookup m k with Some _ => true | None => false end.

Lemma lookup_app {V} (a b : list (name * V)) k :
  lookup (a ++ b) k = match lookup a k with Some v => Some v | None => lookup b k end.
Proof. induction a as [|[k' v] a IH]; simpl; [reflexivity|]. destruct (bytes_eqb k' k); auto. Qed.

Lemma lookup_remove_key {V} (m : list (name * V)) k k' :
  lookup (remove_key m k) k' = if bytes_eqb k k' then None else lookup m k'.
Proof.
  unfold remove_key. induction m as [|[a v] m IH]; simpl.
  - destruct (bytes_eqb k k'); reflexivity.
  - destruct (bytes_eqb a k) eqn:E1; simpl.
    + apply bytes_eqb_eq in E1. subst a. rewrite IH. destruct (bytes_eqb k k'); reflexivity.
    + rewrite IH. destruct (bytes_eqb a k') eqn:E2; [|reflexivity].
      apply bytes_eqb_eq in E2. subst a. rewrite beq_sym, E1. reflexivity.
Qed.

Lemma lookup_set_key {V} (m : list (name * V)) k v k' :
  lookup (set_key m k v) k' = if bytes_eqb k k' then Some v else lookup m k'.
Proof. unfold set_key. simpl. rewrite lookup_remove_key. destruct (bytes_eqb k k'); reflexivity. Qed.

Lemma lookup_map_val {V} (g : name -> V -> V) (m : list (name * V)) k :
  lookup (map (fun p => (fst p, g (fst p) (snd p))) m) k = option_map (g k) (lookup m k).
Proof.
  induction m as [|[a v] m IH]; simpl; [reflexivity|].
  destruct (bytes_eqb a k) eqn:E; [|exact IH]. apply bytes_eqb_eq in E. subst. reflexivity.
Qed.

Lemma lookup_map_gen {V} (f : name * V -> name * V) (g : name -> V -> V) (m : list (name * V)) k :
  (forall p, f p = (fst p, g (fst p) (snd p))) -> lookup (map f m) k = option_map (g k) (lookup m k).
Proof. intro H. rewrite (map_ext _ _ H). apply lookup_map_val. Qed.

Lemma lookup_none_notin {V} (m : list (name * V)) k : lookup m k = None <-> ~ In k (map fst m).
Proof.
  induction m as [|[a v] m IH]; simpl.
  - tauto.
  - destruct (bytes_eqb a k) eqn:E.
    + apply bytes_eqb_eq in E. subst. split; [discriminate | intros H; exfalso; apply H; left; reflexivity].
    + apply bytes_eqb_neq in E. rewrite IH. tauto.
Qed.

Lemma lookup_some_in {V} (m : list (name * V)) k v : lookup m k = Some v -> In k (map fst m).
Proof.
  intro H. destruct (in_dec (list_eq_dec Byte.byte_eq_dec) k (map fst m)) as [i|n]; [exact i|].
  apply lookup_none_notin in n. congruence.
Qed.

(* ---------- sets ---------- *)
Lemma mem_In k l : mem k l = true <-> In k l.
Proof.
  unfold mem. rewrite existsb_exists. split.
  - intros [x [Hx E]]. apply bytes_eqb_eq in E. subst. exact Hx.
  - intro H. exists k. split; [exact H | apply bytes_eqb_refl].
Qed.

Lemma mem_false k l : mem k l = false <-> ~ In k l.
Proof. rewrite <- mem_In. destruct (mem k l); split; congruence. Qed.

Lemma mem_filter k f l : mem k (filter f l) = mem k l && f k.
Proof.
  destruct (mem k (filter f l)) eqn:E.
  - apply mem_In in E. apply filter_In in E as [H1 H2]. apply mem_In in H1. rewrite H1, H2. reflexivity.
  - destruct (mem k l) eqn:E1; [|reflexivity]. destruct (f k) eqn:E2; [|reflexivity].
    apply mem_false in E. exfalso. apply E. apply filter_In. split; [apply mem_In; exact E1 | exact E2].
Qed.

Lemma In_set_add h k l : In h (set_add k l) <-> h = k \/ In h l.
Proof.
  unfold set_add. destruct (mem k l) eqn:E.
  - apply mem_In in E. split; [tauto|]. intros [->|H]; assumption.
  - simpl. split; intros [H|H]; auto.
Qed.

Lemma NoDup_set_add k l : NoDup l -> NoDup (set_add k l).
Proof.
  unfold set_add. destruct (mem k l) eqn:E; [tauto|]. intro H. constructor; [|exact H].
  apply mem_false. exact E.
Qed.

Lemma In_fold_set_add h l : forall acc,
  In h (fold_left (fun acc x => set_add x acc) l acc) <-> In h l \/ In h acc.
Proof.
  induction l as [|x l IH]; intro acc; simpl; [tauto|].
  rewrite IH, In_set_add. intuition congruence.
Qed.

Lemma NoDup_fold_set_add l : forall acc, NoDup acc -> NoDup (fold_left (fun acc x => set_add x acc) l acc).
Proof. induction l as [|x l IH]; intros acc H; simpl; [exact H|]. apply IH. apply NoDup_set_add. exact H. Qed.

Lemma In_set_remove h k l : In h (set_remove k l) <-> In h l /\ h <> k.
Proof.
  unfold set_remove. rewrite filter_In. split; intros [H1 H2]; split; auto.
  - apply negb_true_iff, bytes_eqb_neq in H2. exact H2.
  - apply negb_true_iff, bytes_eqb_neq. exact H2.
Qed.

Lemma NoDup_filter {A} (f : A -> bool) l : NoDup l -> NoDup (filter f l).
Proof.
  induction 1 as [|x l Hx Hl IH]; simpl; [constructor|].
  destruct (f x); [|exact IH]. constructor; [|exact IH]. intro H. apply filter_In in H. tauto.
Qed.

(* ---------- listing ---------- *)
Lemma mem_map_filter_key {V} (f : name -> bool) (m : list (name * V)) k :
  mem k (map fst (filter (fun p => f (fst p)) m)) = f k && has_key m k.
Proof.
  unfold has_key. induction m as [|[a e] m IH]; simpl.
  - rewrite andb_false_r. reflexivity.
  - destruct (f a) eqn:Fa; simpl.
    + rewrite IH. rewrite (beq_sym k a). destruct (bytes_eqb a k) eqn:E; simpl.
      * apply bytes_eqb_eq in E. subst. rewrite Fa. reflexivity.
      * reflexivity.
    + rewrite IH. destruct (bytes_eqb a k) eqn:E; [|reflexivity].
      apply bytes_eqb_eq in E. subst. rewrite Fa. reflexivity.
Qed.

Lemma is_file_has_key0 d k : is_file d k = true -> has_key d k = true.
Proof. unfold is_file, has_key. destruct (lookup d k) as [[| | |]|]; congruence. Qed.

(* the start-up scan lists exactly the blob-hash names that are (links to) regular files *)
Lemma mem_listed d k : mem k (listed d) = valid_name k && is_file d k.
Proof.
  unfold listed. rewrite (mem_map_filter_key (fun n => valid_name n && is_file d n)).
  destruct (valid_name k); [|reflexivity]. destruct (is_file d k) eqn:F; [|reflexivity].
  rewrite (is_file_has_key0 _ _ F). reflexivity.
Qed.

Lemma mem_listed_all d k : mem k (listed_all d) = valid_name k && has_key d k.
Proof. unfold listed_all. apply mem_map_filter_key. Qed.

Lemma is_file_has_key d k : is_file d k = true -> has_key d k = true.
Proof. unfold is_file, has_key. destruct (lookup d k) as [[| | |]|]; congruence. Qed.

(* a blob directory that holds no sub-directories (every entry is a regular file) *)
Definition files_only (d : disk_t) : Prop := Forall (fun p => exists sz, snd p = EFile sz) d.

Lemma files_only_lookup d k e : files_only d -> lookup d k = Some e -> exists sz, e = EFile sz.
Proof.
  induction 1 as [|[a x] d Hx Hd IH]; simpl; [discriminate|].
  destruct (bytes_eqb a k); [|exact IH]. intro H. inversion H. subst. exact Hx.
Qed.

Lemma files_only_is_file d k : files_only d -> has_key d k = true -> is_file d k = true.
Proof.
  unfold has_key, is_file. intros F H. destruct (lookup d k) as [e|] eqn:L; [|discriminate].
  destruct (files_only_lookup _ _ _ F L) as [sz ->]. reflexivity.
Qed.

Lemma files_only_not_dir d k : files_only d -> is_dir d k = false.
Proof.
  unfold is_dir. intro F. destruct (lookup d k) as [e|] eqn:L; [|reflexivity].
  destruct (files_only_lookup _ _ _ F L) as [sz ->]. reflexivity.
Qed.

Lemma files_only_remove d k : files_only d -> files_only (remove_key d k).
Proof.
  unfold files_only, remove_key. intro F. apply Forall_forall. intros p Hp.
  apply filter_In in Hp as [Hp _]. revert p Hp. apply Forall_forall. exact F.
Qed.

Lemma files_only_set d k sz : files_only d -> files_only (set_key d k (EFile sz)).
Proof. intro F. constructor; [exists sz; reflexivity | apply files_only_remove; exact F]. Qed.

Lemma files_only_write d k sz : files_only d -> files_only (write_file d k sz).
Proof. unfold write_file. intro F. destruct (is_dir d k); [exact F | apply files_only_set; exact F]. Qed.

(* ---------- blob table ---------- *)
Lemma status_insert_ignore db h st k :
  db_status (db_insert_ignore db h st) k =
  match db_status db k with Some x => Some x | None => if bytes_eqb h k then Some st else None end.
Proof.
  unfold db_insert_ignore, db_status. destruct (lookup db h) eqn:L.
  - destruct (lookup db k) eqn:Lk; [reflexivity|]. beq h k; [congruence | reflexivity].
  - rewrite lookup_app. destruct (lookup db k); [reflexivity|]. simpl. reflexivity.
Qed.

Lemma status_update db h st k :
  db_status (db_update db h st) k =
  if bytes_eqb h k then option_map (fun _ => st) (db_status db k) else db_status db k.
Proof.
  unfold db_update, db_status.
  rewrite (lookup_map_gen _ (fun a s => if bytes_eqb a h then st else s)).
  - rewrite (beq_sym k h). destruct (bytes_eqb h k); destruct (lookup db k); reflexivity.
  - intros [a s]. simpl. destruct (bytes_eqb a h); reflexivity.
Qed.

Lemma status_add_finished db h k :
  db_status (db_add db h true) k = if bytes_eqb h k then Some Finished else db_status db k.
Proof.
  unfold db_add. rewrite status_update, status_insert_ignore.
  destruct (bytes_eqb h k); destruct (db_status db k); reflexivity.
Qed.

Lemma status_add_pending db h k :
  db_status (db_add db h false) k =
  match db_status db k with Some x => Some x | None => if bytes_eqb h k then Some Pending else None end.
Proof. unfold db_add. apply status_insert_ignore. Qed.

Lemma status_delete db h k : db_status (db_delete db h) k = if bytes_eqb h k then None else db_status db k.
Proof. unfold db_delete, db_status. apply lookup_remove_key. Qed.

Lemma status_sync db files k :
  db_status (fst (sync_missing db files)) k =
  match db_status db k with
  | Some Finished => if mem k files then Some Finished else Some Pending
  | x => x
  end.
Proof.
  unfold sync_missing, db_status. cbn [fst].
  rewrite (lookup_map_gen _ (fun a s => if is_finished db a && negb (mem a files) then Pending else s)).
  - unfold is_finished, db_status.
    destruct (lookup db k) as [[|]|]; simpl; try reflexivity. destruct (mem k files); reflexivity.
  - intros [a s]. simpl. destruct (is_finished db a && negb (mem a files)); reflexivity.
Qed.

Lemma sync_to_add db files : snd (sync_missing db files) = filter (is_finished db) files.
Proof. reflexivity. Qed.

(* ---------- ensure_completed with a cache whose entries are all verified ---------- *)
Definition all_true (c : cache_t) : Prop := forall k e, lookup c k = Some e -> e = (true, true).

Lemma all_true_nil : all_true [].
Proof. intros k v H. discriminate. Qed.

Lemma all_true_verified d c h : all_true c -> is_blob_verified d c h = is_file d h.
Proof.
  unfold is_blob_verified. intro A. destruct (lookup c h) as [v|] eqn:L.
  - rewrite (A _ _ L). apply andb_true_r.
  - apply andb_true_r.
Qed.

Lemma all_true_set c h : all_true c -> all_true (set_key c h (true, true)).
Proof.
  intros A k v. rewrite lookup_set_key. destruct (bytes_eqb h k); [congruence | apply A].
Qed.

Lemma ensure_all_true d hs : forall db c, all_true c -> all_true (snd (ensure_completed d hs db c)).
Proof.
  induction hs as [|h r IH]; intros db c A; cbn [ensure_completed]; [exact A|].
  destruct (is_blob_verified d c h); apply IH; [|exact A].
  destruct (lookup c h); [exact A | apply all_true_set; exact A].
Qed.

Lemma ensure_status d hs : forall db c k, all_true c ->
  db_status (fst (ensure_completed d hs db c)) k =
  if mem k hs && is_file d k then Some Finished else db_status db k.
Proof.
  induction hs as [|h r IH]; intros db c k A; cbn [ensure_completed].
  - reflexivity.
  - rewrite (all_true_verified d c h A). cbn [mem existsb]. fold (mem k r).
    destruct (is_file d h) eqn:F.
    + rewrite IH.
      * rewrite status_add_finished. rewrite (beq_sym k h).
        destruct (bytes_eqb h k) eqn:E; simpl.
        -- apply bytes_eqb_eq in E. subst. rewrite F. destruct (mem k r); reflexivity.
        -- reflexivity.
      * destruct (lookup c h); [exact A | apply all_true_set; exact A].
    + rewrite IH by exact A. rewrite (beq_sym k h).
      destruct (bytes_eqb h k) eqn:E; simpl; [|reflexivity].
      apply bytes_eqb_eq in E. subst. rewrite F. rewrite andb_false_r. reflexivity.
Qed.

(* ---------- setup after a (re)start ---------- *)
Lemma restart_disk s : disk (restart s) = disk s.
Proof.
  unfold restart, setup, wipe. cbn [disk db completed cache].
  destruct (sync_missing (db s) (listed (disk s))) as [db1 to_add].
  destruct (ensure_completed _ _ _ _). reflexivity.
Qed.

Lemma restart_with_disk s b : disk (restart_with s b) = disk s.
Proof. unfold restart_with. rewrite restart_disk. reflexivity. Qed.

Lemma restart_alive s : alive (restart s) = true.
Proof.
  unfold restart, setup, wipe. cbn [disk db completed cache].
  destruct (sync_missing (db s) (listed (disk s))) as [db1 to_add].
  destruct (ensure_completed _ _ _ _). reflexivity.
Qed.

Lemma restart_db s :
  db (restart s) =
  fst (ensure_completed (disk s)
         (filter (fun f => negb (mem f (filter (is_finished (db s)) (listed (disk s))))) (listed (disk s)))
         (fst (sync_missing (db s) (listed (disk s)))) []).
Proof.
  unfold restart, setup, wipe, sync_missing. cbn [disk db completed cache fst].
  destruct (ensure_completed _ _ _ _). reflexivity.
Qed.

Lemma restart_completed s :
  completed (restart s) =
  fold_left (fun acc h => set_add h acc) (filter (is_finished (db s)) (listed (disk s))) [].
Proof.
  unfold restart, setup, wipe. cbn [disk db completed cache].
  unfold sync_missing. destruct (ensure_completed _ _ _ _). reflexivity.
Qed.

(* the blob table after a restart, row by row *)
Lemma restart_db_exact s k :
  db_status (db (restart s)) k =
  if valid_name k && is_file (disk s) k then Some Finished
  else match db_status (db s) k with Some Finished => Some Pending | x => x end.
Proof.
  rewrite restart_db. rewrite ensure_status by apply all_true_nil.
  rewrite status_sync. rewrite !mem_filter. rewrite mem_listed.
  unfold is_finished.
  destruct (valid_name k) eqn:V; destruct (is_file (disk s) k) eqn:F; cbn [andb negb];
    destruct (db_status (db s) k) as [[|]|]; reflexivity.
Qed.

Lemma restart_completed_In s h :
  In h (completed (restart s)) <->
  valid_name h = true /\ is_file (disk s) h = true /\ db_status (db s) h = Some Finished.
Proof.
  rewrite restart_completed, In_fold_set_add. simpl.
  rewrite <- mem_In, mem_filter, mem_listed. unfold is_finished.
  destruct (valid_name h); destruct (is_file (disk s) h); destruct (db_status (db s) h) as [[|]|];
    simpl; intuition congruence.
Qed.

Lemma restart_completed_NoDup s : NoDup (completed (restart s)).
Proof. rewrite restart_completed. apply NoDup_fold_set_add. constructor. Qed.

(* ----- the clauses of the property: no assumption on what the directory contains ----- *)
Lemma completed_have_files s h : In h (completed (restart s)) ->
  valid_name h = true /\ is_file (disk (restart s)) h = true.
Proof. intro H. apply restart_completed_In in H as [V [K _]]. rewrite restart_disk. auto. Qed.

Lemma files_finished s h : valid_name h = true -> is_file (disk s) h = true ->
  db_status (db (restart s)) h = Some Finished.
Proof. intros V F. rewrite restart_db_exact, V, F. reflexivity. Qed.

Lemma missing_downgraded s h : db_status (db s) h = Some Finished -> is_file (disk s) h = false ->
  db_status (db (restart s)) h = Some Pending.
Proof. intros D M. rewrite restart_db_exact, M, D. rewrite andb_false_r. reflexivity. Qed.

Lemma finished_have_files s h : db_status (db (restart s)) h = Some Finished ->
  valid_name h = true /\ is_file (disk s) h = true.
Proof.
  rewrite restart_db_exact.
  destruct (valid_name h); destruct (is_file (disk s) h); cbn [andb]; auto;
    destruct (db_status (db s) h) as [[|]|]; discriminate.
Qed.

(* what must NOT change *)
Lemma rows_frame s h : is_file (disk s) h = false ->
  db_status (db (restart s)) h = match db_status (db s) h with Some Finished => Some Pending | x => x end.
Proof. intro M. rewrite restart_db_exact, M. rewrite andb_false_r. reflexivity. Qed.

Lemma rows_not_invented s h : db_status (db s) h = None -> db_status (db (restart s)) h <> None ->
  valid_name h = true /\ is_file (disk s) h = true /\ db_status (db (restart s)) h = Some Finished.
Proof.
  intros D. rewrite restart_db_exact, D.
  destruct (valid_name h); destruct (is_file (disk s) h); cbn [andb]; try congruence. auto.
Qed.

Lemma rows_not_deleted s h : db_status (db s) h <> None -> db_status (db (restart s)) h <> None.
Proof.
  rewrite restart_db_exact.
  destruct (valid_name h && is_file (disk s) h); [discriminate|].
  destruct (db_status (db s) h) as [[|]|]; congruence.
Qed.

(* ----- a further restart with nothing changed ----- *)
Lemma second_restart_exact s h :
  In h (completed (restart (restart s))) <-> valid_name h = true /\ is_file (disk s) h = true.
Proof.
  rewrite restart_completed_In. rewrite restart_disk. rewrite restart_db_exact.
  destruct (valid_name h); destruct (is_file (disk s) h); cbn [andb];
    destruct (db_status (db s) h) as [[|]|]; intuition congruence.
Qed.

(* whatever is not a (link to a) regular file -- nothing there, a directory, a dangling link -- is neither
   'finished' after a start nor ever reported, whatever the table said *)
Lemma second_restart_general s h : is_file (disk s) h = false ->
  db_status (db (restart s)) h <> Some Finished /\
  ~ In h (completed (restart s)) /\ ~ In h (completed (restart (restart s))).
Proof.
  intro K. split; [|split].
  - intro H. apply finished_have_files in H as [_ H]. congruence.
  - intro H. apply restart_completed_In in H as [_ [H _]]. congruence.
  - intro H. apply second_restart_exact in H as [_ H]. congruence.
Qed.

Lemma restart_db_idempotent s h : db_status (db (restart (restart s))) h = db_status (db (restart s)) h.
Proof.
  rewrite (restart_db_exact (restart s)). rewrite restart_disk. rewrite (restart_db_exact s).
  destruct (valid_name h && is_file (disk s) h); [reflexivity|].
  destruct (db_status (db s) h) as [[|]|]; reflexivity.
Qed.

Lemma restart_stable s h :
  In h (completed (restart (restart (restart s)))) <-> In h (completed (restart (restart s))).
Proof.
  rewrite (restart_completed_In (restart (restart s))), (restart_completed_In (restart s)).
  rewrite !restart_disk. rewrite restart_db_idempotent. tauto.
Qed.

(* ---------- histories ---------- *)
Lemma get_blob_files_only sv d c h len : files_only d -> files_only (fst (fst (get_blob sv d c h len))).
Proof.
  unfold get_blob. intro F. destruct (lookup c h); [exact F|].
  destruct (lookup d h) as [[sz| | |]|]; try exact F.
  destruct ((len =? 0) || (len =? sz)); [exact F | apply files_only_remove; exact F].
Qed.

Lemma fold_create_blob_disk l : forall s, files_only (disk s) -> files_only (disk (fold_left create_blob l s)).
Proof.
  induction l as [|x l IH]; intros s F; simpl; [exact F|].
  apply IH. unfold create_blob, blob_completed. cbn [disk]. apply files_only_write. exact F.
Qed.

Lemma fold_write_files l : forall d, files_only d ->
  files_only (fold_left (fun acc (hl : name * N) => write_file acc (fst hl) (snd hl)) l d).
Proof. induction l as [|x l IH]; intros d F; simpl; [exact F|]. apply IH. apply files_only_write. exact F. Qed.

Lemma delete_blob_files_only s h : files_only (disk s) -> files_only (disk (delete_blob s h)).
Proof.
  unfold delete_blob. intro F.
  destruct (lookup (cache s) h) as [[kd v]|]; cbn [disk fst]; [destruct kd; cbn [andb]|];
    try exact F; destruct (is_file (disk s) h); try exact F; apply files_only_remove; exact F.
Qed.

Lemma delete_loop_files_only hs : forall s, files_only (disk s) -> files_only (disk (fst (delete_loop s hs))).
Proof.
  induction hs as [|h r IH]; intros s F; cbn [delete_loop]; [exact F|].
  destruct (valid_name h); [|exact F]. apply IH. apply delete_blob_files_only. exact F.
Qed.

(* ---- daemon_start: what it does to the directory ---- *)
Lemma get_blob_len0_disk sv d c h : fst (fst (get_blob sv d c h 0)) = d.
Proof.
  unfold get_blob. destruct (lookup c h); [reflexivity|]. destruct (lookup d h) as [[sz| | |]|]; reflexivity.
Qed.

Lemma recover_sd_disk s st :
  disk (recover_sd s st) = disk s \/ disk (recover_sd s st) = write_file (disk s) (st_sd st) (st_len st).
Proof.
  unfold recover_sd. pose proof (get_blob_len0_disk (save s) (disk s) (cache s) (st_sd st)) as G.
  destruct (get_blob (save s) (disk s) (cache s) (st_sd st) 0) as [[d1 [kd v]] c1]. cbn [fst snd] in *. subst d1.
  destruct (negb (rows_present s st)); [left; reflexivity|]. destruct v; [left; reflexivity|].
  destruct (kd && is_file (disk s) (st_sd st)); [left; reflexivity|].
  destruct kd; unfold blob_completed, buffer_completed; cbn [disk]; auto.
Qed.

Lemma store_recovered_disk s st : disk (store_recovered s st) = disk s.
Proof. reflexivity. Qed.

Lemma load_stream_disk s st :
  disk (load_stream s st) = disk s \/
  (st_not_json st = true /\ disk (load_stream s st) = remove_key (disk s) (st_sd st)).
Proof.
  unfold load_stream. pose proof (get_blob_len0_disk (save s) (disk s) (cache s) (st_sd st)) as G.
  destruct (get_blob (save s) (disk s) (cache s) (st_sd st) 0) as [[d1 e] c1]. cbn [fst] in G. subst.
  destruct (fst e && snd e) eqn:E1; cbn [andb]; [|left; reflexivity].
  destruct (st_not_json st) eqn:E2; [right; auto | left; reflexivity].
Qed.

Lemma fold_disk_pres (P : disk_t -> Prop) (f : state -> stream_t -> state) l :
  (forall s st, P (disk s) -> P (disk (f s st))) -> forall s, P (disk s) -> P (disk (fold_left f l s)).
Proof. intro H. induction l as [|x l IH]; intros s0 H0; cbn [fold_left]; [exact H0|]. apply IH. apply H. exact H0. Qed.

Lemma fold_load_disk_pres (P : disk_t -> Prop) (l : list stream_t) :
  (forall d st, In st l -> st_not_json st = true -> P d -> P (remove_key d (st_sd st))) ->
  forall s, P (disk s) -> P (disk (fold_left load_stream l s)).
Proof.
  induction l as [|x l IH]; intros R s0 H0; cbn [fold_left]; [exact H0|].
  apply IH; [intros d st Hs; apply R; right; exact Hs|].
  destruct (load_stream_disk s0 x) as [E|[N E]]; rewrite E; [exact H0|]. apply R; [left; reflexivity | exact N | exact H0].
Qed.

Lemma daemon_start_disk_pres (P : disk_t -> Prop) streams :
  (forall d h sz, P d -> P (write_file d h sz)) ->
  (forall d st, In st streams -> st_not_json st = true -> P d -> P (remove_key d (st_sd st))) ->
  forall s, P (disk s) -> P (disk (daemon_start s streams)).
Proof.
  intros W R s H. unfold daemon_start, daemon_start_with.
  set (s0 := restart s). set (rec := filter (needs_recovery s0) streams).
  set (s1 := fold_left recover_sd rec s0). set (s2 := fold_left store_recovered (filter (rows_present s0) rec) s1).
  assert (H1 : P (disk s1)).
  { apply fold_disk_pres; [|unfold s0; rewrite restart_disk; exact H].
    intros t st Ht. destruct (recover_sd_disk t st) as [E|E]; rewrite E; [exact Ht | apply W; exact Ht]. }
  assert (H2 : P (disk s2)).
  { apply fold_disk_pres; [|exact H1]. intros t st Ht. rewrite store_recovered_disk. exact Ht. }
  destruct (ensure_completed _ _ _ _) as [db3 c3].
  apply fold_load_disk_pres; [exact R | cbn [disk]; exact H2].
Qed.

Lemma daemon_start_files_only s streams : files_only (disk s) -> files_only (disk (daemon_start s streams)).
Proof.
  apply daemon_start_disk_pres; [intros d h sz; apply files_only_write | intros d st _ _; apply files_only_remove].
Qed.

Lemma step_files_only s o : is_ext_dir o = false -> files_only (disk s) -> files_only (disk (fst (step s o))).
Proof.
  intros ND F. destruct o; try discriminate; cbn [step].
  - (* complete *) destruct (alive s); cbn [negb]; [|exact F]. unfold complete.
    destruct (valid_name h); cbn [negb]; [|exact F].
    pose proof (get_blob_files_only (save s) (disk s) (cache s) h len F) as G.
    destruct (get_blob (save s) (disk s) (cache s) h len) as [[d1 [kd v]] c1]. cbn [fst snd] in *.
    destruct v; [exact G|]. destruct (kd && is_file d1 h); [exact G|]. destruct (len =? 0); [exact G|].
    destruct (kd && is_dir d1 h); [exact G|].
    destruct kd; unfold blob_completed, buffer_completed; cbn [fst disk]; [apply files_only_write|]; exact G.
  - (* touch *) destruct (alive s); cbn [negb]; [|exact F]. unfold touch.
    destruct (valid_name h); cbn [negb]; [|exact F].
    pose proof (get_blob_files_only (save s) (disk s) (cache s) h len F) as G.
    destruct (get_blob (save s) (disk s) (cache s) h len) as [[d1 e] c1]. exact G.
  - (* crash_write *) destruct (alive s); cbn [negb]; [|exact F]. unfold crash_write.
    destruct (valid_name h); cbn [negb]; [|exact F].
    pose proof (get_blob_files_only (save s) (disk s) (cache s) h len F) as G.
    destruct (get_blob (save s) (disk s) (cache s) h len) as [[d1 [kd v]] c1]. cbn [fst snd] in *.
    destruct v; [exact G|]. destruct (kd && is_file d1 h); [exact G|]. destruct (len =? 0); [exact G|].
    cbn [fst disk]. destruct (kd && (written =? len)); [apply files_only_write|]; exact G.
  - (* publish *) destruct (alive s); cbn [negb]; [|exact F]. unfold publish.
    destruct (negb _); [exact F|]. cbn [fst disk]. apply fold_create_blob_disk. exact F.
  - (* publish_crash *) destruct (alive s); cbn [negb]; [|exact F]. unfold publish_crash.
    destruct (negb _); [exact F|]. cbn [fst disk]. apply fold_write_files. exact F.
  - (* delete *) destruct (alive s); cbn [negb]; [|exact F]. unfold delete_blobs.
    pose proof (delete_loop_files_only hs s F) as G.
    destruct (delete_loop s hs) as [s1 ok]. cbn [fst] in G.
    destruct ok; cbn [negb]; [|exact G]. destruct from_db; exact G.
  - (* stream_delete *) destruct (alive s); cbn [negb]; [|exact F]. unfold stream_delete.
    pose proof (delete_loop_files_only (sd :: hs) s F) as G.
    destruct (delete_loop s (sd :: hs)) as [s1 ok]. cbn [fst] in G.
    destruct ok; cbn [negb]; exact G.
  - (* ext_file *) cbn [fst]. destruct (blocks_open (disk s) n); [exact F|]. cbn [with_disk disk].
    apply files_only_set. exact F.
  - (* ext_remove *) cbn [fst with_disk disk]. apply files_only_remove. exact F.
  - (* ext_link: only links to regular files are admitted here *)
    destruct target as [sz|]; [|cbn in ND; discriminate ND]. cbn [fst].
    destruct (lookup (disk s) n); [exact F|]. cbn [with_disk disk]. apply files_only_set. exact F.
  - (* ext_db *) destruct st; cbn [fst with_db disk]; exact F.
  - (* ext_mark *) cbn [fst]. destruct (db_status (db s) h); exact F.
  - (* restart *) cbn [fst]. rewrite restart_disk. exact F.
  - (* restart with save *) cbn [fst]. rewrite restart_with_disk. exact F.
  - (* daemon start *) cbn [fst]. apply daemon_start_files_only. destruct b; exact F.
Qed.

Lemma run_files_only ops : forall s, forallb (fun o => negb (is_ext_dir o)) ops = true ->
  files_only (disk s) -> files_only (disk (run s ops)).
Proof.
  induction ops as [|o r IH]; intros s H F; cbn [run]; [exact F|].
  cbn [forallb] in H. apply andb_true_iff in H as [H1 H2]. apply negb_true_iff in H1.
  apply IH; [exact H2|]. apply step_files_only; assumption.
Qed.

Lemma init_files_only : files_only (disk init).
Proof. constructor. Qed.

(* the whole property, for ANY pre-state: whatever the directory and the table contain *)
Definition bookkeeping_ok (s0 s1 : state) : Prop :=
  disk s1 = disk s0 /\
  (forall h, In h (completed s1) -> valid_name h = true /\ is_file (disk s1) h = true) /\
  (forall h, valid_name h = true -> is_file (disk s1) h = true -> db_status (db s1) h = Some Finished) /\
  (forall h, db_status (db s0) h = Some Finished -> is_file (disk s0) h = false -> db_status (db s1) h = Some Pending) /\
  (forall h, db_status (db s1) h = Some Finished -> valid_name h = true /\ is_file (disk s1) h = true).

Lemma restart_ok s : bookkeeping_ok s (restart s).
Proof.
  unfold bookkeeping_ok. rewrite restart_disk. split; [reflexivity|]. split; [|split; [|split]].
  - intros h H. pose proof (completed_have_files s h H) as [V K]. rewrite restart_disk in K. auto.
  - intros h V K. apply files_finished; assumption.
  - intros h D K. apply missing_downgraded; assumption.
  - intros h H. apply finished_have_files; assumption.
Qed.

(* every history: any list of operations, directories and dangling links included *)
Lemma history_ok ops :
  let s := run init ops in
  bookkeeping_ok s (restart s) /\
  (forall h, In h (completed (restart (restart s))) <-> valid_name h = true /\ is_file (disk s) h = true) /\
  (forall h, db_status (db (restart (restart s))) h = db_status (db (restart s)) h).
Proof.
  intro s. split; [apply restart_ok|]. split.
  - intro h. apply second_restart_exact.
  - intro h. apply restart_db_idempotent.
Qed.

(* ---------- representation invariants of reachable states (keys unique) ---------- *)
Definition keys_unique (s : state) : Prop :=
  NoDup (map fst (disk s)) /\ NoDup (map fst (db s)) /\ NoDup (completed s).

Lemma map_fst_filter_NoDup {V} (f : name * V -> bool) (m : list (name * V)) :
  NoDup (map fst m) -> NoDup (map fst (filter f m)).
Proof.
  induction m as [|[a v] m IH]; simpl; [auto|]. intro H. inversion H as [|? ? Hn Hm]. subst.
  destruct (f (a, v)); simpl; [|apply IH; exact Hm].
  constructor; [|apply IH; exact Hm]. intro I. apply Hn.
  apply in_map_iff in I as [[a' v'] [E I]]. apply filter_In in I as [I _]. simpl in E. subst.
  apply in_map_iff. exists (a, v'). split; [reflexivity | exact I].
Qed.

Lemma NoDup_remove_key {V} (m : list (name * V)) k : NoDup (map fst m) -> NoDup (map fst (remove_key m k)).
Proof. apply map_fst_filter_NoDup. Qed.

Lemma NoDup_set_key {V} (m : list (name * V)) k v : NoDup (map fst m) -> NoDup (map fst (set_key m k v)).
Proof.
  intro H. unfold set_key. simpl. constructor; [|apply NoDup_remove_key; exact H].
  apply lookup_none_notin. rewrite lookup_remove_key, bytes_eqb_refl. reflexivity.
Qed.

Lemma NoDup_write_file d k sz : NoDup (map fst d) -> NoDup (map fst (write_file d k sz)).
Proof. unfold write_file. destruct (is_dir d k); [auto | apply NoDup_set_key]. Qed.

Lemma keys_map_same {V} (f : name * V -> name * V) (m : list (name * V)) :
  (forall p, fst (f p) = fst p) -> map fst (map f m) = map fst m.
Proof. intro H. rewrite map_map. apply map_ext. exact H. Qed.

Lemma NoDup_insert_ignore db h st : NoDup (map fst db) -> NoDup (map fst (db_insert_ignore db h st)).
Proof.
  unfold db_insert_ignore, db_status. intro H. destruct (lookup db h) eqn:L; [exact H|].
  rewrite map_app. simpl. apply lookup_none_notin in L.
  apply NoDup_rev in H. rewrite <- (rev_involutive (map fst db ++ [h])). apply NoDup_rev.
  rewrite rev_app_distr. simpl. constructor; [rewrite <- in_rev; exact L | exact H].
Qed.

Lemma NoDup_update db h st : NoDup (map fst db) -> NoDup (map fst (db_update db h st)).
Proof.
  unfold db_update. rewrite keys_map_same; [auto|]. intros [a s]. simpl. destruct (bytes_eqb a h); reflexivity.
Qed.

Lemma NoDup_db_add db h f : NoDup (map fst db) -> NoDup (map fst (db_add db h f)).
Proof.
  unfold db_add. intro H. destruct f; [apply NoDup_update|]; apply NoDup_insert_ignore; exact H.
Qed.

Lemma NoDup_db_delete_all hs : forall db, NoDup (map fst db) -> NoDup (map fst (db_delete_all db hs)).
Proof.
  unfold db_delete_all. induction hs as [|h r IH]; intros db H; simpl; [exact H|].
  apply IH. unfold db_delete. apply NoDup_remove_key. exact H.
Qed.

Lemma NoDup_sync db files : NoDup (map fst db) -> NoDup (map fst (fst (sync_missing db files))).
Proof.
  unfold sync_missing. cbn [fst]. rewrite keys_map_same; [auto|].
  intros [a s]. simpl. destruct (is_finished db a && negb (mem a files)); reflexivity.
Qed.

Lemma NoDup_ensure d hs : forall db c, NoDup (map fst db) -> NoDup (map fst (fst (ensure_completed d hs db c))).
Proof.
  induction hs as [|h r IH]; intros db c H; cbn [ensure_completed]; [exact H|].
  destruct (is_blob_verified d c h); apply IH; [apply NoDup_db_add|]; exact H.
Qed.

Lemma restart_keys_unique s : keys_unique s -> keys_unique (restart s).
Proof.
  intros [Hd [Hb Hc]]. unfold keys_unique. rewrite restart_disk. split; [exact Hd|]. split.
  - rewrite restart_db. apply NoDup_ensure. apply NoDup_sync. exact Hb.
  - apply restart_completed_NoDup.
Qed.

Lemma get_blob_NoDup sv d c h len : NoDup (map fst d) -> NoDup (map fst (fst (fst (get_blob sv d c h len)))).
Proof.
  unfold get_blob. intro F. destruct (lookup c h); [exact F|].
  destruct (lookup d h) as [[sz| | |]|]; try exact F.
  destruct ((len =? 0) || (len =? sz)); [exact F | apply NoDup_remove_key; exact F].
Qed.

Lemma fold_create_blob_unique l : forall s, keys_unique s -> keys_unique (fold_left create_blob l s).
Proof.
  induction l as [|x l IH]; intros s K; simpl; [exact K|]. apply IH.
  destruct K as [Hd [Hb Hc]]. unfold create_blob, blob_completed, keys_unique. cbn [disk db completed].
  split; [apply NoDup_write_file; exact Hd|]. split; [apply NoDup_db_add; exact Hb | apply NoDup_set_add; exact Hc].
Qed.

Lemma fold_insert_pending_NoDup (l : list (name * N)) : forall db, NoDup (map fst db) ->
  NoDup (map fst (fold_left (fun acc hl => db_insert_ignore acc (fst hl) Pending) l db)).
Proof. induction l as [|x l IH]; intros db H; cbn [fold_left]; [exact H|]. apply IH. apply NoDup_insert_ignore. exact H. Qed.

Lemma fold_write_NoDup (l : list (name * N)) : forall d, NoDup (map fst d) ->
  NoDup (map fst (fold_left (fun acc hl => write_file acc (fst hl) (snd hl)) l d)).
Proof. induction l as [|x l IH]; intros d H; cbn [fold_left]; [exact H|]. apply IH. apply NoDup_write_file. exact H. Qed.

Lemma fold_db_add_NoDup (l : list (name * N)) : forall db, NoDup (map fst db) ->
  NoDup (map fst (fold_left (fun acc hl => db_add acc (fst hl) true) l db)).
Proof. induction l as [|x l IH]; intros db H; cbn [fold_left]; [exact H|]. apply IH. apply NoDup_db_add. exact H. Qed.

Lemma delete_blob_unique s h : keys_unique s -> keys_unique (delete_blob s h).
Proof.
  intros [Hd [Hb Hc]]. unfold delete_blob, keys_unique.
  assert (Hr : NoDup (set_remove h (completed s))) by (unfold set_remove; apply NoDup_filter; exact Hc).
  destruct (lookup (cache s) h) as [e|]; cbn [disk db completed]; (split; [|split]); try exact Hb; try exact Hr.
  - destruct (fst e && is_file (disk s) h); [apply NoDup_remove_key|]; exact Hd.
  - destruct (is_file (disk s) h); [apply NoDup_remove_key|]; exact Hd.
Qed.

Lemma delete_loop_unique hs : forall s, keys_unique s -> keys_unique (fst (delete_loop s hs)).
Proof.
  induction hs as [|h r IH]; intros s K; cbn [delete_loop]; [exact K|].
  destruct (valid_name h); [|exact K]. apply IH. apply delete_blob_unique. exact K.
Qed.

Lemma restart_with_keys_unique s b : keys_unique s -> keys_unique (restart_with s b).
Proof. intro K. unfold restart_with. apply restart_keys_unique. exact K. Qed.

Lemma fold_insert_pending_names_NoDup (l : list name) : forall db, NoDup (map fst db) ->
  NoDup (map fst (fold_left (fun acc h => db_insert_ignore acc h Pending) l db)).
Proof. induction l as [|x l IH]; intros db H; cbn [fold_left]; [exact H|]. apply IH. apply NoDup_insert_ignore. exact H. Qed.

Lemma recover_sd_keys_unique s st : keys_unique s -> keys_unique (recover_sd s st).
Proof.
  intros [Hd [Hb Hc]]. unfold recover_sd.
  pose proof (get_blob_len0_disk (save s) (disk s) (cache s) (st_sd st)) as G.
  destruct (get_blob (save s) (disk s) (cache s) (st_sd st) 0) as [[d1 [kd v]] c1]. cbn [fst snd] in *. subst d1.
  assert (K1 : forall c, keys_unique (mkState (disk s) (db s) (completed s) c (alive s) (save s) (marked s)))
    by (intro; split; [|split]; assumption).
  destruct (negb (rows_present s st)); [apply K1|]. destruct v; [apply K1|].
  destruct (kd && is_file (disk s) (st_sd st)); [apply K1|].
  destruct kd; unfold blob_completed, buffer_completed, keys_unique; cbn [disk db completed].
  - split; [apply NoDup_write_file; exact Hd|]. split; [apply NoDup_db_add; exact Hb | apply NoDup_set_add; exact Hc].
  - split; [exact Hd|]. split; [apply NoDup_db_add; exact Hb | exact Hc].
Qed.

Lemma store_recovered_keys_unique s st : keys_unique s -> keys_unique (store_recovered s st).
Proof.
  intros [Hd [Hb Hc]]. unfold store_recovered, keys_unique. cbn [disk db completed].
  split; [exact Hd|]. split; [|exact Hc]. apply fold_insert_pending_names_NoDup. apply NoDup_db_delete_all. exact Hb.
Qed.

Lemma load_stream_keys_unique s st : keys_unique s -> keys_unique (load_stream s st).
Proof.
  intros [Hd [Hb Hc]]. unfold load_stream.
  pose proof (get_blob_len0_disk (save s) (disk s) (cache s) (st_sd st)) as G.
  destruct (get_blob (save s) (disk s) (cache s) (st_sd st) 0) as [[d1 e] c1]. cbn [fst] in G. subst.
  destruct (fst e && snd e && st_not_json st).
  - split; [apply NoDup_remove_key; exact Hd|]. split; cbn [db completed].
    + unfold db_delete. apply NoDup_remove_key. exact Hb.
    + unfold set_remove. apply NoDup_filter. exact Hc.
  - split; [|split]; assumption.
Qed.

Lemma fold_keys_unique (f : state -> stream_t -> state) l :
  (forall s st, keys_unique s -> keys_unique (f s st)) -> forall s, keys_unique s -> keys_unique (fold_left f l s).
Proof. intro H. induction l as [|x l IH]; intros s0 H0; cbn [fold_left]; [exact H0|]. apply IH. apply H. exact H0. Qed.

Lemma daemon_start_keys_unique s streams : keys_unique s -> keys_unique (daemon_start s streams).
Proof.
  intro K. unfold daemon_start, daemon_start_with.
  set (s0 := restart s). set (rec := filter (needs_recovery s0) streams).
  set (s1 := fold_left recover_sd rec s0). set (s2 := fold_left store_recovered (filter (rows_present s0) rec) s1).
  assert (K2 : keys_unique s2).
  { apply fold_keys_unique; [apply store_recovered_keys_unique|].
    apply fold_keys_unique; [apply recover_sd_keys_unique|]. apply restart_keys_unique. exact K. }
  pose proof (NoDup_ensure (disk s2) (flat_map st_names (filter (rows_present s0) rec)) (db s2) (cache s2)) as E.
  destruct (ensure_completed _ _ _ _) as [db3 c3]. cbn [fst] in E.
  apply fold_keys_unique; [apply load_stream_keys_unique|].
  destruct K2 as [Hd [Hb Hc]]. split; [exact Hd|]. split; [apply E; exact Hb | exact Hc].
Qed.

Lemma step_keys_unique s o : keys_unique s -> keys_unique (fst (step s o)).
Proof.
  intro K. pose proof K as [Hd [Hb Hc]]. destruct o; cbn [step].
  - destruct (alive s); cbn [negb]; [|exact K]. unfold complete.
    destruct (valid_name h); cbn [negb]; [|exact K].
    pose proof (get_blob_NoDup (save s) (disk s) (cache s) h len Hd) as G.
    destruct (get_blob (save s) (disk s) (cache s) h len) as [[d1 [kd v]] c1]. cbn [fst snd] in *.
    assert (K1 : forall c a sv mk, keys_unique (mkState d1 (db s) (completed s) c a sv mk)) by (intros; split; [|split]; assumption).
    destruct v; [apply K1|]. destruct (kd && is_file d1 h); [apply K1|]. destruct (len =? 0); [apply K1|].
    destruct (kd && is_dir d1 h); [apply K1|].
    destruct kd; unfold blob_completed, buffer_completed, keys_unique; cbn [fst disk db completed].
    + split; [apply NoDup_write_file; exact G|]. split; [apply NoDup_db_add; exact Hb | apply NoDup_set_add; exact Hc].
    + split; [exact G|]. split; [apply NoDup_db_add; exact Hb | exact Hc].
  - destruct (alive s); cbn [negb]; [|exact K]. unfold touch.
    destruct (valid_name h); cbn [negb]; [|exact K].
    pose proof (get_blob_NoDup (save s) (disk s) (cache s) h len Hd) as G.
    destruct (get_blob (save s) (disk s) (cache s) h len) as [[d1 e] c1]. cbn [fst] in G.
    split; [|split]; assumption.
  - destruct (alive s); cbn [negb]; [|exact K]. unfold crash_write.
    destruct (valid_name h); cbn [negb]; [|exact K].
    pose proof (get_blob_NoDup (save s) (disk s) (cache s) h len Hd) as G.
    destruct (get_blob (save s) (disk s) (cache s) h len) as [[d1 [kd v]] c1]. cbn [fst snd] in *.
    assert (K1 : forall c a sv mk, keys_unique (mkState d1 (db s) (completed s) c a sv mk)) by (intros; split; [|split]; assumption).
    destruct v; [apply K1|]. destruct (kd && is_file d1 h); [apply K1|]. destruct (len =? 0); [apply K1|].
    unfold keys_unique. cbn [fst disk db completed].
    split; [destruct (kd && (written =? len)); [apply NoDup_write_file|]; exact G|]. split; [exact Hb | constructor].
  - destruct (alive s); cbn [negb]; [|exact K]. unfold publish.
    destruct (negb _); [exact K|]. cbn [fst].
    pose proof (fold_create_blob_unique (hs ++ [sd]) s K) as [Gd [Gb Gc]].
    unfold keys_unique. cbn [disk db completed].
    split; [exact Gd|]. split; [apply fold_insert_pending_NoDup; exact Gb | exact Gc].
  - destruct (alive s); cbn [negb]; [|exact K]. unfold publish_crash.
    destruct (negb _); [exact K|]. unfold keys_unique. cbn [fst disk db completed].
    split; [apply fold_write_NoDup; exact Hd|]. split; [apply fold_db_add_NoDup; exact Hb | constructor].
  - destruct (alive s); cbn [negb]; [|exact K]. unfold delete_blobs.
    pose proof (delete_loop_unique hs s K) as G.
    destruct (delete_loop s hs) as [s1 ok]. cbn [fst] in G.
    destruct ok; cbn [negb]; [|exact G]. destruct from_db; [|exact G].
    destruct G as [Gd [Gb Gc]]. unfold keys_unique. cbn [fst disk db completed].
    split; [exact Gd|]. split; [apply NoDup_db_delete_all; exact Gb | exact Gc].
  - destruct (alive s); cbn [negb]; [|exact K]. unfold stream_delete.
    pose proof (delete_loop_unique (sd :: hs) s K) as G.
    destruct (delete_loop s (sd :: hs)) as [s1 ok]. cbn [fst] in G.
    destruct ok; cbn [negb]; [|exact G].
    destruct G as [Gd [Gb Gc]]. unfold keys_unique. cbn [fst disk db completed].
    split; [exact Gd|]. split; [apply NoDup_db_delete_all; exact Gb | exact Gc].
  - cbn [fst]. destruct (blocks_open (disk s) n); [exact K|]. unfold keys_unique, with_disk. cbn [disk db completed].
    split; [apply NoDup_set_key; exact Hd | split; assumption].
  - cbn [fst]. destruct (lookup (disk s) n); [exact K|]. unfold keys_unique, with_disk. cbn [disk db completed].
    split; [apply NoDup_set_key; exact Hd | split; assumption].
  - cbn [fst]. unfold keys_unique, with_disk. cbn [disk db completed].
    split; [apply NoDup_remove_key; exact Hd | split; assumption].
  - cbn [fst]. destruct (lookup (disk s) n); [exact K|]. unfold keys_unique, with_disk. cbn [disk db completed].
    split; [apply NoDup_set_key; exact Hd | split; assumption].
  - cbn [fst]. destruct (lookup (disk s) n); [exact K|]. unfold keys_unique, with_disk. cbn [disk db completed].
    split; [apply NoDup_set_key; exact Hd | split; assumption].
  - destruct st; cbn [fst]; unfold keys_unique, with_db; cbn [disk db completed].
    + split; [exact Hd|]. split; [apply NoDup_update, NoDup_insert_ignore; exact Hb | exact Hc].
    + split; [exact Hd|]. split; [unfold db_delete; apply NoDup_remove_key; exact Hb | exact Hc].
  - cbn [fst]. destruct (db_status (db s) h); exact K.
  - cbn [fst]. apply restart_keys_unique. exact K.
  - cbn [fst]. apply restart_with_keys_unique. exact K.
  - cbn [fst]. apply daemon_start_keys_unique. destruct b; exact K.
Qed.

Lemma run_keys_unique ops : forall s, keys_unique s -> keys_unique (run s ops).
Proof.
  induction ops as [|o r IH]; intros s K; cbn [run]; [exact K|]. apply IH. apply step_keys_unique. exact K.
Qed.

Lemma reachable_keys_unique ops : keys_unique (run init ops).
Proof. apply run_keys_unique. repeat split; constructor. Qed.

(* ---------- between restarts: API operations alone keep every blob file recorded ---------- *)
Definition is_api_op (o : op) : bool :=
  match o with
  | OComplete _ _ | OTouch _ _ | OPublish _ _ | ODelete _ _ | OStreamDelete _ _ | ORestart | ORestartSave _ => true
  | _ => false
  end.

(* a cached in-memory blob (BlobBuffer) has no file of its name *)
Definition buffers_fileless (s : state) : Prop :=
  forall k e, lookup (cache s) k = Some e -> fst e = false -> is_file (disk s) k = false.

Definition files_recorded (s : state) : Prop :=
  files_only (disk s) /\
  (forall h, valid_name h = true -> is_file (disk s) h = true -> db_status (db s) h = Some Finished) /\
  buffers_fileless s.

Lemma is_file_set_key d h sz k : is_file (set_key d h (EFile sz)) k = if bytes_eqb h k then true else is_file d k.
Proof. unfold is_file. rewrite lookup_set_key. destruct (bytes_eqb h k); reflexivity. Qed.

Lemma is_file_remove_key d h k : is_file (remove_key d h) k = if bytes_eqb h k then false else is_file d k.
Proof. unfold is_file. rewrite lookup_remove_key. destruct (bytes_eqb h k); reflexivity. Qed.

Lemma is_file_write_file d h sz k : files_only d ->
  is_file (write_file d h sz) k = if bytes_eqb h k then true else is_file d k.
Proof. intro F. unfold write_file. rewrite (files_only_not_dir _ h F). apply is_file_set_key. Qed.

(* get_blob: files only disappear; the entry returned is the one cached afterwards; a fresh buffer has no file *)
Lemma get_blob_spec sv d c h len d1 e c1 : get_blob sv d c h len = (d1, e, c1) ->
  (forall k, is_file d1 k = true -> is_file d k = true) /\
  lookup c1 h = Some e /\
  (forall k, bytes_eqb h k = false -> lookup c1 k = lookup c k) /\
  (lookup c h = None -> fst e = false -> is_file d1 h = false) /\
  (lookup c h = Some e \/ lookup c h = None).
Proof.
  unfold get_blob. destruct (lookup c h) as [e0|] eqn:L.
  - intro H. inversion H. subst. repeat split; auto. discriminate.
  - destruct (lookup d h) as [[sz| | |]|] eqn:D.
    + destruct ((len =? 0) || (len =? sz)); intro H; inversion H; subst; clear H.
      * split; [auto|]. split; [rewrite lookup_set_key, bytes_eqb_refl; reflexivity|].
        split; [intros k Hk; rewrite lookup_set_key, Hk; reflexivity|]. split; [discriminate | auto].
      * split.
        { intros k. rewrite is_file_remove_key. destruct (bytes_eqb h k); [discriminate | auto]. }
        split; [rewrite lookup_set_key, bytes_eqb_refl; reflexivity|].
        split; [intros k Hk; rewrite lookup_set_key, Hk; reflexivity|]. split; [discriminate | auto].
    + intro H; inversion H; subst; clear H.
      split; [auto|]. split; [rewrite lookup_set_key, bytes_eqb_refl; reflexivity|].
      split; [intros k Hk; rewrite lookup_set_key, Hk; reflexivity|].
      split; [|auto]. intros _ _. unfold is_file. rewrite D. reflexivity.
    + intro H; inversion H; subst; clear H.
      split; [auto|]. split; [rewrite lookup_set_key, bytes_eqb_refl; reflexivity|].
      split; [intros k Hk; rewrite lookup_set_key, Hk; reflexivity|].
      split; [|auto]. intros _ _. unfold is_file. rewrite D. reflexivity.
    + intro H; inversion H; subst; clear H.
      split; [auto|]. split; [rewrite lookup_set_key, bytes_eqb_refl; reflexivity|].
      split; [intros k Hk; rewrite lookup_set_key, Hk; reflexivity|].
      split; [|auto]. intros _ _. unfold is_file. rewrite D. reflexivity.
    + intro H; inversion H; subst; clear H.
      split; [auto|]. split; [rewrite lookup_set_key, bytes_eqb_refl; reflexivity|].
      split; [intros k Hk; rewrite lookup_set_key, Hk; reflexivity|].
      split; [|auto]. intros _ _. unfold is_file. rewrite D. reflexivity.
Qed.

Lemma status_add_pending_finished db h k : db_status db k = Some Finished ->
  db_status (db_add db h false) k = Some Finished.
Proof. intro H. rewrite status_add_pending, H. reflexivity. Qed.

Lemma fold_insert_pending_finished (l : list (name * N)) k : forall db, db_status db k = Some Finished ->
  db_status (fold_left (fun acc hl => db_insert_ignore acc (fst hl) Pending) l db) k = Some Finished.
Proof.
  induction l as [|x l IH]; intros db H; cbn [fold_left]; [exact H|].
  apply IH. rewrite status_insert_ignore, H. reflexivity.
Qed.

(* publish: the files of fresh hashes appear and are recorded; nothing else moves on disk; cache untouched *)
Lemma fold_create_blob_spec l : forall s, files_only (disk s) ->
  let s1 := fold_left create_blob l s in
  files_only (disk s1) /\ cache s1 = cache s /\
  (forall k, is_file (disk s1) k = (mem k (map fst l) || is_file (disk s) k)) /\
  (forall k, db_status (db s1) k = if mem k (map fst l) then Some Finished else db_status (db s) k).
Proof.
  induction l as [|x l IH]; intros s F; cbn [fold_left map mem existsb].
  - repeat split; auto.
  - assert (F1 : files_only (disk (create_blob s x)))
      by (unfold create_blob, blob_completed; cbn [disk]; apply files_only_write; exact F).
    destruct (IH _ F1) as [G [C [D B]]]. split; [exact G|]. split; [rewrite C; reflexivity|]. split.
    + intro k. rewrite D. unfold create_blob, blob_completed. cbn [disk]. rewrite is_file_write_file by exact F.
      fold (mem k (map fst l)). rewrite (beq_sym k (fst x)).
      destruct (bytes_eqb (fst x) k); destruct (mem k (map fst l)); reflexivity.
    + intro k. rewrite B. unfold create_blob, blob_completed. cbn [db]. rewrite status_add_finished.
      fold (mem k (map fst l)). rewrite (beq_sym k (fst x)).
      destruct (bytes_eqb (fst x) k); destruct (mem k (map fst l)); reflexivity.
Qed.

Lemma delete_blob_is_file s h k : buffers_fileless s ->
  is_file (disk (delete_blob s h)) k = if bytes_eqb h k then false else is_file (disk s) k.
Proof.
  intro J. unfold delete_blob. destruct (lookup (cache s) h) as [[kd v]|] eqn:L; cbn [disk fst].
  - destruct kd; cbn [andb].
    + destruct (is_file (disk s) h) eqn:E; try rewrite is_file_remove_key; destruct (bytes_eqb h k) eqn:B;
        try reflexivity; apply bytes_eqb_eq in B; subst; exact E.
    + destruct (bytes_eqb h k) eqn:B; [|reflexivity]. apply bytes_eqb_eq in B. subst.
      apply (J _ _ L). reflexivity.
  - destruct (is_file (disk s) h) eqn:E; try rewrite is_file_remove_key; destruct (bytes_eqb h k) eqn:B;
      try reflexivity; apply bytes_eqb_eq in B; subst; exact E.
Qed.

Lemma delete_blob_db s h : db (delete_blob s h) = db s.
Proof. unfold delete_blob. destruct (lookup (cache s) h); reflexivity. Qed.

Lemma delete_blob_fileless s h : buffers_fileless s -> buffers_fileless (delete_blob s h).
Proof.
  intros J k e L Hk. pose proof (delete_blob_is_file s h k J) as D.
  assert (L0 : lookup (cache s) k = Some e).
  { unfold delete_blob in L. destruct (lookup (cache s) h); cbn [cache] in L; [|exact L].
    rewrite lookup_remove_key in L. destruct (bytes_eqb h k); [discriminate | exact L]. }
  rewrite D. destruct (bytes_eqb h k); [reflexivity | apply (J _ _ L0 Hk)].
Qed.

Lemma delete_loop_spec hs : forall s s1 ok, buffers_fileless s -> delete_loop s hs = (s1, ok) ->
  db s1 = db s /\ buffers_fileless s1 /\
  (forall k, is_file (disk s1) k = true -> is_file (disk s) k = true) /\
  (ok = true -> forall k, mem k hs = true -> is_file (disk s1) k = false).
Proof.
  induction hs as [|h r IH]; intros s s1 ok J H; cbn [delete_loop] in H.
  - inversion H. subst. split; [reflexivity|]. split; [exact J|]. split; [auto|]. intros _ k M. discriminate.
  - destruct (valid_name h).
    + apply IH in H as [D [J1 [M1 M2]]]; [|apply delete_blob_fileless; exact J].
      rewrite delete_blob_db in D. split; [exact D|]. split; [exact J1|]. split.
      * intros k K. apply M1 in K. rewrite delete_blob_is_file in K by exact J.
        destruct (bytes_eqb h k); [discriminate | exact K].
      * intros O k M. cbn [mem existsb] in M. fold (mem k r) in M. apply orb_true_iff in M as [M|M].
        -- destruct (is_file (disk s1) k) eqn:K; [|reflexivity]. apply M1 in K.
           rewrite delete_blob_is_file in K by exact J. rewrite beq_sym, M in K. discriminate.
        -- apply M2; assumption.
    + inversion H. subst. split; [reflexivity|]. split; [exact J|]. split; [auto|]. discriminate.
Qed.

Lemma status_delete_all hs k : forall db,
  db_status (db_delete_all db hs) k = if mem k hs then None else db_status db k.
Proof.
  unfold db_delete_all. induction hs as [|h r IH]; intro db; cbn [fold_left mem existsb]; [reflexivity|].
  fold (mem k r). rewrite IH, status_delete. rewrite (beq_sym k h).
  destruct (bytes_eqb h k); destruct (mem k r); reflexivity.
Qed.

Lemma mem_app k a b : mem k (a ++ b) = mem k a || mem k b.
Proof. unfold mem. apply existsb_app. Qed.

Lemma restart_cache_all_true s : all_true (cache (restart s)).
Proof.
  unfold restart, setup, wipe. cbn [disk db completed cache].
  destruct (sync_missing (db s) (listed (disk s))) as [db1 to_add].
  pose proof (ensure_all_true (disk s) (filter (fun f => negb (mem f to_add)) (listed (disk s))) db1 [] all_true_nil) as A.
  destruct (ensure_completed _ _ _ _). exact A.
Qed.

(* after a start the invariant holds whatever happened before, provided no directory was planted *)
Lemma restart_files_recorded s : files_only (disk s) -> files_recorded (restart s).
Proof.
  intro F. split; [rewrite restart_disk; exact F|]. split.
  - intros k Vk K. rewrite restart_disk in K. apply files_finished; assumption.
  - intros k e L Hk. rewrite (restart_cache_all_true s _ _ L) in Hk. discriminate.
Qed.

Lemma step_files_recorded s o : is_api_op o = true -> files_recorded s -> files_recorded (fst (step s o)).
Proof.
  intros A I. pose proof I as [F [R J]]. destruct o; try discriminate; cbn [step].
  - (* complete *) destruct (alive s); cbn [negb]; [|exact I]. unfold complete.
    destruct (valid_name h) eqn:V; cbn [negb]; [|exact I].
    pose proof (get_blob_files_only (save s) (disk s) (cache s) h len F) as G.
    pose proof (get_blob_spec (save s) (disk s) (cache s) h len) as S.
    destruct (get_blob (save s) (disk s) (cache s) h len) as [[d1 [kd v]] c1]. cbn [fst snd] in G.
    specialize (S d1 (kd, v) c1 eq_refl) as [M [Lh [Lo [Fr Hit]]]]. cbn [fst snd] in *.
    assert (J1 : forall k e, lookup c1 k = Some e -> fst e = false -> is_file d1 k = false).
    { intros k e L Hk. destruct (bytes_eqb h k) eqn:B.
      - apply bytes_eqb_eq in B. subst k. rewrite Lh in L. inversion L. subst e. cbn [fst] in Hk. subst kd.
        destruct Hit as [Hit|Hit].
        + destruct (is_file d1 h) eqn:K; [|reflexivity]. apply M in K. rewrite (J _ _ Hit eq_refl) in K. discriminate.
        + apply Fr; [exact Hit | reflexivity].
      - rewrite (Lo _ B) in L. destruct (is_file d1 k) eqn:K; [|reflexivity]. apply M in K.
        rewrite (J _ _ L Hk) in K. discriminate. }
    assert (I1 : forall a sv mk, files_recorded (mkState d1 (db s) (completed s) c1 a sv mk)).
    { intros a sv mk. split; [exact G|]. split; [|exact J1]. cbn [disk db]. intros k Vk K. apply R; [exact Vk | apply M; exact K]. }
    destruct v; [apply I1|]. destruct (kd && is_file d1 h) eqn:Bz; [apply I1|]. destruct (len =? 0); [apply I1|].
    destruct (kd && is_dir d1 h); [apply I1|].
    destruct kd; unfold blob_completed, buffer_completed, files_recorded, buffers_fileless; cbn [fst disk db cache].
    + split; [apply files_only_write; exact G|]. split.
      * intros k Vk. rewrite is_file_write_file by exact G.
        rewrite status_add_finished. destruct (bytes_eqb h k); [reflexivity|]. intro K. apply R; [exact Vk | apply M; exact K].
      * intros k e. rewrite lookup_set_key. rewrite is_file_write_file by exact G.
        destruct (bytes_eqb h k) eqn:B.
        -- intro L. inversion L. subst e. discriminate.
        -- intros L Hk. apply (J1 _ _ L Hk).
    + split; [exact G|]. split.
      * intros k Vk K. apply status_add_pending_finished. apply R; [exact Vk | apply M; exact K].
      * intros k e. rewrite lookup_set_key. destruct (bytes_eqb h k) eqn:B.
        -- intros _ _. apply bytes_eqb_eq in B. subst k. apply (J1 _ _ Lh eq_refl).
        -- intros L Hk. apply (J1 _ _ L Hk).
  - (* touch *) destruct (alive s); cbn [negb]; [|exact I]. unfold touch.
    destruct (valid_name h); cbn [negb]; [|exact I].
    pose proof (get_blob_files_only (save s) (disk s) (cache s) h len F) as G.
    pose proof (get_blob_spec (save s) (disk s) (cache s) h len) as S.
    destruct (get_blob (save s) (disk s) (cache s) h len) as [[d1 [kd v]] c1]. cbn [fst snd] in G.
    specialize (S d1 (kd, v) c1 eq_refl) as [M [Lh [Lo [Fr Hit]]]]. cbn [fst snd] in *.
    split; [exact G|]. split; unfold buffers_fileless; cbn [fst disk db cache].
    + intros k Vk K. apply R; [exact Vk | apply M; exact K].
    + intros k e L Hk. destruct (bytes_eqb h k) eqn:B.
      * apply bytes_eqb_eq in B. subst k. rewrite Lh in L. inversion L. subst e. cbn [fst] in Hk. subst kd.
        destruct Hit as [Hit|Hit].
        -- destruct (is_file d1 h) eqn:K; [|reflexivity]. apply M in K. rewrite (J _ _ Hit eq_refl) in K. discriminate.
        -- apply Fr; [exact Hit | reflexivity].
      * rewrite (Lo _ B) in L. destruct (is_file d1 k) eqn:K; [|reflexivity]. apply M in K.
        rewrite (J _ _ L Hk) in K. discriminate.
  - (* publish *) destruct (alive s); cbn [negb]; [|exact I]. unfold publish.
    destruct (forallb _ _ && _) eqn:P; cbn [negb]; [|exact I].
    apply andb_true_iff in P as [P _].
    pose proof (fold_create_blob_spec (hs ++ [sd]) s F) as [F1 [C1 [D1 B1]]].
    assert (Fresh : forall k, mem k (map fst (hs ++ [sd])) = true -> valid_name k = true /\ lookup (cache s) k = None).
    { intros k Mk. apply mem_In in Mk. apply in_map_iff in Mk as [x [Ex Hx]]. subst k.
      rewrite forallb_forall in P. specialize (P x Hx). apply andb_true_iff in P as [P _]. unfold fresh in P.
      apply andb_true_iff in P as [P P3]. apply andb_true_iff in P as [P1 P2].
      split; [exact P1|]. destruct (lookup (cache s) (fst x)); [discriminate | reflexivity]. }
    split; [exact F1|]. split; unfold buffers_fileless; cbn [fst disk db cache].
    + intros k Vk K. apply fold_insert_pending_finished. rewrite B1. rewrite D1 in K.
      destruct (mem k (map fst (hs ++ [sd]))); [reflexivity|]. apply R; [exact Vk | exact K].
    + intros k e. rewrite lookup_set_key. destruct (bytes_eqb (fst sd) k) eqn:B.
      * intro L. inversion L. subst e. discriminate.
      * rewrite C1. intros L Hk. rewrite D1.
        destruct (mem k (map fst (hs ++ [sd]))) eqn:Mk.
        -- destruct (Fresh k Mk) as [_ N]. rewrite N in L. discriminate.
        -- apply (J _ _ L Hk).
  - (* delete *) destruct (alive s); cbn [negb]; [|exact I]. unfold delete_blobs.
    pose proof (delete_loop_files_only hs s F) as G.
    pose proof (delete_loop_spec hs s) as S.
    destruct (delete_loop s hs) as [s1 ok]. cbn [fst] in G. specialize (S s1 ok J eq_refl) as [D [J1 [M1 M2]]].
    assert (I1 : files_recorded s1).
    { split; [exact G|]. split; [|exact J1]. intros k Vk K. rewrite D. apply R; [exact Vk | apply M1; exact K]. }
    destruct ok; cbn [negb]; [|exact I1]. destruct from_db; [|exact I1].
    split; [exact G|]. split; [|exact J1]. cbn [fst disk db]. intros k Vk K. rewrite status_delete_all.
    destruct (mem k hs) eqn:Mk; [rewrite (M2 eq_refl k Mk) in K; discriminate|].
    rewrite D. apply R; [exact Vk | apply M1; exact K].
  - (* stream_delete *) destruct (alive s); cbn [negb]; [|exact I]. unfold stream_delete.
    pose proof (delete_loop_files_only (sd :: hs) s F) as G.
    pose proof (delete_loop_spec (sd :: hs) s) as S.
    destruct (delete_loop s (sd :: hs)) as [s1 ok]. cbn [fst] in G. specialize (S s1 ok J eq_refl) as [D [J1 [M1 M2]]].
    assert (I1 : files_recorded s1).
    { split; [exact G|]. split; [|exact J1]. intros k Vk K. rewrite D. apply R; [exact Vk | apply M1; exact K]. }
    destruct ok; cbn [negb]; [|exact I1].
    split; [exact G|]. split; [|exact J1]. cbn [fst disk db]. intros k Vk K. rewrite status_delete_all.
    destruct (mem k (hs ++ [sd])) eqn:Mk.
    + assert (Mk' : mem k (sd :: hs) = true).
      { rewrite mem_app in Mk. cbn [mem existsb] in *. fold (mem k hs) in *. rewrite orb_false_r in Mk.
        rewrite orb_comm. exact Mk. }
      rewrite (M2 eq_refl k Mk') in K. discriminate.
    + rewrite D. apply R; [exact Vk | apply M1; exact K].
  - (* restart *) cbn [fst]. apply restart_files_recorded. exact F.
  - (* restart with save *) cbn [fst]. unfold restart_with. apply restart_files_recorded. exact F.
Qed.

Lemma run_files_recorded ops : forall s, forallb is_api_op ops = true -> files_recorded s -> files_recorded (run s ops).
Proof.
  induction ops as [|o r IH]; intros s H I; cbn [run]; [exact I|].
  cbn [forallb] in H. apply andb_true_iff in H as [H1 H2]. apply IH; [exact H2|]. apply step_files_recorded; assumption.
Qed.

(* config.save_blobs plays no part in what a start does to directory, table and completed set *)
Lemma restart_with_same s b :
  disk (restart_with s b) = disk (restart s) /\ db (restart_with s b) = db (restart s) /\
  completed (restart_with s b) = completed (restart s).
Proof.
  unfold restart_with, set_save, restart, setup, wipe. cbn [disk db completed cache save].
  destruct (sync_missing (db s) (listed (disk s))) as [db1 to_add].
  destruct (ensure_completed _ _ _ _). cbn [disk db completed]. auto.
Qed.

(* the plan's two headline statements, assembled *)
Lemma setup_idempotent s :
  disk (restart (restart s)) = disk s /\
  (forall h, In h (completed (restart (restart s))) <-> valid_name h = true /\ is_file (disk s) h = true) /\
  (forall h, db_status (db (restart (restart s))) h = db_status (db (restart s)) h).
Proof.
  split; [rewrite !restart_disk; reflexivity|]. split.
  - intro h. apply second_restart_exact.
  - intro h. apply restart_db_idempotent.
Qed.

(* ---------- what the DHT announcer is handed after a start ---------- *)
Lemma announce_finished head s h : In h (announce_list head s) -> db_status (db s) h = Some Finished.
Proof.
  unfold announce_list. intro H. apply filter_In in H as [_ H]. apply andb_true_iff in H as [H _].
  unfold is_finished in H. destruct (db_status (db s) h) as [[|]|]; congruence.
Qed.

Lemma announced_have_files head s h : In h (announce_list head (restart s)) ->
  valid_name h = true /\ is_file (disk (restart s)) h = true.
Proof.
  intro H. apply announce_finished in H. rewrite restart_disk. apply finished_have_files; assumption.
Qed.

Lemma announce_all_exact s h :
  In h (announce_list false (restart s)) <-> valid_name h = true /\ is_file (disk s) h = true.
Proof.
  split.
  - intro H. pose proof (announced_have_files false s h H) as [V K]. rewrite restart_disk in K. auto.
  - intros [V K]. pose proof (files_finished s h V K) as D. unfold announce_list. apply filter_In. split.
    + unfold db_status in D. apply lookup_some_in in D. exact D.
    + unfold is_finished. rewrite D. reflexivity.
Qed.

Lemma announce_head_subset s h : In h (announce_list true s) ->
  In h (announce_list false s) /\ mem h (marked s) = true.
Proof.
  unfold announce_list. intro H. apply filter_In in H as [K H]. apply andb_true_iff in H as [H1 H2].
  cbn [negb orb] in H2. split; [|exact H2]. apply filter_In. split; [exact K|]. rewrite H1. reflexivity.
Qed.

(* ---------- daemon start = BlobManager.setup + StreamManager.initialize_from_database ---------- *)
Lemma is_file_write_gen d h sz k :
  is_file (write_file d h sz) k = if is_dir d h then is_file d k else if bytes_eqb h k then true else is_file d k.
Proof. unfold write_file. destruct (is_dir d h); [reflexivity | apply is_file_set_key]. Qed.

Lemma is_dir_write_gen d h sz k : is_dir (write_file d h sz) k = true -> is_dir d k = true.
Proof.
  unfold write_file. destruct (is_dir d h); [auto|]. unfold is_dir. rewrite lookup_set_key.
  destruct (bytes_eqb h k); [discriminate | auto].
Qed.

Lemma get_blob_len0_spec sv d c h e c1 : get_blob sv d c h 0 = (d, e, c1) ->
  lookup c1 h = Some e /\
  (forall k, bytes_eqb h k = false -> lookup c1 k = lookup c k) /\
  (lookup c h = Some e \/ (lookup c h = None /\ (snd e = false -> is_file d h = false))).
Proof.
  unfold get_blob. destruct (lookup c h) as [e0|] eqn:L.
  - intro H. inversion H. subst. auto.
  - unfold is_file. destruct (lookup d h) as [[sz| | |]|]; cbn [N.eqb orb]; intro H; inversion H; subst; clear H;
      (split; [rewrite lookup_set_key, bytes_eqb_refl; reflexivity|]);
      (split; [intros k Hk; rewrite lookup_set_key, Hk; reflexivity|]); right; split; auto; cbn [snd]; discriminate.
Qed.

Section DaemonStart.
  Variable L : list stream_t.

  Definition files_are_finished (s : state) : Prop :=
    forall k, valid_name k = true -> is_file (disk s) k = true -> db_status (db s) k = Some Finished.
  Definition finished_are_files (s : state) : Prop :=
    forall k, db_status (db s) k = Some Finished -> is_file (disk s) k = true.
  Definition unverified_fileless (s : state) : Prop :=
    forall k e, lookup (cache s) k = Some e -> snd e = false -> is_file (disk s) k = false.
  Definition completed_are_files (s : state) : Prop := forall k, In k (completed s) -> is_file (disk s) k = true.
  Definition no_dir_under_sd (s : state) : Prop := forall st, In st L -> is_dir (disk s) (st_sd st) = false.

  Definition good (s : state) : Prop :=
    finished_are_files s /\ unverified_fileless s /\ completed_are_files s /\ no_dir_under_sd s.

  Lemma recover_sd_good s st : In st L -> good s -> good (recover_sd s st).
  Proof.
    intros HL [IF [J [IC ND]]]. unfold recover_sd.
    pose proof (get_blob_len0_disk (save s) (disk s) (cache s) (st_sd st)) as G.
    pose proof (get_blob_len0_spec (save s) (disk s) (cache s) (st_sd st)) as S.
    destruct (get_blob (save s) (disk s) (cache s) (st_sd st) 0) as [[d1 [kd v]] c1]. cbn [fst snd] in G. subst d1.
    specialize (S (kd, v) c1 eq_refl) as [Lh [Lo Hit]]. cbn [fst snd] in *.
    assert (J1 : forall k e, lookup c1 k = Some e -> snd e = false -> is_file (disk s) k = false).
    { intros k e Lk Hk. destruct (bytes_eqb (st_sd st) k) eqn:B.
      - apply bytes_eqb_eq in B. subst k. rewrite Lh in Lk. inversion Lk. subst e. cbn [snd] in Hk.
        destruct Hit as [Hit|[_ Hit]]; [apply (J _ _ Hit Hk) | apply Hit; exact Hk].
      - rewrite (Lo _ B) in Lk. apply (J _ _ Lk Hk). }
    assert (G1 : forall c, (forall k e, lookup c k = Some e -> snd e = false -> is_file (disk s) k = false) ->
                 good (mkState (disk s) (db s) (completed s) c (alive s) (save s) (marked s))).
    { intros c Jc. split; [exact IF|]. split; [exact Jc|]. split; [exact IC | exact ND]. }
    destruct (negb (rows_present s st)); [apply G1; exact J1|]. destruct v; [apply G1; exact J1|].
    destruct (kd && is_file (disk s) (st_sd st)); [apply G1; exact J1|].
    pose proof (ND st HL) as NDst.
    destruct kd; unfold blob_completed, buffer_completed, good, finished_are_files, unverified_fileless,
      completed_are_files, no_dir_under_sd; cbn [disk db completed cache].
    - split; [|split; [|split]].
      + intro k. rewrite status_add_finished, is_file_write_gen, NDst.
        destruct (bytes_eqb (st_sd st) k); [reflexivity | apply IF].
      + intros k e. rewrite lookup_set_key, is_file_write_gen, NDst. destruct (bytes_eqb (st_sd st) k).
        * intro E. inversion E. subst e. discriminate.
        * apply J1.
      + intros k Hk. rewrite is_file_write_gen, NDst. apply In_set_add in Hk as [->|Hk].
        * rewrite bytes_eqb_refl. reflexivity.
        * destruct (bytes_eqb (st_sd st) k); [reflexivity | apply IC; exact Hk].
      + intros st' Hs'. destruct (is_dir (write_file (disk s) (st_sd st) (st_len st)) (st_sd st')) eqn:Dd; [|reflexivity].
        apply is_dir_write_gen in Dd. rewrite (ND st' Hs') in Dd. discriminate.
    - split; [|split; [|split]].
      + intros k Hk. apply IF. rewrite status_add_pending in Hk.
        destruct (db_status (db s) k) as [x|]; [exact Hk|]. destruct (bytes_eqb (st_sd st) k); discriminate.
      + intros k e. rewrite lookup_set_key. destruct (bytes_eqb (st_sd st) k).
        * intro E. inversion E. subst e. discriminate.
        * apply J1.
      + exact IC.
      + exact ND.
  Qed.

  Lemma recover_sd_fin s st : files_are_finished s -> files_are_finished (recover_sd s st).
  Proof.
    intros IFn. unfold recover_sd.
    pose proof (get_blob_len0_disk (save s) (disk s) (cache s) (st_sd st)) as G.
    destruct (get_blob (save s) (disk s) (cache s) (st_sd st) 0) as [[d1 [kd v]] c1]. cbn [fst snd] in G. subst d1.
    cbn [fst snd]. destruct (negb (rows_present s st)); [exact IFn|]. destruct v; [exact IFn|].
    destruct (kd && is_file (disk s) (st_sd st)); [exact IFn|].
    destruct kd; unfold blob_completed, buffer_completed, files_are_finished; cbn [disk db].
    - intros k Vk. rewrite status_add_finished, is_file_write_gen.
      destruct (bytes_eqb (st_sd st) k); [reflexivity|]. destruct (is_dir (disk s) (st_sd st)); apply IFn; exact Vk.
    - intros k Vk Hk. apply status_add_pending_finished. apply IFn; assumption.
  Qed.

  Lemma fold_recover_good l : (forall st, In st l -> In st L) -> forall s, good s -> good (fold_left recover_sd l s).
  Proof.
    induction l as [|x l IH]; intros Sub s Gd; cbn [fold_left]; [exact Gd|].
    apply IH; [intros st Hs; apply Sub; right; exact Hs|]. apply recover_sd_good; [apply Sub; left; reflexivity | exact Gd].
  Qed.

  Lemma fold_recover_fin l : forall s, files_are_finished s -> files_are_finished (fold_left recover_sd l s).
  Proof. induction l as [|x l IH]; intros s H; cbn [fold_left]; [exact H|]. apply IH. apply recover_sd_fin. exact H. Qed.

  (* storage.recover_streams: the rows of the stream are 'pending', every other row is untouched *)
  Lemma fold_insert_pending_names_status (l : list name) k : forall db,
    db_status (fold_left (fun acc h => db_insert_ignore acc h Pending) l db) k =
    match db_status db k with Some x => Some x | None => if mem k l then Some Pending else None end.
  Proof.
    induction l as [|x l IH]; intro db; cbn [fold_left mem existsb].
    - destruct (db_status db k); reflexivity.
    - fold (mem k l). rewrite IH, status_insert_ignore. rewrite (beq_sym k x).
      destruct (db_status db k); [reflexivity|]. destruct (bytes_eqb x k); [reflexivity|]. reflexivity.
  Qed.

  Lemma store_recovered_status s st k :
    db_status (db (store_recovered s st)) k =
    if mem k (st_blobs st ++ [st_sd st]) then Some Pending else db_status (db s) k.
  Proof.
    unfold store_recovered. cbn [db]. rewrite fold_insert_pending_names_status, status_delete_all.
    destruct (mem k (st_blobs st ++ [st_sd st])); [reflexivity|]. destruct (db_status (db s) k); reflexivity.
  Qed.

  Lemma mem_names_swap k st : mem k (st_blobs st ++ [st_sd st]) = mem k (st_names st).
  Proof.
    unfold st_names. rewrite mem_app. cbn [mem existsb]. fold (mem k (st_blobs st)).
    rewrite orb_false_r. apply orb_comm.
  Qed.

  Lemma mem_flat_map k (l : list stream_t) :
    mem k (flat_map st_names l) = existsb (fun st => mem k (st_names st)) l.
  Proof. induction l as [|x l IH]; cbn [flat_map existsb]; [reflexivity|]. rewrite mem_app, IH. reflexivity. Qed.

  Lemma fold_store_status l k : forall s,
    db_status (db (fold_left store_recovered l s)) k =
    if mem k (flat_map st_names l) then Some Pending else db_status (db s) k.
  Proof.
    induction l as [|x l IH]; intro s; cbn [fold_left flat_map]; [reflexivity|].
    rewrite IH, store_recovered_status, mem_names_swap, mem_app.
    destruct (mem k (st_names x)); destruct (mem k (flat_map st_names l)); reflexivity.
  Qed.

  Lemma fold_store_same l : forall s,
    disk (fold_left store_recovered l s) = disk s /\ cache (fold_left store_recovered l s) = cache s /\
    completed (fold_left store_recovered l s) = completed s.
  Proof.
    induction l as [|x l IH]; intro s; cbn [fold_left]; [auto|].
    destruct (IH (store_recovered s x)) as [A [B C]]. rewrite A, B, C. repeat split; reflexivity.
  Qed.

  (* ensure_completed_blobs_status under a cache whose unverified entries have no file *)
  Lemma ensure_status_gen d hs : forall (db : db_t) (c : cache_t) k,
    (forall x (e : centry), lookup c x = Some e -> snd e = false -> is_file d x = false) ->
    db_status (fst (ensure_completed d hs db c)) k = (if mem k hs && is_file d k then Some Finished else db_status db k) /\
    (forall x e, lookup (snd (ensure_completed d hs db c)) x = Some e -> snd e = false -> is_file d x = false).
  Proof.
    induction hs as [|h r IH]; intros db c k Jc; cbn [ensure_completed].
    - split; [reflexivity | exact Jc].
    - assert (V : is_blob_verified d c h = is_file d h).
      { unfold is_blob_verified. destruct (is_file d h) eqn:F; [|reflexivity]. destruct (lookup c h) as [e|] eqn:Lc; [|reflexivity].
        destruct (snd e) eqn:Se; [reflexivity|]. rewrite (Jc _ _ Lc Se) in F. discriminate. }
      rewrite V. cbn [mem existsb]. fold (mem k r). destruct (is_file d h) eqn:F.
      + assert (Jc' : forall x (e : centry), lookup (match lookup c h with Some _ => c | None => set_key c h (true, true) end) x = Some e ->
                        snd e = false -> is_file d x = false).
        { destruct (lookup c h); [exact Jc|]. intros x e. rewrite lookup_set_key. destruct (bytes_eqb h x).
          - intro E. inversion E. subst e. discriminate.
          - apply Jc. }
        cbv iota. destruct (IH (db_add db h true) _ k Jc') as [St Jr]. split; [|exact Jr].
        refine (eq_trans St _). rewrite status_add_finished. rewrite (beq_sym k h). destruct (bytes_eqb h k) eqn:E; cbn [orb].
        * apply bytes_eqb_eq in E. subst. rewrite F. destruct (mem k r); reflexivity.
        * reflexivity.
      + cbv iota. destruct (IH db c k Jc) as [St Jr]. split; [|exact Jr]. rewrite St. rewrite (beq_sym k h).
        destruct (bytes_eqb h k) eqn:E; cbn [orb]; [|reflexivity].
        apply bytes_eqb_eq in E. subst. rewrite F, andb_false_r. reflexivity.
  Qed.

  Definition inv3 (t : state) : Prop :=
    (forall h, In h (completed t) -> is_file (disk t) h = true) /\
    (forall h, valid_name h = true -> is_file (disk t) h = true -> db_status (db t) h = Some Finished) /\
    (forall h, db_status (db t) h = Some Finished -> is_file (disk t) h = true).

  (* loading a stream keeps the three clauses: a damaged (non-JSON) sd blob loses file, row and report together *)
  Lemma load_stream_inv3 t st : inv3 t -> inv3 (load_stream t st).
  Proof.
    intros [IC [IFn IFl]]. unfold load_stream.
    pose proof (get_blob_len0_disk (save t) (disk t) (cache t) (st_sd st)) as G.
    destruct (get_blob (save t) (disk t) (cache t) (st_sd st) 0) as [[d1 e] c1]. cbn [fst] in G. subst d1.
    destruct (fst e && snd e && st_not_json st); unfold inv3; cbn [disk db completed]; [|auto].
    split; [|split].
    - intros h Hh. apply In_set_remove in Hh as [Hh Ne]. rewrite is_file_remove_key.
      destruct (bytes_eqb (st_sd st) h) eqn:B; [apply bytes_eqb_eq in B; congruence | apply IC; exact Hh].
    - intros h Vh. rewrite is_file_remove_key, status_delete. destruct (bytes_eqb (st_sd st) h); [discriminate | apply IFn; exact Vh].
    - intros h. rewrite is_file_remove_key, status_delete. destruct (bytes_eqb (st_sd st) h); [discriminate | apply IFl].
  Qed.

  Lemma fold_load_inv3 l : forall t, inv3 t -> inv3 (fold_left load_stream l t).
  Proof. induction l as [|x l IH]; intros t H; cbn [fold_left]; [exact H|]. apply IH. apply load_stream_inv3. exact H. Qed.

  Lemma restart_good s : no_dir_under_sd s -> good (restart s).
  Proof.
    intro ND. split; [|split; [|split]].
    - intros k Hk. apply finished_have_files in Hk as [_ Hk]. rewrite restart_disk. exact Hk.
    - intros k e Lk Hk. rewrite (restart_cache_all_true s _ _ Lk) in Hk. discriminate.
    - intros k Hk. apply completed_have_files in Hk as [_ Hk]. exact Hk.
    - intros st Hs. rewrite restart_disk. apply ND. exact Hs.
  Qed.

  (* the three clauses after a daemon start that had to recover any number of the streams L *)
  Lemma daemon_start_ok s : no_dir_under_sd s ->
    let t := daemon_start s L in
    (forall h, In h (completed t) -> is_file (disk t) h = true) /\
    (forall h, valid_name h = true -> is_file (disk t) h = true -> db_status (db t) h = Some Finished) /\
    (forall h, db_status (db t) h = Some Finished -> is_file (disk t) h = true).
  Proof.
    intros ND t. subst t. unfold daemon_start, daemon_start_with.
    set (s0 := restart s). set (rec := filter (needs_recovery s0) L).
    set (rst := filter (rows_present s0) rec).
    set (s1 := fold_left recover_sd rec s0). set (s2 := fold_left store_recovered rst s1).
    assert (Sub : forall st, In st rec -> In st L) by (intros st Hs; apply filter_In in Hs; tauto).
    pose proof (fold_recover_good rec Sub s0 (restart_good s ND)) as [IF1 [J1 [IC1 _]]].
    assert (Fin0 : files_are_finished s0) by (intros k Vk Hk; unfold s0 in *; rewrite restart_disk in Hk; apply files_finished; assumption).
    pose proof (fold_recover_fin rec s0 Fin0) as Fin1. fold s1 in IF1, J1, IC1, Fin1.
    destruct (fold_store_same rst s1) as [D2 [C2 K2]]. fold s2 in D2, C2, K2.
    assert (J2 : forall x e, lookup (cache s2) x = Some e -> snd e = false -> is_file (disk s2) x = false)
      by (rewrite C2, D2; exact J1).
    pose proof (fun k => ensure_status_gen (disk s2) (flat_map st_names rst) (db s2) (cache s2) k J2) as E.
    destruct (ensure_completed (disk s2) (flat_map st_names rst) (db s2) (cache s2)) as [db3 c3]. cbn [fst snd] in E.
    apply fold_load_inv3. unfold inv3. cbn [disk db completed]. rewrite D2, K2.
    split; [exact IC1|]. split.
    - intros h Vh Hh. destruct (E h) as [St _]. rewrite St, D2, Hh.
      destruct (mem h (flat_map st_names rst)) eqn:M; [reflexivity|]. cbn [andb].
      unfold s2. rewrite fold_store_status, M. apply Fin1; assumption.
    - intros h Hh. destruct (E h) as [St _]. rewrite St, D2 in Hh.
      destruct (mem h (flat_map st_names rst)) eqn:M; cbn [andb] in Hh.
      + destruct (is_file (disk s1) h); [reflexivity|]. unfold s2 in Hh. rewrite fold_store_status, M in Hh. discriminate.
      + unfold s2 in Hh. rewrite fold_store_status, M in Hh. apply IF1. exact Hh.
  Qed.
End DaemonStart.

(* the daemon start removes no file except the sd blob of a stream whose sd blob is not JSON *)
Lemma daemon_start_disk_grows s L h : (forall st, In st L -> st_not_json st = true -> st_sd st <> h) ->
  is_file (disk s) h = true -> is_file (disk (daemon_start s L)) h = true.
Proof.
  intro NJ. apply (daemon_start_disk_pres (fun d => is_file d h = true)).
  - intros d x sz H. rewrite is_file_write_gen. destruct (is_dir d x); [auto|]. destruct (bytes_eqb x h); auto.
  - intros d st Hs Hn H. rewrite is_file_remove_key. destruct (bytes_eqb (st_sd st) h) eqn:B; [|exact H].
    apply bytes_eqb_eq in B. exfalso. apply (NJ st Hs Hn B).
Qed.

(* a further start (of the blob manager alone or of the whole daemon) after a daemon start reports exactly the files *)
Lemma daemon_start_then_restart_exact s L h :
  (forall st, In st L -> is_dir (disk s) (st_sd st) = false) ->
  (In h (completed (restart (daemon_start s L))) <->
   valid_name h = true /\ is_file (disk (daemon_start s L)) h = true).
Proof.
  intro ND. destruct (daemon_start_ok L s ND) as [_ [Fin _]]. rewrite restart_completed_In. split.
  - tauto.
  - intros [V F]. auto.
Qed.

Lemma daemon_start_announced_have_files s L head h :
  (forall st, In st L -> is_dir (disk s) (st_sd st) = false) ->
  In h (announce_list head (daemon_start s L)) -> is_file (disk (daemon_start s L)) h = true.
Proof. intros ND H. destruct (daemon_start_ok L s ND) as [_ [_ IF]]. apply IF. apply (announce_finished head). exact H. Qed.

(* ---------- between restarts, since 1ed13b5: what is reported as completed keeps its file ----------
   API operations whose blob lengths are the ones the blobs really have never take a completed blob's file away
   without un-reporting it.  (OTouch -- a download that is started with a length different from the file's and never
   finished -- deletes the file through BlobFile.__init__ and is left out.) *)
Definition is_api_op_strict (o : op) : bool :=
  match o with OTouch _ _ => false | _ => is_api_op o end.

Definition completed_backed (s : state) : Prop :=
  files_recorded s /\ forall k, In k (completed s) -> is_file (disk s) k = true.

Lemma delete_loop_completed hs : forall s s1 ok, buffers_fileless s -> delete_loop s hs = (s1, ok) ->
  (forall k, In k (completed s) -> is_file (disk s) k = true) ->
  (forall k, In k (completed s1) -> is_file (disk s1) k = true).
Proof.
  induction hs as [|h r IH]; intros s s1 ok J H C; cbn [delete_loop] in H.
  - inversion H. subst. exact C.
  - destruct (valid_name h); [|inversion H; subst; exact C].
    apply (IH (delete_blob s h) s1 ok); [apply delete_blob_fileless; exact J | exact H|].
    intros k Hk. rewrite delete_blob_is_file by exact J.
    assert (Hk' : In k (set_remove h (completed s))) by (unfold delete_blob in Hk; destruct (lookup (cache s) h); exact Hk).
    apply In_set_remove in Hk' as [Hk' Ne]. destruct (bytes_eqb h k) eqn:B; [apply bytes_eqb_eq in B; congruence | apply C; exact Hk'].
Qed.

Lemma step_completed_backed s o : is_api_op_strict o = true -> completed_backed s -> completed_backed (fst (step s o)).
Proof.
  intros A [I C]. assert (A' : is_api_op o = true) by (destruct o; try discriminate; reflexivity).
  split; [apply step_files_recorded; assumption|].
  pose proof I as [F [R J]]. destruct o; try discriminate; cbn [step].
  - (* complete *) destruct (alive s); cbn [negb]; [|exact C]. unfold complete.
    destruct (valid_name h); cbn [negb]; [|exact C]. unfold get_blob.
    destruct (lookup (cache s) h) as [[kd v]|] eqn:Lc; cbn [fst snd].
    + destruct v; [exact C|]. destruct (kd && is_file (disk s) h); [exact C|]. destruct (len =? 0); [exact C|].
      destruct (kd && is_dir (disk s) h); [exact C|].
      destruct kd; unfold blob_completed, buffer_completed; cbn [fst disk completed]; [|exact C].
      intros k Hk. rewrite is_file_write_file by exact F. apply In_set_add in Hk as [->|Hk].
      * rewrite bytes_eqb_refl. reflexivity.
      * destruct (bytes_eqb h k); [reflexivity | apply C; exact Hk].
    + destruct (lookup (disk s) h) as [[sz| | |]|] eqn:Ld.
      * destruct ((len =? 0) || (len =? sz)) eqn:Lm; cbn [fst snd]; [exact C|].
        apply orb_false_iff in Lm as [L0 _].
        assert (Nf : is_file (remove_key (disk s) h) h = false) by (rewrite is_file_remove_key, bytes_eqb_refl; reflexivity).
        rewrite Nf, L0. cbn [andb].
        assert (Nd : is_dir (remove_key (disk s) h) h = false)
          by (unfold is_dir; rewrite lookup_remove_key, bytes_eqb_refl; reflexivity).
        rewrite Nd. unfold blob_completed. cbn [fst disk completed].
        intros k Hk. rewrite is_file_write_file by (apply files_only_remove; exact F). apply In_set_add in Hk as [->|Hk].
        -- rewrite bytes_eqb_refl. reflexivity.
        -- rewrite is_file_remove_key. destruct (bytes_eqb h k); [reflexivity | apply C; exact Hk].
      * exfalso. destruct (files_only_lookup _ _ _ F Ld) as [sz E]. discriminate.
      * exfalso. destruct (files_only_lookup _ _ _ F Ld) as [sz E]. discriminate.
      * exfalso. destruct (files_only_lookup _ _ _ F Ld) as [sz E]. discriminate.
      * cbn [fst snd]. assert (Nf : is_file (disk s) h = false) by (unfold is_file; rewrite Ld; reflexivity).
        rewrite Nf, andb_false_r. destruct (len =? 0); [exact C|].
        assert (Nd : is_dir (disk s) h = false) by (unfold is_dir; rewrite Ld; reflexivity). rewrite Nd, andb_false_r.
        destruct (save s); unfold blob_completed, buffer_completed; cbn [fst disk completed]; [|exact C].
        intros k Hk. rewrite is_file_write_file by exact F. apply In_set_add in Hk as [->|Hk].
        -- rewrite bytes_eqb_refl. reflexivity.
        -- destruct (bytes_eqb h k); [reflexivity | apply C; exact Hk].
  - (* publish *) destruct (alive s); cbn [negb]; [|exact C]. unfold publish.
    destruct (forallb _ _ && _); cbn [negb]; [|exact C].
    pose proof (fold_create_blob_spec (hs ++ [sd]) s F) as [F1 [C1 [D1 B1]]]. cbn [fst disk completed].
    assert (Cm : forall l s0, (forall k, In k (completed (fold_left create_blob l s0)) -> In k (completed s0) \/ mem k (map fst l) = true)).
    { induction l as [|x l IH]; intros s0 k Hk; cbn [fold_left map] in *; [left; exact Hk|].
      apply IH in Hk as [Hk|Hk].
      - unfold create_blob, blob_completed in Hk. cbn [completed] in Hk. apply In_set_add in Hk as [->|Hk].
        + right. cbn [mem existsb]. rewrite bytes_eqb_refl. reflexivity.
        + left. exact Hk.
      - right. cbn [mem existsb]. fold (mem k (map fst l)). rewrite Hk. apply orb_true_r. }
    intros k Hk. rewrite D1. apply Cm in Hk as [Hk|Hk]; [rewrite (C k Hk); apply orb_true_r | rewrite Hk; reflexivity].
  - (* delete *) destruct (alive s); cbn [negb]; [|exact C]. unfold delete_blobs.
    pose proof (delete_loop_completed hs s) as S.
    destruct (delete_loop s hs) as [s1 ok]. specialize (S s1 ok J eq_refl C).
    destruct ok; cbn [negb]; [|exact S]. destruct from_db; exact S.
  - (* stream_delete *) destruct (alive s); cbn [negb]; [|exact C]. unfold stream_delete.
    pose proof (delete_loop_completed (sd :: hs) s) as S.
    destruct (delete_loop s (sd :: hs)) as [s1 ok]. specialize (S s1 ok J eq_refl C).
    destruct ok; cbn [negb]; exact S.
  - (* restart *) cbn [fst]. intros k Hk. apply completed_have_files in Hk as [_ Hk]. exact Hk.
  - (* restart with save *) cbn [fst]. unfold restart_with. intros k Hk. apply completed_have_files in Hk as [_ Hk]. exact Hk.
Qed.

Lemma run_completed_backed ops : forall s, forallb is_api_op_strict ops = true ->
  completed_backed s -> completed_backed (run s ops).
Proof.
  induction ops as [|o r IH]; intros s H I; cbn [run]; [exact I|].
  cbn [forallb] in H. apply andb_true_iff in H as [H1 H2]. apply IH; [exact H2|]. apply step_completed_backed; assumption.
Qed.

Lemma restart_completed_backed s : files_only (disk s) -> completed_backed (restart s).
Proof.
  intro F. split; [apply restart_files_recorded; exact F|]. intros k Hk. apply completed_have_files in Hk as [_ Hk]. exact Hk.
Qed.
