(* C05 cache proofs: reads after a reset return the serialisation of the present fields whatever
   happened before; reads stay right as long as no field is edited without a reset; Transaction.sign
   (reset, anything interleaved, reset) leaves a coherent object; without the trailing reset it
   does not. *)
From Coq Require Import NArith ZArith List Bool Lia.
From Coq.Strings Require Import Byte.
From LV Require Import Lib.Bytes Wire.CompactSize Wire.Tx Model.C05 Model.C05Cache.
Import ListNotations.
Local Open Scope N_scope.

Section CacheProofs.
  Variable sha256 : bytes -> bytes.
  Notation coherent := (coherent sha256).
  Notation read_id := (read_id sha256).
  Notation cstep := (cstep sha256).
  Notation crun := (crun sha256).
  Notation idof := (fun b => rev (sha256 (sha256 b))).

  Lemma coherent_reset s : coherent (c_reset s).
  Proof. unfold coherent, c_reset. cbn. repeat split; left; reflexivity. Qed.

  Lemma coherent_init t : coherent (c_init t).
  Proof. unfold coherent, c_init. cbn. repeat split; left; reflexivity. Qed.

  Lemma coherent_add s t : coherent (c_add s t).
  Proof. unfold coherent, c_add. cbn. repeat split; left; reflexivity. Qed.

  Lemma fresh_raw_coherent s : coherent s -> fresh_raw s = serialize (c_cur s).
  Proof.
    intros (_ & [Ho|Ho] & _); unfold fresh_raw, outs_blob, serialize; rewrite Ho; reflexivity.
  Qed.

  Lemma outs_blob_coherent s : coherent s -> outs_blob s = ser_outs (tx_outs (c_cur s)).
  Proof. intros (_ & [Ho|Ho] & _); unfold outs_blob; rewrite Ho; reflexivity. Qed.

  Lemma read_raw_coherent s : coherent s ->
    fst (read_raw s) = serialize (c_cur s) /\ coherent (snd (read_raw s)) /\
    c_cur (snd (read_raw s)) = c_cur s.
  Proof.
    intros C. pose proof (fresh_raw_coherent s C) as F. pose proof (outs_blob_coherent s C) as B.
    destruct C as (Cr & Co & Ci & Cs).
    unfold read_raw. destruct (c_raw s) as [r|] eqn:R.
    - destruct Cr as [Cr|Cr]; [discriminate|]. inversion Cr; subst. cbn [fst snd].
      split; [reflexivity|]. split; [|reflexivity]. unfold Model.C05Cache.coherent. rewrite R.
      split; [right; reflexivity|]. split; [assumption|]. split; assumption.
    - cbn [fst snd]. split; [exact F|]. split; [|reflexivity].
      unfold Model.C05Cache.coherent. cbn [c_raw c_outs c_id c_cur c_sans c_seg]. rewrite F, B.
      split; [right; reflexivity|]. split; [right; reflexivity|]. split; [exact Ci | exact Cs].
  Qed.

  (* raw_sans_segwit of a coherent object is the (witness-free) serialisation of its fields, flag or not *)
  Lemma read_sans_coherent s : coherent s ->
    fst (read_sans s) = serialize (c_cur s) /\ coherent (snd (read_sans s)) /\
    c_cur (snd (read_sans s)) = c_cur s.
  Proof.
    intros C. unfold read_sans. destruct (c_seg s) eqn:G; [|apply read_raw_coherent; exact C].
    pose proof (fresh_raw_coherent s C) as F. pose proof (outs_blob_coherent s C) as B.
    destruct C as (Cr & Co & Ci & Cs).
    destruct (c_sans s) as [r|] eqn:R.
    - destruct Cs as [Cs|Cs]; [discriminate|]. inversion Cs; subst. cbn [fst snd].
      split; [reflexivity|]. split; [|reflexivity]. unfold Model.C05Cache.coherent. rewrite R.
      split; [assumption|]. split; [assumption|]. split; [assumption | right; reflexivity].
    - cbn [fst snd]. split; [exact F|]. split; [|reflexivity].
      unfold Model.C05Cache.coherent. cbn [c_raw c_outs c_id c_cur c_sans c_seg]. rewrite F, B.
      split; [exact Cr|]. split; [right; reflexivity|]. split; [exact Ci | right; reflexivity].
  Qed.

  Lemma read_id_coherent s : coherent s ->
    fst (read_id s) = idof (serialize (c_cur s)) /\ coherent (snd (read_id s)) /\
    c_cur (snd (read_id s)) = c_cur s.
  Proof.
    intros C. unfold Model.C05Cache.read_id. destruct (c_id s) as [i|] eqn:I.
    - destruct C as (Cr & Co & [Ci|Ci] & Cs); [congruence|]. rewrite I in Ci. inversion Ci; subst.
      cbn [fst snd]. split; [reflexivity|]. split; [|reflexivity].
      unfold Model.C05Cache.coherent. rewrite I. split; [exact Cr|]. split; [exact Co|].
      split; [right; reflexivity | exact Cs].
    - destruct (read_sans_coherent s C) as (F & (Cr & Co & _ & Cs) & E).
      destruct (read_sans s) as [r s'] eqn:RR. cbn [fst snd] in *. subst r.
      split; [reflexivity|]. split; [|exact E].
      unfold Model.C05Cache.coherent. cbn [c_raw c_outs c_id c_cur c_sans c_seg]. rewrite E in *.
      split; [exact Cr|]. split; [exact Co|]. split; [right; reflexivity | exact Cs].
  Qed.

  Lemma cstep_coherent s op : is_edit op = false -> coherent s -> coherent (fst (cstep s op)).
  Proof.
    intros Hop C. destruct op; cbn [Model.C05Cache.cstep is_edit] in *; try discriminate.
    - apply coherent_add.
    - apply coherent_reset.
    - destruct (read_raw_coherent s C) as (_ & C' & _). destruct (read_raw s). exact C'.
    - destruct (read_id_coherent s C) as (_ & C' & _). destruct (read_id s). exact C'.
    - destruct (read_sans_coherent s C) as (_ & C' & _). destruct (read_sans s). exact C'.
  Qed.

  (* as long as nothing is edited in place without a reset, the object stays coherent, and a
     coherent object reads as the serialisation / id of the fields it holds *)
  Lemma crun_coherent ops : forall s, forallb (fun op => negb (is_edit op)) ops = true ->
    coherent s -> coherent (fst (crun s ops)).
  Proof.
    induction ops as [|op ops IH]; intros s H C; [exact C|].
    cbn [forallb] in H. apply andb_true_iff in H as [H1 H2]. apply negb_true_iff in H1.
    cbn [Model.C05Cache.crun]. pose proof (cstep_coherent s op H1 C) as C1.
    destruct (cstep s op) as [s1 o1]. cbn [fst] in C1. specialize (IH s1 H2 C1).
    destruct (crun s1 ops) as [s2 o2]. exact IH.
  Qed.

  Theorem reads_current_without_edits t ops :
    forallb (fun op => negb (is_edit op)) ops = true ->
    let s := fst (crun (c_init t) ops) in
    fst (read_raw s) = serialize (c_cur s) /\ fst (read_id s) = idof (serialize (c_cur s)).
  Proof.
    intros H s. assert (C : coherent s) by (apply crun_coherent; [exact H | apply coherent_init]).
    split; [apply read_raw_coherent; exact C | apply read_id_coherent; exact C].
  Qed.

  Lemma crun_app s a b : crun s (a ++ b) =
    let (s1, o1) := crun s a in let (s2, o2) := crun s1 b in (s2, o1 ++ o2).
  Proof.
    revert s. induction a as [|op a IH]; intro s; cbn [app Model.C05Cache.crun].
    - destruct (crun s b). reflexivity.
    - destruct (cstep s op) as [s1 o1]. rewrite IH. destruct (crun s1 a) as [s2 o2].
      destruct (crun s2 b) as [s3 o3]. rewrite app_assoc. reflexivity.
  Qed.

  (* whatever the history (edits, reads by other coroutines, in any order), after a final _reset()
     raw and id are those of the fields the object holds: this is Transaction.sign =
     _reset(); <key lookups during which anything may run, signatures written in place>; _reset() *)
  Theorem reset_makes_current s ops :
    let s' := fst (crun s (ops ++ [OReset])) in
    fst (read_raw s') = serialize (c_cur s') /\ fst (read_id s') = idof (serialize (c_cur s')).
  Proof.
    intro s'. assert (C : coherent s').
    { subst s'. rewrite crun_app. destruct (crun s ops) as [s1 o1].
      cbn [Model.C05Cache.crun Model.C05Cache.cstep]. cbn [fst]. apply coherent_reset. }
    split; [apply read_raw_coherent; exact C | apply read_id_coherent; exact C].
  Qed.
  (* a PARSED object (any given bytes cached as _raw, segwit flag set or not): after the first
     add_inputs / add_outputs / _reset, and as long as nothing is edited in place without a reset,
     raw, raw_sans_segwit and id are those of the fields the object holds -- in particular the id
     read before the change (which filled _raw_sans_segwit) does not survive it *)
  Theorem parsed_reads_current_after_change t raw seg before op after :
    (op = OReset \/ exists t', op = OAdd t') ->
    forallb (fun op => negb (is_edit op)) after = true ->
    let s := fst (crun (c_parsed t raw seg) (before ++ op :: after)) in
    fst (read_raw s) = serialize (c_cur s) /\ fst (read_sans s) = serialize (c_cur s) /\
    fst (read_id s) = idof (serialize (c_cur s)).
  Proof.
    intros Hop H s. assert (C : coherent s).
    { subst s. rewrite crun_app. destruct (crun (c_parsed t raw seg) before) as [s1 o1].
      cbn [Model.C05Cache.crun]. 
      assert (C1 : coherent (fst (cstep s1 op))).
      { destruct Hop as [->|[t' ->]]; cbn [Model.C05Cache.cstep fst];
          [apply coherent_reset | apply coherent_add]. }
      destruct (cstep s1 op) as [s2 o2]. cbn [fst] in C1.
      pose proof (crun_coherent after s2 H C1) as C2.
      destruct (crun s2 after) as [s3 o3]. cbn [fst] in *. exact C2. }
    split; [apply read_raw_coherent; exact C|].
    split; [apply read_sans_coherent; exact C | apply read_id_coherent; exact C].
  Qed.
End CacheProofs.

(* without the trailing reset an interleaved read leaves the pre-signature serialisation cached *)
Definition sample_tx2 : tx := mk_tx 2 [sample_in; sample_in] [sample_out] 7.
Lemma sign_without_final_reset_refuted :
  let s' := fst (crun (fun b => b) (c_init sample_tx) [OReset; OReadId; OEdit sample_tx2]) in
  fst (read_raw s') <> serialize (c_cur s').
Proof. vm_compute. discriminate. Qed.

(* the old Transaction._add: when the iterable raises midway the items already appended change the
   fields but no reset happens -- an edit without a reset after a read: the next read is stale.
   (The model's OAdd is the repaired behaviour: fields change, then reset.) *)
Lemma partial_add_without_reset_refuted :
  let s' := fst (crun (fun b => b) (c_init sample_tx) [OReadRaw; OEdit sample_tx2]) in
  fst (read_raw s') <> serialize (c_cur s') /\
  let s'' := fst (crun (fun b => b) (c_init sample_tx) [OReadRaw; OAdd sample_tx2]) in
  fst (read_raw s'') = serialize (c_cur s'').
Proof. split; vm_compute; [discriminate | reflexivity]. Qed.

(* a parsed segwit object whose id was read, then changed WITHOUT clearing _raw_sans_segwit (an edit that
   keeps the caches, then only raw/id cleared is not expressible; the nearest history: id read, edit, no reset)
   reads the old stripped bytes *)
Lemma parsed_segwit_stale_without_reset_refuted :
  let s' := fst (crun (fun b => b) (c_parsed sample_tx (serialize sample_tx) true) [OReadId; OEdit sample_tx2]) in
  fst (read_sans s') <> serialize (c_cur s') /\
  let s'' := fst (crun (fun b => b) (c_parsed sample_tx (serialize sample_tx) true) [OReadId; OAdd sample_tx2]) in
  fst (read_sans s'') = serialize (c_cur s'') /\ fst (read_id (fun b => b) s'') = rev (serialize (c_cur s'')).
Proof. split; [|split]; vm_compute; [discriminate | reflexivity | reflexivity]. Qed.
