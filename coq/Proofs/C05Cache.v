(* C05 cache proofs: reads after a reset return the serialisation of the present fields whatever
   happened before; reads stay right as long as no field is edited without a reset; Transaction.sign
   (reset, anything interleaved, reset) leaves a coherent object; without the trailing reset it
   does not. *)
From Coq Require Import NArith ZArith List Bool Lia.
From Coq.Strings Require Import Byte.
From LV Require Import Lib.Bytes Wire.CompactSize Wire.Tx Model.C05 Model.C05Cache.
Import ListNotations.
Local Open Scope N_scope.

Section CacheProofs.
  Variable sha256 : bytes -> bytes.
  Notation coherent := (coherent sha256).
  Notation read_id := (read_id sha256).
  Notation cstep := (cstep sha256).
  Notation crun := (crun sha256).
  Notation idof := (fun b => rev (sha256 (sha256 b))).

  Lemma coherent_reset s : coherent (c_reset s).
  Proof. unfold coherent, c_reset. cbn. repeat split; left; reflexivity. Qed.

  Lemma coherent_init t : coherent (c_init t).
  Proof. unfold coherent, c_init. cbn. repeat split; left; reflexivity. Qed.

  Lemma fresh_raw_coherent s : coherent s -> fresh_raw s = serialize (c_cur s).
  Proof.
    intros (_ & [Ho|Ho] & _); unfold fresh_raw, outs_blob, serialize; rewrite Ho; reflexivity.
  Qed.

  Lemma read_raw_coherent s : coherent s ->
    fst (read_raw s) = serialize (c_cur s) /\ coherent (snd (read_raw s)) /\
    c_cur (snd (read_raw s)) = c_cur s.
  Proof.
    intros C. pose proof (fresh_raw_coherent s C) as F. destruct C as (Cr & Co & Ci).
    unfold read_raw. destruct (c_raw s) as [r|] eqn:R.
    - destruct Cr as [Cr|Cr]; [discriminate|]. inversion Cr; subst. cbn [fst snd].
      split; [reflexivity|]. split; [|reflexivity]. unfold Model.C05Cache.coherent. rewrite R.
      split; [right; reflexivity|]. split; assumption.
    - cbn [fst snd]. split; [exact F|]. split; [|reflexivity].
      unfold Model.C05Cache.coherent. cbn [c_raw c_outs c_id c_cur]. rewrite F.
      split; [right; reflexivity|]. split; [|exact Ci].
      right. unfold outs_blob. destruct Co as [Co|Co]; rewrite Co; reflexivity.
  Qed.

  Lemma read_id_coherent s : coherent s ->
    fst (read_id s) = idof (serialize (c_cur s)) /\ coherent (snd (read_id s)) /\
    c_cur (snd (read_id s)) = c_cur s.
  Proof.
    intros C. unfold Model.C05Cache.read_id. destruct (c_id s) as [i|] eqn:I.
    - destruct C as (Cr & Co & [Ci|Ci]); [congruence|]. rewrite I in Ci. inversion Ci; subst.
      cbn [fst snd]. split; [reflexivity|]. split; [|reflexivity].
      unfold Model.C05Cache.coherent. rewrite I. split; [exact Cr|]. split; [exact Co | right; reflexivity].
    - destruct (read_raw_coherent s C) as (F & (Cr & Co & _) & E).
      destruct (read_raw s) as [r s'] eqn:RR. cbn [fst snd] in *. subst r.
      split; [reflexivity|]. split; [|exact E].
      unfold Model.C05Cache.coherent. cbn [c_raw c_outs c_id c_cur]. rewrite E in *.
      split; [exact Cr|]. split; [exact Co | right; reflexivity].
  Qed.

  Lemma cstep_coherent s op : is_edit op = false -> coherent s -> coherent (fst (cstep s op)).
  Proof.
    intros Hop C. destruct op; cbn [Model.C05Cache.cstep is_edit] in *; try discriminate.
    - apply coherent_init.
    - apply coherent_reset.
    - destruct (read_raw_coherent s C) as (_ & C' & _). destruct (read_raw s). exact C'.
    - destruct (read_id_coherent s C) as (_ & C' & _). destruct (read_id s). exact C'.
  Qed.

  (* as long as nothing is edited in place without a reset, the object stays coherent, and a
     coherent object reads as the serialisation / id of the fields it holds *)
  Lemma crun_coherent ops : forall s, forallb (fun op => negb (is_edit op)) ops = true ->
    coherent s -> coherent (fst (crun s ops)).
  Proof.
    induction ops as [|op ops IH]; intros s H C; [exact C|].
    cbn [forallb] in H. apply andb_true_iff in H as [H1 H2]. apply negb_true_iff in H1.
    cbn [Model.C05Cache.crun]. pose proof (cstep_coherent s op H1 C) as C1.
    destruct (cstep s op) as [s1 o1]. cbn [fst] in C1. specialize (IH s1 H2 C1).
    destruct (crun s1 ops) as [s2 o2]. exact IH.
  Qed.

  Theorem reads_current_without_edits t ops :
    forallb (fun op => negb (is_edit op)) ops = true ->
    let s := fst (crun (c_init t) ops) in
    fst (read_raw s) = serialize (c_cur s) /\ fst (read_id s) = idof (serialize (c_cur s)).
  Proof.
    intros H s. assert (C : coherent s) by (apply crun_coherent; [exact H | apply coherent_init]).
    split; [apply read_raw_coherent; exact C | apply read_id_coherent; exact C].
  Qed.

  Lemma crun_app s a b : crun s (a ++ b) =
    let (s1, o1) := crun s a in let (s2, o2) := crun s1 b in (s2, o1 ++ o2).
  Proof.
    revert s. induction a as [|op a IH]; intro s; cbn [app Model.C05Cache.crun].
    - destruct (crun s b). reflexivity.
    - destruct (cstep s op) as [s1 o1]. rewrite IH. destruct (crun s1 a) as [s2 o2].
      destruct (crun s2 b) as [s3 o3]. rewrite app_assoc. reflexivity.
  Qed.

  (* whatever the history (edits, reads by other coroutines, in any order), after a final _reset()
     raw and id are those of the fields the object holds: this is Transaction.sign =
     _reset(); <key lookups during which anything may run, signatures written in place>; _reset() *)
  Theorem reset_makes_current s ops :
    let s' := fst (crun s (ops ++ [OReset])) in
    fst (read_raw s') = serialize (c_cur s') /\ fst (read_id s') = idof (serialize (c_cur s')).
  Proof.
    intro s'. assert (C : coherent s').
    { subst s'. rewrite crun_app. destruct (crun s ops) as [s1 o1].
      cbn [Model.C05Cache.crun Model.C05Cache.cstep]. cbn [fst]. apply coherent_reset. }
    split; [apply read_raw_coherent; exact C | apply read_id_coherent; exact C].
  Qed.
End CacheProofs.

(* without the trailing reset an interleaved read leaves the pre-signature serialisation cached *)
Definition sample_tx2 : tx := mk_tx 2 [sample_in; sample_in] [sample_out] 7.
Lemma sign_without_final_reset_refuted :
  let s' := fst (crun (fun b => b) (c_init sample_tx) [OReset; OReadId; OEdit sample_tx2]) in
  fst (read_raw s') <> serialize (c_cur s').
Proof. vm_compute. discriminate. Qed.

(* the old Transaction._add: when the iterable raises midway the items already appended change the
   fields but no reset happens -- an edit without a reset after a read: the next read is stale.
   (The model's OAdd is the repaired behaviour: fields change, then reset.) *)
Lemma partial_add_without_reset_refuted :
  let s' := fst (crun (fun b => b) (c_init sample_tx) [OReadRaw; OEdit sample_tx2]) in
  fst (read_raw s') <> serialize (c_cur s') /\
  let s'' := fst (crun (fun b => b) (c_init sample_tx) [OReadRaw; OAdd sample_tx2]) in
  fst (read_raw s'') = serialize (c_cur s'').
Proof. split; vm_compute; [discriminate | reflexivity]. Qed.
