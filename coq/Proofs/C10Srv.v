(* C10 proofs: the server's idle / transfer timers *)
From Coq Require Import NArith ZArith List Bool Lia.
From LV Require Import Lib.Bytes Model.C10.
Import ListNotations.
Local Open Scope Z_scope.

Section Timers.
Variable idleT transT : Z.
Hypothesis HidleT : 0 < idleT.
Hypothesis HtransT : 0 < transT.

Fixpoint total (dts : list Z) : Z := match dts with [] => 0 | dt :: r => Z.max dt 0 + total r end.
Lemma total_nonneg dts : 0 <= total dts.
Proof. induction dts; cbn; lia. Qed.

(* an in-progress transfer is not closed by anything before its own deadline, in particular not by the idle timer *)
Lemma transfer_survives : forall dts s d,
  t_mode s = TmTransfer d -> t_now s + total dts < d ->
  tsrv_run idleT transT s (map TvAdvance dts) = mkT (t_now s + total dts) (TmTransfer d).
Proof.
  induction dts as [|dt dts IH]; intros s d Hm Hlt.
  - cbn. destruct s; cbn in *. subst. f_equal. lia.
  - cbn [map total] in *. unfold tsrv_run in *. cbn [fold_left].
    pose proof (total_nonneg dts).
    assert (Hs : tsrv_step idleT transT s (TvAdvance dt) = mkT (t_now s + Z.max dt 0) (TmTransfer d)).
    { unfold tsrv_step. rewrite Hm. destruct (d <=? t_now s + Z.max dt 0) eqn:E; [lia|reflexivity]. }
    rewrite Hs. rewrite (IH _ d); cbn; [f_equal; lia|reflexivity|lia].
Qed.

(* ... stated from the moment the transfer starts on an open idle connection: transfer_timeout, not idle_timeout *)
Theorem transfer_not_cut_by_idle s d dts :
  t_mode s = TmIdle d -> total dts < transT ->
  tsrv_run idleT transT (tsrv_step idleT transT s TvStart) (map TvAdvance dts)
    = mkT (t_now s + total dts) (TmTransfer (t_now s + transT)).
Proof.
  intros Hm Hlt. unfold tsrv_step at 1. rewrite Hm.
  rewrite (transfer_survives dts _ (t_now s + transT)); cbn; [reflexivity|reflexivity|lia].
Qed.

(* and when it completes in time the connection goes back to idle with a FRESH idle period *)
Theorem transfer_done_rearms s d dts :
  t_mode s = TmIdle d -> total dts < transT ->
  tsrv_step idleT transT (tsrv_run idleT transT (tsrv_step idleT transT s TvStart) (map TvAdvance dts)) TvDone
    = mkT (t_now s + total dts) (TmIdle (t_now s + total dts + idleT)).
Proof. intros Hm Hlt. rewrite (transfer_not_cut_by_idle s d dts Hm Hlt). reflexivity. Qed.

(* every connection is closed once its current deadline has passed: invariant over ALL event sequences *)
Definition live (s : tsrv) : Prop :=
  match t_mode s with TmIdle d | TmTransfer d => t_now s < d | TmClosed => True end.
Lemma live_step s e : live s -> live (tsrv_step idleT transT s e).
Proof.
  unfold live, tsrv_step. intro Hl.
  destruct e; destruct (t_mode s) as [d|d|] eqn:Em; cbn; rewrite ?Em; auto; try lia;
    match goal with |- context[?a <=? ?b] => destruct (a <=? b) eqn:E; cbn; auto; lia end.
Qed.
Lemma live_run : forall evs s, live s -> live (tsrv_run idleT transT s evs).
Proof. induction evs as [|e evs IH]; intros s Hl; [exact Hl|]. unfold tsrv_run in *. cbn. apply IH, live_step, Hl. Qed.
Lemma live_fresh now : live (tsrv_fresh idleT now).
Proof. unfold live, tsrv_fresh. cbn. lia. Qed.

(* the deadline never lies further ahead than max(idle, transfer) timeout *)
Definition near (s : tsrv) : Prop :=
  match t_mode s with TmIdle d => d <= t_now s + idleT | TmTransfer d => d <= t_now s + transT | TmClosed => True end.
Lemma near_step s e : near s -> near (tsrv_step idleT transT s e).
Proof.
  unfold near, tsrv_step. intro Hl.
  destruct e; destruct (t_mode s) as [d|d|] eqn:Em; cbn; rewrite ?Em; auto; try lia;
    match goal with |- context[?a <=? ?b] => destruct (a <=? b) eqn:E; cbn; auto; lia end.
Qed.

(* a silent peer (or one whose requests start no transfer) is closed when idle_timeout has elapsed *)
Definition quiet (e : tev) : Prop := match e with TvAdvance _ | TvOther => True | _ => False end.
Fixpoint elapsed_t (evs : list tev) : Z :=
  match evs with [] => 0 | TvAdvance dt :: r => Z.max dt 0 + elapsed_t r | _ :: r => elapsed_t r end.
Lemma elapsed_t_nonneg evs : 0 <= elapsed_t evs.
Proof. induction evs as [|[] r]; cbn; lia. Qed.

Lemma closed_stays : forall evs s, t_mode s = TmClosed -> t_mode (tsrv_run idleT transT s evs) = TmClosed.
Proof.
  induction evs as [|e evs IH]; intros s Hm; [exact Hm|].
  unfold tsrv_run in *. cbn [fold_left]. apply IH.
  unfold tsrv_step. rewrite Hm. destruct e; cbn; auto.
Qed.

Theorem silent_peer_closed : forall evs s d,
  Forall quiet evs -> t_mode s = TmIdle d -> live s -> d <= t_now s + elapsed_t evs ->
  t_mode (tsrv_run idleT transT s evs) = TmClosed.
Proof.
  induction evs as [|e evs IH]; intros s d Hq Hm Hl He.
  - cbn in He. unfold live in Hl. rewrite Hm in Hl. lia.
  - inversion Hq as [|? ? Hqe Hqr]; subst. unfold tsrv_run in *. cbn [fold_left].
    destruct e; try contradiction; cbn [elapsed_t] in He.
    + unfold tsrv_step. rewrite Hm. destruct (d <=? t_now s + Z.max dt 0) eqn:E.
      * apply closed_stays. reflexivity.
      * apply (IH _ d); [exact Hqr|reflexivity| |cbn; lia]. unfold live. cbn. lia.
    + assert (Hs : tsrv_step idleT transT s TvOther = s) by (unfold tsrv_step; destruct (t_mode s); reflexivity).
      rewrite Hs. apply (IH _ d); assumption.
Qed.

(* a transfer that does not finish is closed when transfer_timeout has elapsed *)
Definition unfinished (e : tev) : Prop := match e with TvDone => False | _ => True end.
Theorem stalled_transfer_closed : forall evs s d,
  Forall unfinished evs -> t_mode s = TmTransfer d -> live s -> d <= t_now s + elapsed_t evs ->
  t_mode (tsrv_run idleT transT s evs) = TmClosed.
Proof.
  induction evs as [|e evs IH]; intros s d Hq Hm Hl He.
  - cbn in He. unfold live in Hl. rewrite Hm in Hl. lia.
  - inversion Hq as [|? ? Hqe Hqr]; subst. unfold tsrv_run in *. cbn [fold_left].
    destruct e; try contradiction; cbn [elapsed_t] in He.
    + assert (Hs : tsrv_step idleT transT s TvStart = s) by (unfold tsrv_step; rewrite Hm; reflexivity).
      rewrite Hs. apply (IH _ d); assumption.
    + unfold tsrv_step. rewrite Hm. destruct (d <=? t_now s + Z.max dt 0) eqn:E.
      * apply closed_stays. reflexivity.
      * apply (IH _ d); [exact Hqr|reflexivity| |cbn; lia]. unfold live. cbn. lia.
    + assert (Hs : tsrv_step idleT transT s TvOther = s) by (unfold tsrv_step; destruct (t_mode s); reflexivity).
      rewrite Hs. apply (IH _ d); assumption.
Qed.

End Timers.

(* ------------------------------------------------------------------ several writers of one blob *)
Lemma nth_set_nth_other : forall (ws : list writer) i j w, i <> j -> nth_error (set_nth i w ws) j = nth_error ws j.
Proof.
  induction ws as [|x r IH]; intros i j w Hne; [destruct i; reflexivity|].
  destruct i, j; cbn; try reflexivity; [congruence|]. apply IH. congruence.
Qed.
Lemma nth_set_nth_same : forall (ws : list writer) i w x, nth_error ws i = Some x -> nth_error (set_nth i w ws) i = Some w.
Proof.
  induction ws as [|y r IH]; intros i w x Hn; [destruct i; discriminate|].
  destruct i; cbn in *; [reflexivity|]. eapply IH; eassumption.
Qed.

(* a writer that ends WITHOUT verified bytes (corrupted, short, excess, cancelled, or simply still open) leaves every
   other writer of the blob exactly as it was: a lying peer cannot disturb an honest transfer in progress *)
Theorem failing_writer_leaves_others H hash len ws i data w j :
  nth_error ws i = Some w ->
  w_fin (fst (writer_write H hash len w data)) <> WResult -> i <> j ->
  nth_error (blob_write H hash len ws i data) j = nth_error ws j.
Proof.
  intros Hn Hf Hne. unfold blob_write. rewrite Hn. unfold finished_callback.
  rewrite (nth_set_nth_same ws i _ w Hn).
  destruct (w_fin (fst (writer_write H hash len w data))) eqn:E; try congruence; apply nth_set_nth_other; exact Hne.
Qed.

(* and only bytes that hash to the blob hash and have the blob length ever make a writer close the others *)
Theorem closing_writer_verified H hash L ws i data w :
  nth_error ws i = Some w -> w_fin w = WPending -> w_closed w = false ->
  w_fin (fst (writer_write H hash (Some L) w data)) = WResult ->
  H (w_data w ++ data) = hash /\ zlen (w_data w ++ data) = L.
Proof.
  intros Hn Hp Hc. unfold writer_write. destruct (L =? 0); cbn; [congruence|]. rewrite Hc, Hp.
  destruct (zlen (w_data w ++ data) >? L); cbn; [discriminate|].
  destruct (zlen (w_data w ++ data) =? L) eqn:E; cbn; [|congruence].
  destruct (bytes_eqb (H (w_data w ++ data)) hash) eqn:Eh; cbn; [|discriminate].
  intros _. apply bytes_eqb_eq in Eh. split; [exact Eh|lia].
Qed.

(* ------------------------------------------------------------------ memory-only node: serve once, then "not available" *)
Theorem memory_only_serves_once store completed q h :
  q_blob q = Some (BqHash h) ->
  let store' := snd (mem_handle_request store completed q) in
  store' h = None /\
  forall q', q_blob q' = Some (BqHash h) ->
    forall o, In o (handle_request store' completed q') ->
      match o with SHeader hd => h_incoming hd = None | SBlob _ => False | _ => True end.
Proof.
  intros Hq store'. unfold store', mem_handle_request. rewrite Hq. cbn [snd].
  assert (Hf : forget store h h = None) by (unfold forget; rewrite bytes_eqb_refl; reflexivity).
  split; [exact Hf|].
  intros q' Hq' o Hin. unfold handle_request in Hin. rewrite Hq', Hf in Hin.
  destruct (q_addr q' || _ || q_price q'); [|contradiction].
  destruct Hin as [<-|[]]. reflexivity.
Qed.
