(* C11 proofs: statements used by Props/C11.v for the additional structural facts *)
From Coq Require Import NArith ZArith List Bool Lia Permutation Arith.
From LV Require Import Model.C11 Model.C11Spec Proofs.C11Base Proofs.C11Join Proofs.C11Add Proofs.C11Run Proofs.C11Extra.
Import ListNotations.
Local Open Scope N_scope.

Lemma no_empty_bucket own ops :
  own < M -> Forall op_valid ops -> Forall op_nofail ops ->
  (length (run own ops) <= 1)%nat \/ Forall (fun b => bpeers b <> []) (run own ops).
Proof.
  intros Ho V NF. pose proof (run_joined own ops Ho V NF) as J. unfold joined in J. apply join_step_none in J.
  destruct J as [L | F]; [left; exact L | right].
  eapply Forall_impl; [| exact F]. intros b Nb E. unfold nonempty, is_empty in Nb. rewrite E in Nb. discriminate.
Qed.

Lemma single_probe own ops p e :
  own < M -> Forall op_valid ops -> pid p < M ->
  match snd (step true own (run own ops) (Add p e)) with
  | OAdd _ probed => (length probed <= 1)%nat
  | _ => False
  end.
Proof.
  intros Ho V Hp. cbn [step].
  pose proof (add_peer_more own e FUEL _ p (run_wf own ops Ho V) Ho Hp FUEL_ge) as H.
  destruct (add_peer true own e FUEL (run own ops) p) as [[r pr] t']. cbn. tauto.
Qed.

Lemma rejected_unchanged own ops p e probed :
  own < M -> Forall op_valid ops -> pid p < M ->
  snd (step true own (run own ops) (Add p e)) = OAdd (Ret false) probed ->
  let t' := fst (step true own (run own ops) (Add p e)) in
  (forall x, In x (contacts t') -> pid x <> pid p) /\
  (forall x, In x (contacts t') -> In x (contacts (run own ops))) /\
  (forall x, In x (contacts (run own ops)) -> pkey x <> pkey p -> In x (contacts t')).
Proof.
  intros Ho V Hp. cbn [step].
  pose proof (add_peer_more own e FUEL _ p (run_wf own ops Ho V) Ho Hp FUEL_ge) as H.
  destruct (add_peer true own e FUEL (run own ops) p) as [[r pr] t']. cbn. intros E. inversion E; subst.
  destruct H as (_ & _ & H). destruct (H (or_introl eq_refl)) as (H1 & H2 & H3 & _).
  split; [| split; assumption]. intros x Hx Ex. apply H1. rewrite <- Ex. apply in_map. exact Hx.
Qed.

(* the probe could not even be sent (local failure): the exception leaves add_peer, the newcomer is not inserted,
   nothing new appears and every contact at another address keeps its place -- nobody is displaced *)
Lemma local_failure_displaces_nobody own ops p e probed :
  own < M -> Forall op_valid ops -> pid p < M ->
  snd (step true own (run own ops) (Add p e)) = OAdd ErrProbe probed ->
  let t' := fst (step true own (run own ops) (Add p e)) in
  (exists q, probed = [q] /\ probe e q = PLocalFail /\ In q (contacts t')) /\
  (forall x, In x (contacts t') -> pid x <> pid p) /\
  (forall x, In x (contacts t') -> In x (contacts (run own ops))) /\
  (forall x, In x (contacts (run own ops)) -> pkey x <> pkey p -> In x (contacts t')).
Proof.
  intros Ho V Hp. cbn [step].
  pose proof (add_peer_more own e FUEL _ p (run_wf own ops Ho V) Ho Hp FUEL_ge) as H.
  pose proof (add_peer_facts own e FUEL _ p (run_wf own ops Ho V) Ho Hp FUEL_ge) as Facts.
  destruct (add_peer true own e FUEL (run own ops) p) as [[r pr] t']. cbn. intros E. inversion E; subst.
  destruct H as (L & _ & H). destruct (H (or_intror eq_refl)) as (H1 & H2 & H3 & H4).
  destruct Facts as (_ & [(v & Ev) | (_ & q & Hq & Pq)] & _); [discriminate Ev |].
  split.
  - exists q. destruct probed as [| a [| b l]]; cbn in L, Hq; try tauto; try lia.
    destruct Hq as [-> | []]. split; [reflexivity |]. split; [exact Pq |]. apply H4. left. reflexivity.
  - split; [| split; assumption]. intros x Hx Ex. apply H1. rewrite <- Ex. apply in_map. exact Hx.
Qed.
