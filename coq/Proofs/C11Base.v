(* C11 proofs *)
From Coq Require Import NArith ZArith List Bool Lia Permutation Arith.
From LV Require Import Model.C11 Model.C11Spec.
Import ListNotations.
Local Open Scope N_scope.
Ltac Zify.zify_post_hook ::= Z.to_euclidean_division_equations.

(* ---------- peers, distance ---------- *)
Lemma peer_eqb_spec a b : peer_eqb a b = true <-> a = b.
Proof.
  destruct a as [i a p], b as [j b q]. unfold peer_eqb, same_key. cbn.
  rewrite !andb_true_iff, !N.eqb_eq. split.
  - intros (-> & -> & ->). reflexivity.
  - intros H. inversion H. auto.
Qed.

Lemma peer_eqb_refl a : peer_eqb a a = true.
Proof. apply peer_eqb_spec. reflexivity. Qed.

Lemma same_key_pkey a b : same_key a b = true <-> pkey a = pkey b.
Proof.
  unfold same_key, pkey. rewrite andb_true_iff, !N.eqb_eq. split.
  - intros (-> & ->). reflexivity.
  - intros H. inversion H. auto.
Qed.

Lemma dist_inj a b c : dist a b = dist a c -> b = c.
Proof.
  unfold dist. intros H.
  assert (N.lxor a (N.lxor a b) = N.lxor a (N.lxor a c)) by (rewrite H; reflexivity).
  rewrite <- !N.lxor_assoc, N.lxor_nilpotent, !N.lxor_0_l in H0. exact H0.
Qed.

Lemma lxor_lt_pow2 a b n : a < 2 ^ n -> b < 2 ^ n -> N.lxor a b < 2 ^ n.
Proof.
  intros Ha Hb.
  destruct (N.eq_dec (N.lxor a b) 0) as [E | E].
  - rewrite E. apply N.neq_0_lt_0. apply N.pow_nonzero. discriminate.
  - apply N.log2_lt_pow2; [lia |].
    pose proof (N.log2_lxor a b) as L.
    assert (La : a = 0 \/ N.log2 a < n).
    { destruct (N.eq_dec a 0); [left; assumption | right; apply N.log2_lt_pow2; lia]. }
    assert (Lb : b = 0 \/ N.log2 b < n).
    { destruct (N.eq_dec b 0); [left; assumption | right; apply N.log2_lt_pow2; lia]. }
    destruct La as [-> | La], Lb as [-> | Lb].
    + exfalso. apply E. reflexivity.
    + rewrite N.lxor_0_l in *. exact Lb.
    + rewrite N.lxor_0_r in *. exact La.
    + lia.
Qed.

Lemma dist_lt_M a b : a < M -> b < M -> dist a b < M.
Proof. apply lxor_lt_pow2. Qed.

Lemma M_pos : 0 < M.
Proof. unfold M. apply N.neq_0_lt_0. apply N.pow_nonzero. discriminate. Qed.

(* ---------- subsequences ---------- *)
Inductive sub {A : Type} : list A -> list A -> Prop :=
| sub_nil : sub [] []
| sub_skip l' l x : sub l' l -> sub l' (x :: l)
| sub_keep l' l x : sub l' l -> sub (x :: l') (x :: l).

Lemma sub_refl {A} (l : list A) : sub l l.
Proof. induction l; constructor; assumption. Qed.

Lemma sub_nil_l {A} (l : list A) : sub [] l.
Proof. induction l; constructor; assumption. Qed.

Lemma sub_app {A} (a a' b b' : list A) : sub a' a -> sub b' b -> sub (a' ++ b') (a ++ b).
Proof. induction 1; intros; cbn; [assumption | apply sub_skip; auto | apply sub_keep; auto]. Qed.

Lemma sub_trans {A} (a b c : list A) : sub a b -> sub b c -> sub a c.
Proof.
  intros H1 H2. revert a H1. induction H2; intros a H1.
  - exact H1.
  - constructor. auto.
  - inversion H1; subst.
    + apply sub_skip. auto.
    + apply sub_keep. auto.
Qed.

Lemma sub_In {A} (l' l : list A) x : sub l' l -> In x l' -> In x l.
Proof. induction 1; cbn; intuition. Qed.

Lemma sub_map {A B} (f : A -> B) (l' l : list A) : sub l' l -> sub (map f l') (map f l).
Proof. induction 1; cbn; constructor; assumption. Qed.

Lemma sub_NoDup {A} (l' l : list A) : sub l' l -> NoDup l -> NoDup l'.
Proof.
  induction 1; intros N.
  - constructor.
  - inversion N; auto.
  - inversion N; subst. constructor; auto. intro. apply H2. eapply sub_In; eauto.
Qed.

Lemma sub_filter_length {A} (f : A -> bool) (l' l : list A) :
  sub l' l -> (length (filter f l') <= length (filter f l))%nat.
Proof. induction 1; cbn; try destruct (f x); cbn; lia. Qed.

Lemma sub_length {A} (l' l : list A) : sub l' l -> (length l' <= length l)%nat.
Proof. induction 1; cbn; lia. Qed.

Lemma sub_Forall {A} (P : A -> Prop) (l' l : list A) : sub l' l -> Forall P l -> Forall P l'.
Proof. intros S F. rewrite Forall_forall in *. intros x Hx. apply F. eapply sub_In; eauto. Qed.

Lemma filter_sub {A} (f : A -> bool) (l : list A) : sub (filter f l) l.
Proof. induction l; cbn; [constructor | destruct (f a); constructor; assumption]. Qed.

Lemma remove_first_sub f l : sub (remove_first f l) l.
Proof. induction l; cbn; [constructor | destruct (f a); [constructor; apply sub_refl | constructor; assumption]]. Qed.

Lemma sub_concat_map (t' t : table) :
  Forall2 (fun b' b => sub (bpeers b') (bpeers b)) t' t -> sub (contacts t') (contacts t).
Proof. unfold contacts. induction 1; cbn; [constructor | apply sub_app; assumption]. Qed.

(* ---------- contacts ---------- *)
Lemma contacts_cons b t : contacts (b :: t) = bpeers b ++ contacts t.
Proof. reflexivity. Qed.
Lemma contacts_app a b : contacts (a ++ b) = contacts a ++ contacts b.
Proof. unfold contacts. rewrite map_app, concat_app. reflexivity. Qed.
Lemma contacts_mid pre b post : contacts (pre ++ b :: post) = contacts pre ++ bpeers b ++ contacts post.
Proof. rewrite contacts_app, contacts_cons. reflexivity. Qed.

Lemma in_contacts t x : In x (contacts t) <-> exists b, In b t /\ In x (bpeers b).
Proof.
  unfold contacts. rewrite in_concat. split.
  - intros (l & Hl & Hx). apply in_map_iff in Hl. destruct Hl as (b & <- & Hb). eauto.
  - intros (b & Hb & Hx). exists (bpeers b). split; [apply in_map; assumption | assumption].
Qed.

(* ---------- chain ---------- *)
Lemma chain_app lo a b hi : chain lo (a ++ b) hi <-> exists mid, chain lo a mid /\ chain mid b hi.
Proof.
  revert lo. induction a as [| x a IH]; intros lo; cbn.
  - split; [intros H; exists lo; auto | intros (mid & -> & H); exact H].
  - rewrite IH. split.
    + intros (H1 & H2 & mid & H3 & H4). exists mid. auto.
    + intros (mid & (H1 & H2 & H3) & H4). eauto.
Qed.

Lemma chain_le lo t hi : chain lo t hi -> lo <= hi.
Proof.
  revert lo. induction t as [| b t IH]; intros lo; cbn.
  - intros ->. lia.
  - intros (H1 & H2 & H3). apply IH in H3. lia.
Qed.

Lemma chain_in_bounds lo t hi b : chain lo t hi -> In b t -> lo <= blo b /\ blo b < bhi b /\ bhi b <= hi.
Proof.
  revert lo. induction t as [| x t IH]; intros lo; cbn; [tauto |].
  intros (H1 & H2 & H3) [-> | Hb].
  - apply chain_le in H3. lia.
  - destruct (IH _ H3 Hb). lia.
Qed.

(* ---------- find_bucket ---------- *)
Lemma find_bucket_some own id t pre b post :
  find_bucket own id t = Some (pre, b, post) ->
  t = pre ++ b :: post /\ in_range own b id = true /\ Forall (fun x => in_range own x id = false) pre.
Proof.
  revert pre. induction t as [| x t IH]; intros pre; cbn; [discriminate |].
  destruct (in_range own x id) eqn:E.
  - intros H. inversion H; subst. auto.
  - destruct (find_bucket own id t) as [[[pre' b'] post'] |]; [| discriminate].
    intros H. inversion H; subst. destruct (IH pre' eq_refl) as (-> & H2 & H3). auto.
Qed.

Lemma in_range_iff own b id : in_range own b id = true <-> blo b <= dist own id < bhi b.
Proof. unfold in_range. rewrite andb_true_iff, N.leb_le, N.ltb_lt. tauto. Qed.

Lemma find_bucket_chain own id lo t hi :
  chain lo t hi -> lo <= dist own id < hi -> exists pre b post, find_bucket own id t = Some (pre, b, post).
Proof.
  revert lo. induction t as [| x t IH]; intros lo; cbn.
  - intros -> ?. lia.
  - intros (H1 & H2 & H3) Hd. destruct (in_range own x id) eqn:E; [eauto |].
    assert (bhi x <= dist own id < hi).
    { destruct (N.lt_ge_cases (dist own id) (bhi x)); [| lia].
      exfalso. assert (in_range own x id = true) by (apply in_range_iff; lia). congruence. }
    destruct (IH _ H3 H) as (pre & b & post & ->). eauto.
Qed.

(* in a contiguous table whose contacts sit in range, a contact lives in the bucket its id is looked up in *)
Lemma in_contacts_found own t id pre b post x :
  chain 0 t M -> Forall (bucket_ok own) t ->
  find_bucket own id t = Some (pre, b, post) ->
  In x (contacts t) -> pid x = id -> In x (bpeers b).
Proof.
  intros C OK F Hx Hid. apply find_bucket_some in F. destruct F as (-> & R & Pre).
  rewrite contacts_mid in Hx. rewrite !in_app_iff in Hx. destruct Hx as [Hx | [Hx | Hx]]; [| exact Hx |]; exfalso.
  - apply in_contacts in Hx. destruct Hx as (y & Hy & Hx).
    rewrite Forall_forall in Pre. specialize (Pre _ Hy).
    rewrite Forall_forall in OK. assert (In y (pre ++ b :: post)) by (apply in_or_app; auto).
    destruct (OK _ H) as (Rng & _). rewrite Forall_forall in Rng. specialize (Rng _ Hx).
    subst id. assert (in_range own y (pid x) = true) by (apply in_range_iff; exact Rng). congruence.
  - apply in_contacts in Hx. destruct Hx as (y & Hy & Hx).
    apply chain_app in C. destruct C as (mid & C1 & C2). cbn in C2. destruct C2 as (E1 & E2 & C3).
    destruct (chain_in_bounds _ _ _ _ C3 Hy) as (B1 & B2 & B3).
    rewrite Forall_forall in OK. assert (In y (pre ++ b :: post)) by (apply in_or_app; right; right; exact Hy).
    destruct (OK _ H) as (Rng & _). rewrite Forall_forall in Rng. specialize (Rng _ Hx).
    apply in_range_iff in R. subst id. lia.
Qed.
