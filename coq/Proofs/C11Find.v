(* C11 proofs: find_close_peers is exact *)
From Coq Require Import NArith ZArith List Bool Lia Permutation Arith.
From LV Require Import Model.C11 Model.C11Spec Proofs.C11Base Proofs.C11Join Proofs.C11Sort.
Import ListNotations.
Local Open Scope N_scope.

Lemma candidates_iff own sender t q : In q (candidates own sender t) <-> eligible own sender t q.
Proof.
  unfold candidates, eligible, excluded. rewrite filter_In, negb_true_iff, orb_false_iff, N.eqb_neq.
  split.
  - intros (H1 & H2 & H3). split; [exact H1 |]. split; [exact H2 |]. intros s ->. apply N.eqb_neq. exact H3.
  - intros (H1 & H2 & H3). split; [exact H1 |]. split; [exact H2 |]. destruct sender as [s |]; [| reflexivity].
    apply N.eqb_neq. apply H3. reflexivity.
Qed.

Lemma sorted_ascending key l :
  sorted (fun q => dist key (pid q)) l -> NoDup (map pid l) -> ascending key l.
Proof.
  induction l as [| x r IH]; cbn; [auto |]. intros (F & S) N. inversion N; subst. split; [| auto].
  rewrite Forall_forall in *. intros y Hy. specialize (F y Hy).
  assert (dist key (pid x) <> dist key (pid y)).
  { intros E. apply dist_inj in E. apply H1. rewrite E. apply in_map. exact Hy. }
  lia.
Qed.

Lemma find_close_exact own t key count sender :
  WF own t -> (0 <= count)%Z ->
  exact_closest own sender t key (if (count =? 0)%Z then K else Z.to_nat count) (find_close own t key count sender).
Proof.
  intros [C OK I Ky] Hc. unfold find_close.
  set (kf := fun q : peer => dist key (pid q)).
  set (cands := candidates own sender t).
  set (s := sort_by kf cands).
  set (c := if (count =? 0)%Z then Z.of_nat K else count).
  set (cn := if (count =? 0)%Z then K else Z.to_nat count).
  assert (Ec : Z.to_nat c = cn /\ (0 < c)%Z).
  { unfold c, cn. destruct (count =? 0)%Z eqn:E; [rewrite Nat2Z.id; unfold K; lia |]. apply Z.eqb_neq in E. lia. }
  destruct Ec as (Ec & Cpos).
  assert (Ps : Permutation s cands) by apply sort_by_perm.
  assert (NDc : NoDup (map pid cands)).
  { eapply NoDup_map_sub; [apply filter_sub | exact I]. }
  assert (NDs : NoDup (map pid s)) by (eapply NoDup_map_perm; [symmetry; exact Ps | exact NDc]).
  assert (Ss : sorted kf s) by apply sort_by_sorted.
  assert (Epre : py_prefix s c = firstn (Nat.min cn (length s)) s).
  { unfold py_prefix. assert (0 <= Z.min c (Z.of_nat (length s)))%Z by lia.
    apply Z.leb_le in H. rewrite H. f_equal. lia. }
  rewrite Epre. set (n := Nat.min cn (length s)).
  split; [| split; [| split]].
  - apply sorted_ascending.
    + eapply sorted_sub; [apply firstn_sub | exact Ss].
    + eapply NoDup_map_sub; [apply firstn_sub | exact NDs].
  - intros q Hq. apply candidates_iff. eapply Permutation_in; [exact Ps |]. eapply sub_In; [apply firstn_sub | exact Hq].
  - intros q y Eq Nq Hy. apply candidates_iff in Eq.
    assert (Hq : In q s) by (eapply Permutation_in; [symmetry; exact Ps | exact Eq]).
    rewrite <- (firstn_skipn n s) in Hq. apply in_app_or in Hq. destruct Hq as [Hq | Hq]; [contradiction |].
    pose proof (sorted_firstn_skipn kf s n y q Ss Hy Hq) as Le. unfold kf in Le.
    assert (dist key (pid y) <> dist key (pid q)).
    { intros E. apply dist_inj in E.
      assert (y = q).
      { apply (NoDup_map_inj pid s); try assumption.
        - eapply sub_In; [apply firstn_sub | exact Hy].
        - eapply in_skipn; exact Hq. }
      subst y. contradiction. }
    lia.
  - exists cands. split; [eapply NoDup_map_NoDup; exact NDc |]. split; [intros q; apply candidates_iff |].
    rewrite firstn_length. unfold n. rewrite (Permutation_length Ps). lia.
Qed.
