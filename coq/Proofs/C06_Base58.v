(* C06 lemmas, part 2: Base58 and Base58Check. *)
From Coq Require Import Arith NArith ZArith List Bool Lia.
From Coq.Strings Require Import Byte.
From LV Require Import Lib.Bytes Model.C06 Proofs.C06_Num.
Import ListNotations.
Local Open Scope N_scope.
Ltac Zify.zify_post_hook ::= Z.to_euclidean_division_equations.

(* ------------------------------------------------------------------ alphabet *)
Lemma alphabet_length : length alphabet = 58%nat.
Proof. reflexivity. Qed.

Lemma alphabet_nodup : NoDup alphabet.
Proof.
  unfold alphabet.
  repeat (constructor; [ cbn [In]; intuition discriminate | ]). constructor.
Qed.

Lemma digit_of_char_of_digit d : d < 58 -> digit_of_char (char_of_digit d) = Some d.
Proof.
  intro Hd. unfold digit_of_char, char_of_digit.
  rewrite (index_of_nth byte_eqb byte_eqb_eq alphabet alphabet_nodup).
  - simpl. rewrite N2Nat.id. reflexivity.
  - rewrite alphabet_length. lia.
Qed.

Lemma char_of_digit_of_char c d : digit_of_char c = Some d -> d < 58 /\ char_of_digit d = c.
Proof.
  unfold digit_of_char, char_of_digit. intro H.
  destruct (index_of byte_eqb c alphabet) as [i|] eqn:E; [|discriminate].
  injection H as <-.
  destruct (index_of_some byte_eqb byte_eqb_eq c alphabet i one_char E) as [Hl Hn].
  rewrite alphabet_length in Hl. rewrite Nat2N.id. split; [lia | exact Hn].
Qed.

Lemma char_of_digit_one d : d < 58 -> char_of_digit d = one_char -> d = 0.
Proof.
  intros Hd H. pose proof (digit_of_char_of_digit d Hd) as E. rewrite H in E.
  vm_compute in E. congruence.
Qed.

Lemma char_of_digit_0 : char_of_digit 0 = one_char.
Proof. reflexivity. Qed.

(* ------------------------------------------------------------------ chars <-> digits *)
Lemma chars_to_digits_map ds : Forall (fun d => d < 58) ds -> chars_to_digits (map char_of_digit ds) = Some ds.
Proof.
  induction 1 as [|d r Hd _ IH]; [reflexivity|].
  cbn [map chars_to_digits]. rewrite digit_of_char_of_digit by assumption. rewrite IH. reflexivity.
Qed.

Lemma chars_to_digits_some t ds : chars_to_digits t = Some ds ->
  map char_of_digit ds = t /\ Forall (fun d => d < 58) ds.
Proof.
  revert ds. induction t as [|c r IH]; intros ds H.
  - injection H as <-. split; [reflexivity | constructor].
  - cbn [chars_to_digits] in H. destruct (digit_of_char c) as [d|] eqn:E; [|discriminate].
    destruct (chars_to_digits r) as [ds'|]; [|discriminate]. injection H as <-.
    destruct (char_of_digit_of_char c d E) as [Hd Hc]. destruct (IH ds' eq_refl) as [Hm Hf].
    cbn [map]. rewrite Hc, Hm. split; [reflexivity | constructor; assumption].
Qed.

Lemma map_char_repeat k : map char_of_digit (repeat 0 k) = repeat one_char k.
Proof. induction k as [|k IH]; [reflexivity|]. cbn [repeat map]. rewrite IH. reflexivity. Qed.

Lemma Forall_repeat {A} (P : A -> Prop) x k : P x -> Forall P (repeat x k).
Proof. intro H. induction k; constructor; assumption. Qed.

(* ------------------------------------------------------------------ int_to_bytes *)
Lemma be_decode_zeros_app k b : be_decode (repeat x00 k ++ b) = be_decode b.
Proof.
  unfold be_decode. rewrite rev_app_distr, rev_repeat, !le_decode_val, map_app.
  replace (map N_of_byte (repeat x00 k)) with (repeat 0 k).
  - apply val_lsb_app_zeros.
  - induction k as [|k IH]; [reflexivity|]. cbn [repeat map]. rewrite <- IH. reflexivity.
Qed.

(* a byte string without leading zero is the minimal encoding of its value *)
Lemma int_to_bytes_be_decode c r : c <> x00 -> int_to_bytes (be_decode (c :: r)) = c :: r.
Proof.
  intro Hc. unfold int_to_bytes, be_decode. rewrite le_decode_val.
  set (ds := map N_of_byte (rev (c :: r))).
  assert (Hf : Forall (fun d => d < 256) ds) by apply Forall_N_of_byte.
  assert (Hl : last ds 1 <> 0).
  { unfold ds. cbn [rev]. rewrite map_app. cbn [map]. rewrite last_last.
    intro E. apply Hc. apply N_of_byte_inj. rewrite E. reflexivity. }
  assert (Hne : ds <> []).
  { unfold ds. cbn [rev]. rewrite map_app. cbn [map]. intro E. apply app_eq_nil in E. destruct E; discriminate. }
  pose proof (val_lsb_pos 256 ltac:(lia) ds Hf Hne Hl) as Hpos.
  destruct (N.eqb_spec (val_lsb 256 ds) 0) as [E|_]; [lia|].
  rewrite digits_lsb_unique by (try assumption; lia).
  unfold ds. rewrite map_byte_roundtrip. apply rev_involutive.
Qed.

Lemma be_decode_pos c r : c <> x00 -> 0 < be_decode (c :: r).
Proof.
  intro Hc. unfold be_decode. rewrite le_decode_val.
  apply val_lsb_pos; [lia | apply Forall_N_of_byte | |].
  - cbn [rev]. rewrite map_app. intro E. apply app_eq_nil in E. destruct E; discriminate.
  - cbn [rev]. rewrite map_app. cbn [map]. rewrite last_last.
    intro E. apply Hc. apply N_of_byte_inj. rewrite E. reflexivity.
Qed.

Lemma be_decode_int_to_bytes v : be_decode (int_to_bytes v) = v.
Proof.
  unfold int_to_bytes. destruct (N.eqb_spec v 0) as [->|Hv]; [reflexivity|].
  unfold be_decode. rewrite rev_involutive, le_decode_val.
  rewrite map_N_roundtrip by (apply digits_lsb_bound; lia).
  apply digits_lsb_val. lia.
Qed.

(* for v > 0 the first byte of int_to_bytes v is not zero *)
Lemma int_to_bytes_head v : 0 < v -> exists c r, int_to_bytes v = c :: r /\ c <> x00.
Proof.
  intro Hv. unfold int_to_bytes. destruct (N.eqb_spec v 0) as [E|_]; [lia|].
  pose proof (digits_lsb_canon 256 v ltac:(lia)) as Hl.
  pose proof (digits_lsb_bound 256 v ltac:(lia)) as Hf.
  pose proof (digits_lsb_nonempty 256 v ltac:(lia) Hv) as Hne.
  destruct (exists_last Hne) as [l [d E]]. rewrite E in *.
  rewrite last_last in Hl. rewrite map_app, rev_app_distr. cbn [map rev app].
  exists (byte_of_N d), (rev (map byte_of_N l)). split; [reflexivity|].
  intro Hz. apply Hl. apply Forall_app in Hf as [_ Hd]. inversion Hd; subst.
  rewrite <- (byte_of_N_small d) by assumption. rewrite Hz. reflexivity.
Qed.

(* ------------------------------------------------------------------ encode then decode *)
Lemma byte_eqb_sym_false a b : a <> b -> byte_eqb b a = false.
Proof. intro H. apply byte_eqb_neq. congruence. Qed.

Lemma b58_encode_shape k c r : c <> x00 ->
  b58_encode (repeat x00 k ++ c :: r) =
  Ok (repeat one_char k ++ map char_of_digit (rev (digits_lsb 58 (be_decode (c :: r))))).
Proof.
  intro Hc. unfold b58_encode.
  destruct (repeat x00 k ++ c :: r) eqn:E; [apply app_eq_nil in E; destruct E; discriminate|].
  rewrite <- E. clear E.
  rewrite count_leading_repeat_app by apply byte_eqb_refl.
  cbn [count_leading]. rewrite (byte_eqb_sym_false c x00) by assumption.
  rewrite Nat.add_0_r, be_decode_zeros_app, map_rev. reflexivity.
Qed.

Lemma b58_decode_shape k ds : Forall (fun d => d < 58) ds -> (k + length ds > 0)%nat ->
  match ds with d :: _ => d <> 0 | [] => True end ->
  b58_decode (repeat one_char k ++ map char_of_digit ds) =
  Ok (repeat x00 k ++ int_to_bytes (val_msb 58 ds)).
Proof.
  intros Hf Hlen Hd. unfold b58_decode.
  destruct (repeat one_char k ++ map char_of_digit ds) eqn:E.
  { apply app_eq_nil in E. destruct E as [E1 E2]. destruct k; [|discriminate].
    destruct ds; [simpl in Hlen; lia | discriminate]. }
  rewrite <- E. clear E.
  rewrite <- map_char_repeat, <- map_app.
  rewrite chars_to_digits_map.
  2:{ apply Forall_app. split; [apply Forall_repeat; lia | assumption]. }
  rewrite map_app, map_char_repeat.
  rewrite count_leading_repeat_app by apply byte_eqb_refl.
  rewrite val_msb_zeros_app.
  replace (count_leading (byte_eqb one_char) (map char_of_digit ds)) with 0%nat.
  - rewrite Nat.add_0_r. reflexivity.
  - destruct ds as [|d r]; [reflexivity|]. cbn [map count_leading].
    inversion Hf; subst.
    rewrite (byte_eqb_sym_false (char_of_digit d) one_char); [reflexivity|].
    intro Hx. apply Hd. apply char_of_digit_one; assumption.
Qed.

Theorem b58_roundtrip_split k c r : c <> x00 ->
  bind (b58_encode (repeat x00 k ++ c :: r)) b58_decode = Ok (repeat x00 k ++ c :: r).
Proof.
  intro Hc. rewrite b58_encode_shape by assumption. cbn [bind].
  set (v := be_decode (c :: r)).
  assert (Hv : 0 < v) by (apply be_decode_pos; assumption).
  pose proof (digits_lsb_canon 58 v ltac:(lia)) as Hl.
  pose proof (digits_lsb_bound 58 v ltac:(lia)) as Hf.
  pose proof (digits_lsb_nonempty 58 v ltac:(lia) Hv) as Hne.
  rewrite b58_decode_shape.
  - rewrite val_msb_rev, digits_lsb_val by lia. unfold v. rewrite int_to_bytes_be_decode by assumption. reflexivity.
  - apply Forall_rev. assumption.
  - rewrite rev_length. destruct (digits_lsb 58 v); [congruence | simpl; lia].
  - destruct (exists_last Hne) as [l [d E]]. rewrite E in *. rewrite rev_app_distr. cbn [rev app].
    rewrite last_last in Hl. exact Hl.
Qed.

(* every byte string with a non-zero byte splits into zeros and a tail starting with a non-zero byte *)
Lemma nonzero_split b : (exists c, In c b /\ c <> x00) ->
  exists k c r, b = repeat x00 k ++ c :: r /\ c <> x00.
Proof.
  intros [c0 [Hin Hnz]].
  destruct (leading_split (byte_eqb x00) x00 b) as [Hs Hh].
  { intros y Hy. apply byte_eqb_eq in Hy. congruence. }
  destruct (skipn (count_leading (byte_eqb x00) b) b) as [|c r] eqn:E.
  - exfalso. rewrite app_nil_r in Hs. rewrite Hs in Hin. apply repeat_spec in Hin. congruence.
  - exists (count_leading (byte_eqb x00) b), c, r. split; [exact Hs|].
    intro Hz. subst c. rewrite byte_eqb_refl in Hh. discriminate.
Qed.

Theorem b58_roundtrip b : (exists c, In c b /\ c <> x00) ->
  exists t, b58_encode b = Ok t /\ b58_decode t = Ok b.
Proof.
  intro H. destruct (nonzero_split b H) as [k [c [r [-> Hc]]]].
  pose proof (b58_roundtrip_split k c r Hc) as R.
  rewrite b58_encode_shape in * by assumption. cbn [bind] in R.
  eexists. split; [reflexivity | exact R].
Qed.

Theorem b58_encode_injective b1 b2 t : (exists c, In c b1 /\ c <> x00) -> (exists c, In c b2 /\ c <> x00) ->
  b58_encode b1 = Ok t -> b58_encode b2 = Ok t -> b1 = b2.
Proof.
  intros H1 H2 E1 E2. destruct (b58_roundtrip b1 H1) as [t1 [Ea Da]]. destruct (b58_roundtrip b2 H2) as [t2 [Eb Db]].
  assert (t1 = t) by congruence. assert (t2 = t) by congruence. subst. congruence.
Qed.

(* decode accepts exactly the non-empty strings over the alphabet *)
Theorem b58_decode_accepts t : (exists b, b58_decode t = Ok b) <-> (t <> [] /\ Forall (fun c => In c alphabet) t).
Proof.
  split.
  - intros [b H]. unfold b58_decode in H. destruct t as [|c r] eqn:Et; [discriminate|]. rewrite <- Et in *.
    split; [rewrite Et; discriminate|].
    destruct (chars_to_digits t) as [ds|] eqn:E; [|discriminate].
    destruct (chars_to_digits_some t ds E) as [Hm Hf]. rewrite <- Hm. clear -Hf.
    induction Hf as [|d l Hd _ IH]; cbn [map]; constructor; [|exact IH].
    unfold char_of_digit. apply nth_In. rewrite alphabet_length. lia.
  - intros [Hne Hall]. unfold b58_decode. destruct t as [|c r] eqn:Et; [congruence|]. rewrite <- Et in *.
    assert (Hd : exists ds, chars_to_digits t = Some ds).
    { clear -Hall. induction Hall as [|x l Hx _ [ds IH]]; [exists []; reflexivity|].
      cbn [chars_to_digits]. rewrite IH.
      destruct (In_nth _ _ one_char Hx) as [i [Hi Hn]].
      assert (E : digit_of_char x = Some (N.of_nat i)).
      { rewrite <- Hn. rewrite <- (Nat2N.id i) at 1. apply digit_of_char_of_digit. rewrite alphabet_length in Hi. lia. }
      rewrite E. eauto. }
    destruct Hd as [ds ->]. eauto.
Qed.

(* the quirk: all-zero input comes back one byte longer *)
Theorem b58_allzero k : (0 < k)%nat ->
  b58_encode (repeat x00 k) = Ok (repeat one_char k) /\
  b58_decode (repeat one_char k) = Ok (repeat x00 (S k)).
Proof.
  intro Hk. split.
  - unfold b58_encode. destruct k; [lia|]. cbn [repeat].
    change (x00 :: repeat x00 k) with (repeat x00 (S k)).
    rewrite <- (app_nil_r (repeat x00 (S k))) at 1.
    rewrite count_leading_repeat_app by apply byte_eqb_refl. cbn [count_leading].
    rewrite <- (app_nil_r (repeat x00 (S k))) at 1. rewrite be_decode_zeros_app.
    change (be_decode []) with 0. rewrite digits_lsb_0. cbn [map rev].
    rewrite Nat.add_0_r, app_nil_r. reflexivity.
  - pose proof (b58_decode_shape k [] (Forall_nil _)) as H. cbn [map length] in H.
    rewrite app_nil_r in H. rewrite H by (try exact I; lia).
    change (int_to_bytes (val_msb 58 [])) with [x00].
    f_equal. clear. induction k as [|k IH]; [reflexivity|]. cbn [repeat app]. rewrite IH. reflexivity.
Qed.

Theorem b58_encode_empty : b58_encode [] = Err EValue.
Proof. reflexivity. Qed.

(* ------------------------------------------------------------------ decode then encode *)
Lemma Forall_skipn_lt {A} (P : A -> Prop) ds : Forall P ds -> forall k, Forall P (skipn k ds).
Proof. induction 1; intros [|k]; simpl; try constructor; auto. Qed.

(* shape of every valid text *)
Lemma text_split t ds : t <> [] -> chars_to_digits t = Some ds ->
  exists k ds', t = repeat one_char k ++ map char_of_digit ds' /\ Forall (fun d => d < 58) ds' /\
                (k + length ds' > 0)%nat /\ match ds' with d :: _ => d <> 0 | [] => True end.
Proof.
  intros Hne H.
  destruct (leading_split (byte_eqb one_char) one_char t) as [Hs Hh].
  { intros y Hy. apply byte_eqb_eq in Hy. congruence. }
  set (k := count_leading (byte_eqb one_char) t) in *.
  destruct (chars_to_digits_some t ds H) as [Hm Hf].
  exists k, (skipn k ds).
  assert (Hsk : skipn k t = map char_of_digit (skipn k ds)).
  { rewrite <- Hm. clear. revert ds. induction k; intros ds; [reflexivity|]. destruct ds; [reflexivity|]. simpl. apply IHk. }
  split; [rewrite <- Hsk; exact Hs|]. split.
  { apply Forall_skipn_lt. exact Hf. }
  split.
  { assert (length t = (k + length (skipn k ds))%nat).
    { rewrite Hs at 1. rewrite app_length, repeat_length, Hsk, map_length. reflexivity. }
    destruct t; [congruence | simpl in *; lia]. }
  rewrite Hsk in Hh. destruct (skipn k ds) as [|d r]; [exact I|].
  cbn [map] in Hh. intro Hz. subst d. rewrite char_of_digit_0, byte_eqb_refl in Hh. discriminate.
Qed.

Theorem b58_decode_encode t b : b58_decode t = Ok b -> (exists c, In c t /\ c <> one_char) ->
  b58_encode b = Ok t.
Proof.
  intros Hd [c0 [Hin Hc0]].
  unfold b58_decode in Hd. destruct t as [|c t'] eqn:Et; [discriminate|]. rewrite <- Et in *.
  destruct (chars_to_digits t) as [ds|] eqn:E; [|discriminate].
  assert (Hne : t <> []) by (rewrite Et; discriminate).
  destruct (text_split t ds Hne E) as [k [ds' [Ht [Hf [Hlen Hhd]]]]].
  pose proof (b58_decode_shape k ds' Hf Hlen Hhd) as Hsh. rewrite <- Ht in Hsh.
  assert (Hb : b = repeat x00 k ++ int_to_bytes (val_msb 58 ds')).
  { unfold b58_decode in Hsh. rewrite Et in Hsh. rewrite <- Et in Hsh. rewrite E in Hsh. congruence. }
  clear Hd.
  destruct ds' as [|d r].
  { exfalso. cbn [map] in Ht. rewrite app_nil_r in Ht. rewrite Ht in Hin. apply repeat_spec in Hin. congruence. }
  pose proof (Forall_inv Hf) as Hd58.
  assert (Hl : last (rev (d :: r)) 1 <> 0) by (cbn [rev]; rewrite last_last; exact Hhd).
  assert (Hfr : Forall (fun d => d < 58) (rev (d :: r))) by (apply Forall_rev; exact Hf).
  assert (Hv : 0 < val_msb 58 (d :: r)).
  { rewrite val_msb_as_lsb. apply val_lsb_pos; [lia | exact Hfr | | exact Hl].
    cbn [rev]. intro E0. apply app_eq_nil in E0. destruct E0; discriminate. }
  destruct (int_to_bytes_head _ Hv) as [c1 [r1 [Ei Hc1]]].
  rewrite Hb, Ei, b58_encode_shape by assumption. rewrite <- Ei, be_decode_int_to_bytes.
  rewrite val_msb_as_lsb, digits_lsb_unique by (try assumption; lia).
  rewrite rev_involutive, <- Ht. reflexivity.
Qed.

Lemma b58_decode_allones k : (0 < k)%nat -> b58_decode (repeat one_char k) = Ok (repeat x00 (S k)).
Proof. intro Hk. apply b58_allzero. exact Hk. Qed.

Lemma all_ones_or_not t : (exists c, In c t /\ c <> one_char) \/ t = repeat one_char (length t).
Proof.
  induction t as [|c r IH]; [right; reflexivity|].
  destruct (byte_eqb c one_char) eqn:E.
  - apply byte_eqb_eq in E. subst c. destruct IH as [[c [Hin Hc]]|IH].
    + left. exists c. split; [right; assumption | assumption].
    + right. cbn [length repeat]. f_equal. exact IH.
  - left. exists c. split; [left; reflexivity | apply byte_eqb_neq; exact E].
Qed.


(* decode is injective: the text is determined by the bytes *)
Theorem b58_decode_inj t1 t2 b : b58_decode t1 = Ok b -> b58_decode t2 = Ok b -> t1 = t2.
Proof.
  intros H1 H2.
  assert (Hne1 : t1 <> []) by (intro E; subst; discriminate).
  assert (Hne2 : t2 <> []) by (intro E; subst; discriminate).
  destruct (all_ones_or_not t1) as [N1|A1]; destruct (all_ones_or_not t2) as [N2|A2].
  - pose proof (b58_decode_encode _ _ H1 N1) as E1. pose proof (b58_decode_encode _ _ H2 N2) as E2. congruence.
  - (* t2 all ones: b is all zeros, so encode b is all ones, but encode b = t1 *)
    exfalso. pose proof (b58_decode_encode _ _ H1 N1) as E1.
    rewrite A2 in H2. rewrite b58_decode_allones in H2 by (destruct t2; [congruence | simpl; lia]).
    injection H2 as <-. destruct (b58_allzero (S (length t2)) ltac:(lia)) as [E _].
    change (x00 :: repeat x00 (length t2)) with (repeat x00 (S (length t2))) in E1.
    rewrite E in E1. injection E1 as <-. destruct N1 as [c [Hin Hc]]. apply (repeat_spec (S (length t2))) in Hin. congruence.
  - exfalso. pose proof (b58_decode_encode _ _ H2 N2) as E2.
    rewrite A1 in H1. rewrite b58_decode_allones in H1 by (destruct t1; [congruence | simpl; lia]).
    injection H1 as <-. destruct (b58_allzero (S (length t1)) ltac:(lia)) as [E _].
    change (x00 :: repeat x00 (length t1)) with (repeat x00 (S (length t1))) in E2.
    rewrite E in E2. injection E2 as <-. destruct N2 as [c [Hin Hc]]. apply (repeat_spec (S (length t1))) in Hin. congruence.
  - rewrite A1 in H1. rewrite A2 in H2.
    rewrite b58_decode_allones in H1 by (destruct t1; [congruence | simpl; lia]).
    rewrite b58_decode_allones in H2 by (destruct t2; [congruence | simpl; lia]).
    rewrite A1, A2. f_equal.
    assert (E : repeat x00 (S (length t1)) = repeat x00 (S (length t2))) by congruence.
    apply (f_equal (@length byte)) in E. rewrite !repeat_length in E. lia.
Qed.

(* ------------------------------------------------------------------ Base58Check *)
Section Check.
  Variable dsha : bytes -> bytes.

  Theorem b58check_roundtrip p c r : p = c :: r -> c <> x00 -> (4 <= length (dsha p))%nat ->
    exists t, b58_encode_check dsha p = Ok t /\ b58_decode_check dsha t = Ok p.
  Proof.
    intros -> Hc Hlen. unfold b58_encode_check, b58_decode_check.
    destruct (b58_roundtrip ((c :: r) ++ checksum dsha (c :: r))) as [t [He Hd]].
    { exists c. split; [left; reflexivity | assumption]. }
    exists t. split; [exact He|]. rewrite Hd. cbn [bind].
    assert (Hcl : length (checksum dsha (c :: r)) = 4%nat).
    { unfold checksum. rewrite firstn_length. lia. }
    rewrite app_length, Hcl, Nat.add_sub, firstn_app_exact, skipn_app_exact, bytes_eqb_refl. reflexivity.
  Qed.

  (* every payload at all -- empty, or starting with zero bytes -- as long as payload ++ checksum is not all zero *)
  Theorem b58check_roundtrip_general p : (exists c, In c (p ++ checksum dsha p) /\ c <> x00) ->
    (4 <= length (dsha p))%nat ->
    exists t, b58_encode_check dsha p = Ok t /\ b58_decode_check dsha t = Ok p.
  Proof.
    intros Hnz Hlen. unfold b58_encode_check, b58_decode_check.
    destruct (b58_roundtrip (p ++ checksum dsha p) Hnz) as [t [He Hd]].
    exists t. split; [exact He|]. rewrite Hd. cbn [bind].
    assert (Hcl : length (checksum dsha p) = 4%nat).
    { unfold checksum. rewrite firstn_length. lia. }
    rewrite app_length, Hcl, Nat.add_sub, firstn_app_exact, skipn_app_exact, bytes_eqb_refl. reflexivity.
  Qed.

  (* accepted => the decoded bytes are payload ++ its own 4-byte checksum *)
  Theorem b58check_accepts_only_matching t p : b58_decode_check dsha t = Ok p ->
    b58_decode t = Ok (p ++ checksum dsha p).
  Proof.
    unfold b58_decode_check. destruct (b58_decode t) as [b|e]; [|discriminate]. cbn [bind].
    destruct (bytes_eqb _ _) eqn:E; [|discriminate]. intro H. injection H as <-.
    apply bytes_eqb_eq in E. rewrite <- E, firstn_skipn. reflexivity.
  Qed.

  Theorem b58check_rejects t p : b58_decode_check dsha t = Ok p ->
    exists b, b58_decode t = Ok b /\ p = firstn (length b - 4) b /\ skipn (length b - 4) b = checksum dsha p.
  Proof.
    unfold b58_decode_check. destruct (b58_decode t) as [b|e]; [|discriminate]. cbn [bind].
    destruct (bytes_eqb _ _) eqn:E; [|discriminate]. intro H. injection H as <-.
    apply bytes_eqb_eq in E. exists b. split; [reflexivity|]. split; [reflexivity | exact E].
  Qed.

  (* two different strings never decode to the same payload: a corrupted string that is accepted carries
     a different payload whose own checksum matches *)
  Theorem b58check_inj t1 t2 p : b58_decode_check dsha t1 = Ok p -> b58_decode_check dsha t2 = Ok p -> t1 = t2.
  Proof.
    intros H1 H2. apply b58check_accepts_only_matching in H1. apply b58check_accepts_only_matching in H2.
    exact (b58_decode_inj _ _ _ H1 H2).
  Qed.

  Theorem b58check_errors t e : b58_decode_check dsha t = Err e -> e = EEmpty \/ e = EChar \/ e = EChecksum.
  Proof.
    unfold b58_decode_check, b58_decode. destruct t as [|c t']; [intro H; injection H as <-; auto|].
    destruct (chars_to_digits (c :: t')); cbn [bind].
    - destruct (bytes_eqb _ _); [discriminate | intro H; injection H as <-; auto].
    - intro H; injection H as <-; auto.
  Qed.
End Check.
