(* C15 proofs: the parser of Wire/Script.v on PUSH_MANY-free templates, unambiguity of template
   tables by a checked decision procedure, generate/parse round trip, first-match under the global
   template order, explicit opcode shapes of every output template, classification. *)
From Coq Require Import NArith ZArith List Bool Lia.
From Coq.Strings Require Import Byte.
From LV Require Import Lib.Bytes Wire.Push Wire.Script Model.C15.
Import ListNotations.
Local Open Scope N_scope.
Ltac Zify.zify_post_hook ::= Z.to_euclidean_division_equations.

(* ======================================================================================== *)
(* A. the parser never runs out of fuel                                                      *)
(* ======================================================================================== *)

Lemma span_push_length ops : (length (snd (span_push ops)) <= length ops)%nat.
Proof.
  induction ops as [|op r IH]; simpl; [lia|].
  destruct (is_push_op op); [|simpl; lia].
  destruct (span_push r) as [a b]. simpl in *. lia.
Qed.

Lemma consume_many_shorter name n ops' toks vs ro rt :
  consume_many name (PushMany n :: ops') toks = Some (vs, ro, rt) -> (length ro <= length ops')%nat.
Proof.
  unfold consume_many. destruct (span_data toks) as [datas rest_toks].
  cbn [span_push is_push_op]. pose proof (span_push_length ops') as L.
  destruct (span_push ops') as [a b]. simpl in L.
  destruct (1 <? _)%nat; [discriminate|].
  destruct (_ <? _)%nat; [discriminate|].
  destruct (zip_singles _ _); [|discriminate].
  intro H. inversion H; subst. exact L.
Qed.

Lemma pcons_fuel kv r : pcons kv r = PFuel -> r = PFuel.
Proof. destruct r; simpl; congruence. Qed.

Lemma parse_fuel_no_fuel : forall f ops toks, (length ops < f)%nat -> parse_fuel f ops toks <> PFuel.
Proof.
  induction f as [|f IH]; intros ops toks H; [lia|].
  destruct ops as [|op ops']; destruct toks as [|t toks']; cbn [parse_fuel]; try discriminate.
  simpl in H.
  assert (R : forall kv x, parse_fuel f ops' x <> PFuel -> pcons kv (parse_fuel f ops' x) <> PFuel)
    by (intros kv x Hx K; apply pcons_fuel in K; contradiction).
  assert (I : forall x, parse_fuel f ops' x <> PFuel) by (intro x; apply IH; lia).
  set (t1 := match t with TOp 0 => match op with PushSingle _ => TData [] | _ => t end | _ => t end).
  replace (match t, op with TOp 0, PushSingle _ => TData [] | _, _ => t end) with t1
    by (unfold t1; destruct t as [d|k|[|p]]; destruct op; reflexivity).
  clearbody t1.
  destruct t1 as [d|k|v].
  - destruct op as [o|n|n|n|n s|n]; cbn [push_single]; try discriminate; try (apply R; apply I).
    destruct (consume_many n (PushMany n :: ops') (TData d :: toks')) as [[[vs ro] rt]|] eqn:E; [|discriminate].
    apply consume_many_shorter in E. intro K. apply pcons_fuel in K. revert K. apply IH. lia.
  - destruct op; try discriminate. apply R. apply I.
  - destruct op; try discriminate. destruct (v =? o); [apply I | discriminate].
Qed.

Lemma parse_no_fuel ops toks : parse ops toks <> PFuel.
Proof. apply parse_fuel_no_fuel. lia. Qed.

Lemma template_parse_no_fuel ops toks : template_parse ops toks <> PFuel.
Proof. destruct ops; [discriminate | apply parse_no_fuel]. Qed.

Lemma first_match_no_fuel tpls toks : first_match tpls toks <> SFuel.
Proof.
  induction tpls as [|[name ops] r IH]; simpl; [discriminate|].
  pose proof (template_parse_no_fuel ops toks).
  destruct (template_parse ops toks); [discriminate | exact IH | congruence].
Qed.

Lemma script_parse_no_fuel hint tpls s : script_parse hint tpls s <> SFuel.
Proof.
  unfold script_parse. pose proof (tokenize_no_fuel s).
  destruct (tokenize s) as [toks|[|]]; [apply first_match_no_fuel | discriminate | congruence].
Qed.

(* ======================================================================================== *)
(* B. PUSH_MANY-free templates: a fuel-free, structurally recursive description              *)
(* ======================================================================================== *)

Definition match_tok (op : topcode) (t : token) : option values :=
  match op, t with
  | OpLit o, TOp v => if v =? o then Some [] else None
  | PushSingle n, TData d => Some [(n, VBytes d)]
  | PushSingle n, TOp 0 => Some [(n, VBytes [])]
  | PushInteger n, TData d => Some [(n, VInt (le_decode d))]
  | PushSub n s, TData d => Some [(n, VSub s d)]
  | SmallInt n, TSmall k => Some [(n, VSmall k)]
  | _, _ => None
  end.

Fixpoint parse_simple (ops : list topcode) (toks : list token) : option values :=
  match ops, toks with
  | [], [] => Some []
  | op :: ops', t :: toks' =>
      match match_tok op t, parse_simple ops' toks' with
      | Some a, Some b => Some (a ++ b)
      | _, _ => None
      end
  | _, _ => None
  end.

Definition of_opt (o : option values) : presult := match o with Some v => PMatch v | None => PNoMatch end.
Definition no_many (ops : list topcode) : bool := forallb (fun op => negb (is_many op)) ops.

Lemma parse_fuel_simple : forall f ops toks, no_many ops = true -> (length ops < f)%nat ->
  parse_fuel f ops toks = of_opt (parse_simple ops toks).
Proof.
  induction f as [|f IH]; intros ops toks Hn H; [lia|].
  destruct ops as [|op ops']; destruct toks as [|t toks']; cbn [parse_fuel parse_simple]; try reflexivity.
  simpl in H. cbn [no_many forallb] in Hn. apply andb_true_iff in Hn as [Hop Hn].
  assert (I : forall x, parse_fuel f ops' x = of_opt (parse_simple ops' x)) by (intro x; apply IH; [exact Hn | lia]).
  destruct t as [d|k|[|p]]; destruct op as [o|n|n|n|n s|n]; cbn [match_tok push_single is_many negb] in *;
    try discriminate; try reflexivity; try rewrite I;
    try (destruct (parse_simple ops' toks'); reflexivity).
  - destruct (0 =? o); [|reflexivity]. destruct (parse_simple ops' toks'); reflexivity.
  - destruct (N.pos p =? o); [|reflexivity]. destruct (parse_simple ops' toks'); reflexivity.
Qed.

Lemma parse_simple_eq ops toks : no_many ops = true -> parse ops toks = of_opt (parse_simple ops toks).
Proof. intro H. apply parse_fuel_simple; [exact H | lia]. Qed.

Lemma template_parse_simple ops toks : no_many ops = true -> ops <> [] ->
  template_parse ops toks = of_opt (parse_simple ops toks).
Proof. intros H Hne. destruct ops; [congruence|]. apply parse_simple_eq. exact H. Qed.

(* inversion principles *)
Lemma parse_simple_nil_inv toks vs : parse_simple [] toks = Some vs -> toks = [] /\ vs = [].
Proof. destruct toks; simpl; intro H; [inversion H; auto | discriminate]. Qed.

Lemma parse_simple_cons_inv op ops toks vs : parse_simple (op :: ops) toks = Some vs ->
  exists t toks' v1 v2, toks = t :: toks' /\ match_tok op t = Some v1 /\
                        parse_simple ops toks' = Some v2 /\ vs = v1 ++ v2.
Proof.
  destruct toks as [|t toks']; cbn [parse_simple]; [discriminate|].
  destruct (match_tok op t) as [a|] eqn:E1; [|discriminate].
  destruct (parse_simple ops toks') as [b|] eqn:E2; [|discriminate].
  intro H. inversion H. exists t, toks', a, b. auto.
Qed.

(* a pushed datum as it appears in a token list: a data token, or OP_0 for the empty string *)
Inductive pushed : token -> bytes -> Prop :=
| pushed_data d : pushed (TData d) d
| pushed_zero : pushed (TOp 0) [].

Lemma match_tok_lit_inv o t v : match_tok (OpLit o) t = Some v -> t = TOp o /\ v = [].
Proof.
  destruct t as [d|k|x]; simpl; try discriminate.
  destruct (x =? o) eqn:E; [|discriminate]. apply N.eqb_eq in E. intro H. inversion H. subst. auto.
Qed.
Lemma match_tok_single_inv n t v : match_tok (PushSingle n) t = Some v ->
  exists d, pushed t d /\ v = [(n, VBytes d)].
Proof.
  destruct t as [d|k|[|p]]; simpl; try discriminate; intro H; inversion H.
  - exists d. split; [constructor | reflexivity].
  - exists []. split; [constructor | reflexivity].
Qed.
Lemma match_tok_single_pushed n t d : pushed t d -> match_tok (PushSingle n) t = Some [(n, VBytes d)].
Proof. intro H. destruct H; reflexivity. Qed.
Lemma dtok_pushed d : pushed (dtok d) d.
Proof. destruct d; constructor. Qed.

(* ---- compatibility of template opcodes: can one token satisfy both? ---- *)
Definition compat (a b : topcode) : bool :=
  match a, b with
  | OpLit x, OpLit y => x =? y
  | OpLit x, PushSingle _ | PushSingle _, OpLit x => x =? 0
  | OpLit _, _ | _, OpLit _ => false
  | SmallInt _, SmallInt _ => true
  | SmallInt _, _ | _, SmallInt _ => false
  | _, _ => true
  end.

Lemma compat_sound a b t va vb : match_tok a t = Some va -> match_tok b t = Some vb -> compat a b = true.
Proof.
  destruct a as [x|n|n|n|n s|n]; destruct b as [y|m|m|m|m s'|m]; destruct t as [d|k|[|p]];
    cbn [match_tok compat]; try discriminate; try reflexivity; intros H1 H2.
  - destruct (0 =? x) eqn:E1; [|discriminate]. destruct (0 =? y) eqn:E2; [|discriminate].
    apply N.eqb_eq in E1. apply N.eqb_eq in E2. subst. reflexivity.
  - destruct (N.pos p =? x) eqn:E1; [|discriminate]. destruct (N.pos p =? y) eqn:E2; [|discriminate].
    apply N.eqb_eq in E1. apply N.eqb_eq in E2. subst. apply N.eqb_refl.
  - destruct (0 =? x) eqn:E1; [|discriminate]. apply N.eqb_eq in E1. subst. reflexivity.
  - destruct (0 =? y) eqn:E1; [|discriminate]. apply N.eqb_eq in E1. subst. reflexivity.
Qed.

Fixpoint all_compat (a b : list topcode) : bool :=
  match a, b with
  | [], [] => true
  | x :: a', y :: b' => compat x y && all_compat a' b'
  | _, _ => false
  end.

Lemma all_compat_sound : forall a b toks va vb,
  parse_simple a toks = Some va -> parse_simple b toks = Some vb -> all_compat a b = true.
Proof.
  induction a as [|x a IH]; intros b toks va vb H1 H2.
  - apply parse_simple_nil_inv in H1 as [-> _]. destruct b; [reflexivity | discriminate].
  - apply parse_simple_cons_inv in H1 as (t & toks' & v1 & v2 & -> & M1 & P1 & _).
    destruct b as [|y b]; [discriminate|].
    apply parse_simple_cons_inv in H2 as (t2 & toks2 & w1 & w2 & E & M2 & P2 & _).
    inversion E; subst. cbn [all_compat].
    rewrite (compat_sound _ _ _ _ _ M1 M2). simpl. eapply IH; eassumption.
Qed.

(* a table of simple, non-empty, pairwise incompatible templates *)
Definition simple_table (l : list template) : bool :=
  forallb (fun t => no_many (snd t) && negb (match snd t with [] => true | _ => false end)) l.
Fixpoint pairwise_incompat (l : list template) : bool :=
  match l with
  | [] => true
  | t :: r => forallb (fun u => negb (all_compat (snd t) (snd u))) r && pairwise_incompat r
  end.

Lemma simple_table_In l name ops : simple_table l = true -> In (name, ops) l -> no_many ops = true /\ ops <> [].
Proof.
  unfold simple_table. rewrite forallb_forall. intros H HIn. specialize (H _ HIn). simpl in H.
  apply andb_true_iff in H as [H1 H2]. split; [exact H1|]. destruct ops; [discriminate | discriminate].
Qed.

(* first-match over [pre ++ post] picks the (unique) matching template of the simple prefix *)
Lemma first_match_prefix : forall pre post toks name ops vs,
  simple_table pre = true -> pairwise_incompat pre = true ->
  In (name, ops) pre -> parse_simple ops toks = Some vs ->
  first_match (pre ++ post) toks = SMatch name vs.
Proof.
  induction pre as [|[n1 o1] r IH]; intros post toks name ops vs Hs Hp HIn Hm; [destruct HIn|].
  cbn [app first_match].
  assert (S1 : no_many o1 = true /\ o1 <> []) by (eapply simple_table_In; [exact Hs | left; reflexivity]).
  destruct S1 as [S1 S2]. rewrite template_parse_simple by assumption.
  cbn [simple_table forallb] in Hs. apply andb_true_iff in Hs as [_ Hs].
  cbn [pairwise_incompat] in Hp. apply andb_true_iff in Hp as [Hh Hp].
  destruct HIn as [E|HIn].
  - inversion E; subst. rewrite Hm. reflexivity.
  - destruct (parse_simple o1 toks) as [v1|] eqn:E1.
    + rewrite forallb_forall in Hh. specialize (Hh _ HIn). simpl in Hh.
      rewrite (all_compat_sound _ _ _ _ _ E1 Hm) in Hh. discriminate.
    + simpl. eapply IH; eassumption.
Qed.

Lemma first_match_In : forall tpls toks name vs, first_match tpls toks = SMatch name vs ->
  exists ops, In (name, ops) tpls /\ template_parse ops toks = PMatch vs.
Proof.
  induction tpls as [|[n1 o1] r IH]; intros toks name vs H; [discriminate|].
  cbn [first_match] in H. destruct (template_parse o1 toks) as [v| |] eqn:E.
  - inversion H; subst. exists o1. split; [left; reflexivity | exact E].
  - destruct (IH _ _ _ H) as (ops & HIn & Hp). exists ops. split; [right; exact HIn | exact Hp].
  - discriminate.
Qed.

(* two templates of a pairwise incompatible simple table never match the same token list *)
Lemma table_unambiguous : forall l toks a b va vb,
  simple_table l = true -> pairwise_incompat l = true -> In a l -> In b l ->
  parse_simple (snd a) toks = Some va -> parse_simple (snd b) toks = Some vb -> a = b.
Proof.
  induction l as [|h r IH]; intros toks a b va vb Hs Hp Ha Hb Ma Mb; [destruct Ha|].
  cbn [simple_table forallb] in Hs. apply andb_true_iff in Hs as [_ Hs].
  cbn [pairwise_incompat] in Hp. apply andb_true_iff in Hp as [Hh Hp].
  rewrite forallb_forall in Hh.
  destruct Ha as [Ea|Ha]; destruct Hb as [Eb|Hb].
  - congruence.
  - subst h. specialize (Hh _ Hb). rewrite (all_compat_sound _ _ _ _ _ Ma Mb) in Hh. discriminate.
  - subst h. specialize (Hh _ Ha). rewrite (all_compat_sound _ _ _ _ _ Mb Ma) in Hh. discriminate.
  - eapply IH; eassumption.
Qed.

(* the concrete tables *)
Lemma output_table_simple : simple_table output_templates = true.
Proof. vm_compute. reflexivity. Qed.
Lemma output_table_incompat : pairwise_incompat output_templates = true.
Proof. vm_compute. reflexivity. Qed.
Definition input_simple_templates : list template := [REDEEM_PUBKEY; REDEEM_PUBKEY_HASH; REDEEM_SCRIPT_HASH_TIME_LOCK].
Lemma input_table_split : input_templates = input_simple_templates ++ [REDEEM_SCRIPT_HASH_MULTI_SIG].
Proof. reflexivity. Qed.
Lemma input_table_simple : simple_table input_simple_templates = true.
Proof. vm_compute. reflexivity. Qed.
Lemma input_table_incompat : pairwise_incompat input_simple_templates = true.
Proof. vm_compute. reflexivity. Qed.

(* ======================================================================================== *)
(* C. generation and the round trip                                                          *)
(* ======================================================================================== *)

Definition LIMIT : N := 4294967296.   (* 2^32: push_data's uint32 length *)

(* what a template slot needs from the values: present, of the right kind, below 2^32 bytes *)
Definition slot_ok (vs : values) (op : topcode) : Prop :=
  match op with
  | OpLit o => plain_op o = true
  | PushSingle n => exists d, lookup n vs = Some (VBytes d) /\ N.of_nat (length d) < LIMIT
  | PushInteger n => exists v, lookup n vs = Some (VInt v) /\ N.of_nat (length (int_bytes v)) < LIMIT
  | PushSub n _ => exists s src, lookup n vs = Some (VSub s src) /\ src <> [] /\ N.of_nat (length src) < LIMIT
  | PushMany _ | SmallInt _ => False
  end.

(* the values dictionary the parser is expected to return, in template order *)
Definition expect1 (vs : values) (op : topcode) : values :=
  match op with
  | PushSingle n => match lookup n vs with Some (VBytes d) => [(n, VBytes d)] | _ => [] end
  | PushInteger n => match lookup n vs with Some (VInt v) => [(n, VInt v)] | _ => [] end
  | PushSub n s => match lookup n vs with Some (VSub _ src) => [(n, VSub s src)] | _ => [] end
  | _ => []
  end.
Definition expected (ops : list topcode) (vs : values) : values := flat_map (expect1 vs) ops.

Lemma int_bytes_width v : (0 < N.to_nat ((N.size v + 8) / 8))%nat.
Proof. assert (1 <= (N.size v + 8) / 8) by (generalize (N.size v); intro; lia). lia. Qed.

Lemma int_bytes_nonempty v : int_bytes v <> [].
Proof.
  unfold int_bytes. pose proof (int_bytes_width v) as W.
  destruct (N.to_nat ((N.size v + 8) / 8)); [lia | discriminate].
Qed.

Lemma int_bytes_decode v : le_decode (int_bytes v) = v.
Proof.
  unfold int_bytes. apply le_decode_encode. rewrite N2Nat.id.
  set (w := (N.size v + 8) / 8).
  assert (Hw : N.size v <= 8 * w) by (unfold w; generalize (N.size v); intro; lia).
  replace 256 with (2 ^ 8) by reflexivity. rewrite <- N.pow_mul_r.
  apply N.lt_le_trans with (2 ^ N.size v); [apply N.size_gt|].
  apply N.pow_le_mono_r; [lia | exact Hw].
Qed.

Lemma int_bytes_length v : N.of_nat (length (int_bytes v)) = (N.size v + 8) / 8.
Proof. unfold int_bytes. rewrite le_encode_length, N2Nat.id. reflexivity. Qed.

Lemma dtok_nonempty d : d <> [] -> dtok d = TData d.
Proof. destruct d; [congruence | reflexivity]. Qed.

(* the generated bytes tokenize to one token per template opcode, and that token list parses,
   under the template itself, to the expected values *)
Lemma generate_roundtrip : forall ops vs, Forall (slot_ok vs) ops ->
  exists s toks, generate ops vs = Some s /\ tokenize s = TokOk toks /\
                 parse_simple ops toks = Some (expected ops vs) /\ length toks = length ops.
Proof.
  induction ops as [|op r IH]; intros vs H.
  - exists [], []. repeat split; reflexivity.
  - inversion H as [|x l Hop Hr]; subst. destruct (IH vs Hr) as (s & toks & G & T & P & L).
    cbn [generate]. rewrite G. unfold expected. cbn [flat_map]. fold (expected r vs).
    destruct op as [o|n|n|n|n sub|n]; cbn [slot_ok] in Hop; try contradiction.
    + exists (byte_of_N o :: s), (TOp o :: toks). cbn [app].
      split; [reflexivity|]. split; [rewrite tokenize_plain_op by exact Hop; rewrite T; reflexivity|].
      split; [|simpl; congruence].
      cbn [parse_simple match_tok expect1]. rewrite N.eqb_refl, P. reflexivity.
    + destruct Hop as (d & Hl & Hd). rewrite Hl.
      exists (push d ++ s), (dtok d :: toks).
      split; [reflexivity|]. split; [rewrite tokenize_push by exact Hd; rewrite T; reflexivity|].
      split; [|simpl; congruence].
      cbn [parse_simple expect1]. rewrite Hl. rewrite (match_tok_single_pushed n _ d (dtok_pushed d)), P. reflexivity.
    + destruct Hop as (v & Hl & Hd). rewrite Hl.
      exists (push (int_bytes v) ++ s), (TData (int_bytes v) :: toks).
      split; [reflexivity|].
      split; [rewrite tokenize_push by exact Hd; rewrite T, dtok_nonempty by apply int_bytes_nonempty; reflexivity|].
      split; [|simpl; congruence].
      cbn [parse_simple match_tok expect1]. rewrite Hl, int_bytes_decode, P. reflexivity.
    + destruct Hop as (s0 & src & Hl & Hne & Hd). rewrite Hl.
      exists (push src ++ s), (TData src :: toks).
      split; [reflexivity|].
      split; [rewrite tokenize_push by exact Hd; rewrite T, dtok_nonempty by exact Hne; reflexivity|].
      split; [|simpl; congruence].
      cbn [parse_simple match_tok expect1]. rewrite Hl, P. reflexivity.
Qed.

(* under a table whose simple prefix contains the generating template: first match = that template *)
Lemma generate_script_parse : forall pre post name ops vs,
  simple_table pre = true -> pairwise_incompat pre = true -> In (name, ops) pre ->
  Forall (slot_ok vs) ops ->
  exists s, generate ops vs = Some s /\ script_parse None (pre ++ post) s = SMatch name (expected ops vs).
Proof.
  intros pre post name ops vs Hs Hp HIn Hok.
  destruct (generate_roundtrip ops vs Hok) as (s & toks & G & T & P & L).
  exists s. split; [exact G|]. unfold script_parse. rewrite T.
  destruct (simple_table_In _ _ _ Hs HIn) as [_ Hne].
  destruct toks as [|t toks']; [destruct ops; [congruence | discriminate]|].
  cbn [app]. eapply first_match_prefix; eassumption.
Qed.

Theorem generate_parse_output : forall name ops vs, In (name, ops) output_templates ->
  Forall (slot_ok vs) ops ->
  exists s, generate ops vs = Some s /\ parse_output s = SMatch name (expected ops vs).
Proof.
  intros name ops vs HIn Hok. unfold parse_output.
  rewrite <- (app_nil_r output_templates).
  apply generate_script_parse; [apply output_table_simple | apply output_table_incompat | exact HIn | exact Hok].
Qed.

Theorem generate_parse_input : forall name ops vs, In (name, ops) input_simple_templates ->
  Forall (slot_ok vs) ops ->
  exists s, generate ops vs = Some s /\ parse_input s = SMatch name (expected ops vs).
Proof.
  intros name ops vs HIn Hok. unfold parse_input. rewrite input_table_split.
  apply generate_script_parse; [apply input_table_simple | apply input_table_incompat | exact HIn | exact Hok].
Qed.

(* the time-lock redeem script, parsed the way values['script'].values parses it (template hint) *)
Theorem generate_parse_timelock : forall vs, Forall (slot_ok vs) (snd TIME_LOCK_SCRIPT) ->
  exists s, generate (snd TIME_LOCK_SCRIPT) vs = Some s /\ s <> [] /\
            parse_sub SubTimeLock s = SMatch T_timelock (expected (snd TIME_LOCK_SCRIPT) vs).
Proof.
  intros vs Hok.
  destruct (generate_roundtrip _ vs Hok) as (s & toks & G & T & P & L).
  exists s. split; [exact G|]. split.
  - intro E. subst s. rewrite tokenize_nil in T. inversion T; subst. discriminate.
  - unfold parse_sub, script_parse. rewrite T.
    destruct toks as [|t toks']; [discriminate|].
    cbn [sub_template app].
    change [TIME_LOCK_SCRIPT] with ([TIME_LOCK_SCRIPT] ++ []).
    eapply first_match_prefix with (ops := snd TIME_LOCK_SCRIPT);
      [vm_compute; reflexivity | vm_compute; reflexivity | left; reflexivity | exact P].
Qed.

(* all literal opcodes of the tables are plain opcodes, so [slot_ok] only constrains the values *)
Definition lits_plain (ops : list topcode) : bool :=
  forallb (fun op => match op with OpLit o => plain_op o | _ => true end) ops.
Lemma tables_lits_plain :
  forallb (fun t => lits_plain (snd t)) (TIME_LOCK_SCRIPT :: output_templates ++ input_simple_templates) = true.
Proof. vm_compute. reflexivity. Qed.

(* values_fit: like slot_ok, but says nothing about literal opcodes (those are a fact about the tables) *)
Definition values_fit (ops : list topcode) (vs : values) : Prop :=
  forall op, In op ops ->
    match op with
    | OpLit _ => True
    | PushSingle n => exists d, lookup n vs = Some (VBytes d) /\ N.of_nat (length d) < LIMIT
    | PushInteger n => exists v, lookup n vs = Some (VInt v) /\ (N.size v + 8) / 8 < LIMIT
    | PushSub n _ => exists s src, lookup n vs = Some (VSub s src) /\ src <> [] /\ N.of_nat (length src) < LIMIT
    | PushMany _ | SmallInt _ => False
    end.

Lemma values_fit_slot_ok ops vs : lits_plain ops = true -> values_fit ops vs -> Forall (slot_ok vs) ops.
Proof.
  intros Hl Hf. apply Forall_forall. intros op HIn. specialize (Hf op HIn).
  unfold lits_plain in Hl. rewrite forallb_forall in Hl. specialize (Hl op HIn).
  destruct op; cbn [slot_ok]; try assumption.
  destruct Hf as (v & H1 & H2). exists v. split; [exact H1|]. rewrite int_bytes_length. exact H2.
Qed.

Lemma table_lits_plain name ops :
  In (name, ops) (TIME_LOCK_SCRIPT :: output_templates ++ input_simple_templates) -> lits_plain ops = true.
Proof.
  intro H. pose proof tables_lits_plain as T. rewrite forallb_forall in T. apply (T _ H).
Qed.

Theorem generate_parse_output_fit : forall name ops vs, In (name, ops) output_templates ->
  values_fit ops vs ->
  exists s, generate ops vs = Some s /\ parse_output s = SMatch name (expected ops vs).
Proof.
  intros name ops vs HIn Hf. apply generate_parse_output; [exact HIn|].
  apply values_fit_slot_ok; [|exact Hf]. apply (table_lits_plain name). right. apply in_or_app. left. exact HIn.
Qed.

Theorem generate_parse_input_fit : forall name ops vs, In (name, ops) input_simple_templates ->
  values_fit ops vs ->
  exists s, generate ops vs = Some s /\ parse_input s = SMatch name (expected ops vs).
Proof.
  intros name ops vs HIn Hf. apply generate_parse_input; [exact HIn|].
  apply values_fit_slot_ok; [|exact Hf]. apply (table_lits_plain name). right. apply in_or_app. right. exact HIn.
Qed.

Theorem generate_parse_timelock_fit : forall vs, values_fit (snd TIME_LOCK_SCRIPT) vs ->
  exists s, generate (snd TIME_LOCK_SCRIPT) vs = Some s /\ s <> [] /\
            parse_sub SubTimeLock s = SMatch T_timelock (expected (snd TIME_LOCK_SCRIPT) vs).
Proof.
  intros vs Hf. apply generate_parse_timelock. apply values_fit_slot_ok; [|exact Hf].
  apply (table_lits_plain T_timelock). left. reflexivity.
Qed.

(* the whole spend of a time-locked output: the redeem script generated from (height, pubkey_hash),
   wrapped with signature and pubkey, parses back under the global input order, and the carried
   subscript parses back to height and pubkey_hash *)
Theorem generate_parse_timelock_spend : forall sig pk height pkh,
  N.of_nat (length sig) < LIMIT -> N.of_nat (length pk) < LIMIT -> N.of_nat (length pkh) < LIMIT - 32 ->
  height < 2 ^ 64 ->
  exists src s,
    generate (snd TIME_LOCK_SCRIPT) [(F_height, VInt height); (F_pubkey_hash, VBytes pkh)] = Some src /\
    generate (snd REDEEM_SCRIPT_HASH_TIME_LOCK)
             [(F_signature, VBytes sig); (F_pubkey, VBytes pk); (F_script, VSub SubTimeLock src)] = Some s /\
    parse_input s = SMatch T_script_hash_timelock
                      [(F_signature, VBytes sig); (F_pubkey, VBytes pk); (F_script, VSub SubTimeLock src)] /\
    parse_sub SubTimeLock src = SMatch T_timelock [(F_height, VInt height); (F_pubkey_hash, VBytes pkh)].
Proof.
  intros sig pk height pkh Hs Hp Hh Hv. unfold LIMIT in *.
  assert (Hsz : (N.size height + 8) / 8 <= 9).
  { assert (N.size height <= 64).
    { destruct height as [|p]; [simpl; lia|].
      rewrite N.size_log2 by discriminate.
      assert (N.log2 (N.pos p) < 64) by (apply N.log2_lt_pow2; lia). lia. }
    generalize dependent (N.size height). intros. lia. }
  set (vs1 := [(F_height, VInt height); (F_pubkey_hash, VBytes pkh)]).
  assert (F1 : values_fit (snd TIME_LOCK_SCRIPT) vs1).
  { intros op HIn. simpl in HIn.
    repeat (destruct HIn as [<-|HIn]; [cbn [lookup field_eqb field_code N.eqb Pos.eqb vs1]|]); try exact I; try contradiction.
    - exists height. split; [reflexivity|]. unfold LIMIT. lia.
    - exists pkh. split; [reflexivity|]. unfold LIMIT. lia. }
  destruct (generate_parse_timelock_fit vs1 F1) as (src & G1 & Hne & P1).
  (* length of the generated redeem script *)
  assert (Lsrc : N.of_nat (length src) < 4294967296).
  { cbn in G1. unfold vs1 in G1.
    inversion G1 as [E]. clear G1. unfold push.
    repeat (rewrite app_length || cbn [length]). rewrite !push_header_length.
    pose proof (int_bytes_length height) as IL.
    destruct (N.of_nat (length (int_bytes height)) <? 76) eqn:E1;
      [|apply N.ltb_ge in E1; lia].
    destruct (N.of_nat (length pkh) <? 76); [lia|].
    destruct (N.of_nat (length pkh) <=? 255); [lia|].
    destruct (N.of_nat (length pkh) <=? 65535); lia. }
  set (vs2 := [(F_signature, VBytes sig); (F_pubkey, VBytes pk); (F_script, VSub SubTimeLock src)]).
  assert (F2 : values_fit (snd REDEEM_SCRIPT_HASH_TIME_LOCK) vs2).
  { intros op HIn. simpl in HIn.
    repeat (destruct HIn as [<-|HIn]; [cbn [lookup field_eqb field_code N.eqb Pos.eqb vs2]|]); try contradiction.
    - exists sig. split; [reflexivity | exact Hs].
    - exists pk. split; [reflexivity | exact Hp].
    - exists SubTimeLock, src. split; [reflexivity|]. split; [exact Hne | exact Lsrc]. }
  destruct (generate_parse_input_fit T_script_hash_timelock _ vs2
              (or_intror (or_intror (or_introl eq_refl))) F2) as (s & G2 & P2).
  exists src, s. split; [exact G1|]. split; [exact G2|]. split; [exact P2 | exact P1].
Qed.

(* ======================================================================================== *)
(* D. explicit opcode shapes of the output templates; classification                         *)
(* ======================================================================================== *)

(* pay-to-pubkey-hash / pay-to-script-hash tails *)
Definition pkh_tail (a : token) : list token := [TOp OP_DUP; TOp OP_HASH160; a; TOp OP_EQUALVERIFY; TOp OP_CHECKSIG].
Definition sh_tail (a : token) : list token := [TOp OP_HASH160; a; TOp OP_EQUAL].

(* the exact token shape (and the values read off it) of every template OutputScript knows *)
Definition out_shape (t : tname) (toks : list token) (vs : values) : Prop :=
  match t with
  | T_no_script => toks = [] /\ vs = []
  | T_pay_pubkey_full => exists a pk, pushed a pk /\
      toks = [a; TOp OP_CHECKSIG] /\ vs = [(F_pubkey, VBytes pk)]
  | T_pay_pubkey_hash => exists a h, pushed a h /\
      toks = pkh_tail a /\ vs = [(F_pubkey_hash, VBytes h)]
  | T_pay_script_hash => exists a h, pushed a h /\
      toks = sh_tail a /\ vs = [(F_script_hash, VBytes h)]
  | T_pay_segwit => exists a h, pushed a h /\
      toks = [TOp OP_0; a] /\ vs = [(F_script_hash, VBytes h)]
  | T_return_data => exists a d, pushed a d /\
      toks = [TOp OP_RETURN; a] /\ vs = [(F_data, VBytes d)]
  | T_claim_name_pkh => exists a n b c e h, pushed a n /\ pushed b c /\ pushed e h /\
      toks = [TOp OP_CLAIM_NAME; a; b; TOp OP_2DROP; TOp OP_DROP] ++ pkh_tail e /\
      vs = [(F_claim_name, VBytes n); (F_claim, VBytes c); (F_pubkey_hash, VBytes h)]
  | T_claim_name_sh => exists a n b c e h, pushed a n /\ pushed b c /\ pushed e h /\
      toks = [TOp OP_CLAIM_NAME; a; b; TOp OP_2DROP; TOp OP_DROP] ++ sh_tail e /\
      vs = [(F_claim_name, VBytes n); (F_claim, VBytes c); (F_script_hash, VBytes h)]
  | T_support_claim_pkh => exists a n b i e h, pushed a n /\ pushed b i /\ pushed e h /\
      toks = [TOp OP_SUPPORT_CLAIM; a; b; TOp OP_2DROP; TOp OP_DROP] ++ pkh_tail e /\
      vs = [(F_claim_name, VBytes n); (F_claim_id, VBytes i); (F_pubkey_hash, VBytes h)]
  | T_support_claim_sh => exists a n b i e h, pushed a n /\ pushed b i /\ pushed e h /\
      toks = [TOp OP_SUPPORT_CLAIM; a; b; TOp OP_2DROP; TOp OP_DROP] ++ sh_tail e /\
      vs = [(F_claim_name, VBytes n); (F_claim_id, VBytes i); (F_script_hash, VBytes h)]
  | T_support_claim_data_pkh => exists a n b i c d e h, pushed a n /\ pushed b i /\ pushed c d /\ pushed e h /\
      toks = [TOp OP_SUPPORT_CLAIM; a; b; c; TOp OP_2DROP; TOp OP_2DROP] ++ pkh_tail e /\
      vs = [(F_claim_name, VBytes n); (F_claim_id, VBytes i); (F_support, VBytes d); (F_pubkey_hash, VBytes h)]
  | T_support_claim_data_sh => exists a n b i c d e h, pushed a n /\ pushed b i /\ pushed c d /\ pushed e h /\
      toks = [TOp OP_SUPPORT_CLAIM; a; b; c; TOp OP_2DROP; TOp OP_2DROP] ++ sh_tail e /\
      vs = [(F_claim_name, VBytes n); (F_claim_id, VBytes i); (F_support, VBytes d); (F_script_hash, VBytes h)]
  | T_update_claim_pkh => exists a n b i c d e h, pushed a n /\ pushed b i /\ pushed c d /\ pushed e h /\
      toks = [TOp OP_UPDATE_CLAIM; a; b; c; TOp OP_2DROP; TOp OP_2DROP] ++ pkh_tail e /\
      vs = [(F_claim_name, VBytes n); (F_claim_id, VBytes i); (F_claim, VBytes d); (F_pubkey_hash, VBytes h)]
  | T_update_claim_sh => exists a n b i c d e h, pushed a n /\ pushed b i /\ pushed c d /\ pushed e h /\
      toks = [TOp OP_UPDATE_CLAIM; a; b; c; TOp OP_2DROP; TOp OP_2DROP] ++ sh_tail e /\
      vs = [(F_claim_name, VBytes n); (F_claim_id, VBytes i); (F_claim, VBytes d); (F_script_hash, VBytes h)]
  | _ => False      (* InputScript template names are never produced by OutputScript *)
  end.

(* peel a [parse_simple (concrete ops) toks = Some vs] hypothesis apart *)
Ltac peel H :=
  repeat match type of H with
  | parse_simple (_ :: _) _ = Some _ =>
      let t := fresh "t" in let r := fresh "r" in let v1 := fresh "v" in let v2 := fresh "w" in
      let M := fresh "M" in
      apply parse_simple_cons_inv in H; destruct H as (t & r & v1 & v2 & -> & M & H & ->);
      first [ apply match_tok_lit_inv in M; destruct M as [-> ->]
            | let d := fresh "d" in let P := fresh "P" in
              apply match_tok_single_inv in M; destruct M as (d & P & ->) ]
  | parse_simple [] _ = Some _ => apply parse_simple_nil_inv in H; destruct H as [-> ->]
  end.

Lemma out_shape_of_parse : forall name ops toks vs, In (name, ops) output_templates ->
  parse_simple ops toks = Some vs -> out_shape name toks vs.
Proof.
  intros name ops toks vs HIn H. simpl in HIn.
  repeat (destruct HIn as [E|HIn]; [inversion E; subst; clear E|]); try contradiction;
    unfold PAY_PUBKEY_HASH_OPS, PAY_SCRIPT_HASH_OPS, CLAIM_NAME_OPCODES, SUPPORT_CLAIM_OPCODES,
      SUPPORT_CLAIM_DATA_OPCODES, UPDATE_CLAIM_OPCODES in H; cbn [app] in H; peel H;
    cbn [out_shape app pkh_tail sh_tail]; repeat eexists; eassumption.
Qed.

Lemma parse_of_out_shape : forall name toks vs, out_shape name toks vs -> toks <> [] ->
  exists ops, In (name, ops) output_templates /\ parse_simple ops toks = Some vs.
Proof.
  intros name toks vs H Hne.
  destruct name; cbn [out_shape] in H; try contradiction.
  - destruct H as [-> _]. congruence.
  - destruct H as (a & pk & P & -> & ->). eexists. split; [left; reflexivity|]. destruct P; reflexivity.
  - destruct H as (a & h & P & -> & ->). eexists. split; [right; left; reflexivity|]. destruct P; reflexivity.
  - destruct H as (a & h & P & -> & ->). eexists. split; [do 2 right; left; reflexivity|]. destruct P; reflexivity.
  - destruct H as (a & h & P & -> & ->). eexists. split; [do 3 right; left; reflexivity|]. destruct P; reflexivity.
  - destruct H as (a & d & P & -> & ->). eexists. split; [do 4 right; left; reflexivity|]. destruct P; reflexivity.
  - destruct H as (a & n & b & c & e & h & P1 & P2 & P3 & -> & ->). eexists.
    split; [do 5 right; left; reflexivity|]. destruct P1, P2, P3; reflexivity.
  - destruct H as (a & n & b & c & e & h & P1 & P2 & P3 & -> & ->). eexists.
    split; [do 6 right; left; reflexivity|]. destruct P1, P2, P3; reflexivity.
  - destruct H as (a & n & b & c & e & h & P1 & P2 & P3 & -> & ->). eexists.
    split; [do 7 right; left; reflexivity|]. destruct P1, P2, P3; reflexivity.
  - destruct H as (a & n & b & c & e & h & P1 & P2 & P3 & -> & ->). eexists.
    split; [do 8 right; left; reflexivity|]. destruct P1, P2, P3; reflexivity.
  - destruct H as (a & n & b & i & c & d & e & h & P1 & P2 & P3 & P4 & -> & ->). eexists.
    split; [do 9 right; left; reflexivity|]. destruct P1, P2, P3, P4; reflexivity.
  - destruct H as (a & n & b & i & c & d & e & h & P1 & P2 & P3 & P4 & -> & ->). eexists.
    split; [do 10 right; left; reflexivity|]. destruct P1, P2, P3, P4; reflexivity.
  - destruct H as (a & n & b & i & c & d & e & h & P1 & P2 & P3 & P4 & -> & ->). eexists.
    split; [do 11 right; left; reflexivity|]. destruct P1, P2, P3, P4; reflexivity.
  - destruct H as (a & n & b & i & c & d & e & h & P1 & P2 & P3 & P4 & -> & ->). eexists.
    split; [do 12 right; left; reflexivity|]. destruct P1, P2, P3, P4; reflexivity.
Qed.

(* complete description of OutputScript parsing on arbitrary byte strings *)
Theorem parse_output_shapes : forall s name vs,
  parse_output s = SMatch name vs <-> exists toks, tokenize s = TokOk toks /\ out_shape name toks vs.
Proof.
  intros s name vs. unfold parse_output, script_parse. split.
  - destruct (tokenize s) as [toks|[|]] eqn:T; try discriminate.
    intro H. exists toks. split; [reflexivity|].
    destruct toks as [|t toks'].
    + cbn in H. inversion H; subst. split; reflexivity.
    + cbn [app] in H. apply first_match_In in H as (ops & HIn & Hp).
      destruct (simple_table_In _ _ _ output_table_simple HIn) as [Hs Hne].
      rewrite template_parse_simple in Hp by assumption.
      destruct (parse_simple ops (t :: toks')) as [v|] eqn:E; [|discriminate].
      inversion Hp; subst. eapply out_shape_of_parse; eassumption.
  - intros (toks & T & Hsh). rewrite T. destruct toks as [|t toks'].
    + destruct name; cbn [out_shape] in Hsh; try contradiction;
        try (destruct Hsh as (? & ? & ? & E & _); discriminate);
        try (destruct Hsh as (? & ? & ? & ? & ? & ? & _ & _ & _ & E & _); discriminate);
        try (destruct Hsh as (? & ? & ? & ? & ? & ? & ? & ? & _ & _ & _ & _ & E & _); discriminate).
      destruct Hsh as [_ ->]. reflexivity.
    + cbn [app]. destruct (parse_of_out_shape _ _ _ Hsh) as (ops & HIn & P); [discriminate|].
      rewrite <- (app_nil_r output_templates).
      eapply first_match_prefix; [apply output_table_simple | apply output_table_incompat | exact HIn | exact P].
Qed.

(* unambiguous: a token list has at most one output shape, with one reading of the values *)
Theorem out_shape_unique : forall toks n1 v1 n2 v2,
  out_shape n1 toks v1 -> out_shape n2 toks v2 -> n1 = n2 /\ v1 = v2.
Proof.
  intros toks n1 v1 n2 v2 H1 H2.
  destruct toks as [|t r].
  - assert (E : forall n v, out_shape n [] v -> n = T_no_script /\ v = []).
    { intros n v H. destruct n; cbn [out_shape] in H; try contradiction;
        try (destruct H as (? & ? & ? & E & _); discriminate);
        try (destruct H as (? & ? & ? & ? & ? & ? & _ & _ & _ & E & _); discriminate);
        try (destruct H as (? & ? & ? & ? & ? & ? & ? & ? & _ & _ & _ & _ & E & _); discriminate).
      destruct H as [_ ->]. split; reflexivity. }
    destruct (E _ _ H1) as [-> ->]. destruct (E _ _ H2) as [-> ->]. split; reflexivity.
  - destruct (parse_of_out_shape _ _ _ H1) as (o1 & I1 & P1); [discriminate|].
    destruct (parse_of_out_shape _ _ _ H2) as (o2 & I2 & P2); [discriminate|].
    pose proof (table_unambiguous _ _ (n1, o1) (n2, o2) _ _ output_table_simple output_table_incompat I1 I2 P1 P2) as E.
    inversion E; subst. split; [reflexivity | congruence].
Qed.

Theorem parse_output_nomatch s : parse_output s = SNoMatch <->
  tokenize s = TokErr StructError \/
  exists toks, tokenize s = TokOk toks /\ forall name vs, ~ out_shape name toks vs.
Proof.
  split.
  - intro H. destruct (tokenize s) as [toks|[|]] eqn:T.
    + right. exists toks. split; [reflexivity|]. intros name vs Hs.
      assert (K : parse_output s = SMatch name vs) by (apply parse_output_shapes; exists toks; auto).
      congruence.
    + left. reflexivity.
    + exfalso. eapply tokenize_no_fuel. exact T.
  - intros [T|(toks & T & Hn)].
    + unfold parse_output, script_parse. rewrite T. reflexivity.
    + destruct (parse_output s) as [name vs| |] eqn:E; [|reflexivity|].
      * apply parse_output_shapes in E as (toks' & T' & Hs). rewrite T in T'. inversion T'; subst.
        exfalso. eapply Hn. exact Hs.
      * exfalso. eapply script_parse_no_fuel. exact E.
Qed.

(* ---- classification ---- *)
Definition pay_tail (l : list token) : Prop := exists a h, pushed a h /\ (l = pkh_tail a \/ l = sh_tail a).

Definition claim_shape (toks : list token) : Prop := exists a n b c tl,
  pushed a n /\ pushed b c /\ pay_tail tl /\
  toks = [TOp OP_CLAIM_NAME; a; b; TOp OP_2DROP; TOp OP_DROP] ++ tl.
Definition update_shape (toks : list token) : Prop := exists a n b i c d tl,
  pushed a n /\ pushed b i /\ pushed c d /\ pay_tail tl /\
  toks = [TOp OP_UPDATE_CLAIM; a; b; c; TOp OP_2DROP; TOp OP_2DROP] ++ tl.
Definition support_shape (toks : list token) : Prop := exists a n b i tl,
  pushed a n /\ pushed b i /\ pay_tail tl /\
  toks = [TOp OP_SUPPORT_CLAIM; a; b; TOp OP_2DROP; TOp OP_DROP] ++ tl.
Definition support_data_shape (toks : list token) : Prop := exists a n b i c d tl,
  pushed a n /\ pushed b i /\ pushed c d /\ pay_tail tl /\
  toks = [TOp OP_SUPPORT_CLAIM; a; b; c; TOp OP_2DROP; TOp OP_2DROP] ++ tl.
Definition purchase_shape (toks : list token) : Prop := exists a d,
  pushed a d /\ has_start_byte d = true /\ toks = [TOp OP_RETURN; a].
Definition data_shape (toks : list token) : Prop := exists a d,
  pushed a d /\ has_start_byte d = false /\ toks = [TOp OP_RETURN; a].
Definition payment_shape (toks : list token) : Prop :=
  pay_tail toks \/ exists a k, pushed a k /\ (toks = [a; TOp OP_CHECKSIG] \/ toks = [TOp OP_0; a]).

Definition shaped (toks : list token) : Prop :=
  claim_shape toks \/ update_shape toks \/ support_shape toks \/ support_data_shape toks \/
  purchase_shape toks \/ data_shape toks \/ payment_shape toks.

Definition class_shape (c : cls) (toks : list token) : Prop :=
  match c with
  | CClaim => claim_shape toks
  | CUpdate => update_shape toks
  | CSupport => support_shape toks
  | CSupportData => support_data_shape toks
  | CPurchase => purchase_shape toks
  | CData => data_shape toks
  | CPayment => payment_shape toks
  | CEmpty => toks = []
  | CNoMatch => toks <> [] /\ ~ shaped toks
  | CError => False
  end.

Lemma class_of_return_data d :
  class_of (SMatch T_return_data [(F_data, VBytes d)]) = if has_start_byte d then CPurchase else CData.
Proof. reflexivity. Qed.

Lemma class_of_match_proper name vs :
  class_of (SMatch name vs) <> CNoMatch /\ class_of (SMatch name vs) <> CError.
Proof.
  unfold class_of.
  destruct (is_claim_name name); [split; discriminate|].
  destruct (is_update_claim name); [split; discriminate|].
  destruct (is_support_claim_data name); [split; discriminate|].
  destruct (is_support_claim name); [split; discriminate|].
  destruct (is_return_data name); [destruct (is_purchase_data name vs); split; discriminate|].
  destruct name; split; discriminate.
Qed.

(* every template shape is the shape of its class *)
Lemma out_shape_class name toks vs : out_shape name toks vs -> class_shape (class_of (SMatch name vs)) toks.
Proof.
  intro H. destruct name; cbn [out_shape] in H; try contradiction.
  - destruct H as [-> ->]. reflexivity.
  - destruct H as (a & k & P & -> & ->). change (payment_shape [a; TOp OP_CHECKSIG]).
    right. exists a, k. auto.
  - destruct H as (a & k & P & -> & ->). change (payment_shape (pkh_tail a)).
    left. exists a, k. auto.
  - destruct H as (a & k & P & -> & ->). change (payment_shape (sh_tail a)).
    left. exists a, k. auto.
  - destruct H as (a & k & P & -> & ->). change (payment_shape [TOp OP_0; a]).
    right. exists a, k. auto.
  - destruct H as (a & d & P & -> & ->). rewrite class_of_return_data.
    destruct (has_start_byte d) eqn:E; exists a, d; auto.
  - destruct H as (a & n & b & c & e & h & P1 & P2 & P3 & -> & ->).
    change (claim_shape ([TOp OP_CLAIM_NAME; a; b; TOp OP_2DROP; TOp OP_DROP] ++ pkh_tail e)).
    exists a, n, b, c, (pkh_tail e). repeat split; try assumption. exists e, h. auto.
  - destruct H as (a & n & b & c & e & h & P1 & P2 & P3 & -> & ->).
    change (claim_shape ([TOp OP_CLAIM_NAME; a; b; TOp OP_2DROP; TOp OP_DROP] ++ sh_tail e)).
    exists a, n, b, c, (sh_tail e). repeat split; try assumption. exists e, h. auto.
  - destruct H as (a & n & b & c & e & h & P1 & P2 & P3 & -> & ->).
    change (support_shape ([TOp OP_SUPPORT_CLAIM; a; b; TOp OP_2DROP; TOp OP_DROP] ++ pkh_tail e)).
    exists a, n, b, c, (pkh_tail e). repeat split; try assumption. exists e, h. auto.
  - destruct H as (a & n & b & c & e & h & P1 & P2 & P3 & -> & ->).
    change (support_shape ([TOp OP_SUPPORT_CLAIM; a; b; TOp OP_2DROP; TOp OP_DROP] ++ sh_tail e)).
    exists a, n, b, c, (sh_tail e). repeat split; try assumption. exists e, h. auto.
  - destruct H as (a & n & b & i & c & d & e & h & P1 & P2 & P3 & P4 & -> & ->).
    change (support_data_shape ([TOp OP_SUPPORT_CLAIM; a; b; c; TOp OP_2DROP; TOp OP_2DROP] ++ pkh_tail e)).
    exists a, n, b, i, c, d, (pkh_tail e). repeat split; try assumption. exists e, h. auto.
  - destruct H as (a & n & b & i & c & d & e & h & P1 & P2 & P3 & P4 & -> & ->).
    change (support_data_shape ([TOp OP_SUPPORT_CLAIM; a; b; c; TOp OP_2DROP; TOp OP_2DROP] ++ sh_tail e)).
    exists a, n, b, i, c, d, (sh_tail e). repeat split; try assumption. exists e, h. auto.
  - destruct H as (a & n & b & i & c & d & e & h & P1 & P2 & P3 & P4 & -> & ->).
    change (update_shape ([TOp OP_UPDATE_CLAIM; a; b; c; TOp OP_2DROP; TOp OP_2DROP] ++ pkh_tail e)).
    exists a, n, b, i, c, d, (pkh_tail e). repeat split; try assumption. exists e, h. auto.
  - destruct H as (a & n & b & i & c & d & e & h & P1 & P2 & P3 & P4 & -> & ->).
    change (update_shape ([TOp OP_UPDATE_CLAIM; a; b; c; TOp OP_2DROP; TOp OP_2DROP] ++ sh_tail e)).
    exists a, n, b, i, c, d, (sh_tail e). repeat split; try assumption. exists e, h. auto.
Qed.

Definition shape_class (c : cls) : Prop :=
  match c with CNoMatch | CError => False | _ => True end.

(* every class shape is the shape of a template of that class *)
Lemma class_shape_out c toks : shape_class c -> class_shape c toks ->
  exists name vs, out_shape name toks vs /\ class_of (SMatch name vs) = c.
Proof.
  intros Hc H. destruct c; cbn [class_shape shape_class] in *; try contradiction.
  - destruct H as (a & n & b & c & tl & P1 & P2 & (e & h & P3 & [-> | ->]) & ->).
    + exists T_claim_name_pkh. eexists. split; [|reflexivity]. cbn [out_shape]. repeat eexists; eassumption.
    + exists T_claim_name_sh. eexists. split; [|reflexivity]. cbn [out_shape]. repeat eexists; eassumption.
  - destruct H as (a & n & b & i & c & d & tl & P1 & P2 & P4 & (e & h & P3 & [-> | ->]) & ->).
    + exists T_update_claim_pkh. eexists. split; [|reflexivity]. cbn [out_shape]. repeat eexists; eassumption.
    + exists T_update_claim_sh. eexists. split; [|reflexivity]. cbn [out_shape]. repeat eexists; eassumption.
  - destruct H as (a & n & b & c & tl & P1 & P2 & (e & h & P3 & [-> | ->]) & ->).
    + exists T_support_claim_pkh. eexists. split; [|reflexivity]. cbn [out_shape]. repeat eexists; eassumption.
    + exists T_support_claim_sh. eexists. split; [|reflexivity]. cbn [out_shape]. repeat eexists; eassumption.
  - destruct H as (a & n & b & i & c & d & tl & P1 & P2 & P4 & (e & h & P3 & [-> | ->]) & ->).
    + exists T_support_claim_data_pkh. eexists. split; [|reflexivity]. cbn [out_shape]. repeat eexists; eassumption.
    + exists T_support_claim_data_sh. eexists. split; [|reflexivity]. cbn [out_shape]. repeat eexists; eassumption.
  - destruct H as (a & d & P & E & ->). exists T_return_data, [(F_data, VBytes d)].
    split; [cbn [out_shape]; repeat eexists; eassumption|]. rewrite class_of_return_data, E. reflexivity.
  - destruct H as (a & d & P & E & ->). exists T_return_data, [(F_data, VBytes d)].
    split; [cbn [out_shape]; repeat eexists; eassumption|]. rewrite class_of_return_data, E. reflexivity.
  - destruct H as [(a & h & P & [-> | ->]) | (a & k & P & [-> | ->])].
    + exists T_pay_pubkey_hash. eexists. split; [|reflexivity]. cbn [out_shape]. repeat eexists; eassumption.
    + exists T_pay_script_hash. eexists. split; [|reflexivity]. cbn [out_shape]. repeat eexists; eassumption.
    + exists T_pay_pubkey_full. eexists. split; [|reflexivity]. cbn [out_shape]. repeat eexists; eassumption.
    + exists T_pay_segwit. eexists. split; [|reflexivity]. cbn [out_shape]. repeat eexists; eassumption.
  - subst toks. exists T_no_script, []. split; [split; reflexivity | reflexivity].
Qed.

Lemma shaped_iff toks : shaped toks <->
  exists c, c <> CEmpty /\ shape_class c /\ class_shape c toks.
Proof.
  split.
  - intros [H|[H|[H|[H|[H|[H|H]]]]]];
      [exists CClaim | exists CUpdate | exists CSupport | exists CSupportData | exists CPurchase
       | exists CData | exists CPayment]; (split; [discriminate | split; [exact I | exact H]]).
  - intros (c & Hne & Hc & H). unfold shaped. destruct c; cbn [class_shape shape_class] in *; try contradiction; tauto.
Qed.

(* the class shapes are pairwise exclusive *)
Theorem class_shape_exclusive c1 c2 toks : shape_class c1 -> shape_class c2 ->
  class_shape c1 toks -> class_shape c2 toks -> c1 = c2.
Proof.
  intros S1 S2 H1 H2.
  destruct (class_shape_out _ _ S1 H1) as (n1 & v1 & O1 & <-).
  destruct (class_shape_out _ _ S2 H2) as (n2 & v2 & O2 & <-).
  destruct (out_shape_unique _ _ _ _ _ O1 O2) as [-> ->]. reflexivity.
Qed.

(* a script gets a class exactly when its tokens have that class's opcode shape *)
Theorem classify_iff s c :
  classify s = c <->
  match c with
  | CError => False
  | CNoMatch => tokenize s = TokErr StructError \/ exists toks, tokenize s = TokOk toks /\ class_shape c toks
  | _ => exists toks, tokenize s = TokOk toks /\ class_shape c toks
  end.
Proof.
  unfold classify. split.
  - intro H. destruct (parse_output s) as [name vs| |] eqn:E.
    + apply parse_output_shapes in E as (toks & T & Hs).
      pose proof (out_shape_class _ _ _ Hs) as K. rewrite H in K.
      destruct c; try (exists toks; split; [exact T | exact K]); try contradiction.
      right. exists toks. split; [exact T | exact K].
    + simpl in H. subst c. apply parse_output_nomatch in E as [T|(toks & T & Hn)]; [left; exact T|].
      right. exists toks. split; [exact T|]. split.
      * intros ->. apply (Hn T_no_script []). split; reflexivity.
      * intro Hsh. apply shaped_iff in Hsh as (c & _ & Hc & Hcs).
        destruct (class_shape_out _ _ Hc Hcs) as (n & v & O & _). exact (Hn _ _ O).
    + exfalso. eapply script_parse_no_fuel. exact E.
  - intro H.
    assert (G : forall toks, tokenize s = TokOk toks -> shape_class c -> class_shape c toks ->
                class_of (parse_output s) = c).
    { intros toks T Hc Hs. destruct (class_shape_out _ _ Hc Hs) as (n & v & O & <-).
      f_equal. apply parse_output_shapes. exists toks. auto. }
    destruct c; try (destruct H as (toks & T & Hs); apply (G toks T I Hs)); try contradiction.
    assert (E : parse_output s = SNoMatch).
    { apply parse_output_nomatch. destruct H as [T|(toks & T & Hne & Hns)]; [left; exact T|].
      right. exists toks. split; [exact T|]. intros name vs O.
      pose proof (out_shape_class _ _ _ O) as K.
      destruct (class_of (SMatch name vs)) eqn:C; cbn [class_shape] in K;
        try (apply Hns; unfold shaped; tauto); try contradiction.
      exact (proj1 (class_of_match_proper name vs) C). }
    rewrite E. reflexivity.
Qed.

(* consequence spelled out: a payment (spendable) class is never given to a script that starts
   with a claim / support / update opcode, and vice versa *)
Theorem claim_never_payment s toks : tokenize s = TokOk toks ->
  (claim_shape toks \/ update_shape toks \/ support_shape toks \/ support_data_shape toks) ->
  classify s <> CPayment /\ classify s <> CData /\ classify s <> CPurchase /\ classify s <> CEmpty /\
  row_type (classify s) <> 0.
Proof.
  intros T H.
  assert (K : classify s = CClaim \/ classify s = CUpdate \/ classify s = CSupport \/ classify s = CSupportData).
  { destruct H as [H|[H|[H|H]]];
      [left | right; left | do 2 right; left | do 3 right];
      apply classify_iff; exists toks; split; assumption. }
  destruct K as [K|[K|[K|K]]]; rewrite K; repeat split; discriminate.
Qed.

(* ======================================================================================== *)
(* E. packaging for Props/C15.v and non-vacuity witnesses                                    *)
(* ======================================================================================== *)

Theorem push_minimal : forall n, n < LIMIT ->
  push_form (push_header n) n /\ forall h, push_form h n -> (length (push_header n) <= length h)%nat.
Proof. intros n H. split; [apply push_header_form; exact H | intros h F; apply push_header_minimal; exact F]. Qed.

Theorem no_fuel : forall s, tokenize s <> TokErr TokFuel /\ parse_output s <> SFuel /\ parse_input s <> SFuel /\
  forall t, parse_sub t s <> SFuel.
Proof.
  intro s. split; [apply tokenize_no_fuel|]. split; [apply script_parse_no_fuel|].
  split; [apply script_parse_no_fuel | intro t; apply script_parse_no_fuel].
Qed.

Definition bs (l : list N) : bytes := map byte_of_N l.
Definition ex_name : bytes := bs [110; 97; 109; 101].            (* "name" *)
Definition ex_hash : bytes := repeat (byte_of_N 17) 20.
Definition ex_claim_values : values :=
  [(F_claim_name, VBytes ex_name); (F_claim, VBytes (bs [1; 2; 3])); (F_pubkey_hash, VBytes ex_hash)].

Lemma ex_claim_fit : values_fit (snd CLAIM_NAME_PUBKEY) ex_claim_values.
Proof.
  intros op HIn. simpl in HIn.
  repeat (destruct HIn as [<-|HIn]; [try exact I|]); try contradiction.
  - exists ex_name. split; [reflexivity | vm_compute; reflexivity].
  - exists (bs [1; 2; 3]). split; [reflexivity | vm_compute; reflexivity].
  - exists ex_hash. split; [reflexivity | vm_compute; reflexivity].
Qed.

Lemma ex_timelock_fit : values_fit (snd TIME_LOCK_SCRIPT) [(F_height, VInt 500); (F_pubkey_hash, VBytes ex_hash)].
Proof.
  intros op HIn. simpl in HIn.
  repeat (destruct HIn as [<-|HIn]; [try exact I|]); try contradiction.
  - exists 500. split; [reflexivity | vm_compute; reflexivity].
  - exists ex_hash. split; [reflexivity | vm_compute; reflexivity].
Qed.

Lemma ex_claim_shape : claim_shape
  ([TOp OP_CLAIM_NAME; TData ex_name; TOp 0; TOp OP_2DROP; TOp OP_DROP] ++ pkh_tail (TData ex_hash)).
Proof.
  exists (TData ex_name), ex_name, (TOp 0), [], (pkh_tail (TData ex_hash)).
  split; [constructor|]. split; [constructor|]. split; [|reflexivity].
  exists (TData ex_hash), ex_hash. split; [constructor | left; reflexivity].
Qed.

Lemma ex_nomatch_shape : class_shape CNoMatch [TOp OP_CLAIM_NAME].
Proof.
  split; [discriminate|]. intro H. apply shaped_iff in H as (c & _ & Hc & Hs).
  destruct (class_shape_out _ _ Hc Hs) as (n & v & O & _).
  destruct n; cbn [out_shape] in O; try contradiction;
    try (destruct O as (? & ? & ? & E & _); discriminate E);
    try (destruct O as (? & ? & ? & ? & ? & ? & _ & _ & _ & E & _); discriminate E);
    try (destruct O as (? & ? & ? & ? & ? & ? & ? & ? & _ & _ & _ & _ & E & _); discriminate E).
  destruct O as [E _]. discriminate E.
Qed.

(* ======================================================================================== *)
(* F. InputScript on arbitrary byte strings, the PUSH_MANY template included                 *)
(* ======================================================================================== *)

Definition not_data_head (l : list token) : Prop := match l with TData _ :: _ => False | _ => True end.

Lemma span_data_spec : forall toks datas rest, span_data toks = (datas, rest) ->
  toks = map TData datas ++ rest /\ not_data_head rest.
Proof.
  induction toks as [|t r IH]; intros datas rest H.
  - inversion H. split; [reflexivity | exact I].
  - destruct t as [d|k|v]; cbn [span_data] in H.
    + destruct (span_data r) as [a b] eqn:E. inversion H; subst.
      destruct (IH a rest eq_refl) as [-> Hn]. split; [reflexivity | exact Hn].
    + inversion H. split; [reflexivity | exact I].
    + inversion H. split; [reflexivity | exact I].
Qed.

Lemma span_data_map : forall l rest, not_data_head rest -> span_data (map TData l ++ rest) = (l, rest).
Proof.
  induction l as [|d l IH]; intros rest H.
  - cbn [map app]. destruct rest as [|[x|k|v] r]; try reflexivity. contradiction.
  - cbn [map app span_data]. rewrite IH by exact H. reflexivity.
Qed.

Lemma split_last {A} (l : list A) k : length l = S k -> exists x, skipn k l = [x] /\ l = firstn k l ++ [x].
Proof.
  revert l. induction k as [|k IH]; intros l H.
  - destruct l as [|x [|y r]]; try discriminate. exists x. split; reflexivity.
  - destruct l as [|y r]; [discriminate|]. simpl in H. destruct (IH r) as (x & E1 & E2); [lia|].
    exists x. cbn [skipn firstn app]. split; [exact E1 | f_equal; exact E2].
Qed.

Definition MS_OPS := snd REDEEM_SCRIPT_HASH_MULTI_SIG.

Lemma consume_many_ms n f sub toks :
  consume_many n [PushMany n; PushSub f sub] toks =
  let (datas, rest) := span_data toks in
  if (length datas <? 2)%nat then None
  else match zip_singles [PushSub f sub] (skipn (length datas - 1) datas) with
       | Some vs => Some ((n, VList (firstn (length datas - 1) datas)) :: vs, [], rest)
       | None => None
       end.
Proof. unfold consume_many. destruct (span_data toks). reflexivity. Qed.

Lemma multisig_parse_iff toks vs :
  parse MS_OPS toks = PMatch vs <->
  exists sigs src, sigs <> [] /\ toks = TOp 0 :: map TData sigs ++ [TData src] /\
                   vs = [(F_signatures, VList sigs); (F_script, VSub SubMultiSig src)].
Proof.
  unfold parse, MS_OPS. cbn [snd REDEEM_SCRIPT_HASH_MULTI_SIG length]. split.
  - destruct toks as [|t toks']; [discriminate|].
    destruct t as [d|k|[|p]]; cbn [parse_fuel push_single OP_0 N.eqb]; try discriminate.
    destruct toks' as [|t' r]; [discriminate|].
    destruct t' as [d|k|v]; cbn [parse_fuel]; try discriminate.
    + rewrite consume_many_ms. destruct (span_data (TData d :: r)) as [datas rest] eqn:E.
      destruct (Nat.ltb_spec (length datas) 2) as [Hlt|Hge]; [discriminate|].
      apply span_data_spec in E as [E Hn].
      assert (L : length datas = S (length datas - 1)) by lia.
      destruct (split_last datas _ L) as (x & S1 & S2).
      rewrite S1. cbn [zip_singles push_single].
      destruct rest as [|y rest']; cbn [parse_fuel pcons app]; [|discriminate].
      intro H. inversion H; subst vs. exists (firstn (length datas - 1) datas), x.
      split.
      * intro K. apply (f_equal (@length bytes)) in K. rewrite firstn_length in K. simpl in K. lia.
      * split; [|reflexivity]. rewrite E, app_nil_r. f_equal. rewrite S2 at 1. rewrite map_app. reflexivity.
    + destruct v; discriminate.
  - intros (sigs & src & Hne & -> & ->).
    destruct sigs as [|s1 sr]; [congruence|].
    cbn [parse_fuel push_single OP_0 N.eqb map app].
    rewrite consume_many_ms.
    change (TData s1 :: map TData sr ++ [TData src]) with (map TData (s1 :: sr) ++ map TData [src]).
    rewrite <- map_app. rewrite <- (app_nil_r (map TData _)).
    rewrite span_data_map by exact I.
    rewrite app_length. cbn [length].
    replace (S (length sr) + 1 <? 2)%nat with false by (symmetry; apply Nat.ltb_ge; lia).
    replace (S (length sr) + 1 - 1)%nat with (length (s1 :: sr)) by (simpl; lia).
    rewrite skipn_app_exact, firstn_app_exact. reflexivity.
Qed.

Definition in_shape (t : tname) (toks : list token) (vs : values) : Prop :=
  match t with
  | T_no_script => toks = [] /\ vs = []
  | T_pubkey => exists a sig, pushed a sig /\ toks = [a] /\ vs = [(F_signature, VBytes sig)]
  | T_pubkey_hash => exists a sig b pk, pushed a sig /\ pushed b pk /\
      toks = [a; b] /\ vs = [(F_signature, VBytes sig); (F_pubkey, VBytes pk)]
  | T_script_hash_timelock => exists a sig b pk src, pushed a sig /\ pushed b pk /\
      toks = [a; b; TData src] /\
      vs = [(F_signature, VBytes sig); (F_pubkey, VBytes pk); (F_script, VSub SubTimeLock src)]
  | T_script_hash_multi_sig => exists sigs src, (2 <= length sigs)%nat /\
      toks = TOp 0 :: map TData sigs ++ [TData src] /\
      vs = [(F_signatures, VList sigs); (F_script, VSub SubMultiSig src)]
  | _ => False
  end.

Lemma match_tok_sub_inv n sub t v : match_tok (PushSub n sub) t = Some v ->
  exists d, t = TData d /\ v = [(n, VSub sub d)].
Proof. destruct t as [d|k|x]; simpl; try discriminate. intro H. inversion H. exists d. auto. Qed.

Lemma first_match_app a b toks :
  first_match (a ++ b) toks = match first_match a toks with SNoMatch => first_match b toks | r => r end.
Proof.
  induction a as [|[n o] a IH]; cbn [app first_match]; [reflexivity|].
  destruct (template_parse o toks); [reflexivity | exact IH | reflexivity].
Qed.

Lemma parse_simple_length : forall ops toks v, parse_simple ops toks = Some v -> length ops = length toks.
Proof.
  induction ops as [|op r IH]; intros toks v H.
  - apply parse_simple_nil_inv in H as [-> _]. reflexivity.
  - apply parse_simple_cons_inv in H as (t & toks' & v1 & v2 & -> & _ & P & _). simpl. f_equal. eapply IH. exact P.
Qed.

Lemma first_match_nomatch : forall l toks, simple_table l = true ->
  (forall n ops, In (n, ops) l -> length ops <> length toks) -> first_match l toks = SNoMatch.
Proof.
  induction l as [|[n o] l IH]; intros toks Hs H; [reflexivity|].
  cbn [first_match].
  destruct (simple_table_In ((n, o) :: l) n o Hs (or_introl eq_refl)) as [S1 S2].
  rewrite template_parse_simple by assumption.
  destruct (parse_simple o toks) as [v|] eqn:E.
  - apply parse_simple_length in E. exfalso. apply (H n o); [left; reflexivity | exact E].
  - simpl. apply IH.
    + cbn [simple_table forallb] in Hs. apply andb_true_iff in Hs as [_ Hs]. exact Hs.
    + intros n' ops' HIn. apply (H n' ops'). right. exact HIn.
Qed.

Lemma in_shape_of_parse : forall name ops toks vs, In (name, ops) input_simple_templates ->
  parse_simple ops toks = Some vs -> in_shape name toks vs.
Proof.
  intros name ops toks vs HIn H. simpl in HIn.
  destruct HIn as [E|[E|[E|[]]]]; inversion E; subst; clear E.
  - peel H. cbn [in_shape app]. repeat eexists; eassumption.
  - peel H. cbn [in_shape app]. repeat eexists; eassumption.
  - apply parse_simple_cons_inv in H as (t1 & r1 & v1 & w1 & -> & M1 & H & ->).
    apply parse_simple_cons_inv in H as (t2 & r2 & v2 & w2 & -> & M2 & H & ->).
    apply parse_simple_cons_inv in H as (t3 & r3 & v3 & w3 & -> & M3 & H & ->).
    apply parse_simple_nil_inv in H as [-> ->].
    apply match_tok_single_inv in M1 as (d1 & P1 & ->).
    apply match_tok_single_inv in M2 as (d2 & P2 & ->).
    apply match_tok_sub_inv in M3 as (d3 & -> & ->).
    cbn [in_shape app]. exists t1, d1, t2, d2, d3. auto.
Qed.

Lemma parse_of_in_shape : forall name toks vs, in_shape name toks vs -> toks <> [] ->
  name <> T_script_hash_multi_sig ->
  exists ops, In (name, ops) input_simple_templates /\ parse_simple ops toks = Some vs.
Proof.
  intros name toks vs H Hne Hnm. destruct name; cbn [in_shape] in H; try contradiction; try congruence.
  - destruct H as [-> _]. congruence.
  - destruct H as (a & sig & P & -> & ->). eexists. split; [left; reflexivity|]. destruct P; reflexivity.
  - destruct H as (a & sig & b & pk & P1 & P2 & -> & ->). eexists. split; [right; left; reflexivity|].
    destruct P1, P2; reflexivity.
  - destruct H as (a & sig & b & pk & src & P1 & P2 & -> & ->). eexists. split; [do 2 right; left; reflexivity|].
    destruct P1, P2; reflexivity.
Qed.

(* complete description of InputScript parsing on arbitrary byte strings, multisig included; the
   global order shows in the multi_sig clause: with a single signature the script is read as
   script_hash+timelock with an empty signature *)
Theorem parse_input_shapes : forall s name vs,
  parse_input s = SMatch name vs <-> exists toks, tokenize s = TokOk toks /\ in_shape name toks vs.
Proof.
  intros s name vs. unfold parse_input, script_parse. split.
  - destruct (tokenize s) as [toks|[|]] eqn:T; try discriminate.
    intro H. exists toks. split; [reflexivity|].
    destruct toks as [|t toks'].
    + cbn in H. inversion H; subst. split; reflexivity.
    + cbn [app] in H. rewrite input_table_split, first_match_app in H.
      destruct (first_match input_simple_templates (t :: toks')) as [n v| |] eqn:E.
      * inversion H; subst. apply first_match_In in E as (ops & HIn & Hp).
        destruct (simple_table_In _ _ _ input_table_simple HIn) as [Hs Hne].
        rewrite template_parse_simple in Hp by assumption.
        destruct (parse_simple ops (t :: toks')) as [v'|] eqn:E'; [|discriminate].
        inversion Hp; subst. eapply in_shape_of_parse; eassumption.
      * cbn [first_match REDEEM_SCRIPT_HASH_MULTI_SIG template_parse] in H.
        fold MS_OPS in H. change (OpLit OP_0 :: _) with MS_OPS in H.
        destruct (parse MS_OPS (t :: toks')) as [v| |] eqn:P; try discriminate.
        inversion H; subst. apply multisig_parse_iff in P as (sigs & src & Hne & Et & ->).
        cbn [in_shape]. exists sigs, src. split; [|split; [exact Et | reflexivity]].
        destruct sigs as [|s1 [|s2 sr]]; [congruence | | simpl; lia].
        (* one signature: the time-lock template would have matched first *)
        exfalso. rewrite Et in E. cbn [map app] in E.
        assert (K : first_match (input_simple_templates ++ []) [TOp 0; TData s1; TData src] =
                    SMatch T_script_hash_timelock
                      [(F_signature, VBytes []); (F_pubkey, VBytes s1); (F_script, VSub SubTimeLock src)]).
        { eapply first_match_prefix; [apply input_table_simple | apply input_table_incompat
                                      | do 2 right; left; reflexivity | reflexivity]. }
        rewrite app_nil_r in K. congruence.
      * discriminate.
  - intros (toks & T & Hsh). rewrite T. destruct toks as [|t toks'].
    + destruct name; cbn [in_shape] in Hsh; try contradiction.
      * destruct Hsh as [_ ->]. reflexivity.
      * destruct Hsh as (? & ? & _ & E & _). discriminate.
      * destruct Hsh as (? & ? & ? & ? & _ & _ & E & _). discriminate.
      * destruct Hsh as (? & ? & _ & E & _). discriminate.
      * destruct Hsh as (? & ? & ? & ? & ? & _ & _ & E & _). discriminate.
    + cbn [app]. rewrite input_table_split.
      assert (D : name = T_script_hash_multi_sig \/ name <> T_script_hash_multi_sig)
        by (destruct name; (left; reflexivity) || (right; discriminate)).
      destruct D as [->|Hnm].
      * cbn [in_shape] in Hsh. destruct Hsh as (sigs & src & L & Et & ->).
        rewrite first_match_app, first_match_nomatch.
        -- cbn [first_match REDEEM_SCRIPT_HASH_MULTI_SIG template_parse].
           change (OpLit OP_0 :: _) with MS_OPS.
           assert (P : parse MS_OPS (t :: toks') = PMatch [(F_signatures, VList sigs); (F_script, VSub SubMultiSig src)]).
           { apply multisig_parse_iff. exists sigs, src. split; [destruct sigs; [simpl in L; lia | discriminate]|].
             split; [exact Et | reflexivity]. }
           rewrite P. reflexivity.
        -- apply input_table_simple.
        -- intros n ops HIn. rewrite Et. cbn [length]. rewrite app_length, map_length. cbn [length].
           simpl in HIn. destruct HIn as [E|[E|[E|[]]]]; inversion E; subst; simpl; lia.
      * destruct (parse_of_in_shape _ _ _ Hsh) as (ops & HIn & P); [discriminate | exact Hnm|].
        eapply first_match_prefix; [apply input_table_simple | apply input_table_incompat | exact HIn | exact P].
Qed.

(* the time-lock redeem script as values['script'] parses it (template hint, no other templates) *)
Lemma match_tok_int_inv n t v : match_tok (PushInteger n) t = Some v ->
  exists d, t = TData d /\ v = [(n, VInt (le_decode d))].
Proof. destruct t as [d|k|x]; simpl; try discriminate. intro H. inversion H. exists d. auto. Qed.

Theorem parse_timelock_shapes : forall s name vs,
  parse_sub SubTimeLock s = SMatch name vs <->
  exists h a k, pushed a k /\ name = T_timelock /\
    tokenize s = TokOk ([TData h; TOp OP_CHECKLOCKTIMEVERIFY; TOp OP_DROP] ++ pkh_tail a) /\
    vs = [(F_height, VInt (le_decode h)); (F_pubkey_hash, VBytes k)].
Proof.
  intros s name vs. unfold parse_sub, script_parse. cbn [sub_template]. split.
  - destruct (tokenize s) as [toks|[|]] eqn:T; try discriminate.
    replace (match match toks with [] => Some TIME_LOCK_SCRIPT | _ :: _ => Some TIME_LOCK_SCRIPT end with
             | Some t => [t] | None => [] end ++ []) with [TIME_LOCK_SCRIPT] by (destruct toks; reflexivity).
    cbn [first_match TIME_LOCK_SCRIPT].
    rewrite template_parse_simple by (vm_compute; reflexivity || discriminate).
    destruct (parse_simple _ toks) as [v|] eqn:P; [|discriminate].
    intro H. inversion H; subst. unfold PAY_PUBKEY_HASH_OPS in P. cbn [app] in P.
    apply parse_simple_cons_inv in P as (t1 & r1 & v1 & w1 & -> & M1 & P & ->).
    apply match_tok_int_inv in M1 as (h & -> & ->).
    peel P. exists h, t, d. split; [exact P0|]. split; [reflexivity|]. split; reflexivity.
  - intros (h & a & k & P & -> & T & ->). rewrite T. cbn [app].
    destruct P; reflexivity.
Qed.

(* ======================================================================================== *)
(* G. the other direction: generating again from the parsed values reproduces the script      *)
(* ======================================================================================== *)

Lemma field_eqb_eq a b : field_eqb a b = true <-> a = b.
Proof.
  split.
  - destruct a, b; intro H; try reflexivity; vm_compute in H; discriminate H.
  - intros ->. unfold field_eqb. apply N.eqb_refl.
Qed.

Definition push_field (op : topcode) : option field :=
  match op with
  | PushSingle n | PushInteger n | PushSub n _ | PushMany n | SmallInt n => Some n
  | OpLit _ => None
  end.

(* the payload generate reads from a value *)
Definition same_payload (a b : value) : Prop :=
  match a, b with
  | VBytes x, VBytes y => x = y
  | VInt x, VInt y => x = y
  | VSub _ x, VSub _ y => x = y
  | _, _ => False
  end.

Lemma lookup_expected : forall ops vs n, Forall (slot_ok vs) ops ->
  (exists op, In op ops /\ push_field op = Some n) ->
  exists v v', lookup n vs = Some v /\ lookup n (expected ops vs) = Some v' /\ same_payload v v'.
Proof.
  induction ops as [|op r IH]; intros vs n Hok (op0 & HIn & Hf); [destruct HIn|].
  inversion Hok as [|x l Hop Hr]; subst.
  unfold expected. cbn [flat_map]. fold (expected r vs).
  assert (Rec : (exists op1, In op1 r /\ push_field op1 = Some n) ->
                exists v v', lookup n vs = Some v /\ lookup n (expected r vs) = Some v' /\ same_payload v v')
    by (intro E; apply IH; assumption).
  assert (Tail : op <> op0 -> exists op1, In op1 r /\ push_field op1 = Some n).
  { intro Hne. destruct HIn as [E|HIn]; [congruence|]. exists op0. auto. }
  destruct op as [o|m|m|m|m sub|m]; cbn [slot_ok expect1] in *; try contradiction.
  - cbn [app]. apply Rec. apply Tail. intro E. subst op0. discriminate.
  - destruct Hop as (d & Hl & _). rewrite Hl. cbn [app lookup].
    destruct (field_eqb m n) eqn:E.
    + apply field_eqb_eq in E. subst m. exists (VBytes d), (VBytes d). repeat split; auto.
    + apply Rec. apply Tail. intro K. subst op0. inversion Hf. subst. rewrite (proj2 (field_eqb_eq n n) eq_refl) in E. discriminate.
  - destruct Hop as (v & Hl & _). rewrite Hl. cbn [app lookup].
    destruct (field_eqb m n) eqn:E.
    + apply field_eqb_eq in E. subst m. exists (VInt v), (VInt v). repeat split; auto.
    + apply Rec. apply Tail. intro K. subst op0. inversion Hf. subst. rewrite (proj2 (field_eqb_eq n n) eq_refl) in E. discriminate.
  - destruct Hop as (s0 & src & Hl & _). rewrite Hl. cbn [app lookup].
    destruct (field_eqb m n) eqn:E.
    + apply field_eqb_eq in E. subst m. exists (VSub s0 src), (VSub sub src). repeat split; auto.
    + apply Rec. apply Tail. intro K. subst op0. inversion Hf. subst. rewrite (proj2 (field_eqb_eq n n) eq_refl) in E. discriminate.
Qed.

(* generating again from the parsed values gives the same script *)
Lemma generate_expected_gen : forall ops all vs, Forall (slot_ok vs) all -> (forall op, In op ops -> In op all) ->
  generate ops (expected all vs) = generate ops vs.
Proof.
  induction ops as [|op r IH]; intros all vs Hok Hsub; [reflexivity|].
  cbn [generate]. rewrite (IH all vs Hok) by (intros o Ho; apply Hsub; right; exact Ho).
  assert (HIn : In op all) by (apply Hsub; left; reflexivity).
  pose proof (proj1 (Forall_forall _ _) Hok op HIn) as Hop.
  destruct op as [o|m|m|m|m sub|m]; cbn [slot_ok] in Hop; try contradiction; try reflexivity.
  - destruct (lookup_expected all vs m Hok) as (v & v' & L1 & L2 & S); [exists (PushSingle m); auto|].
    destruct Hop as (d & Hl & _). rewrite Hl in L1. inversion L1; subst v. rewrite L2, Hl.
    destruct v'; cbn [same_payload] in S; try contradiction. subst. reflexivity.
  - destruct (lookup_expected all vs m Hok) as (v & v' & L1 & L2 & S); [exists (PushInteger m); auto|].
    destruct Hop as (d & Hl & _). rewrite Hl in L1. inversion L1; subst v. rewrite L2, Hl.
    destruct v'; cbn [same_payload] in S; try contradiction. subst. reflexivity.
  - destruct (lookup_expected all vs m Hok) as (v & v' & L1 & L2 & S); [exists (PushSub m sub); auto|].
    destruct Hop as (s0 & src & Hl & _). rewrite Hl in L1. inversion L1; subst v. rewrite L2, Hl.
    destruct v'; cbn [same_payload] in S; try contradiction. subst. reflexivity.
Qed.

Theorem parse_then_generate_output : forall name ops vs s vs', In (name, ops) output_templates ->
  values_fit ops vs -> generate ops vs = Some s -> parse_output s = SMatch name vs' ->
  generate ops vs' = Some s.
Proof.
  intros name ops vs s vs' HIn Hf G P.
  assert (Hok : Forall (slot_ok vs) ops).
  { apply values_fit_slot_ok; [|exact Hf]. apply (table_lits_plain name). right. apply in_or_app. left. exact HIn. }
  destruct (generate_parse_output name ops vs HIn Hok) as (s2 & G2 & P2).
  rewrite G in G2. inversion G2; subst s2. rewrite P in P2. inversion P2; subst vs'.
  rewrite generate_expected_gen with (all := ops); [exact G | exact Hok | auto].
Qed.

Theorem parse_then_generate_input : forall name ops vs s vs', In (name, ops) input_simple_templates ->
  values_fit ops vs -> generate ops vs = Some s -> parse_input s = SMatch name vs' ->
  generate ops vs' = Some s.
Proof.
  intros name ops vs s vs' HIn Hf G P.
  assert (Hok : Forall (slot_ok vs) ops).
  { apply values_fit_slot_ok; [|exact Hf]. apply (table_lits_plain name). right. apply in_or_app. right. exact HIn. }
  destruct (generate_parse_input name ops vs HIn Hok) as (s2 & G2 & P2).
  rewrite G in G2. inversion G2; subst s2. rewrite P in P2. inversion P2; subst vs'.
  rewrite generate_expected_gen with (all := ops); [exact G | exact Hok | auto].
Qed.

(* ======================================================================================== *)
(* H. a PUSH_SUBSCRIPT value is its source bytes: generation embeds them verbatim             *)
(* ======================================================================================== *)

Definition chunk (op : topcode) (vs : values) : option bytes :=
  match op with
  | OpLit o => Some [byte_of_N o]
  | PushSingle n => match lookup n vs with Some (VBytes d) => Some (push d) | _ => None end
  | PushInteger n => match lookup n vs with Some (VInt v) => Some (push (int_bytes v)) | _ => None end
  | PushSub n _ => match lookup n vs with Some (VSub _ src) => Some (push src) | _ => None end
  | PushMany n => match lookup n vs with Some (VList l) => Some (concat (map push l)) | _ => None end
  | SmallInt n => match lookup n vs with
                  | Some (VSmall k) => if (1 <=? k) && (k <=? 16) then Some [byte_of_N (OP_1 + (k - 1))] else None
                  | _ => None end
  end.

Lemma generate_cons op r vs :
  generate (op :: r) vs = match chunk op vs, generate r vs with Some c, Some s => Some (c ++ s) | _, _ => None end.
Proof. destruct op; reflexivity. Qed.

Theorem subscript_verbatim_general : forall ops vs s n t t' src,
  generate ops vs = Some s -> In (PushSub n t) ops -> lookup n vs = Some (VSub t' src) ->
  exists pre post, s = pre ++ push src ++ post.
Proof.
  induction ops as [|op r IH]; intros vs s n t t' src G HIn L; [destruct HIn|].
  rewrite generate_cons in G.
  destruct (chunk op vs) as [c|] eqn:C; [|discriminate].
  destruct (generate r vs) as [sr|] eqn:Gr; [|discriminate].
  inversion G; subst s. destruct HIn as [E|HIn].
  - subst op. cbn [chunk] in C. rewrite L in C. inversion C. exists [], sr. reflexivity.
  - destruct (IH vs sr n t t' src Gr HIn L) as (pre & post & ->).
    exists (c ++ pre), post. rewrite app_assoc. reflexivity.
Qed.

Theorem timelock_spend_verbatim : forall sig pk t src,
  generate (snd REDEEM_SCRIPT_HASH_TIME_LOCK)
           [(F_signature, VBytes sig); (F_pubkey, VBytes pk); (F_script, VSub t src)]
  = Some (push sig ++ push pk ++ push src).
Proof. intros. cbn. rewrite app_nil_r. reflexivity. Qed.

(* ANY redeem script bytes (canonical or not, a time-lock script or not) offered as the subscript:
   the spending input is sig, pubkey and exactly those bytes, and parses back to exactly those bytes *)
Theorem timelock_spend_any_redeem_script : forall sig pk src,
  N.of_nat (length sig) < LIMIT -> N.of_nat (length pk) < LIMIT -> N.of_nat (length src) < LIMIT -> src <> [] ->
  parse_input (push sig ++ push pk ++ push src) =
  SMatch T_script_hash_timelock
         [(F_signature, VBytes sig); (F_pubkey, VBytes pk); (F_script, VSub SubTimeLock src)].
Proof.
  intros sig pk src Hs Hp Hsrc Hne.
  set (vs := [(F_signature, VBytes sig); (F_pubkey, VBytes pk); (F_script, VSub SubTimeLock src)]).
  assert (F : values_fit (snd REDEEM_SCRIPT_HASH_TIME_LOCK) vs).
  { intros op HIn. simpl in HIn.
    repeat (destruct HIn as [<-|HIn]; [cbn [lookup field_eqb field_code N.eqb Pos.eqb vs]|]); try contradiction.
    - exists sig. split; [reflexivity | exact Hs].
    - exists pk. split; [reflexivity | exact Hp].
    - exists SubTimeLock, src. split; [reflexivity|]. split; [exact Hne | exact Hsrc]. }
  destruct (generate_parse_input_fit T_script_hash_timelock _ vs
              (or_intror (or_intror (or_introl eq_refl))) F) as (s & G & P).
  unfold vs in G. rewrite timelock_spend_verbatim in G. inversion G; subst s. exact P.
Qed.

(* ======================================================================================== *)
(* I. where scripts travel and where the classification is used                               *)
(* ======================================================================================== *)

(* a generated script framed by its compact-size length (as inside a serialised transaction) is read
   back whole, for EVERY total script length below 2^63, whatever follows *)
Theorem frame_roundtrip : forall s rest, N.of_nat (length s) < 9223372036854775808 ->
  unframe (frame s ++ rest) = Some (s, rest).
Proof.
  intros s rest H. unfold unframe, frame.
  rewrite LV.Wire.CompactSize.read_string_encode by exact H. reflexivity.
Qed.

Theorem generated_output_on_wire : forall name ops vs, In (name, ops) output_templates -> values_fit ops vs ->
  exists s, generate ops vs = Some s /\
    (forall rest, N.of_nat (length s) < 9223372036854775808 ->
       exists s', unframe (frame s ++ rest) = Some (s', rest) /\
                  parse_output s' = SMatch name (expected ops vs)).
Proof.
  intros name ops vs HIn Hf. destruct (generate_parse_output_fit name ops vs HIn Hf) as (s & G & P).
  exists s. split; [exact G|]. intros rest H. exists s. split; [apply frame_roundtrip; exact H | exact P].
Qed.

Theorem generated_input_on_wire : forall name ops vs, In (name, ops) input_simple_templates -> values_fit ops vs ->
  exists s, generate ops vs = Some s /\
    (forall rest, N.of_nat (length s) < 9223372036854775808 ->
       exists s', unframe (frame s ++ rest) = Some (s', rest) /\
                  parse_input s' = SMatch name (expected ops vs)).
Proof.
  intros name ops vs HIn Hf. destruct (generate_parse_input_fit name ops vs HIn Hf) as (s & G & P).
  exists s. split; [exact G|]. intros rest H. exists s. split; [apply frame_roundtrip; exact H | exact P].
Qed.

(* ---- the daemon-facing type, the stored type and the coin filter ---- *)
Definition locked_shape (toks : list token) : Prop :=
  claim_shape toks \/ update_shape toks \/ support_shape toks \/ support_data_shape toks.

Lemma locked_class s toks : tokenize s = TokOk toks -> locked_shape toks ->
  classify s = CClaim \/ classify s = CUpdate \/ classify s = CSupport \/ classify s = CSupportData.
Proof.
  intros T [H|[H|[H|H]]];
    [left | right; left | do 2 right; left | do 3 right];
    apply classify_iff; exists toks; split; assumption.
Qed.

(* a claim, update or support output is shown as claim / support, stored as a claim type / support and
   is NOT a coin -- whatever the other outputs of the transaction are (a purchase record behind it
   included) and whatever the protobuf decoder says *)
Theorem view_locked : forall decodable scripts i s toks,
  nth_error scripts i = Some s -> tokenize s = TokOk toks -> locked_shape toks ->
  exists jt r, view_at decodable scripts i = Some (Some jt, r, false) /\
    (jt = JClaimCreate \/ jt = JClaimUpdate \/ jt = JSupport) /\ (r = 1 \/ r = 3) /\
    (claim_shape toks -> jt = JClaimCreate /\ r = 1) /\
    (update_shape toks -> jt = JClaimUpdate /\ r = 1) /\
    (support_shape toks \/ support_data_shape toks -> jt = JSupport /\ r = 3).
Proof.
  intros decodable scripts i s toks Hn T L. unfold view_at. rewrite Hn.
  assert (X : forall c1 c2, shape_class c1 -> shape_class c2 -> classify s = c1 -> class_shape c2 toks -> c1 = c2).
  { intros c1 c2 S1 S2 E H. apply (class_shape_exclusive c1 c2 toks S1 S2); [|exact H].
    apply classify_iff in E. destruct c1; try contradiction;
      destruct E as (toks' & T' & Hs); rewrite T in T'; inversion T'; subst; exact Hs. }
  destruct (locked_class s toks T L) as [E|[E|[E|E]]]; rewrite E; cbn.
  - exists JClaimCreate, 1. split; [reflexivity|]. split; [auto|]. split; [auto|].
    split; [auto|]. split.
    + intro H. pose proof (X CClaim CUpdate I I E H). discriminate.
    + intros [H|H]; [pose proof (X CClaim CSupport I I E H) | pose proof (X CClaim CSupportData I I E H)]; discriminate.
  - exists JClaimUpdate, 1. split; [reflexivity|]. split; [auto|]. split; [auto|].
    split; [intro H; pose proof (X CUpdate CClaim I I E H); discriminate|]. split; [auto|].
    intros [H|H]; [pose proof (X CUpdate CSupport I I E H) | pose proof (X CUpdate CSupportData I I E H)]; discriminate.
  - exists JSupport, 3. split; [reflexivity|]. split; [auto|]. split; [auto|].
    split; [intro H; pose proof (X CSupport CClaim I I E H); discriminate|].
    split; [intro H; pose proof (X CSupport CUpdate I I E H); discriminate | auto].
  - exists JSupport, 3. split; [reflexivity|]. split; [auto|]. split; [auto|].
    split; [intro H; pose proof (X CSupportData CClaim I I E H); discriminate|].
    split; [intro H; pose proof (X CSupportData CUpdate I I E H); discriminate | auto].
Qed.

(* an output is shown / stored as a purchase only when it is a plain payment at position 0 whose
   neighbour at position 1 is a decodable purchase record *)
Theorem view_purchase_only_payment : forall decodable scripts i jt r sp,
  view_at decodable scripts i = Some (jt, r, sp) -> (jt = Some JPurchase \/ r = 4) ->
  i = O /\ (exists s0 s1 rest, scripts = s0 :: s1 :: rest /\ purchase_record decodable s1 = true /\
                                (classify s0 = CPayment \/ classify s0 = CEmpty \/ classify s0 = CData
                                 \/ classify s0 = CPurchase \/ classify s0 = CNoMatch)) /\
  (jt = Some JPurchase -> exists s0, nth_error scripts 0 = Some s0 /\ (classify s0 = CPayment \/ classify s0 = CEmpty)).
Proof.
  intros decodable scripts i jt r sp H K. unfold view_at in H.
  destruct (nth_error scripts i) as [s|] eqn:Hn; [|discriminate]. inversion H; subst; clear H.
  assert (Lk : linked_at decodable scripts i = true).
  { destruct (linked_at decodable scripts i); [reflexivity|]. exfalso.
    destruct K as [K|K]; destruct (classify s); cbn in K; discriminate. }
  unfold linked_at in Lk. destruct i as [|i]; [|discriminate].
  destruct scripts as [|s0 [|s1 rest]]; try discriminate.
  cbn in Hn. inversion Hn; subst s0. split; [reflexivity|]. split.
  - exists s, s1, rest. split; [reflexivity|]. split; [exact Lk|].
    destruct K as [K|K]; destruct (classify s) eqn:C; cbn in K; try discriminate; try tauto;
      apply classify_iff in C; contradiction.
  - intro J. exists s. split; [reflexivity|]. destruct (classify s); cbn in J; try discriminate; tauto.
Qed.

(* the sweep: everything the coin filter lets through has no claim / update / support shape *)
Theorem spendable_not_locked : forall decodable scripts i s toks jt r,
  nth_error scripts i = Some s -> tokenize s = TokOk toks ->
  view_at decodable scripts i = Some (jt, r, true) -> ~ locked_shape toks.
Proof.
  intros decodable scripts i s toks jt r Hn T V L.
  destruct (view_locked decodable scripts i s toks Hn T L) as (jt' & r' & V' & _).
  rewrite V in V'. inversion V'.
Qed.

(* a claim, update or support output is never reported as an internal transfer (change), whoever
   funded and whoever receives it *)
Theorem internal_not_locked : forall decodable scripts i s toks mi mo,
  nth_error scripts i = Some s -> tokenize s = TokOk toks -> locked_shape toks ->
  internal_at decodable scripts i mi mo = false.
Proof.
  intros decodable scripts i s toks mi mo Hn T L. unfold internal_at. rewrite Hn.
  destruct (locked_class s toks T L) as [E|[E|[E|E]]]; rewrite E; cbn;
    rewrite andb_false_r; reflexivity.
Qed.

Lemma ex_view :
  tx_view (fun _ => true)
    [bs [181; 1; 97; 1; 98; 109; 117; 118; 169; 1; 99; 136; 172]; bs [106; 2; 80; 1]; bs [118; 169; 1; 99; 136; 172]]
  = [Some (Some JClaimCreate, 1, false); Some (Some JData, 0, true); Some (Some JPayment, 0, true)]
  /\ tx_view (fun _ => true) [bs [118; 169; 1; 99; 136; 172]; bs [106; 2; 80; 1]]
  = [Some (Some JPurchase, 4, true); Some (Some JData, 0, true)].
Proof. split; vm_compute; reflexivity. Qed.
