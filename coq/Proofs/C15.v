(* C15 proofs: the parser of Wire/Script.v on PUSH_MANY-free templates, unambiguity of template
   tables by a checked decision procedure, generate/parse round trip, first-match under the global
   template order, explicit opcode shapes of every output template, classification. *)
From Coq Require Import NArith ZArith List Bool Lia.
From Coq.Strings Require Import Byte.
From LV Require Import Lib.Bytes Wire.Push Wire.Script Model.C15.
Import ListNotations.
Local Open Scope N_scope.
Ltac Zify.zify_post_hook ::= Z.to_euclidean_division_equations.

(* ======================================================================================== *)
(* A. the parser never runs out of fuel                                                      *)
(* ======================================================================================== *)

Lemma span_push_length ops : (length (snd (span_push ops)) <= length ops)%nat.
Proof.
  induction ops as [|op r IH]; simpl; [lia|].
  destruct (is_push_op op); [|simpl; lia].
  destruct (span_push r) as [a b]. simpl in *. lia.
Qed.

Lemma consume_many_shorter name n ops' toks vs ro rt :
  consume_many name (PushMany n :: ops') toks = Some (vs, ro, rt) -> (length ro <= length ops')%nat.
Proof.
  unfold consume_many. destruct (span_data toks) as [datas rest_toks].
  cbn [span_push is_push_op]. pose proof (span_push_length ops') as L.
  destruct (span_push ops') as [a b]. simpl in L.
  destruct (1 <? _)%nat; [discriminate|].
  destruct (_ <? _)%nat; [discriminate|].
  destruct (zip_singles _ _); [|discriminate].
  intro H. inversion H; subst. exact L.
Qed.

Lemma pcons_fuel kv r : pcons kv r = PFuel -> r = PFuel.
Proof. destruct r; simpl; congruence. Qed.

Lemma parse_fuel_no_fuel : forall f ops toks, (length ops < f)%nat -> parse_fuel f ops toks <> PFuel.
Proof.
  induction f as [|f IH]; intros ops toks H; [lia|].
  destruct ops as [|op ops']; destruct toks as [|t toks']; cbn [parse_fuel]; try discriminate.
  simpl in H.
  assert (R : forall kv x, parse_fuel f ops' x <> PFuel -> pcons kv (parse_fuel f ops' x) <> PFuel)
    by (intros kv x Hx K; apply pcons_fuel in K; contradiction).
  assert (I : forall x, parse_fuel f ops' x <> PFuel) by (intro x; apply IH; lia).
  set (t1 := match t with TOp 0 => match op with PushSingle _ => TData [] | _ => t end | _ => t end).
  replace (match t, op with TOp 0, PushSingle _ => TData [] | _, _ => t end) with t1
    by (unfold t1; destruct t as [d|k|[|p]]; destruct op; reflexivity).
  clearbody t1.
  destruct t1 as [d|k|v].
  - destruct op as [o|n|n|n|n s|n]; cbn [push_single]; try discriminate; try (apply R; apply I).
    destruct (consume_many n (PushMany n :: ops') (TData d :: toks')) as [[[vs ro] rt]|] eqn:E; [|discriminate].
    apply consume_many_shorter in E. intro K. apply pcons_fuel in K. revert K. apply IH. lia.
  - destruct op; try discriminate. apply R. apply I.
  - destruct op; try discriminate. destruct (v =? o); [apply I | discriminate].
Qed.

Lemma parse_no_fuel ops toks : parse ops toks <> PFuel.
Proof. apply parse_fuel_no_fuel. lia. Qed.

Lemma template_parse_no_fuel ops toks : template_parse ops toks <> PFuel.
Proof. destruct ops; [discriminate | apply parse_no_fuel]. Qed.

Lemma first_match_no_fuel tpls toks : first_match tpls toks <> SFuel.
Proof.
  induction tpls as [|[name ops] r IH]; simpl; [discriminate|].
  pose proof (template_parse_no_fuel ops toks).
  destruct (template_parse ops toks); [discriminate | exact IH | congruence].
Qed.

Lemma script_parse_no_fuel hint tpls s : script_parse hint tpls s <> SFuel.
Proof.
  unfold script_parse. pose proof (tokenize_no_fuel s).
  destruct (tokenize s) as [toks|[|]]; [apply first_match_no_fuel | discriminate | congruence].
Qed.

(* ======================================================================================== *)
(* B. PUSH_MANY-free templates: a fuel-free, structurally recursive description              *)
(* ======================================================================================== *)

Definition match_tok (op : topcode) (t : token) : option values :=
  match op, t with
  | OpLit o, TOp v => if v =? o then Some [] else None
  | PushSingle n, TData d => Some [(n, VBytes d)]
  | PushSingle n, TOp 0 => Some [(n, VBytes [])]
  | PushInteger n, TData d => Some [(n, VInt (le_decode d))]
  | PushSub n s, TData d => Some [(n, VSub s d)]
  | SmallInt n, TSmall k => Some [(n, VSmall k)]
  | _, _ => None
  end.

Fixpoint parse_simple (ops : list topcode) (toks : list token) : option values :=
  match ops, toks with
  | [], [] => Some []
  | op :: ops', t :: toks' =>
      match match_tok op t, parse_simple ops' toks' with
      | Some a, Some b => Some (a ++ b)
      | _, _ => None
      end
  | _, _ => None
  end.

Definition of_opt (o : option values) : presult := match o with Some v => PMatch v | None => PNoMatch end.
Definition no_many (ops : list topcode) : bool := forallb (fun op => negb (is_many op)) ops.

Lemma parse_fuel_simple : forall f ops toks, no_many ops = true -> (length ops < f)%nat ->
  parse_fuel f ops toks = of_opt (parse_simple ops toks).
Proof.
  induction f as [|f IH]; intros ops toks Hn H; [lia|].
  destruct ops as [|op ops']; destruct toks as [|t toks']; cbn [parse_fuel parse_simple]; try reflexivity.
  simpl in H. cbn [no_many forallb] in Hn. apply andb_true_iff in Hn as [Hop Hn].
  assert (I : forall x, parse_fuel f ops' x = of_opt (parse_simple ops' x)) by (intro x; apply IH; [exact Hn | lia]).
  destruct t as [d|k|[|p]]; destruct op as [o|n|n|n|n s|n]; cbn [match_tok push_single is_many negb] in *;
    try discriminate; try reflexivity; try rewrite I;
    try (destruct (parse_simple ops' toks'); reflexivity).
  - destruct (0 =? o); [|reflexivity]. destruct (parse_simple ops' toks'); reflexivity.
  - destruct (N.pos p =? o); [|reflexivity]. destruct (parse_simple ops' toks'); reflexivity.
Qed.

Lemma parse_simple_eq ops toks : no_many ops = true -> parse ops toks = of_opt (parse_simple ops toks).
Proof. intro H. apply parse_fuel_simple; [exact H | lia]. Qed.

Lemma template_parse_simple ops toks : no_many ops = true -> ops <> [] ->
  template_parse ops toks = of_opt (parse_simple ops toks).
Proof. intros H Hne. destruct ops; [congruence|]. apply parse_simple_eq. exact H. Qed.

(* inversion principles *)
Lemma parse_simple_nil_inv toks vs : parse_simple [] toks = Some vs -> toks = [] /\ vs = [].
Proof. destruct toks; simpl; intro H; [inversion H; auto | discriminate]. Qed.

Lemma parse_simple_cons_inv op ops toks vs : parse_simple (op :: ops) toks = Some vs ->
  exists t toks' v1 v2, toks = t :: toks' /\ match_tok op t = Some v1 /\
                        parse_simple ops toks' = Some v2 /\ vs = v1 ++ v2.
Proof.
  destruct toks as [|t toks']; cbn [parse_simple]; [discriminate|].
  destruct (match_tok op t) as [a|] eqn:E1; [|discriminate].
  destruct (parse_simple ops toks') as [b|] eqn:E2; [|discriminate].
  intro H. inversion H. exists t, toks', a, b. auto.
Qed.

(* a pushed datum as it appears in a token list: a data token, or OP_0 for the empty string *)
Inductive pushed : token -> bytes -> Prop :=
| pushed_data d : pushed (TData d) d
| pushed_zero : pushed (TOp 0) [].

Lemma match_tok_lit_inv o t v : match_tok (OpLit o) t = Some v -> t = TOp o /\ v = [].
Proof.
  destruct t as [d|k|x]; simpl; try discriminate.
  destruct (x =? o) eqn:E; [|discriminate]. apply N.eqb_eq in E. intro H. inversion H. subst. auto.
Qed.
Lemma match_tok_single_inv n t v : match_tok (PushSingle n) t = Some v ->
  exists d, pushed t d /\ v = [(n, VBytes d)].
Proof.
  destruct t as [d|k|[|p]]; simpl; try discriminate; intro H; inversion H.
  - exists d. split; [constructor | reflexivity].
  - exists []. split; [constructor | reflexivity].
Qed.
Lemma match_tok_single_pushed n t d : pushed t d -> match_tok (PushSingle n) t = Some [(n, VBytes d)].
Proof. intro H. destruct H; reflexivity. Qed.
Lemma dtok_pushed d : pushed (dtok d) d.
Proof. destruct d; constructor. Qed.

(* ---- compatibility of template opcodes: can one token satisfy both? ---- *)
Definition compat (a b : topcode) : bool :=
  match a, b with
  | OpLit x, OpLit y => x =? y
  | OpLit x, PushSingle _ | PushSingle _, OpLit x => x =? 0
  | OpLit _, _ | _, OpLit _ => false
  | SmallInt _, SmallInt _ => true
  | SmallInt _, _ | _, SmallInt _ => false
  | _, _ => true
  end.

Lemma compat_sound a b t va vb : match_tok a t = Some va -> match_tok b t = Some vb -> compat a b = true.
Proof.
  destruct a as [x|n|n|n|n s|n]; destruct b as [y|m|m|m|m s'|m]; destruct t as [d|k|[|p]];
    cbn [match_tok compat]; try discriminate; try reflexivity; intros H1 H2.
  - destruct (0 =? x) eqn:E1; [|discriminate]. destruct (0 =? y) eqn:E2; [|discriminate].
    apply N.eqb_eq in E1. apply N.eqb_eq in E2. subst. reflexivity.
  - destruct (N.pos p =? x) eqn:E1; [|discriminate]. destruct (N.pos p =? y) eqn:E2; [|discriminate].
    apply N.eqb_eq in E1. apply N.eqb_eq in E2. subst. apply N.eqb_refl.
  - destruct (0 =? x) eqn:E1; [|discriminate]. apply N.eqb_eq in E1. subst. reflexivity.
  - destruct (0 =? y) eqn:E1; [|discriminate]. apply N.eqb_eq in E1. subst. reflexivity.
Qed.

Fixpoint all_compat (a b : list topcode) : bool :=
  match a, b with
  | [], [] => true
  | x :: a', y :: b' => compat x y && all_compat a' b'
  | _, _ => false
  end.

Lemma all_compat_sound : forall a b toks va vb,
  parse_simple a toks = Some va -> parse_simple b toks = Some vb -> all_compat a b = true.
Proof.
  induction a as [|x a IH]; intros b toks va vb H1 H2.
  - apply parse_simple_nil_inv in H1 as [-> _]. destruct b; [reflexivity | discriminate].
  - apply parse_simple_cons_inv in H1 as (t & toks' & v1 & v2 & -> & M1 & P1 & _).
    destruct b as [|y b]; [discriminate|].
    apply parse_simple_cons_inv in H2 as (t2 & toks2 & w1 & w2 & E & M2 & P2 & _).
    inversion E; subst. cbn [all_compat].
    rewrite (compat_sound _ _ _ _ _ M1 M2). simpl. eapply IH; eassumption.
Qed.

(* a table of simple, non-empty, pairwise incompatible templates *)
Definition simple_table (l : list template) : bool :=
  forallb (fun t => no_many (snd t) && negb (match snd t with [] => true | _ => false end)) l.
Fixpoint pairwise_incompat (l : list template) : bool :=
  match l with
  | [] => true
  | t :: r => forallb (fun u => negb (all_compat (snd t) (snd u))) r && pairwise_incompat r
  end.

Lemma simple_table_In l name ops : simple_table l = true -> In (name, ops) l -> no_many ops = true /\ ops <> [].
Proof.
  unfold simple_table. rewrite forallb_forall. intros H HIn. specialize (H _ HIn). simpl in H.
  apply andb_true_iff in H as [H1 H2]. split; [exact H1|]. destruct ops; [discriminate | discriminate].
Qed.

(* first-match over [pre ++ post] picks the (unique) matching template of the simple prefix *)
Lemma first_match_prefix : forall pre post toks name ops vs,
  simple_table pre = true -> pairwise_incompat pre = true ->
  In (name, ops) pre -> parse_simple ops toks = Some vs ->
  first_match (pre ++ post) toks = SMatch name vs.
Proof.
  induction pre as [|[n1 o1] r IH]; intros post toks name ops vs Hs Hp HIn Hm; [destruct HIn|].
  cbn [app first_match].
  assert (S1 : no_many o1 = true /\ o1 <> []) by (eapply simple_table_In; [exact Hs | left; reflexivity]).
  destruct S1 as [S1 S2]. rewrite template_parse_simple by assumption.
  cbn [simple_table forallb] in Hs. apply andb_true_iff in Hs as [_ Hs].
  cbn [pairwise_incompat] in Hp. apply andb_true_iff in Hp as [Hh Hp].
  destruct HIn as [E|HIn].
  - inversion E; subst. rewrite Hm. reflexivity.
  - destruct (parse_simple o1 toks) as [v1|] eqn:E1.
    + rewrite forallb_forall in Hh. specialize (Hh _ HIn). simpl in Hh.
      rewrite (all_compat_sound _ _ _ _ _ E1 Hm) in Hh. discriminate.
    + simpl. eapply IH; eassumption.
Qed.

Lemma first_match_In : forall tpls toks name vs, first_match tpls toks = SMatch name vs ->
  exists ops, In (name, ops) tpls /\ template_parse ops toks = PMatch vs.
Proof.
  induction tpls as [|[n1 o1] r IH]; intros toks name vs H; [discriminate|].
  cbn [first_match] in H. destruct (template_parse o1 toks) as [v| |] eqn:E.
  - inversion H; subst. exists o1. split; [left; reflexivity | exact E].
  - destruct (IH _ _ _ H) as (ops & HIn & Hp). exists ops. split; [right; exact HIn | exact Hp].
  - discriminate.
Qed.

(* two templates of a pairwise incompatible simple table never match the same token list *)
Lemma table_unambiguous : forall l toks a b va vb,
  simple_table l = true -> pairwise_incompat l = true -> In a l -> In b l ->
  parse_simple (snd a) toks = Some va -> parse_simple (snd b) toks = Some vb -> a = b.
Proof.
  induction l as [|h r IH]; intros toks a b va vb Hs Hp Ha Hb Ma Mb; [destruct Ha|].
  cbn [simple_table forallb] in Hs. apply andb_true_iff in Hs as [_ Hs].
  cbn [pairwise_incompat] in Hp. apply andb_true_iff in Hp as [Hh Hp].
  rewrite forallb_forall in Hh.
  destruct Ha as [Ea|Ha]; destruct Hb as [Eb|Hb].
  - congruence.
  - subst h. specialize (Hh _ Hb). rewrite (all_compat_sound _ _ _ _ _ Ma Mb) in Hh. discriminate.
  - subst h. specialize (Hh _ Ha). rewrite (all_compat_sound _ _ _ _ _ Mb Ma) in Hh. discriminate.
  - eapply IH; eassumption.
Qed.

(* the concrete tables *)
Lemma output_table_simple : simple_table output_templates = true.
Proof. vm_compute. reflexivity. Qed.
Lemma output_table_incompat : pairwise_incompat output_templates = true.
Proof. vm_compute. reflexivity. Qed.
Definition input_simple_templates : list template := [REDEEM_PUBKEY; REDEEM_PUBKEY_HASH; REDEEM_SCRIPT_HASH_TIME_LOCK].
Lemma input_table_split : input_templates = input_simple_templates ++ [REDEEM_SCRIPT_HASH_MULTI_SIG].
Proof. reflexivity. Qed.
Lemma input_table_simple : simple_table input_simple_templates = true.
Proof. vm_compute. reflexivity. Qed.
Lemma input_table_incompat : pairwise_incompat input_simple_templates = true.
Proof. vm_compute. reflexivity. Qed.

(* ======================================================================================== *)
(* C. generation and the round trip                                                          *)
(* ======================================================================================== *)

Definition LIMIT : N := 4294967296.   (* 2^32: push_data's uint32 length *)

(* what a template slot needs from the values: present, of the right kind, below 2^32 bytes *)
Definition slot_ok (vs : values) (op : topcode) : Prop :=
  match op with
  | OpLit o => plain_op o = true
  | PushSingle n => exists d, lookup n vs = Some (VBytes d) /\ N.of_nat (length d) < LIMIT
  | PushInteger n => exists v, lookup n vs = Some (VInt v) /\ N.of_nat (length (int_bytes v)) < LIMIT
  | PushSub n _ => exists s src, lookup n vs = Some (VSub s src) /\ src <> [] /\ N.of_nat (length src) < LIMIT
  | PushMany _ | SmallInt _ => False
  end.

(* the values dictionary the parser is expected to return, in template order *)
Definition expect1 (vs : values) (op : topcode) : values :=
  match op with
  | PushSingle n => match lookup n vs with Some (VBytes d) => [(n, VBytes d)] | _ => [] end
  | PushInteger n => match lookup n vs with Some (VInt v) => [(n, VInt v)] | _ => [] end
  | PushSub n s => match lookup n vs with Some (VSub _ src) => [(n, VSub s src)] | _ => [] end
  | _ => []
  end.
Definition expected (ops : list topcode) (vs : values) : values := flat_map (expect1 vs) ops.

Lemma int_bytes_width v : (0 < N.to_nat ((N.size v + 8) / 8))%nat.
Proof. assert (1 <= (N.size v + 8) / 8) by (generalize (N.size v); intro; lia). lia. Qed.

Lemma int_bytes_nonempty v : int_bytes v <> [].
Proof.
  unfold int_bytes. pose proof (int_bytes_width v) as W.
  destruct (N.to_nat ((N.size v + 8) / 8)); [lia | discriminate].
Qed.

Lemma int_bytes_decode v : le_decode (int_bytes v) = v.
Proof.
  unfold int_bytes. apply le_decode_encode. rewrite N2Nat.id.
  set (w := (N.size v + 8) / 8).
  assert (Hw : N.size v <= 8 * w) by (unfold w; generalize (N.size v); intro; lia).
  replace 256 with (2 ^ 8) by reflexivity. rewrite <- N.pow_mul_r.
  apply N.lt_le_trans with (2 ^ N.size v); [apply N.size_gt|].
  apply N.pow_le_mono_r; [lia | exact Hw].
Qed.

Lemma int_bytes_length v : N.of_nat (length (int_bytes v)) = (N.size v + 8) / 8.
Proof. unfold int_bytes. rewrite le_encode_length, N2Nat.id. reflexivity. Qed.

Lemma dtok_nonempty d : d <> [] -> dtok d = TData d.
Proof. destruct d; [congruence | reflexivity]. Qed.

(* the generated bytes tokenize to one token per template opcode, and that token list parses,
   under the template itself, to the expected values *)
Lemma generate_roundtrip : forall ops vs, Forall (slot_ok vs) ops ->
  exists s toks, generate ops vs = Some s /\ tokenize s = TokOk toks /\
                 parse_simple ops toks = Some (expected ops vs) /\ length toks = length ops.
Proof.
  induction ops as [|op r IH]; intros vs H.
  - exists [], []. repeat split; reflexivity.
  - inversion H as [|x l Hop Hr]; subst. destruct (IH vs Hr) as (s & toks & G & T & P & L).
    cbn [generate]. rewrite G. unfold expected. cbn [flat_map]. fold (expected r vs).
    destruct op as [o|n|n|n|n sub|n]; cbn [slot_ok] in Hop; try contradiction.
    + exists (byte_of_N o :: s), (TOp o :: toks). cbn [app].
      split; [reflexivity|]. split; [rewrite tokenize_plain_op by exact Hop; rewrite T; reflexivity|].
      split; [|simpl; congruence].
      cbn [parse_simple match_tok expect1]. rewrite N.eqb_refl, P. reflexivity.
    + destruct Hop as (d & Hl & Hd). rewrite Hl.
      exists (push d ++ s), (dtok d :: toks).
      split; [reflexivity|]. split; [rewrite tokenize_push by exact Hd; rewrite T; reflexivity|].
      split; [|simpl; congruence].
      cbn [parse_simple expect1]. rewrite Hl. rewrite (match_tok_single_pushed n _ d (dtok_pushed d)), P. reflexivity.
    + destruct Hop as (v & Hl & Hd). rewrite Hl.
      exists (push (int_bytes v) ++ s), (TData (int_bytes v) :: toks).
      split; [reflexivity|].
      split; [rewrite tokenize_push by exact Hd; rewrite T, dtok_nonempty by apply int_bytes_nonempty; reflexivity|].
      split; [|simpl; congruence].
      cbn [parse_simple match_tok expect1]. rewrite Hl, int_bytes_decode, P. reflexivity.
    + destruct Hop as (s0 & src & Hl & Hne & Hd). rewrite Hl.
      exists (push src ++ s), (TData src :: toks).
      split; [reflexivity|].
      split; [rewrite tokenize_push by exact Hd; rewrite T, dtok_nonempty by exact Hne; reflexivity|].
      split; [|simpl; congruence].
      cbn [parse_simple match_tok expect1]. rewrite Hl, P. reflexivity.
Qed.

(* under a table whose simple prefix contains the generating template: first match = that template *)
Lemma generate_script_parse : forall pre post name ops vs,
  simple_table pre = true -> pairwise_incompat pre = true -> In (name, ops) pre ->
  Forall (slot_ok vs) ops ->
  exists s, generate ops vs = Some s /\ script_parse None (pre ++ post) s = SMatch name (expected ops vs).
Proof.
  intros pre post name ops vs Hs Hp HIn Hok.
  destruct (generate_roundtrip ops vs Hok) as (s & toks & G & T & P & L).
  exists s. split; [exact G|]. unfold script_parse. rewrite T.
  destruct (simple_table_In _ _ _ Hs HIn) as [_ Hne].
  destruct toks as [|t toks']; [destruct ops; [congruence | discriminate]|].
  cbn [app]. eapply first_match_prefix; eassumption.
Qed.

Theorem generate_parse_output : forall name ops vs, In (name, ops) output_templates ->
  Forall (slot_ok vs) ops ->
  exists s, generate ops vs = Some s /\ parse_output s = SMatch name (expected ops vs).
Proof.
  intros name ops vs HIn Hok. unfold parse_output.
  rewrite <- (app_nil_r output_templates).
  apply generate_script_parse; [apply output_table_simple | apply output_table_incompat | exact HIn | exact Hok].
Qed.

Theorem generate_parse_input : forall name ops vs, In (name, ops) input_simple_templates ->
  Forall (slot_ok vs) ops ->
  exists s, generate ops vs = Some s /\ parse_input s = SMatch name (expected ops vs).
Proof.
  intros name ops vs HIn Hok. unfold parse_input. rewrite input_table_split.
  apply generate_script_parse; [apply input_table_simple | apply input_table_incompat | exact HIn | exact Hok].
Qed.

(* the time-lock redeem script, parsed the way values['script'].values parses it (template hint) *)
Theorem generate_parse_timelock : forall vs, Forall (slot_ok vs) (snd TIME_LOCK_SCRIPT) ->
  exists s, generate (snd TIME_LOCK_SCRIPT) vs = Some s /\ s <> [] /\
            parse_sub SubTimeLock s = SMatch T_timelock (expected (snd TIME_LOCK_SCRIPT) vs).
Proof.
  intros vs Hok.
  destruct (generate_roundtrip _ vs Hok) as (s & toks & G & T & P & L).
  exists s. split; [exact G|]. split.
  - intro E. subst s. rewrite tokenize_nil in T. inversion T; subst. discriminate.
  - unfold parse_sub, script_parse. rewrite T.
    destruct toks as [|t toks']; [discriminate|].
    cbn [sub_template app].
    change [TIME_LOCK_SCRIPT] with ([TIME_LOCK_SCRIPT] ++ []).
    eapply first_match_prefix with (ops := snd TIME_LOCK_SCRIPT);
      [vm_compute; reflexivity | vm_compute; reflexivity | left; reflexivity | exact P].
Qed.

(* all literal opcodes of the tables are plain opcodes, so [slot_ok] only constrains the values *)
Definition lits_plain (ops : list topcode) : bool :=
  forallb (fun op => match op with OpLit o => plain_op o | _ => true end) ops.
Lemma tables_lits_plain :
  forallb (fun t => lits_plain (snd t)) (TIME_LOCK_SCRIPT :: output_templates ++ input_simple_templates) = true.
Proof. vm_compute. reflexivity. Qed.

(* values_fit: like slot_ok, but says nothing about literal opcodes (those are a fact about the tables) *)
Definition values_fit (ops : list topcode) (vs : values) : Prop :=
  forall op, In op ops ->
    match op with
    | OpLit _ => True
    | PushSingle n => exists d, lookup n vs = Some (VBytes d) /\ N.of_nat (length d) < LIMIT
    | PushInteger n => exists v, lookup n vs = Some (VInt v) /\ (N.size v + 8) / 8 < LIMIT
    | PushSub n _ => exists s src, lookup n vs = Some (VSub s src) /\ src <> [] /\ N.of_nat (length src) < LIMIT
    | PushMany _ | SmallInt _ => False
    end.

Lemma values_fit_slot_ok ops vs : lits_plain ops = true -> values_fit ops vs -> Forall (slot_ok vs) ops.
Proof.
  intros Hl Hf. apply Forall_forall. intros op HIn. specialize (Hf op HIn).
  unfold lits_plain in Hl. rewrite forallb_forall in Hl. specialize (Hl op HIn).
  destruct op; cbn [slot_ok]; try assumption.
  destruct Hf as (v & H1 & H2). exists v. split; [exact H1|]. rewrite int_bytes_length. exact H2.
Qed.

Lemma table_lits_plain name ops :
  In (name, ops) (TIME_LOCK_SCRIPT :: output_templates ++ input_simple_templates) -> lits_plain ops = true.
Proof.
  intro H. pose proof tables_lits_plain as T. rewrite forallb_forall in T. apply (T _ H).
Qed.

Theorem generate_parse_output_fit : forall name ops vs, In (name, ops) output_templates ->
  values_fit ops vs ->
  exists s, generate ops vs = Some s /\ parse_output s = SMatch name (expected ops vs).
Proof.
  intros name ops vs HIn Hf. apply generate_parse_output; [exact HIn|].
  apply values_fit_slot_ok; [|exact Hf]. apply (table_lits_plain name). right. apply in_or_app. left. exact HIn.
Qed.

Theorem generate_parse_input_fit : forall name ops vs, In (name, ops) input_simple_templates ->
  values_fit ops vs ->
  exists s, generate ops vs = Some s /\ parse_input s = SMatch name (expected ops vs).
Proof.
  intros name ops vs HIn Hf. apply generate_parse_input; [exact HIn|].
  apply values_fit_slot_ok; [|exact Hf]. apply (table_lits_plain name). right. apply in_or_app. right. exact HIn.
Qed.

Theorem generate_parse_timelock_fit : forall vs, values_fit (snd TIME_LOCK_SCRIPT) vs ->
  exists s, generate (snd TIME_LOCK_SCRIPT) vs = Some s /\ s <> [] /\
            parse_sub SubTimeLock s = SMatch T_timelock (expected (snd TIME_LOCK_SCRIPT) vs).
Proof.
  intros vs Hf. apply generate_parse_timelock. apply values_fit_slot_ok; [|exact Hf].
  apply (table_lits_plain T_timelock). left. reflexivity.
Qed.

(* the whole spend of a time-locked output: the redeem script generated from (height, pubkey_hash),
   wrapped with signature and pubkey, parses back under the global input order, and the carried
   subscript parses back to height and pubkey_hash *)
Theorem generate_parse_timelock_spend : forall sig pk height pkh,
  N.of_nat (length sig) < LIMIT -> N.of_nat (length pk) < LIMIT -> N.of_nat (length pkh) < LIMIT - 32 ->
  height < 2 ^ 64 ->
  exists src s,
    generate (snd TIME_LOCK_SCRIPT) [(F_height, VInt height); (F_pubkey_hash, VBytes pkh)] = Some src /\
    generate (snd REDEEM_SCRIPT_HASH_TIME_LOCK)
             [(F_signature, VBytes sig); (F_pubkey, VBytes pk); (F_script, VSub SubTimeLock src)] = Some s /\
    parse_input s = SMatch T_script_hash_timelock
                      [(F_signature, VBytes sig); (F_pubkey, VBytes pk); (F_script, VSub SubTimeLock src)] /\
    parse_sub SubTimeLock src = SMatch T_timelock [(F_height, VInt height); (F_pubkey_hash, VBytes pkh)].
Proof.
  intros sig pk height pkh Hs Hp Hh Hv. unfold LIMIT in *.
  assert (Hsz : (N.size height + 8) / 8 <= 9).
  { assert (N.size height <= 64).
    { destruct height as [|p]; [simpl; lia|].
      rewrite N.size_log2 by discriminate.
      assert (N.log2 (N.pos p) < 64) by (apply N.log2_lt_pow2; lia). lia. }
    generalize dependent (N.size height). intros. lia. }
  set (vs1 := [(F_height, VInt height); (F_pubkey_hash, VBytes pkh)]).
  assert (F1 : values_fit (snd TIME_LOCK_SCRIPT) vs1).
  { intros op HIn. simpl in HIn.
    repeat (destruct HIn as [<-|HIn]; [cbn [lookup field_eqb field_code N.eqb Pos.eqb vs1]|]); try exact I; try contradiction.
    - exists height. split; [reflexivity|]. unfold LIMIT. lia.
    - exists pkh. split; [reflexivity|]. unfold LIMIT. lia. }
  destruct (generate_parse_timelock_fit vs1 F1) as (src & G1 & Hne & P1).
  (* length of the generated redeem script *)
  assert (Lsrc : N.of_nat (length src) < 4294967296).
  { cbn in G1. unfold vs1 in G1.
    inversion G1 as [E]. clear G1. unfold push.
    repeat (rewrite app_length || cbn [length]). rewrite !push_header_length.
    pose proof (int_bytes_length height) as IL.
    destruct (N.of_nat (length (int_bytes height)) <? 76) eqn:E1;
      [|apply N.ltb_ge in E1; lia].
    destruct (N.of_nat (length pkh) <? 76); [lia|].
    destruct (N.of_nat (length pkh) <=? 255); [lia|].
    destruct (N.of_nat (length pkh) <=? 65535); lia. }
  set (vs2 := [(F_signature, VBytes sig); (F_pubkey, VBytes pk); (F_script, VSub SubTimeLock src)]).
  assert (F2 : values_fit (snd REDEEM_SCRIPT_HASH_TIME_LOCK) vs2).
  { intros op HIn. simpl in HIn.
    repeat (destruct HIn as [<-|HIn]; [cbn [lookup field_eqb field_code N.eqb Pos.eqb vs2]|]); try contradiction.
    - exists sig. split; [reflexivity | exact Hs].
    - exists pk. split; [reflexivity | exact Hp].
    - exists SubTimeLock, src. split; [reflexivity|]. split; [exact Hne | exact Lsrc]. }
  destruct (generate_parse_input_fit T_script_hash_timelock _ vs2
              (or_intror (or_intror (or_introl eq_refl))) F2) as (s & G2 & P2).
  exists src, s. split; [exact G1|]. split; [exact G2|]. split; [exact P2 | exact P1].
Qed.
